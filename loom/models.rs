// Loom models of the crate's own code (C05, C06), compiled INSIDE the crate through the verification
// hook in src/lib.rs (`--cfg loom --cfg tokio_rs_bytes_verif`, env VERIF_DIR).
//
// Every buffer under test has a ghost `loom::cell::UnsafeCell`:
//   * read-accessed while a thread reads through its handle,
//   * write-accessed by this file's global allocator when the buffer is deallocated, and after a
//     successful exclusive (zero-copy) conversion,
// so loom's causality checker reports any use that does not happen-before the deallocation or the
// exclusive reuse, in every interleaving and every stale-read outcome it explores.
// The allocator also counts deallocations per buffer (exactly one) and detects double frees.

use crate::{Buf, BufMut, Bytes, BytesMut};
use loom::cell::UnsafeCell;
use loom::sync::Arc;
use loom::thread;
use std::alloc::{GlobalAlloc, Layout, System};
use std::sync::atomic::{AtomicBool, AtomicUsize, Ordering as O};
use std::vec::Vec;

const SLOTS: usize = 8;

struct Slot {
    addr: AtomicUsize,
    size: AtomicUsize,
    frees: AtomicUsize,
    ghost: AtomicUsize, // *const UnsafeCell<()> of the current model iteration (0 = none)
}

#[allow(clippy::declare_interior_mutable_const)]
const EMPTY: Slot = Slot { addr: AtomicUsize::new(0), size: AtomicUsize::new(0), frees: AtomicUsize::new(0), ghost: AtomicUsize::new(0) };
static REG: [Slot; SLOTS] = [EMPTY; SLOTS];
static BUSY: AtomicBool = AtomicBool::new(false);

struct VerifAlloc;

unsafe impl GlobalAlloc for VerifAlloc {
    unsafe fn alloc(&self, l: Layout) -> *mut u8 {
        // a conversion that copies (`Vec::from(Bytes)` of a shared buffer) allocates its destination right before the plain,
        // un-instrumented copy: loom never preempts inside plain code, so the model asks for one scheduling point here
        // (one-shot, only for the size it announced, only on the announcing thread)
        if l.align() == 1 && l.size() != 0 && YIELD_ON_COPY.with(|c| c.get() == l.size() || c.get() == usize::MAX) {
            YIELD_ON_COPY.with(|c| c.set(0));
            thread::yield_now();
        }
        System.alloc(l)
    }
    unsafe fn dealloc(&self, p: *mut u8, l: Layout) {
        if l.align() == 1 && !BUSY.swap(true, O::SeqCst) {
            for s in REG.iter() {
                if s.addr.load(O::SeqCst) == p as usize && p as usize != 0 {
                    s.frees.fetch_add(1, O::SeqCst);
                    s.size.store(l.size(), O::SeqCst);
                    let g = s.ghost.load(O::SeqCst) as *const UnsafeCell<()>;
                    if !g.is_null() {
                        // the deallocation is a write to the buffer: poison it, and keep it out of circulation (quarantine by
                        // leaking these few bytes), so that a copy that runs after the release reads 0xDD, not stale good data
                        (*g).with_mut(|_| std::ptr::write_bytes(p, 0xDD, l.size()));
                        BUSY.store(false, O::SeqCst);
                        return;
                    }
                }
            }
            BUSY.store(false, O::SeqCst);
        }
        System.dealloc(p, l)
    }
}

std::thread_local! {
    /// size of the copy destination the current thread is about to allocate (0: none, usize::MAX: whatever size); see `alloc`
    static YIELD_ON_COPY: std::cell::Cell<usize> = const { std::cell::Cell::new(0) };
}

#[global_allocator]
static GLOBAL: VerifAlloc = VerifAlloc;

/// Ghost state of one buffer in one model iteration.
struct Ghost {
    cell: UnsafeCell<()>,
    slot: usize,
}
// the ghost cell is only touched through loom's checked `with` / `with_mut`
unsafe impl Sync for Ghost {}
unsafe impl Send for Ghost {}

struct SyncCell(UnsafeCell<()>);
unsafe impl Sync for SyncCell {}
unsafe impl Send for SyncCell {}

impl Ghost {
    fn register(slot: usize, addr: *const u8) -> Arc<Ghost> {
        let g = Arc::new(Ghost { cell: UnsafeCell::new(()), slot });
        REG[slot].frees.store(0, O::SeqCst);
        REG[slot].addr.store(addr as usize, O::SeqCst);
        REG[slot].ghost.store(&g.cell as *const _ as usize, O::SeqCst);
        g
    }
    fn reading<R>(&self, f: impl FnOnce() -> R) -> R {
        self.cell.with(|_| f())
    }
    fn writing<R>(&self, f: impl FnOnce() -> R) -> R {
        self.cell.with_mut(|_| f())
    }
    fn frees(&self) -> usize {
        REG[self.slot].frees.load(O::SeqCst)
    }
    /// called at the end of an iteration, before the Arc<Ghost> itself goes away
    fn finish(&self, expect_frees: usize) {
        assert_eq!(self.frees(), expect_frees, "buffer must be deallocated exactly once, after the last handle");
        REG[self.slot].ghost.store(0, O::SeqCst);
        REG[self.slot].addr.store(0, O::SeqCst);
    }
}

const DATA: &[u8] = b"abcdefgh";

/// the shared representations of `Bytes`
#[derive(Clone, Copy, Debug)]
enum Repr {
    Shared,     // Vec with spare capacity -> bytes.rs Shared
    Promotable, // boxed slice, KIND_VEC until the first clone
    Promoted,   // promotable, already cloned once
    Frozen,     // BytesMut::freeze of a shared BytesMut -> bytes_mut.rs Shared
    PromotableAdvanced, // boxed slice, KIND_VEC, view advanced before it is shared
}

fn make(r: Repr) -> (Bytes, *const u8, Option<Bytes>) {
    match r {
        Repr::Shared => {
            let mut v = Vec::with_capacity(DATA.len() + 4);
            v.extend_from_slice(DATA);
            let b = Bytes::from(v);
            let p = b.as_ptr();
            (b, p, None)
        }
        Repr::Promotable => {
            let b = Bytes::from(DATA.to_vec());
            let p = b.as_ptr();
            (b, p, None)
        }
        Repr::Promoted => {
            let b = Bytes::from(DATA.to_vec());
            let keep = b.clone();
            let p = b.as_ptr();
            (b, p, Some(keep))
        }
        Repr::PromotableAdvanced => {
            let mut b = Bytes::from(DATA.to_vec());
            let p = b.as_ptr();
            b.advance(3);
            (b, p, None)
        }
        Repr::Frozen => {
            let mut m = BytesMut::with_capacity(DATA.len() + 4);
            m.put_slice(DATA);
            let b = m.split().freeze();
            let p = b.as_ptr();
            (b, p, None)
        }
    }
}

fn check_read(b: &Bytes, g: &Ghost, base: usize) {
    g.reading(|| {
        assert_eq!(&b[..], &DATA[b.as_ptr() as usize - base..][..b.len()]);
    });
}

fn model(f: impl Fn() + Sync + Send + 'static) {
    let mut b = loom::model::Builder::new();
    if let Ok(n) = std::env::var("VERIF_LOOM_PREEMPTION") {
        b.preemption_bound = n.parse().ok();
    }
    b.check(f);
}

fn for_reprs(f: impl Fn(Repr) + Sync + Send + Copy + 'static) {
    for r in [Repr::Shared, Repr::Promotable, Repr::Promoted, Repr::Frozen, Repr::PromotableAdvanced] {
        model(move || f(r));
    }
}

/// P1: each thread owns a clone: read, slice, drop — the last one frees.
#[test]
fn p1_own_clones_read_and_drop() {
    for_reprs(|r| {
        let (a, p, keep) = make(r);
        let g = Ghost::register(0, p);
        let base = p as usize;
        let b = a.clone();
        drop(keep);
        let (g1, g2) = (g.clone(), g.clone());
        let t1 = thread::spawn(move || {
            check_read(&a, &g1, base);
            let s = a.slice(2..5);
            check_read(&s, &g1, base);
            drop(a);
            drop(s);
        });
        let t2 = thread::spawn(move || {
            check_read(&b, &g2, base);
            drop(b);
        });
        t1.join().unwrap();
        t2.join().unwrap();
        g.finish(1);
    });
}

/// P2: several threads clone through one shared `&Bytes` (promotion race on the data word).
#[test]
fn p2_clone_through_shared_reference() {
    for_reprs(|r| {
        let (a, p, keep) = make(r);
        drop(keep);
        let g = Ghost::register(0, p);
        let base = p as usize;
        let a = Arc::new(a);
        let hs: Vec<_> = (0..2)
            .map(|_| {
                let a = a.clone();
                let g = g.clone();
                thread::spawn(move || {
                    let c: Bytes = (*a).clone();
                    assert_eq!(c.as_ptr(), a.as_ptr(), "clone moved");
                    assert_eq!(c.len(), a.len());
                    check_read(&c, &g, base);
                    let u = a.is_unique();
                    let _ = u;
                    drop(c);
                })
            })
            .collect();
        for h in hs {
            h.join().unwrap();
        }
        check_read(&a, &g, base);
        drop(a);
        g.finish(1);
    });
}

/// P3: one thread reads and drops, the other converts into a Vec (zero-copy iff it is the last) and mutates.
#[test]
fn p3_into_vec_vs_read_drop() {
    for_reprs(|r| {
        let (a, p, keep) = make(r);
        drop(keep);
        let g = Ghost::register(0, p);
        let base = p as usize;
        let b = a.clone();
        let (g1, g2) = (g.clone(), g.clone());
        let t1 = thread::spawn(move || {
            check_read(&a, &g1, base);
            drop(a);
        });
        let t2 = thread::spawn(move || {
            let want: Vec<u8> = DATA[b.as_ptr() as usize - base..].to_vec();
            // if the conversion copies, let the other thread run between the allocation of the destination and the copy
            YIELD_ON_COPY.with(|c| c.set(b.len()));
            let mut v: Vec<u8> = b.into();
            YIELD_ON_COPY.with(|c| c.set(0));
            assert_eq!(&v[..], &want[..], "Vec::from(Bytes) must return the bytes of the view (read before the storage is released)");
            let zero_copy = v.as_ptr() as usize == base;
            if zero_copy {
                g2.writing(|| v[0] = b'X');
            } else {
                v[0] = b'X';
            }
            (zero_copy, v)
        });
        t1.join().unwrap();
        let (zero_copy, v) = t2.join().unwrap();
        if zero_copy {
            assert_eq!(g.frees(), 0, "the Vec owns the buffer now");
        }
        drop(v);
        g.finish(1);
    });
}

/// P4: one thread drops, the other tries to become the unique owner (try_into_mut) and writes.
#[test]
fn p4_try_into_mut_vs_drop() {
    for_reprs(|r| {
        let (a, p, keep) = make(r);
        drop(keep);
        let g = Ghost::register(0, p);
        let base = p as usize;
        let b = a.clone();
        let (g1, g2) = (g.clone(), g.clone());
        let t1 = thread::spawn(move || {
            check_read(&a, &g1, base);
            drop(a);
        });
        let start = b.as_ptr() as usize;
        let t2 = thread::spawn(move || match b.try_into_mut() {
            Ok(mut m) => {
                assert_eq!(m.as_ptr() as usize, start, "unique conversion must not copy");
                g2.writing(|| m[0] = b'Y');
                drop(m);
                true
            }
            Err(b) => {
                check_read(&b, &g2, base);
                drop(b);
                false
            }
        });
        t1.join().unwrap();
        let _ = t2.join().unwrap();
        g.finish(1);
    });
}

/// P5: both threads try to take exclusive ownership: at most one succeeds without copying.
#[test]
fn p5_two_exclusive_attempts() {
    for_reprs(|r| {
        let (a, p, keep) = make(r);
        drop(keep);
        let g = Ghost::register(0, p);
        let base = p as usize;
        let b = a.clone();
        let (g1, g2) = (g.clone(), g.clone());
        let t1 = thread::spawn(move || {
            let want: Vec<u8> = DATA[a.as_ptr() as usize - base..][..a.len()].to_vec();
            YIELD_ON_COPY.with(|c| c.set(a.len()));
            let v: Vec<u8> = a.into();
            YIELD_ON_COPY.with(|c| c.set(0));
            assert_eq!(&v[..], &want[..], "Vec::from(Bytes) must return the bytes of the view (read before the storage is released)");
            let z = v.as_ptr() as usize == base;
            if z {
                g1.writing(|| ());
            }
            (z, v)
        });
        let start = b.as_ptr() as usize;
        let t2 = thread::spawn(move || {
            let want: Vec<u8> = DATA[b.as_ptr() as usize - base..][..b.len()].to_vec();
            YIELD_ON_COPY.with(|c| c.set(b.len()));
            let m = BytesMut::from(b);
            YIELD_ON_COPY.with(|c| c.set(0));
            assert_eq!(&m[..], &want[..], "BytesMut::from(Bytes) must return the bytes of the view (read before the storage is released)");
            let z = m.as_ptr() as usize == start;
            if z {
                g2.writing(|| ());
            }
            (z, m)
        });
        let (z1, v) = t1.join().unwrap();
        let (z2, m) = t2.join().unwrap();
        assert!(!(z1 && z2), "two parties obtained zero-copy exclusive ownership");
        drop(v);
        drop(m);
        g.finish(1);
    });
}

/// P6: BytesMut halves on two threads: one drops its half, the other reclaims / reserves and writes.
#[test]
fn p6_bytes_mut_reclaim_vs_drop() {
    model(|| {
        let mut m = BytesMut::with_capacity(16);
        m.put_slice(DATA);
        let p = m.as_ptr();
        let g = Ghost::register(0, p);
        let base = p as usize;
        let head = m.split_to(4);
        let (g1, g2) = (g.clone(), g.clone());
        let t1 = thread::spawn(move || {
            g1.reading(|| assert_eq!(&head[..], &DATA[..4]));
            drop(head);
        });
        let t2 = thread::spawn(move || {
            let mut m = m;
            m.advance(4);
            // empty now: if it is the sole owner it may take the whole allocation back
            let reclaimed = m.try_reclaim(14);
            if reclaimed {
                assert_eq!(m.as_ptr() as usize, base);
                g2.writing(|| m.put_slice(b"0123456789abcd"));
            } else {
                m.reserve(14);
                if m.as_ptr() as usize == base {
                    g2.writing(|| m.put_slice(b"0123456789abcd"));
                }
            }
            drop(m);
        });
        t1.join().unwrap();
        t2.join().unwrap();
        g.finish(1);
    });
}

/// P6b: a non-empty BytesMut half reserves beyond its capacity while the other half is dropped elsewhere: it is either alone (grows
/// in place / moves its bytes itself) or copies its bytes out of the shared buffer — which it must do before giving up its reference.
#[test]
fn p6b_reserve_copy_vs_drop() {
    model(|| {
        let mut m = BytesMut::with_capacity(16);
        m.put_slice(DATA);
        let p = m.as_ptr();
        let g = Ghost::register(0, p);
        let head = m.split_to(4);
        let (g1, _g2) = (g.clone(), g.clone());
        let t1 = thread::spawn(move || {
            g1.reading(|| assert_eq!(&head[..], &DATA[..4]));
            drop(head);
        });
        let t2 = thread::spawn(move || {
            let mut m = m;
            YIELD_ON_COPY.with(|c| c.set(usize::MAX));
            m.reserve(64);
            YIELD_ON_COPY.with(|c| c.set(0));
            assert_eq!(&m[..], &DATA[4..], "reserve must keep the contents (copied out before the shared storage is released)");
            assert!(m.capacity() - m.len() >= 64);
            drop(m);
        });
        t1.join().unwrap();
        t2.join().unwrap();
        g.finish(1);
    });
}

/// P7: unsplit of adjacent halves while a frozen clone of the buffer is dropped elsewhere.
#[test]
fn p7_unsplit_vs_frozen_drop() {
    model(|| {
        let mut m = BytesMut::with_capacity(16);
        m.put_slice(DATA);
        let p = m.as_ptr();
        let g = Ghost::register(0, p);
        let tail = m.split_off(4);
        let frozen = tail.clone().freeze(); // a copy: independent buffer
        let f2 = m.split_to(2).freeze(); // shares the buffer
        let (g1, g2) = (g.clone(), g.clone());
        let t1 = thread::spawn(move || {
            g1.reading(|| assert_eq!(&f2[..], &DATA[..2]));
            drop(f2);
            drop(frozen);
        });
        let t2 = thread::spawn(move || {
            let mut m = m;
            m.unsplit(tail);
            g2.reading(|| assert_eq!(&m[..], &DATA[2..]));
            drop(m);
        });
        t1.join().unwrap();
        t2.join().unwrap();
        g.finish(1);
    });
}

/// P8: three threads, clone / read / drop in different orders.
#[test]
fn p8_three_threads() {
    for r in [Repr::Shared, Repr::Promotable] {
        model(move || {
            let (a, p, keep) = make(r);
            drop(keep);
            let g = Ghost::register(0, p);
            let base = p as usize;
            let a = Arc::new(a);
            let hs: Vec<_> = (0..3)
                .map(|i| {
                    let a = a.clone();
                    let g = g.clone();
                    thread::spawn(move || {
                        let c: Bytes = (*a).clone();
                        if i != 1 {
                            check_read(&c, &g, base);
                        }
                        drop(c);
                    })
                })
                .collect();
            for h in hs {
                h.join().unwrap();
            }
            drop(a);
            g.finish(1);
        });
    }
}

/// P9: from_owner: the owner is dropped exactly once, after the last view, whoever drops last.
#[test]
fn p9_owner_dropped_once() {
    struct Owner(Vec<u8>, Arc<SyncCell>, std::sync::Arc<AtomicUsize>);
    impl AsRef<[u8]> for Owner {
        fn as_ref(&self) -> &[u8] {
            &self.0
        }
    }
    impl Drop for Owner {
        fn drop(&mut self) {
            self.1 .0.with_mut(|_| ());
            self.2.fetch_add(1, O::SeqCst);
        }
    }
    model(|| {
        let cell = Arc::new(SyncCell(UnsafeCell::new(())));
        let drops = std::sync::Arc::new(AtomicUsize::new(0));
        let a = Bytes::from_owner(Owner(DATA.to_vec(), cell.clone(), drops.clone()));
        let b = a.clone();
        let (c1, c2) = (cell.clone(), cell.clone());
        let t1 = thread::spawn(move || {
            c1.0.with(|_| assert_eq!(&a[..], DATA));
            drop(a);
        });
        let t2 = thread::spawn(move || {
            let v: Vec<u8> = { c2.0.with(|_| b.slice(1..3)) }.into();
            assert_eq!(&v[..], &DATA[1..3]);
            drop(b);
        });
        t1.join().unwrap();
        t2.join().unwrap();
        assert_eq!(drops.load(O::SeqCst), 1);
    });
}
