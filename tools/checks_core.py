"""Checks for the M1 properties (C01–C04, C07, C08, C13, C16, C18): hand-written Model/Core.lean tied by
T2 (seq stream under the ledger allocator, judged in lock-step), per-property theorem modules."""
import os
import __main__ as drv
import vlib
from vlib import log

CORE_TRUST = [
    "hand transliteration of src/bytes.rs and src/bytes_mut.rs into Model/Core.lean (regions, control blocks, handles, ~30 API "
    "operations incl. every vtable function, reserve_inner, promote/shallow_clone, unsplit) — tied by T1 for the vtable wiring and "
    "representation constants (Generated/Wiring.lean vs the reviewed list, Cert/C01) and otherwise by T2 only: after every op the "
    "judge compares outcome, every live handle (kind, canonical allocation class + offset, len, capacity, is_unique, contents) and "
    "the allocator-event delta (byte buffers by size, control blocks by count) with the model",
    "std behaviour assumed and checked by T2: Vec::with_capacity/to_vec exact, Vec::reserve growth = max(2*cap, needed, 8), "
    "into_boxed_slice does not reallocate when len == cap, Box<T> control blocks; global allocator contract",
    "harness hseq (ledger allocator: red zones, poison + quarantine, layout-exact frees, parity control) + judge trace parser",
]


def seq_configs(run, thorough_extra=False):
    # quick: both profiles and both address parities are touched (the odd promotable vtable is reachable only with odd buffers)
    # 'pack': small byte buffers laid out back to back (adjacent allocations, as a bump / slab allocator places them)
    cfgs = [('debug', 'even'), ('release', 'odd'), ('debug', 'pack')]
    if run.tier == 'thorough' or thorough_extra:
        cfgs += [('debug', 'odd'), ('release', 'even'), ('release', 'alt')]
    return cfgs


def run_seq_streams(run, a, pid, fail_pids, modes=('walk', 'boundary', 'pairs'), cfgs=None, collect_digests=None, trace_dir=None):
    """Run hseq streams through `judge seq`. Oracle failures of properties in fail_pids become failures
    of this run; model diffs / bad traces are breakage."""
    cfgs = cfgs or seq_configs(run)
    total_ops = total_scripts = 0
    jobs = []
    traces = {}
    for cfg in cfgs:
        profile, parity = cfg[0], cfg[1]
        feat = cfg[2] if len(cfg) > 2 else None
        if feat == 'nodef':
            binpath = os.path.join(os.path.dirname(vlib.cargo_build(profile, no_default=True, bins=['hseq'])), 'hseq')
        elif feat:
            binpath = os.path.join(os.path.dirname(vlib.cargo_build(profile, features=[feat], bins=['hseq'])), 'hseq')
        else:
            binpath = os.path.join(os.path.dirname(vlib.cargo_build(profile)), 'hseq')
        if feat:
            profile = profile + '+' + feat
        for mode in (['replay'] if a.replay else list(modes)):
            if mode == 'replay':
                cmd = [binpath, 'seq', 'replay', a.replay]
            elif mode in ('boundary', 'pairs'):
                cmd = [binpath, 'seq', mode]
            else:
                cmd = [binpath, 'seq']
            jobs.append((profile, parity, mode, cmd))
    from concurrent.futures import ThreadPoolExecutor
    with ThreadPoolExecutor(max_workers=min(12, len(jobs) or 1)) as ex:
        def one(j):
            tr = None
            if trace_dir:
                os.makedirs(trace_dir, exist_ok=True)
                tr = os.path.join(trace_dir, f'{j[0]}-{j[1]}-{j[2]}.trace')
                traces[(j[0], j[1], j[2])] = tr
            return vlib.pipe(j[3], ['seq'], env={'VERIF_PARITY': j[1]}, save_trace=tr)
        results = list(ex.map(one, jobs))
    for (profile, parity, mode, cmd), (out, hrc, jrc, herr) in zip(jobs, results):
        if True:
            died = hrc != 0
            if jrc != 0:
                run.breakage(f'seq stream ({mode},{profile},{parity}) judge failed', f'judge rc={jrc}')
            seen_fail = False
            for ln in out:
                tags, d = vlib.kv(ln)
                if not tags:
                    continue
                if tags[0] == 'oracle-fail':
                    fp = tags[1] if len(tags) > 1 else '?'
                    replay = d.get('replay', '').replace('~', ' ').replace('|', '\n')
                    if set(fp.split('+')) & set(fail_pids):
                        seen_fail = True
                        what = d.get('what', '')
                        key = f"op={d.get('op')}:{what.split('(')[0][:60]}"
                        run.fail(key, f"[{profile},{parity}] " + ln.split(' replay=')[0], f"# profile={profile} parity={parity}\n" + replay)
                    else:
                        # another M1 property fails on the implementation: the model (which satisfies all of them) no longer
                        # describes this code, so this property is not shown to hold either
                        run.breakage(f'correspondence (seq stream {mode},{profile},{parity}): implementation violates {fp}',
                                     ln.split(' replay=')[0] + '\n' + replay)
                elif tags[0] in ('model-diff', 'bad-trace'):
                    replay = d.get('replay', '').replace('~', ' ').replace('|', '\n')
                    run.breakage(f'correspondence (seq stream {mode},{profile},{parity}): {tags[0]}', ln.split(' replay=')[0] + '\n' + replay)
                elif tags[0] == 'digest' and collect_digests is not None:
                    collect_digests.setdefault((mode, tags[1]), {})[(profile, parity)] = tags[2]
                elif tags[0] == 'summary':
                    total_ops += int(d.get('ops', 0))
                    total_scripts += int(d.get('scripts', 0))
                    run.cov[f't2_{mode}_{profile}_{parity}'] = d
            if died and not seen_fail and 'C02' not in fail_pids:
                run.breakage(f'seq stream ({mode},{profile},{parity}) harness died', f'harness rc={hrc}\n{herr[-500:]}')
            run.samples += [l.split(' replay=')[0] for l in out if l.startswith('oracle-fail')][:1]
    run.cov['evaluations'] = run.cov.get('evaluations', 0) + total_ops
    run.cov['distinct_nontrivial'] = run.cov.get('distinct_nontrivial', 0) + total_scripts
    run.cov['rule'] = ("T2: operation scripts on Bytes/BytesMut/Vec handles on the real crate under the ledger allocator: seeded random walks "
                       "(mostly-valid arguments + boundary/out-of-contract stream) from 28 starting representations, and a boundary sweep "
                       "(every starting representation x every single op x boundary arguments 0,1,len-1,len,len+1,cap,cap+1,2^63±1,2^64-1-k "
                       "+ random follow-ups), every script ending with all handles dropped in random order; debug and release profiles "
                       "incl. odd addresses and a packing allocator (adjacent buffers) (thorough: every profile x even/odd/alternating parity); distinct_nontrivial = scripts executed")
    if trace_dir:
        return traces
    return total_ops


def core_check(pid, props_mod, fail_pids, modes=('walk', 'boundary', 'pairs'), sample=None, extra_mods=()):
    def f(run, a):
        vlib.extract()
        # C02 also rests on the inventory of unsafe sites outside bytes.rs / bytes_mut.rs (Cert/C17): a new or edited unsafe block
        # in the Buf / BufMut code is not covered by M1's no_ub
        # every M1 property: the vtable wiring / constants the model was written from (Cert/C01)
        vlib.standard_lean_phase(run, props_mod, 'BytesVerif.Cert.C01', ['BytesVerif.Lemmas.Core.Sound'] + list(extra_mods) + (['BytesVerif.Cert.C17'] if pid == 'C02' else []))
        if pid == 'C01':
            # the entry points M1 models: conversions, Clone, Drop, Deref, Extend, FromIterator, … of the two handle types
            vlib.override_cert(run, ['Other'])
        if pid == 'C02':
            names17 = vlib.theorem_names('BytesVerif/Cert/C17.lean')
            res17 = vlib.lake_build(['BytesVerif.Cert.C17'])
            if res17['BytesVerif.Cert.C17'][0]:
                ok17, found17, problems17 = vlib.audit_axioms(['BytesVerif.Cert.C17'], names17, 'C02_c17')
            else:
                ok17, found17, problems17 = False, {}, [t + ': module does not build' for t in names17]
            for t in names17:
                bad = [p for p in problems17 if p.startswith(t + ':')]
                run.obligation(t, not bad, '; '.join(bad))
                run.axioms[t] = found17.get(t)
            if problems17:
                b = run.breakage('unsafe-site inventory certificate (Cert/C17) no longer checks', '\n'.join(problems17[:6]))
        # the workhorse lemma behind every M1 property
        ok, found, problems = vlib.audit_axioms(['BytesVerif.Lemmas.Core.Sound'], ['BytesVerif.Core.step_sound', 'BytesVerif.Core.WFx_init'], pid + '_sound')
        for t in ('BytesVerif.Core.step_sound', 'BytesVerif.Core.WFx_init'):
            bad = [p for p in problems if p.startswith(t + ':')]
            run.obligation(t, not bad, '; '.join(bad))
            run.axioms[t] = found.get(t)
        if problems:
            run.breakage('step_sound (Lemmas/Core/Sound.lean) no longer checks', '\n'.join(problems))
        run.trusted += CORE_TRUST
        # the judge's oracles never fire on the model's own behaviour (no oracle demands more than M1 guarantees)
        orc = ['mustPanic_sound', 'opOracle_sound', 'opOracle_pack_weaker', 'frameOracle_sound', 'boundsOracle_sound', 'uniqOracle_sound',
               'stateOracles_step_sound', 'lenCapOracle_sound', 'lenCapOracle_step_sound', 'boundsLenCap_sound', 'tryMutOracle_sound']
        reso = vlib.lake_build(['BytesVerif.Props.OracleSound'])
        fullo = ['BytesVerif.Judge.SeqJ.' + t for t in orc]
        if reso['BytesVerif.Props.OracleSound'][0]:
            oko, foundo, problemso = vlib.audit_axioms(['BytesVerif.Props.OracleSound'], fullo, pid + '_orc')
        else:
            oko, foundo, problemso = False, {}, [t + ': module does not build' for t in fullo]
        for t in fullo:
            bad = [p for p in problemso if p.startswith(t + ':')]
            run.obligation(t, not bad, '; '.join(bad))
            run.axioms[t] = foundo.get(t)
        if problemso:
            run.breakage('oracle-soundness theorems (Props/OracleSound.lean) no longer check: the judge may demand more than the model guarantees',
                         '\n'.join(problemso[:6]))
        run_seq_streams(run, a, pid, fail_pids, modes)
        if pid == 'C02' and not (a.replay and '\nm ' not in open(a.replay).read()):
            # writes through BufMut targets: guard bytes around every fixed-size destination (mut stream of C11)
            import checks_buf
            checks_buf.run_mut_stream(run, a, 'C02', vlib.cargo_build('debug'), {'C02'})
            run.trusted.append('BufMut side of C02: guard bytes around every fixed-size destination in the mut stream (M2 write model of C11), '
                               'and the reviewed unsafe-site inventory (Cert/C17)')
        adv_replay = None
        if a.replay:
            # a replay file written by the block below names the adv case it came from
            import re
            mo = re.search(r'^# hseq adv\s+\(case: (.*)\)\s*$', open(a.replay).read(), re.M)
            adv_replay = mo.group(1) if mo else None
        if pid in ('C01', 'C02', 'C04') and (not a.replay or adv_replay):
            # BytesMut under Extend / FromIterator driven by iterators with wrong size hints or panics (adv stream of C17):
            # exactly the yielded items are appended (C01), the region stays inside its allocation (C04), nothing is freed twice
            # or used after free when the iterator panics (C02)
            binpath = os.path.join(os.path.dirname(vlib.cargo_build('debug')), 'hseq')
            out, hrc, jrc, herr = vlib.pipe([binpath, 'adv'], ['adv'])
            for ln in out:
                tags, d = vlib.kv(ln)
                if tags and tags[0] == 'oracle-fail' and pid in (tags[1] if len(tags) > 1 else '').split('+'):
                    case = d.get('case', '-').replace('~', ' ')
                    if adv_replay and case != adv_replay:
                        continue
                    run.fail('adv:' + case.split()[0][:50], ln[:400], f'# hseq adv   (case: {case})\n')
        if pid == 'C02' and run.tier == 'thorough' and not a.replay:
            asan_support(run, a, [['seq'], ['seq', 'boundary'], ['seq', 'pairs']], 'C02')
            miri_support(run, a)
        if sample:
            run.samples += sample
        return run.finish()
    return f


SAMPLE_SEQ = ['op mcap 16 ; op extend 0 0102030405060708090a ; op splitoff 0 8 ; op freeze 0 ; op tomut 0 -> ok h 0 ; h 0 M 17:0:16:0 8 8 - 0102030405060708',
              'theorem step_sound (cfg e op s) (h : WFx s) (ho : OpOK op) : StepOKx cfg e op s']
drv.CHECKS['C01'] = core_check('C01', 'BytesVerif.Props.C01', {'C01'}, sample=SAMPLE_SEQ)
drv.CHECKS['C02'] = core_check('C02', 'BytesVerif.Props.C01', {'C02'}, sample=SAMPLE_SEQ)
drv.CHECKS['C13'] = core_check('C13', 'BytesVerif.Props.C01', {'C13'}, sample=SAMPLE_SEQ)
drv.CHECKS['C04'] = core_check('C04', 'BytesVerif.Props.C08', {'C04'}, sample=SAMPLE_SEQ)
drv.CHECKS['C08'] = core_check('C08', 'BytesVerif.Props.C08', {'C08'}, sample=SAMPLE_SEQ)
drv.CHECKS['C03'] = core_check('C03', 'BytesVerif.Props.C03', {'C03'}, sample=SAMPLE_SEQ)
drv.CHECKS['C07'] = core_check('C07', 'BytesVerif.Props.C07', {'C07'}, sample=SAMPLE_SEQ)


@drv.check('M1-probe')
def m1_probe(run, a):
    """Development aid (not registered in MANIFEST): run the seq streams and report every oracle failure of any property."""
    run.trusted += CORE_TRUST
    res = vlib.lake_build(['judge'])
    if not res['judge'][0]:
        raise vlib.BuildError(res['judge'][1][-2000:])
    run_seq_streams(run, a, 'M1', {'C01', 'C02', 'C03', 'C04', 'C07', 'C08', 'C13', 'C16'}, cfgs=[('debug', 'even'), ('release', 'odd')])
    props = sorted({f['what'].split()[2] for f in run.oracle_fails if len(f['what'].split()) > 2})
    log('M1-probe failing properties:', props, ' breakage:', [b['what'][:80] for b in run.broken][:3])
    return run.finish(level='other', explanation='probe')


@drv.check('C18')
def c18(run, a):
    vlib.extract()
    vlib.standard_lean_phase(run, 'BytesVerif.Props.C18', None, ['BytesVerif.Props.C08'])
    # the recycling model refines M1 (Props/C18Refine.lean, Props/C18RefineOps.lean): every Rec operation against the M1 operation
    ref_thms = {'BytesVerif.Props.C18Refine': ['reserve_refines_strong', 'step_reserve_refines_strong', 'step_reserve_layout'],
                'BytesVerif.Props.C18RefineOps': ['step_advance_refines', 'step_truncate_refines', 'step_extend_refines', 'step_splitTo_refines',
                                                  'step_split_refines', 'step_dropPart_refines', 'step_splitOffTail_refines',
                                                  'step_unsplitLast_refines', 'step_unsplit_copy_refines', 'step_intoMut_refines',
                                                  'step_tryIntoMut_refines', 'step_roundTrip_refines', 'step_reserve_shared_refinesP',
                                                  'step_dropPinned_refinesP', 'step_refines', 'run_refines', 'alloc_size_bounded_M1']}
    resr = vlib.lake_build(list(ref_thms))
    for mod, ts in ref_thms.items():
        ns = 'BytesVerif.Core.C18Refine.'
        full = [ns + t for t in ts]
        if resr[mod][0]:
            okr, foundr, problemsr = vlib.audit_axioms([mod], full, 'C18_' + mod.split('.')[-1])
        else:
            okr, foundr, problemsr = False, {}, [t + ': module does not build' for t in full]
        for t in full:
            bad = [p for p in problemsr if p.startswith(t + ':')]
            run.obligation(t, not bad, '; '.join(bad))
            run.axioms[t] = foundr.get(t)
        if problemsr:
            run.breakage(f'refinement of the recycling model to M1 ({mod}) no longer checks', '\n'.join(problemsr[:6]))
    for t in ['BytesVerif.Core.reclaim_whole', 'BytesVerif.Core.reserve_whole_no_alloc']:
        ok, found, problems = vlib.audit_axioms(['BytesVerif.Props.C08'], [t], 'C18w')
        run.obligation(t, ok, '; '.join(problems))
        run.axioms[t] = found.get(t)
        if not ok:
            run.breakage('in-particular clause of C18 (Props/C08) no longer checks', t)
    run.trusted += [
        "the recycling model Model/Recycle.lean (allocation size / offset / len / cap / parts / pinned allocations / allocation count; the allocation "
        "decisions of reserve_inner transliterated a second time at this level) — tied by T2: lock-step comparison of (allocation size, offset, len, "
        "capacity, byte-buffer allocation count, live byte-buffer bytes) after every operation of every round",
        "the refill bound `leftover + message <= M` and the retention policy are properties of the usage pattern (hypotheses HistOK / Recycled)",
        "harness hseq recycle stream under the ledger allocator + judge parser; std Vec growth policy max(2*cap, needed, 8)",
    ]
    profile = 'release' if run.tier == 'thorough' else 'debug'
    binpath = os.path.join(os.path.dirname(vlib.cargo_build(profile)), 'hseq')
    n = '30000' if run.tier == 'thorough' else '1000'
    if a.replay:
        # replay file: `pattern c0 M style window rounds`
        args = open(a.replay).read().split('pattern ')[-1].split()[:5]
        cmd = [binpath, 'recycle', 'pattern'] + args
    else:
        cmd = [binpath, 'recycle', n]
    out, hrc, jrc, herr = vlib.pipe(cmd, ['recycle'])
    if hrc != 0 or jrc != 0:
        run.breakage('recycle stream did not complete', f'harness rc={hrc} judge rc={jrc}\n{herr[-500:]}')
    for ln in out:
        tags, d = vlib.kv(ln)
        if not tags:
            continue
        if tags[0] == 'oracle-fail':
            pat = d.get('pattern', '').replace('_', ' ')
            m = {k: v for k, v in (w.split('=') for w in pat.split() if '=' in w)}
            rep = f"pattern {m.get('c0')} {m.get('M')} {m.get('style')} {m.get('window')} {m.get('rounds')}\n# last ops: " + d.get('ops', '').replace('~', ' ')
            run.fail('what=' + d.get('what', '')[:50], ln.split(' pattern=')[0], rep)
        elif tags[0] in ('model-diff', 'bad-trace'):
            run.breakage('correspondence (recycle stream): ' + tags[0], ln)
        elif tags[0] == 'summary':
            run.cov['t2_recycle'] = d
            run.cov['evaluations'] = int(d.get('steps', 0))
            run.cov['distinct_nontrivial'] = int(d.get('patterns', 0))
    run.cov['rule'] = ("T2: recycling patterns on a real BytesMut under the ledger allocator: initial capacity {0,16,1024,65536} x message bound M "
                       "{16,100,4096,70000} x consumption style {split_to, split, advance, truncate, split_to+freeze, round trip through Bytes, "
                       "split_off tail + unsplit, random mix} x retention window {0,2}, seeded message / leftover sizes, N rounds (quick 10^3, thorough "
                       "3*10^4 and 3*10^5); oracles: largest allocation <= max(A0,4M,8), live bytes <= (window+2) x that, no allocation once the buffer "
                       "reached 2M (window 0); distinct_nontrivial = patterns run")
    run.samples += ['r append 11 ; rs A=12 off=0 len=12 cap=12 allocs=4 live=41 parts=0 pinned=2',
                    'theorem alloc_size_bounded (A0 M ops) (h : HistOK M (init A0) ops) : (run (init A0) ops).A <= B A0 M ∧ ∀ a ∈ pinned, a <= B A0 M']
    return run.finish()


def asan_support(run, a, streams, what):
    """Thorough-tier SUPPORT run (never a proof, never the only evidence): the same streams on an AddressSanitizer build of the
    harness without the ledger allocator (nightly toolchain, offline).  An ASan report is a concrete failing input."""
    import subprocess
    env = dict(os.environ)
    env['RUSTFLAGS'] = '-Zsanitizer=address'
    tdir = os.path.join(vlib.BUILD, 'cargo-asan')
    cmd = ['cargo', '+nightly', 'build', '--offline', '--quiet', '--bin', 'hseq', '--features', 'noledger',
           '--target', 'x86_64-unknown-linux-gnu', '--target-dir', tdir]
    with vlib.Lock('cargo.lock'):
        p = subprocess.run(cmd, cwd=os.path.join(vlib.VERIF, 'harness'), env=env, stdout=subprocess.PIPE, stderr=subprocess.STDOUT, text=True)
    if p.returncode != 0:
        run.cov['asan'] = 'unavailable: ' + p.stdout[-200:]
        return
    binpath = os.path.join(tdir, 'x86_64-unknown-linux-gnu', 'debug', 'hseq')
    e2 = dict(os.environ)
    e2.update({'ASAN_OPTIONS': 'detect_leaks=0:abort_on_error=0', 'VERIF_TIER': 'quick'})
    res = {}
    for args in streams:
        q = subprocess.run([binpath] + args, env=e2, stdout=subprocess.PIPE, stderr=subprocess.PIPE)
        out = q.stdout.decode(errors='replace').splitlines()
        err = q.stderr.decode(errors='replace')
        res[' '.join(args)] = {'rc': q.returncode, 'lines': len(out)}
        if 'AddressSanitizer' in err:
            # the script that was running: ops since the last `script` / the last adv-try
            tries, last_adv = [], None
            for ln in out:
                if ln.startswith('script'):
                    tries = []
                elif ln.startswith('try '):
                    tries.append('op ' + ln[4:])
                elif ln.startswith('adv-try '):
                    last_adv = ln[8:]
            kind = [l for l in err.splitlines() if 'AddressSanitizer' in l][:1]
            rep = f'# AddressSanitizer build, no ledger: hseq {" ".join(args)}\n# {kind[0] if kind else ""}\n' + \
                  (f'one {last_adv}\n' if args[0] == 'adv' and last_adv else '\n'.join(tries))
            run.fail(f'asan:{args[0]}:{(kind[0].split(":")[-1].strip()[:40]) if kind else ""}', f'oracle-fail {what} [asan] ' + (kind[0] if kind else ''), rep)
        elif q.returncode != 0:
            run.breakage(f'ASan support run hseq {" ".join(args)} died', f'rc={q.returncode}\n{err[-400:]}')
    run.cov['asan'] = res
    run.trusted.append('thorough tier only: AddressSanitizer build of the harness (nightly, no ledger allocator) as a second out-of-bounds / '
                       'use-after-free oracle on the same streams — support, not proof')


def miri_support(run, a, walks=12):
    """Thorough-tier SUPPORT run for C02's 'partial' part (provenance / aliasing rules that M1 cannot express): a small sample of the
    seq stream under Miri (nightly, offline, no ledger allocator).  Never the deciding evidence; an error reported by Miri is a
    concrete failing history."""
    import subprocess
    env = dict(os.environ)
    env.update({'CARGO_NET_OFFLINE': 'true', 'MIRIFLAGS': '-Zmiri-disable-isolation -Zmiri-ignore-leaks', 'VERIF_TIER': 'quick',
                'CARGO_TARGET_DIR': os.path.join(vlib.BUILD, 'cargo-miri')})
    cmd = ['cargo', '+nightly', 'miri', 'run', '--quiet', '--bin', 'hseq', '--features', 'noledger', '--', 'seq', str(walks)]
    try:
        with vlib.Lock('cargo.lock'):
            q = subprocess.run(cmd, cwd=os.path.join(vlib.VERIF, 'harness'), env=env, stdout=subprocess.PIPE, stderr=subprocess.PIPE, timeout=2400)
    except subprocess.TimeoutExpired:
        run.cov['miri'] = 'timeout'
        return
    out = q.stdout.decode(errors='replace').splitlines()
    err = q.stderr.decode(errors='replace')
    scripts = sum(1 for l in out if l.startswith('script'))
    ops = sum(1 for l in out if l.startswith('op '))
    run.cov['miri'] = {'rc': q.returncode, 'scripts': scripts, 'ops': ops}
    if 'Undefined Behavior' in err or 'error: unsupported operation' in err and scripts == 0:
        if 'Undefined Behavior' in err:
            tries = []
            for ln in out:
                if ln.startswith('script'):
                    tries = []
                elif ln.startswith('try '):
                    tries.append('op ' + ln[4:])
            kind = [l for l in err.splitlines() if 'Undefined Behavior' in l][:1]
            run.fail('miri:' + (kind[0][:60] if kind else ''), 'oracle-fail C02 [miri] ' + (kind[0] if kind else ''),
                     '# cargo +nightly miri run --bin hseq --features noledger -- seq replay <this file>\n# ' + '\n# '.join(err.splitlines()[:12]) + '\n' + '\n'.join(tries))
        else:
            run.cov['miri'] = 'unavailable: ' + err[-300:]
    elif q.returncode != 0 and scripts == 0:
        run.cov['miri'] = 'unavailable: ' + err[-300:]
    run.trusted.append('thorough tier only: a sample of the seq stream under Miri (Stacked Borrows / provenance / uninitialised reads on the '
                       'histories sampled) — support for the part of C02 that M1 cannot express, not proof')
