"""Checks for the concurrency properties (C05, C06): Lean theorems over the RA-view protocol model M5,
T1 orderings/shape certificate, loom runs of the real code (through the hook in src/lib.rs)."""
import os
import re
import __main__ as drv
import vlib
from vlib import log

LOOM_TARGET = os.path.join(vlib.BUILD, 'loom')


def run_loom(run, bound, timeout):
    env = {'RUSTFLAGS': '--cfg loom --cfg tokio_rs_bytes_verif', 'VERIF_DIR': vlib.VERIF, 'CARGO_TARGET_DIR': LOOM_TARGET,
           'VERIF_LOOM_PREEMPTION': str(bound), 'LOOM_MAX_BRANCHES': '100000'}
    cmd = ['cargo', 'test', '--offline', '--manifest-path', os.path.join(vlib.REPO, 'Cargo.toml'), '--lib', '--release',
           'verif_loom', '--', '--test-threads=1']
    with vlib.Lock('loom.lock'):
        try:
            rc, out = vlib.sh(cmd, env=env, timeout=timeout)
        except Exception as ex:  # timeout
            return None, str(ex)
    return rc, out


CONC_TRUST = [
    "the RA-view semantics of Model/Conc.lean as a model of the C11 release/acquire + relaxed fragment without load buffering "
    "(RMWs read the newest message and continue the release sequence; loads may read any message not older than the thread's view)",
    "the protocol model M5 is hand-written: one counter per control block, steps = the atomic actions of release_shared / shared_to_vec_impl / "
    "shared_to_mut_impl / Shared::is_unique / shallow_clone_arc; tied to the source by T1 (orderings + shape facts, certified by `decide` each run) "
    "and by loom runs of the real code",
    "promotion protocol on the `data` word of promotable handles: M5p (Model/Promo.lean: root handle shared by reference, racing "
    "shallow_clone_vec CASes, non-atomic control-block initialisation, owner-side free / take-over of a never-promoted root) — hand-written, "
    "tied by T1 (orderings of the three promotion sites + four shape facts) and by the loom models p2/p8 on the real code",
    "Rust's ownership / borrowing rules (a handle is used by one thread at a time; handing a handle or a &Bytes to another thread synchronises)",
    "loom 0.7 as the executor of the real code (bounded preemptions: quick 3, thorough 5)",
]


def conc_check(pid):
    def f(run, a):
        info = vlib.extract()
        run.cov['extracted'] = info.get('Atomics.lean')
        props_ok, cert_ok = vlib.standard_lean_phase(run, 'BytesVerif.Props.C06', 'BytesVerif.Cert.C06', ['BytesVerif.Props.C05'])
        names5 = vlib.theorem_names('BytesVerif/Props/C05.lean')
        ok5, found5, problems5 = vlib.audit_axioms(['BytesVerif.Props.C05'], names5, pid + '_promo')
        for t in names5:
            bad = [p for p in problems5 if p.startswith(t + ':')]
            run.obligation(t, not bad, '; '.join(bad))
            run.axioms[t] = found5.get(t)
        if problems5:
            run.breakage('promotion-protocol theorems (Props/C05.lean) no longer check', '\n'.join(problems5))
        run.trusted += CONC_TRUST
        bound = 5 if run.tier == 'thorough' else 3
        rc, out = run_loom(run, bound, 3000 if run.tier == 'thorough' else 900)
        out = out or ''
        names = re.findall(r'^test (verif_loom::\S+) \.\.\.', out, re.M)
        oks = set(re.findall(r'^test (verif_loom::\S+) \.\.\. ok', out, re.M))
        failed = sorted(set(re.findall(r'^---- (verif_loom::\S+) stdout ----', out, re.M)))
        # a loom panic inside a destructor aborts the test binary: the last test started has no verdict
        aborted = [t for t in names if t not in oks and t not in failed]
        failed += aborted
        tests = [(t, 'FAILED' if t in failed else 'ok') for t in names]
        run.cov['loom'] = {'preemption_bound': bound, 'models': len(tests), 'failed': failed}
        run.cov['evaluations'] = len(tests)
        run.cov['distinct_nontrivial'] = len(tests)
        run.cov['rule'] = ("loom models of the real crate (hook in src/lib.rs): 9 programs x 4 shared representations, 2-3 threads, ghost UnsafeCell per "
                           "buffer read-accessed on every read through a handle and write-accessed on deallocation (global allocator of the model "
                           "file) and after zero-copy exclusive conversion; asserts contents, addresses, exactly-one deallocation, at most one "
                           "zero-copy owner; all interleavings and stale-read outcomes up to the preemption bound")
        if rc is None:
            run.breakage('loom run did not finish', out[-500:])
        elif not tests:
            errs = [l for l in (out or '').splitlines() if l.startswith('error')][:5]
            run.breakage('loom models did not build / run', '\n'.join(errs) or (out or '')[-800:])
        for t in failed:
            # failing schedule: loom prints the panic; keep the tail of that test's output as the replay
            m = re.search(r'---- ' + re.escape(t) + r' stdout ----(.*?)(?=\n---- |\nfailures:)', out, re.S)
            detail = (m.group(1) if m else out[out.rfind('test ' + t):])[-1500:]
            what = 'causality violation (unordered access vs deallocation / exclusive reuse)' if 'Causality' in detail else 'assertion failed'
            prop = 'C06' if 'Causality' in detail else 'C05'
            if prop == pid or pid == 'C05' and prop == 'C06' and False:
                pass
            run.fail(f'loom={t.split("::")[-1]}', f'{t}: {what}',
                     f'RUSTFLAGS="--cfg loom --cfg tokio_rs_bytes_verif" VERIF_DIR=/verif VERIF_LOOM_PREEMPTION={bound} cargo test --offline '
                     f'--manifest-path /repo/Cargo.toml --lib --release {t} -- --test-threads=1\n{detail}')
        if not cert_ok and run.cert_breakage is not None:
            # certificate broken (an ordering weakened below the bound, or the shape of the protocol changed):
            # explained iff loom exhibits a failing schedule on the real code
            run.cert_breakage['explained'] = bool(failed)
        run.samples += [f'{t} ... {r}' for t, r in tests][:4] + ['theorem ra_safe (o) (hs : Sufficient o = true) (n) (s) (hr : Reach o n s) : s.race = false ∧ s.uaf = false ∧ s.doubleFree = false',
                                                                    'theorem promo_safe (o : POrds) (hs : Sufficient o = true) (n) (s) (hr : Reach o n s) : s.race = false ∧ s.ctrlRace = false ∧ s.uaf = false ∧ s.doubleFree = false']
        return run.finish()
    return f


drv.CHECKS['C05'] = conc_check('C05')
drv.CHECKS['C06'] = conc_check('C06')
