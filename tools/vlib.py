"""Common machinery of the check driver: build steps, axiom audit, pipelines, verdicts, evidence."""
import fcntl
import json
import os
import re
import subprocess
import sys
import time

VERIF = os.path.dirname(os.path.dirname(os.path.abspath(__file__)))
REPO = os.environ.get('VERIF_REPO', '/repo')
LEAN = os.path.join(VERIF, 'lean', 'BytesVerif')
BUILD = os.path.join(VERIF, '.build')
TMP = os.path.join(BUILD, 'tmp')
REPLAYS = os.path.join(VERIF, 'replays')
EVID = os.path.join(VERIF, 'evidence')
JUDGE = os.path.join(LEAN, '.lake', 'build', 'bin', 'judge')
ALLOWED_AXIOMS = {'propext', 'Classical.choice', 'Quot.sound'}
FORBIDDEN = re.compile(r'\b(sorry|admit|native_decide|bv_decide|implemented_by)\b|^\s*axiom\s|\bunsafe\s|maxHeartbeats\s+0')

for d in (BUILD, TMP, REPLAYS, EVID):
    os.makedirs(d, exist_ok=True)


def log(*a):
    print(*a, flush=True)


class Lock:
    def __init__(self, name='lock'):
        self.path = os.path.join(BUILD, name)

    def __enter__(self):
        self.f = open(self.path, 'w')
        fcntl.flock(self.f, fcntl.LOCK_EX)

    def __exit__(self, *a):
        fcntl.flock(self.f, fcntl.LOCK_UN)
        self.f.close()


def sh(cmd, cwd=None, env=None, timeout=None, input=None):
    e = dict(os.environ)
    e.update({'CARGO_NET_OFFLINE': 'true'})
    if env:
        e.update(env)
    p = subprocess.run(cmd, cwd=cwd, env=e, stdout=subprocess.PIPE, stderr=subprocess.STDOUT,
                       text=True, timeout=timeout, input=input, shell=isinstance(cmd, str))
    return p.returncode, p.stdout


def extract():
    sys.path.insert(0, os.path.join(VERIF, 'tools'))
    rc, out = sh([sys.executable, os.path.join(VERIF, 'tools', 'extract.py')])
    if rc != 0:
        raise RuntimeError('extract.py failed:\n' + out)
    return json.loads(out.strip().splitlines()[-1])


def lake_build(targets):
    """Build each target separately so that one failing module does not hide the others.
    Returns {target: (ok, output)}."""
    res = {}
    with Lock('lake.lock'):
        for t in targets:
            rc, out = sh(['lake', 'build', t], cwd=LEAN)
            res[t] = (rc == 0, out)
    return res


def theorem_names(relpath):
    """Fully qualified names of the theorems stated in a Lean file (single-namespace files)."""
    path = os.path.join(LEAN, relpath)
    if not os.path.exists(path):
        return []
    ns, names = [], []
    for line in open(path):
        m = re.match(r'^namespace\s+(\S+)', line)
        if m:
            ns.append(m.group(1))
        m = re.match(r'^end\s+(\S+)', line)
        if m and ns and ns[-1] == m.group(1):
            ns.pop()
        m = re.match(r'^(?:@\[[^\]]*\]\s*)?(?:private\s+|protected\s+)?theorem\s+([^\s:({\[]+)', line)
        if m:
            names.append('.'.join(ns + [m.group(1)]))
    return names


def audit_axioms(modules, theorems, tag):
    """`#print axioms` for every theorem; returns (ok, {name: [axioms]}, problems)."""
    src = ''.join(f'import {m}\n' for m in modules) + ''.join(f'#print axioms {t}\n' for t in theorems)
    path = os.path.join(TMP, f'audit_{tag}.lean')
    with open(path, 'w') as f:
        f.write(src)
    with Lock('lake.lock'):
        rc, out = sh(['lake', 'env', 'lean', path], cwd=LEAN)
    found, problems = {}, []
    flat = re.sub(r'\n\s+', ' ', out)
    for m in re.finditer(r"'([^']+)' depends on axioms: \[([^\]]*)\]", flat):
        found[m.group(1)] = [a.strip() for a in m.group(2).split(',') if a.strip()]
    for m in re.finditer(r"'([^']+)' does not depend on any axioms", flat):
        found[m.group(1)] = []
    for t in theorems:
        if t not in found:
            problems.append(f'{t}: not found / did not check')
        else:
            bad = [a for a in found[t] if a not in ALLOWED_AXIOMS]
            if bad:
                problems.append(f'{t}: non-standard axioms {bad}')
    if rc != 0 and not problems:
        problems.append('audit file failed: ' + out[-400:])
    return (not problems), found, problems


def strip_lean_comments(text):
    text = re.sub(r'/-.*?-/', lambda m: re.sub(r'[^\n]', ' ', m.group(0)), text, flags=re.S)
    text = re.sub(r'--.*', '', text)
    text = re.sub(r'"(\\.|[^"\\])*"', '""', text)
    return text


def grep_forbidden():
    hits = []
    for root, dirs, files in os.walk(LEAN):
        dirs[:] = [d for d in dirs if d != '.lake']
        for fn in files:
            if fn.endswith('.lean'):
                p = os.path.join(root, fn)
                for i, line in enumerate(strip_lean_comments(open(p).read()).splitlines(), 1):
                    if FORBIDDEN.search(line):
                        hits.append(f'{os.path.relpath(p, LEAN)}:{i}: {line.strip()[:100]}')
    return hits


def cargo_build(profile='debug', features=None, no_default=False, bins=None):
    """Build the harness against /repo's working tree.  Returns path of the binary."""
    cmd = ['cargo', 'build', '--offline', '--quiet']
    tdir = os.path.join(BUILD, 'cargo')
    tag = 'default'
    if no_default or features:
        tag = ('nodef-' if no_default else '') + '-'.join(features or [])
        tdir = os.path.join(BUILD, 'cargo-' + tag)
        cmd += ['--target-dir', tdir]
    if profile == 'release':
        cmd.append('--release')
    if no_default:
        cmd.append('--no-default-features')
    if features:
        cmd += ['--features', ','.join(features)]
    for b in bins or []:
        cmd += ['--bin', b]
    with Lock('cargo.lock'):
        rc, out = sh(cmd, cwd=os.path.join(VERIF, 'harness'))
    if rc != 0:
        raise BuildError('harness build failed (' + profile + ',' + tag + '):\n' + out[-3000:])
    return os.path.join(tdir, profile, 'harness')


class BuildError(Exception):
    pass


def pipe(harness_cmd, judge_args, env=None, timeout=3600, save_trace=None):
    """harness | judge ; returns (judge output lines, harness rc, judge rc)."""
    e = dict(os.environ)
    if env:
        e.update({k: str(v) for k, v in env.items()})
    h = subprocess.Popen(harness_cmd, stdout=subprocess.PIPE, stderr=subprocess.PIPE, env=e)
    if save_trace:
        tee = subprocess.Popen(['tee', save_trace], stdin=h.stdout, stdout=subprocess.PIPE)
        src = tee.stdout
    else:
        src = h.stdout
    j = subprocess.Popen([JUDGE] + judge_args, stdin=src, stdout=subprocess.PIPE, stderr=subprocess.STDOUT, text=True)
    h.stdout.close()
    # watchdog: a harness that stops making progress (an endless loop inside the crate) is killed; the judge then sees the end of
    # the stream inside a call and attributes it to the op announced last
    import threading
    limit = float(os.environ.get('VERIF_STREAM_TIMEOUT', '0')) or (3000 if os.environ.get('VERIF_TIER') == 'thorough' else 180)
    limit = min(limit, timeout)
    killed = []

    def _kill():
        killed.append(True)
        try:
            h.kill()
        except Exception:
            pass
    timer = threading.Timer(limit, _kill)
    timer.start()
    try:
        out, _ = j.communicate(timeout=timeout + 60)
    finally:
        timer.cancel()
    herr = h.stderr.read().decode(errors='replace')
    hrc = h.wait()
    if killed:
        herr += f'\nWATCHDOG: harness killed after {limit:.0f} s without finishing'
    return out.splitlines(), hrc, j.returncode, herr


def run_judge(args, input_text=None, timeout=600):
    p = subprocess.run([JUDGE] + args, input=input_text, stdout=subprocess.PIPE, stderr=subprocess.STDOUT, text=True, timeout=timeout)
    return p.stdout.splitlines(), p.returncode


def kv(line):
    """parse 'tag k=v k=v …' into (tag words, dict)"""
    d, tags = {}, []
    for w in line.split():
        if '=' in w and not tags == [] and re.match(r'^[A-Za-z_][A-Za-z0-9_\-]*=', w):
            k, v = w.split('=', 1)
            d[k] = v
        else:
            tags.append(w)
    return tags, d


def known_findings():
    path = os.path.join(VERIF, 'known-findings.jsonl')
    out = []
    if os.path.exists(path):
        for line in open(path):
            line = line.strip()
            if line and not line.startswith('#'):
                out.append(json.loads(line))
    return out


class Run:
    """One check run of one property: collects obligations, T2 statistics, findings; renders the
    verdict and the evidence file."""

    def __init__(self, pid, tier, seed):
        self.pid, self.tier, self.seed = pid, tier, seed
        self.t0 = time.time()
        self.obligations = []       # (name, ok, note)
        self.oracle_fails = []      # dict(key=…, what=…, replay_text=…)
        self.broken = []            # dict(what=…, detail=…)  proof/cert/tie breakage without input
        self.samples = []
        self.cov = {}
        self.assumptions = []
        self.trusted = []
        self.notes = []
        self.axioms = {}
        self.cert_breakage = None

    def obligation(self, name, ok, note=''):
        self.obligations.append((name, ok, note))
        if not ok:
            self.notes.append(f'obligation failed: {name} {note}')

    def fail(self, key, what, replay_text):
        self.oracle_fails.append({'key': key, 'what': what, 'replay': replay_text})

    def breakage(self, what, detail='', explained=False):
        """A proof obligation / certificate / correspondence stream that no longer checks.
        explained=True: every part of it was traced to concrete failing inputs on the
        implementation (recorded with .fail)."""
        b = {'what': what, 'detail': detail, 'explained': explained}
        self.broken.append(b)
        return b

    def finish(self, level='proof', checker_cmd='', explanation=''):
        known = [k for k in known_findings() if k.get('property') == self.pid and k.get('status') == 'known']
        knownkeys = {k['key']: k for k in known}
        violations = []
        seen_known, seen_new = {}, {}
        for f in self.oracle_fails:
            if f['key'] in knownkeys:
                seen_known.setdefault(f['key'], f)
            else:
                seen_new.setdefault(f['key'], f)
        for key, f in seen_known.items():
            log(f"KNOWN-FINDING: property={self.pid} {key} {knownkeys[key].get('what', '')}")
        n = 0
        for key, f in seen_new.items():
            n += 1
            path = os.path.join(REPLAYS, f'{self.pid}-{self.seed}-{n}.txt')
            with open(path, 'w') as fh:
                fh.write(f"# property={self.pid} key={key}\n# {f['what']}\n{f['replay']}\n")
            log(f'VIOLATION property={self.pid} replay={path}')
            violations.append(path)
        unexplained = [b for b in self.broken if not b.get('explained')]
        if unexplained and not seen_new:
            path = os.path.join(REPLAYS, f'{self.pid}-{self.seed}-broken.txt')
            with open(path, 'w') as fh:
                fh.write(f'# property={self.pid}: no longer shown to hold; no failing input found\n')
                for b in unexplained:
                    fh.write(f"broken: {b['what']}\n{b['detail']}\n")
            log(f'VIOLATION property={self.pid} replay={path} no-failing-input-found')
            violations.append(path)
        nob = len(self.obligations)
        ndis = sum(1 for o in self.obligations if o[1])
        cov = dict(self.cov)
        cov.update({
            'obligations': nob, 'discharged': ndis,
            'checker_cmd': checker_cmd or f'cd {LEAN} && lake build && lake env lean <audit file with #print axioms>',
            'trusted_base': self.trusted,
            'samples': self.samples[:12] or ['(none)'],
            'obligation_list': [{'name': o[0], 'ok': o[1], 'note': o[2]} for o in self.obligations],
            'axioms': self.axioms,
            'notes': self.notes,
        })
        if explanation:
            cov['explanation'] = explanation
        ev = {
            'property_id': self.pid, 'tier': self.tier, 'seed': self.seed, 'level': level,
            'coverage': cov, 'assumptions': self.assumptions,
            'wall_s': round(time.time() - self.t0, 2), 'violations': len(violations),
        }
        with open(os.path.join(EVID, f'{self.pid}.json'), 'w') as fh:
            json.dump(ev, fh, indent=1)
        log(f'{self.pid}: obligations {ndis}/{nob}; oracle failures: {len(seen_new)} new, {len(seen_known)} known; '
            f'broken: {len(self.broken)}; wall {ev["wall_s"]}s')
        return 1 if violations else 0


OV_CLASS = {'Read': 1, 'Write': 2, 'Cmp': 3, 'Fmt': 4, 'Other': 0}


def override_cert(run: Run, classes):
    """T1 override inventory (Cert/Ov<Class>.lean): which provided trait methods each impl of the crate overrides.  One kernel-checked
    theorem per class; a class that no longer checks is a breakage of the tie (the models hard-code the dispatch structure) whose detail
    lists the rows that changed."""
    sys.path.insert(0, os.path.dirname(os.path.abspath(__file__)))
    import extract as ex
    for cls in classes:
        mod = f'BytesVerif.Cert.Ov{cls}'
        thm = f'BytesVerif.Cert.Ov{cls}.override_inventory_{cls.lower()}'
        res = lake_build([mod])
        if res[mod][0]:
            ok, found, problems = audit_axioms([mod], [thm], f'{run.pid}_ov{cls}')
            run.obligation(thm, ok, '; '.join(problems))
            run.axioms[thm] = found.get(thm)
            if not ok:
                run.breakage(f'axiom audit of {mod}', '\n'.join(problems))
            continue
        run.obligation(thm, False, 'module does not build')
        try:
            _text, info = ex.extract_overrides()
            now = [' | '.join(r) for r in info['rows'] if ex.override_class(r) == OV_CLASS[cls]]
            exp = [m.group(2).encode().decode('unicode_escape') for m in
                   re.finditer(r'^  \((\d+), \d+, "(.*)"\),?$', open(os.path.join(LEAN, 'BytesVerif/Model/Sites.lean')).read(), re.M)
                   if int(m.group(1)) == OV_CLASS[cls]]
            detail = '\n'.join(['new or changed impl: ' + r for r in now if r not in exp] + ['missing impl: ' + r for r in exp if r not in now])
        except Exception as e:      # the diff is only an explanation
            detail = f'(diff unavailable: {e})'
        run.breakage(f'override inventory {mod} no longer checks: the set of trait impls / overridden methods differs from the one the models '
                     f'were written from', detail or 'order of impls changed')


def standard_lean_phase(run: Run, props_mod, cert_mod=None, extra_mods=()):
    """Build Props/<id> (+ Cert/<id>) and audit axioms.  Records one obligation per theorem.
    Returns (props_ok, cert_ok)."""
    targets = [props_mod] + ([cert_mod] if cert_mod else []) + list(extra_mods)
    res = lake_build(targets + ['judge'])
    if not res['judge'][0]:
        raise BuildError('judge build failed:\n' + res['judge'][1][-3000:])
    props_ok = res[props_mod][0]
    cert_ok = res[cert_mod][0] if cert_mod else True
    hits = grep_forbidden()
    run.obligation('no sorry/admit/axiom/native_decide/bv_decide/implemented_by/unsafe/maxHeartbeats 0 in lean/', not hits, '; '.join(hits[:5]))
    if hits:
        run.breakage('forbidden construct in Lean sources', '\n'.join(hits))
    for mod, ok in ((props_mod, props_ok),) + (((cert_mod, cert_ok),) if cert_mod else ()):
        rel = mod.replace('.', '/') + '.lean'
        names = theorem_names(rel)
        if ok:
            aok, found, problems = audit_axioms([mod], names, run.pid + '_' + mod.split('.')[-2])
            for t in names:
                bad = [p for p in problems if p.startswith(t + ':')]
                run.obligation(t, not bad, '; '.join(bad))
                run.axioms[t] = found.get(t)
            if problems:
                run.breakage(f'axiom audit of {mod}', '\n'.join(problems))
        else:
            for t in names:
                run.obligation(t, False, 'module does not build')
            errs = [l for l in res[mod][1].splitlines() if 'error' in l][:10]
            b = run.breakage(f'{mod} no longer checks', '\n'.join(errs))
            if mod == cert_mod:
                run.cert_breakage = b
    if run.tier == 'thorough' and props_ok and cert_ok:
        # independent re-check of the compiled modules by the toolchain's leanchecker
        mods = [props_mod] + ([cert_mod] if cert_mod else [])
        with Lock('lake.lock'):
            rc, out = sh(['lake', 'env', 'leanchecker'] + mods, cwd=LEAN)
        run.obligation('leanchecker ' + ' '.join(m.split('.')[-2] + '.' + m.split('.')[-1] for m in mods), rc == 0, out[-300:])
        if rc != 0:
            run.breakage('leanchecker rejects ' + ' '.join(mods), out[-2000:])
    return props_ok, cert_ok
