"""Minimal Rust source utilities for the T1 translator: comment/string masking, brace matching,
item discovery.  No dependencies.  Fail-closed helpers: anything not recognised is returned as
raw normalised text so that callers can emit `.unknown` rows."""
import re


def mask(src: str, keep_strings: bool = True) -> str:
    """Replace comments by spaces (same length, newlines kept).  String/char literal contents are
    kept (keep_strings) or blanked.  Handles nested block comments, raw strings, lifetimes."""
    out = []
    i, n = 0, len(src)
    while i < n:
        c = src[i]
        two = src[i:i + 2]
        if two == '//':
            j = src.find('\n', i)
            if j < 0:
                j = n
            out.append(' ' * (j - i))
            i = j
        elif two == '/*':
            depth, j = 1, i + 2
            while j < n and depth:
                if src[j:j + 2] == '/*':
                    depth += 1
                    j += 2
                elif src[j:j + 2] == '*/':
                    depth -= 1
                    j += 2
                else:
                    j += 1
            out.append(''.join(ch if ch == '\n' else ' ' for ch in src[i:j]))
            i = j
        elif c == '"' or (c in 'br' and re.match(r'(b?r#*"|b")', src[i:i + 8])):
            m = re.match(r'(b?)(r(#*))?"', src[i:])
            if not m:
                out.append(c)
                i += 1
                continue
            start = i
            i += m.end()
            if m.group(2) is not None:
                close = '"' + m.group(3)
                j = src.find(close, i)
                j = n if j < 0 else j + len(close)
            else:
                j = i
                while j < n and src[j] != '"':
                    j += 2 if src[j] == '\\' else 1
                j += 1
            lit = src[start:j]
            out.append(lit if keep_strings else ''.join(ch if ch == '\n' else ' ' for ch in lit))
            i = j
        elif c == "'" or (c == 'b' and src[i:i + 2] == "b'"):
            # char literal or lifetime
            m = re.match(r"b?'(\\.[^']*|[^\\'])'", src[i:])
            if m:
                lit = m.group(0)
                out.append(lit if keep_strings else ' ' * len(lit))
                i += len(lit)
            else:
                out.append(c)
                i += 1
        else:
            out.append(c)
            i += 1
    return ''.join(out)


def match_brace(s: str, i: int, open_ch='{', close_ch='}') -> int:
    """s[i] == open_ch; return index of the matching close (on masked source, strings skipped)."""
    assert s[i] == open_ch, (s[i:i + 20], open_ch)
    depth = 0
    n = len(s)
    j = i
    while j < n:
        ch = s[j]
        if ch == '"':
            j += 1
            while j < n and s[j] != '"':
                j += 2 if s[j] == '\\' else 1
        elif ch == "'":
            m = re.match(r"'(\\.[^']*|[^\\'])'", s[j:])
            if m:
                j += len(m.group(0)) - 1
        elif ch == open_ch:
            depth += 1
        elif ch == close_ch:
            depth -= 1
            if depth == 0:
                return j
        j += 1
    raise ValueError('unbalanced')


def norm(s: str) -> str:
    """Whitespace-normalise: collapse runs, drop spaces around punctuation."""
    s = re.sub(r'\s+', ' ', s.strip())
    s = re.sub(r' ?([(){}\[\];,.<>=!&*:+\-|/]) ?', r'\1', s)
    return s


def line_of(src: str, pos: int) -> int:
    return src.count('\n', 0, pos) + 1


class Item:
    def __init__(self, kind, header, body, start, end, body_start):
        self.kind, self.header, self.body = kind, header, body
        self.start, self.end, self.body_start = start, end, body_start


def find_blocks(ms: str, pattern: str, lo=0, hi=None):
    """Yield Items for every regex `pattern` match (on masked source) that is followed, after the
    header, by a `{ ... }` block.  header = text from match start to the `{`."""
    hi = len(ms) if hi is None else hi
    for m in re.finditer(pattern, ms[lo:hi], re.M):
        s = lo + m.start()
        # find first '{' or ';' after the match at angle/paren depth 0
        j = lo + m.end()
        depth = 0
        while j < hi:
            ch = ms[j]
            if ch in '(<[':
                # '<' could be a comparison in where clauses rarely; acceptable for headers
                depth += 1
            elif ch in ')>]':
                if ch == '>' and ms[j - 1] == '-':
                    pass
                else:
                    depth -= 1
            elif ch == ';' and depth <= 0:
                break
            elif ch == '{':
                break
            j += 1
        if j >= hi or ms[j] != '{':
            continue
        e = match_brace(ms, j)
        yield Item(m.group(0), ms[s:j], ms[j + 1:e], s, e + 1, j + 1)


def fns_in(ms: str, lo=0, hi=None):
    """Yield (name, Item) for every `fn name` with a body in ms[lo:hi]."""
    for it in find_blocks(ms, r'\bfn\s+([A-Za-z_][A-Za-z0-9_]*)', lo, hi):
        name = re.match(r'fn\s+([A-Za-z_][A-Za-z0-9_]*)', it.kind).group(1)
        yield name, it


def lean_str(s: str) -> str:
    return '"' + s.replace('\\', '\\\\').replace('"', '\\"').replace('\n', '\\n') + '"'
