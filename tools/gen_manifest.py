#!/usr/bin/env python3
"""Regenerate /verif/MANIFEST.json from the table below (keeps it schema-valid at all times)."""
import json
import os

VERIF = os.path.dirname(os.path.dirname(os.path.abspath(__file__)))
ALL = [f'C{i:02d}' for i in range(1, 19)]

CLAIMED = {
    'C14': dict(
        category='proof',
        text=("Lean theorems rowOK_sound/rowOK_complete (for every possible impl row), antisym, lexCmp_lt_iff, hashRow_sound; "
              "the rows are regenerated from src/bytes.rs and src/bytes_mut.rs on every run (T1) and a kernel-checked certificate "
              "(`decide`) shows every row OK; T2 executes every impl x operator x both operand orders on all pairs of a small "
              "universe against the Lean-defined lexicographic spec."),
        design='§7 C14, §4.1',
        note=("Trusted: Lean kernel; tools/extract.py coercion stripping (fail-closed); delegation between impls modelled as byte "
              "comparison (covered by T2 only); std's [u8] Hash as hashing reference."),
        technique='Lean 4 proof of a verified decision procedure + per-run decide certificate over a table translated from the source; differential correspondence run',
    ),
    'C15': dict(
        category='proof',
        text=("Lean theorems debug_roundtrip / hex_roundtrip: for every chain accepted by the 256-case decision procedure and every byte "
              "string, the output parses back (independent strict byte-string-literal parser, prefix-stable parse1) to exactly the contents; "
              "the chain, format strings, fmt_impl!/serde_impl! tables are regenerated from src/fmt/*.rs and src/serde.rs on every run and a "
              "`decide +kernel` certificate instantiates the theorems for the source; T2 formats all single bytes, all 65536 pairs and random "
              "strings in every representation and the judge parses them back and compares with the model; serde via serde_test."),
        design='§7 C15, §4.1',
        note=("Trusted: Lean kernel; T1 extractor; core::fmt rendering of {:02x}/{} (modelled, tied by T2); serde dispatch and serde_test; "
              "the serde rows are a syntactic fingerprint of the macro body (theorem is about contents = input only)."),
        technique='Lean 4 proof (induction over the byte list on top of a 256-case kernel-evaluated decision procedure) over a chain translated from the source; differential correspondence run',
    ),
    'C09': dict(
        category='proof',
        text=("Lean theorems by structural induction over the adapter tree (any nesting depth, any fragmentation incl. empty chunks, any "
              "contents and arguments): remaining = length of the denoted sequence, chunk is a prefix that is empty only at the end, advance "
              "removes exactly n bytes or panics, chunks_vectored count/prefix/non-empty laws (incl. Take's 16-slot scratch array and Chain), "
              "copy_to_slice / try_copy_to_slice / copy_to_bytes (default and the four overrides) / IntoIter return exactly the next bytes; "
              "the loop fuel n+1 always suffices (termination). Model hand-transliterated from src/buf/*.rs and tied on every run by T2: "
              "~100k (tree, script) cases on the real crate, results AND full adapter-tree state compared after every op, the property "
              "predicates evaluated on the implementation's own observations."),
        design='§7 C09, §3 M2, §4.2',
        note=("Trusted: Lean kernel; the hand transliteration (tied by T2 only); harness tree builder (Box<dyn Buf> nodes) and judge parser; "
              "VecDeque::as_slices front-first; sizes < 2^64 (wf)."),
        technique='Lean 4 proof by structural induction over a hand-written executable model; differential correspondence check (lock-step judge)',
    ),
    'C10': dict(
        category='proof',
        text=("Lean theorems get_ok / get_short / get_too_wide / try_eq_get for every row accepted by the decision procedure rowOK and every "
              "well-formed adapter tree: value = decode(next size bytes) chosen from the method name (two's complement, any endian, nbytes "
              "0..8), cursor advances by exactly size, Err{requested,available} / panic on shortfall, independent of chunking (fast path = "
              "slow path) and of the build profile. The 76-row getter table, sign_extend form, macro-arm texts and the deref forwarders are "
              "regenerated from src/buf/buf_impl.rs on every run (T1) and certified by `decide`; T2 runs every method x sign-bit patterns x "
              "every chunk-boundary position x every shortfall x every implementor/wrapper in debug and release."),
        design='§7 C10, §3 M3, §4.1',
        note=("Trusted: Lean kernel; T1 extractor (name -> Spec, body -> Body with inlining; fail-closed); macro-arm semantics hand-written "
              "(text fingerprint + T2); little-endian host for _ne; bytes < 256 hypothesis; floats as bit patterns."),
        technique='Lean 4 proof (verified decision procedure + chunk-independence lemma over the adapter-tree model) + per-run decide certificate over a table translated from the source; differential correspondence run',
    ),
    'C12': dict(
        category='proof',
        text=("Read side: Lean theorems take_den, chain_den, {take,chain}_{advance,copyToSlice,copyToBytes}_inner (after consuming n bytes "
              "through the adapter the limit dropped by n and the inner buffers — arbitrary trees — advanced by exactly n / min(n,|a|) and the "
              "rest), readerRead_spec, readerFillBuf_spec. T2: the judge checks limit()/get_ref()/first_ref()/last_ref() after every "
              "consuming op on Take/Chain roots, Reader read/fill_buf/consume, set_limit in mid-stream. Write side (Props/C11.lean): limit_room, "
              "limit_putSlice_inner, chain_putSlice_inner (all of a, then b), writerWrite_spec (min(remaining_mut, requested), never fails); "
              "T2 mut stream checks limit()/get_ref()/first/second targets after every write."),
        design='§7 C12, §3 M2',
        note="Trusted: as C09 and C11 (hand-written M2 read and write models tied by T2).",
        technique='Lean 4 proof by structural induction over a hand-written executable model; differential correspondence check (lock-step judge)',
    ),
    'C11': dict(
        category='proof',
        text=("Lean theorems over write-side target trees (any nesting, any Env of growth decisions): put_slice / put_bytes / put(Buf) append "
              "exactly the source bytes in order and shrink the room by exactly that many, panic when they do not fit; chunk_mut is empty iff "
              "remaining_mut is 0 and never longer; every put_X row accepted by putRowOK appends exactly encode(spec, value, nbytes); "
              "decode(encode v) = v on the method's value range (round-trip with C10's decode, incl. nbytes truncation). The putter table, "
              "default-loop texts and forwarders are regenerated from src/buf/buf_mut.rs each run and certified by `decide`. T2: ~33k target "
              "cases, every put method x boundary values x nbytes x fill levels, guard bytes checked after every op and after panics."),
        design='§7 C11, §3 M2/M3',
        note=("Trusted: Lean kernel; hand-written M2 write model (tied by T2); T1 extractor; growth decisions are an arbitrary Env (judge "
              "re-synchronises spare capacities); states within 64 bytes of isize::MAX excluded; ordM (chain written in order) is an "
              "invariant of states reached through the API, proved preserved."),
        technique='Lean 4 proof (induction over target trees and loop fuel; verified decision procedure for the put table; decode/encode round-trip) + per-run decide certificate; differential correspondence run',
    ),
}

NOT_YET = "not claimed yet: machinery for this property is still under construction (build order in DESIGN.md §10)"


def main():
    checks = []
    for pid in ALL:
        if pid in CLAIMED:
            c = CLAIMED[pid]
            checks.append({
                'property_id': pid,
                'quick_cmd': f'./check {pid} --tier quick',
                'thorough_cmd': f'./check {pid} --tier thorough',
                'evidence_file': f'/verif/evidence/{pid}.json',
                'replay_cmd_template': f'./check {pid} --replay {{path}}',
                'engine': 'lean4+t1t2',
                'level_claimed': {'category': c['category'], 'text': c['text'], 'design_ref': c['design']},
                'level_note': c['note'],
                'technique': c['technique'],
            })
    m = {
        'version': 1,
        'setup_cmd': './check --setup',
        'hooks': {
            'guard': 'tokio_rs_bytes_verif',
            'enable': 'RUSTFLAGS="--cfg loom --cfg tokio_rs_bytes_verif" VERIF_DIR=/verif cargo test --manifest-path /repo/Cargo.toml --lib (loom models only); every other check uses the public API with no hook',
            'baseline_off_cmd': 'cd /repo && cargo test --workspace --no-fail-fast --offline',
            'source_commits': [],
            'add_only': True,
        },
        'engines': [{
            'name': 'lean4+t1t2', 'path': '/verif/check',
            'serves_properties': sorted(CLAIMED),
            'kind_free_text': 'Lean 4 theorems over models; T1 translator (tools/extract.py) + per-run certificates; T2 Rust harness + compiled Lean judge',
        }],
        'checks': checks,
        'notes': 'See DESIGN.md. Fixed defects are listed in known-findings.jsonl.',
        'not_applicable': [{'property_id': p, 'reason': NOT_YET} for p in ALL if p not in CLAIMED],
    }
    with open(os.path.join(VERIF, 'MANIFEST.json'), 'w') as f:
        json.dump(m, f, indent=1)
        f.write('\n')


if __name__ == '__main__':
    main()
