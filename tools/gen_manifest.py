#!/usr/bin/env python3
"""Regenerate /verif/MANIFEST.json from the table below (keeps it schema-valid at all times)."""
import json
import os

VERIF = os.path.dirname(os.path.dirname(os.path.abspath(__file__)))
ALL = [f'C{i:02d}' for i in range(1, 19)]

CLAIMED = {
    'C14': dict(
        category='proof',
        text=("Lean theorems rowOK_sound/rowOK_complete (for every possible impl row), antisym, lexCmp_lt_iff, hashRow_sound; "
              "the rows are regenerated from src/bytes.rs and src/bytes_mut.rs on every run (T1) and a kernel-checked certificate "
              "(`decide`) shows every row OK; T2 executes every impl x operator x both operand orders on all pairs of a small "
              "universe against the Lean-defined lexicographic spec."),
        design='§7 C14, §4.1',
        note=("Trusted: Lean kernel; tools/extract.py coercion stripping (fail-closed); delegation between impls modelled as byte "
              "comparison (covered by T2 only); std's [u8] Hash as hashing reference."),
        technique='Lean 4 proof of a verified decision procedure + per-run decide certificate over a table translated from the source; differential correspondence run',
    ),
    'C15': dict(
        category='proof',
        text=("Lean theorems debug_roundtrip / hex_roundtrip: for every chain accepted by the 256-case decision procedure and every byte "
              "string, the output parses back (independent strict byte-string-literal parser, prefix-stable parse1) to exactly the contents; "
              "the chain, format strings, fmt_impl!/serde_impl! tables are regenerated from src/fmt/*.rs and src/serde.rs on every run and a "
              "`decide +kernel` certificate instantiates the theorems for the source; T2 formats all single bytes, all 65536 pairs and random "
              "strings in every representation and the judge parses them back and compares with the model; serde via serde_test."),
        design='§7 C15, §4.1',
        note=("Trusted: Lean kernel; T1 extractor; core::fmt rendering of {:02x}/{} (modelled, tied by T2); serde dispatch and serde_test; "
              "the serde rows are a syntactic fingerprint of the macro body (theorem is about contents = input only)."),
        technique='Lean 4 proof (induction over the byte list on top of a 256-case kernel-evaluated decision procedure) over a chain translated from the source; differential correspondence run',
    ),
}

NOT_YET = "not claimed yet: machinery for this property is still under construction (build order in DESIGN.md §10)"


def main():
    checks = []
    for pid in ALL:
        if pid in CLAIMED:
            c = CLAIMED[pid]
            checks.append({
                'property_id': pid,
                'quick_cmd': f'./check {pid} --tier quick',
                'thorough_cmd': f'./check {pid} --tier thorough',
                'evidence_file': f'/verif/evidence/{pid}.json',
                'replay_cmd_template': f'./check {pid} --replay {{path}}',
                'engine': 'lean4+t1t2',
                'level_claimed': {'category': c['category'], 'text': c['text'], 'design_ref': c['design']},
                'level_note': c['note'],
                'technique': c['technique'],
            })
    m = {
        'version': 1,
        'setup_cmd': './check --setup',
        'hooks': {
            'guard': 'tokio_rs_bytes_verif',
            'enable': 'RUSTFLAGS="--cfg loom --cfg tokio_rs_bytes_verif" VERIF_DIR=/verif cargo test --manifest-path /repo/Cargo.toml --lib (loom models only); every other check uses the public API with no hook',
            'baseline_off_cmd': 'cd /repo && cargo test --workspace --no-fail-fast --offline',
            'source_commits': [],
            'add_only': True,
        },
        'engines': [{
            'name': 'lean4+t1t2', 'path': '/verif/check',
            'serves_properties': sorted(CLAIMED),
            'kind_free_text': 'Lean 4 theorems over models; T1 translator (tools/extract.py) + per-run certificates; T2 Rust harness + compiled Lean judge',
        }],
        'checks': checks,
        'notes': 'See DESIGN.md. Fixed defects are listed in known-findings.jsonl.',
        'not_applicable': [{'property_id': p, 'reason': NOT_YET} for p in ALL if p not in CLAIMED],
    }
    with open(os.path.join(VERIF, 'MANIFEST.json'), 'w') as f:
        json.dump(m, f, indent=1)
        f.write('\n')


if __name__ == '__main__':
    main()
