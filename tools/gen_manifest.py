#!/usr/bin/env python3
"""Regenerate /verif/MANIFEST.json from the table below (keeps it schema-valid at all times)."""
import json
import os

VERIF = os.path.dirname(os.path.dirname(os.path.abspath(__file__)))
ALL = [f'C{i:02d}' for i in range(1, 19)]

CLAIMED = {
    'C14': dict(
        category='proof',
        text=("Lean theorems rowOK_sound/rowOK_complete (for every possible impl row), antisym, lexCmp_lt_iff, hashRow_sound; "
              "the rows are regenerated from src/bytes.rs and src/bytes_mut.rs on every run (T1) and a kernel-checked certificate "
              "(`decide`) shows every row OK; T2 executes every impl x operator x both operand orders on all pairs of a small "
              "universe against the Lean-defined lexicographic spec."),
        design='§7 C14, §4.1',
        note=("Trusted: Lean kernel; tools/extract.py coercion stripping (fail-closed); delegation between impls modelled as byte "
              "comparison (covered by T2 only); std's [u8] Hash as hashing reference."),
        technique='Lean 4 proof of a verified decision procedure + per-run decide certificate over a table translated from the source; differential correspondence run',
    ),
    'C15': dict(
        category='proof',
        text=("Lean theorems debug_roundtrip / hex_roundtrip: for every chain accepted by the 256-case decision procedure and every byte "
              "string, the output parses back (independent strict byte-string-literal parser, prefix-stable parse1) to exactly the contents; "
              "the chain, format strings, fmt_impl!/serde_impl! tables are regenerated from src/fmt/*.rs and src/serde.rs on every run and a "
              "`decide +kernel` certificate instantiates the theorems for the source; T2 formats all single bytes, all 65536 pairs and random "
              "strings in every representation and the judge parses them back and compares with the model; serde via serde_test."),
        design='§7 C15, §4.1',
        note=("Trusted: Lean kernel; T1 extractor; core::fmt rendering of {:02x}/{} (modelled, tied by T2); serde dispatch and serde_test; "
              "the serde rows are a syntactic fingerprint of the macro body (theorem is about contents = input only)."),
        technique='Lean 4 proof (induction over the byte list on top of a 256-case kernel-evaluated decision procedure) over a chain translated from the source; differential correspondence run',
    ),
    'C09': dict(
        category='proof',
        text=("Lean theorems by structural induction over the adapter tree (any nesting depth, any fragmentation incl. empty chunks, any "
              "contents and arguments): remaining = length of the denoted sequence, chunk is a prefix that is empty only at the end, advance "
              "removes exactly n bytes or panics, chunks_vectored count/prefix/non-empty laws (incl. Take's 16-slot scratch array and Chain), "
              "copy_to_slice / try_copy_to_slice / copy_to_bytes (default and the four overrides) / IntoIter return exactly the next bytes; "
              "the loop fuel n+1 always suffices (termination). Model hand-transliterated from src/buf/*.rs and tied on every run by T2: "
              "~100k (tree, script) cases on the real crate, results AND full adapter-tree state compared after every op, the property "
              "predicates evaluated on the implementation's own observations."),
        design='§7 C09, §3 M2, §4.2',
        note=("Trusted: Lean kernel; the hand transliteration (tied by T2 only); harness tree builder (Box<dyn Buf> nodes) and judge parser; "
              "VecDeque::as_slices front-first; sizes < 2^64 (wf)."),
        technique='Lean 4 proof by structural induction over a hand-written executable model; differential correspondence check (lock-step judge)',
    ),
    'C10': dict(
        category='proof',
        text=("Lean theorems get_ok / get_short / get_too_wide / try_eq_get for every row accepted by the decision procedure rowOK and every "
              "well-formed adapter tree: value = decode(next size bytes) chosen from the method name (two's complement, any endian, nbytes "
              "0..8), cursor advances by exactly size, Err{requested,available} / panic on shortfall, independent of chunking (fast path = "
              "slow path) and of the build profile. The 76-row getter table, sign_extend form, macro-arm texts and the deref forwarders are "
              "regenerated from src/buf/buf_impl.rs on every run (T1) and certified by `decide`; T2 runs every method x sign-bit patterns x "
              "every chunk-boundary position x every shortfall x every implementor/wrapper in debug and release."),
        design='§7 C10, §3 M3, §4.1',
        note=("Trusted: Lean kernel; T1 extractor (name -> Spec, body -> Body with inlining; fail-closed); macro-arm semantics hand-written "
              "(text fingerprint + T2); little-endian host for _ne; bytes < 256 hypothesis; floats as bit patterns."),
        technique='Lean 4 proof (verified decision procedure + chunk-independence lemma over the adapter-tree model) + per-run decide certificate over a table translated from the source; differential correspondence run',
    ),
    'C12': dict(
        category='proof',
        text=("Read side: Lean theorems take_den, chain_den, {take,chain}_{advance,copyToSlice,copyToBytes}_inner (after consuming n bytes "
              "through the adapter the limit dropped by n and the inner buffers — arbitrary trees — advanced by exactly n / min(n,|a|) and the "
              "rest), readerRead_spec, readerFillBuf_spec. T2: the judge checks limit()/get_ref()/first_ref()/last_ref() after every "
              "consuming op on Take/Chain roots, Reader read/fill_buf/consume, set_limit in mid-stream. Write side (Props/C11.lean): limit_room, "
              "limit_putSlice_inner, chain_putSlice_inner (all of a, then b), writerWrite_spec (min(remaining_mut, requested), never fails); "
              "T2 mut stream checks limit()/get_ref()/first/second targets after every write."),
        design='§7 C12, §3 M2',
        note="Trusted: as C09 and C11 (hand-written M2 read and write models tied by T2).",
        technique='Lean 4 proof by structural induction over a hand-written executable model; differential correspondence check (lock-step judge)',
    ),
    'C11': dict(
        category='proof',
        text=("Lean theorems over write-side target trees (any nesting, any Env of growth decisions): put_slice / put_bytes / put(Buf) append "
              "exactly the source bytes in order and shrink the room by exactly that many, panic when they do not fit; chunk_mut is empty iff "
              "remaining_mut is 0 and never longer; every put_X row accepted by putRowOK appends exactly encode(spec, value, nbytes); "
              "decode(encode v) = v on the method's value range (round-trip with C10's decode, incl. nbytes truncation). The putter table, "
              "default-loop texts and forwarders are regenerated from src/buf/buf_mut.rs each run and certified by `decide`. T2: ~33k target "
              "cases, every put method x boundary values x nbytes x fill levels, guard bytes checked after every op and after panics."),
        design='§7 C11, §3 M2/M3',
        note=("Trusted: Lean kernel; hand-written M2 write model (tied by T2); T1 extractor; growth decisions are an arbitrary Env (judge "
              "re-synchronises spare capacities); states within 64 bytes of isize::MAX excluded; ordM (chain written in order) is an "
              "invariant of states reached through the API, proved preserved."),
        technique='Lean 4 proof (induction over target trees and loop fuel; verified decision procedure for the put table; decode/encode round-trip) + per-run decide certificate; differential correspondence run',
    ),
    'C01': dict(category='proof', text="Lean: step_sound (one step preserves the representation invariant WFx, never reaches UB, and commutes with the abstraction to the reference model where every handle is an independent Vec<u8>) for all 29 operations, all arguments, all environments/configurations; refines / refines_init (any script, by induction), frame (an op on one handle never changes what another reads), bytes_immutable. T2: the judge runs the Lean reference model Spec.step and the M1 model in lock-step with the real crate under the ledger allocator (random walks, boundary sweep, pair-exhaustive stream; debug+release) and evaluates the same predicates on the implementation's observations; Extend / FromIterator driven by iterators with wrong size hints (adv stream) must append exactly the yielded items.", design='§7 C01, §3 M1', note="Trusted: Lean kernel; the hand transliteration of src/bytes.rs + src/bytes_mut.rs into Model/Core.lean (tied by T1 for vtable wiring and representation constants — Cert/C01 — and otherwise by T2 only: lock-step judge compares outcome, every live handle's kind / allocation class + offset / len / capacity / is_unique / contents and the allocator-event delta after every op; ~250k ops per quick run, 0 disagreements on the unchanged tree); std's Vec/Box behaviour and the allocator contract as modelled (checked by T2); OpOK (slices <= isize::MAX); 64-bit usize.",
        technique='Lean 4 proof: inductive representation invariant + refinement to a reference model over a hand-written executable model of the core; differential correspondence check (lock-step judge) under a ledger allocator'),
    'C02': dict(category='proof', text="Lean: no_ub — from every well-formed state no operation with any argument value reaches a model-level UB (every raw-memory primitive of the model checks live/in-bounds/initialised/layout-exact/parity-decoded), in every configuration; invariant W1–W5 preserved (step_sound). T2: ledger allocator (layout-exact frees, red zones, poison+quarantine, unknown-pointer frees), every handle's [ptr, ptr+cap) inside one live block after every op, process-death detection, out-of-contract and near-usize::MAX arguments, debug and release, both address parities; BufMut side: guard bytes around every fixed-size destination in the write stream of C11 and the reviewed unsafe-site inventory (Cert/C17); Extend / FromIterator under panicking and lying iterators (adv stream) with the allocator oracle; thorough tier adds AddressSanitizer and a Miri sample as support. PARTIAL by nature: byte/allocation level only; provenance and aliasing rules of the Rust abstract machine are not expressible in M1 (see DESIGN).", design='§7 C02', note="Trusted: Lean kernel; the hand transliteration of src/bytes.rs + src/bytes_mut.rs into Model/Core.lean (tied by T1 for vtable wiring and representation constants — Cert/C01 — and otherwise by T2 only: lock-step judge compares outcome, every live handle's kind / allocation class + offset / len / capacity / is_unique / contents and the allocator-event delta after every op; ~250k ops per quick run, 0 disagreements on the unchanged tree); std's Vec/Box behaviour and the allocator contract as modelled (checked by T2); OpOK (slices <= isize::MAX); 64-bit usize.",
        technique='Lean 4 proof: inductive representation invariant + refinement to a reference model over a hand-written executable model of the core; differential correspondence check (lock-step judge) under a ledger allocator'),
    'C03': dict(category='proof', text="Lean: the ledger invariant evOKB over the event history (every heap region allocated exactly once with its size, deallocated exactly once with that size iff dead, non-heap memory never allocated/freed by the crate, every owner has as_ref called exactly once and is dropped exactly once iff its control block is gone) is preserved by every operation incl. panics (evOK_step); no_leak (no live handle => no live heap region / control block), alive_while_viewed, owner_alive_while_viewed, all_released_once; drop orders are ordinary scripts, so every order is covered. T2: ledger balanced at the end of every script after dropping the survivors in random order, instrumented owners (as_ref / drop counters), dealloc events layout-exact.", design='§7 C03', note="As C01 (hand-written M1 tied by T2); Box<Owned<T>> drop glue calls T::drop once (std).",
        technique='Lean 4 proof: inductive invariant over the monotone event history of a hand-written executable model of the core; differential correspondence check under a ledger allocator'),
    'C04': dict(category='proof', text='Lean: exclusivity (exclusiveB) and in-bounds (handleOKB) are conjuncts of the invariant preserved by step_sound; reserve_post (capacity-len >= n, len unchanged; contents by refines), reserve_unrepresentable (panics in every configuration), try_reclaim_post (true: same guarantee, no byte-buffer allocation; false: address/len/cap unchanged). T2: disjointness and containment of all BytesMut capacity ranges against the ledger after every op, fill-spare-capacity-then-reread, reserve/try_reclaim arguments around 0, spare, allocation size, isize::MAX, usize::MAX at every offset.', design='§7 C04', note="Trusted: Lean kernel; the hand transliteration of src/bytes.rs + src/bytes_mut.rs into Model/Core.lean (tied by T1 for vtable wiring and representation constants — Cert/C01 — and otherwise by T2 only: lock-step judge compares outcome, every live handle's kind / allocation class + offset / len / capacity / is_unique / contents and the allocator-event delta after every op; ~250k ops per quick run, 0 disagreements on the unchanged tree); std's Vec/Box behaviour and the allocator contract as modelled (checked by T2); OpOK (slices <= isize::MAX); 64-bit usize.",
        technique='Lean 4 proof: inductive representation invariant + refinement to a reference model over a hand-written executable model of the core; differential correspondence check (lock-step judge) under a ledger allocator'),
    'C07': dict(category='proof', text="Lean: zero_copy_{clone,slice,splitOff,splitTo,inplace(truncate/clear/freeze/from Vec),advance,unsplit,tryIntoMut}: result handles at source address + logical offset (also for empty split results), no alloc event, no region's data changed. T2: as_ptr equations on source and result (ledger block + offset) and no align-1 allocation in the op's ledger delta.", design='§7 C07', note="Trusted: Lean kernel; the hand transliteration of src/bytes.rs + src/bytes_mut.rs into Model/Core.lean (tied by T1 for vtable wiring and representation constants — Cert/C01 — and otherwise by T2 only: lock-step judge compares outcome, every live handle's kind / allocation class + offset / len / capacity / is_unique / contents and the allocator-event delta after every op; ~250k ops per quick run, 0 disagreements on the unchanged tree); std's Vec/Box behaviour and the allocator contract as modelled (checked by T2); OpOK (slices <= isize::MAX); 64-bit usize.",
        technique='Lean 4 proof: inductive representation invariant + refinement to a reference model over a hand-written executable model of the core; differential correspondence check (lock-step judge) under a ledger allocator'),
    'C08': dict(category='proof', text="Lean: is_unique_iff (answer = 'no other live handle names the storage', false for static/owner), try_into_mut_iff (succeeds exactly when unique, same region/offset/len, no byte-buffer allocation), reclaim_whole / reserve_whole_no_alloc (an empty handle alone on its allocation gets try_reclaim(n) = true for every n up to the allocation size, without allocating). T2: is_unique of every Bytes after every op against the set of live handles sharing the ledger block / control block.", design='§7 C08', note="Trusted: Lean kernel; the hand transliteration of src/bytes.rs + src/bytes_mut.rs into Model/Core.lean (tied by T1 for vtable wiring and representation constants — Cert/C01 — and otherwise by T2 only: lock-step judge compares outcome, every live handle's kind / allocation class + offset / len / capacity / is_unique / contents and the allocator-event delta after every op; ~250k ops per quick run, 0 disagreements on the unchanged tree); std's Vec/Box behaviour and the allocator contract as modelled (checked by T2); OpOK (slices <= isize::MAX); 64-bit usize.",
        technique='Lean 4 proof: inductive representation invariant + refinement to a reference model over a hand-written executable model of the core; differential correspondence check (lock-step judge) under a ledger allocator'),
    'C13': dict(category='proof', text="Lean: panic_atomic (a panicking call leaves a well-formed state whose abstraction is the previous one — contents, lengths, kinds — except the handle moved into unsplit), no_ub for all argument values. T2: catch_unwind around every call, full handle table compared with the pre-state after every panic, script continues and ends with a balanced ledger; 'mustPanic' contract oracle (documented panics happen, in-contract calls do not panic).", design='§7 C13', note="Trusted: Lean kernel; the hand transliteration of src/bytes.rs + src/bytes_mut.rs into Model/Core.lean (tied by T1 for vtable wiring and representation constants — Cert/C01 — and otherwise by T2 only: lock-step judge compares outcome, every live handle's kind / allocation class + offset / len / capacity / is_unique / contents and the allocator-event delta after every op; ~250k ops per quick run, 0 disagreements on the unchanged tree); std's Vec/Box behaviour and the allocator contract as modelled (checked by T2); OpOK (slices <= isize::MAX); 64-bit usize.",
        technique='Lean 4 proof: inductive representation invariant + refinement to a reference model over a hand-written executable model of the core; differential correspondence check (lock-step judge) under a ledger allocator'),
    'C18': dict(category='proof', text="Lean theorems over the recycling model (allocation size, offset, len, cap, outstanding parts, pinned older allocations, allocation count; reserve_inner's decisions), by induction over histories of ANY length: alloc_size_bounded (every allocation the buffer ever lives in, current or pinned, <= max(A0, 4M, 8)), live_bounded (peak live <= (retained allocations + 1) x that), big_enough_no_alloc (once the allocation reached 2M a refill with all parts dropped never allocates), alloc_doubles, allocs_bounded (with every part dropped before the refill the total number of byte-buffer allocations <= log2(4M+8)+3, independent of the number of rounds), rinv_step; the 'in particular' clause is reclaim_whole / reserve_whole_no_alloc over M1 (Props/C08). REFINEMENT TO M1 (Props/C18Refine, C18RefineOps): with the abstraction RecView, reserve (all four branches of reserve_inner), advance, truncate, extend_from_slice, split_to, split, drop of a part, split_off of the tail, unsplit (all branches), the round trip through Bytes (freeze + BytesMut::from / try_into_mut) and the pinned-allocation list of M1 each refine the corresponding step of the recycling model incl. the allocation count (step_*_refines, run_refines), and alloc_size_bounded_M1 transfers the size bound to M1 histories. T2: the recycling model runs in lock-step with a real BytesMut under the ledger allocator over 10^3 (quick) to 3*10^5 (thorough) rounds of 8 consumption styles x retention windows x sizes, comparing allocation size, offset, len, capacity, allocation count and live bytes after every operation, and the bound functions are checked on the implementation's own ledger.", design='§7 C18', note="Trusted: Lean kernel; M1 (hand-written, tied by T2) — the recycling model itself is proved to refine M1 (one side condition: advance past MAX_VEC_POS, DESIGN §13) and is additionally run in lock-step with the real crate (T2); the usage-pattern hypotheses HistOK / Recycled (leftover + message <= M; parts dropped before the refill) are assumptions about the caller; std Vec growth policy.",
        technique='Lean 4 proof: induction over histories with a potential/invariant argument on a hand-written arithmetic model; differential correspondence check under a ledger allocator'),
    'C16': dict(category='proof', text="Lean over M1: cfg_irrelevant (from every well-formed state, every operation gives the SAME outcome and state whether overflow checks and debug assertions are on or off: no unchecked +/- of the model leaves usize, no debug_assert fires), parity_irrelevant (running under any allocator parity and then forgetting parity = forgetting parity first and running with the all-even allocator: a simulation, so outcomes, contents, lengths, capacities and uniqueness coincide), erase_WFx, abs_erase. T1: inventory of every configuration-dependent site of src/** (83: cfg/cfg_attr attributes, cfg! macros, 28 debug assertions) regenerated each run and compared by a `decide +kernel` certificate with the reviewed, classified list (a new debug_assert / cfg branch breaks it). T2: identical seeded scripts (random walks, boundary sweep, pair-exhaustive) run on the real crate under {debug, release} x {even, odd} (thorough: alternating parity, no-default-features and extra-platforms builds) and the observable projection (outcome incl. panics, every handle's kind/len/capacity/is_unique/contents) is compared script by script; each configuration is also judged against M1. PARTIAL for the feature-set clause: std/no-std/extra-platforms are not distinguished by the model (review of the cfg inventory + T2 in the thorough tier only).", design='§7 C16', note="Trusted: as C01 (hand-written M1 tied by T2) + the review of the cfg-site inventory (class per site) + T1 extractor for it; release profile of the harness = overflow-checks off, debug-assertions off.",
        technique='Lean 4 proof: configuration-independence and parity-simulation theorems over a hand-written executable model of the core + per-run decide certificate over a site inventory translated from the source; differential runs of the real crate across configurations'),
    'C17': dict(category='proof', text="Lean over M6 (Model/Adv.lean: a Buf driven by an arbitrary script of lies — any claimed remaining, any real chunk length, panics at any call — and the crate's consumers transliterated with every unsafe step as a bounds-checked primitive): for every script, argument and fuel no consumer reaches UB (tryCopyToSlice/copyToSlice, the fixed-width getter fast path with its unsafe array read, variable-width getters, get_u8, default put into a fixed destination, BytesMut::put / Vec::put, IntoIter, Reader::read, Take::chunks_vectored; round 8: default copy_to_bytes through Take, Take::copy_to_bytes, Chain::copy_to_bytes, Chain::chunks_vectored, Chain getters, default put into Limit<&mut BytesMut>); Take and Limit provably bound what a lying source can append (putGrowTakeLoop_bound, putLimitLoop_bound); results are exactly destination-sized, fixed destinations never written past their end, growing destinations keep len <= cap; non-vacuity: the reserve-from-remaining() variant of the put loop provably reaches UB. Generalised (Model/AdvGen.lean, Props/C17Gen.lean): the same consumers and theorems over an adversary whose answers may change on EVERY call (an arbitrary function of advance count and call count — a Buf with interior mutability, the double-fetch adversary); strictness: a re-fetching reader that is safe against every scripted adversary provably reaches UB on the flicker adversary, the crate's single-fetch fast path does not; the judge evaluates the general model (instance ofScript) next to M6 on every modelled case. T1: inventory of the 41 unsafe sites of the consumer code (FNV fingerprints of the normalised text, incl. bodies of unsafe fns and from_owner's body) regenerated each run and compared by `decide +kernel` with the reviewed list. T2: 4000 (thorough 40000) seeded lie scripts x 20 consumers x sizes, lying owners (as_ref differs per call / panics), iterators with wrong size hints, on the real crate under the ledger allocator (red zones, poison, layout-exact frees, balance after unwinding, neighbour-handle canary); outcome compared with M6's prediction for all 20 consumers of the scripted-lie adversary. PARTIAL: the other adversary families (stale / flicker / cursor Bufs, from_owner, Extend/FromIterator, serde) rest on T2's allocator oracle and the unsafe-site review only.", design='§7 C17', note="Trusted: Lean kernel; M6 hand transliteration (tied by T2 outcome comparison + T1 unsafe-site fingerprints); the review classes of Model/Sites.lean; ledger allocator as out-of-bounds-write / double-free / leak oracle (reads inside a live allocation are only visible through values).",
        technique='Lean 4 proof: no-UB theorems by induction on loop fuel over a hand-written executable adversary model + per-run decide certificate over an unsafe-site inventory translated from the source; fault-injection correspondence run under a ledger allocator'),
    'C05': dict(category='proof', text="Lean (Model/Conc.lean, RA-view semantics; any number of threads/handles/steps; orderings are a parameter): ra_safe — if the orderings satisfy the decidable lower bound Sufficient then no reachable state has a data race on buffer memory, a use after free or a double free; freed_no_handles; unique_is_sole (a holder that loads 1 is the only holder: no stale 1); toVec_exclusive; four tightness theorems (each bound of Sufficient is necessary). Promotable handles (Props/C05.lean over M5p: a root handle shared by reference among any number of threads, racing shallow_clone_vec CASes, non-atomically initialised control block, owner-side free / take-over of a never-promoted root, then the refcount protocol): promo_safe (no buffer race, no unordered access to the control block, no use after free, no double free), promo_once (exactly one CAS wins), owner_sees_promotion (the owner can never act on a stale KIND_VEC word), promo_freed_no_users, promo_ctrlFreed_no_users, three tightness theorems (promLoad ⊒ Acquire, promCasOk ⊒ Release, promCasFail ⊒ Acquire are necessary). T1: orderings + nine shape facts of the 32 atomic sites regenerated from the source each run, certificates `Sufficient ords` and `Promo.Sufficient pords` by decide. T2: nine loom models of the real code x five representations through the hook, ghost UnsafeCell per buffer (read on handle reads, written on deallocation by the model file's global allocator and after zero-copy conversion), exactly-once deallocation, at most one zero-copy owner.", design='§7 C05, §3 M5', note="Trusted: Lean kernel; the RA-view semantics as a model of C11's RA+relaxed fragment; M5 protocol model (hand-written, tied by T1 shape facts and loom); Rust ownership/borrowing; loom (preemption bound 3 quick / 5 thorough). The promotion protocol on the `data` word is M5p (Model/Promo.lean), tied by T1 (orderings of the promotion sites, shape facts) and loom models p2/p8.", technique='Lean 4 proof: inductive invariant over a small-step release/acquire view semantics + per-run decide certificate over orderings translated from the source; loom exploration of the real code as correspondence / failing-schedule search'),
    'C06': dict(category='proof', text="Lean (Model/Conc.lean, RA-view semantics; any number of threads/handles/steps; orderings are a parameter): ra_safe — if the orderings satisfy the decidable lower bound Sufficient then no reachable state has a data race on buffer memory, a use after free or a double free; freed_no_handles; unique_is_sole (a holder that loads 1 is the only holder: no stale 1); toVec_exclusive; four tightness theorems (each bound of Sufficient is necessary). Promotable handles (Props/C05.lean over M5p: a root handle shared by reference among any number of threads, racing shallow_clone_vec CASes, non-atomically initialised control block, owner-side free / take-over of a never-promoted root, then the refcount protocol): promo_safe (no buffer race, no unordered access to the control block, no use after free, no double free), promo_once (exactly one CAS wins), owner_sees_promotion (the owner can never act on a stale KIND_VEC word), promo_freed_no_users, promo_ctrlFreed_no_users, three tightness theorems (promLoad ⊒ Acquire, promCasOk ⊒ Release, promCasFail ⊒ Acquire are necessary). T1: orderings + nine shape facts of the 32 atomic sites regenerated from the source each run, certificates `Sufficient ords` and `Promo.Sufficient pords` by decide. T2: nine loom models of the real code x five representations through the hook, ghost UnsafeCell per buffer (read on handle reads, written on deallocation by the model file's global allocator and after zero-copy conversion), exactly-once deallocation, at most one zero-copy owner.", design='§7 C06, §3 M5', note="Trusted: Lean kernel; the RA-view semantics as a model of C11's RA+relaxed fragment; M5 protocol model (hand-written, tied by T1 shape facts and loom); Rust ownership/borrowing; loom (preemption bound 3 quick / 5 thorough). The promotion protocol on the `data` word is M5p (Model/Promo.lean), tied by T1 (orderings of the promotion sites, shape facts) and loom models p2/p8.", technique='Lean 4 proof: inductive invariant over a small-step release/acquire view semantics + per-run decide certificate over orderings translated from the source; loom exploration of the real code as correspondence / failing-schedule search'),
}

NOT_YET = "not claimed yet: machinery for this property is still under construction (build order in DESIGN.md §10)"


OVERRIDE_NOTE = {
    'C01': 'Other (conversions, Clone, Drop, Deref, Extend, FromIterator, IntoIterator of the handles)',
    'C09': 'Read (Buf impls, IntoIter, Reader)', 'C10': 'Read (Buf impls: which getters / copy_to_* each type overrides)',
    'C11': 'Write (BufMut impls, Writer, fmt::Write)', 'C12': 'Read + Write',
    'C14': 'Cmp (no lt/le/gt/ge/ne overrides; eq / partial_cmp / cmp / hash / borrow only)', 'C15': 'Fmt (Debug / hex / Display impls, serde visitor methods)',
}


def main():
    for pid, cls in OVERRIDE_NOTE.items():
        CLAIMED[pid]['text'] += (f" T1 override inventory (round 8): the trait impls of the crate and the methods each defines itself are extracted from "
                                f"src/ on every run and compared by `decide +kernel` with the reviewed list the models were written from — class {cls} "
                                f"(Cert/Ov*.lean); a new or dropped override is a broken tie.")
    checks = []
    for pid in ALL:
        if pid in CLAIMED:
            c = CLAIMED[pid]
            checks.append({
                'property_id': pid,
                'quick_cmd': f'./check {pid} --tier quick',
                'thorough_cmd': f'./check {pid} --tier thorough',
                'evidence_file': f'/verif/evidence/{pid}.json',
                'replay_cmd_template': f'./check {pid} --replay {{path}}',
                'engine': 'lean4+t1t2',
                'level_claimed': {'category': c['category'], 'text': c['text'], 'design_ref': c['design']},
                'level_note': c['note'],
                'technique': c['technique'],
            })
    m = {
        'version': 1,
        'setup_cmd': './check --setup',
        'hooks': {
            'guard': 'tokio_rs_bytes_verif',
            'enable': 'RUSTFLAGS="--cfg loom --cfg tokio_rs_bytes_verif" VERIF_DIR=/verif cargo test --manifest-path /repo/Cargo.toml --lib (loom models only); every other check uses the public API with no hook',
            'baseline_off_cmd': 'cd /repo && cargo test --workspace --no-fail-fast --offline',
            'source_commits': ['526257d'],
            'add_only': True,
        },
        'engines': [{
            'name': 'lean4+t1t2', 'path': '/verif/check',
            'serves_properties': sorted(CLAIMED),
            'kind_free_text': 'Lean 4 theorems over models; T1 translator (tools/extract.py) + per-run certificates; T2 Rust harness + compiled Lean judge',
        }],
        'checks': checks,
        'notes': 'See DESIGN.md. Fixed defects are listed in known-findings.jsonl.',
        'not_applicable': [{'property_id': p, 'reason': NOT_YET} for p in ALL if p not in CLAIMED],
    }
    with open(os.path.join(VERIF, 'MANIFEST.json'), 'w') as f:
        json.dump(m, f, indent=1)
        f.write('\n')


if __name__ == '__main__':
    main()
