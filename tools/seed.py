#!/usr/bin/env python3
"""Seeded-defect bookkeeping.
  seed.py confirm <src_out_dir> <id> <property>   confirm a sub-agent's change in a scratch worktree (suite passes with the
                                                  patch, demo fails with / passes without) and store it as /verif/seeded/<id>/
  seed.py run <id> [<property> …]                 apply /verif/seeded/<id>/patch.diff to /repo, run the quick checks, undo; print verdicts
"""
import json
import os
import shutil
import subprocess
import sys
import time

VERIF = os.path.dirname(os.path.dirname(os.path.abspath(__file__)))
SEEDED = os.path.join(VERIF, 'seeded')


def sh(cmd, cwd=None, timeout=1800):
    p = subprocess.run(cmd, cwd=cwd, shell=isinstance(cmd, str), stdout=subprocess.PIPE, stderr=subprocess.STDOUT, text=True, timeout=timeout,
                       env=dict(os.environ, CARGO_NET_OFFLINE='true'))
    return p.returncode, p.stdout


def confirm(src, sid, prop):
    wt = f'/tmp/seedconfirm-{sid}'
    sh(['git', '-C', '/repo', 'worktree', 'remove', '--force', wt])
    rc, out = sh(['git', '-C', '/repo', 'worktree', 'add', '--detach', wt, 'HEAD'])
    assert rc == 0, out
    res = {'id': sid, 'property': prop, 'base_commit': sh(['git', '-C', '/repo', 'rev-parse', '--short', 'HEAD'])[1].strip()}
    try:
        patch = os.path.join(src, 'patch.diff')
        demo = os.path.join(src, 'demo.rs')
        feat = ['--features', 'serde'] if 'serde' in open(demo).read() or 'serde' in open(patch).read() else []
        # demo without the patch
        shutil.copy(demo, os.path.join(wt, 'tests', 'seeded_demo.rs'))
        rc, out = sh(['cargo', 'test', '--offline', '--test', 'seeded_demo'] + feat, cwd=wt)
        res['demo_passes_without_patch'] = rc == 0
        rc, out = sh(['git', 'apply', patch], cwd=wt)
        res['patch_applies'] = rc == 0
        rc, out = sh(['cargo', 'test', '--offline', '--test', 'seeded_demo'] + feat, cwd=wt)
        res['demo_fails_with_patch'] = rc != 0
        os.remove(os.path.join(wt, 'tests', 'seeded_demo.rs'))
        rc, out = sh(['cargo', 'test', '--offline', '--workspace', '--no-fail-fast'] + feat, cwd=wt)
        res['suite_passes_with_patch'] = rc == 0
        res['suite_tail'] = out.strip().splitlines()[-3:]
        res['ran'] = ['cargo test --offline --test seeded_demo (without patch, with patch)', 'cargo test --offline --workspace --no-fail-fast (with patch)']
    finally:
        sh(['git', '-C', '/repo', 'worktree', 'remove', '--force', wt])
    ok = all(res.get(k) for k in ('demo_passes_without_patch', 'patch_applies', 'demo_fails_with_patch', 'suite_passes_with_patch'))
    res['confirmed'] = ok
    if ok:
        d = os.path.join(SEEDED, sid)
        os.makedirs(d, exist_ok=True)
        shutil.copy(patch, os.path.join(d, 'patch.diff'))
        shutil.copy(demo, os.path.join(d, 'demo.rs'))
        notes = os.path.join(src, 'notes.md')
        res['needs'] = open(notes).read()[:1500] if os.path.exists(notes) else ''
        json.dump(res, open(os.path.join(d, 'meta.json'), 'w'), indent=1)
    print(json.dumps({k: v for k, v in res.items() if k != 'needs'}))
    return ok


def confirm_loom(src, sid, prop, target, filt, demo_name='demo.rs'):
    """Demonstration is a loom model to be appended to src/<target>; run with --cfg loom --lib <filt>."""
    wt = f'/tmp/seedconfirm-{sid}'
    sh(['git', '-C', '/repo', 'worktree', 'remove', '--force', wt])
    rc, out = sh(['git', '-C', '/repo', 'worktree', 'add', '--detach', wt, 'HEAD'])
    assert rc == 0, out
    res = {'id': sid, 'property': prop, 'base_commit': sh(['git', '-C', '/repo', 'rev-parse', '--short', 'HEAD'])[1].strip(),
           'demo_kind': f'loom model appended to src/{target}, RUSTFLAGS="--cfg loom" cargo test --offline --lib {filt}'}
    env_cmd = f'RUSTFLAGS="--cfg loom" cargo test --offline --lib {filt} -- --test-threads=1'
    try:
        patch = os.path.join(src, 'patch.diff')
        demo = os.path.join(src, demo_name)
        tfile = os.path.join(wt, 'src', target)
        orig = open(tfile).read()
        open(tfile, 'w').write(orig + '\n' + open(demo).read())
        rc, out = sh(env_cmd, cwd=wt)
        res['demo_passes_without_patch'] = rc == 0 and 'test result: ok' in out and ' 0 passed' not in out
        open(tfile, 'w').write(orig)
        rc, out = sh(['git', 'apply', patch], cwd=wt)
        res['patch_applies'] = rc == 0
        rc, out = sh(['cargo', 'test', '--offline', '--workspace', '--no-fail-fast'], cwd=wt)
        res['suite_passes_with_patch'] = rc == 0
        res['suite_tail'] = out.strip().splitlines()[-3:]
        patched = open(tfile).read()
        open(tfile, 'w').write(patched + '\n' + open(demo).read())
        rc, out = sh(env_cmd, cwd=wt)
        res['demo_fails_with_patch'] = rc != 0
        res['demo_fail_tail'] = [l for l in out.splitlines() if 'panicked' in l or 'Causality' in l or 'FAILED' in l][:4]
        res['ran'] = [env_cmd + ' (without patch, with patch)', 'cargo test --offline --workspace --no-fail-fast (with patch)']
    finally:
        sh(['git', '-C', '/repo', 'worktree', 'remove', '--force', wt])
    ok = all(res.get(k) for k in ('demo_passes_without_patch', 'patch_applies', 'demo_fails_with_patch', 'suite_passes_with_patch'))
    res['confirmed'] = ok
    if ok:
        d = os.path.join(SEEDED, sid)
        os.makedirs(d, exist_ok=True)
        shutil.copy(patch, os.path.join(d, 'patch.diff'))
        shutil.copy(demo, os.path.join(d, 'demo.rs'))
        notes = os.path.join(src, 'notes.md')
        res['needs'] = open(notes).read()[:1500] if os.path.exists(notes) else ''
        json.dump(res, open(os.path.join(d, 'meta.json'), 'w'), indent=1)
    print(json.dumps({k: v for k, v in res.items() if k != 'needs'}))
    return ok


def run(sid, props):
    d = os.path.join(SEEDED, sid)
    meta = json.load(open(os.path.join(d, 'meta.json')))
    props = props or [meta['property']]
    rc, out = sh(['git', '-C', '/repo', 'status', '--porcelain'])
    assert out.strip() == '', '/repo not clean: ' + out
    rc, out = sh(['git', '-C', '/repo', 'apply', os.path.join(d, 'patch.diff')])
    assert rc == 0, out
    verdicts = {}
    try:
        for p in props:
            t0 = time.time()
            rc, out = sh([os.path.join(VERIF, 'check'), p, '--tier', 'quick'], cwd=VERIF)
            vio = [l for l in out.splitlines() if l.startswith('VIOLATION')]
            verdicts[p] = {'exit': rc, 'violations': vio[:4], 'no_input': any('no-failing-input-found' in v for v in vio), 'wall_s': round(time.time() - t0, 1)}
    finally:
        sh(['git', '-C', '/repo', 'checkout', '--', '.'])
    meta.setdefault('check_results', {}).update(verdicts)
    json.dump(meta, open(os.path.join(d, 'meta.json'), 'w'), indent=1)
    print(sid, json.dumps(verdicts))


if __name__ == '__main__':
    if sys.argv[1] == 'confirm':
        sys.exit(0 if confirm(sys.argv[2], sys.argv[3], sys.argv[4]) else 1)
    elif sys.argv[1] == 'confirm-loom':
        sys.exit(0 if confirm_loom(*sys.argv[2:8]) else 1)
    elif sys.argv[1] == 'run':
        run(sys.argv[2], sys.argv[3:])
