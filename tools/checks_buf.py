"""Checks for the Buf/BufMut adapter-tree properties (C09, C10, C12, C11): hand-written M2/M3 tied by
T2 (buf stream: tree descriptions + cursor ops / getters, judged in lock-step), T1 getter table."""
import os
import __main__ as drv
import vlib
from vlib import log

TRACE = os.path.join(vlib.TMP, 'buf-{}.trace')


def run_buf_stream(run, a, pid, sub, binpath, fail_pids):
    """Run `harness buf <sub>` | `judge buf`; record oracle failures of properties in fail_pids,
    model diffs / gaps as breakage."""
    if a.replay:
        # replay file holds `t …` / `o …` lines
        cmd = [binpath, 'buf', 'replay', a.replay]
    else:
        cmd = [binpath, 'buf', sub]
    out, hrc, jrc, herr = vlib.pipe(cmd, ['buf', 'release' if '/release/' in binpath else 'debug'])
    if hrc != 0 or jrc != 0:
        run.breakage(f'buf stream ({sub}) did not complete', f'harness rc={hrc} judge rc={jrc}\n{herr[-1000:]}')
    summary = None
    other_prop_fails = 0
    for ln in out:
        tags, d = vlib.kv(ln)
        if not tags:
            continue
        if tags[0] == 'oracle-fail':
            fp = tags[1] if len(tags) > 1 else '?'
            replay = d.get('replay', '').replace('~', ' ').replace('|', '\n')
            if set(fp.split('+')) & set(fail_pids):
                key = f"method={d.get('method')}" if fp == 'C10' else f"op={d.get('op')}:root={d.get('root')}"
                run.fail(key, ln.split(' replay=')[0], replay)
            else:
                # another property of the same model fails on the implementation: the model (which satisfies all of them) no longer
                # describes this code, so this property is not shown to hold either
                other_prop_fails += 1
                if other_prop_fails <= 3:
                    run.breakage(f'correspondence (buf stream): implementation violates {fp}', ln.split(' replay=')[0] + '\n' + replay)
        elif tags[0] == 'model-diff':
            replay = d.get('replay', '').replace('~', ' ').replace('|', '\n')
            run.breakage('correspondence (buf stream): model and implementation disagree', ln.split(' replay=')[0] + '\n' + replay)
        elif tags[0] in ('tie-gap', 'bad-trace'):
            if tags[0] == 'tie-gap' and (pid != 'C10' or a.replay or sub != 'getters'):
                continue
            run.breakage('correspondence (buf stream): ' + tags[0], ln)
        elif tags[0] == 'summary':
            summary = d
    if summary:
        run.cov['t2_' + sub] = summary
        run.cov['evaluations'] = run.cov.get('evaluations', 0) + int(summary['ops'])
        run.cov['distinct_nontrivial'] = run.cov.get('distinct_nontrivial', 0) + int(summary['cases'])
    run.cov['other_property_failures_seen'] = other_prop_fails
    run.samples += [l.split(' replay=')[0] for l in out if l.startswith('oracle-fail')][:2]
    return out


def oracle_sound_buf(run, names):
    """the Buf / Mut judges' oracles never fire on the model's own behaviour (Props/OracleSoundBuf.lean)"""
    mod = 'BytesVerif.Props.OracleSoundBuf'
    res = vlib.lake_build([mod])
    import re as _re
    src = open(os.path.join(vlib.LEAN, 'BytesVerif/Props/OracleSoundBuf.lean')).read()
    m = _re.search(r'^namespace\s+(\S+)', src, _re.M)
    ns = (m.group(1) + '.') if m else ''
    full = [ns + t for t in names]
    if res[mod][0]:
        ok, found, problems = vlib.audit_axioms([mod], full, run.pid + '_orcb')
    else:
        ok, found, problems = False, {}, [t + ': module does not build' for t in full]
    for t in full:
        bad = [p for p in problems if p.startswith(t + ':')]
        run.obligation(t, not bad, '; '.join(bad))
        run.axioms[t] = found.get(t)
    if problems:
        run.breakage('oracle-soundness theorems (Props/OracleSoundBuf.lean) no longer check', '\n'.join(problems[:6]))


BUF_TRUST = [
    "hand transliteration of src/buf/{buf_impl,chain,take,vec_deque,iter,reader}.rs into Model/Buf.lean (tied by T2: results and full "
    "adapter-tree state compared after every op)",
    "harness buf stream (tree builder over the real crate types, Box<dyn Buf> nodes, SegBuf law-abiding leaf) + judge trace parser",
    "VecDeque::as_slices puts the front part first; sizes fit usize (wf)",
]


@drv.check('C09')
def c09(run, a):
    vlib.extract()
    vlib.standard_lean_phase(run, 'BytesVerif.Props.C09')
    vlib.override_cert(run, ['Read'])
    oracle_sound_buf(run, ['read_oracle_sound', 'nth_oracle_sound', 'nth_judge_sound'])
    run.trusted += BUF_TRUST
    dbg = vlib.cargo_build('debug')
    run_buf_stream(run, a, 'C09', 'cursor', dbg, {'C09'})
    if run.tier == 'thorough' and not a.replay:
        rel = vlib.cargo_build('release')
        run_buf_stream(run, a, 'C09', 'cursor', rel, {'C09'})
    run.cov['rule'] = ("T2: adapter trees (all depth<=1 trees over 21 leaves incl. fragmented leaves with empty chunks, sampled chains, seeded "
                       "random trees to depth 4, 15..33-chunk chains under Take) x every consuming op x every count 0..len+1, observation ops "
                       "(remaining, chunk, chunks_vectored with dst.len() in {0,1,2,3,4,16,17,32,40,80}), byte-wise drain; "
                       "distinct_nontrivial = cases (tree, script) executed")
    run.samples += ['t chain take 2 seg 2 01 0203 ref cursor 0102 0 ; o copy 3 -> 010201 ; st chain take 0 seg 1 03 ref cursor 0102 1',
                    'theorem chunksVectored_prefix (b k) (h : wf b) : (chunksVectored b k).flatten <+: den b']
    return run.finish()


@drv.check('C12')
def c12(run, a):
    vlib.extract()
    vlib.standard_lean_phase(run, 'BytesVerif.Props.C12', None, ['BytesVerif.Props.C11'])
    vlib.override_cert(run, ['Read', 'Write'])
    oracle_sound_buf(run, ['read_oracle_sound', 'write_sound', 'write_sound_default'])
    for t in ['BytesVerif.BufMut.limit_room', 'BytesVerif.BufMut.limit_putSlice_inner', 'BytesVerif.BufMut.chain_putSlice_inner', 'BytesVerif.BufMut.writerWrite_spec']:
        ok, found, problems = vlib.audit_axioms(['BytesVerif.Props.C11'], [t], 'C12w')
        run.obligation(t, ok, '; '.join(problems))
        run.axioms[t] = found.get(t)
        if not ok:
            run.breakage('write-side theorem of C12 no longer checks', t)
    run.trusted += BUF_TRUST
    dbg = vlib.cargo_build('debug')
    if not (a.replay and open(a.replay).read().find('\nm ') >= 0):
        run_buf_stream(run, a, 'C12', 'cursor', dbg, {'C12'})
    if not (a.replay and open(a.replay).read().find('\nt ') >= 0):
        run_mut_stream(run, a, 'C12', dbg, {'C12'})
    run.cov['rule'] = ("T2 (write side): mut stream of C11, the judge checks limit()/get_ref() and the first/second targets of Chain after every "
                       "write, Writer write/flush results; T2 (read side): same cursor stream as C09; after every consuming op through a Take / Chain root the judge checks "
                       "limit() and the inner buffers (printed through get_ref()/first_ref()/last_ref()) against 'advanced by exactly the "
                       "bytes that went through'; Reader read/fill_buf/consume; set_limit in mid-stream; distinct_nontrivial = cases executed")
    run.samples += ['t take 3 chain slice 0102 bytes 0304 ; o read 2 -> 2 0102 ; st take 1 chain slice - bytes 0304']
    return run.finish()


@drv.check('C10')
def c10(run, a):
    pid = 'C10'
    info = vlib.extract()
    run.cov['extracted'] = info.get('Getters.lean')
    props_ok, cert_ok = vlib.standard_lean_phase(run, 'BytesVerif.Props.C10', 'BytesVerif.Cert.C10')
    vlib.override_cert(run, ['Read'])
    oracle_sound_buf(run, ['read_oracle_sound'])
    run.trusted += BUF_TRUST + [
        "tools/extract.py (T1): getter bodies -> Body terms (sibling calls inlined), method name -> Spec, sign_extend / macro-arm / "
        "try_copy_to_slice text fingerprints, deref_forward_buf! rows; fail-closed",
        "macro-arm semantics in Model/Codec.lean are hand-written (tied by T2 on every method x chunk boundary x shortfall)",
        "little-endian host for the _ne methods; floats compared as bit patterns",
    ]
    dbg = vlib.cargo_build('debug')
    rel = vlib.cargo_build('release')
    if not cert_ok:
        lines, _ = vlib.run_judge(['cert-c10'])
        run.notes += lines[:20]
        if run.cert_breakage is not None:
            run.cert_breakage['detail'] += '\n' + '\n'.join(lines[:40])
    before = len(run.oracle_fails)
    run_buf_stream(run, a, pid, 'getters', dbg, {'C10'})
    if not a.replay:
        run_buf_stream(run, a, pid, 'getters', rel, {'C10'})
    if not cert_ok and run.cert_breakage is not None:
        # the certificate failure is explained when every bad row shows up as a failing method on the implementation
        lines, _ = vlib.run_judge(['cert-c10'])
        bad_methods = {vlib.kv(l)[1].get('method') for l in lines if l.startswith('bad-row')}
        others = [l for l in lines if l.startswith('bad-') and not l.startswith('bad-row')]
        failing = {f['key'].split('=', 1)[1] for f in run.oracle_fails if f['key'].startswith('method=')}
        run.cert_breakage['explained'] = bool(bad_methods) and bad_methods <= failing and not others
    run.cov['rule'] = ("T2: every get_X / try_get_X (76 methods; nbytes 0..9 for the variable-width ones) x sign-bit byte patterns x buffer "
                       "shapes cutting the value at every position (two/three/one-byte chunks, chain, deque, cursor, take, &mut, Box) x every "
                       "shortfall 0..size-1, debug and release builds; values compared as integers / float bit patterns against the Lean "
                       "`decode`; distinct_nontrivial = cases executed")
    run.samples += ['t seg 2 ff 7f00 ; o get get_i16_le -> v 32767', 'theorem get_ok … : evalBody c form r.body nbytes b = .ok (.val (decode r.spec ((den b).take size)), b′)']
    return run.finish()


def run_mut_stream(run, a, pid, binpath, fail_pids):
    cmd = [binpath, 'mut'] + (['replay', a.replay] if a.replay else [])
    out, hrc, jrc, herr = vlib.pipe(cmd, ['mut'])
    if hrc != 0 or jrc != 0:
        run.breakage('mut stream did not complete', f'harness rc={hrc} judge rc={jrc}\n{herr[-1000:]}')
    for ln in out:
        tags, d = vlib.kv(ln)
        if not tags:
            continue
        if tags[0] == 'oracle-fail':
            fp = tags[1] if len(tags) > 1 else '?'
            replay = d.get('replay', '').replace('~', ' ').replace('|', '\n')
            if set(fp.split('+')) & set(fail_pids):
                key = f"method={d.get('method')}" if d.get('method', '-') != '-' else f"op={d.get('op')}:root={d.get('root')}"
                run.fail(key, ln.split(' replay=')[0], replay)
            else:
                run.cov['other_property_failures_seen_mut'] = run.cov.get('other_property_failures_seen_mut', 0) + 1
                if run.cov['other_property_failures_seen_mut'] <= 3:
                    run.breakage(f'correspondence (mut stream): implementation violates {fp}', ln.split(' replay=')[0] + '\n' + replay)
        elif tags[0] == 'model-diff':
            replay = d.get('replay', '').replace('~', ' ').replace('|', '\n')
            run.breakage('correspondence (mut stream): model and implementation disagree', ln.split(' replay=')[0] + '\n' + replay)
        elif tags[0] in ('tie-gap', 'bad-trace'):
            if tags[0] == 'tie-gap' and (pid != 'C11' or a.replay):
                continue
            run.breakage('correspondence (mut stream): ' + tags[0], ln)
        elif tags[0] == 'summary':
            run.cov['t2_mut'] = d
            run.cov['evaluations'] = run.cov.get('evaluations', 0) + int(d['ops'])
            run.cov['distinct_nontrivial'] = run.cov.get('distinct_nontrivial', 0) + int(d['cases'])
    run.samples += [l.split(' replay=')[0] for l in out if l.startswith('oracle-fail')][:2]
    return out


@drv.check('C11')
def c11(run, a):
    pid = 'C11'
    info = vlib.extract()
    run.cov['extracted'] = info.get('Putters.lean')
    props_ok, cert_ok = vlib.standard_lean_phase(run, 'BytesVerif.Props.C11', 'BytesVerif.Cert.C11')
    vlib.override_cert(run, ['Write'])
    oracle_sound_buf(run, ['write_sound', 'write_sound_default'])
    run.trusted += [
        "hand transliteration of src/buf/{buf_mut,limit,chain,writer,uninit_slice}.rs and `unsafe impl BufMut for BytesMut` into "
        "Model/BufMut.lean (tied by T2: results and full target-tree state compared after every op; spare capacities re-synchronised "
        "from the trace because the allocator decides them)",
        "tools/extract.py (T1): put_* bodies -> PutBody terms, method name -> Spec, default put/put_slice/put_bytes text fingerprints, "
        "deref_forward_bufmut! rows; fail-closed",
        "harness mut stream (targets over the real crate types, guard bytes and fill pattern around fixed-size targets) + judge parser",
        "the region within 64 bytes of isize::MAX of a growable target is excluded (noHardLimit): not reachable with real memory",
        "little-endian host for the _ne methods; floats as bit patterns",
    ]
    dbg = vlib.cargo_build('debug')
    if not cert_ok:
        lines, _ = vlib.run_judge(['cert-c11'])
        run.notes += lines[:20]
        if run.cert_breakage is not None:
            run.cert_breakage['detail'] += '\n' + '\n'.join(lines[:40])
    run_mut_stream(run, a, pid, dbg, {'C11'})
    if not a.replay:
        rel = vlib.cargo_build('release')
        run_mut_stream(run, a, pid, rel, {'C11'})
    if not cert_ok and run.cert_breakage is not None:
        lines, _ = vlib.run_judge(['cert-c11'])
        bad_methods = {vlib.kv(l)[1].get('method') for l in lines if l.startswith('bad-row')}
        others = [l for l in lines if l.startswith('bad-') and not l.startswith('bad-row')]
        failing = {f['key'].split('=', 1)[1] for f in run.oracle_fails if f['key'].startswith('method=')}
        run.cert_breakage['explained'] = bool(bad_methods) and bad_methods <= failing and not others
    run.cov['rule'] = ("T2: target trees (Vec, BytesMut at several capacities, &mut [u8], &mut [MaybeUninit<u8>], Limit with limits 0..MAX, Chain, "
                       "&mut, Box, seeded random nestings to depth 3) x sequences of put_slice/put_bytes/put(Buf)/write of growing sizes "
                       "(straddling chunk ends, triggering growth, not fitting) + every put_X x boundary values x nbytes 0..9 x fill levels; "
                       "guard bytes checked after every op, also after panics; debug and release; distinct_nontrivial = cases executed")
    run.samples += ['m chain slice 1 uninit 4 ; o put put_i32_le -2 -> ok ; st chain fixed slice fe 0 fixed uninit ffffff 1 g=1',
                    'theorem put_ok … : evalPut e r.body v nbytes t = .ok t′ ∧ written t′ = written t ++ encode r.spec v nbytes']
    return run.finish()
