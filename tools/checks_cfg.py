"""C16 (configuration independence) and C17 (adversarial trait implementations)."""
import os
import __main__ as drv
import vlib
import checks_core
from vlib import log


def project(trace_path):
    """Observable projection of a seq trace: per script, the list of (op text, outcome, handles as id/kind/len/cap/uniq/contents).
    Addresses, block ids, parity and allocator events are not observable results."""
    scripts, cur, blk, tries = [], None, None, []
    with open(trace_path, errors='replace') as f:
        for ln in f:
            w = ln.split()
            if not w:
                continue
            if w[0] == 'script':
                cur = {'ops': [], 'tries': []}
                scripts.append(cur)
            elif cur is None:
                continue
            elif w[0] == 'try':
                cur['tries'].append(' '.join(w[1:]))
            elif w[0] == 'op':
                blk = [' '.join(w[1:])]
            elif w[0] == 'h' and blk is not None:
                # h id kind blk:off:size:parity len cap uniq contents
                blk.append(' '.join([w[1], w[2]] + w[4:]))
            elif w[0] == 'o' and blk is not None:
                blk.append(' '.join(w))
            elif w[0] == 'end' and blk is not None:
                cur['ops'].append(blk)
                blk = None
    return scripts


def compare_traces(run, traces, base_key_of):
    """traces: {(profile, parity, mode): path}.  Scripts are generated from the same seeds in every configuration, so the
    projections must be equal script by script."""
    by_mode = {}
    for (profile, parity, mode), path in traces.items():
        by_mode.setdefault(mode, []).append(((profile, parity), path))
    compared = 0
    for mode, lst in sorted(by_mode.items()):
        lst.sort(key=lambda x: base_key_of(x[0]))
        (bcfg, bpath) = lst[0]
        base = project(bpath)
        for cfg, path in lst[1:]:
            other = project(path)
            n = max(len(base), len(other))
            found = False
            for i in range(n):
                a = base[i] if i < len(base) else None
                b = other[i] if i < len(other) else None
                compared += 1
                if a is not None and b is not None and a['ops'] == b['ops'] and len(a['tries']) == len(b['tries']):
                    continue
                # first differing operation
                ao, bo = (a or {'ops': []})['ops'], (b or {'ops': []})['ops']
                k = 0
                while k < len(ao) and k < len(bo) and ao[k] == bo[k]:
                    k += 1
                tries = (a or b)['tries'] if len((a or b)['tries']) >= len((b or a)['tries']) else (b or a)['tries']
                replay = '\n'.join('op ' + t for t in tries[:k + 1])
                la = ' ; '.join(ao[k]) if k < len(ao) else '(process died / script ended)'
                lb = ' ; '.join(bo[k]) if k < len(bo) else '(process died / script ended)'
                opname = (tries[k].split()[0] if k < len(tries) else '?')
                run.fail(f'op={opname}:cfg-diff',
                         f'oracle-fail C16 mode={mode} script={i} op#{k}: [{bcfg[0]},{bcfg[1]}] {la[:300]}  !=  [{cfg[0]},{cfg[1]}] {lb[:300]}',
                         f'# differs between profile={bcfg[0]} parity={bcfg[1]} and profile={cfg[0]} parity={cfg[1]}\n' + replay)
                found = True
                break
            run.cov[f't2_cmp_{mode}_{cfg[0]}_{cfg[1]}'] = {'scripts': min(len(base), len(other)), 'equal': not found}
    return compared


@drv.check('C16')
def c16(run, a):
    vlib.extract()
    vlib.standard_lean_phase(run, 'BytesVerif.Props.C16', 'BytesVerif.Cert.C16', ['BytesVerif.Lemmas.Core.Sound'])
    ok, found, problems = vlib.audit_axioms(['BytesVerif.Lemmas.Core.Sound'], ['BytesVerif.Core.step_sound'], 'C16_sound')
    run.obligation('BytesVerif.Core.step_sound', ok, '; '.join(problems))
    run.axioms['BytesVerif.Core.step_sound'] = found.get('BytesVerif.Core.step_sound')
    if not ok:
        run.breakage('step_sound no longer checks', '\n'.join(problems))
    run.trusted += checks_core.CORE_TRUST + [
        "T1 inventory of configuration-dependent sites (tools/extract.py extract_cfgsites: cfg / cfg_attr attributes, cfg! macros, debug assertions in "
        "src/**, unit-test modules excluded) compared with the reviewed list Model/Sites.lean; the review itself (class of each site) is trusted",
        "feature sets: std / no-std and extra-platforms are not distinguished by the model (feature gates only add or remove whole items; "
        "extra-platforms swaps the atomics backend) — covered by T2 only (thorough tier runs the same scripts on no-default-features and "
        "extra-platforms builds and compares observable results), hence level 'partial' for that clause would be the honest reading; "
        "overflow checks / debug assertions / address parity are covered by theorems cfg_irrelevant / parity_irrelevant + T2",
    ]
    cfgs = [('debug', 'even'), ('release', 'odd'), ('debug', 'odd'), ('release', 'even')]
    if run.tier == 'thorough':
        cfgs += [('release', 'alt'), ('debug', 'alt'), ('debug', 'even', 'nodef'), ('release', 'odd', 'nodef'), ('release', 'odd', 'extra'), ('debug', 'even', 'extra')]
    tdir = os.path.join(vlib.BUILD, 'tmp', 'c16-' + run.tier)
    traces = checks_core.run_seq_streams(run, a, 'C16', {'C16'}, cfgs=cfgs, trace_dir=tdir)
    order = {('debug', 'even'): 0}
    n = compare_traces(run, traces, lambda c: order.get(c, 1))
    run.cov['script_comparisons'] = n
    # the Buf / BufMut side (typed getters, cursor operations, writers): same cases in debug and release, results compared
    import subprocess
    hd = vlib.cargo_build('debug')
    hr = vlib.cargo_build('release')
    for sargs in (['buf', 'getters'], ['buf', 'cursor'], ['mut']):
        if a.replay:
            break
        outs = {}
        for prof, binp in (('debug', hd), ('release', hr)):
            try:
                q = subprocess.run([binp] + sargs, stdout=subprocess.PIPE, stderr=subprocess.DEVNULL, timeout=600, env=dict(os.environ, VERIF_TIER='quick'))
                outs[prof] = q.stdout.decode(errors='replace').splitlines()
            except subprocess.TimeoutExpired as ex:
                outs[prof] = (ex.stdout or b'').decode(errors='replace').splitlines() + ['TIMEOUT']

        def cases(lines):
            cs, cur = [], None
            for ln in lines:
                if ln.startswith('t ') or ln.startswith('m '):
                    cur = [ln]
                    cs.append(cur)
                elif cur is not None and not ln.startswith('try '):
                    cur.append(ln)
            return cs
        cd, cr = cases(outs['debug']), cases(outs['release'])
        diff = None
        for i in range(max(len(cd), len(cr))):
            x = cd[i] if i < len(cd) else ['(missing)']
            y = cr[i] if i < len(cr) else ['(missing)']
            # spare capacities chosen by std may legitimately differ? no: same std, same requests — compare everything
            if x != y:
                k = 0
                while k < len(x) and k < len(y) and x[k] == y[k]:
                    k += 1
                diff = (i, x, y, k)
                break
        run.cov['t2_cmp_' + '_'.join(sargs)] = {'cases': min(len(cd), len(cr)), 'equal': diff is None}
        if diff:
            i, x, y, k = diff
            lx = x[k] if k < len(x) else '(case ended / process died)'
            ly = y[k] if k < len(y) else '(case ended / process died)'
            ops = [l for l in (x if len(x) >= len(y) else y)[:k + 1] if l.startswith(('t ', 'm ', 'o '))]
            ops = [l.split(' -> ')[0] for l in ops]
            run.fail(f'stream={"_".join(sargs)}:cfg-diff', f'oracle-fail C16 stream={" ".join(sargs)} case={i}: [debug] {lx[:200]}  !=  [release] {ly[:200]}',
                     f'# differs between the debug and the release build: harness {" ".join(sargs)}\n' + '\n'.join(ops))
    for p in traces.values():
        try:
            os.remove(p)
        except OSError:
            pass
    run.cov['rule'] += ("; C16: the same seeded scripts run under every configuration {debug, release (no overflow checks, no debug assertions)} x "
                        "{even, odd (thorough: alternating) byte-buffer addresses} (thorough: x {default, no-default-features, extra-platforms}); the "
                        "observable projection (op, outcome incl. panics, every live handle's kind/len/capacity/is_unique/contents, owner drop counts) "
                        "must be identical script by script; the Buf / BufMut streams (getters, cursor operations, writers) are run in debug and release and compared case by case")
    run.samples += ['theorem cfg_irrelevant (cfg₁ cfg₂ e op) (ho : OpOK op) (s) (h : WFx s) : step cfg₁ e op s = step cfg₂ e op s',
                    'theorem parity_irrelevant (cfg e op) (ho : OpOK op) (s) (h : WFx s) : eraseR (step cfg e op s) = step cfg evenEnv op (erase s)']
    return run.finish()


@drv.check('C17')
def c17(run, a):
    vlib.extract()
    vlib.standard_lean_phase(run, 'BytesVerif.Props.C17', 'BytesVerif.Cert.C17')
    # the general adversary (answers may change on every call): Props/C17Gen.lean, audited theorem by theorem
    gmod = 'BytesVerif.Props.C17Gen'
    gres = vlib.lake_build([gmod])
    gnames = vlib.theorem_names('BytesVerif/Props/C17Gen.lean')
    if gres[gmod][0]:
        gok, gfound, gproblems = vlib.audit_axioms([gmod], gnames, 'C17_C17Gen')
        for t in gnames:
            bad = [q for q in gproblems if q.startswith(t + ':')]
            run.obligation(t, not bad, '; '.join(bad))
            run.axioms[t] = gfound.get(t)
        if gproblems:
            run.breakage(f'axiom audit of {gmod}', '\n'.join(gproblems))
    else:
        for t in gnames:
            run.obligation(t, False, 'module does not build')
        run.breakage(f'{gmod} no longer checks', '\n'.join([l for l in gres[gmod][1].splitlines() if 'error' in l][:10]))
    run.trusted += [
        "the adversary model Model/Adv.lean (M6): hand transliteration of the default Buf consumers (try_copy_to_slice, copy_to_slice, the "
        "buf_try_get_impl!/buf_get_impl! arms, get_u8), the default BufMut::put into a fixed destination, BytesMut::put / Vec::put "
        "(extend_from_slice per chunk), IntoIter::next, Reader::read, Take::chunks_vectored, and (round 8) Take / Chain / Limit around the adversary: "
        "default copy_to_bytes (BytesMut::put of self.take(len)), Take::copy_to_bytes, Chain::copy_to_bytes, Chain::chunks_vectored, Chain getters via "
        "copy_to_slice, default put into Limit<&mut BytesMut> (chunk_mut's reserve(64), both advance_mut re-checks), with unsafe operations as bounds-checked primitives — "
        "tied by T2: for every generated lie script the implementation's outcome (value / length / panic) is compared with the model's prediction",
        "T1 inventory of `unsafe` sites in src/buf/*.rs and in the trait-consuming functions of bytes.rs / bytes_mut.rs (tools/extract.py "
        "extract_unsafe, FNV-1a text fingerprints) compared with the reviewed list Model/Sites.lean; the review (class per site) is trusted",
        "consumers not in M6 (the stale / flicker / cursor adversary families, from_owner, Extend/FromIterator, serde visitors) are "
        "covered by T2's allocator oracle only (ledger allocator: red zones, poison + quarantine, layout-exact frees, balance after unwinding); "
        "out-of-bounds *reads* that stay inside some live allocation are visible only through wrong values / the model comparison",
        "Model/AdvGen.lean: the same consumers over an adversary whose answers may change on every call (any function of advance count and "
        "call count); tied through the instance ofScript: the judge evaluates the general model next to M6 on every modelled case",
        "harness hseq adv stream (LyingBuf / LyingOwner / LyingIter) + judge parser",
    ]
    cfgs = ['debug', 'release'] if run.tier == 'thorough' else ['debug', 'release']
    for profile in cfgs:
        binpath = os.path.join(os.path.dirname(vlib.cargo_build(profile)), 'hseq')
        cmd = [binpath, 'adv']
        if a.replay:
            for ln in open(a.replay):
                w = ln.split()
                if w and w[0] == 'one' and len(w) >= 4:
                    cmd = [binpath, 'adv', 'one', w[1], w[2], w[3]]
        env = {'VERIF_TIER': run.tier}
        out, hrc, jrc, herr = vlib.pipe(cmd, ['adv'], env=env)
        if jrc != 0:
            run.breakage(f'adv stream ({profile}): judge failed', f'rc={jrc}')
        one = len(cmd) > 2
        for ln in out:
            tags, d = vlib.kv(ln)
            if not tags:
                continue
            if tags[0] == 'oracle-fail':
                case = d.get('case', '-').replace('~', ' ')
                what = d.get('what', '')
                consumer = case.split()[0] if case != '-' else '-'
                rep = f'# profile={profile}\n# {what}\n' + (f'one {case}\n' if len(case.split()) == 3 and consumer != 'owner' else f'# whole stream: hseq adv   (case: {case})\n')
                run.fail(f'consumer={consumer}:{what[:40]}', f'[{profile}] ' + ln[:400], rep)
            elif tags[0] == 'model-diff' or (tags[0] == 'bad-trace' and not one):
                run.breakage(f'correspondence (adv stream, {profile}): {tags[0]}', ln)
            elif tags[0] == 'summary':
                run.cov[f't2_adv_{profile}'] = d
                run.cov['evaluations'] = run.cov.get('evaluations', 0) + int(d.get('cases', 0))
                run.cov['distinct_nontrivial'] = run.cov.get('distinct_nontrivial', 0) + int(d.get('modelled', 0))
        if hrc != 0 and not any(l.startswith('oracle-fail') for l in out):
            run.breakage(f'adv stream ({profile}) harness died', f'rc={hrc}\n{herr[-400:]}')
    if run.tier == 'thorough' and not a.replay:
        checks_core.asan_support(run, a, [['adv']], 'C17')
    run.cov['rule'] = ("T2: fault injection — a Buf whose remaining()/chunk()/advance() follow a seeded script of lies (claimed remaining in "
                       "{0..5000}, real chunk length in {0..300}, panics at a chosen call) is passed to 20 consumers (copy_to_slice, try_copy_to_slice, "
                       "fixed and variable-width getters, get_u8, copy_to_bytes plain / through Take / through Chain, chunks_vectored through Take / Chain, "
                       "BytesMut::put, Vec::put, slice put, put into a BytesMut with a neighbour handle right behind it, Limit put, IntoIter, Reader, "
                       "Chain getter) x argument sizes {0,1,4,8,9,16,64,300}; owners whose as_ref answers differently per call or panics (12 cases); "
                       "iterators with wrong size hints (5 cases); under the ledger allocator; quick 4000 scripts, thorough 40000; debug and release; "
                       "distinct_nontrivial = cases whose outcome was also compared with the M6 model")
    run.samples += ['adv get_u32 9:0:0,2:9:0 1 -> v_66051 ledger=ok leak=0',
                    'theorem AdvGen.tryGetFixed_no_ub (fuel) (b : GAdv) (size) : NoUB (tryGetFixed fuel b size)   -- b.answers : Nat → Nat → Lie arbitrary',
                    'theorem AdvGen.getFixedRefetch_flicker_ub : ∃ w, getFixedRefetch flicker 8 = .ub w',
                    'theorem tryGetFixed_no_ub (fuel b size) : NoUB (tryGetFixed fuel b size)',
                    'theorem putGrowBad_reaches_ub : ∃ w, putGrowBad 10 liar 0 8 = .ub w']
    return run.finish()
