#!/usr/bin/env python3
"""One-off helper: (re)generate a DRAFT of lean/BytesVerif/BytesVerif/Model/Sites.lean from the current T1 extraction
with rule-based classes.  The committed Sites.lean is a reviewed, hand-maintained file: the certificates compare the
freshly extracted inventories with it, so every new / changed configuration-dependent or unsafe site shows up as a broken
certificate.  Usage: python3 tools/gen_sites.py > draft.lean"""
import sys, os
sys.path.insert(0, os.path.dirname(os.path.abspath(__file__)))
import extract as ex

MODELLED = {('bytes_mut.rs', 'advance_unchecked', 'count<=self.cap'), ('bytes_mut.rs', 'reserve_inner', 'off+len<=v.capacity()'),
            ('bytes_mut.rs', 'extend_from_slice', 'dst.len()>=cnt')}


def cfg_class(r):
    f, ctx, kind, cond = r
    if kind.startswith('debug_assert'):
        return 'dassertModelled' if (f, ctx, cond) in MODELLED else 'dassertStructural'
    if kind == 'cfg_attr':
        return 'docOnly'
    if 'loom' in cond or cond in ('test', 'miri', 'not(miri)'):
        return 'testOnly'
    if 'target_' in cond:
        return 'platform'
    if cond == 'debug_assertions':
        return 'profileBranch'
    if 'extra-platforms' in cond:
        return 'backend'
    if ctx.startswith('abort:'):
        return 'abortImpl'
    if 'feature=' in cond:
        return 'apiGate'
    return 'unreviewed'


def unsafe_class(r):
    f, ctx, kind, text = r
    if kind == 'fn' and '{' in text:
        return 'unsafeFnBody'
    if kind in ('trait', 'fn', 'impl'):
        return 'declaration'
    if kind == 'body':
        return 'ownerOnce'
    if 'transmute' in text:
        return 'lifetimeOnly'
    if f == 'buf/uninit_slice.rs':
        return 'reprCast' if 'as*' in text and 'write' not in text and 'copy' not in text else 'boundedBySafeSlice'
    if ctx == 'macro:buf_try_get_impl':
        return 'modelledRead'
    if 'advance_mut' in text and 'ptr::' not in text and 'write_bytes' not in text:
        return 'modelledAdvance'
    if f == 'bytes.rs':
        return 'ownerOnce'
    return 'modelledWrite'


def main():
    _, ci = ex.extract_cfgsites()
    _, ui = ex.extract_unsafe()
    _, wi = ex.extract_wiring()
    o = []
    o.append('''/-
Reviewed inventories (hand-maintained) that the T1 certificates Cert/C16.lean and Cert/C17.lean compare with the freshly
extracted `Generated.cfgSiteKeys` / `Generated.unsafeSiteKeys`.  A key is the FNV-1a hash of `file|context|kind|text`
(the readable row is in the comment string).  A new, removed or edited site changes the extracted list and breaks the
certificate: the site has to be reviewed (and the model extended) before the property is claimed again.
-/
namespace BytesVerif.Sites

/-- why a configuration-dependent site cannot change an observable result -/
inductive CfgClass
  | apiGate            -- feature gate on a whole item (import, module, method, impl): the item exists or not; no other item's behaviour changes
  | abortImpl          -- the two bodies of `abort()` (reference-count overflow only: unreachable below 2^63 handles)
  | docOnly            -- cfg_attr(docsrs, ..)
  | testOnly           -- cfg(test) / loom / miri: not part of a user's build
  | platform           -- target_endian / target_pointer_width: outside the property (which fixes the platform)
  | backend            -- extra-platforms: portable-atomic instead of core atomics, same API and memory-ordering contract (trusted; T2 runs both)
  | profileBranch      -- `cfg!(debug_assertions)` choosing between a checked and an unchecked form of the same value
  | dassertModelled    -- a debug_assert the model evaluates (`dassert`); `cfg_irrelevant` proves it never fires from a WFx state
  | dassertStructural  -- a debug_assert about a representation tag / internal length that is true by construction of the model's typed handles
  | unreviewed
  deriving DecidableEq, Repr

def expectedCfg : List (Nat × CfgClass × String) := [''')
    o.append(',\n'.join(f'  ({ex.fnv(r)}, .{cfg_class(r)}, {ex.lean_str(" | ".join(r))})' for r in ci['rows']))
    o.append(''']

/-- how an `unsafe` site of the trait-consumer code is covered by the adversary model M6 -/
inductive UnsafeClass
  | declaration        -- `unsafe trait` / `unsafe fn` / `unsafe impl`: a contract, no operation
  | unsafeFnBody       -- body of an `unsafe fn` (advance_mut of the crate's own destinations: re-checks `cnt` against its own room
                       -- and panics, or forwards; UninitSlice constructors): reviewed text, fingerprinted
  | modelledRead       -- Adv.unsafeRead (array read through the slice returned by chunk())
  | modelledWrite      -- Adv.unsafeWrite (copy / fill into spare capacity obtained from the destination itself)
  | modelledAdvance    -- advance_mut(cnt) with cnt bounded by the destination's own chunk_mut().len() or re-checked by the callee
  | lifetimeOnly       -- transmute of a slice lifetime; pointer and length unchanged
  | reprCast           -- cast between [u8] / [MaybeUninit<u8>] / UninitSlice of the same length
  | boundedBySafeSlice -- raw write whose length was established by a safe (panicking) slice index just before
  | ownerOnce          -- from_owner: as_ref() called exactly once, pointer and length taken from that one slice
  | unreviewed
  deriving DecidableEq, Repr

def expectedUnsafe : List (Nat × UnsafeClass × String) := [''')
    o.append(',\n'.join(f'  ({ex.fnv(r)}, .{unsafe_class(r)}, {ex.lean_str(" | ".join(r)[:200])})' for r in ui['rows']))
    o.append(''']

/-- vtable slots, the vtable each constructor / conversion installs, and the representation constants that Model/Core.lean,
Model/Buf.lean and Model/BufMut.lean were written from (reviewed; compared with the extraction by Cert/C01) -/
def expectedWiring : List (Nat × String) := [''')
    o.append(',\n'.join(f'  ({ex.fnv(r)}, {ex.lean_str(" | ".join(r))})' for r in wi['rows']))
    o.append(''']

end BytesVerif.Sites
''')
    print('\n'.join(o))


main()
