"""Checks for the table-shaped properties (C14, C15, C10, C11): T1 tables + verified decision
procedures + per-run certificates, and T2 runs of every row on the real code."""
import os
import __main__ as drv
import vlib
from vlib import log


def collect(run, lines, pid):
    """Sort judge output lines into oracle failures / tie gaps / summary."""
    summary = {}
    for ln in lines:
        tags, d = vlib.kv(ln)
        if not tags:
            continue
        if tags[0] == 'oracle-fail':
            yield ('fail', ln, d)
        elif tags[0] in ('tie-gap', 'bad-trace', 'model-diff'):
            yield (tags[0], ln, d)
        elif tags[0] == 'summary':
            summary.update(d)
            yield ('summary', ln, d)


@drv.check('C14')
def c14(run, a):
    pid = 'C14'
    info = vlib.extract()
    run.cov['extracted'] = info.get('CmpImpls.lean')
    props_ok, cert_ok = vlib.standard_lean_phase(run, 'BytesVerif.Props.C14', 'BytesVerif.Cert.C14')
    vlib.override_cert(run, ['Cmp'])
    run.trusted += [
        "tools/extract.py (T1): impl bodies -> (operator, left root, right root) after stripping byte-view coercions; fail-closed",
        "delegation between impls (`*other == *self`) is modelled as a byte comparison in operand order; T2 executes every impl",
        "harness cmp stream + judge trace parser (T2); std's [u8] Hash as the reference for hash equality",
    ]
    run.assumptions += ["str/String operands are valid UTF-8 (pairs with invalid UTF-8 are skipped for str-typed sides)"]
    dbg = vlib.cargo_build('debug')
    # search side of a failed certificate: bad rows + witnesses, replayed on the real code
    if not cert_ok:
        lines, _ = vlib.run_judge(['cert-c14'])
        bad = [vlib.kv(l)[1] for l in lines if l.startswith('bad-row')]
        other_bad = [l for l in lines if l.startswith('bad-count')]
        all_explained = not other_bad
        for d in bad:
            if 'x' not in d:
                all_explained = False
                continue
            out, hrc, jrc, herr = vlib.pipe([dbg, 'cmp-one', d['impl'], d['x'], d['y']], ['cmp'])
            fails = [x for x in collect(run, out, pid) if x[0] == 'fail' and x[2].get('impl') == d['impl']]
            if fails:
                f = fails[0]
                run.fail(f"impl={d['impl']}", f[1], f"harness cmp-one {d['impl']} {d['x']} {d['y']}\n{f[1]}")
            else:
                all_explained = False
                run.notes.append(f"bad row {d['impl']} did not reproduce on the implementation")
        if run.cert_breakage is not None:
            run.cert_breakage['explained'] = all_explained and bool(bad)
            run.cert_breakage['detail'] += '\n' + '\n'.join(lines)
    # T2: every impl x both orders x all pairs
    if a.replay:
        args = None
        for ln in open(a.replay):
            if ln.startswith('harness cmp-one'):
                args = ln.split()[2:]
        out, hrc, jrc, herr = vlib.pipe([dbg, 'cmp-one'] + args, ['cmp'])
    else:
        out, hrc, jrc, herr = vlib.pipe([dbg, 'cmp'], ['cmp'])
    if hrc != 0 or jrc != 0:
        run.breakage('cmp stream did not complete', f'harness rc={hrc} judge rc={jrc}\n{herr[-1000:]}')
    for kind, ln, d in collect(run, out, pid):
        if kind == 'fail':
            run.fail(f"impl={d.get('impl')}", ln, f"harness cmp-one {d.get('impl')} {d.get('x')} {d.get('y', '-')}\n{ln}")
        elif kind in ('tie-gap', 'bad-trace'):
            run.breakage('correspondence (cmp stream): ' + kind, ln)
        elif kind == 'summary':
            run.cov['evaluations'] = int(d.get('evals', 0)) + int(d.get('hashes', 0))
            run.cov['distinct_nontrivial'] = int(d.get('pairs', 0))
            run.cov['t2'] = d
    run.cov['rule'] = ("T2: every comparison impl (selected by explicit type parameters) x {==,!=,<,<=,>,>=,partial_cmp,cmp} on all "
                       "ordered pairs of the 85 strings of length<=3 over {00,61,7a,ff} plus seeded random longer strings (prefixes, "
                       "non-UTF-8), representations rotated; distinct_nontrivial = distinct ordered pairs evaluated")
    run.samples += [ln for ln in out if ln.startswith('oracle-fail')][:3]
    run.samples += ['theorem rowOK_sound (r : Row) : rowOK r = true -> forall x y, eval r x y = some (spec r.trait x y)',
                    'p 61 6100 <34 result columns, one per impl pair>']
    return run.finish()


@drv.check('C15')
def c15(run, a):
    pid = 'C15'
    info = vlib.extract()
    run.cov['extracted'] = info.get('FmtTables.lean')
    props_ok, cert_ok = vlib.standard_lean_phase(run, 'BytesVerif.Props.C15', 'BytesVerif.Cert.C15')
    vlib.override_cert(run, ['Fmt'])
    run.trusted += [
        "tools/extract.py (T1): if/else-if chain, format strings, fmt_impl!/serde_impl! macro bodies -> tables; fail-closed",
        "core::fmt rendering of {:02x}/{:02X}/{} of a char is modelled (Piece.render) and tied by T2 on all 256 bytes",
        "serde's dispatch from deserializer to visitor method; serde_test as the driver of the five entry points",
        "harness fmt stream + judge trace parser (T2)",
    ]
    run.assumptions += ["byte-string literal grammar = the strict subset accepted by Fmt.parseLit (printable ASCII, the Reference's simple escapes, \\xHH)"]
    hb = vlib.cargo_build('debug', features=['serde'])

    def feed(lines_out, replay_prefix):
        for kind, ln, d in collect(run, lines_out, pid):
            if kind == 'fail':
                key = ('fmt=' + d['fmt']) if 'fmt' in d else ('serde=' + d.get('serde', '?'))
                run.fail(key, ln, f"harness fmt {d.get('x', '-')}\n{ln}")
            elif kind in ('model-diff', 'bad-trace', 'tie-gap'):
                run.breakage('correspondence (fmt stream): ' + kind, ln)
            elif kind == 'summary':
                return d
        return None

    if not cert_ok:
        lines, _ = vlib.run_judge(['cert-c15'])
        bad = [vlib.kv(l)[1] for l in lines if l.startswith('bad-byte')]
        others = [l for l in lines if l.startswith('bad-') and not l.startswith('bad-byte')]
        before = len(run.oracle_fails)
        for d in bad[:16]:
            b = d['b']
            for x in (b, b + '30', '30' + b, b + b):
                out, hrc, jrc, herr = vlib.pipe([hb, 'fmt', x], ['fmt'])
                feed(out, x)
        if run.cert_breakage is not None:
            run.cert_breakage['explained'] = (len(run.oracle_fails) > before) and not others
            run.cert_breakage['detail'] += '\n' + '\n'.join(lines[:40])
    if a.replay:
        x = None
        for ln in open(a.replay):
            if ln.startswith('harness fmt'):
                x = ln.split()[2]
        out, hrc, jrc, herr = vlib.pipe([hb, 'fmt', x], ['fmt'])
    else:
        out, hrc, jrc, herr = vlib.pipe([hb, 'fmt'], ['fmt'])
    if hrc != 0 or jrc != 0:
        run.breakage('fmt stream did not complete', f'harness rc={hrc} judge rc={jrc}\n{herr[-1000:]}')
    d = feed(out, None)
    if d:
        run.cov['evaluations'] = int(d['debug']) + int(d['hex']) * 2 + int(d['serde'])
        run.cov['distinct_nontrivial'] = int(d['debug'])
        run.cov['t2'] = d
        if int(d.get('serde_entries', 0)) < 14 and not a.replay:
            run.breakage('correspondence (fmt stream): serde entry points not all exercised', str(d))
    run.cov['rule'] = ("T2: format!({:?}/{:x}/{:X}) of all 256 single bytes (6 representations each), all 65536 byte pairs, seeded random "
                       "strings up to 300 bytes; each output parsed back by the Lean parser (oracle) and compared with the model's output "
                       "(correspondence); serde: serialize + byte_buf/bytes/borrowed_bytes/seq/str/string via serde_test for both types; "
                       "distinct_nontrivial = distinct contents strings formatted")
    run.samples += [ln for ln in out if ln.startswith('oracle-fail') or ln.startswith('model-diff')][:3]
    run.samples += ['d Bytes 0030 62225c30305c22 -> parseLit = some [0,48]', 'theorem debug_roundtrip (ch) : debugChainOK ch = true -> forall bs, exists s, fmtAll ch bs = some s /\\ parseLit s = some bs']
    return run.finish()
