//! C17 stream: safe-but-misbehaving trait implementations (a Buf whose remaining / chunk / advance
//! are mutually inconsistent or panic, an AsRef owner that answers differently per call or panics,
//! iterators with wrong size hints) are handed to every crate entry point that consumes them, under
//! the ledger allocator (red zones, poison, layout-exact frees).  The crate may panic or produce
//! wrong data; it must never touch memory out of bounds, free twice, or leak what it allocated.
use crate::ledger;
use crate::util::*;
use bytes::buf::UninitSlice;
use bytes::{Buf, BufMut, Bytes, BytesMut};
#[allow(unused_imports)]
use std::io::Read;
use std::panic::{catch_unwind, AssertUnwindSafe};
use std::sync::atomic::{AtomicUsize, Ordering};

/// one scripted answer of the adversary
#[derive(Clone, Copy, Debug)]
pub struct Lie {
    pub rem: usize,    // what remaining() claims
    pub chunk: usize,  // length of the slice chunk() really returns
    pub panic_at: u8,  // 0 never; 1 remaining panics; 2 chunk panics; 3 advance panics
}

pub struct LyingBuf {
    pub script: Vec<Lie>,
    pub k: usize,
    pub backing: Vec<u8>,
    pub calls: usize,
}

impl LyingBuf {
    fn cur(&self) -> Lie {
        // after the script is exhausted the buffer behaves like an honest empty one (so loops end)
        self.script.get(self.k).copied().unwrap_or(Lie { rem: 0, chunk: 0, panic_at: 0 })
    }
}

impl Buf for LyingBuf {
    fn remaining(&self) -> usize {
        let l = self.cur();
        if l.panic_at == 1 {
            panic!("lying remaining");
        }
        l.rem
    }
    fn chunk(&self) -> &[u8] {
        let l = self.cur();
        if l.panic_at == 2 {
            panic!("lying chunk");
        }
        &self.backing[..l.chunk.min(self.backing.len())]
    }
    fn advance(&mut self, _cnt: usize) {
        let l = self.cur();
        self.k += 1; // every advance moves on to the next lie, whatever was requested
        self.calls += 1;
        if self.calls > 4000 {
            // fuel: a consumer may loop forever on a lying buffer (allowed); the harness cuts it off
            panic!("lying buffer: fuel exhausted");
        }
        if l.panic_at == 3 {
            panic!("lying advance");
        }
    }
}

fn gen_script(rng: &mut Rng) -> Vec<Lie> {
    let n = rng.range(1, 5) as usize;
    (0..n)
        .map(|_| Lie {
            rem: *rng.pick(&[0usize, 1, 2, 7, 8, 9, 16, 40, 200, 5000]),
            chunk: *rng.pick(&[0usize, 0, 1, 3, 7, 8, 9, 17, 80, 300]),
            panic_at: if rng.chance(1, 12) { rng.range(1, 3) as u8 } else { 0 },
        })
        .collect()
}

fn show(s: &[Lie]) -> String {
    s.iter().map(|l| format!("{}:{}:{}", l.rem, l.chunk, l.panic_at)).collect::<Vec<_>>().join(",")
}

fn parse_script(t: &str) -> Vec<Lie> {
    t.split(',')
        .filter_map(|x| {
            let p: Vec<usize> = x.split(':').filter_map(|y| y.parse().ok()).collect();
            if p.len() == 3 {
                Some(Lie { rem: p[0], chunk: p[1], panic_at: p[2] as u8 })
            } else {
                None
            }
        })
        .collect()
}

static OWNER_ASREF: AtomicUsize = AtomicUsize::new(0);
static OWNER_DROP: AtomicUsize = AtomicUsize::new(0);
struct LyingOwner {
    a: Vec<u8>,
    b: Vec<u8>,
    mode: usize, // 0: alternate answers; 1: panic on first call; 2: panic on second call
}
impl AsRef<[u8]> for LyingOwner {
    fn as_ref(&self) -> &[u8] {
        let n = OWNER_ASREF.fetch_add(1, Ordering::SeqCst);
        if (self.mode == 1 && n == 0) || (self.mode == 2 && n == 1) {
            panic!("lying owner");
        }
        if n % 2 == 0 {
            &self.a
        } else {
            &self.b
        }
    }
}
impl Drop for LyingOwner {
    fn drop(&mut self) {
        OWNER_DROP.fetch_add(1, Ordering::SeqCst);
    }
}

/// an `AsRef<[u8]>` that answers with a long or a short slice depending on the call number (bit k of `sched`)
struct LyingAsRef {
    long: Vec<u8>,
    short: Vec<u8>,
    sched: usize,
    calls: std::cell::Cell<usize>,
}
impl AsRef<[u8]> for LyingAsRef {
    fn as_ref(&self) -> &[u8] {
        let k = self.calls.get();
        self.calls.set(k + 1);
        if k > 3000 {
            // fuel: a consumer may loop forever on a lying owner (allowed); the harness cuts it off (a panicking as_ref is
            // itself one of the misbehaviours the property quantifies over)
            panic!("lying owner: fuel exhausted");
        }
        if (self.sched >> (k % 16)) & 1 == 1 {
            &self.long
        } else {
            &self.short
        }
    }
}

/// A `Buf` whose `remaining()` and `advance()` are honest but whose `chunk()` answers differently from call to call: the
/// `short_at`-th call returns only `short_len` bytes.  Behind the 16 legitimate bytes lie marker bytes (0xEE): a consumer
/// that checks the length on one `chunk()` call and reads through another lets markers reach the caller.
struct FlickerBuf {
    data: Vec<u8>,
    pos: usize,
    calls: std::cell::Cell<usize>,
    short_at: usize,
    short_len: usize,
}
impl Buf for FlickerBuf {
    fn remaining(&self) -> usize {
        16 - self.pos
    }
    fn chunk(&self) -> &[u8] {
        let k = self.calls.get();
        self.calls.set(k + 1);
        if k > 2000 {
            panic!("flicker: fuel exhausted");
        }
        let end = if k == self.short_at { (self.pos + self.short_len).min(16) } else { 16 };
        &self.data[self.pos..end]
    }
    fn advance(&mut self, n: usize) {
        assert!(n <= 16 - self.pos, "flicker: advance past the end");
        self.pos += n;
    }
}

/// A `Buf` that keeps claiming bytes remain after the slice it hands out has run dry (and optionally also answers
/// `has_remaining()` inconsistently).  Only the first `exposed` bytes are ever handed out; behind them lie markers (0xEE).
struct StaleBuf {
    data: Vec<u8>,
    pos: usize,
    exposed: usize,
    claim: usize,
    calls: std::cell::Cell<usize>,
}
impl Buf for StaleBuf {
    fn remaining(&self) -> usize {
        let k = self.calls.get();
        self.calls.set(k + 1);
        if k > 3000 {
            panic!("stale: fuel exhausted");
        }
        self.claim.saturating_sub(self.pos)
    }
    fn chunk(&self) -> &[u8] {
        let k = self.calls.get();
        self.calls.set(k + 1);
        if k > 3000 {
            panic!("stale: fuel exhausted");
        }
        &self.data[self.pos.min(self.exposed)..self.exposed]
    }
    fn advance(&mut self, n: usize) {
        self.pos += n;
    }
}

struct LyingIter {
    n: usize,
    lower: usize,
    upper: Option<usize>,
    /// panic when this many items are left (usize::MAX: never)
    panic_at: usize,
}
impl Iterator for LyingIter {
    type Item = u8;
    fn next(&mut self) -> Option<u8> {
        if self.n == self.panic_at {
            panic!("lying iterator");
        }
        if self.n == 0 {
            None
        } else {
            self.n -= 1;
            Some(self.n as u8)
        }
    }
    fn size_hint(&self) -> (usize, Option<usize>) {
        (self.lower, self.upper)
    }
}

pub const CONSUMERS: &[&str] = &[
    "copy_to_slice", "try_copy_to_slice", "get_u32", "get_u64_le", "get_uint", "try_get_i128", "get_u8", "copy_to_bytes", "take_copy_to_bytes",
    "chain_copy_to_bytes", "take_chunks_vectored", "chain_chunks_vectored", "bytesmut_put", "vec_put", "slice_put", "split_bytesmut_put",
    "stale_into_iter", "stale_chain_into_iter", "stale_take_into_iter", "stale_get_u8", "stale_copy_to_slice",
    "flk_get_u16", "flk_get_u32", "flk_get_u64_le", "flk_get_i128", "flk_get_f64", "flk_get_uint", "flk_copy_to_slice", "flk_copy_to_bytes", "flk_chain_get_u64",
    "limit_put", "into_iter", "reader_read", "chain_get_u64", "cursor_copy_to_slice", "cursor_get_u64", "cursor_copy_to_bytes", "cursor_drain",
];

/// run one consumer against one lie script; the returned string is the (non-address) outcome
fn consume(name: &str, script: &[Lie], arg: usize) -> Result<String, ()> {
    let mk = || LyingBuf { script: script.to_vec(), k: 0, backing: (0..512).map(|i| (i % 251) as u8).collect(), calls: 0 };
    let r = catch_unwind(AssertUnwindSafe(|| -> String {
        let mut lb = mk();
        match name {
            "copy_to_slice" => {
                let mut dst = vec![0u8; arg];
                lb.copy_to_slice(&mut dst);
                format!("ok {}", hex(&dst[..dst.len().min(8)]))
            }
            "try_copy_to_slice" => {
                let mut dst = vec![0u8; arg];
                format!("{:?}", lb.try_copy_to_slice(&mut dst).is_ok())
            }
            "get_u32" => format!("v {}", lb.get_u32()),
            "get_u64_le" => format!("v {}", lb.get_u64_le()),
            "get_uint" => format!("v {}", lb.get_uint(arg % 9)),
            "try_get_i128" => format!("{:?}", lb.try_get_i128().ok()),
            "get_u8" => format!("v {}", lb.get_u8()),
            "copy_to_bytes" => format!("len {}", lb.copy_to_bytes(arg).len()),
            "take_copy_to_bytes" => format!("len {}", (&mut lb).take(arg + 3).copy_to_bytes(arg).len()),
            "chain_copy_to_bytes" => format!("len {}", (&mut lb).chain(&b"xyz"[..]).copy_to_bytes(arg).len()),
            #[cfg(feature = "std")]
            "take_chunks_vectored" => {
                let t = lb.take(arg);
                let mut io = [std::io::IoSlice::new(&[]); 4];
                format!("n {}", t.chunks_vectored(&mut io))
            }
            #[cfg(feature = "std")]
            "chain_chunks_vectored" => {
                let c = lb.chain(&b"xyz"[..]);
                let mut io = [std::io::IoSlice::new(&[]); 3];
                format!("n {}", c.chunks_vectored(&mut io))
            }
            "bytesmut_put" => {
                let mut m = BytesMut::with_capacity(arg);
                m.put(lb);
                format!("len {}", m.len())
            }
            "vec_put" => {
                let mut v: Vec<u8> = Vec::with_capacity(arg);
                v.put(lb);
                format!("len {}", v.len())
            }
            "slice_put" => {
                let mut backing = vec![0u8; arg + 4];
                let mut s: &mut [u8] = &mut backing[..arg];
                s.put(lb);
                format!("rem {}", s.len())
            }
            "split_bytesmut_put" => {
                // a tight destination with a neighbour right behind it in the same allocation
                let mut whole = BytesMut::zeroed(256);
                let tail = whole.split_off(64);
                whole.clear();
                let before = tail.to_vec();
                whole.put(lb);
                assert!(tail[..] == before[..], "NEIGHBOUR-OVERWRITTEN");
                format!("len {}", whole.len())
            }
            "limit_put" => {
                let mut m = BytesMut::with_capacity(8);
                (&mut m).limit(arg).put(lb);
                format!("len {}", m.len())
            }
            "into_iter" => {
                let mut it = bytes::buf::IntoIter::new(lb);
                let mut n = 0;
                while let Some(_) = it.next() {
                    n += 1;
                    if n > 10000 {
                        break;
                    }
                }
                format!("n {}", n)
            }
            #[cfg(feature = "std")]
            "reader_read" => {
                let mut dst = vec![0u8; arg];
                format!("{:?}", lb.reader().read(&mut dst).ok())
            }
            "chain_get_u64" => format!("v {}", Buf::chain(&b"ab"[..], lb).get_u64()),
            n if n.starts_with("stale_") => {
                // script[0]: rem = claimed length, chunk = bytes really exposed (<= 16), panic_at = start position
                let l = script.first().copied().unwrap_or(Lie { rem: 0, chunk: 0, panic_at: 0 });
                let mut data: Vec<u8> = (1..=16u8).collect();
                data.extend_from_slice(&[0xEE; 48]);
                let sb = StaleBuf { data, pos: (l.panic_at as usize).min(4), exposed: l.chunk.min(16), claim: l.rem, calls: std::cell::Cell::new(0) };
                let mut got: Vec<u8> = Vec::new();
                match n {
                    "stale_into_iter" => {
                        for b in bytes::buf::IntoIter::new(sb).take(40) {
                            got.push(b);
                        }
                    }
                    "stale_chain_into_iter" => {
                        for b in bytes::buf::IntoIter::new(Buf::chain(sb, &b"\x05"[..])).take(40) {
                            got.push(b);
                        }
                    }
                    "stale_take_into_iter" => {
                        for b in bytes::buf::IntoIter::new(sb.take(arg + 1)).take(40) {
                            got.push(b);
                        }
                    }
                    "stale_get_u8" => {
                        let mut sb = sb;
                        for _ in 0..20 {
                            got.push(sb.get_u8());
                        }
                    }
                    _ => {
                        let mut sb = sb;
                        let mut d = vec![0u8; arg.min(40)];
                        sb.copy_to_slice(&mut d);
                        got = d;
                    }
                }
                if got.iter().any(|b| *b == 0xEE) {
                    format!("OOB-READ bytes from behind the slice chunk() returned reached the caller: {}", hex(&got[..got.len().min(24)]))
                } else {
                    format!("len {}", got.len())
                }
            }
            n if n.starts_with("flk_") => {
                // script[0]: rem = which chunk() call is short, chunk = its length, panic_at = start position
                let l = script.first().copied().unwrap_or(Lie { rem: 0, chunk: 0, panic_at: 0 });
                let mut data: Vec<u8> = (1..=16u8).collect();
                data.extend_from_slice(&[0xEE; 48]);
                let mut f = FlickerBuf { data, pos: (l.panic_at as usize).min(8), calls: std::cell::Cell::new(0), short_at: l.rem, short_len: l.chunk };
                let got: Vec<u8> = match n {
                    "flk_get_u16" => f.get_u16().to_be_bytes().to_vec(),
                    "flk_get_u32" => f.get_u32().to_be_bytes().to_vec(),
                    "flk_get_u64_le" => f.get_u64_le().to_le_bytes().to_vec(),
                    "flk_get_i128" => f.get_i128().to_be_bytes().to_vec(),
                    "flk_get_f64" => f.get_f64().to_bits().to_be_bytes().to_vec(),
                    "flk_get_uint" => f.get_uint(5).to_be_bytes()[3..].to_vec(),
                    "flk_copy_to_slice" => {
                        let mut d = vec![0u8; 8];
                        f.copy_to_slice(&mut d);
                        d
                    }
                    "flk_copy_to_bytes" => f.copy_to_bytes(8).to_vec(),
                    _ => Buf::chain(&b"\x01\x02"[..], f).get_u64().to_be_bytes().to_vec(),
                };
                if got.iter().any(|b| *b == 0xEE) {
                    format!("OOB-READ bytes from behind the slice chunk() returned reached the caller: {}", hex(&got))
                } else {
                    format!("len {}", got.len())
                }
            }
            #[cfg(feature = "std")]
            n if n.starts_with("cursor_") => {
                // script[0] encodes the owner: rem = answer schedule, chunk = long_len * 1000 + short_len, panic_at = start position
                let l = script.first().copied().unwrap_or(Lie { rem: 0, chunk: 0, panic_at: 0 });
                let (llen, slen) = (l.chunk / 1000, l.chunk % 1000);
                let o = LyingAsRef { long: vec![0x11; llen], short: vec![0x22; slen], sched: l.rem, calls: std::cell::Cell::new(0) };
                let mut c = std::io::Cursor::new(o);
                c.set_position(l.panic_at as u64);
                let got: Vec<u8> = match n {
                    "cursor_copy_to_slice" => {
                        let mut dst = vec![0u8; arg];
                        c.copy_to_slice(&mut dst);
                        dst
                    }
                    "cursor_get_u64" => c.get_u64().to_be_bytes().to_vec(),
                    "cursor_copy_to_bytes" => c.copy_to_bytes(arg).to_vec(),
                    _ => {
                        let mut v = Vec::new();
                        let mut fuel = 0;
                        while c.has_remaining() && fuel < 64 {
                            let ch = c.chunk();
                            let k = ch.len().min(3).max(1).min(ch.len());
                            v.extend_from_slice(&ch[..k]);
                            if k == 0 {
                                break;
                            }
                            c.advance(k);
                            fuel += 1;
                        }
                        v
                    }
                };
                // every byte handed to the caller must come from one of the owner's two answers
                if got.iter().any(|b| *b != 0x11 && *b != 0x22) {
                    format!("OOB-READ bytes from outside the owner's slices reached the caller: {}", hex(&got[..got.len().min(16)]))
                } else {
                    format!("len {}", got.len())
                }
            }
            _ => "unknown".into(),
        }
    }));
    r.map_err(|_| ())
}

fn report(case: &str, r: Result<String, ()>, a1_before: usize) {
    let evs = ledger::drain_events();
    let bad: Vec<String> = evs.iter().filter(|e| e.bad != 0).map(|e| format!("bad={}", e.bad)).collect();
    let leak = ledger::tracked_live_total() as i64 - a1_before as i64;
    let neighbour = matches!(&r, Err(())) && false;
    let _ = neighbour;
    println!(
        "adv {} -> {} ledger={} leak={}",
        case,
        match &r {
            Ok(s) => s.replace(' ', "_"),
            Err(()) => "panic".into(),
        },
        if bad.is_empty() { "ok".to_string() } else { bad.join(",") },
        leak
    );
}

pub fn run(args: &[String]) -> i32 {
    let seed = seed_from_env();
    let thorough = tier_thorough();
    let mut rng = Rng::new(seed);
    // the neighbour assertion must be visible: keep its message
    std::panic::set_hook(Box::new(|info| {
        if format!("{}", info).contains("NEIGHBOUR-OVERWRITTEN") {
            println!("adv-neighbour-overwritten");
        }
    }));
    println!("hseq adv seed={} thorough={}", seed, thorough);
    if args.first().map(|s| s.as_str()) == Some("one") && args.len() >= 4 {
        let script = parse_script(&args[2]);
        let arg: usize = args[3].parse().unwrap_or(0);
        let a1 = ledger::tracked_live_total();
        let _ = ledger::drain_events();
        ledger::track(true);
        let r = consume(&args[1], &script, arg);
        ledger::track(false);
        let r2 = r.as_ref().map(|s| s.clone()).map_err(|_| ());
        drop(r);
        report(&format!("{} {} {}", args[1], show(&script), arg), r2, a1);
        return 0;
    }
    let n = if thorough { 40000 } else { 4000 };
    for i in 0..n {
        let name = CONSUMERS[i % CONSUMERS.len()];
        let mut script = gen_script(&mut rng);
        if name.starts_with("stale_") {
            script = vec![Lie { rem: *rng.pick(&[0usize, 3, 8, 16, 17, 40, 5000]), chunk: *rng.pick(&[0usize, 1, 4, 8, 16]), panic_at: *rng.pick(&[0u8, 0, 1, 3]) }];
        }
        if name.starts_with("flk_") {
            script = vec![Lie { rem: rng.below(4) as usize, chunk: *rng.pick(&[0usize, 1, 3, 7]), panic_at: *rng.pick(&[0u8, 0, 1, 5]) }];
        }
        if name.starts_with("cursor_") {
            let llen = *rng.pick(&[8usize, 16, 64, 300]);
            let slen = *rng.pick(&[0usize, 1, 3, 7, 8]);
            script = vec![Lie { rem: rng.below(64) as usize, chunk: llen * 1000 + slen, panic_at: *rng.pick(&[0u8, 0, 1, 2, 5, 9]) }];
        }
        let arg = *rng.pick(&[0usize, 1, 4, 8, 9, 16, 64, 300]);
        let case = format!("{} {} {}", name, show(&script), arg);
        println!("adv-try {}", case);
        let a1 = ledger::tracked_live_total();
        let _ = ledger::drain_events();
        ledger::track(true);
        let r = consume(name, &script, arg);
        ledger::track(false);
        let r2 = r.as_ref().map(|s| s.clone()).map_err(|_| ());
        drop(r);
        report(&case, r2, a1);
    }
    // owners that answer differently per call or panic
    for mode in 0..3 {
        for (la, lb_) in [(4usize, 4096usize), (4096, 4), (0, 64), (64, 0)] {
            OWNER_ASREF.store(0, Ordering::SeqCst);
            OWNER_DROP.store(0, Ordering::SeqCst);
            let a1 = ledger::tracked_live_total();
            let o = LyingOwner { a: vec![1u8; la], b: vec![2u8; lb_], mode };
            let pa = (o.a.as_ptr() as usize, o.a.len());
            let pb = (o.b.as_ptr() as usize, o.b.len());
            let _ = ledger::drain_events();
            ledger::track(true);
            let r = catch_unwind(AssertUnwindSafe(|| {
                let b = Bytes::from_owner(o);
                let view = (b.as_ptr() as usize, b.len());
                // the view must be exactly one of the owner's answers (pointer and length from the same call)
                let consistent = view == pa || view == pb || b.is_empty();
                let c = b.clone();
                let v: Vec<u8> = if consistent { c.slice(..c.len().min(2)).into() } else { Vec::new() };
                drop(b);
                format!("consistent={} v={}", consistent as u8, v.len())
            }));
            ledger::track(false);
            let asref = OWNER_ASREF.load(Ordering::SeqCst);
            let dropped = OWNER_DROP.load(Ordering::SeqCst);
            let evs = ledger::drain_events();
            let bad = evs.iter().filter(|e| e.bad != 0).count();
            let _ = a1;
            println!(
                "advowner mode={} lens={}:{} -> {} asref={} dropped={} ledger={}",
                mode,
                la,
                lb_,
                match r {
                    Ok(s) => s.replace(' ', "_"),
                    Err(_) => "panic".into(),
                },
                asref,
                dropped,
                if bad == 0 { "ok".to_string() } else { format!("bad{}", bad) }
            );
        }
    }
    // iterators with wrong size hints (kept small: a huge lower bound only makes reserve abort/panic)
    for (n, lower, upper) in [(10usize, 0usize, Some(0usize)), (10, 100, Some(3)), (0, 50, None), (300, 1, Some(1)), (5, 5, Some(2)), (40, 4, Some(4)), (9, 8, Some(8))] {
        println!("adv-try {}", format!("extend n={} hint={}:{:?}", n, lower, upper).replace(' ', "_"));
        let a1 = ledger::tracked_live_total();
        let _ = ledger::drain_events();
        ledger::track(true);
        let r = catch_unwind(AssertUnwindSafe(|| {
            // what the iterator really yields (the Vec model of C01: exactly these items are appended)
            let mut exp: Vec<u8> = Vec::new();
            let mut it = LyingIter { n, lower, upper, panic_at: usize::MAX };
            while let Some(x) = it.next() {
                exp.push(x);
            }
            let mut m = BytesMut::with_capacity(2);
            m.extend(LyingIter { n, lower, upper, panic_at: usize::MAX });
            // a destination that held other data before: stale bytes in its spare capacity
            let mut m2 = BytesMut::from(&b"the quick brown fox jumps over the lazy dog; pack my box with five dozen liquor jugs"[..]);
            m2.clear();
            m2.extend(LyingIter { n, lower, upper, panic_at: usize::MAX });
            let f: BytesMut = LyingIter { n, lower, upper, panic_at: usize::MAX }.collect();
            let b: Bytes = LyingIter { n, lower, upper, panic_at: usize::MAX }.collect();
            let same = m[..] == exp[..] && m2[..] == exp[..] && f[..] == exp[..] && b[..] == exp[..];
            format!("len {} {} {} {} same={}", m.len(), m2.len(), f.len(), b.len(), same as u8)
        }));
        ledger::track(false);
        let r2 = r.as_ref().map(|s| s.clone()).map_err(|_| ());
        drop(r);
        report(&format!("extend n={} hint={}:{:?}", n, lower, upper).replace(' ', "_"), r2, a1);
    }
    // iterators that panic part-way (after the destination had to grow, or before): the destination must stay a valid
    // value through the unwind — dropped exactly once, nothing it owned freed twice or lost
    for (cap0, pre, n, at, lower) in [(0usize, 0usize, 40usize, 10usize, 0usize), (2, 2, 300, 100, 1), (16, 3, 64, 63, 64), (8, 8, 20, 0, 5), (4, 1, 200, 199, 0),
                                      (64, 10, 500, 250, 2), (1, 0, 9, 3, 100)] {
        for kind in ["extend_vec", "extend_adv", "extend_arc", "collect_mut", "collect_bytes"] {
            println!("adv-try {}", format!("iterpanic kind={} cap={} pre={} n={} at={} lower={}", kind, cap0, pre, n, at, lower).replace(' ', "_"));
            let a1 = ledger::tracked_live_total();
            let _ = ledger::drain_events();
            ledger::track(true);
            let r = catch_unwind(AssertUnwindSafe(|| {
                let it = LyingIter { n, lower, upper: None, panic_at: at };
                match kind {
                    "collect_mut" => format!("len {}", it.collect::<BytesMut>().len()),
                    "collect_bytes" => format!("len {}", it.collect::<Bytes>().len()),
                    _ => {
                        let mut m = BytesMut::with_capacity(cap0 + 4);
                        m.extend_from_slice(&vec![7u8; pre + 3]);
                        let mut keep = None;
                        if kind == "extend_adv" {
                            m.advance(2);
                        } else if kind == "extend_arc" {
                            keep = Some(m.split_to(1));
                        }
                        let r2 = catch_unwind(AssertUnwindSafe(|| m.extend(it)));
                        // the destination is still usable after the unwind
                        let ok = m.iter().take(1).all(|b| *b == 7);
                        m.extend_from_slice(b"xyz");
                        let l = m.len();
                        drop(keep);
                        format!("len {} unwound={} head_ok={}", l, r2.is_err() as u8, ok as u8)
                    }
                }
            }));
            ledger::track(false);
            let r2 = r.as_ref().map(|s| s.clone()).map_err(|_| ());
            drop(r);
            report(&format!("iterpanic kind={} cap={} pre={} n={} at={} lower={}", kind, cap0, pre, n, at, lower).replace(' ', "_"), r2, a1);
        }
    }
    println!("advend violations={}", ledger::VIOLATIONS.load(Ordering::SeqCst));
    0
}

#[allow(dead_code)]
fn _unused(_: &mut UninitSlice) {}
