//! T2 harness: runs the real crate (built from /repo's working tree) in-process and prints
//! traces for the Lean `judge`.  One sub-command per stream.
mod bufstream;
mod cmp;
mod fmtstream;
mod mutstream;
mod reprs;
mod tree;
mod util;

fn main() {
    let args: Vec<String> = std::env::args().collect();
    let mode = args.get(1).map(|s| s.as_str()).unwrap_or("");
    let rest = &args[2.min(args.len())..];
    let code = match mode {
        "cmp" => cmp::run(rest),
        "cmp-one" => cmp::one(rest),
        "fmt" => fmtstream::run(rest),
        "buf" => bufstream::run(rest),
        "mut" => mutstream::run(rest),
        _ => {
            eprintln!("harness: unknown mode {:?}", mode);
            2
        }
    };
    std::process::exit(code);
}
