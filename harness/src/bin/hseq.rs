//! Harness binary running under the ledger allocator: M1 operation-sequence streams.
#[path = "../adv.rs"]
mod adv;
#[path = "../ledger.rs"]
mod ledger;
#[path = "../recycle.rs"]
mod recycle;
#[path = "../seq.rs"]
mod seq;
#[path = "../util.rs"]
#[allow(dead_code)]
mod util;

#[cfg(not(feature = "noledger"))]
#[global_allocator]
static GLOBAL: ledger::Ledger = ledger::Ledger;

fn main() {
    let args: Vec<String> = std::env::args().collect();
    let mode = args.get(1).map(|s| s.as_str()).unwrap_or("");
    let parity = std::env::var("VERIF_PARITY").unwrap_or_else(|_| "even".into());
    ledger::PARITY.store(match parity.as_str() { "odd" => 1, "alt" => 2, "pack" => 3, _ => 0 }, std::sync::atomic::Ordering::SeqCst);
    let profile = if cfg!(debug_assertions) { "debug" } else { "release" };
    let rest = &args[2.min(args.len())..];
    let code = match mode {
        "seq" => seq::run(rest, &parity, profile),
        "recycle" => recycle::run(rest),
        "adv" => adv::run(rest),
        _ => {
            eprintln!("hseq: unknown mode {:?}", mode);
            2
        }
    };
    std::process::exit(code);
}
