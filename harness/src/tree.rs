//! Buf adapter trees over the real crate types, built from a textual description shared with the
//! Lean model (`seg N c.. | slice H | bytes H | mut H | cursor H pos | deque H1 H2 | chain A B |
//! take n T | ref T | box T`).  Every node is a `Box<dyn Node>`, so every call goes through the
//! crate's `impl Buf for Box<T>` forwarders and, via the vtable, through the overrides of the
//! concrete type (`Chain::copy_to_bytes`, `Take::chunks_vectored`, …).
use crate::util::*;
use bytes::buf::{Chain, Take};
use bytes::{Buf, Bytes, BytesMut};
use std::collections::VecDeque;
use std::io::Cursor;

pub trait Node: Buf {
    /// Current state in the description syntax (inner buffers, limits, cursor positions).
    fn describe(&self) -> String;
    fn set_limit(&mut self, _n: usize) -> bool {
        false
    }
    /// the same description, taking the tree apart through the adapters' `into_inner()` (used after the last op of a case)
    fn describe_into(self: Box<Self>) -> String {
        self.describe()
    }
}

pub type N = Box<dyn Node>;

/// A law-abiding multi-chunk leaf that only implements the three required methods, so all the
/// trait's default methods (chunks_vectored, copy_to_*, get_*) run on it.
pub struct SegBuf {
    pub chunks: VecDeque<Vec<u8>>,
}

impl Buf for SegBuf {
    fn remaining(&self) -> usize {
        self.chunks.iter().map(|c| c.len()).sum()
    }
    fn chunk(&self) -> &[u8] {
        for c in &self.chunks {
            if !c.is_empty() {
                return c;
            }
        }
        &[]
    }
    fn advance(&mut self, mut cnt: usize) {
        assert!(cnt <= self.remaining(), "SegBuf: advance past end");
        // mirrors Model.Buf.segAdvance
        loop {
            match self.chunks.front_mut() {
                None => return,
                Some(c) => {
                    if cnt < c.len() {
                        c.drain(..cnt);
                        return;
                    }
                    cnt -= c.len();
                    self.chunks.pop_front();
                }
            }
        }
    }
}

impl Node for SegBuf {
    fn describe(&self) -> String {
        let mut s = format!("seg {}", self.chunks.len());
        for c in &self.chunks {
            s.push(' ');
            s.push_str(&hex(c));
        }
        s
    }
}

impl Node for &'static [u8] {
    fn describe(&self) -> String {
        format!("slice {}", hex(self))
    }
}
impl Node for Bytes {
    fn describe(&self) -> String {
        format!("bytes {}", hex(self))
    }
}
impl Node for BytesMut {
    fn describe(&self) -> String {
        format!("mut {}", hex(self))
    }
}
impl Node for Cursor<Vec<u8>> {
    fn describe(&self) -> String {
        format!("cursor {} {}", hex(self.get_ref()), self.position())
    }
}
impl Node for VecDeque<u8> {
    fn describe(&self) -> String {
        let (a, b) = self.as_slices();
        format!("deque {} {}", hex(a), hex(b))
    }
}
impl Node for Chain<N, N> {
    fn describe(&self) -> String {
        format!("chain {} {}", self.first_ref().describe(), self.last_ref().describe())
    }
    fn describe_into(mut self: Box<Self>) -> String {
        // first_mut / last_mut must name the same halves as first_ref / last_ref, into_inner must hand them back in order
        let via_mut = format!("chain {} {}", Chain::first_mut(&mut *self).describe(), Chain::last_mut(&mut *self).describe());
        let (a, b) = Chain::into_inner(*self);
        let via_inner = format!("chain {} {}", a.describe_into(), b.describe_into());
        if via_mut == via_inner { via_inner } else { format!("ACCESSORS-DISAGREE {} | {}", via_mut, via_inner) }
    }
}
impl Node for Take<N> {
    fn describe(&self) -> String {
        format!("take {} {}", self.limit(), self.get_ref().describe())
    }
    fn describe_into(mut self: Box<Self>) -> String {
        let lim = Take::limit(&*self);
        let via_mut = format!("take {} {}", lim, Take::get_mut(&mut *self).describe());
        let via_inner = format!("take {} {}", lim, Take::into_inner(*self).describe_into());
        if via_mut == via_inner { via_inner } else { format!("ACCESSORS-DISAGREE {} | {}", via_mut, via_inner) }
    }
    fn set_limit(&mut self, n: usize) -> bool {
        Take::set_limit(self, n);
        true
    }
}

/// Invoke `$cb!` with the list of all typed getters: `(name, try_name, type, argument-kind)`.
#[macro_export]
macro_rules! for_all_getters {
    ($cb:ident) => {
        $cb! {
            fixed: (get_u8, try_get_u8, u8), (get_i8, try_get_i8, i8),
                (get_u16, try_get_u16, u16), (get_u16_le, try_get_u16_le, u16), (get_u16_ne, try_get_u16_ne, u16),
                (get_i16, try_get_i16, i16), (get_i16_le, try_get_i16_le, i16), (get_i16_ne, try_get_i16_ne, i16),
                (get_u32, try_get_u32, u32), (get_u32_le, try_get_u32_le, u32), (get_u32_ne, try_get_u32_ne, u32),
                (get_i32, try_get_i32, i32), (get_i32_le, try_get_i32_le, i32), (get_i32_ne, try_get_i32_ne, i32),
                (get_u64, try_get_u64, u64), (get_u64_le, try_get_u64_le, u64), (get_u64_ne, try_get_u64_ne, u64),
                (get_i64, try_get_i64, i64), (get_i64_le, try_get_i64_le, i64), (get_i64_ne, try_get_i64_ne, i64),
                (get_u128, try_get_u128, u128), (get_u128_le, try_get_u128_le, u128), (get_u128_ne, try_get_u128_ne, u128),
                (get_i128, try_get_i128, i128), (get_i128_le, try_get_i128_le, i128), (get_i128_ne, try_get_i128_ne, i128),
                (get_f32, try_get_f32, f32), (get_f32_le, try_get_f32_le, f32), (get_f32_ne, try_get_f32_ne, f32),
                (get_f64, try_get_f64, f64), (get_f64_le, try_get_f64_le, f64), (get_f64_ne, try_get_f64_ne, f64);
            var: (get_uint, try_get_uint, u64), (get_uint_le, try_get_uint_le, u64), (get_uint_ne, try_get_uint_ne, u64),
                (get_int, try_get_int, i64), (get_int_le, try_get_int_le, i64), (get_int_ne, try_get_int_ne, i64)
        }
    };
}

macro_rules! delegate_getters {
    (fixed: $(($g:ident, $t:ident, $ty:ty)),* ; var: $(($vg:ident, $vt:ident, $vty:ty)),*) => {
        $( fn $g(&mut self) -> $ty { Buf::$g(&mut self.0) }
           fn $t(&mut self) -> Result<$ty, bytes::TryGetError> { Buf::$t(&mut self.0) } )*
        $( fn $vg(&mut self, nbytes: usize) -> $vty { Buf::$vg(&mut self.0, nbytes) }
           fn $vt(&mut self, nbytes: usize) -> Result<$vty, bytes::TryGetError> { Buf::$vt(&mut self.0, nbytes) } )*
    };
}

macro_rules! delegate_buf {
    ($t:ty) => {
        impl Buf for $t {
            fn remaining(&self) -> usize {
                Buf::remaining(&self.0)
            }
            fn chunk(&self) -> &[u8] {
                Buf::chunk(&self.0)
            }
            fn chunks_vectored<'a>(&'a self, dst: &mut [std::io::IoSlice<'a>]) -> usize {
                Buf::chunks_vectored(&self.0, dst)
            }
            fn has_remaining(&self) -> bool {
                Buf::has_remaining(&self.0)
            }
            fn advance(&mut self, cnt: usize) {
                Buf::advance(&mut self.0, cnt)
            }
            fn copy_to_slice(&mut self, dst: &mut [u8]) {
                Buf::copy_to_slice(&mut self.0, dst)
            }
            fn try_copy_to_slice(&mut self, dst: &mut [u8]) -> Result<(), bytes::TryGetError> {
                Buf::try_copy_to_slice(&mut self.0, dst)
            }
            fn copy_to_bytes(&mut self, len: usize) -> Bytes {
                Buf::copy_to_bytes(&mut self.0, len)
            }
            for_all_getters!(delegate_getters);
        }
    };
}

/// `&mut T` wrapper: every method goes through the crate's `impl Buf for &mut T`.
pub struct RefMut(pub &'static mut N);
delegate_buf!(RefMut);
impl Node for RefMut {
    fn describe(&self) -> String {
        format!("ref {}", self.0.describe())
    }
}

/// `Box<T>` wrapper: every method goes through the crate's `impl Buf for Box<T>`.
pub struct Boxed(pub N);
delegate_buf!(Boxed);
impl Node for Boxed {
    fn describe(&self) -> String {
        format!("box {}", self.0.describe())
    }
    fn describe_into(self: Box<Self>) -> String {
        format!("box {}", self.0.describe_into())
    }
}

/// Parse a description (tokens) into a tree.  Returns None on malformed input.
pub fn parse(tokens: &mut std::slice::Iter<'_, &str>) -> Option<N> {
    let t = *tokens.next()?;
    Some(match t {
        "seg" => {
            let n: usize = tokens.next()?.parse().ok()?;
            let mut chunks = VecDeque::new();
            for _ in 0..n {
                chunks.push_back(unhex(tokens.next()?)?);
            }
            Box::new(SegBuf { chunks })
        }
        "slice" => {
            let v = unhex(tokens.next()?)?;
            let s: &'static [u8] = Box::leak(v.into_boxed_slice());
            Box::new(s)
        }
        "bytes" => Box::new(Bytes::from(unhex(tokens.next()?)?)),
        "mut" => Box::new(BytesMut::from(&unhex(tokens.next()?)?[..])),
        "cursor" => {
            let v = unhex(tokens.next()?)?;
            let pos: u64 = tokens.next()?.parse().ok()?;
            let mut c = Cursor::new(v);
            c.set_position(pos);
            Box::new(c)
        }
        "deque" => {
            let a = unhex(tokens.next()?)?;
            let b = unhex(tokens.next()?)?;
            Box::new(mk_deque(&a, &b)?)
        }
        "chain" => {
            let a = parse(tokens)?;
            let b = parse(tokens)?;
            Box::new(a.chain(b))
        }
        "take" => {
            let n: usize = tokens.next()?.parse().ok()?;
            let i = parse(tokens)?;
            Box::new(i.take(n))
        }
        "ref" => Box::new(RefMut(Box::leak(Box::new(parse(tokens)?)))),
        "box" => Box::new(Boxed(parse(tokens)?)),
        _ => return None,
    })
}

/// A VecDeque whose `as_slices()` is exactly (a, b): front part `a`, wrapped part `b`.
pub fn mk_deque(a: &[u8], b: &[u8]) -> Option<VecDeque<u8>> {
    if a.is_empty() && !b.is_empty() {
        return None;
    }
    if b.is_empty() {
        let mut d = VecDeque::with_capacity(a.len().max(1));
        d.extend(a.iter().copied());
        return Some(d);
    }
    // Fill the ring so that the head sits `a.len()` slots before the end of the buffer.
    let cap_req = a.len() + b.len();
    let mut d: VecDeque<u8> = VecDeque::with_capacity(cap_req);
    let cap = d.capacity();
    // move head to position cap - a.len(): push and pop (cap - a.len()) elements
    for _ in 0..(cap - a.len()) {
        d.push_back(0);
    }
    for _ in 0..(cap - a.len()) {
        d.pop_front();
    }
    d.extend(a.iter().copied());
    d.extend(b.iter().copied());
    let (x, y) = d.as_slices();
    if x == a && y == b {
        Some(d)
    } else {
        None
    }
}
