//! C14 stream: evaluate every comparison / hash impl of the crate, in both operand orders and in
//! every representation, on all pairs of byte strings over a small alphabet plus random pairs.
//! The trait impl is selected by explicit type parameters (`res::<L, R>`), never by autoderef.
use crate::reprs::*;
use crate::util::*;
use bytes::{Bytes, BytesMut};
use std::borrow::Borrow;
use std::cmp::Ordering;
use std::collections::hash_map::DefaultHasher;
use std::hash::{Hash, Hasher};

fn b(p: bool) -> char {
    if p {
        '1'
    } else {
        '0'
    }
}
fn oc(o: Option<Ordering>) -> char {
    match o {
        Some(Ordering::Less) => 'L',
        Some(Ordering::Equal) => 'E',
        Some(Ordering::Greater) => 'G',
        None => 'N',
    }
}

fn res_eq<L: ?Sized + PartialEq<R>, R: ?Sized>(l: &L, r: &R) -> String {
    [b(l == r), b(l != r)].iter().collect()
}
fn res<L: ?Sized + PartialOrd<R>, R: ?Sized>(l: &L, r: &R) -> String {
    [b(l == r), b(l != r), b(l < r), b(l <= r), b(l > r), b(l >= r), oc(l.partial_cmp(r))].iter().collect()
}
fn res_ord<L: Ord>(l: &L, r: &L) -> String {
    let mut s = res(l, r);
    s.push(oc(Some(l.cmp(r))));
    s
}

struct Ctx {
    kb: Vec<Bytes>,
    km: Vec<BytesMut>,
}

type F = fn(&[u8], &[u8], usize, usize, &mut Ctx) -> Option<String>;

fn st(x: &[u8]) -> Option<&str> {
    std::str::from_utf8(x).ok()
}

macro_rules! entries {
    ($( $names:expr => |$x:ident, $y:ident, $rx:ident, $ry:ident, $c:ident| $body:expr ;)*) => {
        &[ $( ($names, (|$x: &[u8], $y: &[u8], $rx: usize, $ry: usize, $c: &mut Ctx| -> Option<String> { $body }) as F) ),* ]
    };
}

fn entries() -> &'static [(&'static str, F)] {
    entries! {
        "PartialEq for Bytes+PartialOrd for Bytes+Ord for Bytes" => |x,y,rx,ry,c| Some(res_ord::<Bytes>(&mk_bytes(x,rx,&mut c.kb), &mk_bytes(y,ry,&mut c.kb)));
        "PartialEq<[u8]> for Bytes+PartialOrd<[u8]> for Bytes" => |x,y,rx,_ry,c| Some(res::<Bytes,[u8]>(&mk_bytes(x,rx,&mut c.kb), y));
        "PartialEq<Bytes> for [u8]+PartialOrd<Bytes> for [u8]" => |x,y,_rx,ry,c| Some(res::<[u8],Bytes>(x, &mk_bytes(y,ry,&mut c.kb)));
        "PartialEq<str> for Bytes+PartialOrd<str> for Bytes" => |x,y,rx,_ry,c| Some(res::<Bytes,str>(&mk_bytes(x,rx,&mut c.kb), st(y)?));
        "PartialEq<Bytes> for str+PartialOrd<Bytes> for str" => |x,y,_rx,ry,c| Some(res::<str,Bytes>(st(x)?, &mk_bytes(y,ry,&mut c.kb)));
        "PartialEq<Vec<u8>> for Bytes+PartialOrd<Vec<u8>> for Bytes" => |x,y,rx,_ry,c| Some(res::<Bytes,Vec<u8>>(&mk_bytes(x,rx,&mut c.kb), &y.to_vec()));
        "PartialEq<Bytes> for Vec<u8>+PartialOrd<Bytes> for Vec<u8>" => |x,y,_rx,ry,c| Some(res::<Vec<u8>,Bytes>(&x.to_vec(), &mk_bytes(y,ry,&mut c.kb)));
        "PartialEq<String> for Bytes+PartialOrd<String> for Bytes" => |x,y,rx,_ry,c| Some(res::<Bytes,String>(&mk_bytes(x,rx,&mut c.kb), &st(y)?.to_string()));
        "PartialEq<Bytes> for String+PartialOrd<Bytes> for String" => |x,y,_rx,ry,c| Some(res::<String,Bytes>(&st(x)?.to_string(), &mk_bytes(y,ry,&mut c.kb)));
        "PartialEq<Bytes> for &[u8]+PartialOrd<Bytes> for &[u8]" => |x,y,_rx,ry,c| Some(res::<&[u8],Bytes>(&x, &mk_bytes(y,ry,&mut c.kb)));
        "PartialEq<Bytes> for &str+PartialOrd<Bytes> for &str" => |x,y,_rx,ry,c| Some(res::<&str,Bytes>(&st(x)?, &mk_bytes(y,ry,&mut c.kb)));
        "PartialEq<&'a T> for Bytes+PartialOrd<&'a T> for Bytes" => |x,y,rx,_ry,c| Some(res::<Bytes,&[u8]>(&mk_bytes(x,rx,&mut c.kb), &y));
        "PartialEq<&'a T> for Bytes+PartialOrd<&'a T> for Bytes" => |x,y,rx,_ry,c| Some(res::<Bytes,&str>(&mk_bytes(x,rx,&mut c.kb), &st(y)?));
        "PartialEq<&'a T> for Bytes+PartialOrd<&'a T> for Bytes" => |x,y,rx,_ry,c| Some(res::<Bytes,&Vec<u8>>(&mk_bytes(x,rx,&mut c.kb), &&y.to_vec()));
        "PartialEq<&'a T> for Bytes+PartialOrd<&'a T> for Bytes" => |x,y,rx,_ry,c| Some(res::<Bytes,&String>(&mk_bytes(x,rx,&mut c.kb), &&st(y)?.to_string()));
        "PartialEq<&'a T> for Bytes+PartialOrd<&'a T> for Bytes" => |x,y,rx,ry,c| { let r = mk_bytes(y,ry,&mut c.kb); Some(res::<Bytes,&Bytes>(&mk_bytes(x,rx,&mut c.kb), &&r)) };
        "PartialEq for BytesMut+PartialOrd for BytesMut+Ord for BytesMut" => |x,y,rx,ry,c| Some(res_ord::<BytesMut>(&mk_mut(x,rx,&mut c.km), &mk_mut(y,ry,&mut c.km)));
        "PartialEq<[u8]> for BytesMut+PartialOrd<[u8]> for BytesMut" => |x,y,rx,_ry,c| Some(res::<BytesMut,[u8]>(&mk_mut(x,rx,&mut c.km), y));
        "PartialEq<BytesMut> for [u8]+PartialOrd<BytesMut> for [u8]" => |x,y,_rx,ry,c| Some(res::<[u8],BytesMut>(x, &mk_mut(y,ry,&mut c.km)));
        "PartialEq<str> for BytesMut+PartialOrd<str> for BytesMut" => |x,y,rx,_ry,c| Some(res::<BytesMut,str>(&mk_mut(x,rx,&mut c.km), st(y)?));
        "PartialEq<BytesMut> for str+PartialOrd<BytesMut> for str" => |x,y,_rx,ry,c| Some(res::<str,BytesMut>(st(x)?, &mk_mut(y,ry,&mut c.km)));
        "PartialEq<Vec<u8>> for BytesMut+PartialOrd<Vec<u8>> for BytesMut" => |x,y,rx,_ry,c| Some(res::<BytesMut,Vec<u8>>(&mk_mut(x,rx,&mut c.km), &y.to_vec()));
        "PartialEq<BytesMut> for Vec<u8>+PartialOrd<BytesMut> for Vec<u8>" => |x,y,_rx,ry,c| Some(res::<Vec<u8>,BytesMut>(&x.to_vec(), &mk_mut(y,ry,&mut c.km)));
        "PartialEq<String> for BytesMut+PartialOrd<String> for BytesMut" => |x,y,rx,_ry,c| Some(res::<BytesMut,String>(&mk_mut(x,rx,&mut c.km), &st(y)?.to_string()));
        "PartialEq<BytesMut> for String+PartialOrd<BytesMut> for String" => |x,y,_rx,ry,c| Some(res::<String,BytesMut>(&st(x)?.to_string(), &mk_mut(y,ry,&mut c.km)));
        "PartialEq<&'a T> for BytesMut+PartialOrd<&'a T> for BytesMut" => |x,y,rx,_ry,c| Some(res::<BytesMut,&[u8]>(&mk_mut(x,rx,&mut c.km), &y));
        "PartialEq<&'a T> for BytesMut+PartialOrd<&'a T> for BytesMut" => |x,y,rx,_ry,c| Some(res::<BytesMut,&str>(&mk_mut(x,rx,&mut c.km), &st(y)?));
        "PartialEq<&'a T> for BytesMut+PartialOrd<&'a T> for BytesMut" => |x,y,rx,_ry,c| Some(res::<BytesMut,&Vec<u8>>(&mk_mut(x,rx,&mut c.km), &&y.to_vec()));
        "PartialEq<&'a T> for BytesMut+PartialOrd<&'a T> for BytesMut" => |x,y,rx,_ry,c| Some(res::<BytesMut,&String>(&mk_mut(x,rx,&mut c.km), &&st(y)?.to_string()));
        "PartialEq<&'a T> for BytesMut+PartialOrd<&'a T> for BytesMut" => |x,y,rx,ry,c| { let r = mk_mut(y,ry,&mut c.km); Some(res::<BytesMut,&BytesMut>(&mk_mut(x,rx,&mut c.km), &&r)) };
        "PartialEq<BytesMut> for &[u8]+PartialOrd<BytesMut> for &[u8]" => |x,y,_rx,ry,c| Some(res::<&[u8],BytesMut>(&x, &mk_mut(y,ry,&mut c.km)));
        "PartialEq<BytesMut> for &str+PartialOrd<BytesMut> for &str" => |x,y,_rx,ry,c| Some(res::<&str,BytesMut>(&st(x)?, &mk_mut(y,ry,&mut c.km)));
        "PartialEq<BytesMut> for Bytes" => |x,y,rx,ry,c| Some(res_eq::<Bytes,BytesMut>(&mk_bytes(x,rx,&mut c.kb), &mk_mut(y,ry,&mut c.km)));
        "PartialEq<Bytes> for BytesMut" => |x,y,rx,ry,c| Some(res_eq::<BytesMut,Bytes>(&mk_mut(x,rx,&mut c.km), &mk_bytes(y,ry,&mut c.kb)));
    }
}

fn hash_of<T: Hash + ?Sized>(t: &T) -> u64 {
    let mut h = DefaultHasher::new();
    t.hash(&mut h);
    h.finish()
}

fn universe(rng: &mut Rng, thorough: bool) -> Vec<Vec<u8>> {
    // all strings of length <= 3 over a 4-symbol alphabet (two ASCII, NUL, a non-UTF-8 byte)
    let alpha = [0x00u8, 0x61, 0x7a, 0xff];
    let mut u: Vec<Vec<u8>> = vec![vec![]];
    let mut frontier: Vec<Vec<u8>> = vec![vec![]];
    for _ in 0..3 {
        let mut next = Vec::new();
        for s in &frontier {
            for a in alpha {
                let mut t = s.clone();
                t.push(a);
                next.push(t);
            }
        }
        u.extend(next.iter().cloned());
        frontier = next;
    }
    // random longer strings: prefixes of each other, mostly-ASCII and non-UTF-8
    let n = if thorough { 400 } else { 60 };
    for i in 0..n {
        let len = rng.range(4, 40) as usize;
        let mut s: Vec<u8> = if i % 2 == 0 {
            (0..len).map(|_| rng.range(0x20, 0x7e) as u8).collect()
        } else {
            rng.bytes(len)
        };
        u.push(s.clone());
        let cut = rng.below(len as u64) as usize;
        s.truncate(cut);
        u.push(s.clone()); // a strict prefix
        s.push(rng.next() as u8);
        u.push(s); // differs right after the common prefix
    }
    u
}

pub fn run(_args: &[String]) -> i32 {
    let seed = seed_from_env();
    let thorough = tier_thorough();
    let mut rng = Rng::new(seed);
    let es = entries();
    let u = universe(&mut rng, thorough);
    let names: Vec<String> = es.iter().map(|e| e.0.replace(' ', "_")).collect();
    println!("impls {}", names.join("|"));
    let mut ctx = Ctx { kb: Vec::new(), km: Vec::new() };
    let small = 85; // the exhaustive part
    let mut k: usize = seed as usize;
    for (i, x) in u.iter().enumerate() {
        for (j, y) in u.iter().enumerate() {
            // exhaustive over the small universe; random strings against a sample
            if i >= small && j >= small && !(thorough || (i + j) % 7 == 0) {
                continue;
            }
            let mut cols = Vec::with_capacity(es.len());
            for e in es {
                k = k.wrapping_add(1);
                let (rx, ry) = (k, k / 11);
                cols.push((e.1)(x, y, rx, ry, &mut ctx).unwrap_or_else(|| "skip".to_string()));
                ctx.kb.clear();
                ctx.km.clear();
            }
            println!("p {} {} {}", hex(x), hex(y), cols.join(","));
        }
    }
    // aliasing operands: both sides are views of the same storage (same start, different lengths;
    // overlapping sub-ranges; clones), for the Bytes/Bytes impls
    println!("impls {}", names[0]);
    for (i, x) in u.iter().enumerate() {
        if x.len() < 1 || (i >= small && i % 5 != 0) {
            continue;
        }
        for r in 0..BYTES_REPRS {
            let base = mk_bytes(x, r, &mut ctx.kb);
            let n = x.len();
            let cuts: Vec<(usize, usize)> = vec![(0, n), (0, n - 1), (0, n / 2), (0, 0), (n / 2, n), (1.min(n), n), (n, n)];
            for (a0, a1) in &cuts {
                for (b0, b1) in &cuts {
                    let a = base.slice(*a0..*a1);
                    let mut b = base.clone();
                    b.truncate(*b1);
                    let b = if *b0 > 0 { b.slice(*b0..) } else { b };
                    println!("p {} {} {}", hex(&x[*a0..*a1]), hex(&x[*b0..*b1]), res_ord::<Bytes>(&a, &b));
                }
            }
            ctx.kb.clear();
        }
    }
    // hashing and Borrow: every representation of every string
    for x in &u {
        for r in 0..BYTES_REPRS {
            let v = mk_bytes(x, r, &mut ctx.kb);
            println!("h Hash_for_Bytes {} {:016x} {:016x}", hex(x), hash_of(&v), hash_of::<[u8]>(x));
            let bw: &[u8] = <Bytes as Borrow<[u8]>>::borrow(&v);
            println!("b Borrow<[u8]>_for_Bytes {} {}", hex(x), hex(bw));
            ctx.kb.clear();
        }
        for r in 0..MUT_REPRS {
            let v = mk_mut(x, r, &mut ctx.km);
            println!("h Hash_for_BytesMut {} {:016x} {:016x}", hex(x), hash_of(&v), hash_of::<[u8]>(x));
            let bw: &[u8] = <BytesMut as Borrow<[u8]>>::borrow(&v);
            println!("b Borrow<[u8]>_for_BytesMut {} {}", hex(x), hex(bw));
            ctx.km.clear();
        }
    }
    0
}

/// `cmp-one <impl-name-with-underscores> <hexx> <hexy>`: replay one pair on every entry that covers
/// the named impl, in every representation pair.  Prints `p`-lines like `run`.
pub fn one(args: &[String]) -> i32 {
    if args.len() != 3 {
        eprintln!("usage: cmp-one <impl> <hexx> <hexy>");
        return 2;
    }
    let (x, y) = match (unhex(&args[1]), unhex(&args[2])) {
        (Some(x), Some(y)) => (x, y),
        _ => return 2,
    };
    let es: Vec<_> = entries().iter().filter(|e| e.0.replace(' ', "_").split('+').any(|n| n == args[0])).collect();
    let names: Vec<String> = es.iter().map(|e| e.0.replace(' ', "_")).collect();
    println!("impls {}", names.join("|"));
    let mut ctx = Ctx { kb: Vec::new(), km: Vec::new() };
    for rx in 0..BYTES_REPRS.max(MUT_REPRS) {
        for ry in 0..BYTES_REPRS.max(MUT_REPRS) {
            let cols: Vec<String> =
                es.iter().map(|e| (e.1)(&x, &y, rx, ry, &mut ctx).unwrap_or_else(|| "skip".to_string())).collect();
            ctx.kb.clear();
            ctx.km.clear();
            println!("p {} {} {}", hex(&x), hex(&y), cols.join(","));
        }
    }
    0
}
