//! Small shared helpers: hex, PRNG (one seed -> every random choice), output.
use std::fmt::Write as _;

pub fn hex(b: &[u8]) -> String {
    if b.is_empty() {
        return "-".to_string();
    }
    let mut s = String::with_capacity(b.len() * 2);
    for x in b {
        write!(s, "{:02x}", x).unwrap();
    }
    s
}

pub fn unhex(s: &str) -> Option<Vec<u8>> {
    if s == "-" {
        return Some(Vec::new());
    }
    if s.len() % 2 != 0 {
        return None;
    }
    (0..s.len() / 2).map(|i| u8::from_str_radix(&s[2 * i..2 * i + 2], 16).ok()).collect()
}

/// splitmix64 / xorshift: deterministic, seedable, no dependencies.
#[derive(Clone)]
pub struct Rng(pub u64);
impl Rng {
    pub fn new(seed: u64) -> Self {
        Rng(seed ^ 0x9E37_79B9_7F4A_7C15)
    }
    pub fn next(&mut self) -> u64 {
        self.0 = self.0.wrapping_add(0x9E37_79B9_7F4A_7C15);
        let mut z = self.0;
        z = (z ^ (z >> 30)).wrapping_mul(0xBF58_476D_1CE4_E5B9);
        z = (z ^ (z >> 27)).wrapping_mul(0x94D0_49BB_1331_11EB);
        z ^ (z >> 31)
    }
    pub fn below(&mut self, n: u64) -> u64 {
        if n == 0 {
            0
        } else {
            self.next() % n
        }
    }
    pub fn range(&mut self, lo: u64, hi_incl: u64) -> u64 {
        lo + self.below(hi_incl - lo + 1)
    }
    pub fn chance(&mut self, num: u64, den: u64) -> bool {
        self.below(den) < num
    }
    pub fn pick<'a, T>(&mut self, xs: &'a [T]) -> &'a T {
        &xs[self.below(xs.len() as u64) as usize]
    }
    /// random bytes, random length below `n`
    pub fn bytes_below(&mut self, n: u64) -> Vec<u8> {
        let k = self.below(n) as usize;
        self.bytes(k)
    }
    pub fn bytes(&mut self, n: usize) -> Vec<u8> {
        (0..n).map(|_| self.next() as u8).collect()
    }
}

pub fn seed_from_env() -> u64 {
    std::env::var("VERIF_SEED").ok().and_then(|s| s.parse().ok()).unwrap_or(1)
}

pub fn tier_thorough() -> bool {
    std::env::var("VERIF_TIER").map(|t| t == "thorough").unwrap_or(false)
}
