//! C18 stream: a BytesMut used as a recycling buffer over many rounds, under the ledger allocator.
//! After every operation the trace reports the allocation the main handle lives in (size, front
//! offset), len, capacity, the number of byte-buffer allocations so far and the live byte-buffer
//! bytes; the judge runs the Recycle model (Model/Recycle.lean) in lock-step and checks the bounds.
use crate::ledger;
use crate::util::*;
use bytes::{Buf, Bytes, BytesMut};
use std::collections::VecDeque;
use std::sync::atomic::Ordering;

struct Part {
    h: PartH,
    gen: usize, // allocation generation it belongs to
}
enum PartH {
    M(BytesMut),
    B(Bytes),
}

fn obs(m: &BytesMut, parts_cur: usize, pinned: usize) {
    let (a, off) = match ledger::find_block(m.as_ptr() as usize) {
        Some(b) if b.align == 1 => (b.size, m.as_ptr() as usize - b.addr),
        _ => (0, 0),
    };
    println!(
        "rs A={} off={} len={} cap={} allocs={} live={} parts={} pinned={} ctl={}",
        a,
        off,
        m.len(),
        m.capacity(),
        ledger::A1_ALLOCS.load(Ordering::SeqCst),
        ledger::A1_TRACKED_BYTES.load(Ordering::SeqCst),
        parts_cur,
        pinned,
        ledger::CTL_TRACKED_LIVE.load(Ordering::SeqCst)
    );
}

static STATIC_PAYLOAD: [u8; 70000] = [0xAB; 70000];

pub fn run_pattern(c0: usize, mmax: usize, style: usize, window: usize, rounds: usize, rng: &mut Rng) {
    ledger::reset_stats();
    let base_live = ledger::A1_TRACKED_BYTES.load(Ordering::SeqCst);
    let _ = base_live;
    println!("recycle c0={} M={} style={} window={} rounds={}", c0, mmax, style, window, rounds);
    let payload = vec![0xABu8; mmax];
    let mut parts: VecDeque<Part> = VecDeque::with_capacity(16);
    ledger::track(true);
    let mut m = BytesMut::with_capacity(c0);
    let mut gen = 0usize; // bumped whenever the main handle moves to a new allocation
    let mut cur_block = ledger::find_block(m.as_ptr() as usize).map(|b| b.serial).unwrap_or(0);
    println!("r init {}", c0);
    obs(&m, 0, 0);
    let count = |parts: &VecDeque<Part>, gen: usize| -> (usize, usize) {
        let cur = parts.iter().filter(|p| p.gen == gen).count();
        let mut gens: Vec<usize> = parts.iter().filter(|p| p.gen != gen).map(|p| p.gen).collect();
        gens.sort();
        gens.dedup();
        (cur, gens.len())
    };
    for round in 0..rounds {
        // retention: drop parts older than the window before refilling
        while parts.len() > window {
            let p = parts.pop_front().unwrap();
            let was_cur = p.gen == gen;
            let g = p.gen;
            drop(p.h);
            let still = parts.iter().any(|q| q.gen == g);
            if was_cur {
                println!("r droppart");
            } else if !still {
                println!("r droppinned");
            } else {
                println!("r dropold");
            }
            let (c, pn) = count(&parts, gen);
            obs(&m, c, pn);
        }
        let room = mmax - m.len().min(mmax);
        let k = if room == 0 { 0 } else { 1 + rng.below(room as u64) as usize };
        // refill
        match round % 3 {
            0 => {
                m.reserve(k);
                println!("r reserve {}", k);
                let nb = ledger::find_block(m.as_ptr() as usize).map(|b| b.serial).unwrap_or(0);
                if nb != cur_block {
                    cur_block = nb;
                    gen += 1;
                }
                let (c, pn) = count(&parts, gen);
                obs(&m, c, pn);
                m.extend_from_slice(&payload[..k]);
                println!("r append {}", k);
            }
            1 => {
                m.extend_from_slice(&payload[..k]);
                println!("r append {}", k);
            }
            _ => {
                // the same append through `Extend<Bytes>` (a chunk of a static payload: no allocation of its own)
                m.extend([bytes::Bytes::from_static(&STATIC_PAYLOAD[..k])]);
                println!("r append {}", k);
            }
        }
        let nb = ledger::find_block(m.as_ptr() as usize).map(|b| b.serial).unwrap_or(0);
        if nb != cur_block {
            cur_block = nb;
            gen += 1;
        }
        let (c, pn) = count(&parts, gen);
        obs(&m, c, pn);
        // consume
        let len = m.len();
        let leftover = if rng.chance(1, 3) { rng.below(len as u64 / 2 + 1) as usize } else { 0 };
        let n = len - leftover;
        let st = if style == 7 { *rng.pick(&[0usize, 1, 2, 3, 4, 5, 6, 8, 9, 10]) } else { style };
        match st {
            0 => {
                let p = m.split_to(n);
                println!("r splitto {}", n);
                parts.push_back(Part { h: PartH::M(p), gen });
            }
            1 => {
                let p = m.split();
                println!("r split");
                parts.push_back(Part { h: PartH::M(p), gen });
            }
            2 => {
                m.advance(n);
                println!("r advance {}", n);
            }
            3 => {
                m.truncate(leftover);
                println!("r truncate {}", leftover);
            }
            4 => {
                let p = m.split_to(n).freeze();
                println!("r splitto {}", n);
                parts.push_back(Part { h: PartH::B(p), gen });
            }
            8 => {
                // consume through the Buf trait: copy_to_bytes = split_to(n).freeze()
                let p = bytes::Buf::copy_to_bytes(&mut m, n);
                println!("r splitto {}", n);
                parts.push_back(Part { h: PartH::B(p), gen });
            }
            10 => {
                // read-loop idiom: grow to the capacity with resize (zero fill), "receive", cut back, consume by split_to
                let cap = m.capacity();
                let grow = cap - m.len().min(cap);
                m.resize(cap.max(m.len()), 0);
                println!("r append {}", grow);
                let (c, pn) = count(&parts, gen);
                obs(&m, c, pn);
                m.truncate(len);
                println!("r truncate {}", len);
                let (c, pn) = count(&parts, gen);
                obs(&m, c, pn);
                let p = m.split_to(n);
                println!("r splitto {}", n);
                parts.push_back(Part { h: PartH::M(p), gen });
            }
            9 => {
                // empty the handle, split its whole capacity off and take it back: unsplit onto an empty handle (`*self = other`)
                m.truncate(0);
                println!("r truncate 0");
                let (c, pn) = count(&parts, gen);
                obs(&m, c, pn);
                let tail = m.split_off(0);
                let tcap = tail.capacity();
                println!("r splitofftail");
                let (c, pn) = count(&parts, gen);
                obs(&m, c + 1, pn);
                m.unsplit(tail);
                println!("r unsplitlast 0 {}", tcap);
            }
            5 => {
                // round trip of the recycling handle itself through Bytes and back
                m.truncate(leftover);
                println!("r truncate {}", leftover);
                let (c, pn) = count(&parts, gen);
                obs(&m, c, pn);
                let b = m.freeze();
                m = BytesMut::from(b);
                println!("r roundtrip");
                let nb = ledger::find_block(m.as_ptr() as usize).map(|b| b.serial).unwrap_or(0);
                if nb != cur_block && m.capacity() != 0 {
                    cur_block = nb;
                    gen += 1;
                }
            }
            _ => {
                // split off the spare capacity and merge it back (contiguous unsplit), then consume by split
                let tail = m.split_off(m.len());
                let tcap = tail.capacity();
                println!("r splitofftail");
                let (c, pn) = count(&parts, gen);
                obs(&m, c + 1, pn);
                m.unsplit(tail);
                println!("r unsplitlast 0 {}", tcap);
                let (c, pn) = count(&parts, gen);
                obs(&m, c, pn);
                let p = m.split_to(n);
                println!("r splitto {}", n);
                parts.push_back(Part { h: PartH::M(p), gen });
            }
        }
        let (c, pn) = count(&parts, gen);
        obs(&m, c, pn);
    }
    drop(parts);
    drop(m);
    ledger::track(false);
    println!("rend live={}", ledger::A1_TRACKED_BYTES.load(Ordering::SeqCst));
}

pub fn run(args: &[String]) -> i32 {
    let seed = seed_from_env();
    let thorough = tier_thorough();
    let mut rng = Rng::new(seed);
    println!("hseq recycle seed={} thorough={}", seed, thorough);
    if args.first().map(|s| s.as_str()) == Some("pattern") {
        let v: Vec<usize> = args[1..].iter().filter_map(|s| s.parse().ok()).collect();
        if v.len() == 5 {
            run_pattern(v[0], v[1], v[2], v[3], v[4], &mut rng);
            return 0;
        }
        return 2;
    }
    let n: usize = args.first().and_then(|s| s.parse().ok()).unwrap_or(if thorough { 100000 } else { 1000 });
    let caps = [0usize, 16, 1024, 65536];
    let ms = [16usize, 100, 4096, 70000];
    for c0 in caps {
        for mm in ms {
            for style in 0..11 {
                for window in [0usize, 2] {
                    if !thorough && (c0 + mm + style + window) % 3 != 0 {
                        continue;
                    }
                    run_pattern(c0, mm, style, window, n, &mut rng);
                    if thorough && style % 3 == 0 && window == 0 {
                        run_pattern(c0, mm, style, window, n * 10, &mut rng);
                    }
                }
            }
        }
    }
    0
}
