//! C11 / C12 (write side) stream: BufMut target trees over the real crate types.
//! Description syntax (shared with the Lean model):
//!   vec PRE CAP | bmut PRE CAP | slice N | uninit N | chain A B | limit n T | ref T | box T
//! State syntax printed after every op:
//!   grow vec|bmut PRE WRITTEN SPARE | fixed slice|uninit WRITTEN ROOM | chain .. | limit n .. | ref .. | box ..
use crate::tree;
use crate::util::*;
use bytes::buf::{Chain, Limit, UninitSlice};
use bytes::{Buf, BufMut, BytesMut};
use std::io::Write;
use std::mem::MaybeUninit;
use std::panic::{catch_unwind, AssertUnwindSafe};

pub trait MNode: BufMut {
    fn describe(&self) -> String;
    /// guard bytes around fixed-size targets intact, unwritten room still holds the fill pattern
    fn guards_ok(&self) -> bool {
        true
    }
    /// the same description, taking the tree apart through the adapters' `into_inner()` / `*_mut()` accessors (after the last op)
    fn describe_into(self: Box<Self>) -> String {
        self.describe()
    }
    /// `BufMut::put(src)` with `Self` = the concrete type (so overrides are used)
    fn put_buf(&mut self, src: tree::N);
    fn set_limit(&mut self, _n: usize) -> bool {
        false
    }
    /// the write ops with `Self` = the concrete type, so that the type's own overrides of
    /// put_slice / put_bytes / put_X are the ones that run (`Box<dyn BufMut>` only forwards some)
    fn write_op(&mut self, op: &WOp) -> Option<()>;
}
/// A boxed node that forwards EVERY `BufMut` method to the concrete node (the crate's own `impl BufMut for Box<T>` forwards
/// only some of them — e.g. not `has_remaining_mut` / `put_bytes` — which would hide an adapter's overrides from the adapters
/// built on top of it; that impl is exercised separately by the `box` node).
pub struct MN(pub Box<dyn MNode>);

pub enum WOp<'a> {
    Slice(&'a [u8]),
    Bytes(u8, usize),
    Put(&'a str, &'a str, usize),
}

/// The same write as `put_slice(b)` through the raw entry points of a fixed-size target (whose `chunk_mut()` has no side effect):
/// `UninitSlice::{write_byte, copy_from_slice, as_uninit_slice_mut, as_mut_ptr}` and range indexing, then `advance_mut`.
/// Returns false (nothing done) when the slice does not fit the current chunk — the caller then takes the ordinary path, which panics.
fn write_via_uninit<T: BufMut + ?Sized>(t: &mut T, b: &[u8]) -> bool {
    let n = b.len();
    {
        let c = t.chunk_mut();
        if n == 0 || c.len() < n {
            return false;
        }
        match n % 4 {
            0 => c[..n].copy_from_slice(b),
            1 => {
                for (i, x) in b.iter().enumerate() {
                    c.write_byte(i, *x);
                }
            }
            2 => {
                let u = unsafe { c[0..n].as_uninit_slice_mut() };
                for (i, x) in b.iter().enumerate() {
                    u[i] = MaybeUninit::new(*x);
                }
            }
            _ => {
                let sub = &mut c[..=n - 1];
                assert_eq!(sub.len(), n, "UninitSlice range indexing returned a slice of the wrong length");
                unsafe { std::ptr::copy_nonoverlapping(b.as_ptr(), sub.as_mut_ptr(), n) };
            }
        }
    }
    unsafe { t.advance_mut(n) };
    true
}

fn write_op_on<T: BufMut + ?Sized>(t: &mut T, op: &WOp) -> Option<()> {
    match op {
        WOp::Slice(b) => {
            t.put_slice(b);
            Some(())
        }
        WOp::Bytes(v, c) => {
            t.put_bytes(*v, *c);
            Some(())
        }
        WOp::Put(name, val, nb) => call_putter(t, name, val, *nb),
    }
}

#[macro_export]
macro_rules! for_all_putters {
    ($cb:ident) => {
        $cb! {
            fixed: (put_u8, u8), (put_i8, i8),
                (put_u16, u16), (put_u16_le, u16), (put_u16_ne, u16), (put_i16, i16), (put_i16_le, i16), (put_i16_ne, i16),
                (put_u32, u32), (put_u32_le, u32), (put_u32_ne, u32), (put_i32, i32), (put_i32_le, i32), (put_i32_ne, i32),
                (put_u64, u64), (put_u64_le, u64), (put_u64_ne, u64), (put_i64, i64), (put_i64_le, i64), (put_i64_ne, i64),
                (put_u128, u128), (put_u128_le, u128), (put_u128_ne, u128), (put_i128, i128), (put_i128_le, i128), (put_i128_ne, i128),
                (put_f32, f32), (put_f32_le, f32), (put_f32_ne, f32), (put_f64, f64), (put_f64_le, f64), (put_f64_ne, f64);
            var: (put_uint, u64), (put_uint_le, u64), (put_uint_ne, u64), (put_int, i64), (put_int_le, i64), (put_int_ne, i64)
        }
    };
}

macro_rules! delegate_putters {
    (fixed: $(($p:ident, $ty:ty)),* ; var: $(($vp:ident, $vty:ty)),*) => {
        $( fn $p(&mut self, n: $ty) { BufMut::$p(&mut self.0, n) } )*
        $( fn $vp(&mut self, n: $vty, nbytes: usize) { BufMut::$vp(&mut self.0, n, nbytes) } )*
    };
}

macro_rules! delegate_bufmut {
    ($t:ty) => {
        unsafe impl BufMut for $t {
            fn remaining_mut(&self) -> usize {
                BufMut::remaining_mut(&self.0)
            }
            unsafe fn advance_mut(&mut self, cnt: usize) {
                BufMut::advance_mut(&mut self.0, cnt)
            }
            fn has_remaining_mut(&self) -> bool {
                BufMut::has_remaining_mut(&self.0)
            }
            fn chunk_mut(&mut self) -> &mut UninitSlice {
                BufMut::chunk_mut(&mut self.0)
            }
            fn put_slice(&mut self, src: &[u8]) {
                BufMut::put_slice(&mut self.0, src)
            }
            fn put_bytes(&mut self, val: u8, cnt: usize) {
                BufMut::put_bytes(&mut self.0, val, cnt)
            }
            for_all_putters!(delegate_putters);
        }
    };
}

macro_rules! delegate_putters_dyn {
    (fixed: $(($p:ident, $ty:ty)),* ; var: $(($vp:ident, $vty:ty)),*) => {
        $( fn $p(&mut self, n: $ty) { BufMut::$p(&mut *self.0, n) } )*
        $( fn $vp(&mut self, n: $vty, nbytes: usize) { BufMut::$vp(&mut *self.0, n, nbytes) } )*
    };
}
unsafe impl BufMut for MN {
    fn remaining_mut(&self) -> usize {
        BufMut::remaining_mut(&*self.0)
    }
    unsafe fn advance_mut(&mut self, cnt: usize) {
        BufMut::advance_mut(&mut *self.0, cnt)
    }
    fn has_remaining_mut(&self) -> bool {
        BufMut::has_remaining_mut(&*self.0)
    }
    fn chunk_mut(&mut self) -> &mut UninitSlice {
        BufMut::chunk_mut(&mut *self.0)
    }
    fn put_slice(&mut self, src: &[u8]) {
        BufMut::put_slice(&mut *self.0, src)
    }
    fn put_bytes(&mut self, val: u8, cnt: usize) {
        BufMut::put_bytes(&mut *self.0, val, cnt)
    }
    for_all_putters!(delegate_putters_dyn);
}
impl MNode for MN {
    fn describe(&self) -> String {
        self.0.describe()
    }
    fn describe_into(self: Box<Self>) -> String {
        self.0.describe_into()
    }
    fn guards_ok(&self) -> bool {
        self.0.guards_ok()
    }
    fn put_buf(&mut self, src: tree::N) {
        self.0.put_buf(src)
    }
    fn set_limit(&mut self, n: usize) -> bool {
        self.0.set_limit(n)
    }
    fn write_op(&mut self, op: &WOp) -> Option<()> {
        self.0.write_op(op)
    }
}

pub struct VecNode(pub Vec<u8>, pub usize);
delegate_bufmut!(VecNode);
impl MNode for VecNode {
    fn describe(&self) -> String {
        format!("grow vec {} {} {}", hex(&self.0[..self.1]), hex(&self.0[self.1..]), self.0.capacity() - self.0.len())
    }
    fn write_op(&mut self, op: &WOp) -> Option<()> {
        write_op_on(&mut self.0, op)
    }
    fn put_buf(&mut self, src: tree::N) {
        BufMut::put(&mut self.0, src)
    }
}

pub struct BmNode(pub BytesMut, pub usize);
delegate_bufmut!(BmNode);
impl MNode for BmNode {
    fn describe(&self) -> String {
        format!("grow bmut {} {} {}", hex(&self.0[..self.1]), hex(&self.0[self.1..]), self.0.capacity() - self.0.len())
    }
    fn write_op(&mut self, op: &WOp) -> Option<()> {
        write_op_on(&mut self.0, op)
    }
    fn put_buf(&mut self, src: tree::N) {
        BufMut::put(&mut self.0, src)
    }
}

const GUARD: usize = 8;
const FILL: u8 = 0xEE;

/// `&mut [u8]` target inside a leaked backing buffer with guard zones.
pub struct SliceNode(pub &'static mut [u8], *const u8, usize);
delegate_bufmut!(SliceNode);
fn fixed_state(kind: &str, base: *const u8, total: usize, room: usize) -> (String, bool) {
    let all = unsafe { std::slice::from_raw_parts(base, total + 2 * GUARD) };
    let written = &all[GUARD..GUARD + (total - room)];
    let ok = all[..GUARD].iter().all(|b| *b == 0xA5)
        && all[GUARD + total..].iter().all(|b| *b == 0x5A)
        && all[GUARD + total - room..GUARD + total].iter().all(|b| *b == FILL);
    (format!("fixed {} {} {}", kind, hex(written), room), ok)
}
impl MNode for SliceNode {
    fn describe(&self) -> String {
        fixed_state("slice", self.1, self.2, self.0.len()).0
    }
    fn guards_ok(&self) -> bool {
        fixed_state("slice", self.1, self.2, self.0.len()).1
    }
    fn write_op(&mut self, op: &WOp) -> Option<()> {
        // every other slice write goes through the raw UninitSlice entry points instead of put_slice
        if let WOp::Slice(b) = op {
            if b.first().map_or(false, |x| x % 2 == 1) && write_via_uninit(&mut self.0, b) {
                return Some(());
            }
        }
        write_op_on(&mut self.0, op)
    }
    fn put_buf(&mut self, src: tree::N) {
        BufMut::put(&mut self.0, src)
    }
}

pub struct UninitNode(pub &'static mut [MaybeUninit<u8>], *const u8, usize);
delegate_bufmut!(UninitNode);
impl MNode for UninitNode {
    fn describe(&self) -> String {
        fixed_state("uninit", self.1, self.2, self.0.len()).0
    }
    fn guards_ok(&self) -> bool {
        fixed_state("uninit", self.1, self.2, self.0.len()).1
    }
    fn write_op(&mut self, op: &WOp) -> Option<()> {
        // every other slice write goes through the raw UninitSlice entry points instead of put_slice
        if let WOp::Slice(b) = op {
            if b.first().map_or(false, |x| x % 2 == 1) && write_via_uninit(&mut self.0, b) {
                return Some(());
            }
        }
        write_op_on(&mut self.0, op)
    }
    fn put_buf(&mut self, src: tree::N) {
        BufMut::put(&mut self.0, src)
    }
}

fn backing(n: usize) -> (*mut u8, usize) {
    let mut v = vec![0xA5u8; GUARD];
    v.extend(std::iter::repeat(FILL).take(n));
    v.extend(std::iter::repeat(0x5Au8).take(GUARD));
    let b: &'static mut [u8] = Box::leak(v.into_boxed_slice());
    (b.as_mut_ptr(), n)
}

impl MNode for Chain<MN, MN> {
    fn describe(&self) -> String {
        format!("chain {} {}", self.first_ref().describe(), self.last_ref().describe())
    }
    fn describe_into(mut self: Box<Self>) -> String {
        let via_mut = format!("chain {} {}", Chain::first_mut(&mut *self).describe(), Chain::last_mut(&mut *self).describe());
        let (a, b) = Chain::into_inner(*self);
        let via_inner = format!("chain {} {}", a.0.describe_into(), b.0.describe_into());
        if via_mut == via_inner { via_inner } else { format!("ACCESSORS-DISAGREE {} | {}", via_mut, via_inner) }
    }
    fn guards_ok(&self) -> bool {
        self.first_ref().guards_ok() && self.last_ref().guards_ok()
    }
    fn write_op(&mut self, op: &WOp) -> Option<()> {
        write_op_on(self, op)
    }
    fn put_buf(&mut self, src: tree::N) {
        BufMut::put(self, src)
    }
}
impl MNode for Limit<MN> {
    fn describe(&self) -> String {
        format!("limit {} {}", self.limit(), self.get_ref().describe())
    }
    fn describe_into(mut self: Box<Self>) -> String {
        let lim = Limit::limit(&*self);
        let via_mut = format!("limit {} {}", lim, Limit::get_mut(&mut *self).describe());
        let via_inner = format!("limit {} {}", lim, Limit::into_inner(*self).0.describe_into());
        if via_mut == via_inner { via_inner } else { format!("ACCESSORS-DISAGREE {} | {}", via_mut, via_inner) }
    }
    fn guards_ok(&self) -> bool {
        self.get_ref().guards_ok()
    }
    fn write_op(&mut self, op: &WOp) -> Option<()> {
        write_op_on(self, op)
    }
    fn put_buf(&mut self, src: tree::N) {
        BufMut::put(self, src)
    }
    fn set_limit(&mut self, n: usize) -> bool {
        Limit::set_limit(self, n);
        true
    }
}

/// `&mut T` wrapper: every method goes through the crate's `unsafe impl BufMut for &mut T`.
pub struct RefMutM(pub &'static mut MN);
delegate_bufmut!(RefMutM);
impl MNode for RefMutM {
    fn describe(&self) -> String {
        format!("ref {}", self.0.describe())
    }
    fn guards_ok(&self) -> bool {
        self.0.guards_ok()
    }
    fn write_op(&mut self, op: &WOp) -> Option<()> {
        write_op_on(&mut self.0, op)
    }
    fn put_buf(&mut self, src: tree::N) {
        BufMut::put(&mut self.0, src)
    }
}
/// `Box<T>` wrapper.
pub struct BoxedM(pub Box<MN>);
delegate_bufmut!(BoxedM);
impl MNode for BoxedM {
    fn describe(&self) -> String {
        format!("box {}", self.0.describe())
    }
    fn guards_ok(&self) -> bool {
        self.0.guards_ok()
    }
    fn write_op(&mut self, op: &WOp) -> Option<()> {
        write_op_on(&mut self.0, op)
    }
    fn put_buf(&mut self, src: tree::N) {
        BufMut::put(&mut self.0, src)
    }
}

pub fn parse(tokens: &mut std::slice::Iter<'_, &str>) -> Option<MN> {
    let t = *tokens.next()?;
    Some(match t {
        "vec" => {
            let pre = unhex(tokens.next()?)?;
            let cap: usize = tokens.next()?.parse().ok()?;
            let mut v = Vec::with_capacity(cap.max(pre.len()));
            v.extend_from_slice(&pre);
            MN(Box::new(VecNode(v, pre.len())))
        }
        "bmut" => {
            let pre = unhex(tokens.next()?)?;
            let cap: usize = tokens.next()?.parse().ok()?;
            let mut v = BytesMut::with_capacity(cap.max(pre.len()));
            v.extend_from_slice(&pre);
            MN(Box::new(BmNode(v, pre.len())))
        }
        "slice" => {
            let n: usize = tokens.next()?.parse().ok()?;
            let (p, n) = backing(n);
            let s: &'static mut [u8] = unsafe { std::slice::from_raw_parts_mut(p.add(GUARD), n) };
            MN(Box::new(SliceNode(s, p, n)))
        }
        "uninit" => {
            let n: usize = tokens.next()?.parse().ok()?;
            let (p, n) = backing(n);
            let s: &'static mut [MaybeUninit<u8>] = unsafe { std::slice::from_raw_parts_mut(p.add(GUARD) as *mut MaybeUninit<u8>, n) };
            MN(Box::new(UninitNode(s, p, n)))
        }
        "chain" => {
            let a = parse(tokens)?;
            let b = parse(tokens)?;
            MN(Box::new(a.chain_mut(b)))
        }
        "limit" => {
            let n: usize = tokens.next()?.parse().ok()?;
            let i = parse(tokens)?;
            MN(Box::new(i.limit(n)))
        }
        "ref" => MN(Box::new(RefMutM(Box::leak(Box::new(parse(tokens)?))))),
        "box" => MN(Box::new(BoxedM(Box::new(parse(tokens)?)))),
        _ => return None,
    })
}

trait FromJudge: Sized {
    fn parse(s: &str) -> Option<Self>;
}
macro_rules! from_int { ($($t:ty),*) => { $( impl FromJudge for $t { fn parse(s: &str) -> Option<Self> { s.parse::<i128>().ok().map(|v| v as $t).or_else(|| s.parse::<u128>().ok().map(|v| v as $t)) } } )* } }
from_int!(u8, i8, u16, i16, u32, i32, u64, i64, u128, i128);
impl FromJudge for f32 {
    fn parse(s: &str) -> Option<Self> {
        s.parse::<u32>().ok().map(f32::from_bits)
    }
}
impl FromJudge for f64 {
    fn parse(s: &str) -> Option<Self> {
        s.parse::<u64>().ok().map(f64::from_bits)
    }
}

macro_rules! put_dispatch {
    (fixed: $(($p:ident, $ty:ty)),* ; var: $(($vp:ident, $vty:ty)),*) => {
        fn call_putter<T: BufMut + ?Sized>(t: &mut T, name: &str, val: &str, nbytes: usize) -> Option<()> {
            $( if name == stringify!($p) { t.$p(<$ty as FromJudge>::parse(val)?); return Some(()); } )*
            $( if name == stringify!($vp) { t.$vp(<$vty as FromJudge>::parse(val)?, nbytes); return Some(()); } )*
            None
        }
        pub const FIXED_PUTTERS: &[(&str, usize, bool, bool)] = &[ $( (stringify!($p), std::mem::size_of::<$ty>(), (<$ty>::MIN as f64) < 0.0, stringify!($ty).as_bytes()[0] == b'f') ),* ];
        pub const VAR_PUTTERS: &[(&str, bool)] = &[ $( (stringify!($vp), (<$vty>::MIN as f64) < 0.0) ),* ];
    };
}
for_all_putters!(put_dispatch);

fn exec(t: &mut MN, op: &[&str]) -> Option<String> {
    let num = |i: usize| -> Option<usize> { op.get(i)?.parse().ok() };
    Some(match *op.first()? {
        "remmut" => t.remaining_mut().to_string(),
        "chunkmut" => t.chunk_mut().len().to_string(),
        "putslice" => {
            t.write_op(&WOp::Slice(&unhex(op.get(1)?)?))?;
            "ok".into()
        }
        "putbytes" => {
            t.write_op(&WOp::Bytes(num(1)? as u8, num(2)?))?;
            "ok".into()
        }
        "putbuf" => {
            let mut it = op[1..].iter();
            let src = tree::parse(&mut it)?;
            t.put_buf(src);
            "ok".into()
        }
        "put" => {
            let nb = op.get(3).and_then(|s| s.parse().ok()).unwrap_or(0);
            t.write_op(&WOp::Put(op.get(1)?, op.get(2)?, nb))?;
            "ok".into()
        }
        "write" => {
            let src = unhex(op.get(1)?)?;
            match (&mut *t).writer().write(&src) {
                Ok(n) => n.to_string(),
                Err(_) => "ioerr".into(),
            }
        }
        "flush" => match (&mut *t).writer().flush() {
            Ok(()) => "ok".into(),
            Err(_) => "ioerr".into(),
        },
        "setlimit" => {
            if t.set_limit(num(1)?) {
                "ok".into()
            } else {
                "na".into()
            }
        }
        _ => return None,
    })
}

pub fn run_case(desc: &str, ops: &[String]) {
    let toks: Vec<&str> = desc.split_whitespace().collect();
    let mut it = toks.iter();
    let mut t = match parse(&mut it) {
        Some(t) if it.next().is_none() => t,
        _ => {
            println!("bad-case {}", desc);
            return;
        }
    };
    println!("m {}", desc);
    println!("st {} g={}", t.describe(), t.guards_ok() as u8);
    for (k, op) in ops.iter().enumerate() {
        let w: Vec<&str> = op.split_whitespace().collect();
        println!("try {}", op);
        match catch_unwind(AssertUnwindSafe(|| exec(&mut t, &w))) {
            Ok(Some(r)) => {
                println!("o {} -> {}", op, r);
                if k + 1 == ops.len() {
                    // after the last op the state is read by taking the adapters apart (into_inner, first_mut / last_mut, get_mut)
                    let g = t.guards_ok() as u8;
                    println!("st {} g={}", Box::new(t).describe_into(), g);
                    return;
                }
                println!("st {} g={}", t.describe(), t.guards_ok() as u8);
            }
            Ok(None) => {
                println!("bad-op {}", op);
                return;
            }
            Err(_) => {
                // the state after a panic is still observed: nothing outside the writable region may change
                println!("o {} -> panic", op);
                println!("pst {} g={}", t.describe(), t.guards_ok() as u8);
                return;
            }
        }
    }
}

// ------------------------------------------------------------------------------------------
// generators
// ------------------------------------------------------------------------------------------

fn gen_target(rng: &mut Rng, depth: usize) -> String {
    if depth == 0 || rng.chance(1, 3) {
        return match rng.below(4) {
            0 => {
                let pre = rng.bytes_below(3);
                format!("vec {} {}", hex(&pre), pre.len() + *rng.pick(&[0usize, 1, 3, 70]))
            }
            1 => {
                let pre = rng.bytes_below(3);
                format!("bmut {} {}", hex(&pre), pre.len() + *rng.pick(&[0usize, 1, 3, 70]))
            }
            2 => format!("slice {}", rng.pick(&[0usize, 1, 2, 5, 9, 20])),
            _ => format!("uninit {}", rng.pick(&[0usize, 1, 2, 5, 9, 20])),
        };
    }
    match rng.below(5) {
        0 | 1 => {
            // the first half is fixed-size most of the time so that writes reach the second
            let a = if rng.chance(4, 5) {
                let inner = format!("{} {}", rng.pick(&["slice", "uninit"]), rng.pick(&[0usize, 1, 2, 3, 7]));
                match rng.below(4) {
                    0 => format!("ref {}", inner),
                    1 => format!("limit {} {}", rng.below(5), inner),
                    _ => inner,
                }
            } else {
                gen_target(rng, depth - 1)
            };
            format!("chain {} {}", a, gen_target(rng, depth - 1))
        }
        2 => format!("limit {} {}", rng.pick(&[0usize, 1, 3, 6, 17, usize::MAX]), gen_target(rng, depth - 1)),
        3 => format!("ref {}", gen_target(rng, depth - 1)),
        _ => format!("box {}", gen_target(rng, depth - 1)),
    }
}

fn boundary_values(size_bits: u32, signed: bool, float: bool, rng: &mut Rng) -> Vec<String> {
    if float {
        let max = if size_bits == 32 { u32::MAX as u128 } else { u64::MAX as u128 };
        return vec!["0".into(), "1".into(), max.to_string(), (max / 3).to_string(), (rng.next() as u128 & max).to_string()];
    }
    if size_bits == 0 {
        return vec!["0".into()];
    }
    if signed {
        let min = -(1i128 << (size_bits - 1).min(126)) - if size_bits == 128 { 1i128 << 126 } else { 0 };
        let max = if size_bits == 128 { i128::MAX } else { (1i128 << (size_bits - 1)) - 1 };
        let r = (rng.next() as i128) % (max / 2 + 1);
        vec!["0".into(), "1".into(), "-1".into(), min.to_string(), max.to_string(), r.to_string(), (-r - 2).max(min).to_string()]
    } else {
        let max = if size_bits == 128 { u128::MAX } else { (1u128 << size_bits) - 1 };
        vec!["0".into(), "1".into(), max.to_string(), (max / 2 + 1).to_string(), ((rng.next() as u128) & max).to_string()]
    }
}

fn src_trees() -> Vec<&'static str> {
    vec!["slice -", "slice 0102", "seg 3 01 - 0203", "chain bytes 0a0b take 2 mut 0c0d0e", "deque 01 0203", "cursor 090807 1", "seg 4 01 02 03 04"]
}

fn put_cases(rng: &mut Rng, thorough: bool) {
    let mut targets: Vec<String> = Vec::new();
    for l in ["vec - 0", "vec 0909 2", "vec - 3", "vec 01 80", "bmut - 0", "bmut 0909 2", "bmut - 3", "bmut 01 80",
              "slice 0", "slice 1", "slice 2", "slice 5", "slice 20", "uninit 0", "uninit 1", "uninit 5", "uninit 20"] {
        targets.push(l.to_string());
        targets.push(format!("ref {}", l));
        targets.push(format!("box {}", l));
        for lim in [0usize, 1, 4, 19, 20, 21, usize::MAX] {
            targets.push(format!("limit {} {}", lim, l));
        }
        for a in ["slice 0", "slice 1", "slice 3", "uninit 2", "limit 2 slice 5", "ref uninit 3", "limit 9 slice 3", "limit 18446744073709551615 uninit 2",
                  "box limit 4 slice 4"] {
            targets.push(format!("chain {} {}", a, l));
        }
    }
    for _ in 0..(if thorough { 3000 } else { 400 }) {
        targets.push(gen_target(rng, 3));
    }
    for t in &targets {
        // observation + sequences of raw writes of growing size (straddle chunk ends, trigger growth, overflow)
        run_case(t, &["remmut".into(), "chunkmut".into(), "remmut".into()]);
        for first in 0..7usize {
            let mut ops = vec![format!("putslice {}", hex(&rng.bytes(first))), "remmut".into(), "chunkmut".into()];
            ops.push(format!("putbytes {} {}", rng.below(256), rng.below(6)));
            ops.push(format!("write {}", hex(&rng.bytes_below(9))));
            ops.push(format!("putslice {}", hex(&rng.bytes_below(30))));
            ops.push("remmut".into());
            ops.push("flush".into());
            run_case(t, &ops);
        }
        for s in src_trees() {
            run_case(t, &[format!("putbuf {}", s), "remmut".into(), format!("putbuf {}", s)]);
            run_case(t, &["putslice 07".into(), format!("putbuf {}", s), "chunkmut".into()]);
        }
        run_case(t, &["setlimit 2".into(), "putslice 0102".into(), "remmut".into(), "setlimit 1".into(), "write 030405".into()]);
    }
    // every put method x boundary values x nbytes x fill levels of fixed and growable targets
    let small_targets = |size: usize| -> Vec<String> {
        let mut v = vec![
            "vec - 0".to_string(), format!("vec 09 {}", size), "bmut - 0".to_string(), format!("bmut - {}", size + 1),
            format!("slice {}", size), format!("slice {}", size + 2), format!("uninit {}", size),
            format!("ref slice {}", size + 1), format!("box uninit {}", size), format!("limit {} vec - 0", size),
            format!("limit {} slice {}", size, size + 3),
        ];
        for k in 0..=size {
            v.push(format!("chain slice {} uninit {}", k, size - k + 1));
        }
        if size > 0 {
            v.push(format!("slice {}", size - 1)); // does not fit
            v.push(format!("limit {} bmut - 0", size - 1));
            v.push(format!("chain uninit {} slice {}", size / 2, size - size / 2 - 1));
        }
        v
    };
    for (name, size, signed, float) in FIXED_PUTTERS {
        for val in boundary_values((*size * 8) as u32, *signed, *float, rng) {
            for t in small_targets(*size) {
                run_case(&t, &[format!("put {} {}", name, val), "remmut".into(), format!("put {} {}", name, val)]);
            }
        }
    }
    for (name, signed) in VAR_PUTTERS {
        for nb in 0..=9usize {
            // in-range values for nbytes plus full-width values (truncation)
            let mut vals = boundary_values((nb.min(8) * 8) as u32, *signed, false, rng);
            vals.extend(boundary_values(64, *signed, false, rng));
            for val in vals {
                for t in small_targets(nb.min(8)) {
                    run_case(&t, &[format!("put {} {} {}", name, val, nb), "remmut".into()]);
                }
            }
        }
    }
}

pub fn run(args: &[String]) -> i32 {
    let seed = seed_from_env();
    let thorough = tier_thorough();
    let mut rng = Rng::new(seed);
    std::panic::set_hook(Box::new(|_| {}));
    if args.first().map(|s| s.as_str()) == Some("replay") {
        let text = std::fs::read_to_string(&args[1]).unwrap_or_default();
        let mut desc: Option<String> = None;
        let mut ops: Vec<String> = Vec::new();
        for line in text.lines() {
            if let Some(d) = line.strip_prefix("m ") {
                if let Some(dd) = desc.take() {
                    run_case(&dd, &ops);
                    ops.clear();
                }
                desc = Some(d.trim().to_string());
            } else if let Some(o) = line.strip_prefix("o ") {
                ops.push(o.split(" -> ").next().unwrap().trim().to_string());
            }
        }
        if let Some(dd) = desc {
            run_case(&dd, &ops);
        }
        return 0;
    }
    put_cases(&mut rng, thorough);
    0
}
