//! C15 stream: Debug / {:x} / {:X} of every representation on all single bytes, all byte pairs,
//! random longer strings; serde entry points through serde_test token streams (feature `serde`).
use crate::reprs::*;
use crate::util::*;
use bytes::{Bytes, BytesMut};

/// formatting must not panic either: a panic is reported in place of the output
fn guarded<F: FnOnce() -> String>(f: F) -> Option<String> {
    std::panic::catch_unwind(std::panic::AssertUnwindSafe(f)).ok()
}

fn emit(x: &[u8], k: usize) {
    let mut kb = Vec::new();
    let mut km = Vec::new();
    // every fourth case formats with the alternate / width flags: the output must still be the same literal / digits
    let alt = k % 4 == 3;
    let (ty, d, lo, up) = if k % 3 != 2 {
        let v = mk_bytes(x, k / 3, &mut kb);
        if alt {
            ("Bytes", guarded(|| format!("{:#?}", v)), guarded(|| format!("{:#x}", v)), guarded(|| format!("{:#X}", v)))
        } else {
            ("Bytes", guarded(|| format!("{:?}", v)), guarded(|| format!("{:x}", v)), guarded(|| format!("{:X}", v)))
        }
    } else {
        let v = mk_mut(x, k / 3, &mut km);
        if alt {
            ("BytesMut", guarded(|| format!("{:#?}", v)), guarded(|| format!("{:#x}", v)), guarded(|| format!("{:#X}", v)))
        } else {
            ("BytesMut", guarded(|| format!("{:?}", v)), guarded(|| format!("{:x}", v)), guarded(|| format!("{:X}", v)))
        }
    };
    match d {
        Some(d) => println!("d {} {} {}", ty, hex(x), hex(d.as_bytes())),
        None => println!("d {} {} PANIC", ty, hex(x)),
    }
    match (lo, up) {
        (Some(lo), Some(up)) => println!("x {} {} {} {}", ty, hex(x), hex(lo.as_bytes()), hex(up.as_bytes())),
        _ => println!("x {} {} PANIC PANIC", ty, hex(x)),
    }
}

pub fn run(args: &[String]) -> i32 {
    std::panic::set_hook(Box::new(|_| {}));
    let seed = seed_from_env();
    let thorough = tier_thorough();
    let mut rng = Rng::new(seed);
    if let Some(h) = args.first() {
        // replay of one contents string in every representation
        let x = match unhex(h) {
            Some(x) => x,
            None => return 2,
        };
        for k in 0..(3 * BYTES_REPRS) {
            emit(&x, k);
        }
        serde_cases(&[x]);
        return 0;
    }
    let mut k = seed as usize;
    emit(&[], 0);
    emit(&[], 2);
    for a in 0..=255u8 {
        for r in 0..6 {
            emit(&[a], k + r);
        }
        k += 1;
    }
    for a in 0..=255u8 {
        for b in 0..=255u8 {
            emit(&[a, b], k);
            k += 1;
        }
    }
    let n = if thorough { 20000 } else { 1500 };
    let mut long = Vec::new();
    for i in 0..n {
        let len = rng.range(3, if i % 50 == 0 { 300 } else { 24 }) as usize;
        let x: Vec<u8> = match i % 3 {
            0 => rng.bytes(len),
            1 => (0..len).map(|_| *rng.pick(b"\0\n\r\t\\\"'0123456789abcxXfF\x7f\x80\xff\x1f ~")).collect(),
            _ => (0..len).map(|_| rng.range(0x20, 0x7e) as u8).collect(),
        };
        emit(&x, k);
        k += 1;
        if i % 10 == 0 {
            long.push(x);
        }
    }
    // lengths around the sizes an implementation might buffer at (powers of two ± a few): a run of printable bytes followed by
    // each kind of escape, so that an escape straddles the would-be boundary at every alignment
    for base in [32usize, 64, 128, 256, 512, 1024, 4096] {
        for d in 0..9usize {
            let l = base + d - 6;
            for tail in [&[0x80u8][..], b"\n", b"\0", b"\"", b"\\", &[0xff, 0x00, 0x7f][..], b"z"] {
                let mut x: Vec<u8> = (0..l).map(|i| b'a' + (i % 26) as u8).collect();
                x.extend_from_slice(tail);
                emit(&x, k);
                k += 1;
            }
        }
        // all-escape strings of such lengths (every byte becomes four characters)
        let x: Vec<u8> = (0..base / 4 + 3).map(|i| 0x80 + (i % 100) as u8).collect();
        emit(&x, k);
        k += 1;
    }
    let mut cases: Vec<Vec<u8>> = vec![vec![]];
    cases.extend((0..=255u8).map(|a| vec![a]));
    cases.extend(long);
    // sequences around the visitor's 4096-element preallocation clamp
    for n in [4095usize, 4096, 4097, 5000] {
        cases.push((0..n).map(|i| (i * 7) as u8).collect());
    }
    serde_cases(&cases);
    0
}

#[cfg(not(feature = "serde"))]
fn serde_cases(_cases: &[Vec<u8>]) {}

#[cfg(feature = "serde")]
fn serde_cases(cases: &[Vec<u8>]) {
    use serde_test::{assert_de_tokens, assert_ser_tokens, Token};
    use std::panic::catch_unwind;
    fn leak(x: &[u8]) -> &'static [u8] {
        Box::leak(x.to_vec().into_boxed_slice())
    }
    fn res(r: std::thread::Result<()>) -> &'static str {
        if r.is_ok() {
            "ok"
        } else {
            "mismatch"
        }
    }
    std::panic::set_hook(Box::new(|_| {}));
    for (i, x) in cases.iter().enumerate() {
        let l = leak(x);
        let mut seq = vec![Token::Seq { len: if i % 2 == 0 { Some(x.len()) } else { None } }];
        seq.extend(x.iter().map(|b| Token::U8(*b)));
        seq.push(Token::SeqEnd);
        let utf8 = std::str::from_utf8(x).ok().map(|s| &*Box::leak(s.to_string().into_boxed_str()));
        let mut kb = Vec::new();
        let mut km = Vec::new();
        let b = mk_bytes(x, i, &mut kb);
        let m = mk_mut(x, i, &mut km);
        println!("s Bytes serialize {} {}", hex(x), res(catch_unwind(|| assert_ser_tokens(&b, &[Token::Bytes(l)]))));
        println!("s BytesMut serialize {} {}", hex(x), res(catch_unwind(|| assert_ser_tokens(&m, &[Token::Bytes(l)]))));
        let eb = Bytes::copy_from_slice(x);
        let em = BytesMut::from(&x[..]);
        println!("s Bytes byte_buf {} {}", hex(x), res(catch_unwind(|| assert_de_tokens(&eb, &[Token::ByteBuf(l)]))));
        println!("s BytesMut byte_buf {} {}", hex(x), res(catch_unwind(|| assert_de_tokens(&em, &[Token::ByteBuf(l)]))));
        println!("s Bytes bytes {} {}", hex(x), res(catch_unwind(|| assert_de_tokens(&eb, &[Token::Bytes(l)]))));
        println!("s BytesMut bytes {} {}", hex(x), res(catch_unwind(|| assert_de_tokens(&em, &[Token::Bytes(l)]))));
        println!("s Bytes borrowed_bytes {} {}", hex(x), res(catch_unwind(|| assert_de_tokens(&eb, &[Token::BorrowedBytes(l)]))));
        println!("s BytesMut borrowed_bytes {} {}", hex(x), res(catch_unwind(|| assert_de_tokens(&em, &[Token::BorrowedBytes(l)]))));
        println!("s Bytes seq {} {}", hex(x), res(catch_unwind(|| assert_de_tokens(&eb, &seq))));
        println!("s BytesMut seq {} {}", hex(x), res(catch_unwind(|| assert_de_tokens(&em, &seq))));
        if let Some(s) = utf8 {
            println!("s Bytes str {} {}", hex(x), res(catch_unwind(|| assert_de_tokens(&eb, &[Token::Str(s)]))));
            println!("s BytesMut str {} {}", hex(x), res(catch_unwind(|| assert_de_tokens(&em, &[Token::Str(s)]))));
            println!("s Bytes string {} {}", hex(x), res(catch_unwind(|| assert_de_tokens(&eb, &[Token::String(s)]))));
            println!("s BytesMut string {} {}", hex(x), res(catch_unwind(|| assert_de_tokens(&em, &[Token::String(s)]))));
        }
    }
    let _ = std::panic::take_hook();
}
