//! C09 / C10 / C12 (read side) stream: cursor operations and typed getters on adapter trees.
//! Cases are generated as text (tree description + op list), then parsed and executed, so a replay
//! file goes through exactly the same path.
use crate::for_all_getters;
use crate::tree::*;
use crate::util::*;
use bytes::Buf;
use std::io::{BufRead, IoSlice, Read};
use std::panic::{catch_unwind, AssertUnwindSafe};

fn quiet<R>(f: impl FnOnce() -> R) -> std::thread::Result<R> {
    catch_unwind(AssertUnwindSafe(f))
}

macro_rules! get_dispatch {
    (fixed: $(($g:ident, $t:ident, $ty:ty)),* ; var: $(($vg:ident, $vt:ident, $vty:ty)),*) => {
        /// Returns None for an unknown method name.
        fn call_getter(b: &mut N, name: &str, nbytes: usize) -> Option<String> {
            $(
                if name == stringify!($g) { return Some(format!("v {}", <$ty as ToJudge>::show(b.$g()))); }
                if name == stringify!($t) {
                    return Some(match b.$t() {
                        Ok(v) => format!("v {}", <$ty as ToJudge>::show(v)),
                        Err(e) => format!("e {} {}", e.requested, e.available),
                    });
                }
            )*
            $(
                if name == stringify!($vg) { return Some(format!("v {}", <$vty as ToJudge>::show(b.$vg(nbytes)))); }
                if name == stringify!($vt) {
                    return Some(match b.$vt(nbytes) {
                        Ok(v) => format!("v {}", <$vty as ToJudge>::show(v)),
                        Err(e) => format!("e {} {}", e.requested, e.available),
                    });
                }
            )*
            None
        }
        pub const FIXED_GETTERS: &[(&str, &str, usize)] = &[ $( (stringify!($g), stringify!($t), std::mem::size_of::<$ty>()) ),* ];
        pub const VAR_GETTERS: &[(&str, &str)] = &[ $( (stringify!($vg), stringify!($vt)) ),* ];
    };
}

trait ToJudge {
    fn show(self) -> String;
}
macro_rules! show_int { ($($t:ty),*) => { $( impl ToJudge for $t { fn show(self) -> String { self.to_string() } } )* } }
show_int!(u8, i8, u16, i16, u32, i32, u64, i64, u128, i128);
impl ToJudge for f32 {
    fn show(self) -> String {
        self.to_bits().to_string()
    }
}
impl ToJudge for f64 {
    fn show(self) -> String {
        self.to_bits().to_string()
    }
}

for_all_getters!(get_dispatch);

/// Execute one op; returns the result text, or None if the op text is malformed.
fn exec(b: &mut N, op: &[&str]) -> Option<String> {
    let num = |i: usize| -> Option<usize> { op.get(i)?.parse().ok() };
    Some(match *op.first()? {
        "rem" => b.remaining().to_string(),
        "chunk" => hex(b.chunk()),
        "adv" => {
            b.advance(num(1)?);
            "ok".into()
        }
        "vec" => {
            let k = num(1)?;
            static SENTINEL: [u8; 1] = [0x5a];
            let mut dst: Vec<IoSlice<'_>> = (0..k).map(|_| IoSlice::new(&SENTINEL)).collect();
            let n = b.chunks_vectored(&mut dst);
            if n > k {
                return Some(format!("{} overflow", n));
            }
            let untouched = dst[n..].iter().all(|s| s.as_ptr() == SENTINEL.as_ptr() && s.len() == 1);
            let parts: Vec<String> = dst[..n].iter().map(|s| hex(s)).collect();
            format!("{} {} untouched={}", n, if parts.is_empty() { ".".to_string() } else { parts.join(",") }, untouched as u8)
        }
        "copy" => {
            let mut dst = vec![0u8; num(1)?];
            b.copy_to_slice(&mut dst);
            hex(&dst)
        }
        "trycopy" => {
            let mut dst = vec![0u8; num(1)?];
            match b.try_copy_to_slice(&mut dst) {
                Ok(()) => format!("ok {}", hex(&dst)),
                Err(e) => format!("err {} {}", e.requested, e.available),
            }
        }
        "tobytes" => hex(&b.copy_to_bytes(num(1)?)),
        "next" => match bytes::buf::IntoIter::new(&mut *b).next() {
            Some(x) => format!("some {}", x),
            None => "none".into(),
        },
        "nth" => match bytes::buf::IntoIter::new(&mut *b).nth(num(1)?) {
            Some(x) => format!("some {}", x),
            None => "none".into(),
        },
        "read" => {
            let mut dst = vec![0u8; num(1)?];
            match (&mut *b).reader().read(&mut dst) {
                Ok(n) => format!("{} {}", n, hex(&dst[..n])),
                Err(_) => "ioerr".into(),
            }
        }
        "fill" => match (&mut *b).reader().fill_buf() {
            Ok(s) => hex(s),
            Err(_) => "ioerr".into(),
        },
        "consume" => {
            (&mut *b).reader().consume(num(1)?);
            "ok".into()
        }
        "get" => {
            let nb = op.get(2).and_then(|s| s.parse().ok()).unwrap_or(0);
            call_getter(b, op.get(1)?, nb)?
        }
        "setlimit" => {
            if b.set_limit(num(1)?) {
                "ok".into()
            } else {
                "na".into()
            }
        }
        _ => return None,
    })
}

pub fn run_case(desc: &str, ops: &[String]) {
    let toks: Vec<&str> = desc.split_whitespace().collect();
    let mut it = toks.iter();
    let tree = match parse(&mut it) {
        Some(t) if it.next().is_none() => t,
        _ => {
            println!("bad-case {}", desc);
            return;
        }
    };
    println!("t {}", desc);
    let mut tree = Some(tree);
    for (k, op) in ops.iter().enumerate() {
        let w: Vec<&str> = op.split_whitespace().collect();
        println!("try {}", op); // a call that never returns (or kills the process) is attributed to this op
        match quiet(|| exec(tree.as_mut().unwrap(), &w)) {
            Ok(Some(r)) => {
                println!("o {} -> {}", op, r);
                if k + 1 == ops.len() {
                    // after the last op the state is read by taking the adapters apart (into_inner, first_mut / last_mut, get_mut)
                    println!("st {}", tree.take().unwrap().describe_into());
                } else {
                    println!("st {}", tree.as_ref().unwrap().describe());
                }
            }
            Ok(None) => {
                println!("bad-op {}", op);
                return;
            }
            Err(_) => {
                println!("o {} -> panic", op);
                return;
            }
        }
    }
}

// ------------------------------------------------------------------------------------------
// generators
// ------------------------------------------------------------------------------------------

fn leaves() -> Vec<(String, usize)> {
    // (description, denoted length)
    let mut v = vec![
        ("seg 2 01 0203".to_string(), 3),
        ("seg 4 - 0102 - 03".to_string(), 3),
        ("seg 1 -".to_string(), 0),
        ("seg 0".to_string(), 0),
        ("seg 1 0102030405".to_string(), 5),
        ("seg 3 0a 0b 0c".to_string(), 3),
        ("slice -".to_string(), 0),
        ("slice 07".to_string(), 1),
        ("slice 01020304".to_string(), 4),
        ("bytes -".to_string(), 0),
        ("bytes 0102ff".to_string(), 3),
        ("mut -".to_string(), 0),
        ("mut 80007f".to_string(), 3),
        ("cursor 09010203 1".to_string(), 3),
        ("cursor 0102 2".to_string(), 0),
        ("cursor 0102 5".to_string(), 0),
        ("cursor 0102 0".to_string(), 2),
        ("deque 0102 03".to_string(), 3),
        ("deque 01 -".to_string(), 1),
        ("deque - -".to_string(), 0),
        ("deque 01 020304".to_string(), 4),
    ];
    v.dedup();
    v
}

fn gen_tree(rng: &mut Rng, depth: usize) -> (String, usize) {
    let ls = leaves();
    if depth == 0 || rng.chance(1, 4) {
        if rng.chance(1, 3) {
            // random leaf
            let n = rng.below(7) as usize;
            let bytes = rng.bytes(n);
            return match rng.below(6) {
                0 => {
                    // random fragmentation with empty chunks
                    let mut chunks: Vec<String> = Vec::new();
                    let mut i = 0;
                    while i < n {
                        if rng.chance(1, 4) {
                            chunks.push("-".into());
                        }
                        let l = rng.range(1, (n - i) as u64) as usize;
                        chunks.push(hex(&bytes[i..i + l]));
                        i += l;
                    }
                    if rng.chance(1, 3) {
                        chunks.push("-".into());
                    }
                    (format!("seg {} {}", chunks.len(), chunks.join(" ")).trim().to_string(), n)
                }
                1 => (format!("slice {}", hex(&bytes)), n),
                2 => (format!("bytes {}", hex(&bytes)), n),
                3 => (format!("mut {}", hex(&bytes)), n),
                4 => {
                    let pos = rng.below(n as u64 + 2) as usize;
                    (format!("cursor {} {}", hex(&bytes), pos), n.saturating_sub(pos))
                }
                _ => {
                    let k = if n == 0 { 0 } else { rng.range(1, n as u64) as usize };
                    (format!("deque {} {}", hex(&bytes[..k]), hex(&bytes[k..])), n)
                }
            };
        }
        return rng.pick(&ls).clone();
    }
    match rng.below(5) {
        0 | 1 => {
            let (a, la) = gen_tree(rng, depth - 1);
            let (b, lb) = gen_tree(rng, depth - 1);
            (format!("chain {} {}", a, b), la + lb)
        }
        2 => {
            let (i, li) = gen_tree(rng, depth - 1);
            let lim = match rng.below(6) {
                0 => 0,
                1 => li,
                2 => li + 1,
                3 => usize::MAX,
                _ => rng.below(li as u64 + 1) as usize,
            };
            (format!("take {} {}", lim, i), li.min(lim))
        }
        3 => {
            let (i, li) = gen_tree(rng, depth - 1);
            (format!("ref {}", i), li)
        }
        _ => {
            let (i, li) = gen_tree(rng, depth - 1);
            (format!("box {}", i), li)
        }
    }
}

fn observe_ops() -> Vec<String> {
    vec!["rem".into(), "chunk".into(), "vec 0".into(), "vec 1".into(), "vec 3".into()]
}

fn cursor_cases(rng: &mut Rng, thorough: bool) {
    // systematic: depth <= 1 trees over the leaf set x every consuming op x every count
    let ls = leaves();
    let mut trees: Vec<(String, usize)> = ls.clone();
    for (l, n) in &ls {
        for lim in [0usize, 1, *n, n + 1, usize::MAX] {
            trees.push((format!("take {} {}", lim, l), (*n).min(lim)));
        }
        trees.push((format!("ref {}", l), *n));
        trees.push((format!("box {}", l), *n));
    }
    for (i, (a, la)) in ls.iter().enumerate() {
        for (j, (b, lb)) in ls.iter().enumerate() {
            if thorough || (i * 7 + j) % 5 == 0 {
                trees.push((format!("chain {} {}", a, b), la + lb));
            }
        }
    }
    let n_random = if thorough { 6000 } else { 700 };
    for _ in 0..n_random {
        trees.push(gen_tree(rng, 4));
    }
    let consuming = ["adv", "copy", "trycopy", "tobytes", "read", "consume", "nth"];
    for (t, len) in &trees {
        // observation-only script, with vec widths crossing Take's LEN = 16
        let mut ops = observe_ops();
        ops.extend(["vec 2", "vec 16", "vec 17", "vec 32", "fill"].iter().map(|s| s.to_string()));
        run_case(t, &ops);
        for op in consuming {
            for n in 0..=(*len + 1) {
                if !thorough && *len > 4 && n > 2 && n + 2 < *len && rng.chance(2, 3) {
                    continue;
                }
                let mut ops = vec![format!("{} {}", op, n), "rem".into(), "chunk".into(), "vec 4".into()];
                // then drain byte by byte, observing as we go
                for _ in 0..(len.saturating_sub(n) + 1).min(12) {
                    ops.push("next".into());
                }
                run_case(t, &ops);
            }
        }
        // mixed random scripts (several ops in sequence, set_limit in mid-stream)
        for _ in 0..2 {
            let mut ops = Vec::new();
            for _ in 0..rng.range(2, 6) {
                let n = rng.below(*len as u64 / 2 + 2);
                ops.push(match rng.below(10) {
                    0 => format!("adv {}", n),
                    1 => format!("copy {}", n),
                    2 => format!("trycopy {}", n),
                    3 => format!("tobytes {}", n),
                    4 => format!("read {}", n + 1),
                    5 => format!("consume {}", n),
                    6 => if rng.chance(1, 3) { format!("nth {}", rng.below(6)) } else { "next".to_string() },
                    7 => format!("vec {}", rng.pick(&[1usize, 2, 5, 16, 17, 40])),
                    8 => format!("setlimit {}", rng.below(*len as u64 + 2)),
                    _ => "chunk".to_string(),
                });
            }
            ops.push("rem".into());
            run_case(t, &ops);
        }
    }
    // many-chunk buffers to cross Take::chunks_vectored's LEN = 16 scratch array
    for n in [15usize, 16, 17, 20, 33] {
        let d9: Vec<String> = (0..n).map(|i| format!("deque {:02x} {:02x}", 2 * i, 2 * i + 1)).collect();
        let mut t = d9[n - 1].clone();
        for d in d9[..n - 1].iter().rev() {
            t = format!("chain {} {}", d, t);
        }
        for lim in [1usize, 31, 2 * n, usize::MAX] {
            for k in [1usize, 15, 16, 17, 32, 40, 80] {
                run_case(&format!("take {} {}", lim, t), &[format!("vec {}", k)]);
                run_case(&format!("chain take {} {} slice 2a", lim, t), &[format!("vec {}", k), "rem".into()]);
            }
        }
    }
}

fn patterns(size: usize, rng: &mut Rng) -> Vec<Vec<u8>> {
    let mut v = vec![
        vec![0xffu8; size],
        (0..size).map(|i| if i == 0 { 0x80 } else { 0 }).collect(),
        (0..size).map(|i| if i + 1 == size { 0x80 } else { 0 }).collect(),
        (0..size).map(|i| if i == 0 { 0x7f } else { 0xff }).collect(),
        (0..size).map(|i| (i + 1) as u8).collect(),
        vec![0u8; size],
    ];
    v.push(rng.bytes(size));
    v.dedup();
    v
}

fn shapes(bytes: &[u8], extra: &[u8], rng: &mut Rng, thorough: bool) -> Vec<String> {
    // buffers denoting bytes ++ extra, cut in every way around the value
    let all: Vec<u8> = [bytes, extra].concat();
    let s = bytes.len();
    let mut v = vec![
        format!("slice {}", hex(&all)),
        format!("bytes {}", hex(&all)),
        format!("mut {}", hex(&all)),
        format!("cursor {} 2", hex(&[&[9u8, 9][..], &all].concat())),
        format!("ref slice {}", hex(&all)),
        format!("box bytes {}", hex(&all)),
        format!("take {} slice {}", all.len(), hex(&[&all[..], &[0xEE][..]].concat())),
        format!("seg 3 - {} -", hex(&all)),
    ];
    for k in 0..=s.min(all.len()) {
        if !thorough && s > 4 && k > 1 && k + 1 < s && rng.chance(1, 2) {
            continue;
        }
        v.push(format!("seg 2 {} {}", hex(&all[..k]), hex(&all[k..])));
        v.push(format!("chain slice {} bytes {}", hex(&all[..k]), hex(&all[k..])));
        if k > 0 && k < all.len() {
            v.push(format!("deque {} {}", hex(&all[..k]), hex(&all[k..])));
            let j = k / 2;
            v.push(format!("seg 4 {} - {} {}", hex(&all[..j]), hex(&all[j..k]), hex(&all[k..])));
            v.push(format!("box chain ref seg 2 {} {} take {} mut {}", hex(&all[..j]), hex(&all[j..k]), all.len() - k, hex(&[&all[k..], &[1u8][..]].concat())));
        }
    }
    // one byte per chunk
    let singles: Vec<String> = all.iter().map(|b| format!("{:02x}", b)).collect();
    if !singles.is_empty() {
        v.push(format!("seg {} {}", singles.len(), singles.join(" ")));
    }
    v
}

fn getter_cases(rng: &mut Rng, thorough: bool) {
    let mut methods: Vec<(String, usize, Option<usize>)> = Vec::new(); // (name, size, nbytes)
    for (g, t, sz) in FIXED_GETTERS {
        methods.push((g.to_string(), *sz, None));
        methods.push((t.to_string(), *sz, None));
    }
    for (g, t) in VAR_GETTERS {
        for nb in 0..=9usize {
            methods.push((g.to_string(), nb, Some(nb)));
            methods.push((t.to_string(), nb, Some(nb)));
        }
    }
    for (name, size, nb) in &methods {
        let op = match nb {
            Some(n) => format!("get {} {}", name, n),
            None => format!("get {}", name),
        };
        let ops = vec![op.clone(), "rem".to_string(), op.clone()];
        for p in patterns(*size, rng) {
            // (the long tail keeps at least a machine word in the first chunk whatever the width: word-sized fast paths)
            for extra in [&[][..], &[0xAB, 0xCD][..], &[0x91, 0xA2, 0xB3, 0xC4, 0xD5, 0xE6, 0xF7, 0x08, 0x19, 0x2A, 0x3B, 0x4C][..]] {
                for t in shapes(&p, extra, rng, thorough) {
                    run_case(&t, &ops);
                }
            }
        }
        // shortfalls: 0 .. size-1 bytes remaining, through a fragmented leaf and through `take`
        for j in 0..*size {
            let b = rng.bytes(j);
            let k = j / 2;
            run_case(&format!("seg 2 {} {}", hex(&b[..k]), hex(&b[k..])), &ops[..1]);
            run_case(&format!("take {} slice {}", j, hex(&rng.bytes(size + 2))), &ops[..1]);
            // … and a Take whose limit is larger than what the inner buffer still holds
            run_case(&format!("take {} slice {}", j + 3, hex(&b)), &ops[..1]);
            run_case(&format!("take {} chain slice {} bytes {}", size + 4, hex(&b[..k]), hex(&b[k..])), &ops[..1]);
            run_case(&format!("chain bytes {} cursor {} 1", hex(&b[..k]), hex(&[&[0u8][..], &b[k..]].concat())), &ops[..1]);
        }
        // a Cursor positioned at and beyond the end of its data (set_position is not clamped): nothing remains
        let d = rng.bytes(3);
        for pos in [3usize, 4, 9] {
            run_case(&format!("cursor {} {}", hex(&d), pos), &ops[..1]);
            run_case(&format!("chain slice - cursor {} {}", hex(&d), pos), &ops[..1]);
        }
    }
}

pub fn run(args: &[String]) -> i32 {
    let seed = seed_from_env();
    let thorough = tier_thorough();
    let mut rng = Rng::new(seed);
    std::panic::set_hook(Box::new(|_| {}));
    match args.first().map(|s| s.as_str()) {
        Some("replay") => {
            // file: lines `t <desc>` / `o <op> [-> …]`
            let text = std::fs::read_to_string(&args[1]).unwrap_or_default();
            let mut desc: Option<String> = None;
            let mut ops: Vec<String> = Vec::new();
            for line in text.lines() {
                if let Some(d) = line.strip_prefix("t ") {
                    if let Some(dd) = desc.take() {
                        run_case(&dd, &ops);
                        ops.clear();
                    }
                    desc = Some(d.trim().to_string());
                } else if let Some(o) = line.strip_prefix("o ") {
                    ops.push(o.split(" -> ").next().unwrap().trim().to_string());
                }
            }
            if let Some(dd) = desc {
                run_case(&dd, &ops);
            }
        }
        Some("getters") => getter_cases(&mut rng, thorough),
        Some("cursor") => cursor_cases(&mut rng, thorough),
        _ => {
            cursor_cases(&mut rng, thorough);
            getter_cases(&mut rng, thorough);
        }
    }
    0
}
