//! Build `Bytes` / `BytesMut` values holding given contents in every backing representation.
use bytes::{Buf, BufMut, Bytes, BytesMut};

pub const BYTES_REPRS: usize = 9;
pub const MUT_REPRS: usize = 5;

pub fn bytes_repr_name(r: usize) -> &'static str {
    ["copy", "static", "shared", "promoted", "owner", "subslice", "frozen-vec", "frozen-shared", "split-tail"][r % BYTES_REPRS]
}

/// `keep` receives values that must stay alive to keep the representation (e.g. the other clone).
pub fn mk_bytes(x: &[u8], r: usize, keep: &mut Vec<Bytes>) -> Bytes {
    match r % BYTES_REPRS {
        0 => Bytes::copy_from_slice(x), // promotable (even or odd, allocator's choice)
        1 => Bytes::from_static(Box::leak(x.to_vec().into_boxed_slice())),
        2 => {
            let mut v = Vec::with_capacity(x.len() + 3);
            v.extend_from_slice(x);
            Bytes::from(v) // len != cap -> Shared
        }
        3 => {
            let b = Bytes::copy_from_slice(x);
            keep.push(b.clone()); // promotes to shared
            b
        }
        4 => Bytes::from_owner(x.to_vec()),
        5 => {
            let mut v = vec![0xAAu8; 2];
            v.extend_from_slice(x);
            v.extend_from_slice(&[0xBB; 3]);
            let b = Bytes::from(v);
            b.slice(2..2 + x.len())
        }
        6 => BytesMut::from(x).freeze(),
        7 => {
            let mut m = BytesMut::with_capacity(x.len() + 8);
            m.put_slice(&[1, 2]);
            m.put_slice(x);
            m.put_slice(&[9]);
            let mut f = m.freeze();
            f.advance(2);
            f.truncate(x.len());
            f
        }
        _ => {
            let mut b = Bytes::copy_from_slice(&[&[7u8, 7][..], x].concat());
            b.split_off(2)
        }
    }
}

pub fn mut_repr_name(r: usize) -> &'static str {
    ["from-slice", "offset", "shared", "unsplit", "zeroed"][r % MUT_REPRS]
}

pub fn mk_mut(x: &[u8], r: usize, keep: &mut Vec<BytesMut>) -> BytesMut {
    match r % MUT_REPRS {
        0 => BytesMut::from(x),
        1 => {
            let mut m = BytesMut::with_capacity(x.len() + 5);
            m.put_slice(&[5, 5, 5]);
            m.put_slice(x);
            m.advance(3);
            m
        }
        2 => {
            let mut m = BytesMut::with_capacity(x.len() + 4);
            m.put_slice(x);
            m.put_slice(&[1, 2, 3]);
            let tail = m.split_off(x.len());
            keep.push(tail);
            m
        }
        3 => {
            let mut m = BytesMut::from(x);
            let k = x.len() / 2;
            let tail = m.split_off(k);
            m.unsplit(tail);
            m
        }
        _ => {
            let mut m = BytesMut::zeroed(x.len());
            m.copy_from_slice(x);
            m
        }
    }
}
