//! Ledger allocator: wraps the system allocator, records every live block (serial, address, size,
//! align), controls the address parity of align-1 blocks, surrounds blocks with red zones, poisons
//! freed memory and keeps it in a quarantine, and reports the events that happen while tracking is
//! switched on (i.e. during one call into the crate).
use std::alloc::{GlobalAlloc, Layout, System};
use std::sync::atomic::{AtomicBool, AtomicUsize, Ordering};

const RZ: usize = 16; // red zone on each side
const RZ_BYTE: u8 = 0xC3;
const POISON: u8 = 0xDD;
const MAX_BLOCKS: usize = 1 << 14;
const MAX_EVENTS: usize = 1 << 12;
const QUARANTINE: usize = 64;

#[derive(Clone, Copy)]
pub struct Block {
    pub serial: usize,
    pub addr: usize, // user address
    pub size: usize,
    pub align: usize,
    base: usize, // address returned by the system allocator
    total: usize,
    balign: usize,
    noise: bool,
    tracked: bool,
    /// carved out of the packing arena (no red zones, never returned to the system allocator)
    packed: bool,
}

#[derive(Clone, Copy, Debug)]
pub struct Event {
    pub alloc: bool,
    pub serial: usize,
    pub size: usize,
    pub align: usize,
    pub noise: bool,
    pub bad: u8, // 0 ok, 1 dealloc of unknown block, 2 layout mismatch, 3 red zone damaged, 4 write after free
}

struct State {
    blocks: [Option<Block>; MAX_BLOCKS],
    nblocks: usize,
    events: [Option<Event>; MAX_EVENTS],
    nevents: usize,
    quarantine: [Option<Block>; QUARANTINE],
    qpos: usize,
}

pub struct Ledger;

static LOCK: AtomicBool = AtomicBool::new(false);
static TRACK: AtomicBool = AtomicBool::new(false);
static SERIAL: AtomicUsize = AtomicUsize::new(1);
/// 0 = even addresses for align-1 blocks, 1 = odd, 2 = alternate, 3 = "pack": small align-1 blocks are laid out back to back
/// in one arena (consecutive allocations are adjacent in memory, as a bump / slab allocator would place them)
pub static PARITY: AtomicUsize = AtomicUsize::new(0);
const ARENA_SIZE: usize = 48 << 20;
static mut ARENA: [u8; ARENA_SIZE] = [0; ARENA_SIZE];
static ARENA_POS: AtomicUsize = AtomicUsize::new(0);
static PARITY_TICK: AtomicUsize = AtomicUsize::new(0);
pub static VIOLATIONS: AtomicUsize = AtomicUsize::new(0);
pub static PEAK_LIVE: AtomicUsize = AtomicUsize::new(0);
pub static LIVE_BYTES: AtomicUsize = AtomicUsize::new(0);
pub static LARGEST: AtomicUsize = AtomicUsize::new(0);
pub static A1_ALLOCS: AtomicUsize = AtomicUsize::new(0);
/// align-1 blocks allocated during tracked calls (not panic noise) and not yet freed
pub static A1_TRACKED_LIVE: AtomicUsize = AtomicUsize::new(0);
/// bytes in those blocks
pub static A1_TRACKED_BYTES: AtomicUsize = AtomicUsize::new(0);
/// blocks of any other alignment (control blocks: `Shared`, `Owned<T>`) allocated during tracked calls and not yet freed
pub static CTL_TRACKED_LIVE: AtomicUsize = AtomicUsize::new(0);
static mut STATE: State = State {
    blocks: [None; MAX_BLOCKS],
    nblocks: 0,
    events: [None; MAX_EVENTS],
    nevents: 0,
    quarantine: [None; QUARANTINE],
    qpos: 0,
};

fn lock() {
    while LOCK.compare_exchange_weak(false, true, Ordering::Acquire, Ordering::Relaxed).is_err() {
        std::hint::spin_loop();
    }
}
fn unlock() {
    LOCK.store(false, Ordering::Release);
}

#[allow(static_mut_refs)]
fn st() -> &'static mut State {
    unsafe { &mut STATE }
}

fn push_event(e: Event) {
    let s = st();
    if e.bad != 0 {
        VIOLATIONS.fetch_add(1, Ordering::Relaxed);
    }
    if (TRACK.load(Ordering::Relaxed) || e.bad != 0) && s.nevents < MAX_EVENTS {
        s.events[s.nevents] = Some(e);
        s.nevents += 1;
    }
}

unsafe impl GlobalAlloc for Ledger {
    unsafe fn alloc(&self, layout: Layout) -> *mut u8 {
        let (size, align) = (layout.size(), layout.align());
        if size > (1usize << 40) {
            return std::ptr::null_mut(); // treated as an allocation failure
        }
        if PARITY.load(Ordering::Relaxed) == 3 && TRACK.load(Ordering::Relaxed) && align == 1 && size > 0 && size <= 8192 {
            let pos = ARENA_POS.fetch_add(size, Ordering::Relaxed);
            if pos + size <= ARENA_SIZE {
                #[allow(static_mut_refs)]
                let user = ARENA.as_mut_ptr() as usize + pos;
                let serial = SERIAL.fetch_add(1, Ordering::Relaxed);
                let noise = std::thread::panicking();
                lock();
                let s = st();
                if s.nblocks < MAX_BLOCKS {
                    s.blocks[s.nblocks] = Some(Block { serial, addr: user, size, align, base: user, total: size, balign: 1, noise, tracked: TRACK.load(Ordering::Relaxed) && !noise, packed: true });
                    s.nblocks += 1;
                } else {
                    VIOLATIONS.fetch_add(1 << 20, Ordering::Relaxed);
                }
                push_event(Event { alloc: true, serial, size, align, noise, bad: 0 });
                let live = LIVE_BYTES.fetch_add(size, Ordering::Relaxed) + size;
                PEAK_LIVE.fetch_max(live, Ordering::Relaxed);
                if TRACK.load(Ordering::Relaxed) && !noise {
                    LARGEST.fetch_max(size, Ordering::Relaxed);
                    A1_ALLOCS.fetch_add(1, Ordering::Relaxed);
                    A1_TRACKED_LIVE.fetch_add(1, Ordering::Relaxed);
                    A1_TRACKED_BYTES.fetch_add(size, Ordering::Relaxed);
                }
                unlock();
                return user as *mut u8;
            }
        }
        let balign = align.max(2);
        // room for red zones and one byte of parity shift
        let lead = RZ.max(balign);
        let total = lead + 1 + size + RZ;
        let base = System.alloc(Layout::from_size_align_unchecked(total, balign));
        if base.is_null() {
            return base;
        }
        let mut user = base as usize + lead; // even for align 1 (balign >= 2, lead multiple of balign)
        if align == 1 {
            let want_odd = match PARITY.load(Ordering::Relaxed) {
                0 => false,
                1 => true,
                _ => PARITY_TICK.fetch_add(1, Ordering::Relaxed) % 2 == 1,
            };
            if want_odd {
                user += 1;
            }
        }
        std::ptr::write_bytes(base, RZ_BYTE, total);
        let serial = SERIAL.fetch_add(1, Ordering::Relaxed);
        let noise = std::thread::panicking();
        lock();
        let s = st();
        // dense array of live blocks
        if s.nblocks < MAX_BLOCKS {
            s.blocks[s.nblocks] = Some(Block { serial, addr: user, size, align, base: base as usize, total, balign, noise, tracked: TRACK.load(Ordering::Relaxed) && !noise, packed: false });
            s.nblocks += 1;
        } else {
            VIOLATIONS.fetch_add(1 << 20, Ordering::Relaxed); // table overflow: results are not trustworthy
        }
        push_event(Event { alloc: true, serial, size, align, noise, bad: 0 });
        let live = LIVE_BYTES.fetch_add(size, Ordering::Relaxed) + size;
        PEAK_LIVE.fetch_max(live, Ordering::Relaxed);
        if align != 1 && TRACK.load(Ordering::Relaxed) && !noise {
            CTL_TRACKED_LIVE.fetch_add(1, Ordering::Relaxed);
        }
        if align == 1 && TRACK.load(Ordering::Relaxed) && !noise {
            LARGEST.fetch_max(size, Ordering::Relaxed);
            A1_ALLOCS.fetch_add(1, Ordering::Relaxed);
            A1_TRACKED_LIVE.fetch_add(1, Ordering::Relaxed);
            A1_TRACKED_BYTES.fetch_add(size, Ordering::Relaxed);
        }
        unlock();
        user as *mut u8
    }

    unsafe fn dealloc(&self, ptr: *mut u8, layout: Layout) {
        lock();
        let s = st();
        let mut found = None;
        for i in (0..s.nblocks).rev() {
            if let Some(b) = s.blocks[i] {
                if b.addr == ptr as usize {
                    found = Some((i, b));
                    break;
                }
            }
        }
        // only blocks that were allocated while panicking (panic payload, message) are noise
        let noise = match found {
            Some((_, b)) => b.noise,
            None => false,
        };
        match found {
            None => {
                push_event(Event { alloc: false, serial: 0, size: layout.size(), align: layout.align(), noise, bad: 1 });
                unlock();
                // unknown pointer: do not hand it to the system allocator
            }
            Some((i, b)) => {
                let mut bad = 0u8;
                if b.size != layout.size() || b.align != layout.align() {
                    bad = 2;
                }
                // red zones
                if !b.packed {
                    let basep = b.base as *const u8;
                    let lead = b.addr - b.base;
                    let front = std::slice::from_raw_parts(basep, lead);
                    let back = std::slice::from_raw_parts((b.addr + b.size) as *const u8, b.total - lead - b.size);
                    if front.iter().any(|x| *x != RZ_BYTE) || back.iter().any(|x| *x != RZ_BYTE) {
                        bad = 3;
                    }
                }
                if b.tracked && b.align == 1 {
                    A1_TRACKED_LIVE.fetch_sub(1, Ordering::Relaxed);
                    A1_TRACKED_BYTES.fetch_sub(b.size, Ordering::Relaxed);
                }
                if b.tracked && b.align != 1 {
                    CTL_TRACKED_LIVE.fetch_sub(1, Ordering::Relaxed);
                }
                s.nblocks -= 1;
                s.blocks[i] = s.blocks[s.nblocks];
                s.blocks[s.nblocks] = None;
                LIVE_BYTES.fetch_sub(b.size, Ordering::Relaxed);
                push_event(Event { alloc: false, serial: b.serial, size: layout.size(), align: layout.align(), noise, bad });
                // poison and quarantine
                std::ptr::write_bytes(b.addr as *mut u8, POISON, b.size);
                let q = s.qpos % QUARANTINE;
                let old = s.quarantine[q].replace(b);
                s.qpos += 1;
                if let Some(o) = old {
                    let body = std::slice::from_raw_parts(o.addr as *const u8, o.size);
                    if body.iter().any(|x| *x != POISON) {
                        push_event(Event { alloc: false, serial: o.serial, size: o.size, align: o.align, noise: false, bad: 4 });
                    }
                    unlock();
                    if !o.packed {
                        System.dealloc(o.base as *mut u8, Layout::from_size_align_unchecked(o.total, o.balign));
                    }
                } else {
                    unlock();
                }
            }
        }
    }
}

/// Switch event recording on/off; returns the events recorded since the last drain.
pub fn track(on: bool) {
    TRACK.store(on, Ordering::SeqCst);
}

pub fn drain_events() -> Vec<Event> {
    // copy out under the lock into a fixed buffer first (the Vec allocation must not happen under the lock)
    let mut tmp: [Option<Event>; MAX_EVENTS] = [None; MAX_EVENTS];
    lock();
    let s = st();
    let n = s.nevents;
    tmp[..n].copy_from_slice(&s.events[..n]);
    s.nevents = 0;
    unlock();
    tmp[..n].iter().map(|e| e.unwrap()).collect()
}

/// The live block containing `addr` (or ending exactly at it, for empty views), if any.
pub fn find_block(addr: usize) -> Option<Block> {
    lock();
    let s = st();
    let mut res = None;
    for i in 0..s.nblocks {
        if let Some(b) = s.blocks[i] {
            if addr >= b.addr && addr <= b.addr + b.size && (b.size > 0 || addr == b.addr) {
                // prefer a block that really contains the address over one that merely ends there
                if res.is_none() || addr < b.addr + b.size {
                    res = Some(b);
                }
            }
        }
    }
    unlock();
    res
}

/// Is `addr` both the end of one live block and the start of another (possible only with the packing allocator)?
/// An empty view at such an address cannot be attributed to either block.
pub fn on_shared_boundary(addr: usize) -> bool {
    lock();
    let s = st();
    let (mut ends, mut starts) = (false, false);
    for i in 0..s.nblocks {
        if let Some(b) = s.blocks[i] {
            if b.size > 0 && b.addr + b.size == addr {
                ends = true;
            }
            if b.size > 0 && b.addr == addr {
                starts = true;
            }
        }
    }
    unlock();
    ends && starts
}

/// byte buffers + control blocks allocated during tracked calls and still alive
pub fn tracked_live_total() -> usize {
    A1_TRACKED_LIVE.load(Ordering::SeqCst) + CTL_TRACKED_LIVE.load(Ordering::SeqCst)
}

pub fn live_blocks_align1() -> usize {
    lock();
    let s = st();
    let n = s.blocks[..s.nblocks].iter().filter(|b| matches!(b, Some(b) if b.align == 1)).count();
    unlock();
    n
}

pub fn reset_stats() {
    PEAK_LIVE.store(LIVE_BYTES.load(Ordering::Relaxed), Ordering::Relaxed);
    LARGEST.store(0, Ordering::Relaxed);
    A1_ALLOCS.store(0, Ordering::Relaxed);
}
