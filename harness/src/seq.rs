//! M1 stream (C01–C04, C07, C08, C13, C16, C18): operation scripts on `Bytes` / `BytesMut` /
//! `Vec<u8>` handles executed on the real crate under the ledger allocator.  After every op the
//! trace lists the allocator events of that op and every live handle (address as ledger block +
//! offset, len, capacity, is_unique, contents).
use crate::ledger::{self, Event};
use crate::util::*;
use bytes::{Buf, Bytes, BytesMut};
use std::panic::{catch_unwind, AssertUnwindSafe};
use std::sync::atomic::{AtomicUsize, Ordering};

pub enum H {
    B(Bytes),
    M(BytesMut),
    V(Vec<u8>),
}

const MAX_OWNERS: usize = 4096;
static ASREF: [AtomicUsize; MAX_OWNERS] = [const { AtomicUsize::new(0) }; MAX_OWNERS];
static DROPPED: [AtomicUsize; MAX_OWNERS] = [const { AtomicUsize::new(0) }; MAX_OWNERS];

struct Owner {
    id: usize,
    buf: Vec<u8>,
    panics: bool,
}
impl AsRef<[u8]> for Owner {
    fn as_ref(&self) -> &[u8] {
        ASREF[self.id % MAX_OWNERS].fetch_add(1, Ordering::SeqCst);
        if self.panics {
            panic!("owner as_ref panics");
        }
        &self.buf
    }
}
impl Drop for Owner {
    fn drop(&mut self) {
        DROPPED[self.id % MAX_OWNERS].fetch_add(1, Ordering::SeqCst);
    }
}

pub struct World {
    pub hs: Vec<Option<H>>,
    pub owners: usize,
    pub owner_base: usize,
    pub leaked: usize,
    pub zst_used: bool,
    pub ctl_base: usize,
    /// memory handed out as `&'static [u8]`; released after the last handle of the script is gone
    pub statics: Vec<*mut [u8]>,
}

pub enum Out {
    Unit,
    Handle(usize),
    Bool(bool),
    Err(usize),
}

fn fnv(b: &[u8]) -> u64 {
    let mut h: u64 = 0xcbf29ce484222325;
    for x in b {
        h ^= *x as u64;
        h = h.wrapping_mul(0x100000001b3);
    }
    h
}

fn contents(b: &[u8]) -> String {
    if b.len() <= 48 {
        hex(b)
    } else {
        format!("fnv:{:016x}:{}", fnv(b), b.len())
    }
}

fn blk(addr: usize, cap0: bool) -> String {
    // zero-capacity vectors have a dangling pointer: not an address
    if cap0 {
        return "none".into();
    }
    match ledger::find_block(addr) {
        Some(b) => format!("{}:{}:{}:{}", b.serial, addr - b.addr, b.size, b.addr & 1),
        None => format!("wild:{:x}", addr),
    }
}

/// A zero-sized owner (its counters are found through a global slot: one live at a time per script is enough).
static ZST_SLOT: AtomicUsize = AtomicUsize::new(0);
struct ZstOwner;
impl AsRef<[u8]> for ZstOwner {
    fn as_ref(&self) -> &[u8] {
        ASREF[ZST_SLOT.load(Ordering::SeqCst)].fetch_add(1, Ordering::SeqCst);
        // memory the ledger knows (allocated once, outside any tracked call, never freed)
        static DATA: std::sync::OnceLock<&'static [u8]> = std::sync::OnceLock::new();
        DATA.get_or_init(|| Box::leak(b"zst-own!".to_vec().into_boxed_slice()))
    }
}
impl Drop for ZstOwner {
    fn drop(&mut self) {
        DROPPED[ZST_SLOT.load(Ordering::SeqCst)].fetch_add(1, Ordering::SeqCst);
    }
}

impl World {
    pub fn new() -> World {
        World { hs: Vec::with_capacity(64), owners: 0, owner_base: 0, leaked: 0, zst_used: false, ctl_base: ledger::CTL_TRACKED_LIVE.load(Ordering::SeqCst), statics: Vec::new() }
    }

    /// the zero-sized owner's counters live in one global slot: at most one per script
    pub fn has_zst_owner(&self) -> bool {
        self.zst_used
    }

    fn b(&self, i: usize) -> Option<&Bytes> {
        match self.hs.get(i)? {
            Some(H::B(b)) => Some(b),
            _ => None,
        }
    }

    pub fn print_handles(&self) {
        for (i, h) in self.hs.iter().enumerate() {
            match h {
                None => {}
                Some(H::B(b)) => println!(
                    "h {} B {} {} - {} {}",
                    i,
                    if b.is_empty() && (ledger::find_block(b.as_ptr() as usize).is_none() || ledger::on_shared_boundary(b.as_ptr() as usize)) {
                        "none".to_string()
                    } else {
                        blk(b.as_ptr() as usize, false)
                    },
                    b.len(),
                    b.is_unique() as u8,
                    contents(b)
                ),
                // a zero-capacity BytesMut still has an address when it was split off an allocation (C07: split_off / split_to
                // keep the address guarantee for empty results); a fresh one points nowhere
                Some(H::M(m)) => println!(
                    "h {} M {} {} {} - {}",
                    i,
                    blk(
                        m.as_ptr() as usize,
                        m.capacity() == 0 && (ledger::find_block(m.as_ptr() as usize).is_none() || ledger::on_shared_boundary(m.as_ptr() as usize))
                    ),
                    m.len(),
                    m.capacity(),
                    contents(m)
                ),
                Some(H::V(v)) => println!("h {} V {} {} {} - {}", i, blk(v.as_ptr() as usize, v.capacity() == 0), v.len(), v.capacity(), contents(v)),
            }
        }
        for o in 0..self.owners {
            let k = (self.owner_base + o) % MAX_OWNERS;
            println!("o {} asref={} dropped={}", o, ASREF[k].load(Ordering::SeqCst), DROPPED[k].load(Ordering::SeqCst));
        }
    }

    /// Parse and execute one op.  Returns None for a malformed / inapplicable op (nothing executed).
    pub fn exec(&mut self, op: &str) -> Option<Result<Out, ()>> {
        let w: Vec<&str> = op.split_whitespace().collect();
        let num = |i: usize| -> Option<usize> { w.get(i)?.parse().ok() };
        let name = *w.first()?;
        // ---- prepare arguments outside the tracked region
        let bytes_arg = match name {
            "fromstatic" | "copy" | "owner" | "mfrom" | "collect" | "mcollect" => Some(unhex(w.get(1)?)?),
            "newvec" => Some(unhex(w.get(1)?)?),
            "extend" | "extendit" | "extendref" | "putslice" | "wstr" => Some(unhex(w.get(2)?)?),
            _ => None,
        };
        macro_rules! tracked {
            ($body:expr) => {{
                ledger::track(true);
                let r = catch_unwind(AssertUnwindSafe(|| $body));
                ledger::track(false);
                r.map_err(|_| ())
            }};
        }
        let res: Result<Out, ()> = match name {
            "fromstatic" => {
                let raw: *mut [u8] = Box::into_raw(bytes_arg?.into_boxed_slice());
                self.statics.push(raw);
                let s: &'static [u8] = unsafe { &*raw };
                if !s.is_empty() {
                    self.leaked += 1;
                }
                let r = tracked!(Bytes::from_static(s));
                self.push(r.map(H::B))
            }
            "newvec" => {
                let cap = num(2)?;
                let bs = bytes_arg?;
                if cap < bs.len() {
                    return None;
                }
                let r = tracked!({
                    let mut v = Vec::with_capacity(cap);
                    v.extend_from_slice(&bs);
                    v
                });
                self.push(r.map(H::V))
            }
            "fromvec" => {
                let i = num(1)?;
                let v = match self.hs.get_mut(i)?.take()? {
                    H::V(v) => v,
                    other => {
                        self.hs[i] = Some(other);
                        return None;
                    }
                };
                let r = tracked!(Bytes::from(v));
                self.put(i, r.map(H::B))
            }
            "copy" => {
                let bs = bytes_arg?;
                let r = tracked!(Bytes::copy_from_slice(&bs));
                self.push(r.map(H::B))
            }
            "ownerz" => {
                if self.zst_used {
                    return None;
                }
                self.zst_used = true;
                let id = self.owner_base + self.owners;
                self.owners += 1;
                ASREF[id % MAX_OWNERS].store(0, Ordering::SeqCst);
                DROPPED[id % MAX_OWNERS].store(0, Ordering::SeqCst);
                ZST_SLOT.store(id % MAX_OWNERS, Ordering::SeqCst);
                {
                    // initialise the owner's memory outside the tracked region (and undo the as_ref count of this probe)
                    let probe = ZstOwner;
                    let _ = probe.as_ref().len();
                    std::mem::forget(probe);
                    ASREF[id % MAX_OWNERS].store(0, Ordering::SeqCst);
                    DROPPED[id % MAX_OWNERS].store(0, Ordering::SeqCst);
                }
                let r = tracked!(Bytes::from_owner(ZstOwner));
                self.push(r.map(H::B))
            }
            "owner" => {
                let panics = w.get(2) == Some(&"panic");
                let id = self.owner_base + self.owners;
                self.owners += 1;
                ASREF[id % MAX_OWNERS].store(0, Ordering::SeqCst);
                DROPPED[id % MAX_OWNERS].store(0, Ordering::SeqCst);
                let o = Owner { id, buf: bytes_arg?, panics };
                let r = tracked!(Bytes::from_owner(o));
                self.push(r.map(H::B))
            }
            "mcap" => {
                let n = num(1)?;
                let r = tracked!(BytesMut::with_capacity(n));
                self.push(r.map(H::M))
            }
            "mfrom" => {
                let bs = bytes_arg?;
                let r = tracked!(BytesMut::from(&bs[..]));
                self.push(r.map(H::M))
            }
            // FromIterator entry points: same allocation pattern as copy_from_slice / From<&[u8]> (exact-size Vec)
            "collect" => {
                let bs = bytes_arg?;
                let r = tracked!(bs.iter().copied().collect::<Bytes>());
                self.push(r.map(H::B))
            }
            "mcollect" => {
                let bs = bytes_arg?;
                let r = tracked!(bs.iter().copied().collect::<BytesMut>());
                self.push(r.map(H::M))
            }
            "mzero" => {
                let n = num(1)?;
                let r = tracked!(BytesMut::zeroed(n));
                self.push(r.map(H::M))
            }
            "clone" => {
                let i = num(1)?;
                let r = match self.hs.get(i)?.as_ref()? {
                    H::B(b) => tracked!(H::B(b.clone())),
                    H::M(m) => tracked!(H::M(m.clone())),
                    H::V(v) => tracked!(H::V(v.clone())),
                };
                self.push(r)
            }
            "slice" | "sliceinc" | "slicex" => {
                let (i, lo, hi) = (num(1)?, num(2)?, num(3)?);
                let b = self.b(i)?;
                let r = match name {
                    "slice" => tracked!(b.slice(lo..hi)),
                    "sliceinc" => tracked!(b.slice(lo..=hi)),
                    // excluded start bound (only expressible through a pair of Bounds)
                    _ => tracked!(b.slice((std::ops::Bound::Excluded(lo), std::ops::Bound::Excluded(hi)))),
                };
                self.push(r.map(H::B))
            }
            "sliceref" => {
                // sub-slice [off, off+len) of handle i's own view
                let (i, off, len) = (num(1)?, num(2)?, num(3)?);
                let b = self.b(i)?;
                if off + len > b.len() {
                    return None;
                }
                let sub = &b[off..off + len];
                let r = tracked!(b.slice_ref(sub));
                self.push(r.map(H::B))
            }
            "sliceforeign" => {
                let i = num(1)?;
                let b = self.b(i)?;
                static FOREIGN: [u8; 3] = [1, 2, 3];
                let r = tracked!(b.slice_ref(&FOREIGN[..]));
                self.push(r.map(H::B))
            }
            "ctb" => {
                // Buf::copy_to_bytes on the handle itself (Bytes: split_to; BytesMut: split_to + freeze)
                let (i, k) = (num(1)?, num(2)?);
                let r = match self.hs.get_mut(i)?.as_mut()? {
                    H::B(b) => tracked!(H::B(bytes::Buf::copy_to_bytes(b, k))),
                    H::M(m) => tracked!(H::B(bytes::Buf::copy_to_bytes(m, k))),
                    _ => return None,
                };
                self.push(r)
            }
            "putbytes" => {
                let (i, b, k) = (num(1)?, num(2)?, num(3)?);
                let m = match self.hs.get_mut(i)?.as_mut()? {
                    H::M(m) => m,
                    _ => return None,
                };
                tracked!(bytes::BufMut::put_bytes(m, b as u8, k)).map(|_| Out::Unit)
            }
            "splitoff" | "splitto" => {
                let (i, k) = (num(1)?, num(2)?);
                let off = name == "splitoff";
                let r = match self.hs.get_mut(i)?.as_mut()? {
                    H::B(b) => tracked!(H::B(if off { b.split_off(k) } else { b.split_to(k) })),
                    H::M(m) => tracked!(H::M(if off { m.split_off(k) } else { m.split_to(k) })),
                    H::V(_) => return None,
                };
                self.push(r)
            }
            "split" => {
                let i = num(1)?;
                let r = match self.hs.get_mut(i)?.as_mut()? {
                    H::M(m) => tracked!(H::M(m.split())),
                    _ => return None,
                };
                self.push(r)
            }
            "trunc" | "clear" => {
                let i = num(1)?;
                let n = if name == "clear" { 0 } else { num(2)? };
                let clear = name == "clear";
                match self.hs.get_mut(i)?.as_mut()? {
                    H::B(b) => tracked!(if clear { b.clear() } else { b.truncate(n) }).map(|_| Out::Unit),
                    H::M(m) => tracked!(if clear { m.clear() } else { m.truncate(n) }).map(|_| Out::Unit),
                    H::V(v) => tracked!(v.truncate(n)).map(|_| Out::Unit),
                }
            }
            "adv" => {
                let (i, n) = (num(1)?, num(2)?);
                match self.hs.get_mut(i)?.as_mut()? {
                    H::B(b) => tracked!(b.advance(n)).map(|_| Out::Unit),
                    H::M(m) => tracked!(m.advance(n)).map(|_| Out::Unit),
                    H::V(_) => return None,
                }
            }
            "uniq" => {
                let b = self.b(num(1)?)?;
                tracked!(b.is_unique()).map(Out::Bool)
            }
            "trymut" => {
                let i = num(1)?;
                let b = match self.hs.get_mut(i)?.take()? {
                    H::B(b) => b,
                    other => {
                        self.hs[i] = Some(other);
                        return None;
                    }
                };
                match tracked!(b.try_into_mut()) {
                    Ok(Ok(m)) => {
                        self.hs[i] = Some(H::M(m));
                        Ok(Out::Handle(i))
                    }
                    Ok(Err(b)) => {
                        self.hs[i] = Some(H::B(b));
                        Ok(Out::Err(i))
                    }
                    Err(()) => Err(()),
                }
            }
            "tomut" => {
                let i = num(1)?;
                let b = match self.hs.get_mut(i)?.take()? {
                    H::B(b) => b,
                    other => {
                        self.hs[i] = Some(other);
                        return None;
                    }
                };
                let r = tracked!(BytesMut::from(b));
                self.put(i, r.map(H::M))
            }
            "tovec" => {
                let i = num(1)?;
                let r = match self.hs.get_mut(i)?.take()? {
                    H::B(b) => tracked!(Vec::<u8>::from(b)),
                    H::M(m) => tracked!(Vec::<u8>::from(m)),
                    other => {
                        self.hs[i] = Some(other);
                        return None;
                    }
                };
                self.put(i, r.map(H::V))
            }
            "freeze" => {
                let i = num(1)?;
                let m = match self.hs.get_mut(i)?.take()? {
                    H::M(m) => m,
                    other => {
                        self.hs[i] = Some(other);
                        return None;
                    }
                };
                let r = tracked!(m.freeze());
                self.put(i, r.map(H::B))
            }
            "reserve" | "reclaim" => {
                let (i, n) = (num(1)?, num(2)?);
                let m = match self.hs.get_mut(i)?.as_mut()? {
                    H::M(m) => m,
                    _ => return None,
                };
                if name == "reserve" {
                    tracked!(m.reserve(n)).map(|_| Out::Unit)
                } else {
                    tracked!(m.try_reclaim(n)).map(Out::Bool)
                }
            }
            "extend" => {
                let i = num(1)?;
                let bs = bytes_arg?;
                let m = match self.hs.get_mut(i)?.as_mut()? {
                    H::M(m) => m,
                    _ => return None,
                };
                tracked!(m.extend_from_slice(&bs)).map(|_| Out::Unit)
            }
            // the same append through the other entry points (all `reserve(n)` once, then write: same model operation)
            "extendit" | "extendref" | "putslice" => {
                let i = num(1)?;
                let bs = bytes_arg?;
                let m = match self.hs.get_mut(i)?.as_mut()? {
                    H::M(m) => m,
                    _ => return None,
                };
                match name {
                    "extendit" => tracked!(m.extend(bs.iter().copied())).map(|_| Out::Unit),
                    "extendref" => tracked!(m.extend(bs.iter())).map(|_| Out::Unit),
                    _ => tracked!(bytes::BufMut::put_slice(m, &bs)).map(|_| Out::Unit),
                }
            }
            // appends through fmt::Write
            "wstr" | "wchar" => {
                use std::fmt::Write as _;
                let i = num(1)?;
                let text: String = if name == "wstr" {
                    String::from_utf8(bytes_arg?).ok()?
                } else {
                    char::from_u32(num(2)? as u32)?.to_string()
                };
                let m = match self.hs.get_mut(i)?.as_mut()? {
                    H::M(m) => m,
                    _ => return None,
                };
                if name == "wstr" {
                    tracked!(m.write_str(&text).unwrap()).map(|_| Out::Unit)
                } else {
                    let ch = text.chars().next()?;
                    tracked!(write!(m, "{}", ch).unwrap()).map(|_| Out::Unit)
                }
            }
            "resize" => {
                let (i, n, b) = (num(1)?, num(2)?, num(3)?);
                let m = match self.hs.get_mut(i)?.as_mut()? {
                    H::M(m) => m,
                    _ => return None,
                };
                tracked!(m.resize(n, b as u8)).map(|_| Out::Unit)
            }
            "unsplit" => {
                let (i, j) = (num(1)?, num(2)?);
                if i == j || !matches!(self.hs.get(i)?, Some(H::M(_))) || !matches!(self.hs.get(j)?, Some(H::M(_))) {
                    return None;
                }
                let other = match self.hs[j].take() {
                    Some(H::M(m)) => m,
                    _ => return None,
                };
                let m = match self.hs[i].as_mut() {
                    Some(H::M(m)) => m,
                    _ => return None,
                };
                tracked!(m.unsplit(other)).map(|_| Out::Unit)
            }
            "setbyte" => {
                let (i, k, b) = (num(1)?, num(2)?, num(3)?);
                let m = match self.hs.get_mut(i)?.as_mut()? {
                    H::M(m) => m,
                    _ => return None,
                };
                tracked!(m[k] = b as u8).map(|_| Out::Unit)
            }
            "fillspare" => {
                let (i, b) = (num(1)?, num(2)?);
                let m = match self.hs.get_mut(i)?.as_mut()? {
                    H::M(m) => m,
                    _ => return None,
                };
                tracked!({
                    for x in m.spare_capacity_mut() {
                        x.write(b as u8);
                    }
                })
                .map(|_| Out::Unit)
            }
            "drop" => {
                let i = num(1)?;
                let h = self.hs.get_mut(i)?.take()?;
                tracked!(drop(h)).map(|_| Out::Unit)
            }
            _ => return None,
        };
        Some(res)
    }

    fn push(&mut self, r: Result<H, ()>) -> Result<Out, ()> {
        r.map(|h| {
            self.hs.push(Some(h));
            Out::Handle(self.hs.len() - 1)
        })
    }
    fn put(&mut self, i: usize, r: Result<H, ()>) -> Result<Out, ()> {
        r.map(|h| {
            self.hs[i] = Some(h);
            Out::Handle(i)
        })
    }

    pub fn live(&self) -> Vec<usize> {
        self.hs.iter().enumerate().filter(|(_, h)| h.is_some()).map(|(i, _)| i).collect()
    }
}

fn print_events(evs: &[Event]) {
    for e in evs {
        println!(
            "ev {} {} {} {}{}{}",
            if e.alloc { "a" } else { "d" },
            e.serial,
            e.size,
            e.align,
            if e.noise { " noise" } else { "" },
            if e.bad != 0 { format!(" bad={}", e.bad) } else { String::new() }
        );
    }
}

/// Execute one script line and print its trace block. Returns false if the op was not applicable.
pub fn run_op(w: &mut World, op: &str) -> bool {
    // announce the op first: if the process dies inside the call (abort, unsafe-precondition check,
    // signal) the trace shows which one it was
    println!("try {}", op);
    let _ = ledger::drain_events();
    match w.exec(op) {
        None => false,
        Some(r) => {
            let evs = ledger::drain_events();
            match r {
                Ok(Out::Unit) => println!("op {} -> ok unit", op),
                Ok(Out::Handle(i)) => println!("op {} -> ok h {}", op, i),
                Ok(Out::Bool(b)) => println!("op {} -> ok bool {}", op, b as u8),
                Ok(Out::Err(i)) => println!("op {} -> ok err {}", op, i),
                Err(()) => println!("op {} -> panic", op),
            }
            print_events(&evs);
            w.print_handles();
            println!("end");
            true
        }
    }
}

pub fn begin_script(parity: &str, profile: &str) -> World {
    println!("script parity={} profile={}", parity, profile);
    let mut w = World::new();
    static OWNER_BASE: AtomicUsize = AtomicUsize::new(0);
    w.owner_base = OWNER_BASE.fetch_add(64, Ordering::SeqCst);
    w
}

/// Drop every surviving handle in the given order, then report the ledger balance.
pub fn end_script(w: &mut World, rng: &mut Rng, a1_before: usize) {
    let mut live = w.live();
    // random drop order
    for i in (1..live.len()).rev() {
        let j = rng.below(i as u64 + 1) as usize;
        live.swap(i, j);
    }
    for i in live {
        run_op(w, &format!("drop {}", i));
    }
    println!(
        "balance align1_live_delta={} ctl_live_delta={} violations={}",
        ledger::A1_TRACKED_LIVE.load(Ordering::SeqCst) as i64 - a1_before as i64,
        ledger::CTL_TRACKED_LIVE.load(Ordering::SeqCst) as i64 - w.ctl_base as i64,
        ledger::VIOLATIONS.load(Ordering::SeqCst)
    );
    // every handle is gone: the "static" memory of this script can go too (keeps the ledger's block table small).
    // Only when nothing is left alive — a leaked handle (a defect under test) may still point into it.
    if w.live().is_empty() {
        for p in w.statics.drain(..) {
            unsafe { drop(Box::from_raw(p)) };
        }
    }
}

// ------------------------------------------------------------------------------------------
// generators
// ------------------------------------------------------------------------------------------

const SETUPS: &[(&str, &[&str])] = &[
    ("static", &["fromstatic 0102030405060708"]),
    ("prom", &["copy 0102030405060708"]),
    ("prom-promoted", &["copy 0102030405060708", "clone 0"]),
    ("prom-sliced", &["copy 000102030405060708", "adv 0 1"]),
    ("shared", &["newvec 0102030405060708 12", "fromvec 0"]),
    ("shared2", &["newvec 0102030405060708 12", "fromvec 0", "clone 0"]),
    ("owner", &["owner 0102030405060708"]),
    ("frozen-vec", &["mfrom 0102030405060708", "freeze 0"]),
    ("frozen-shared", &["mcap 16", "extend 0 0102030405060708090a", "splitoff 0 8", "freeze 0"]),
    ("mut-vec", &["mcap 16", "extend 0 0102030405060708"]),
    ("mut-vec-off", &["mcap 16", "extend 0 ffff0102030405060708", "adv 0 2"]),
    ("mut-shared", &["mcap 16", "extend 0 0102030405060708090a", "splitoff 0 8"]),
    ("mut-shared-unique", &["mcap 16", "extend 0 ffffff0102030405060708", "splitto 0 3", "drop 1"]),
    ("mut-empty", &["mcap 0"]),
    ("mut-full", &["mfrom 0102030405060708"]),
    ("vec", &["newvec 0102030405060708 10"]),
    ("empty-bytes", &["copy -"]),
    // states that differ from the above only in their history (stale bookkeeping inside control blocks, offsets, uniqueness regained)
    ("prom-unique-again", &["copy 0102030405060708", "clone 0", "drop 1"]),
    ("shared-adv", &["newvec 0102030405060708 12", "fromvec 0", "adv 0 2"]),
    ("owner-sliced", &["owner 0102030405060708", "adv 0 2", "trunc 0 4"]),
    ("mut-vec-consumed", &["mcap 8", "extend 0 0102030405060708", "adv 0 8"]),
    ("frozen-vec-adv", &["mfrom 0102030405060708", "adv 0 3", "freeze 0"]),
    ("mut-shared-grown", &["mcap 16", "extend 0 010203", "splitoff 0 8", "drop 1", "extend 0 0405060708"]),
    ("frozen-shared-grown", &["mcap 16", "extend 0 010203", "splitoff 0 8", "drop 1", "extend 0 0405060708", "freeze 0"]),
    ("mut-arc-offset", &["mcap 16", "extend 0 0102030405060708090a", "splitto 0 3"]),
    ("two-full", &["mzero 8", "mzero 8"]),
    // two full neighbours (adjacent under the packing allocator), each promoted to the shared form on its own control block
    ("two-full-arc", &["mzero 8", "mzero 8", "splitoff 0 8", "drop 2", "splitoff 1 8", "drop 3"]),
    ("owner-zst", &["ownerz"]),
    ("mut-big-spare", &["mcap 4096", "extend 0 0102030405060708090a0b0c0d0e0f1011121314"]),
];

fn boundary_args(len: usize, cap: usize) -> Vec<usize> {
    let mut v = vec![0, 1, len.saturating_sub(1), len, len + 1, cap.saturating_sub(len), cap, cap + 1, cap + 3, 64,
                     (1usize << 63) - 1, 1usize << 63, (1usize << 63) + 1, usize::MAX - 8, usize::MAX - 1, usize::MAX,
                     usize::MAX - len, (usize::MAX - len).wrapping_add(1), usize::MAX - cap];
    v.sort();
    v.dedup();
    v
}

fn ops_for(w: &World, i: usize, rng: &mut Rng, boundary: bool) -> Vec<String> {
    // all single ops on handle i with boundary arguments (or one random op if !boundary)
    let mut v = Vec::new();
    let (kind, len, cap) = match w.hs[i].as_ref().unwrap() {
        H::B(b) => ('B', b.len(), b.len()),
        H::M(m) => ('M', m.len(), m.capacity()),
        H::V(x) => ('V', x.len(), x.capacity()),
    };
    let args = boundary_args(len, cap);
    let small: Vec<usize> = args.iter().copied().filter(|a| *a <= cap + 70).collect();
    match kind {
        'B' => {
            v.push(format!("clone {}", i));
            v.push(format!("uniq {}", i));
            v.push(format!("trymut {}", i));
            v.push(format!("tomut {}", i));
            v.push(format!("tovec {}", i));
            v.push(format!("clear {}", i));
            v.push(format!("sliceforeign {}", i));
            for a in &args {
                v.push(format!("splitoff {} {}", i, a));
                v.push(format!("splitto {} {}", i, a));
                v.push(format!("trunc {} {}", i, a));
                v.push(format!("adv {} {}", i, a));
                for b in [0usize, 1, len / 2, len, len + 1, usize::MAX] {
                    v.push(format!("slice {} {} {}", i, a, b));
                    v.push(format!("sliceinc {} {} {}", i, a, b));
                }
                v.push(format!("slicex {} {} {}", i, a, len));
                v.push(format!("ctb {} {}", i, a));
            }
            for off in 0..=len.min(3) {
                for l in 0..=(len - off).min(2) {
                    v.push(format!("sliceref {} {} {}", i, off, l));
                }
            }
        }
        'M' => {
            v.push(format!("clone {}", i));
            v.push(format!("split {}", i));
            v.push(format!("freeze {}", i));
            v.push(format!("tovec {}", i));
            v.push(format!("clear {}", i));
            v.push(format!("fillspare {} 238", i));
            v.push(format!("extend {} -", i));
            v.push(format!("extend {} a1a2a3", i));
            v.push(format!("extend {} {}", i, hex(&vec![0xb7u8; cap - len + 1])));
            v.push(format!("extend {} {}", i, hex(&vec![0xb8u8; 40])));
            for a in &args {
                v.push(format!("ctb {} {}", i, a));
                // (huge-but-valid sizes would make the allocator abort: only small or unrepresentable counts)
                if *a <= cap + 70 || *a >= (1usize << 63) {
                    v.push(format!("putbytes {} 7 {}", i, a));
                }
            }
            v.push(format!("wstr {} {}", i, hex("aé€😀".as_bytes())));
            for cp in [0x41u32, 0x80, 0xe9, 0xff, 0x100, 0x800, 0x10000] {
                v.push(format!("wchar {} {}", i, cp));
            }
            v.push(format!("extendit {} a1a2a3", i));
            v.push(format!("extendit {} {}", i, hex(&vec![0xb7u8; cap - len + 1])));
            v.push(format!("extendref {} {}", i, hex(&vec![0xb9u8; cap - len + 2])));
            v.push(format!("putslice {} {}", i, hex(&vec![0xbau8; cap - len + 1])));
            for a in &args {
                v.push(format!("splitoff {} {}", i, a));
                v.push(format!("splitto {} {}", i, a));
                v.push(format!("trunc {} {}", i, a));
                v.push(format!("adv {} {}", i, a));
                v.push(format!("reclaim {} {}", i, a));
                v.push(format!("setbyte {} {} 119", i, a));
                // huge-but-valid sizes would make the allocator abort: only sizes that are small or unrepresentable
                if *a <= cap + 70 || *a >= (1usize << 63) {
                    v.push(format!("reserve {} {}", i, a));
                    v.push(format!("resize {} {} 85", i, a));
                }
            }
            let _ = small;
        }
        _ => {
            v.push(format!("fromvec {}", i));
            v.push(format!("clone {}", i));
            v.push(format!("trunc {} {}", i, len / 2));
        }
    }
    if boundary {
        v
    } else {
        vec![rng.pick(&v).clone()]
    }
}

/// in-contract ops on handle i (arguments inside the documented ranges)
fn valid_ops(w: &World, i: usize) -> Vec<String> {
    let mut v = Vec::new();
    let (kind, len, cap) = match w.hs[i].as_ref().unwrap() {
        H::B(b) => ('B', b.len(), b.len()),
        H::M(m) => ('M', m.len(), m.capacity()),
        H::V(x) => ('V', x.len(), x.capacity()),
    };
    let mut pts = vec![0, 1.min(len), len / 2, len.saturating_sub(1), len];
    pts.sort();
    pts.dedup();
    match kind {
        'B' => {
            for o in ["clone", "uniq", "trymut", "tomut", "tovec", "clear"] {
                v.push(format!("{} {}", o, i));
            }
            for a in &pts {
                v.push(format!("splitoff {} {}", i, a));
                v.push(format!("splitto {} {}", i, a));
                v.push(format!("trunc {} {}", i, a));
                v.push(format!("adv {} {}", i, a));
                for b in &pts {
                    if a <= b {
                        v.push(format!("slice {} {} {}", i, a, b));
                    }
                }
            }
        }
        'M' => {
            for o in ["clone", "split", "freeze", "tovec", "clear"] {
                v.push(format!("{} {}", o, i));
            }
            v.push(format!("fillspare {} 238", i));
            v.push(format!("extend {} a1a2a3", i));
            v.push(format!("extend {} {}", i, hex(&vec![0xb7u8; cap - len + 1])));
            let mut cpts = pts.clone();
            cpts.extend([cap, (len + cap) / 2]);
            cpts.sort();
            cpts.dedup();
            for a in &cpts {
                v.push(format!("splitoff {} {}", i, a));
                v.push(format!("reserve {} {}", i, a));
                v.push(format!("reclaim {} {}", i, a));
                v.push(format!("resize {} {} 85", i, a));
            }
            // requests around the size of the allocation the handle lives in
            if let Some(H::M(m)) = w.hs[i].as_ref() {
                if let Some(b) = ledger::find_block(m.as_ptr() as usize) {
                    if m.capacity() > 0 {
                        let a = b.size;
                        for n in [a.saturating_sub(len + 1), a.saturating_sub(len), a - len.min(a) + 1, a.saturating_sub(1), a, a + 1] {
                            v.push(format!("reserve {} {}", i, n));
                            v.push(format!("reclaim {} {}", i, n));
                        }
                    }
                }
            }
            v.push(format!("reserve {} {}", i, cap + 5));
            v.push(format!("reclaim {} {}", i, cap - len + 1));
            v.push(format!("reclaim {} {}", i, cap + 1));
            for a in &pts {
                v.push(format!("splitto {} {}", i, a));
                v.push(format!("trunc {} {}", i, a));
                v.push(format!("adv {} {}", i, a));
                if *a < len {
                    v.push(format!("setbyte {} {} 119", i, a));
                }
            }
        }
        _ => {
            v.push(format!("fromvec {}", i));
            v.push(format!("clone {}", i));
            v.push(format!("trunc {} {}", i, len / 2));
        }
    }
    v
}

/// the same model operation through a different public entry point, now and then
fn random_op(w: &World, rng: &mut Rng) -> String {
    let o = random_op0(w, rng);
    let swap = |o: &str, from: &str, to: &str| format!("{}{}", to, &o[from.len()..]);
    if o.starts_with("extend ") && rng.chance(1, 3) {
        let to = *rng.pick(&["extendit ", "extendref ", "putslice "]);
        return swap(&o, "extend ", to);
    }
    if o.starts_with("extend ") && rng.chance(1, 8) {
        // a single character through fmt::Write (every UTF-8 length class, incl. the Latin-1 range)
        let i = o.split_whitespace().nth(1).unwrap_or("0").to_string();
        let cp = *rng.pick(&[0x41u32, 0x7f, 0x80, 0xe9, 0xff, 0x100, 0x7ff, 0x800, 0xffff, 0x10000, 0x1f600]);
        return format!("wchar {} {}", i, cp);
    }
    if o.starts_with("copy ") && rng.chance(1, 3) {
        return swap(&o, "copy ", "collect ");
    }
    if o.starts_with("mfrom ") && rng.chance(1, 3) {
        return swap(&o, "mfrom ", "mcollect ");
    }
    if o.starts_with("splitto ") && rng.chance(1, 3) {
        return swap(&o, "splitto ", "ctb ");
    }
    if o.starts_with("slice ") && rng.chance(1, 8) {
        return swap(&o, "slice ", "slicex ");
    }
    o
}

fn random_op0(w: &World, rng: &mut Rng) -> String {
    let live = w.live();
    if live.is_empty() || (live.len() < 7 && rng.chance(1, 6)) {
        let n = rng.below(12) as usize;
        let bs = hex(&rng.bytes(n));
        return match rng.below(8) {
            0 => format!("fromstatic {}", bs),
            1 => format!("newvec {} {}", bs, n + rng.below(6) as usize),
            2 => format!("copy {}", bs),
            3 => {
                if rng.chance(1, 6) && !w.has_zst_owner() {
                    "ownerz".to_string()
                } else {
                    format!("owner {}{}", bs, if rng.chance(1, 8) { " panic" } else { "" })
                }
            }
            4 => format!("mcap {}", rng.below(40)),
            5 => format!("mfrom {}", bs),
            6 => format!("mzero {}", n),
            _ => format!("mcap {}", 1024 + rng.below(3000)),
        };
    }
    let i = *rng.pick(&live);
    if live.len() >= 7 && rng.chance(1, 3) {
        return format!("drop {}", i);
    }
    // unsplit of two BytesMut handles (adjacent halves are likely after a split)
    if rng.chance(1, 8) {
        let ms: Vec<usize> = live.iter().copied().filter(|k| matches!(w.hs[*k], Some(H::M(_)))).collect();
        if ms.len() >= 2 {
            let a = *rng.pick(&ms);
            let b = *rng.pick(&ms);
            if a != b {
                return format!("unsplit {} {}", a, b);
            }
        }
    }
    if rng.chance(1, 10) {
        return format!("drop {}", i);
    }
    // mostly-valid arguments (85 %), plus a boundary / out-of-contract stream
    if rng.chance(85, 100) {
        let v = valid_ops(w, i);
        // pick the op kind first, then one of its argument choices, so that kinds are uniform
        let kinds: Vec<&str> = {
            let mut k: Vec<&str> = v.iter().map(|o| o.split_whitespace().next().unwrap()).collect();
            k.sort();
            k.dedup();
            k
        };
        if let Some(f) = std::env::var("VERIF_FOCUS").ok().filter(|f| kinds.contains(&f.as_str()) && rng.chance(1, 2)) {
            let of: Vec<&String> = v.iter().filter(|o| o.starts_with(&format!("{} ", f))).collect();
            return (*rng.pick(&of)).clone();
        }
        let kind = *rng.pick(&kinds);
        let of_kind: Vec<&String> = v.iter().filter(|o| o.split_whitespace().next() == Some(kind)).collect();
        return (*rng.pick(&of_kind)).clone();
    }
    let cands = ops_for(w, i, rng, true);
    for _ in 0..4 {
        let c = rng.pick(&cands).clone();
        let huge = c.split_whitespace().skip(2).any(|t| t.parse::<u128>().map(|v| v > 1 << 40).unwrap_or(false));
        if !huge || rng.chance(1, 6) {
            return c;
        }
    }
    rng.pick(&cands).clone()
}

pub fn run(args: &[String], parity: &str, profile: &str) -> i32 {
    let seed = seed_from_env();
    let thorough = tier_thorough();
    let mut rng = Rng::new(seed);
    if std::env::var("VERIF_PANIC_MSG").is_err() {
        std::panic::set_hook(Box::new(|_| {}));
    }
    println!("hseq seed={} thorough={}", seed, thorough);
    match args.first().map(|s| s.as_str()) {
        Some("replay") => {
            let text = std::fs::read_to_string(&args[1]).unwrap_or_default();
            let a1 = ledger::A1_TRACKED_LIVE.load(Ordering::SeqCst);
            let mut w = begin_script(parity, profile);
            for line in text.lines() {
                if let Some(o) = line.strip_prefix("op ") {
                    let o = o.split(" -> ").next().unwrap().trim();
                    if !run_op(&mut w, o) {
                        println!("bad-op {}", o);
                    }
                }
            }
            end_script(&mut w, &mut rng, a1);
            0
        }
        Some("boundary") => {
            // every starting representation x every single op with boundary arguments, then a second op
            for (_name, setup) in SETUPS {
                // number of candidate ops is taken from a probe world
                let mut probe = begin_script(parity, profile);
                let a1 = ledger::A1_TRACKED_LIVE.load(Ordering::SeqCst);
                for s in *setup {
                    run_op(&mut probe, s);
                }
                let cands = ops_for(&probe, 0, &mut rng, true);
                end_script(&mut probe, &mut rng, a1);
                for c in &cands {
                    let a1 = ledger::A1_TRACKED_LIVE.load(Ordering::SeqCst);
                    let mut w = begin_script(parity, profile);
                    for s in *setup {
                        run_op(&mut w, s);
                    }
                    run_op(&mut w, c);
                    // follow-up: a couple of random ops on whatever is alive, then drop everything
                    for _ in 0..(if thorough { 4 } else { 2 }) {
                        if w.live().is_empty() {
                            break;
                        }
                        let o = random_op(&w, &mut rng);
                        run_op(&mut w, &o);
                    }
                    end_script(&mut w, &mut rng, a1);
                }
            }
            0
        }
        Some("pairs") => {
            // every starting representation x every in-contract op kind/argument x every second op on
            // any live handle (sampled in the quick tier), then an epilogue that makes damage visible
            for (_name, setup) in SETUPS {
                let mut probe = begin_script(parity, profile);
                let a1 = ledger::A1_TRACKED_LIVE.load(Ordering::SeqCst);
                for s in *setup {
                    run_op(&mut probe, s);
                }
                let first: Vec<String> = probe.live().iter().flat_map(|i| valid_ops(&probe, *i)).collect();
                end_script(&mut probe, &mut rng, a1);
                for c1 in &first {
                    // second ops are computed on the state after c1
                    let mut p2 = begin_script(parity, profile);
                    let a1 = ledger::A1_TRACKED_LIVE.load(Ordering::SeqCst);
                    for s in *setup {
                        run_op(&mut p2, s);
                    }
                    run_op(&mut p2, c1);
                    let second: Vec<String> = p2.live().iter().flat_map(|i| valid_ops(&p2, *i)).collect();
                    end_script(&mut p2, &mut rng, a1);
                    for c2 in &second {
                        if !thorough && !rng.chance(1, 6) {
                            continue;
                        }
                        let a1 = ledger::A1_TRACKED_LIVE.load(Ordering::SeqCst);
                        let mut w = begin_script(parity, profile);
                        for s in *setup {
                            run_op(&mut w, s);
                        }
                        run_op(&mut w, c1);
                        run_op(&mut w, c2);
                        // epilogue: a third in-contract op, then write into every spare capacity
                        if !w.live().is_empty() {
                            let o = random_op(&w, &mut rng);
                            run_op(&mut w, &o);
                        }
                        for i in w.live() {
                            if matches!(w.hs[i], Some(H::M(_))) {
                                run_op(&mut w, &format!("fillspare {} 204", i));
                            }
                        }
                        end_script(&mut w, &mut rng, a1);
                    }
                }
            }
            0
        }
        _ => {
            let walks = args.first().and_then(|s| s.parse().ok()).unwrap_or(if thorough { 20000 } else { 1500 });
            let maxlen = if thorough { 120 } else { 40 };
            for _ in 0..walks {
                let a1 = ledger::A1_TRACKED_LIVE.load(Ordering::SeqCst);
                let mut w = begin_script(parity, profile);
                let n = rng.range(3, maxlen);
                // start from one of the representations half of the time
                if rng.chance(1, 2) {
                    let (_, setup) = rng.pick(SETUPS);
                    for s in *setup {
                        run_op(&mut w, s);
                    }
                }
                for _ in 0..n {
                    let o = random_op(&w, &mut rng);
                    run_op(&mut w, &o);
                }
                end_script(&mut w, &mut rng, a1);
            }
            0
        }
    }
}
