/-
Helper lemmas for C17 over the general adversary (Model/AdvGen.lean): every consumer is `Safe` (never `ub`) whatever
the answer function, and the length / bound lemmas of Lemmas/Adv.lean and Lemmas/AdvMore.lean hold unchanged.  The
`Res` monad laws, `Safe` and the primitive lemmas (`sliceTo_*`, `unsafeRead_*`, `unsafeWrite_*`, `reserveCap_*`) are
reused from those files.
-/
import BytesVerif.Model.AdvGen
import BytesVerif.Lemmas.Adv
import BytesVerif.Lemmas.AdvMore
namespace BytesVerif.AdvGen
open BytesVerif.Adv

/-! ### the primitives -/

theorem remaining_safe (b : GAdv) : Safe (remaining b) := by
  unfold remaining; split <;> simp

theorem chunk_safe (b : GAdv) : Safe (chunk b) := by
  unfold chunk; split <;> simp

theorem advance_safe (b : GAdv) (n : Nat) : Safe (advance b n) := by
  unfold advance; split <;> simp

/-- whatever is claimed, the slice handed out lies inside the adversary's own memory -/
theorem chunk_length_le {b b' : GAdv} {s : Bs} (h : chunk b = .ok (s, b')) : s.length ≤ b.backing.length := by
  unfold chunk at h
  split at h
  · cases h
  · cases h; simp [List.length_take]; omega

/-! ### `try_copy_to_slice` and what is built on it -/

theorem tryCopyLoop_safe (fuel : Nat) (b : GAdv) (need : Nat) (acc : Bs) :
    Safe (tryCopyLoop fuel b need acc) := by
  induction fuel generalizing b need acc with
  | zero => simp [tryCopyLoop]
  | succ fuel ih =>
    simp only [tryCopyLoop]
    apply Safe.ite
    · intro _; simp
    · intro _
      refine Safe.bind (chunk_safe b) fun src _ => ?_
      refine Safe.bind (sliceTo_safe _ _) fun part _ => ?_
      refine Safe.bind (advance_safe _ _) fun b' _ => ?_
      exact ih _ _ _

theorem tryCopyLoop_len (fuel : Nat) (b b' : GAdv) (need : Nat) (acc bs : Bs)
    (hr : tryCopyLoop fuel b need acc = .ok (bs, b')) : bs.length = acc.length + need := by
  induction fuel generalizing b need acc with
  | zero => simp [tryCopyLoop] at hr
  | succ fuel ih =>
    simp only [tryCopyLoop] at hr
    split at hr
    · next h0 =>
      cases hr; omega
    · obtain ⟨src, _, hr⟩ := bind_eq_ok hr
      obtain ⟨part, hp, hr⟩ := bind_eq_ok hr
      obtain ⟨b1, _, hr⟩ := bind_eq_ok hr
      have hl := sliceTo_length hp
      have := ih _ _ _ hr
      simp only [List.length_append, hl] at this
      omega

theorem tryCopyToSlice_safe (fuel : Nat) (b : GAdv) (n : Nat) : Safe (tryCopyToSlice fuel b n) := by
  unfold tryCopyToSlice
  refine Safe.bind (remaining_safe b) fun r _ => ?_
  apply Safe.ite
  · intro _; simp
  · intro _
    refine Safe.bind (tryCopyLoop_safe _ _ _ _) fun p _ => ?_
    simp

theorem tryCopyToSlice_len (fuel : Nat) (b b' : GAdv) (n : Nat) (bs : Bs)
    (hr : tryCopyToSlice fuel b n = .ok (some bs, b')) : bs.length = n := by
  unfold tryCopyToSlice at hr
  obtain ⟨r, _, hr⟩ := bind_eq_ok hr
  split at hr
  · cases hr
  · obtain ⟨⟨bs1, b1⟩, h1, hr⟩ := bind_eq_ok hr
    have := tryCopyLoop_len _ _ _ _ _ _ h1
    simp only [pure_eq, Res.ok.injEq, Prod.mk.injEq, Option.some.injEq] at hr
    obtain ⟨rfl, _⟩ := hr
    simpa using this

theorem copyToSlice_safe (fuel : Nat) (b : GAdv) (n : Nat) : Safe (copyToSlice fuel b n) := by
  unfold copyToSlice
  refine Safe.bind (tryCopyToSlice_safe _ _ _) fun p _ => ?_
  obtain ⟨o, b'⟩ := p
  cases o <;> simp

theorem copyToSlice_len (fuel : Nat) (b b' : GAdv) (n : Nat) (bs : Bs)
    (hr : copyToSlice fuel b n = .ok (bs, b')) : bs.length = n := by
  unfold copyToSlice at hr
  obtain ⟨⟨o, b1⟩, h1, hr⟩ := bind_eq_ok hr
  cases o with
  | none => simp at hr
  | some bs1 =>
    simp only [pure_eq, Res.ok.injEq, Prod.mk.injEq] at hr
    obtain ⟨rfl, rfl⟩ := hr
    exact tryCopyToSlice_len _ _ _ _ _ h1

theorem tryGetFixed_safe (fuel : Nat) (b : GAdv) (size : Nat) : Safe (tryGetFixed fuel b size) := by
  unfold tryGetFixed
  refine Safe.bind (remaining_safe b) fun r _ => ?_
  apply Safe.ite
  · intro _; simp
  · intro _
    refine Safe.bind (chunk_safe _) fun c _ => ?_
    apply Safe.ite
    · intro hc
      refine Safe.bind (unsafeRead_safe_of_le ?_) fun bytes _ => ?_
      · simp [List.length_take]; omega
      · refine Safe.bind (advance_safe _ _) fun b' _ => ?_
        simp
    · intro _
      refine Safe.bind (copyToSlice_safe _ _ _) fun p _ => ?_
      simp

theorem tryGetFixed_len (fuel : Nat) (b b' : GAdv) (size : Nat) (bs : Bs)
    (hr : tryGetFixed fuel b size = .ok (some bs, b')) : bs.length = size := by
  unfold tryGetFixed at hr
  obtain ⟨r, _, hr⟩ := bind_eq_ok hr
  split at hr
  · cases hr
  · obtain ⟨c, _, hr⟩ := bind_eq_ok hr
    split at hr
    · obtain ⟨bytes, hb, hr⟩ := bind_eq_ok hr
      obtain ⟨b1, _, hr⟩ := bind_eq_ok hr
      simp only [pure_eq, Res.ok.injEq, Prod.mk.injEq, Option.some.injEq] at hr
      obtain ⟨rfl, _⟩ := hr
      exact unsafeRead_length hb
    · obtain ⟨⟨bs1, b1⟩, h1, hr⟩ := bind_eq_ok hr
      simp only [pure_eq, Res.ok.injEq, Prod.mk.injEq, Option.some.injEq] at hr
      obtain ⟨rfl, _⟩ := hr
      exact copyToSlice_len _ _ _ _ _ h1

theorem tryGetVar_safe (fuel : Nat) (b : GAdv) (nbytes : Nat) : Safe (tryGetVar fuel b nbytes) := by
  unfold tryGetVar
  exact Safe.ite (fun _ => safe_panic) (fun _ => tryCopyToSlice_safe _ _ _)

theorem getU8_safe (b : GAdv) : Safe (getU8 b) := by
  unfold getU8
  refine Safe.bind (remaining_safe b) fun r _ => ?_
  apply Safe.ite
  · intro _; simp
  · intro _
    refine Safe.bind (chunk_safe _) fun c _ => ?_
    obtain ⟨s, b1⟩ := c
    cases s with
    | nil => simp
    | cons x xs =>
      refine Safe.bind (advance_safe _ _) fun b' _ => ?_
      simp

theorem iterNext_safe (b : GAdv) : Safe (iterNext b) := by
  unfold iterNext
  refine Safe.bind (remaining_safe b) fun r _ => ?_
  apply Safe.ite
  · intro _; simp
  · intro _
    refine Safe.bind (chunk_safe _) fun c _ => ?_
    obtain ⟨s, b1⟩ := c
    cases s with
    | nil => simp
    | cons x xs =>
      refine Safe.bind (advance_safe _ _) fun b' _ => ?_
      simp

theorem readerRead_safe (fuel : Nat) (b : GAdv) (n : Nat) : Safe (readerRead fuel b n) := by
  unfold readerRead
  exact Safe.bind (remaining_safe b) fun r _ => copyToSlice_safe _ _ _

theorem takeChunksVectored_safe (b : GAdv) (limit dstLen : Nat) :
    Safe (takeChunksVectored b limit dstLen) := by
  unfold takeChunksVectored
  apply Safe.ite (fun _ => safe_pure _) fun _ => ?_
  apply Safe.ite (fun _ => safe_pure _) fun _ => ?_
  refine Safe.bind (remaining_safe b) fun r _ => ?_
  apply Safe.ite (fun _ => safe_pure _) fun _ => ?_
  exact Safe.bind (chunk_safe _) fun c _ => safe_pure _

/-! ### `put` into a fixed destination -/

theorem putFixedLoop_safe (fuel : Nat) (b : GAdv) (room : Nat) (acc : Bs) :
    Safe (putFixedLoop fuel b room acc) := by
  induction fuel generalizing b room acc with
  | zero => simp [putFixedLoop]
  | succ fuel ih =>
    simp only [putFixedLoop]
    refine Safe.bind (remaining_safe b) fun r _ => ?_
    apply Safe.ite (fun _ => safe_pure _) fun _ => ?_
    refine Safe.bind (chunk_safe _) fun s _ => ?_
    refine Safe.bind (sliceTo_safe _ _) fun part _ => ?_
    apply Safe.ite (fun _ => safe_panic) fun _ => ?_
    refine Safe.bind (advance_safe _ _) fun b' _ => ?_
    exact ih _ _ _

theorem putFixed_safe (fuel : Nat) (b : GAdv) (room : Nat) : Safe (putFixed fuel b room) := by
  unfold putFixed
  refine Safe.bind (remaining_safe b) fun r _ => ?_
  exact Safe.ite (fun _ => safe_panic) fun _ => putFixedLoop_safe _ _ _ _

theorem putFixedLoop_len (fuel : Nat) (b : GAdv) (room room' : Nat) (acc out : Bs)
    (hr : putFixedLoop fuel b room acc = .ok (out, room')) : out.length + room' = acc.length + room := by
  induction fuel generalizing b room acc with
  | zero => simp [putFixedLoop] at hr
  | succ fuel ih =>
    simp only [putFixedLoop] at hr
    obtain ⟨r, _, hr⟩ := bind_eq_ok hr
    split at hr
    · simp only [pure_eq, Res.ok.injEq, Prod.mk.injEq] at hr
      obtain ⟨rfl, rfl⟩ := hr
      rfl
    · obtain ⟨s, _, hr⟩ := bind_eq_ok hr
      obtain ⟨part, hp, hr⟩ := bind_eq_ok hr
      have hl := sliceTo_length hp
      split at hr
      · cases hr
      · obtain ⟨b1, _, hr⟩ := bind_eq_ok hr
        have := ih _ _ _ hr
        simp only [List.length_append, hl] at this
        omega

/-! ### `put` into a growing destination -/

theorem putGrowLoop_safe (fuel : Nat) (b : GAdv) (len cap : Nat) :
    Safe (putGrowLoop fuel b len cap) := by
  induction fuel generalizing b len cap with
  | zero => simp [putGrowLoop]
  | succ fuel ih =>
    simp only [putGrowLoop]
    refine Safe.bind (remaining_safe b) fun r _ => ?_
    apply Safe.ite (fun _ => safe_pure _) fun _ => ?_
    refine Safe.bind (chunk_safe _) fun s _ => ?_
    refine Safe.bind (unsafeWrite_safe_of_le ?_) fun _ _ => ?_
    · split <;> omega
    · refine Safe.bind (advance_safe _ _) fun b' _ => ?_
      exact ih _ _ _

theorem putGrowLoop_inv (fuel : Nat) (b : GAdv) (len cap len' cap' : Nat) (h : len ≤ cap)
    (hr : putGrowLoop fuel b len cap = .ok (len', cap')) : len' ≤ cap' := by
  induction fuel generalizing b len cap with
  | zero => simp [putGrowLoop] at hr
  | succ fuel ih =>
    simp only [putGrowLoop] at hr
    obtain ⟨r, _, hr⟩ := bind_eq_ok hr
    split at hr
    · simp only [pure_eq, Res.ok.injEq, Prod.mk.injEq] at hr
      obtain ⟨rfl, rfl⟩ := hr
      exact h
    · obtain ⟨s, _, hr⟩ := bind_eq_ok hr
      obtain ⟨_, _, hr⟩ := bind_eq_ok hr
      obtain ⟨b1, _, hr⟩ := bind_eq_ok hr
      refine ih _ _ _ ?_ hr
      split <;> omega

/-! ### round 8: `Take` / `Chain` / `Limit` around the adversary -/

theorem takeRemaining_safe (b : GAdv) (limit : Nat) : Safe (takeRemaining b limit) := by
  unfold takeRemaining
  exact Safe.bind (remaining_safe b) fun _ _ => safe_pure _

theorem takeChunk_safe (b : GAdv) (limit : Nat) : Safe (takeChunk b limit) := by
  unfold takeChunk
  exact Safe.bind (chunk_safe b) fun _ _ => Safe.bind (sliceTo_safe _ _) fun _ _ => safe_pure _

theorem takeChunk_length {b b' : GAdv} {limit : Nat} {s : Bs} (h : takeChunk b limit = .ok (s, b')) :
    s.length ≤ limit := by
  unfold takeChunk at h
  obtain ⟨c, _, h⟩ := bind_eq_ok h
  obtain ⟨s1, hs, h⟩ := bind_eq_ok h
  simp only [pure_eq, Res.ok.injEq, Prod.mk.injEq] at h
  obtain ⟨rfl, _⟩ := h
  have := sliceTo_length hs
  omega

theorem takeAdvance_safe (b : GAdv) (limit cnt : Nat) : Safe (takeAdvance b limit cnt) := by
  unfold takeAdvance
  exact Safe.ite (fun _ => safe_panic) fun _ => Safe.bind (advance_safe _ _) fun _ _ => safe_pure _

theorem takeAdvance_eq_ok {b b' : GAdv} {limit cnt limit' : Nat} (h : takeAdvance b limit cnt = .ok (b', limit')) :
    cnt ≤ limit ∧ limit' = limit - cnt := by
  unfold takeAdvance at h
  split at h
  · cases h
  · obtain ⟨b1, _, h⟩ := bind_eq_ok h
    simp only [pure_eq, Res.ok.injEq, Prod.mk.injEq] at h
    exact ⟨by omega, h.2.symm⟩

theorem putGrowTakeLoop_safe (fuel : Nat) (b : GAdv) (limit len cap : Nat) :
    Safe (putGrowTakeLoop fuel b limit len cap) := by
  induction fuel generalizing b limit len cap with
  | zero => simp [putGrowTakeLoop]
  | succ fuel ih =>
    simp only [putGrowTakeLoop]
    refine Safe.bind (takeRemaining_safe b limit) fun r _ => ?_
    apply Safe.ite (fun _ => safe_pure _) fun _ => ?_
    refine Safe.bind (takeChunk_safe _ limit) fun s _ => ?_
    refine Safe.bind (unsafeWrite_safe_of_le (reserveCap_ge _ _ _)) fun _ _ => ?_
    refine Safe.bind (takeAdvance_safe _ _ _) fun p _ => ?_
    exact ih _ _ _ _

/-- what `put(src.take(limit))` appends is at most `limit` bytes and the destination keeps `len ≤ cap` -/
theorem putGrowTakeLoop_inv (fuel : Nat) (b : GAdv) (limit len cap len' cap' : Nat) (h : len ≤ cap)
    (hr : putGrowTakeLoop fuel b limit len cap = .ok (len', cap')) : len' ≤ len + limit ∧ len ≤ len' ∧ len' ≤ cap' := by
  induction fuel generalizing b limit len cap with
  | zero => simp [putGrowTakeLoop] at hr
  | succ fuel ih =>
    simp only [putGrowTakeLoop] at hr
    obtain ⟨r, _, hr⟩ := bind_eq_ok hr
    split at hr
    · simp only [pure_eq, Res.ok.injEq, Prod.mk.injEq] at hr
      obtain ⟨rfl, rfl⟩ := hr
      omega
    · obtain ⟨⟨s, b0⟩, hs, hr⟩ := bind_eq_ok hr
      obtain ⟨_, _, hr⟩ := bind_eq_ok hr
      obtain ⟨⟨b1, l1⟩, ha, hr⟩ := bind_eq_ok hr
      dsimp only at ha hr
      have hsl := takeChunk_length hs
      obtain ⟨_, rfl⟩ := takeAdvance_eq_ok ha
      have hm := reserveCap_mono len cap s.length h
      have := ih _ _ _ _ hm hr
      omega

theorem defaultCopyToBytes_safe (fuel : Nat) (b : GAdv) (len : Nat) : Safe (defaultCopyToBytes fuel b len) := by
  unfold defaultCopyToBytes
  refine Safe.bind (remaining_safe b) fun r _ => ?_
  apply Safe.ite (fun _ => safe_panic) fun _ => ?_
  exact Safe.bind (putGrowTakeLoop_safe _ _ _ _ _) fun _ _ => safe_pure _

theorem defaultCopyToBytes_le (fuel : Nat) (b : GAdv) (len n : Nat)
    (hr : defaultCopyToBytes fuel b len = .ok n) : n ≤ len := by
  unfold defaultCopyToBytes at hr
  obtain ⟨r, _, hr⟩ := bind_eq_ok hr
  split at hr
  · cases hr
  · obtain ⟨⟨n', c'⟩, hp, hr⟩ := bind_eq_ok hr
    simp only [pure_eq, Res.ok.injEq] at hr
    subst hr
    have := putGrowTakeLoop_inv _ _ _ _ _ _ _ (Nat.zero_le _) hp
    omega

theorem takeCopyToBytes_safe (fuel : Nat) (b : GAdv) (lim len : Nat) : Safe (takeCopyToBytes fuel b lim len) := by
  unfold takeCopyToBytes
  refine Safe.bind (takeRemaining_safe b lim) fun r _ => ?_
  exact Safe.ite (fun _ => safe_panic) fun _ => defaultCopyToBytes_safe _ _ _

theorem chainCopyToBytes_safe (fuel : Nat) (b : GAdv) (bLen len : Nat) : Safe (chainCopyToBytes fuel b bLen len) := by
  unfold chainCopyToBytes
  refine Safe.bind (remaining_safe b) fun r _ => ?_
  apply Safe.ite (fun _ => defaultCopyToBytes_safe _ _ _) fun _ => ?_
  apply Safe.ite (fun _ => Safe.ite (fun _ => safe_panic) fun _ => safe_pure _) fun _ => ?_
  apply Safe.ite (fun _ => safe_panic) fun _ => ?_
  refine Safe.bind (putGrowLoop_safe _ _ _ _) fun p _ => ?_
  refine Safe.bind (unsafeWrite_safe_of_le ?_) fun _ _ => safe_pure _
  simpa using reserveCap_ge p.1 p.2 (len - r.1)

theorem chainChunksVectored_safe (b : GAdv) (bLen : Nat) : Safe (chainChunksVectored b bLen) := by
  unfold chainChunksVectored
  refine Safe.bind (remaining_safe b) fun r _ => ?_
  apply Safe.ite (fun _ => Safe.bind (remaining_safe _) fun _ _ => safe_pure _) fun _ => ?_
  refine Safe.bind (chunk_safe _) fun c _ => ?_
  exact Safe.bind (remaining_safe _) fun _ _ => safe_pure _

/-- never more slices than the caller's array holds (`dst.len() ≥ 2`) -/
theorem chainChunksVectored_le (b : GAdv) (bLen n : Nat) (hr : chainChunksVectored b bLen = .ok n) : n ≤ 2 := by
  unfold chainChunksVectored at hr
  obtain ⟨r, _, hr⟩ := bind_eq_ok hr
  split at hr
  · obtain ⟨r2, _, hr⟩ := bind_eq_ok hr
    simp only [pure_eq, Res.ok.injEq] at hr; subst hr
    split
    · split <;> omega
    · omega
  · obtain ⟨c, _, hr⟩ := bind_eq_ok hr
    obtain ⟨r2, _, hr⟩ := bind_eq_ok hr
    simp only [pure_eq, Res.ok.injEq] at hr; subst hr
    split
    · split <;> omega
    · omega

theorem chainGetFixed_safe (fuel : Nat) (pre : Bs) (b : GAdv) (size : Nat) : Safe (chainGetFixed fuel pre b size) := by
  unfold chainGetFixed
  refine Safe.bind (remaining_safe b) fun r _ => ?_
  apply Safe.ite (fun _ => safe_panic) fun _ => ?_
  refine Safe.bind (remaining_safe _) fun r2 _ => ?_
  apply Safe.ite (fun _ => safe_panic) fun _ => ?_
  exact Safe.bind (tryCopyLoop_safe _ _ _ _) fun _ _ => safe_pure _

theorem chainGetFixed_len (fuel : Nat) (pre : Bs) (b : GAdv) (size : Nat) (bs : Bs) (hp : pre.length ≤ size)
    (hr : chainGetFixed fuel pre b size = .ok bs) : bs.length = size := by
  unfold chainGetFixed at hr
  obtain ⟨r, _, hr⟩ := bind_eq_ok hr
  split at hr
  · cases hr
  · obtain ⟨r2, _, hr⟩ := bind_eq_ok hr
    split at hr
    · cases hr
    · obtain ⟨⟨bs', b'⟩, hl, hr⟩ := bind_eq_ok hr
      simp only [pure_eq, Res.ok.injEq] at hr
      subst hr
      have := tryCopyLoop_len _ _ _ _ _ _ hl
      omega

theorem vecPut_safe (fuel : Nat) (b : GAdv) (len cap : Nat) : Safe (vecPut fuel b len cap) := by
  unfold vecPut
  exact Safe.bind (remaining_safe b) fun _ _ => putGrowLoop_safe _ _ _ _

theorem putLimitLoop_safe (fuel : Nat) (b : GAdv) (limit len cap : Nat) :
    Safe (putLimitLoop fuel b limit len cap) := by
  induction fuel generalizing b limit len cap with
  | zero => simp [putLimitLoop]
  | succ fuel ih =>
    simp only [putLimitLoop]
    refine Safe.bind (remaining_safe b) fun r _ => ?_
    apply Safe.ite (fun _ => safe_pure _) fun _ => ?_
    refine Safe.bind (chunk_safe _) fun s _ => ?_
    refine Safe.bind (sliceTo_safe _ _) fun _ _ => ?_
    apply Safe.ite (fun _ => safe_panic) fun _ => ?_
    apply Safe.ite (fun _ => safe_panic) fun _ => ?_
    refine Safe.bind (advance_safe _ _) fun b' _ => ?_
    exact ih _ _ _ _

theorem putLimit_safe (fuel : Nat) (b : GAdv) (limit len cap : Nat) : Safe (putLimit fuel b limit len cap) := by
  unfold putLimit
  refine Safe.bind (remaining_safe b) fun r _ => ?_
  exact Safe.ite (fun _ => safe_panic) fun _ => putLimitLoop_safe _ _ _ _ _

/-- `Limit` under a lying source: bytes written plus the limit left is the limit it had, and `len ≤ cap` is kept -/
theorem putLimitLoop_inv (fuel : Nat) (b : GAdv) (limit len cap len' cap' limit' : Nat) (h : len ≤ cap)
    (hr : putLimitLoop fuel b limit len cap = .ok (len', cap', limit')) :
    len' + limit' = len + limit ∧ len' ≤ cap' := by
  induction fuel generalizing b limit len cap with
  | zero => simp [putLimitLoop] at hr
  | succ fuel ih =>
    simp only [putLimitLoop] at hr
    obtain ⟨r, _, hr⟩ := bind_eq_ok hr
    split at hr
    · simp only [pure_eq, Res.ok.injEq, Prod.mk.injEq] at hr
      obtain ⟨rfl, rfl, rfl⟩ := hr
      exact ⟨rfl, h⟩
    · obtain ⟨s, _, hr⟩ := bind_eq_ok hr
      obtain ⟨_, _, hr⟩ := bind_eq_ok hr
      split at hr
      · cases hr
      · split at hr
        · cases hr
        · obtain ⟨b1, _, hr⟩ := bind_eq_ok hr
          have hc : len ≤ chunkMutCap len cap := by unfold chunkMutCap; split <;> omega
          have := ih _ _ _ _ (by omega) hr
          omega

end BytesVerif.AdvGen
