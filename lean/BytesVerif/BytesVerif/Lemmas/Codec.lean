/- Helper lemmas for the codec model (M3). -/
import BytesVerif.Model.Codec
import BytesVerif.Props.C09
namespace BytesVerif.Codec
open BytesVerif.Buf

/-! ### Arithmetic -/

theorem beVal_replicate_zero (k : Nat) (bs : Bs) : beVal (List.replicate k 0 ++ bs) = beVal bs := by
  induction k with
  | zero => simp
  | succ k ih => simp [List.replicate_succ, beVal, ih]

theorem leVal_append_zeros (k : Nat) (bs : Bs) : leVal (bs ++ List.replicate k 0) = leVal bs := by
  induction bs with
  | nil =>
    induction k with
    | zero => simp [leVal]
    | succ k ih => simp_all [List.replicate_succ, leVal]
  | cons x r ih => simp [leVal, ih]

theorem beVal_lt (bs : Bs) (h : ∀ x ∈ bs, x < 256) : beVal bs < 256 ^ bs.length := by
  induction bs with
  | nil => simp [beVal]
  | cons x r ih =>
    have hx : x < 256 := h x (by simp)
    have hr := ih (fun y hy => h y (by simp [hy]))
    simp only [beVal, List.length_cons, Nat.pow_succ]
    have : x * 256 ^ r.length ≤ 255 * 256 ^ r.length := Nat.mul_le_mul_right _ (by omega)
    omega

theorem leVal_lt (bs : Bs) (h : ∀ x ∈ bs, x < 256) : leVal bs < 256 ^ bs.length := by
  induction bs with
  | nil => simp [leVal]
  | cons x r ih =>
    have hx : x < 256 := h x (by simp)
    have hr := ih (fun y hy => h y (by simp [hy]))
    simp only [leVal, List.length_cons, Nat.pow_succ]
    omega

theorem unsignedVal_lt (e : Endian) (bs : Bs) (h : ∀ x ∈ bs, x < 256) :
    unsignedVal e bs < 256 ^ bs.length := by
  cases e <;> simp only [unsignedVal] <;> first | exact beVal_lt bs h | exact leVal_lt bs h

theorem unsignedVal_singleton (e : Endian) (x : Nat) : unsignedVal e [x] = x := by
  cases e <;> simp [unsignedVal, beVal, leVal]

/-- The shift-based sign extension agrees with the two's-complement reading. -/
theorem signExt_arith (n v : Nat) (h1 : 1 ≤ n) (h8 : n ≤ 8) (hv : v < 256 ^ n) :
    Int.fdiv (toSigned 64 (v * 2 ^ ((8 - n) * 8) % 2 ^ 64)) (2 ^ ((8 - n) * 8) : Nat)
      = toSigned (8 * n) v := by
  have hn : n = 1 ∨ n = 2 ∨ n = 3 ∨ n = 4 ∨ n = 5 ∨ n = 6 ∨ n = 7 ∨ n = 8 := by omega
  rw [Int.fdiv_eq_ediv_of_nonneg _ (Int.natCast_nonneg _)]
  rcases hn with rfl | rfl | rfl | rfl | rfl | rfl | rfl | rfl <;>
    · simp [toSigned] at hv ⊢
      split <;> split <;> omega


theorem toSigned_range' (bits v : Nat) (hb : 0 < bits) (hv : v < 2 ^ bits) :
    -(2 ^ (bits - 1) : Int) ≤ toSigned bits v ∧ toSigned bits v < (2 ^ (bits - 1) : Int) ∧
      (toSigned bits v - (v : Int)) % (2 ^ bits : Int) = 0 := by
  obtain ⟨k, rfl⟩ : ∃ k, bits = k + 1 := ⟨bits - 1, by omega⟩
  have h2 : (2 : Nat) ^ (k + 1) = 2 * 2 ^ k := by rw [Nat.pow_succ, Nat.mul_comm]
  have hc : ((2 : Int) ^ k) = ((2 ^ k : Nat) : Int) := by simp
  have hc' : ((2 : Int) ^ (k + 1)) = ((2 ^ (k + 1) : Nat) : Int) := by simp
  simp only [toSigned, Nat.add_sub_cancel, Nat.succ_ne_zero, if_false]
  rw [hc, hc']
  split
  · refine ⟨by omega, by omega, ?_⟩
    simp
  · refine ⟨by omega, by omega, ?_⟩
    have : ((v : Int) - ((2 ^ (k + 1) : Nat) : Int) - (v : Int)) = -((2 ^ (k + 1) : Nat) : Int) := by omega
    rw [this]
    simp

/-! ### Buffer-level facts -/

theorem chunk_take_eq (b : BufT) (hb : wf b) (n : Nat) (h : n ≤ (chunk b).length) :
    (chunk b).take n = (den b).take n := by
  obtain ⟨t, ht⟩ := chunk_prefix b hb
  rw [← ht, List.take_append_of_le_length h]

theorem tryGetFixed_ok (bytes : Nat) (signed : Bool) (conv : Endian) (b : BufT) (hb : wf b)
    (h : bytes ≤ remaining b) :
    ∃ b', tryGetFixed bytes signed conv b
        = .ok (.val (convFixed signed bytes conv ((den b).take bytes)), b') ∧
      den b' = (den b).drop bytes ∧ wf b' := by
  unfold tryGetFixed
  rw [if_neg (by omega)]
  split
  · next hc =>
    obtain ⟨b', h1, h2, h3⟩ := advance_ok b bytes hb h
    exact ⟨b', by rw [h1, chunk_take_eq b hb bytes hc]; rfl, h2, h3⟩
  · obtain ⟨b', h1, h2, h3⟩ := copyToSlice_ok b bytes hb h
    exact ⟨b', by rw [h1]; rfl, h2, h3⟩

theorem tryGetFixed_short (bytes : Nat) (signed : Bool) (conv : Endian) (b : BufT)
    (h : remaining b < bytes) :
    tryGetFixed bytes signed conv b = .ok (.err bytes (remaining b), b) := by
  unfold tryGetFixed
  rw [if_pos h]

theorem tryGetVar_ok (arm : Endian) (s64 : Bool) (n : Nat) (b : BufT) (hb : wf b)
    (h8 : n ≤ 8) (h : n ≤ remaining b) :
    ∃ b', tryGetVar arm s64 n b
        = .ok (.val (if s64 then toSigned 64 (unsignedVal arm ((den b).take n))
                      else unsignedVal arm ((den b).take n)), b') ∧
      den b' = (den b).drop n ∧ wf b' := by
  obtain ⟨b', h1, h2, h3⟩ := tryCopyToSlice_ok b n hb h
  refine ⟨b', ?_, h2, h3⟩
  unfold tryGetVar
  rw [if_neg (by omega), h1]
  cases arm <;> simp [unsignedVal, beVal_replicate_zero, leVal_append_zeros]

theorem tryGetVar_short (arm : Endian) (s64 : Bool) (n : Nat) (b : BufT)
    (h8 : n ≤ 8) (h : remaining b < n) :
    tryGetVar arm s64 n b = .ok (.err n (remaining b), b) := by
  unfold tryGetVar
  rw [if_neg (by omega), tryCopyToSlice_err b n h]

theorem tryGetVar_wide (arm : Endian) (s64 : Bool) (n : Nat) (b : BufT) (h8 : 8 < n) :
    tryGetVar arm s64 n b = .panic := by
  unfold tryGetVar
  rw [if_pos h8]

theorem orPanic_val (t : Bool) (v : Int) (b : BufT) :
    orPanic t (.ok (.val v, b)) = .ok (.val v, b) := rfl

theorem orPanic_err (t : Bool) (x y : Nat) (b : BufT) :
    orPanic t (.ok (.err x y, b)) = if t then .ok (.err x y, b) else .panic := rfl

theorem orPanic_panic (t : Bool) : orPanic t .panic = .panic := rfl

/-! ### Per-body evaluation -/

theorem evalBody_byteDirect_ok (c : Cfg) (form : SignExtForm) (s t : Bool) (e : Endian) (n : Nat)
    (b : BufT) (hb : wf b) (h : 1 ≤ remaining b) :
    ∃ b', evalBody c form (.byteDirect s t) n b
        = .ok (.val (convFixed s 1 e ((den b).take 1)), b') ∧
      den b' = (den b).drop 1 ∧ wf b' := by
  obtain ⟨b', h1, h2, h3⟩ := advance_ok b 1 hb h
  refine ⟨b', ?_, h2, h3⟩
  have hne : chunk b ≠ [] := fun hc => by
    have := (chunk_nil_iff b hb).1 hc; omega
  obtain ⟨tl, ht⟩ := chunk_prefix b hb
  rw [evalBody, if_neg (by omega)]
  cases hc : chunk b with
  | nil => exact absurd hc hne
  | cons x r =>
    rw [hc] at ht
    simp only [h1, Res.map, ← ht, List.cons_append, List.take_succ_cons, List.take_zero,
      convFixed, unsignedVal_singleton]

theorem evalBody_byteDirect_short (c : Cfg) (form : SignExtForm) (s t : Bool) (n : Nat)
    (b : BufT) (h : remaining b < 1) :
    evalBody c form (.byteDirect s t) n b
      = if t then .ok (.err 1 (remaining b), b) else .panic := by
  rw [evalBody, if_pos h]

theorem evalBody_fixed_ok (c : Cfg) (form : SignExtForm) (k : Nat) (s t : Bool) (e : Endian)
    (n : Nat) (b : BufT) (hb : wf b) (h : k ≤ remaining b) :
    ∃ b', evalBody c form (.fixed k s e t) n b
        = .ok (.val (convFixed s k e ((den b).take k)), b') ∧
      den b' = (den b).drop k ∧ wf b' := by
  obtain ⟨b', h1, h2, h3⟩ := tryGetFixed_ok k s e b hb h
  exact ⟨b', by rw [evalBody, h1, orPanic_val], h2, h3⟩

theorem evalBody_fixed_short (c : Cfg) (form : SignExtForm) (k : Nat) (s t : Bool) (e : Endian)
    (n : Nat) (b : BufT) (h : remaining b < k) :
    evalBody c form (.fixed k s e t) n b
      = if t then .ok (.err k (remaining b), b) else .panic := by
  rw [evalBody, tryGetFixed_short k s e b h, orPanic_err]

theorem evalBody_var_ok (c : Cfg) (form : SignExtForm) (e : Endian) (t : Bool)
    (n : Nat) (b : BufT) (hb : wf b) (h8 : n ≤ 8) (h : n ≤ remaining b) :
    ∃ b', evalBody c form (.var e false t) n b
        = .ok (.val (unsignedVal e ((den b).take n)), b') ∧
      den b' = (den b).drop n ∧ wf b' := by
  obtain ⟨b', h1, h2, h3⟩ := tryGetVar_ok e false n b hb h8 h
  exact ⟨b', by rw [evalBody, h1, orPanic_val]; rfl, h2, h3⟩

theorem evalBody_var_short (c : Cfg) (form : SignExtForm) (e : Endian) (s64 t : Bool)
    (n : Nat) (b : BufT) (h8 : n ≤ 8) (h : remaining b < n) :
    evalBody c form (.var e s64 t) n b
      = if t then .ok (.err n (remaining b), b) else .panic := by
  rw [evalBody, tryGetVar_short e s64 n b h8 h, orPanic_err]

theorem evalBody_var_wide (c : Cfg) (form : SignExtForm) (e : Endian) (s64 t : Bool)
    (n : Nat) (b : BufT) (h8 : 8 < n) :
    evalBody c form (.var e s64 t) n b = .panic := by
  rw [evalBody, tryGetVar_wide e s64 n b h8, orPanic_panic]

/-- What `sign_extend` (checked form) computes from the zero-extended value. -/
def sxVal (v n : Nat) : Int :=
  if (8 - n) * 8 ≥ 64 then 0
  else Int.fdiv (toSigned 64 (v * 2 ^ ((8 - n) * 8) % 2 ^ 64)) (2 ^ ((8 - n) * 8) : Nat)

theorem signExtend_checked (c : Cfg) (v n : Nat) :
    signExtend c .checkedShift v n = .ok (sxVal v n) := by
  unfold signExtend sxVal
  simp only
  split <;> rfl

theorem evalBody_signExt_ok (c : Cfg) (e : Endian) (t t' : Bool)
    (n : Nat) (b : BufT) (hb : wf b) (h8 : n ≤ 8) (h : n ≤ remaining b) :
    ∃ b', evalBody c .checkedShift (.signExt (.var e false t) t') n b
        = .ok (.val (sxVal (unsignedVal e ((den b).take n)) n), b') ∧
      den b' = (den b).drop n ∧ wf b' := by
  obtain ⟨b', h1, h2, h3⟩ := evalBody_var_ok c .checkedShift e t n b hb h8 h
  refine ⟨b', ?_, h2, h3⟩
  rw [evalBody, h1]
  simp only [Int.toNat_natCast, signExtend_checked]

theorem evalBody_signExt_short (c : Cfg) (form : SignExtForm) (e : Endian) (s64 t t' : Bool)
    (n : Nat) (b : BufT) (h8 : n ≤ 8) (h : remaining b < n) :
    evalBody c form (.signExt (.var e s64 t) t') n b
      = if t then .ok (.err n (remaining b), b) else .panic := by
  rw [evalBody, evalBody_var_short c form e s64 t n b h8 h]
  cases t <;> rfl

theorem evalBody_signExt_wide (c : Cfg) (form : SignExtForm) (e : Endian) (s64 t t' : Bool)
    (n : Nat) (b : BufT) (h8 : 8 < n) :
    evalBody c form (.signExt (.var e s64 t) t') n b = .panic := by
  rw [evalBody, evalBody_var_wide c form e s64 t n b h8]

/-! ### Inversion of `rowOK` -/

theorem isFixed_inv {k : Nat} {s : Bool} {e : Endian} {t : Bool} {body : Body}
    (h : isFixed k s e t body = true) : body = .fixed k s e t := by
  cases body <;> simp_all [isFixed]

theorem isVarU_inv {e : Endian} {t : Bool} {body : Body}
    (h : isVarU e t body = true) : body = .var e false t := by
  cases body <;> simp_all [isVarU]

theorem isSignExtVarU_inv {e : Endian} {t : Bool} {body : Body}
    (h : isSignExtVarU e t body = true) : body = .signExt (.var e false t) t := by
  cases body <;> simp_all [isSignExtVarU]
  exact isVarU_inv h.1

theorem evalBody_neDispatch (c : Cfg) (form : SignExtForm) (big little : Body) (n : Nat) (b : BufT) :
    evalBody c form (.neDispatch big little) n b = evalBody c form little n b := by
  rw [evalBody]

theorem tryGetVar_ne (s64 : Bool) (n : Nat) (b : BufT) :
    tryGetVar .ne s64 n b = tryGetVar .le s64 n b := by
  unfold tryGetVar; rfl

theorem evalBody_var_ne (c : Cfg) (form : SignExtForm) (s64 t : Bool) (n : Nat) (b : BufT) :
    evalBody c form (.var .ne s64 t) n b = evalBody c form (.var .le s64 t) n b := by
  rw [evalBody, evalBody, tryGetVar_ne]

theorem evalBody_signExt_var_ne (c : Cfg) (form : SignExtForm) (s64 t t' : Bool) (n : Nat) (b : BufT) :
    evalBody c form (.signExt (.var .ne s64 t) t') n b
      = evalBody c form (.signExt (.var .le s64 t) t') n b := by
  rw [evalBody, evalBody, evalBody, evalBody, tryGetVar_ne]

/-- The body shapes accepted by `rowOK`. -/
inductive Shape (form : SignExtForm) (r : Row) : Prop
  | byte (s : Bool) (hk : r.spec.kind = .int 1 s) (hb : r.body = .byteDirect s r.spec.isTry)
  | fixed (k : Nat) (s : Bool) (hk : r.spec.kind = .int k s)
      (hb : r.body = .fixed k s r.spec.endian r.spec.isTry)
  | float (k : Nat) (hk : r.spec.kind = .float k)
      (hb : r.body = .floatBits (.fixed k false r.spec.endian r.spec.isTry))
  | varU (hk : r.spec.kind = .varUint)
      (hb : ∀ c n b, evalBody c form r.body n b
        = evalBody c form (.var r.spec.endian false r.spec.isTry) n b)
  | varI (hk : r.spec.kind = .varInt) (hf : form = .checkedShift)
      (hb : ∀ c n b, evalBody c form r.body n b
        = evalBody c form (.signExt (.var r.spec.endian false r.spec.isTry) r.spec.isTry) n b)

theorem rowOK_shape (form : SignExtForm) (r : Row) (h : rowOK form r = true) : Shape form r := by
  obtain ⟨name, ⟨t, kind, e⟩, body⟩ := r
  cases kind with
  | int k s =>
    by_cases h1 : k = 1
    · subst h1
      cases body <;> simp [rowOK] at h
      next s' t' => exact .byte s rfl (by simp [h.1, h.2])
    · have : (k > 1 && k ≤ 16 && isFixed k s e t body) = true := by
        unfold rowOK at h
        split at h <;> simp_all
      simp at this
      exact .fixed k s rfl (isFixed_inv this.2)
  | float k =>
    cases body <;> simp [rowOK] at h
    next inner => exact .float k rfl (by simp [isFixed_inv h.2])
  | varUint =>
    cases e
    · exact .varU rfl (by simp [rowOK] at h; simp [isVarU_inv h])
    · exact .varU rfl (by simp [rowOK] at h; simp [isVarU_inv h])
    · cases body <;> simp [rowOK] at h
      next big little =>
        refine .varU rfl (fun c n b => ?_)
        simp only [isVarU_inv h.2, evalBody_var_ne, evalBody_neDispatch]
  | varInt =>
    cases e
    · simp [rowOK] at h
      exact .varI rfl h.2 (by simp [isSignExtVarU_inv h.1])
    · simp [rowOK] at h
      exact .varI rfl h.2 (by simp [isSignExtVarU_inv h.1])
    · cases body <;> simp [rowOK] at h
      next big little =>
        refine .varI rfl h.2 (fun c n b => ?_)
        simp only [isSignExtVarU_inv h.1.2, evalBody_signExt_var_ne, evalBody_neDispatch]

/-! ### Assembly -/

/-- What a row accepted by `rowOK` computes from the next bytes (no assumption on byte range). -/
def rawVal (k : Kind) (e : Endian) (n : Nat) (bs : Bs) : Int :=
  match k with
  | .int w s => convFixed s w e bs
  | .float _ => unsignedVal e bs
  | .varUint => unsignedVal e bs
  | .varInt => sxVal (unsignedVal e bs) n

def IsVar (k : Kind) : Prop := k = .varUint ∨ k = .varInt

theorem get_ok_raw (c : Cfg) (form : SignExtForm) (r : Row) (hr : rowOK form r = true)
    (b : BufT) (hb : wf b) (nbytes : Nat) (hw : IsVar r.spec.kind → nbytes ≤ 8)
    (hs : r.spec.size nbytes ≤ remaining b) :
    ∃ b', evalBody c form r.body nbytes b
        = .ok (.val (rawVal r.spec.kind r.spec.endian nbytes
            ((den b).take (r.spec.size nbytes))), b') ∧
      den b' = (den b).drop (r.spec.size nbytes) ∧ wf b' := by
  have hsh := rowOK_shape form r hr
  obtain ⟨name, ⟨t, kind, e⟩, body⟩ := r
  cases hsh with
  | byte s hk hbd =>
    simp only at hk hbd hs hw ⊢; subst hk hbd
    exact evalBody_byteDirect_ok c form s t e nbytes b hb hs
  | fixed k s hk hbd =>
    simp only at hk hbd hs hw ⊢; subst hk hbd
    exact evalBody_fixed_ok c form k s t e nbytes b hb hs
  | float k hk hbd =>
    simp only at hk hbd hs hw ⊢; subst hk hbd
    obtain ⟨b', h1, h2, h3⟩ := evalBody_fixed_ok c form k false t e nbytes b hb hs
    exact ⟨b', by rw [evalBody, h1]; rfl, h2, h3⟩
  | varU hk hbd =>
    simp only at hk hbd hs hw ⊢; subst hk
    rw [hbd]
    exact evalBody_var_ok c form e t nbytes b hb (hw (.inl rfl)) hs
  | varI hk hf hbd =>
    simp only at hk hbd hs hw ⊢; subst hk hf
    rw [hbd]
    exact evalBody_signExt_ok c e t t nbytes b hb (hw (.inr rfl)) hs

theorem sxVal_eq (n v : Nat) (h8 : n ≤ 8) (hv : v < 256 ^ n) : sxVal v n = toSigned (8 * n) v := by
  by_cases h0 : n = 0
  · subst h0; simp [sxVal, toSigned]
  · unfold sxVal
    rw [if_neg (by omega)]
    exact signExt_arith n v (by omega) h8 hv

theorem rawVal_eq_decode (s : Spec) (n : Nat) (bs : Bs) (hbytes : ∀ x ∈ bs, x < 256)
    (hlen : bs.length = s.size n) (hw : IsVar s.kind → n ≤ 8) :
    rawVal s.kind s.endian n bs = decode s bs := by
  obtain ⟨t, kind, e⟩ := s
  cases kind with
  | int w sg => rfl
  | float w => rfl
  | varUint => rfl
  | varInt =>
    simp only [Spec.size] at hlen
    simp only [rawVal, decode, hlen]
    have := unsignedVal_lt e bs hbytes
    rw [hlen] at this
    exact sxVal_eq n _ (hw (.inr rfl)) this

theorem get_short_raw (c : Cfg) (form : SignExtForm) (r : Row) (hr : rowOK form r = true)
    (b : BufT) (nbytes : Nat) (hw : IsVar r.spec.kind → nbytes ≤ 8)
    (hs : remaining b < r.spec.size nbytes) :
    evalBody c form r.body nbytes b =
      if r.spec.isTry then .ok (.err (r.spec.size nbytes) (remaining b), b) else .panic := by
  have hsh := rowOK_shape form r hr
  obtain ⟨name, ⟨t, kind, e⟩, body⟩ := r
  cases hsh with
  | byte s hk hbd =>
    simp only at hk hbd hs hw ⊢; subst hk hbd
    exact evalBody_byteDirect_short c form s t nbytes b hs
  | fixed k s hk hbd =>
    simp only at hk hbd hs hw ⊢; subst hk hbd
    exact evalBody_fixed_short c form k s t e nbytes b hs
  | float k hk hbd =>
    simp only at hk hbd hs hw ⊢; subst hk hbd
    rw [evalBody]
    exact evalBody_fixed_short c form k false t e nbytes b hs
  | varU hk hbd =>
    simp only at hk hbd hs hw ⊢; subst hk
    rw [hbd]
    exact evalBody_var_short c form e false t nbytes b (hw (.inl rfl)) hs
  | varI hk hf hbd =>
    simp only at hk hbd hs hw ⊢; subst hk
    rw [hbd]
    exact evalBody_signExt_short c form e false t t nbytes b (hw (.inr rfl)) hs

theorem get_too_wide_raw (c : Cfg) (form : SignExtForm) (r : Row) (hr : rowOK form r = true)
    (b : BufT) (nbytes : Nat) (hk : IsVar r.spec.kind) (hn : 8 < nbytes) :
    evalBody c form r.body nbytes b = .panic := by
  have hsh := rowOK_shape form r hr
  obtain ⟨name, ⟨t, kind, e⟩, body⟩ := r
  cases hsh with
  | byte s hk' _ => simp only at hk hk'; subst hk'; simp [IsVar] at hk
  | fixed k s hk' _ => simp only at hk hk'; subst hk'; simp [IsVar] at hk
  | float k hk' _ => simp only at hk hk'; subst hk'; simp [IsVar] at hk
  | varU _ hbd => rw [hbd]; exact evalBody_var_wide c form _ false _ nbytes b hn
  | varI _ _ hbd => rw [hbd]; exact evalBody_signExt_wide c form _ false _ _ nbytes b hn

end BytesVerif.Codec
