/- Helper lemmas for the recycling model (C18). -/
import BytesVerif.Model.Recycle
namespace BytesVerif.Recycle

/-! ### `original_capacity` round trip never over-estimates -/

theorem origCap_origRepr_le (c : Nat) : origCap (origRepr c) ≤ c := by
  unfold origRepr bitWidth
  by_cases hq : c / 1024 = 0
  · simp [hq, origCap]
  · simp only [hq, if_false]
    have h1 : 2 ^ Nat.log2 (c / 1024) ≤ c / 1024 := Nat.log2_self_le hq
    have h2 : c / 1024 * 1024 ≤ c := Nat.div_mul_le_self c 1024
    have hne : min (Nat.log2 (c / 1024) + 1) 7 ≠ 0 := by omega
    have h3 : (2 : Nat) ^ (min (Nat.log2 (c / 1024) + 1) 7 + 9) ≤ 2 ^ (Nat.log2 (c / 1024) + 10) :=
      Nat.pow_le_pow_right (by decide) (by omega)
    have h4 : (2 : Nat) ^ (Nat.log2 (c / 1024) + 10) = 2 ^ Nat.log2 (c / 1024) * 1024 := by
      rw [Nat.pow_add]
    unfold origCap
    rw [if_neg hne]
    omega

/-! ### `growCap` -/

theorem growCap_eq (c n : Nat) : growCap c n = max (max (c * 2) n) 8 := rfl

/-! ### the six branches of `reserve` -/

/-- case analysis of `reserve`, one disjunct per branch of `reserve_inner` -/
theorem reserve_cases (r : Rec) (k : Nat) :
    (k ≤ r.cap - r.len ∧ reserve r k = r) ∨
    (¬ k ≤ r.cap - r.len ∧ r.arc = false ∧ (r.cap - r.len + r.off ≥ k ∧ r.off ≥ r.len) ∧
      reserve r k = { r with off := 0, cap := r.cap + r.off }) ∨
    (¬ k ≤ r.cap - r.len ∧ r.arc = false ∧ ¬ (r.cap - r.len + r.off ≥ k ∧ r.off ≥ r.len) ∧
      reserve r k = { r with A := growCap (r.off + r.cap) (r.off + r.len + k),
                             cap := growCap (r.off + r.cap) (r.off + r.len + k) - r.off,
                             allocs := r.allocs + 1 }) ∨
    (¬ k ≤ r.cap - r.len ∧ r.arc = true ∧ r.parts = 0 ∧ r.A ≥ r.len + k + r.off ∧
      reserve r k = { r with cap := r.len + k }) ∨
    (¬ k ≤ r.cap - r.len ∧ r.arc = true ∧ r.parts = 0 ∧ ¬ r.A ≥ r.len + k + r.off ∧
      (r.A ≥ r.len + k ∧ r.off ≥ r.len) ∧ reserve r k = { r with off := 0, cap := r.A }) ∨
    (¬ k ≤ r.cap - r.len ∧ r.arc = true ∧ r.parts = 0 ∧ ¬ r.A ≥ r.len + k + r.off ∧
      ¬ (r.A ≥ r.len + k ∧ r.off ≥ r.len) ∧
      reserve r k = { r with A := growCap r.A (max (r.A * 2) (r.len + k + r.off)),
                             cap := growCap r.A (max (r.A * 2) (r.len + k + r.off)) - r.off,
                             allocs := r.allocs + 1 }) ∨
    (¬ k ≤ r.cap - r.len ∧ r.arc = true ∧ r.parts ≠ 0 ∧
      reserve r k = { r with A := max (r.len + k) (origCap r.orig), off := 0,
                             cap := max (r.len + k) (origCap r.orig), arc := false, parts := 0,
                             pinned := r.A :: r.pinned,
                             allocs := if max (r.len + k) (origCap r.orig) = 0 then r.allocs
                                       else r.allocs + 1 }) := by
  by_cases h0 : k ≤ r.cap - r.len
  · left; exact ⟨h0, by simp [reserve, h0]⟩
  · right
    cases harc : r.arc
    · by_cases h1 : r.cap - r.len + r.off ≥ k ∧ r.off ≥ r.len
      · left; exact ⟨h0, rfl, h1, by simp [reserve, h0, harc, h1]⟩
      · right; left; refine ⟨h0, rfl, h1, ?_⟩
        simp only [reserve, h0, harc, h1]; simp
    · right; right
      by_cases hp : r.parts = 0
      · by_cases h2 : r.A ≥ r.len + k + r.off
        · left; exact ⟨h0, rfl, hp, h2, by simp [reserve, h0, harc, hp, h2]⟩
        · right
          by_cases h3 : r.A ≥ r.len + k ∧ r.off ≥ r.len
          · left; refine ⟨h0, rfl, hp, h2, h3, ?_⟩
            simp only [reserve, h0, harc, hp, h2, h3]; simp
          · right; left; refine ⟨h0, rfl, hp, h2, h3, ?_⟩
            simp only [reserve, h0, harc, hp, h2, h3]; simp
      · right; right; right; refine ⟨h0, rfl, hp, ?_⟩
        simp only [reserve, h0, harc, hp]; simp

/-! ### consequences, branch by branch -/

/-- `reserve` re-establishes the layout invariant, with room for the `k` requested bytes -/
theorem reserve_layout (r : Rec) (k : Nat) (hlen : r.len ≤ r.cap) (hin : r.off + r.cap ≤ r.A)
    (hvec : r.arc = false → r.off + r.cap = r.A) :
    (reserve r k).len = r.len ∧ r.len + k ≤ (reserve r k).cap ∧
      (reserve r k).off + (reserve r k).cap ≤ (reserve r k).A ∧
      ((reserve r k).arc = false → (reserve r k).off + (reserve r k).cap = (reserve r k).A) := by
  rcases reserve_cases r k with ⟨h0, e⟩ | ⟨h0, ha, h1, e⟩ | ⟨h0, ha, h1, e⟩ | ⟨h0, ha, hp, h2, e⟩ |
    ⟨h0, ha, hp, h2, h3, e⟩ | ⟨h0, ha, hp, h2, h3, e⟩ | ⟨h0, ha, hp, e⟩
  · rw [e]; exact ⟨rfl, by omega, hin, hvec⟩
  · rw [e]; have := hvec ha; refine ⟨rfl, ?_, ?_, ?_⟩ <;> simp [ha] <;> omega
  · rw [e]; have := hvec ha; refine ⟨rfl, ?_, ?_, ?_⟩ <;> simp [growCap_eq, ha] <;> omega
  · rw [e]; refine ⟨rfl, ?_, ?_, ?_⟩ <;> simp [ha] <;> omega
  · rw [e]; refine ⟨rfl, ?_, ?_, ?_⟩ <;> simp [ha] <;> omega
  · rw [e]; refine ⟨rfl, ?_, ?_, ?_⟩ <;> simp [growCap_eq, ha] <;> omega
  · rw [e]; refine ⟨rfl, ?_, ?_, ?_⟩ <;> simp <;> omega

/-- `reserve` keeps every allocation size under a bound `Bd ≥ max (4M) 8` -/
theorem reserve_bound (r : Rec) (k M Bd : Nat) (hlen : r.len ≤ r.cap) (hin : r.off + r.cap ≤ r.A)
    (hvec : r.arc = false → r.off + r.cap = r.A) (hk : r.len + k ≤ M) (h4 : 4 * M ≤ Bd) (h8 : 8 ≤ Bd)
    (hA : r.A ≤ Bd) (hp : ∀ a ∈ r.pinned, a ≤ Bd) (ho : origCap r.orig ≤ Bd) :
    (reserve r k).A ≤ Bd ∧ (∀ a ∈ (reserve r k).pinned, a ≤ Bd) ∧ (reserve r k).orig = r.orig := by
  rcases reserve_cases r k with ⟨h0, e⟩ | ⟨h0, ha, h1, e⟩ | ⟨h0, ha, h1, e⟩ | ⟨h0, ha, hp0, h2, e⟩ |
    ⟨h0, ha, hp0, h2, h3, e⟩ | ⟨h0, ha, hp0, h2, h3, e⟩ | ⟨h0, ha, hp0, e⟩
  · rw [e]; exact ⟨hA, hp, rfl⟩
  · rw [e]; exact ⟨hA, hp, rfl⟩
  · rw [e]; have := hvec ha; refine ⟨?_, hp, rfl⟩; simp only [growCap_eq]; omega
  · rw [e]; exact ⟨hA, hp, rfl⟩
  · rw [e]; exact ⟨hA, hp, rfl⟩
  · rw [e]; refine ⟨?_, hp, rfl⟩; simp only [growCap_eq]; omega
  · rw [e]; refine ⟨?_, ?_, rfl⟩
    · show max (r.len + k) (origCap r.orig) ≤ Bd; omega
    · intro a hmem
      have : a = r.A ∨ a ∈ r.pinned := by simpa using hmem
      rcases this with rfl | hm
      · exact hA
      · exact hp a hm

/-- a refill with no outstanding parts: either nothing is allocated, or the allocation at least
doubles, reaches 8 bytes, was below `2M` before and is at most `max (4M) 8` after -/
theorem reserve_refill (r : Rec) (k M : Nat) (hlen : r.len ≤ r.cap) (hin : r.off + r.cap ≤ r.A)
    (hvec : r.arc = false → r.off + r.cap = r.A) (hk : r.len + k ≤ M) (hparts : r.parts = 0) :
    (reserve r k).pinned = r.pinned ∧
    (((reserve r k).allocs = r.allocs ∧ (reserve r k).A = r.A) ∨
     ((reserve r k).allocs = r.allocs + 1 ∧ 2 * r.A ≤ (reserve r k).A ∧ 8 ≤ (reserve r k).A ∧
        r.A < 2 * M ∧ (reserve r k).A ≤ max (4 * M) 8)) := by
  rcases reserve_cases r k with ⟨h0, e⟩ | ⟨h0, ha, h1, e⟩ | ⟨h0, ha, h1, e⟩ | ⟨h0, ha, hp0, h2, e⟩ |
    ⟨h0, ha, hp0, h2, h3, e⟩ | ⟨h0, ha, hp0, h2, h3, e⟩ | ⟨h0, ha, hp0, e⟩
  · rw [e]; exact ⟨rfl, .inl ⟨rfl, rfl⟩⟩
  · rw [e]; exact ⟨rfl, .inl ⟨rfl, rfl⟩⟩
  · rw [e]; have := hvec ha; refine ⟨rfl, .inr ⟨rfl, ?_⟩⟩; simp only [growCap_eq]; omega
  · rw [e]; exact ⟨rfl, .inl ⟨rfl, rfl⟩⟩
  · rw [e]; exact ⟨rfl, .inl ⟨rfl, rfl⟩⟩
  · rw [e]; refine ⟨rfl, .inr ⟨rfl, ?_⟩⟩; simp only [growCap_eq]; omega
  · exact absurd hparts hp0

/-! ### `promote` only sets the `arc` flag -/

@[simp] theorem promote_A (r : Rec) : (promote r).A = r.A := by unfold promote; split <;> rfl
@[simp] theorem promote_off (r : Rec) : (promote r).off = r.off := by unfold promote; split <;> rfl
@[simp] theorem promote_len (r : Rec) : (promote r).len = r.len := by unfold promote; split <;> rfl
@[simp] theorem promote_cap (r : Rec) : (promote r).cap = r.cap := by unfold promote; split <;> rfl
@[simp] theorem promote_orig (r : Rec) : (promote r).orig = r.orig := by unfold promote; split <;> rfl
@[simp] theorem promote_parts (r : Rec) : (promote r).parts = r.parts := by unfold promote; split <;> rfl
@[simp] theorem promote_pinned (r : Rec) : (promote r).pinned = r.pinned := by unfold promote; split <;> rfl
@[simp] theorem promote_allocs (r : Rec) : (promote r).allocs = r.allocs := by unfold promote; split <;> rfl
@[simp] theorem promote_arc (r : Rec) : (promote r).arc = true := by
  unfold promote; cases h : r.arc <;> simp [h]

/-- the operations that can allocate or re-record the original capacity (`unsplitLast` because of its
fall-back to `extend_from_slice` when the halves cannot be merged) -/
def Op.refills : Op → Bool
  | .reserve _ | .append _ | .roundTrip | .unsplitLast _ _ => true
  | _ => false

/-- every other operation leaves the allocation, the count and `orig` alone and can only shrink
the pinned list -/
theorem step_frame (r : Rec) (op : Op) (h : op.refills = false) :
    (step r op).A = r.A ∧ (step r op).allocs = r.allocs ∧ (step r op).orig = r.orig ∧
      ∀ a ∈ (step r op).pinned, a ∈ r.pinned := by
  cases op with
  | reserve k => simp [Op.refills] at h
  | append m => simp [Op.refills] at h
  | roundTrip => simp [Op.refills] at h
  | splitTo n => simp only [step]; split <;> simp
  | split => simp [step]
  | advance n => simp only [step]; split <;> simp
  | truncate n => simp only [step]; split <;> simp
  | dropPart => simp [step]
  | dropPinned => exact ⟨rfl, rfl, rfl, fun a ha => List.dropLast_subset _ ha⟩
  | dropOld => simp [step]
  | splitOffTail => simp [step]
  | unsplitLast n c => simp [Op.refills] at h

/-! ### the four branches of `unsplitLast` -/

/-- case analysis of `step r (.unsplitLast n c)`, one disjunct per branch of `BytesMut::unsplit` -/
theorem unsplitLast_cases (r : Rec) (n c : Nat) :
    (r.len = 0 ∧ step r (.unsplitLast n c) = { r with len := n, cap := c, parts := r.parts - 1 }) ∨
    (r.len ≠ 0 ∧ c = 0 ∧ step r (.unsplitLast n c) = { r with parts := r.parts - 1 }) ∨
    (r.len ≠ 0 ∧ c ≠ 0 ∧ r.len = r.cap ∧
      step r (.unsplitLast n c) = { r with len := r.len + n, cap := r.cap + c, parts := r.parts - 1 }) ∨
    (r.len ≠ 0 ∧ c ≠ 0 ∧ r.len ≠ r.cap ∧
      step r (.unsplitLast n c) =
        { reserve r n with len := (reserve r n).len + n, parts := (reserve r n).parts - 1 }) := by
  by_cases h0 : r.len = 0
  · left; exact ⟨h0, by simp [step, h0]⟩
  · right
    by_cases hc : c = 0
    · left; exact ⟨h0, hc, by simp [step, h0, hc]⟩
    · right
      by_cases hf : r.len = r.cap
      · left; exact ⟨h0, hc, hf, by simp only [step, if_neg h0, if_neg hc, if_pos hf]⟩
      · right; exact ⟨h0, hc, hf, by simp only [step, if_neg h0, if_neg hc, if_neg hf]⟩

/-- an `unsplitLast` that does not fall back to copying leaves the allocation, the count, `orig` and
the pinned list alone -/
theorem unsplitLast_frame (r : Rec) (n c : Nat) (h : r.len = 0 ∨ c = 0 ∨ r.len = r.cap) :
    (step r (.unsplitLast n c)).A = r.A ∧ (step r (.unsplitLast n c)).allocs = r.allocs ∧
      (step r (.unsplitLast n c)).orig = r.orig ∧ (step r (.unsplitLast n c)).pinned = r.pinned := by
  rcases unsplitLast_cases r n c with ⟨_, e⟩ | ⟨_, _, e⟩ | ⟨_, _, _, e⟩ | ⟨h0, hc, hf, _⟩
  · rw [e]; exact ⟨rfl, rfl, rfl, rfl⟩
  · rw [e]; exact ⟨rfl, rfl, rfl, rfl⟩
  · rw [e]; exact ⟨rfl, rfl, rfl, rfl⟩
  · rcases h with h | h | h
    · exact absurd h h0
    · exact absurd h hc
    · exact absurd h hf

end BytesVerif.Recycle
