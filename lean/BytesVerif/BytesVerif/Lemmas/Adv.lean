/-
Helper lemmas for C17 (Props/C17.lean) over M6 (Model/Adv.lean): the `Res` monad laws needed to
step through `do` blocks, a compositional "never `ub`" predicate `Safe` (definitionally the `NoUB` of
Props/C17.lean), safety of the primitives, and the fuel inductions for the loops.
-/
import BytesVerif.Model.Adv
namespace BytesVerif.Adv

variable {α β : Type}

/-! ### monad laws for `Res` -/

@[simp] theorem bind_ok (a : α) (f : α → Res β) : (Res.ok a >>= f) = f a := rfl
@[simp] theorem bind_panic (f : α → Res β) : ((Res.panic : Res α) >>= f) = .panic := rfl
@[simp] theorem bind_ub (w : String) (f : α → Res β) : ((Res.ub w : Res α) >>= f) = .ub w := rfl
@[simp] theorem bind_hang (f : α → Res β) : ((Res.hang : Res α) >>= f) = .hang := rfl
@[simp] theorem pure_eq (a : α) : (pure a : Res α) = .ok a := rfl

theorem bind_eq_ok {r : Res α} {f : α → Res β} {c : β} (h : (r >>= f) = .ok c) :
    ∃ a, r = .ok a ∧ f a = .ok c := by
  cases r with
  | ok a => exact ⟨a, rfl, by simpa using h⟩
  | panic => simp at h
  | ub w => simp at h
  | hang => simp at h

/-! ### `Safe`: the result is not `ub` -/

def Safe (r : Res α) : Prop := ∀ w, r ≠ .ub w

@[simp] theorem safe_ok (a : α) : Safe (Res.ok a) := by intro w h; cases h
@[simp] theorem safe_pure (a : α) : Safe (pure a : Res α) := safe_ok a
@[simp] theorem safe_panic : Safe (Res.panic : Res α) := by intro w h; cases h
@[simp] theorem safe_hang : Safe (Res.hang : Res α) := by intro w h; cases h
@[simp] theorem not_safe_ub (w : String) : ¬ Safe (Res.ub w : Res α) := fun h => h w rfl

theorem Safe.bind {r : Res α} {f : α → Res β} (hr : Safe r) (hf : ∀ a, r = .ok a → Safe (f a)) :
    Safe (r >>= f) := by
  cases r with
  | ok a => simpa using hf a rfl
  | panic => simp
  | ub w => exact absurd hr (not_safe_ub w)
  | hang => simp

theorem safe_bind_iff {r : Res α} {f : α → Res β} :
    Safe (r >>= f) ↔ Safe r ∧ ∀ a, r = .ok a → Safe (f a) := by
  cases r <;> simp

theorem Safe.ite {c : Prop} [Decidable c] {x y : Res α} (hx : c → Safe x) (hy : ¬ c → Safe y) :
    Safe (if c then x else y) := by
  split
  · exact hx ‹_›
  · exact hy ‹_›

/-! ### the primitives -/

theorem remaining_safe (b : AdvBuf) : Safe (remaining b) := by
  unfold remaining; split <;> simp

theorem chunk_safe (b : AdvBuf) : Safe (chunk b) := by
  unfold chunk; split <;> simp

theorem advance_safe (b : AdvBuf) (n : Nat) : Safe (advance b n) := by
  unfold advance; split <;> simp

theorem sliceTo_safe (s : Bs) (n : Nat) : Safe (sliceTo s n) := by
  unfold sliceTo; split <;> simp

theorem sliceTo_eq_ok {s p : Bs} {n : Nat} (h : sliceTo s n = .ok p) : n ≤ s.length ∧ p = s.take n := by
  unfold sliceTo at h
  split at h
  · exact ⟨‹_›, by cases h; rfl⟩
  · cases h

theorem sliceTo_length {s p : Bs} {n : Nat} (h : sliceTo s n = .ok p) : p.length = n := by
  obtain ⟨h1, rfl⟩ := sliceTo_eq_ok h
  simp [List.length_take]; omega

theorem unsafeRead_safe_of_le {s : Bs} {n : Nat} (h : n ≤ s.length) : Safe (unsafeRead s n) := by
  unfold unsafeRead; simp [h]

theorem unsafeRead_length {s p : Bs} {n : Nat} (h : unsafeRead s n = .ok p) : p.length = n := by
  unfold unsafeRead at h
  split at h
  · cases h; simp [List.length_take]; omega
  · cases h

theorem unsafeWrite_safe_of_le {room : Nat} {s : Bs} (h : s.length ≤ room) : Safe (unsafeWrite room s) := by
  unfold unsafeWrite; simp [h]

/-! ### `try_copy_to_slice` and what is built on it -/

theorem tryCopyLoop_safe (fuel : Nat) (b : AdvBuf) (need : Nat) (acc : Bs) :
    Safe (tryCopyLoop fuel b need acc) := by
  induction fuel generalizing b need acc with
  | zero => simp [tryCopyLoop]
  | succ fuel ih =>
    simp only [tryCopyLoop]
    apply Safe.ite
    · intro _; simp
    · intro _
      refine Safe.bind (chunk_safe b) fun src _ => ?_
      refine Safe.bind (sliceTo_safe _ _) fun part _ => ?_
      refine Safe.bind (advance_safe _ _) fun b' _ => ?_
      exact ih _ _ _

theorem tryCopyLoop_len (fuel : Nat) (b b' : AdvBuf) (need : Nat) (acc bs : Bs)
    (hr : tryCopyLoop fuel b need acc = .ok (bs, b')) : bs.length = acc.length + need := by
  induction fuel generalizing b need acc with
  | zero => simp [tryCopyLoop] at hr
  | succ fuel ih =>
    simp only [tryCopyLoop] at hr
    split at hr
    · next h0 =>
      cases hr; omega
    · obtain ⟨src, _, hr⟩ := bind_eq_ok hr
      obtain ⟨part, hp, hr⟩ := bind_eq_ok hr
      obtain ⟨b1, _, hr⟩ := bind_eq_ok hr
      have hl := sliceTo_length hp
      have := ih _ _ _ hr
      simp only [List.length_append, hl] at this
      omega

theorem tryCopyToSlice_safe (fuel : Nat) (b : AdvBuf) (n : Nat) : Safe (tryCopyToSlice fuel b n) := by
  unfold tryCopyToSlice
  refine Safe.bind (remaining_safe b) fun r _ => ?_
  apply Safe.ite
  · intro _; simp
  · intro _
    refine Safe.bind (tryCopyLoop_safe _ _ _ _) fun p _ => ?_
    obtain ⟨bs, b'⟩ := p
    simp

theorem tryCopyToSlice_len (fuel : Nat) (b b' : AdvBuf) (n : Nat) (bs : Bs)
    (hr : tryCopyToSlice fuel b n = .ok (some bs, b')) : bs.length = n := by
  unfold tryCopyToSlice at hr
  obtain ⟨r, _, hr⟩ := bind_eq_ok hr
  split at hr
  · cases hr
  · obtain ⟨⟨bs1, b1⟩, h1, hr⟩ := bind_eq_ok hr
    have := tryCopyLoop_len _ _ _ _ _ _ h1
    simp only [pure_eq, Res.ok.injEq, Prod.mk.injEq, Option.some.injEq] at hr
    obtain ⟨rfl, _⟩ := hr
    simpa using this

theorem copyToSlice_safe (fuel : Nat) (b : AdvBuf) (n : Nat) : Safe (copyToSlice fuel b n) := by
  unfold copyToSlice
  refine Safe.bind (tryCopyToSlice_safe _ _ _) fun p _ => ?_
  obtain ⟨o, b'⟩ := p
  cases o <;> simp

theorem copyToSlice_len (fuel : Nat) (b b' : AdvBuf) (n : Nat) (bs : Bs)
    (hr : copyToSlice fuel b n = .ok (bs, b')) : bs.length = n := by
  unfold copyToSlice at hr
  obtain ⟨⟨o, b1⟩, h1, hr⟩ := bind_eq_ok hr
  cases o with
  | none => simp at hr
  | some bs1 =>
    simp only [pure_eq, Res.ok.injEq, Prod.mk.injEq] at hr
    obtain ⟨rfl, rfl⟩ := hr
    exact tryCopyToSlice_len _ _ _ _ _ h1

theorem tryGetFixed_safe (fuel : Nat) (b : AdvBuf) (size : Nat) : Safe (tryGetFixed fuel b size) := by
  unfold tryGetFixed
  refine Safe.bind (remaining_safe b) fun r _ => ?_
  apply Safe.ite
  · intro _; simp
  · intro _
    refine Safe.bind (chunk_safe b) fun c _ => ?_
    apply Safe.ite
    · intro hc
      refine Safe.bind (unsafeRead_safe_of_le ?_) fun bytes _ => ?_
      · simp [List.length_take]; omega
      · refine Safe.bind (advance_safe _ _) fun b' _ => ?_
        simp
    · intro _
      refine Safe.bind (copyToSlice_safe _ _ _) fun p _ => ?_
      obtain ⟨bs, b'⟩ := p
      simp

theorem tryGetFixed_len (fuel : Nat) (b b' : AdvBuf) (size : Nat) (bs : Bs)
    (hr : tryGetFixed fuel b size = .ok (some bs, b')) : bs.length = size := by
  unfold tryGetFixed at hr
  obtain ⟨r, _, hr⟩ := bind_eq_ok hr
  split at hr
  · cases hr
  · obtain ⟨c, _, hr⟩ := bind_eq_ok hr
    split at hr
    · obtain ⟨bytes, hb, hr⟩ := bind_eq_ok hr
      obtain ⟨b1, _, hr⟩ := bind_eq_ok hr
      simp only [pure_eq, Res.ok.injEq, Prod.mk.injEq, Option.some.injEq] at hr
      obtain ⟨rfl, _⟩ := hr
      exact unsafeRead_length hb
    · obtain ⟨⟨bs1, b1⟩, h1, hr⟩ := bind_eq_ok hr
      simp only [pure_eq, Res.ok.injEq, Prod.mk.injEq, Option.some.injEq] at hr
      obtain ⟨rfl, _⟩ := hr
      exact copyToSlice_len _ _ _ _ _ h1

theorem tryGetVar_safe (fuel : Nat) (b : AdvBuf) (nbytes : Nat) : Safe (tryGetVar fuel b nbytes) := by
  unfold tryGetVar
  exact Safe.ite (fun _ => safe_panic) (fun _ => tryCopyToSlice_safe _ _ _)

theorem getU8_safe (b : AdvBuf) : Safe (getU8 b) := by
  unfold getU8
  refine Safe.bind (remaining_safe b) fun r _ => ?_
  apply Safe.ite
  · intro _; simp
  · intro _
    refine Safe.bind (chunk_safe b) fun c _ => ?_
    cases c with
    | nil => simp
    | cons x xs =>
      refine Safe.bind (advance_safe _ _) fun b' _ => ?_
      simp

theorem iterNext_safe (b : AdvBuf) : Safe (iterNext b) := by
  unfold iterNext
  refine Safe.bind (remaining_safe b) fun r _ => ?_
  apply Safe.ite
  · intro _; simp
  · intro _
    refine Safe.bind (chunk_safe b) fun c _ => ?_
    cases c with
    | nil => simp
    | cons x xs =>
      refine Safe.bind (advance_safe _ _) fun b' _ => ?_
      simp

theorem readerRead_safe (fuel : Nat) (b : AdvBuf) (n : Nat) : Safe (readerRead fuel b n) := by
  unfold readerRead
  exact Safe.bind (remaining_safe b) fun r _ => copyToSlice_safe _ _ _

theorem takeChunksVectored_safe (b : AdvBuf) (limit dstLen : Nat) :
    Safe (takeChunksVectored b limit dstLen) := by
  unfold takeChunksVectored
  apply Safe.ite (fun _ => safe_pure _) fun _ => ?_
  apply Safe.ite (fun _ => safe_pure _) fun _ => ?_
  refine Safe.bind (remaining_safe b) fun r _ => ?_
  apply Safe.ite (fun _ => safe_pure _) fun _ => ?_
  exact Safe.bind (chunk_safe b) fun c _ => safe_pure _

/-! ### `put` into a fixed destination -/

theorem putFixedLoop_safe (fuel : Nat) (b : AdvBuf) (room : Nat) (acc : Bs) :
    Safe (putFixedLoop fuel b room acc) := by
  induction fuel generalizing b room acc with
  | zero => simp [putFixedLoop]
  | succ fuel ih =>
    simp only [putFixedLoop]
    refine Safe.bind (remaining_safe b) fun r _ => ?_
    apply Safe.ite (fun _ => safe_pure _) fun _ => ?_
    refine Safe.bind (chunk_safe b) fun s _ => ?_
    refine Safe.bind (sliceTo_safe _ _) fun part _ => ?_
    apply Safe.ite (fun _ => safe_panic) fun _ => ?_
    refine Safe.bind (advance_safe _ _) fun b' _ => ?_
    exact ih _ _ _

theorem putFixed_safe (fuel : Nat) (b : AdvBuf) (room : Nat) : Safe (putFixed fuel b room) := by
  unfold putFixed
  refine Safe.bind (remaining_safe b) fun r _ => ?_
  exact Safe.ite (fun _ => safe_panic) fun _ => putFixedLoop_safe _ _ _ _

theorem putFixedLoop_len (fuel : Nat) (b : AdvBuf) (room room' : Nat) (acc out : Bs)
    (hr : putFixedLoop fuel b room acc = .ok (out, room')) : out.length + room' = acc.length + room := by
  induction fuel generalizing b room acc with
  | zero => simp [putFixedLoop] at hr
  | succ fuel ih =>
    simp only [putFixedLoop] at hr
    obtain ⟨r, _, hr⟩ := bind_eq_ok hr
    split at hr
    · simp only [pure_eq, Res.ok.injEq, Prod.mk.injEq] at hr
      obtain ⟨rfl, rfl⟩ := hr
      rfl
    · obtain ⟨s, _, hr⟩ := bind_eq_ok hr
      obtain ⟨part, hp, hr⟩ := bind_eq_ok hr
      have hl := sliceTo_length hp
      split at hr
      · cases hr
      · obtain ⟨b1, _, hr⟩ := bind_eq_ok hr
        have := ih _ _ _ hr
        simp only [List.length_append, hl] at this
        omega

/-! ### `put` into a growing destination -/

theorem putGrowLoop_safe (fuel : Nat) (b : AdvBuf) (len cap : Nat) :
    Safe (putGrowLoop fuel b len cap) := by
  induction fuel generalizing b len cap with
  | zero => simp [putGrowLoop]
  | succ fuel ih =>
    simp only [putGrowLoop]
    refine Safe.bind (remaining_safe b) fun r _ => ?_
    apply Safe.ite (fun _ => safe_pure _) fun _ => ?_
    refine Safe.bind (chunk_safe b) fun s _ => ?_
    refine Safe.bind (unsafeWrite_safe_of_le ?_) fun _ _ => ?_
    · split <;> omega
    · refine Safe.bind (advance_safe _ _) fun b' _ => ?_
      exact ih _ _ _

theorem putGrowLoop_inv (fuel : Nat) (b : AdvBuf) (len cap len' cap' : Nat) (h : len ≤ cap)
    (hr : putGrowLoop fuel b len cap = .ok (len', cap')) : len' ≤ cap' := by
  induction fuel generalizing b len cap with
  | zero => simp [putGrowLoop] at hr
  | succ fuel ih =>
    simp only [putGrowLoop] at hr
    obtain ⟨r, _, hr⟩ := bind_eq_ok hr
    split at hr
    · simp only [pure_eq, Res.ok.injEq, Prod.mk.injEq] at hr
      obtain ⟨rfl, rfl⟩ := hr
      exact h
    · obtain ⟨s, _, hr⟩ := bind_eq_ok hr
      obtain ⟨_, _, hr⟩ := bind_eq_ok hr
      obtain ⟨b1, _, hr⟩ := bind_eq_ok hr
      refine ih _ _ _ ?_ hr
      split <;> omega

end BytesVerif.Adv
