/- Helper lemmas for Props/OracleSoundBuf.lean: rendering / parsing round trips of the judge's
result strings, and the shape facts (`InnerOK`) behind the C12 inner-state oracles. -/
import BytesVerif.Judge.Buf
import BytesVerif.Judge.Mut
import BytesVerif.Props.C09
import BytesVerif.Props.C10
import BytesVerif.Props.C11
import BytesVerif.Props.C12
import BytesVerif.Cert.C10
import BytesVerif.Cert.C11
import Std.Data.String.ToNat
namespace BytesVerif.OracleSound
open BytesVerif.Judge BytesVerif.Buf BytesVerif.Codec

/-! ### Strings: numbers -/

theorem toNat_toString (n : Nat) : (toString n).toNat? = some n := Nat.toNat?_repr n

/-! ### Strings: hex -/

theorem hexVal_hexDigit : ∀ n : Fin 16, hexVal (hexDigit n.val) = some n.val := by decide

theorem hexVal_hexDigit' (n : Nat) (h : n < 16) : hexVal (hexDigit n) = some n :=
  hexVal_hexDigit ⟨n, h⟩

def hexChars (bs : List Nat) : List Char := bs.flatMap fun b => [hexDigit (b / 16), hexDigit (b % 16)]

theorem hexChars_cons (b : Nat) (r : List Nat) :
    hexChars (b :: r) = hexDigit (b / 16) :: hexDigit (b % 16) :: hexChars r := by
  simp [hexChars]

theorem parseHex_go (bs : List Nat) (h : ∀ x ∈ bs, x < 256) (acc : List Nat) :
    parseHex.go (hexChars bs) acc = some (acc.reverse ++ bs) := by
  induction bs generalizing acc with
  | nil => simp [hexChars, parseHex.go]
  | cons b r ih =>
    have hb : b < 256 := h b (by simp)
    rw [hexChars_cons, parseHex.go, hexVal_hexDigit' _ (by omega), hexVal_hexDigit' _ (by omega)]
    simp only
    rw [ih (fun x hx => h x (by simp [hx]))]
    have : b / 16 * 16 + b % 16 = b := by omega
    simp [this]

theorem toHex_nil : toHex [] = "-" := by simp [toHex]
theorem toHex_cons (b : Nat) (r : List Nat) : toHex (b :: r) = String.ofList (hexChars (b :: r)) := by
  simp [toHex, hexChars]

theorem hexChars_length (bs : List Nat) : (hexChars bs).length = 2 * bs.length := by
  induction bs with
  | nil => rfl
  | cons b r ih => rw [hexChars_cons]; simp only [List.length_cons, ih]; omega

/-- hex rendering parses back (bytes are `u8`) -/
theorem parseHex_toHex (bs : List Nat) (h : ∀ x ∈ bs, x < 256) : parseHex (toHex bs) = some bs := by
  cases bs with
  | nil => simp [toHex_nil, parseHex]
  | cons b r =>
    rw [toHex_cons]
    have hne : (String.ofList (hexChars (b :: r)) == "-") = false := by
      rw [beq_eq_false_iff_ne]
      intro he
      have := congrArg String.toList he
      rw [String.toList_ofList] at this
      have := congrArg List.length this
      rw [hexChars_length] at this
      simp at this
      omega
    unfold parseHex
    rw [hne]
    simp only [Bool.false_eq_true, ↓reduceIte, String.toList_ofList]
    rw [parseHex_go _ h]
    simp

/-! ### Tokens -/

/-- a word the tokenizer `words` returns unchanged: non-empty, no whitespace -/
def Tok (w : String) : Prop := w ≠ "" ∧ ∀ c ∈ w.toList, c.isWhitespace = false

def hexAlphabet : List Char := "0123456789abcdef-".toList

/-- a non-empty string over the hex alphabet (plus "-" for the empty byte string) -/
def HexTok (w : String) : Prop := w ≠ "" ∧ ∀ c ∈ w.toList, c ∈ hexAlphabet

theorem hexDigit_mem : ∀ n : Fin 16, hexDigit n.val ∈ hexAlphabet := by decide

theorem hexChars_mem (bs : List Nat) (h : ∀ x ∈ bs, x < 256) : ∀ c ∈ hexChars bs, c ∈ hexAlphabet := by
  induction bs with
  | nil => intro c hc; simp [hexChars] at hc
  | cons b r ih =>
    have hb : b < 256 := h b (by simp)
    intro c hc
    rw [hexChars_cons] at hc
    simp only [List.mem_cons] at hc
    rcases hc with rfl | rfl | hc
    · exact hexDigit_mem ⟨b / 16, by omega⟩
    · exact hexDigit_mem ⟨b % 16, by omega⟩
    · exact ih (fun x hx => h x (by simp [hx])) c hc

theorem hexTok_toHex (bs : List Nat) (h : ∀ x ∈ bs, x < 256) : HexTok (toHex bs) := by
  cases bs with
  | nil => rw [toHex_nil]; exact ⟨by decide, by decide⟩
  | cons b r =>
    rw [toHex_cons]
    refine ⟨?_, ?_⟩
    · intro he
      have := congrArg String.toList he
      rw [String.toList_ofList, hexChars_cons] at this
      simp at this
    · rw [String.toList_ofList]; exact hexChars_mem _ h

theorem hexAlphabet_not_ws : ∀ c ∈ hexAlphabet, c.isWhitespace = false := by decide
theorem hexAlphabet_not_comma : ',' ∉ hexAlphabet := by decide
theorem hexAlphabet_not_dot : '.' ∉ hexAlphabet := by decide

theorem HexTok.tok {w : String} (h : HexTok w) : Tok w :=
  ⟨h.1, fun c hc => hexAlphabet_not_ws c (h.2 c hc)⟩

theorem tok_toHex (bs : List Nat) (h : ∀ x ∈ bs, x < 256) : Tok (toHex bs) := (hexTok_toHex bs h).tok

theorem isDigit_not_ws (c : Char) (h : c.isDigit = true) : c.isWhitespace = false := by
  simp only [Char.isDigit, Bool.and_eq_true, decide_eq_true_eq] at h
  simp only [Char.isWhitespace, Bool.or_eq_false_iff, decide_eq_false_iff_not]
  refine ⟨⟨⟨?_, ?_⟩, ?_⟩, ?_⟩ <;> (intro he; subst he; revert h; decide)

theorem tok_natRepr (n : Nat) : Tok (Nat.repr n) := by
  refine ⟨Nat.repr_ne_empty, fun c hc => ?_⟩
  rw [Nat.toList_repr] at hc
  exact isDigit_not_ws c (Nat.isDigit_of_mem_toDigits (by omega) (by omega) hc)

theorem tok_nat (n : Nat) : Tok (toString n) := tok_natRepr n

theorem tok_int (v : Int) : Tok (toString v) := by
  show Tok (Int.repr v)
  cases v with
  | ofNat m => exact tok_natRepr m
  | negSucc m =>
    show Tok ("-" ++ Nat.repr (m + 1))
    have ht := tok_natRepr (m + 1)
    refine ⟨?_, fun c hc => ?_⟩
    · intro he
      have := congrArg String.toList he
      rw [String.toList_append] at this
      simp at this
    · rw [String.toList_append] at hc
      simp only [List.mem_append] at hc
      rcases hc with hc | hc
      · revert c; decide
      · exact ht.2 c hc

/-! ### comma-separated lists of hex tokens (result of `vec`) -/

theorem mem_intercalate {α : Type} {sep : List α} {xs : List (List α)} {c : α}
    (h : c ∈ sep.intercalate xs) : c ∈ sep ∨ ∃ x ∈ xs, c ∈ x := by
  induction xs with
  | nil => simp [List.intercalate] at h
  | cons x r ih =>
    cases r with
    | nil => simp [List.intercalate] at h; exact .inr ⟨x, by simp, h⟩
    | cons y r' =>
      simp only [List.intercalate, List.intersperse_cons_cons, List.flatten_cons, List.mem_append] at h ih
      rcases h with h | h | h
      · exact .inr ⟨x, by simp, h⟩
      · exact .inl h
      · rcases ih h with h | ⟨z, hz, hc⟩
        · exact .inl h
        · exact .inr ⟨z, by simp [hz], hc⟩

theorem mem_intercalate_head {α : Type} {sep : List α} {x : List α} {xs : List (List α)} {c : α}
    (h : c ∈ x) : c ∈ sep.intercalate (x :: xs) := by
  cases xs with
  | nil => simp [List.intercalate, h]
  | cons y r => simp [List.intercalate, h]

theorem mapM_parseHex (sl : List Bs) (h : ∀ s ∈ sl, ∀ x ∈ s, x < 256) :
    (sl.map toHex).mapM parseHex = some sl := by
  induction sl with
  | nil => rfl
  | cons s r ih =>
    simp only [List.map_cons, List.mapM_cons, parseHex_toHex s (h s (by simp)),
      ih (fun t ht => h t (by simp [ht]))]
    rfl

/-- the comma-joined hex rendering of a non-empty slice list -/
def commaHex (sl : List Bs) : String := ",".intercalate (sl.map toHex)

theorem commaHex_chars (sl : List Bs) (h : ∀ s ∈ sl, ∀ x ∈ s, x < 256) :
    ∀ c ∈ (commaHex sl).toList, c ∈ hexAlphabet ∨ c = ',' := by
  intro c hc
  rw [commaHex, String.toList_intercalate] at hc
  rcases mem_intercalate hc with hc | ⟨x, hx, hc⟩
  · right
    have : ∀ c ∈ ",".toList, c = ',' := by decide
    exact this c hc
  · left
    simp only [List.map_map, List.mem_map, Function.comp] at hx
    obtain ⟨s, hs, rfl⟩ := hx
    exact (hexTok_toHex s (h s hs)).2 c hc

theorem commaHex_ne_empty (s : Bs) (r : List Bs) (h : ∀ x ∈ s, x < 256) : commaHex (s :: r) ≠ "" := by
  intro he
  have ht := hexTok_toHex s h
  have hne : (toHex s).toList ≠ [] := by
    intro h0; exact ht.1 (String.toList_eq_nil_iff.1 h0)
  obtain ⟨c, hc⟩ := List.exists_mem_of_ne_nil _ hne
  have : c ∈ (commaHex (s :: r)).toList := by
    rw [commaHex, String.toList_intercalate]
    exact mem_intercalate_head hc
  rw [he] at this
  simp at this

theorem commaHex_tok (s : Bs) (r : List Bs) (h : ∀ t ∈ s :: r, ∀ x ∈ t, x < 256) : Tok (commaHex (s :: r)) := by
  refine ⟨commaHex_ne_empty s r (h s (by simp)), fun c hc => ?_⟩
  rcases commaHex_chars _ h c hc with hc | rfl
  · exact hexAlphabet_not_ws c hc
  · decide

theorem commaHex_ne_dot (sl : List Bs) (h : ∀ s ∈ sl, ∀ x ∈ s, x < 256) : commaHex sl ≠ "." := by
  intro he
  have := commaHex_chars sl h '.' (by rw [he]; decide)
  rcases this with h | h
  · exact hexAlphabet_not_dot h
  · revert h; decide


section Tokenizer
open String (Pos.Raw)

/-! ### the legacy `String.splitOn` on a one-character separator, via the `List Char` model -/

def ulen : List Char → Nat
  | [] => 0
  | c :: cs => c.utf8Size + ulen cs

theorem ulen_append (a b : List Char) : ulen (a ++ b) = ulen a + ulen b := by
  induction a with
  | nil => simp [ulen]
  | cons c cs ih => simp [ulen, ih]; omega

theorem utf8ByteSize_ofList (l : List Char) : (String.ofList l).utf8ByteSize = ulen l := by
  induction l with
  | nil => simp [ulen]
  | cons c cs ih =>
    rw [String.ofList_cons, String.utf8ByteSize_append, String.utf8ByteSize_singleton, ih]; rfl

theorem utf8ByteSize_eq (s : String) : s.utf8ByteSize = ulen s.toList := by
  conv => lhs; rw [← String.ofList_toList (s := s)]
  exact utf8ByteSize_ofList _

theorem getAux_valid (l1 : List Char) (c : Char) (l2 : List Char) (i : Nat) :
    Pos.Raw.utf8GetAux (l1 ++ c :: l2) ⟨i⟩ ⟨i + ulen l1⟩ = c := by
  induction l1 generalizing i with
  | nil => simp [Pos.Raw.utf8GetAux, ulen]
  | cons a l1 ih =>
    have hpos := Char.utf8Size_pos a
    have hne : ¬ ((⟨i⟩ : Pos.Raw) = ⟨i + ulen (a :: l1)⟩) := by
      intro h; have := congrArg Pos.Raw.byteIdx h; simp [ulen] at this; omega
    simp only [List.cons_append, Pos.Raw.utf8GetAux, hne, ↓reduceIte]
    have : (⟨i⟩ : Pos.Raw) + a = ⟨i + a.utf8Size⟩ := rfl
    rw [this]
    have h2 : i + ulen (a :: l1) = (i + a.utf8Size) + ulen l1 := by simp [ulen]; omega
    rw [h2]
    exact ih _

theorem get_valid (s : String) (l1 : List Char) (c : Char) (l2 : List Char) (h : s.toList = l1 ++ c :: l2) :
    Pos.Raw.get s ⟨ulen l1⟩ = c := by
  have := getAux_valid l1 c l2 0
  simp only [Nat.zero_add] at this
  rw [Pos.Raw.get, h]; exact this

theorem next_valid (s : String) (l1 : List Char) (c : Char) (l2 : List Char) (h : s.toList = l1 ++ c :: l2) :
    Pos.Raw.next s ⟨ulen l1⟩ = ⟨ulen l1 + c.utf8Size⟩ := by
  rw [Pos.Raw.next, get_valid s l1 c l2 h]; rfl

theorem atEnd_iff (s : String) (n : Nat) : Pos.Raw.atEnd s ⟨n⟩ = decide (ulen s.toList ≤ n) := by
  simp [Pos.Raw.atEnd, utf8ByteSize_eq]

theorem go₂_valid (m l2 : List Char) (j : Nat) :
    Pos.Raw.extract.go₂ (m ++ l2) ⟨j⟩ ⟨j + ulen m⟩ = m := by
  induction m generalizing j with
  | nil =>
    cases l2 with
    | nil => simp [Pos.Raw.extract.go₂]
    | cons c cs => simp [Pos.Raw.extract.go₂, ulen]
  | cons a m ih =>
    have hpos := Char.utf8Size_pos a
    have hne : ¬ ((⟨j⟩ : Pos.Raw) = ⟨j + ulen (a :: m)⟩) := by
      intro h; have := congrArg Pos.Raw.byteIdx h; simp [ulen] at this; omega
    simp only [List.cons_append, Pos.Raw.extract.go₂, hne, ↓reduceIte]
    have : (⟨j⟩ : Pos.Raw) + a = ⟨j + a.utf8Size⟩ := rfl
    rw [this]
    have h2 : j + ulen (a :: m) = (j + a.utf8Size) + ulen m := by simp [ulen]; omega
    rw [h2, ih]

theorem go₁_valid (l1 m l2 : List Char) (i : Nat) (e : Pos.Raw) (hm : m ≠ []) :
    Pos.Raw.extract.go₁ (l1 ++ m ++ l2) ⟨i⟩ ⟨i + ulen l1⟩ e
      = Pos.Raw.extract.go₂ (m ++ l2) ⟨i + ulen l1⟩ e := by
  induction l1 generalizing i with
  | nil =>
    cases m with
    | nil => exact absurd rfl hm
    | cons a m => simp [Pos.Raw.extract.go₁, ulen]
  | cons a l1 ih =>
    have hpos := Char.utf8Size_pos a
    have hne : ¬ ((⟨i⟩ : Pos.Raw) = ⟨i + ulen (a :: l1)⟩) := by
      intro h; have := congrArg Pos.Raw.byteIdx h; simp [ulen] at this; omega
    simp only [List.cons_append, Pos.Raw.extract.go₁, hne, ↓reduceIte]
    have : (⟨i⟩ : Pos.Raw) + a = ⟨i + a.utf8Size⟩ := rfl
    rw [this]
    have h2 : i + ulen (a :: l1) = (i + a.utf8Size) + ulen l1 := by simp [ulen]; omega
    rw [h2]
    have := ih (i + a.utf8Size)
    simpa using this

theorem extract_valid (s : String) (l1 m l2 : List Char) (h : s.toList = l1 ++ m ++ l2) :
    Pos.Raw.extract s ⟨ulen l1⟩ ⟨ulen l1 + ulen m⟩ = String.ofList m := by
  cases m with
  | nil => simp [Pos.Raw.extract, ulen]
  | cons a m =>
    have hpos := Char.utf8Size_pos a
    have hlt : ¬ (ulen l1 ≥ ulen l1 + ulen (a :: m)) := by simp [ulen]; omega
    simp only [Pos.Raw.extract, hlt, ↓reduceIte, h]
    have := go₁_valid l1 (a :: m) l2 0 ⟨ulen l1 + ulen (a :: m)⟩ (by simp)
    simp only [Nat.zero_add] at this
    have h0 : (0 : Pos.Raw) = ⟨0⟩ := rfl
    rw [h0, this, go₂_valid]


theorem splitOnAux_one (s sep : String) (c : Char) (hsep : sep.toList = [c])
    (rest pre cur : List Char) (r : List String) (h : s.toList = pre ++ cur ++ rest) :
    String.splitOnAux s sep ⟨ulen pre⟩ ⟨ulen pre + ulen cur⟩ 0 r
      = r.reverse ++ (List.splitOnPPrepend (· == c) rest cur.reverse).map String.ofList := by
  have h0 : (0 : Pos.Raw) = ⟨ulen ([] : List Char)⟩ := rfl
  have hget0 : Pos.Raw.get sep 0 = c := by rw [h0]; exact get_valid sep [] c [] (by simpa using hsep)
  have hnext0 : Pos.Raw.next sep 0 = ⟨c.utf8Size⟩ := by
    rw [h0, next_valid sep [] c [] (by simpa using hsep)]; simp [ulen]
  have hend0 : Pos.Raw.atEnd sep ⟨c.utf8Size⟩ = true := by
    rw [atEnd_iff, hsep]; simp [ulen]
  induction rest generalizing pre cur r with
  | nil =>
    rw [String.splitOnAux]
    have hend : Pos.Raw.atEnd s ⟨ulen pre + ulen cur⟩ = true := by
      rw [atEnd_iff, h]; simp [ulen_append]
    simp only [hend, ↓reduceIte]
    rw [extract_valid s pre cur [] h]
    simp
  | cons x rest ih =>
    rw [String.splitOnAux]
    have hpos := Char.utf8Size_pos x
    have hend : Pos.Raw.atEnd s ⟨ulen pre + ulen cur⟩ = false := by
      rw [atEnd_iff, h]; simp [ulen_append, ulen]; omega
    have hi : (⟨ulen pre + ulen cur⟩ : Pos.Raw) = ⟨ulen (pre ++ cur)⟩ := by rw [ulen_append]
    have hget : Pos.Raw.get s ⟨ulen pre + ulen cur⟩ = x := by
      rw [hi]; exact get_valid s (pre ++ cur) x rest h
    have hnext : Pos.Raw.next s ⟨ulen pre + ulen cur⟩ = ⟨ulen pre + ulen cur + x.utf8Size⟩ := by
      rw [hi, next_valid s (pre ++ cur) x rest h, ulen_append]
    simp only [hend, Bool.false_eq_true, ↓reduceIte, hget, hget0]
    by_cases hx : (x == c) = true
    · have hxc : x = c := by simpa using hx
      simp only [hx, ↓reduceIte, hnext, hnext0, hend0]
      have hun : (⟨ulen pre + ulen cur + x.utf8Size⟩ : Pos.Raw).unoffsetBy ⟨c.utf8Size⟩
          = ⟨ulen pre + ulen cur⟩ := by
        rw [hxc]; simp [Pos.Raw.unoffsetBy]
      rw [hun, extract_valid s pre cur (x :: rest) h]
      have h' : s.toList = (pre ++ cur ++ [x]) ++ [] ++ rest := by rw [h]; simp
      have := ih (pre ++ cur ++ [x]) [] (String.ofList cur :: r) h'
      simp only [ulen_append, ulen, Nat.add_zero] at this
      rw [this, List.splitOnPPrepend_cons_eq_if]
      simp [hx]
    · have hx' : (x == c) = false := by simpa using hx
      simp only [hx', Bool.false_eq_true, ↓reduceIte]
      have hun : (⟨ulen pre + ulen cur⟩ : Pos.Raw).unoffsetBy 0 = ⟨ulen pre + ulen cur⟩ := by
        simp [Pos.Raw.unoffsetBy]
      rw [hun, hnext]
      have h' : s.toList = pre ++ (cur ++ [x]) ++ rest := by rw [h]; simp
      have := ih pre (cur ++ [x]) r h'
      simp only [ulen_append, ulen, Nat.add_zero] at this
      rw [← Nat.add_assoc] at this
      rw [this, List.splitOnPPrepend_cons_eq_if]
      simp [hx']

/-- the legacy `String.splitOn` with a one-character separator is `List.splitOn` on the characters -/
theorem splitOn_one (s sep : String) (c : Char) (hsep : sep.toList = [c]) :
    s.splitOn sep = (s.toList.splitOn c).map String.ofList := by
  have hne : (sep == "") = false := by
    rw [beq_eq_false_iff_ne]; intro he; rw [he] at hsep; simp at hsep
  have := splitOnAux_one s sep c hsep s.toList [] [] [] (by simp)
  simp only [ulen, Nat.add_zero, List.reverse_nil, List.nil_append] at this
  rw [String.splitOn, hne]
  simp only [Bool.false_eq_true, ↓reduceIte]
  exact this.trans (by rw [List.splitOn_eq_splitOnP]; rfl)



theorem splitOn_intercalate_str (sep : String) (c : Char) (hsep : sep.toList = [c]) (ts : List String)
    (hne : ts ≠ []) (h : ∀ t ∈ ts, c ∉ t.toList) : (sep.intercalate ts).splitOn sep = ts := by
  rw [splitOn_one _ sep c hsep, String.toList_intercalate, hsep,
    List.splitOn_intercalate c (ls := ts.map String.toList)]
  · simp [List.map_map, Function.comp_def]
  · intro l hl
    simp only [List.mem_map] at hl
    obtain ⟨t, ht, rfl⟩ := hl
    exact h t ht
  · simpa using hne

theorem head?_append_ne {a b : List Char} (h : a ≠ []) : (a ++ b).head? = a.head? := by
  cases a with
  | nil => exact absurd rfl h
  | cons x a => simp

theorem getLast?_append_ne {a b : List Char} (h : b ≠ []) : (a ++ b).getLast? = b.getLast? := by
  rw [List.getLast?_append]
  cases hb : b.getLast? with
  | none => simp [List.getLast?_eq_none_iff] at hb; exact absurd hb h
  | some c => simp

theorem tok_no_space {w : String} (h : Tok w) : ' ' ∉ w.toList := by
  intro hc
  have := h.2 ' ' hc
  revert this; decide

theorem tok_toList_ne_nil {w : String} (h : Tok w) : w.toList ≠ [] := by
  intro h0; exact h.1 (String.toList_eq_nil_iff.1 h0)

theorem joined_ne_nil (sep : List Char) (w : String) (ws : List String) (hw : Tok w) :
    sep.intercalate ((w :: ws).map String.toList) ≠ [] := by
  obtain ⟨c, hc⟩ := List.exists_mem_of_ne_nil _ (tok_toList_ne_nil hw)
  intro h0
  have : c ∈ sep.intercalate ((w :: ws).map String.toList) := by
    simp only [List.map_cons]; exact mem_intercalate_head hc
  rw [h0] at this; simp at this

theorem joined_head (sep : List Char) (ws : List String) (h : ∀ w ∈ ws, Tok w) (c : Char)
    (hc : (sep.intercalate (ws.map String.toList)).head? = some c) : c.isWhitespace = false := by
  cases ws with
  | nil => simp [List.intercalate] at hc
  | cons w r =>
    have hw := h w (by simp)
    have hne := tok_toList_ne_nil hw
    have : (sep.intercalate ((w :: r).map String.toList)).head? = w.toList.head? := by
      cases r with
      | nil => simp [List.intercalate]
      | cons y r' =>
        simp only [List.map_cons, List.intercalate_cons_cons]
        rw [List.append_assoc, head?_append_ne hne]
    rw [this] at hc
    exact hw.2 c (List.mem_of_head? hc)

theorem joined_last (sep : List Char) (ws : List String) (h : ∀ w ∈ ws, Tok w) (c : Char)
    (hc : (sep.intercalate (ws.map String.toList)).getLast? = some c) : c.isWhitespace = false := by
  induction ws with
  | nil => simp [List.intercalate] at hc
  | cons w r ih =>
    have hw := h w (by simp)
    cases r with
    | nil =>
      simp [List.intercalate] at hc
      exact hw.2 c (List.mem_of_getLast? hc)
    | cons y r' =>
      have hy := h y (by simp)
      simp only [List.map_cons, List.intercalate_cons_cons] at hc
      have hne := joined_ne_nil sep y r' hy
      simp only [List.map_cons] at hne
      rw [getLast?_append_ne hne] at hc
      exact ih (fun w hw => h w (by simp [hw])) (by simpa using hc)

theorem trimAscii_self (s : String)
    (hh : ∀ c, s.toList.head? = some c → c.isWhitespace = false)
    (hl : ∀ c, s.toList.getLast? = some c → c.isWhitespace = false) : s.trimAscii.toString = s := by
  have h1 : s.toSlice.trimAsciiStart = s.toSlice := by
    unfold String.Slice.trimAsciiStart
    apply String.Slice.dropWhile_eq_self
    rw [String.Slice.startsWith_bool_eq_head?, String.copy_toSlice]
    cases hd : s.toList.head? with
    | none => rfl
    | some c => simpa using hh c hd
  have h2 : s.toSlice.trimAsciiEnd = s.toSlice := by
    unfold String.Slice.trimAsciiEnd
    apply String.Slice.dropEndWhile_eq_self
    rw [String.Slice.endsWith_bool_eq_getLast?, String.copy_toSlice]
    cases hd : s.toList.getLast? with
    | none => rfl
    | some c => simpa using hl c hd
  show (s.toSlice.trimAscii).copy = s
  unfold String.Slice.trimAscii
  rw [h1, h2, String.copy_toSlice]

/-- the judge's tokenizer returns the tokens of a space-joined list of tokens -/
theorem words_join (ws : List String) (h : ∀ w ∈ ws, Tok w) : words (" ".intercalate ws) = ws := by
  have hsp : " ".toList = [' '] := by decide
  have htrim : (" ".intercalate ws).trimAscii.toString = " ".intercalate ws := by
    apply trimAscii_self
    · intro c hc; rw [String.toList_intercalate] at hc; exact joined_head _ ws h c hc
    · intro c hc; rw [String.toList_intercalate] at hc; exact joined_last _ ws h c hc
  unfold words
  rw [htrim]
  cases ws with
  | nil =>
    have : " ".intercalate ([] : List String) = "" := rfl
    rw [this, splitOn_one "" " " ' ' hsp]
    have h0 : "".toList = [] := by decide
    rw [h0, List.splitOn_nil]
    decide
  | cons w r =>
    rw [splitOn_intercalate_str " " ' ' hsp (w :: r) (by simp) (fun t ht => tok_no_space (h t ht))]
    apply List.filter_eq_self.2
    intro t ht
    simpa using (h t ht).1

end Tokenizer

/-! ### the inner-state predicate of C12 (read side) -/

/-- after `k` bytes went through a `Take` / `Chain` root: same shape, limit reduced by `k`, inner
buffers advanced by exactly their share -/
def InnerOK (pre post : BufT) (k : Nat) : Prop :=
  match pre with
  | .take i lim => ∃ i', post = .take i' (lim - k) ∧ den i' = (den i).drop k
  | .chain a b => ∃ a' b', post = .chain a' b' ∧ den a' = (den a).drop k ∧
      den b' = (den b).drop (k - (den a).length)
  | _ => True

theorem innerOK_refl (pre : BufT) : InnerOK pre pre 0 := by
  cases pre with
  | take i lim => exact ⟨i, rfl, rfl⟩
  | chain a b => exact ⟨a, b, rfl, rfl, by simp⟩
  | _ => simp [InnerOK]

theorem innerOK_of_adv {pre post : BufT} {k : Nat} (h : Adv pre k post) (hwf : wf pre) :
    InnerOK pre post k := by
  cases pre with
  | take i lim =>
    obtain ⟨i', e, hadv⟩ := h.take_shape i lim rfl
    exact ⟨i', e, (hadv.spec hwf.1).1⟩
  | chain a b =>
    obtain ⟨a', b', e, h1, h2, _, _⟩ := h.chain_shape a b rfl hwf
    exact ⟨a', b', e, h1, h2⟩
  | _ => simp [InnerOK]

theorem innerOK_advance {pre post : BufT} {n : Nat} (hwf : wf pre) (hn : n ≤ remaining pre)
    (h : advance pre n = .ok post) : InnerOK pre post n :=
  innerOK_of_adv ((Adv.step hwf hn h (Adv.refl post)).cast (by omega)) hwf

theorem innerOK_tryCopy {pre post : BufT} {n : Nat} {bs : Bs} (hwf : wf pre) (hn : n ≤ remaining pre)
    (h : tryCopyToSlice pre n = .ok (some bs, post)) : InnerOK pre post n := by
  obtain ⟨b', h1, hadv⟩ := tryCopyToSlice_adv pre n hwf hn
  rw [h] at h1; cases h1
  exact innerOK_of_adv hadv hwf

theorem innerOK_copyToSlice {pre post : BufT} {n : Nat} {bs : Bs} (hwf : wf pre) (hn : n ≤ remaining pre)
    (h : copyToSlice pre n = .ok (bs, post)) : InnerOK pre post n := by
  cases pre with
  | take i lim =>
    obtain ⟨i', h1, h2, _⟩ := take_copyToSlice_inner i lim n hwf hn
    rw [h] at h1; cases h1
    exact ⟨i', rfl, h2⟩
  | chain a b =>
    obtain ⟨a', b', h1, h2, h3, _, _⟩ := chain_copyToSlice_inner a b n hwf hn
    rw [h] at h1; cases h1
    exact ⟨a', b', rfl, h2, h3⟩
  | _ => simp [InnerOK]

theorem innerOK_copyToBytes {pre post : BufT} {n : Nat} {bs : Bs} (hwf : wf pre) (hn : n ≤ remaining pre)
    (h : copyToBytes pre n = .ok (bs, post)) : InnerOK pre post n := by
  cases pre with
  | take i lim =>
    obtain ⟨i', h1, h2, _⟩ := take_copyToBytes_inner i lim n hwf hn
    rw [h] at h1; cases h1
    exact ⟨i', rfl, h2⟩
  | chain a b =>
    obtain ⟨a', b', h1, h2, h3, _, _⟩ := chain_copyToBytes_inner a b n hwf hn
    rw [h] at h1; cases h1
    exact ⟨a', b', rfl, h2, h3⟩
  | _ => simp [InnerOK]


/-- what the inner-state oracle needs to know about a (possibly) consuming call -/
def Moved (b b' : BufT) : Prop :=
  ∃ k, k ≤ (den b).length ∧ den b' = (den b).drop k ∧ InnerOK b b' k

theorem moved_refl (b : BufT) : Moved b b := ⟨0, Nat.zero_le _, by simp, innerOK_refl b⟩

theorem moved_advance {b b' : BufT} {n : Nat} (hwf : wf b) (hn : n ≤ remaining b)
    (h : advance b n = .ok b') : Moved b b' := by
  obtain ⟨b2, h1, h2, _⟩ := advance_ok b n hwf hn
  rw [h] at h1; cases h1
  exact ⟨n, by rwa [← remaining_eq b hwf], h2, innerOK_advance hwf hn h⟩

theorem moved_copyToSlice {b b' : BufT} {n : Nat} {bs : Bs} (hwf : wf b) (hn : n ≤ remaining b)
    (h : copyToSlice b n = .ok (bs, b')) : Moved b b' := by
  obtain ⟨b2, h1, h2, _⟩ := copyToSlice_ok b n hwf hn
  rw [h] at h1; cases h1
  exact ⟨n, by rwa [← remaining_eq b hwf], h2, innerOK_copyToSlice hwf hn h⟩

theorem moved_tryCopy {b b' : BufT} {n : Nat} {r : Option Bs} (hwf : wf b)
    (h : tryCopyToSlice b n = .ok (r, b')) : Moved b b' := by
  by_cases hn : n ≤ remaining b
  · obtain ⟨b2, h1, h2, _⟩ := tryCopyToSlice_ok b n hwf hn
    rw [h] at h1; cases h1
    exact ⟨n, by rwa [← remaining_eq b hwf], h2, innerOK_tryCopy hwf hn h⟩
  · rw [tryCopyToSlice_err b n (by omega)] at h
    cases h
    exact moved_refl b

theorem evalBody_moved (c : Cfg) (form : SignExtForm) (body : Body) (n : Nat) (b : BufT) (hwf : wf b)
    (out : Out) (b' : BufT) (h : evalBody c form body n b = .ok (out, b')) : Moved b b' := by
  induction body generalizing out with
  | byteDirect signed isTry =>
    rw [evalBody] at h
    split at h
    · split at h
      · cases h; exact moved_refl b
      · cases h
    · rename_i hr
      split at h
      · cases h
      · cases ha : advance b 1 with
        | panic => rw [ha] at h; cases h
        | ok b1 =>
          rw [ha] at h; simp only [Res.map, Res.ok.injEq, Prod.mk.injEq] at h
          rw [← h.2]
          exact moved_advance hwf (by omega) ha
  | fixed bytes signed conv isTry =>
    rw [evalBody, tryGetFixed] at h
    split at h
    · simp only [orPanic] at h
      split at h
      · cases h; exact moved_refl b
      · cases h
    · rename_i hr
      split at h
      · rename_i hc
        cases ha : advance b bytes with
        | panic => rw [ha] at h; cases h
        | ok b1 =>
          rw [ha] at h; simp only [Res.map, orPanic, Res.ok.injEq, Prod.mk.injEq] at h
          rw [← h.2]
          exact moved_advance hwf (by omega) ha
      · cases ha : copyToSlice b bytes with
        | panic => rw [ha] at h; cases h
        | ok p =>
          obtain ⟨bs, b1⟩ := p
          rw [ha] at h; simp only [Res.map, orPanic, Res.ok.injEq, Prod.mk.injEq] at h
          rw [← h.2]
          exact moved_copyToSlice hwf (by omega) ha
  | var arm s64 isTry =>
    rw [evalBody, tryGetVar] at h
    split at h
    · cases h
    · cases ha : tryCopyToSlice b n with
      | panic => rw [ha] at h; cases h
      | ok p =>
        obtain ⟨r, b1⟩ := p
        have hm := moved_tryCopy hwf ha
        rw [ha] at h
        cases r with
        | none =>
          simp only [orPanic] at h
          split at h
          · cases h; exact hm
          · cases h
        | some bs =>
          simp only [orPanic, Res.ok.injEq, Prod.mk.injEq] at h
          rw [← h.2]; exact hm
  | signExt inner t ih =>
    rw [evalBody] at h
    split at h
    · rename_i v b1 hi
      split at h
      · cases h; exact ih _ hi
      · cases h
    · rename_i hne
      exact ih _ h
  | neDispatch big little _ ih => rw [evalBody] at h; exact ih _ h
  | floatBits inner ih => rw [evalBody] at h; exact ih _ h
  | unknown t => rw [evalBody] at h; cases h

section WriteSide
open BytesVerif.BufMut BytesVerif.PutCodec

/-! ### `Wr e t bs t'`: `t'` is reached from `t` by in-range (chunk_mut; write; advance_mut) rounds
writing `bs` in total (the write-side analogue of `Adv`) -/

inductive Wr (e : Env) : MutT → Bs → MutT → Prop where
  | refl (t : MutT) : Wr e t [] t
  | step {t t1 t' : MutT} {bs rest : Bs} : wfM t → noHardLimit t 64 → bs.length ≤ (chunkMut e t).1 →
      writeAdvance (chunkMut e t).2 bs = .ok t1 → Wr e t1 rest t' → Wr e t (bs ++ rest) t'

theorem Wr.cast {e : Env} {t t' : MutT} {bs cs : Bs} (h : Wr e t bs t') (hc : bs = cs) : Wr e t cs t' :=
  hc ▸ h

theorem Wr.room {e : Env} (he : e.ok) {t t' : MutT} {bs : Bs} (h : Wr e t bs t') :
    roomOpt t' = (roomOpt t).map (· - bs.length) := by
  induction h with
  | refl t => cases roomOpt t <;> simp
  | @step t t1 t' bs rest hw hl hb hwa _ ih =>
    obtain ⟨t2, w1, _, w4, _, _⟩ := chunk_write e he t bs hw hl hb
    rw [hwa] at w1; cases w1
    rw [ih, w4]
    cases roomOpt t with
    | none => rfl
    | some r => simp only [Option.map_some, List.length_append, Option.some.injEq]; omega

theorem Wr.written_eq {e : Env} (he : e.ok) {t t' : MutT} {bs : Bs} (h : Wr e t bs t') (ho : ordM t) :
    written t' = written t ++ bs ∧ ordM t' := by
  induction h with
  | refl t => exact ⟨by simp, ho⟩
  | @step t t1 t' bs rest hw hl hb hwa _ ih =>
    obtain ⟨t2, w1, _, _, _, w6⟩ := chunk_write e he t bs hw hl hb
    rw [hwa] at w1; cases w1
    obtain ⟨x1, x2⟩ := w6 ho
    obtain ⟨y1, y2⟩ := ih x2
    exact ⟨by rw [y1, x1, List.append_assoc], y2⟩

theorem Wr.limit_shape {e : Env} {x t' : MutT} {bs : Bs} (h : Wr e x bs t') :
    ∀ i lim, x = .limit i lim → ∃ i', t' = .limit i' (lim - bs.length) := by
  induction h with
  | refl t => intro i lim hx; subst hx; exact ⟨i, by simp⟩
  | @step t t1 t' bs rest hw hl hb hwa _ ih =>
    intro i lim hx; subst hx
    rw [chunkMut_limit, writeAdvance_limit] at hwa
    split at hwa
    · cases hw2 : writeAdvance (chunkMut e i).2 bs with
      | panic => rw [hw2] at hwa; cases hwa
      | ok i2 =>
        rw [hw2, Res.map_ok] at hwa
        cases hwa
        obtain ⟨i', hi'⟩ := ih i2 _ rfl
        refine ⟨i', ?_⟩
        rw [hi', List.length_append, Nat.sub_sub]
    · cases hwa

theorem Wr.chain_shape {e : Env} (he : e.ok) {x t' : MutT} {bs : Bs} (h : Wr e x bs t') :
    ∀ a b, x = .chain a b → ordM a → ∃ a' b', t' = .chain a' b' ∧
      (∀ ra, roomOpt a = some ra → written a' = written a ++ bs.take ra) ∧
      (roomOpt a = none → written a' = written a ++ bs) := by
  induction h with
  | refl t => intro a b hx _; subst hx; exact ⟨a, b, rfl, by simp, by simp⟩
  | @step t t1 t' bs rest hw hl hb hwa _ ih =>
    intro a b hx hoa; subst hx
    rcases chain_step e he a b bs hw hl hb with ⟨a2, s1, s2, s3, s4⟩ | ⟨s0, b2, s1, _⟩
    · rw [hwa] at s1; cases s1
      obtain ⟨x1, x2⟩ := s4 hoa
      obtain ⟨a', b', e1, r1, r2⟩ := ih a2 b rfl x2
      refine ⟨a', b', e1, ?_, ?_⟩
      · intro ra hra
        have hle := s3 ra hra
        rw [hra] at s2
        rw [r1 (ra - bs.length) s2, x1, List.append_assoc]
        congr 1
        rw [List.take_append, List.take_of_length_le hle]
      · intro hn
        rw [hn] at s2
        rw [r2 s2, x1, List.append_assoc]
    · rw [hwa] at s1; cases s1
      obtain ⟨a', b', e1, r1, _⟩ := ih a b2 rfl hoa
      refine ⟨a', b', e1, ?_, ?_⟩
      · intro ra hra
        rw [s0] at hra; cases hra
        rw [r1 0 s0]; simp
      · intro hn; rw [hn] at s0; cases s0

theorem putLoop_wr (e : Env) (he : e.ok) (fuel : Nat) (t : MutT) (src : Bs) (hf : src.length ≤ fuel)
    (hi : Inv t src.length) (hw : src.length < W) :
    ∃ t', putLoop e fuel t src = .ok t' ∧ Wr e t src t' := by
  induction fuel generalizing t src with
  | zero =>
    have : src = [] := List.eq_nil_of_length_eq_zero (by omega)
    subst this
    exact ⟨t, putLoop_nil _ _ _, Wr.refl t⟩
  | succ fuel ih =>
    by_cases hsrc : src = []
    · subst hsrc; exact ⟨t, putLoop_nil _ _ _, Wr.refl t⟩
    · have hpos : 0 < src.length := List.length_pos_iff.mpr hsrc
      obtain ⟨hc, t2, w1, w2, -, -, -⟩ := loop_step e he t src src.length hi hw hpos (Nat.le_refl _)
      rw [putLoop_succ e fuel t src hsrc, w1, Res.bind_ok]
      have hcl : min src.length (chunkMut e t).1 ≤ src.length := Nat.min_le_left _ _
      have hcc : min src.length (chunkMut e t).1 ≤ (chunkMut e t).1 := Nat.min_le_right _ _
      generalize min src.length (chunkMut e t).1 = cnt at hc hcl hcc w1 w2 ⊢
      have hdl : (src.drop cnt).length = src.length - cnt := List.length_drop
      have htl : (src.take cnt).length = cnt := by rw [List.length_take]; omega
      obtain ⟨t', r1, r2⟩ := ih t2 (src.drop cnt) (by omega) (hdl ▸ w2) (by omega)
      exact ⟨t', r1, (Wr.step hi.wf hi.lim64 (by omega) w1 r2).cast (List.take_append_drop _ _)⟩

theorem putBufLoop_wr (e : Env) (he : e.ok) (fuel : Nat) (t : MutT) (src : BufT)
    (hf : remaining src ≤ fuel) (hs : wf src) (hi : Inv t (remaining src)) :
    ∃ t' src', putBufLoop e fuel t src = .ok (t', src') ∧ Wr e t (den src) t' := by
  induction fuel generalizing t src with
  | zero =>
    have h0 : remaining src = 0 := by omega
    have hd := den_nil_of_remaining hs h0
    exact ⟨t, src, putBufLoop_done _ _ _ _ h0, hd ▸ Wr.refl t⟩
  | succ fuel ih =>
    by_cases h0 : remaining src = 0
    · have hd := den_nil_of_remaining hs h0
      exact ⟨t, src, putBufLoop_done _ _ _ _ h0, hd ▸ Wr.refl t⟩
    · have hW := remaining_lt_W src hs
      have hcn : chunk src ≠ [] := fun hc => h0 ((chunk_nil_iff src hs).mp hc)
      have hcp : 0 < (chunk src).length := List.length_pos_iff.mpr hcn
      have hcl := chunk_length_le src hs
      obtain ⟨hc, t2, w1, w2, -, -, -⟩ := loop_step e he t (chunk src) (remaining src) hi hW hcp hcl
      rw [putBufLoop_succ e fuel t src h0, w1, Res.bind_ok]
      have hcc : min (chunk src).length (chunkMut e t).1 ≤ (chunk src).length := Nat.min_le_left _ _
      have hcm : min (chunk src).length (chunkMut e t).1 ≤ (chunkMut e t).1 := Nat.min_le_right _ _
      generalize min (chunk src).length (chunkMut e t).1 = cnt at hc hcc hcm w1 w2 ⊢
      obtain ⟨src', a1, a2, a3⟩ := advance_ok src cnt hs (by omega)
      have hr' : remaining src' = remaining src - cnt := by
        rw [remaining_eq src' a3, a2, List.length_drop, remaining_eq src hs]
      rw [a1]
      obtain ⟨t', s', r1, r2⟩ := ih t2 src' (by omega) a3 (hr' ▸ w2)
      refine ⟨t', s', r1, ?_⟩
      have htl : ((chunk src).take cnt).length = cnt := by rw [List.length_take]; omega
      refine (Wr.step hi.wf hi.lim64 (by omega) w1 r2).cast ?_
      rw [a2, Codec.chunk_take_eq src hs cnt hcc, List.take_append_drop]


theorem putSlice_grow_shape (e : Env) (k : Grow) (p w : Bs) (sp : Nat) (src : Bs) (t' : MutT)
    (h : putSlice e (.grow k p w sp) src = .ok t') : ∃ w' sp', t' = .grow k p w' sp' := by
  simp only [putSlice] at h
  split at h
  · cases h
  · split at h <;> (cases h; exact ⟨_, _, rfl⟩)

theorem putBufGrowLoop_grow (e : Env) (fuel : Nat) (k : Grow) (p w : Bs) (sp : Nat) (src : BufT)
    (t' : MutT) (src' : BufT) (h : putBufGrowLoop e fuel (.grow k p w sp) src = .ok (t', src')) :
    ∃ w' sp', t' = .grow k p w' sp' := by
  induction fuel generalizing w sp src with
  | zero =>
    simp only [putBufGrowLoop] at h
    split at h
    · cases h; exact ⟨_, _, rfl⟩
    · cases h
  | succ fuel ih =>
    by_cases h0 : remaining src = 0
    · rw [putBufGrowLoop_done _ _ _ _ h0] at h; cases h; exact ⟨_, _, rfl⟩
    · rw [putBufGrowLoop_succ _ _ _ _ h0] at h
      cases hp : putSlice e (.grow k p w sp) (chunk src) with
      | panic => rw [hp] at h; cases h
      | ok t1 =>
        obtain ⟨w1, sp1, rfl⟩ := putSlice_grow_shape e k p w sp _ _ hp
        rw [hp, Res.bind_ok] at h
        cases ha : advance src (chunk src).length with
        | panic => rw [ha] at h; cases h
        | ok s1 => rw [ha] at h; exact ih _ _ _ h

/-- `bodyBytes_eq_encode` with the width condition only where the width matters -/
theorem bodyBytes_eq_encode' (r : PutRow) (hr : putRowOK r = true) (v : Int) (nbytes : Nat)
    (hn : (r.spec.kind = .varUint ∨ r.spec.kind = .varInt) → nbytes ≤ 8) :
    bodyBytes r.body 0 v nbytes = some (encode r.spec v nbytes) ∧ r.spec.size nbytes ≤ 16 := by
  by_cases hv : r.spec.kind = .varUint ∨ r.spec.kind = .varInt
  · exact ⟨bodyBytes_eq_encode r hr v nbytes (hn hv), size_le_16 r hr nbytes (hn hv)⟩
  · have h0 := bodyBytes_eq_encode r hr v 0 (by omega)
    have hs0 := size_le_16 r hr 0 (by omega)
    have hs := putRowOK_shape r hr
    obtain ⟨name, ⟨t, kind, en⟩, body⟩ := r
    cases hs with
    | byte s hk hb => simp only at hk hb hv h0 hs0 ⊢; subst hk hb; exact ⟨h0, hs0⟩
    | fixed k s hk h16 hb => simp only at hk hb hv h0 hs0 ⊢; subst hk hb; cases en <;> exact ⟨h0, hs0⟩
    | float k hk h8 hb => simp only at hk hb hv h0 hs0 ⊢; subst hk hb; cases en <;> exact ⟨h0, hs0⟩
    | varBe hk _ _ => exact absurd hk hv
    | varLe hk _ _ => exact absurd hk hv
end WriteSide

end BytesVerif.OracleSound
