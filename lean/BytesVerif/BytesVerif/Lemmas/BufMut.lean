/- Helper lemmas for the BufMut adapter-tree model (M2 write side) and the put codec (M3). -/
import BytesVerif.Model.BufMut
import BytesVerif.Model.PutCodec
import BytesVerif.Props.C10
namespace BytesVerif.BufMut
open BytesVerif.Buf

theorem isizeMax_eq : isizeMax = 9223372036854775807 := rfl

/-- Write order is respected: in every `chain a b` of the tree, `b` is untouched as long as `a`
has room.  This holds for fresh targets and is preserved by every write through the tree; it is
what makes `written (.chain a b) = written a ++ written b` the sequence *in write order*. -/
def ordM : MutT → Prop
  | .chain a b => ordM a ∧ ordM b ∧ (written b = [] ∨ remainingMut a = 0)
  | .limit i _ => ordM i
  | .refMut i => ordM i
  | .box i => ordM i
  | .grow _ _ _ _ => True
  | .fixed _ _ _ => True

/-! ### `remainingMut` versus `roomOpt` -/

theorem remainingMut_lt (t : MutT) (h : wfM t) : remainingMut t < W := by
  induction t with
  | grow k pre w spare =>
    have := W_eq; have := isizeMax_eq
    cases k <;> simp only [remainingMut] <;> omega
  | fixed k w room => simp only [remainingMut, wfM] at *; omega
  | chain a b iha ihb => simp only [remainingMut, satAdd]; have := W_pos; split <;> omega
  | limit i n ih => simp only [remainingMut, wfM] at *; omega
  | refMut i ih => exact ih h
  | box i ih => exact ih h

theorem noHardLimit_mono {t : MutT} {m n : Nat} (hmn : m ≤ n) (h : noHardLimit t n) :
    noHardLimit t m := by
  induction t with
  | grow k pre w spare => simp only [noHardLimit] at *; omega
  | fixed k w room => trivial
  | chain a b iha ihb => exact ⟨iha h.1, ihb h.2⟩
  | limit i n ih => exact ih h
  | refMut i ih => exact ih h
  | box i ih => exact ih h

/-- The relation between `remaining_mut()` and the room of the tree. -/
theorem rem_room (t : MutT) (k : Nat) (h : wfM t) (hl : noHardLimit t k) :
    (roomOpt t = none → k ≤ remainingMut t) ∧
    (∀ r, roomOpt t = some r → remainingMut t ≤ r ∧ min (min r k) (W - 1) ≤ remainingMut t) := by
  induction t with
  | grow g pre w spare =>
    refine ⟨fun _ => ?_, fun r hr => by simp [roomOpt] at hr⟩
    have := W_eq; have := isizeMax_eq
    cases g <;> simp only [remainingMut, noHardLimit] at * <;> omega
  | fixed g w room =>
    refine ⟨fun hr => by simp [roomOpt] at hr, fun r hr => ?_⟩
    simp only [roomOpt, Option.some.injEq] at hr
    simp only [remainingMut, wfM] at *; omega
  | chain a b iha ihb =>
    obtain ⟨ha, hb⟩ := h
    obtain ⟨hla, hlb⟩ := hl
    have la := remainingMut_lt a ha
    have lb := remainingMut_lt b hb
    obtain ⟨a1, a2⟩ := iha ha hla
    obtain ⟨b1, b2⟩ := ihb hb hlb
    simp only [roomOpt, remainingMut, satAdd]
    cases hra : roomOpt a with
    | none =>
      have := a1 hra
      refine ⟨fun _ => ?_, fun r hr => by simp at hr⟩
      split <;> omega
    | some ra =>
      have := a2 ra hra
      cases hrb : roomOpt b with
      | none =>
        have := b1 hrb
        refine ⟨fun _ => ?_, fun r hr => by simp at hr⟩
        split <;> omega
      | some rb =>
        have := b2 rb hrb
        refine ⟨fun hr => by simp at hr, fun r hr => ?_⟩
        simp only [Option.map_some, Option.some.injEq] at hr
        subst hr
        split <;> omega
  | limit i n ih =>
    obtain ⟨hi, hn⟩ := h
    obtain ⟨i1, i2⟩ := ih hi hl
    simp only [roomOpt, remainingMut]
    cases hri : roomOpt i with
    | none =>
      have := i1 hri
      refine ⟨fun hr => by simp at hr, fun r hr => ?_⟩
      simp only [Option.some.injEq] at hr
      omega
    | some ri =>
      have := i2 ri hri
      refine ⟨fun hr => by simp at hr, fun r hr => ?_⟩
      simp only [Option.some.injEq] at hr
      omega
  | refMut i ih => exact ih h hl
  | box i ih => exact ih h hl

/-! ### `chunkMut` -/

theorem chunkMut_chain (e : Env) (a b : MutT) : chunkMut e (.chain a b) =
    if remainingMut a > 0 then ((chunkMut e a).1, .chain (chunkMut e a).2 b)
    else ((chunkMut e b).1, .chain a (chunkMut e b).2) := by
  simp only [chunkMut]

theorem chunkMut_limit (e : Env) (i : MutT) (n : Nat) : chunkMut e (.limit i n) =
    (min (chunkMut e i).1 n, .limit (chunkMut e i).2 n) := by
  simp only [chunkMut]

theorem chunkMut_refMut (e : Env) (i : MutT) : chunkMut e (.refMut i) =
    ((chunkMut e i).1, .refMut (chunkMut e i).2) := by
  simp only [chunkMut]

theorem chunkMut_box (e : Env) (i : MutT) : chunkMut e (.box i) =
    ((chunkMut e i).1, .box (chunkMut e i).2) := by
  simp only [chunkMut]

theorem chunkMut_grow (e : Env) (k pre w spare) : chunkMut e (.grow k pre w spare) =
    ((if spare = 0 then e.reserve64 (growLen pre w) else spare),
      .grow k pre w (if spare = 0 then e.reserve64 (growLen pre w) else spare)) := by
  simp only [chunkMut]

theorem chunkMut_fixed (e : Env) (k w room) : chunkMut e (.fixed k w room) = (room, .fixed k w room) := rfl

theorem remainingMut_chunkMut (e : Env) (t : MutT) : remainingMut (chunkMut e t).2 = remainingMut t := by
  induction t with
  | grow k pre w spare => cases k <;> simp only [chunkMut_grow, remainingMut]
  | fixed k w room => rfl
  | chain a b iha ihb =>
    rw [chunkMut_chain]; split <;> simp only [remainingMut, iha, ihb]
  | limit i n ih => simp only [chunkMut_limit, remainingMut, ih]
  | refMut i ih => simpa only [chunkMut_refMut, remainingMut] using ih
  | box i ih => simpa only [chunkMut_box, remainingMut] using ih

theorem written_chunkMut (e : Env) (t : MutT) : written (chunkMut e t).2 = written t := by
  induction t with
  | grow k pre w spare => simp only [chunkMut_grow, written]
  | fixed k w room => rfl
  | chain a b iha ihb =>
    rw [chunkMut_chain]; split <;> simp only [written, iha, ihb]
  | limit i n ih => simp only [chunkMut_limit, written, ih]
  | refMut i ih => simpa only [chunkMut_refMut, written] using ih
  | box i ih => simpa only [chunkMut_box, written] using ih

theorem roomOpt_chunkMut (e : Env) (t : MutT) : roomOpt (chunkMut e t).2 = roomOpt t := by
  induction t with
  | grow k pre w spare => simp only [chunkMut_grow, roomOpt]
  | fixed k w room => rfl
  | chain a b iha ihb =>
    rw [chunkMut_chain]; split <;> simp only [roomOpt, iha, ihb]
  | limit i n ih => simp only [chunkMut_limit, roomOpt, ih]
  | refMut i ih => simpa only [chunkMut_refMut, roomOpt] using ih
  | box i ih => simpa only [chunkMut_box, roomOpt] using ih

theorem noHardLimit_chunkMut (e : Env) (t : MutT) (n : Nat) :
    noHardLimit (chunkMut e t).2 n ↔ noHardLimit t n := by
  induction t with
  | grow k pre w spare => simp only [chunkMut_grow, noHardLimit]
  | fixed k w room => rfl
  | chain a b iha ihb =>
    rw [chunkMut_chain]; split <;> simp only [noHardLimit, iha, ihb]
  | limit i n ih => simp only [chunkMut_limit, noHardLimit, ih]
  | refMut i ih => simpa only [chunkMut_refMut, noHardLimit] using ih
  | box i ih => simpa only [chunkMut_box, noHardLimit] using ih

theorem wfM_chunkMut (e : Env) (he : e.ok) (t : MutT) (h : wfM t) (hl : noHardLimit t 64) :
    wfM (chunkMut e t).2 := by
  induction t with
  | grow k pre w spare =>
    simp only [chunkMut_grow, wfM, noHardLimit] at *
    have := he.1 (growLen pre w) hl
    split <;> omega
  | fixed k w room => exact h
  | chain a b iha ihb =>
    rw [chunkMut_chain]; split
    · exact ⟨iha h.1 hl.1, h.2⟩
    · exact ⟨h.1, ihb h.2 hl.2⟩
  | limit i n ih => exact ⟨ih h.1 hl, h.2⟩
  | refMut i ih => exact ih h hl
  | box i ih => exact ih h hl

/-- The chunk is empty only when nothing remains, and never longer than `remaining_mut()`. -/
theorem chunkMut_len (e : Env) (he : e.ok) (t : MutT) (h : wfM t) (hl : noHardLimit t 64) :
    ((chunkMut e t).1 = 0 ↔ remainingMut t = 0) ∧ (chunkMut e t).1 ≤ remainingMut t := by
  induction t with
  | grow k pre w spare =>
    simp only [chunkMut_grow, wfM, noHardLimit] at *
    have := he.1 (growLen pre w) hl
    have := W_eq; have := isizeMax_eq
    cases k <;> simp only [remainingMut] <;> split <;> omega
  | fixed k w room => simp [chunkMut_fixed, remainingMut]
  | chain a b iha ihb =>
    have la := remainingMut_lt a h.1
    have lb := remainingMut_lt b h.2
    have := iha h.1 hl.1
    have := ihb h.2 hl.2
    rw [chunkMut_chain]; simp only [remainingMut, satAdd]
    split <;> split <;> omega
  | limit i n ih =>
    have := ih h.1 hl
    simp only [chunkMut_limit, remainingMut]; omega
  | refMut i ih => simpa only [chunkMut_refMut, remainingMut] using ih h hl
  | box i ih => simpa only [chunkMut_box, remainingMut] using ih h hl

/-! ### `writeAdvance` into the current chunk -/

theorem growLen_append (pre w bs : Bs) : growLen pre (w ++ bs) = growLen pre w + bs.length := by
  simp only [growLen, List.length_append]; omega

theorem writeAdvance_chain_left {a : MutT} (b : MutT) {bs : Bs} (h0 : remainingMut a ≠ 0)
    (hb : bs.length ≤ remainingMut a) :
    writeAdvance (.chain a b) bs = (writeAdvance a bs).map (fun a' => .chain a' b) := by
  simp only [writeAdvance, ne_eq, h0, not_false_eq_true, ↓reduceIte, ge_iff_le, hb]

theorem writeAdvance_chain_right {a : MutT} (b : MutT) (bs : Bs) (h0 : remainingMut a = 0) :
    writeAdvance (.chain a b) bs = (writeAdvance b bs).map (fun b' => .chain a b') := by
  simp only [writeAdvance, ne_eq, h0, not_true_eq_false, ↓reduceIte]

theorem Res.map_ok {α β : Type} (f : α → β) (a : α) : (Res.ok a).map f = .ok (f a) := rfl
theorem Res.bind_ok {α β : Type} (f : α → Res β) (a : α) : (Res.ok a).bind f = f a := rfl

/-- A target with nothing remaining (and no growable leaf near its limit) has room 0. -/
theorem roomOpt_of_rem_zero {t : MutT} (h : wfM t) (hl : noHardLimit t 64) (h0 : remainingMut t = 0) :
    roomOpt t = some 0 := by
  have hrr := rem_room t 64 h hl
  have := W_eq
  cases hr : roomOpt t with
  | none => have := hrr.1 hr; omega
  | some r => have := hrr.2 r hr; congr; omega

/-- One iteration of the crate's write loops: fill (part of) the current chunk and advance. -/
theorem chunk_write (e : Env) (he : e.ok) (t : MutT) (bs : Bs) (h : wfM t) (hl : noHardLimit t 64)
    (hb : bs.length ≤ (chunkMut e t).1) :
    ∃ t2, writeAdvance (chunkMut e t).2 bs = .ok t2 ∧ wfM t2 ∧
      roomOpt t2 = (roomOpt t).map (· - bs.length) ∧
      (∀ m, noHardLimit t (m + bs.length) → noHardLimit t2 m) ∧
      (ordM t → written t2 = written t ++ bs ∧ ordM t2) := by
  induction t with
  | grow k pre w spare =>
    simp only [chunkMut_grow] at hb ⊢
    simp only [wfM, noHardLimit] at h hl
    have := he.1 (growLen pre w) hl
    simp only [writeAdvance, Nat.not_lt.mpr hb, ↓reduceIte]
    refine ⟨_, rfl, ?_, rfl, ?_, fun _ => ⟨rfl, trivial⟩⟩
    · simp only [wfM, growLen_append]; split at hb <;> simp only [*, ↓reduceIte] <;> omega
    · intro m hm; simp only [noHardLimit, growLen_append] at hm ⊢; omega
  | fixed k w room =>
    simp only [chunkMut_fixed] at hb ⊢
    simp only [writeAdvance, Nat.not_lt.mpr hb, ↓reduceIte]
    refine ⟨_, rfl, ?_, rfl, fun _ _ => trivial, fun _ => ⟨rfl, trivial⟩⟩
    simp only [wfM, List.length_append] at h ⊢; omega
  | chain a b iha ihb =>
    have lenA := chunkMut_len e he a h.1 hl.1
    rw [chunkMut_chain] at hb ⊢
    split at hb
    · rename_i hpos
      simp only [hpos, ↓reduceIte]
      obtain ⟨a2, w1, w3, w4, w5, w6⟩ := iha h.1 hl.1 hb
      rw [writeAdvance_chain_left b (by rw [remainingMut_chunkMut]; omega)
        (by rw [remainingMut_chunkMut]; omega), w1]
      refine ⟨_, rfl, ⟨w3, h.2⟩, ?_, ?_, ?_⟩
      · simp only [roomOpt, w4]
        have ra := rem_room a 64 h.1 hl.1
        cases hra : roomOpt a with
        | none => rfl
        | some r =>
          have := (ra.2 r hra).1
          cases hrb : roomOpt b with
          | none => rfl
          | some rb => simp only [Option.map_some, Option.some.injEq]; omega
      · intro m hm
        exact ⟨w5 m hm.1, noHardLimit_mono (by omega) hm.2⟩
      · intro ho
        obtain ⟨hoa, hob, hor⟩ := ho
        have hwb : written b = [] := by rcases hor with h1 | h1; exact h1; omega
        obtain ⟨w2, w7⟩ := w6 hoa
        exact ⟨by simp only [written, w2, hwb, List.append_nil], w7, hob, Or.inl hwb⟩
    · rename_i hpos
      simp only [hpos, ↓reduceIte]
      have h0 : remainingMut a = 0 := by omega
      obtain ⟨b2, w1, w3, w4, w5, w6⟩ := ihb h.2 hl.2 hb
      rw [writeAdvance_chain_right _ _ h0, w1]
      refine ⟨_, rfl, ⟨h.1, w3⟩, ?_, ?_, ?_⟩
      · simp only [roomOpt, w4, roomOpt_of_rem_zero h.1 hl.1 h0]
        cases hrb : roomOpt b with
        | none => rfl
        | some rb => simp only [Option.map_some, Option.some.injEq]; omega
      · intro m hm
        exact ⟨noHardLimit_mono (by omega) hm.1, w5 m hm.2⟩
      · intro ho
        obtain ⟨w2, w7⟩ := w6 ho.2.1
        exact ⟨by simp only [written, w2, List.append_assoc], ho.1, w7, Or.inr h0⟩
  | limit i n ih =>
    simp only [chunkMut_limit] at hb ⊢
    obtain ⟨i2, w1, w3, w4, w5, w6⟩ := ih h.1 hl (by omega)
    have hbn : bs.length ≤ n := by omega
    simp only [writeAdvance, hbn, ↓reduceIte, w1]
    refine ⟨_, rfl, ⟨w3, by have := h.2; omega⟩, ?_, fun m hm => w5 m hm, w6⟩
    simp only [roomOpt, w4]
    cases hri : roomOpt i with
    | none => rfl
    | some r => simp only [Option.map_some, Option.some.injEq]; omega
  | refMut i ih =>
    simp only [chunkMut_refMut] at hb ⊢
    obtain ⟨i2, w1, w3, w4, w5, w6⟩ := ih h hl hb
    simp only [writeAdvance, w1]
    exact ⟨_, rfl, w3, w4, w5, w6⟩
  | box i ih =>
    simp only [chunkMut_box] at hb ⊢
    obtain ⟨i2, w1, w3, w4, w5, w6⟩ := ih h hl hb
    simp only [writeAdvance, w1]
    exact ⟨_, rfl, w3, w4, w5, w6⟩

/-! ### The default loops -/

/-- Invariant of the write loops: `n` more bytes are to be written into `t`. -/
structure Inv (t : MutT) (n : Nat) : Prop where
  wf : wfM t
  fit : fits t n
  lim : noHardLimit t (n + 64)

theorem Inv.rem_ge {t : MutT} {n : Nat} (h : Inv t n) (hn : n < W) : n ≤ remainingMut t := by
  have hrr := rem_room t (n + 64) h.wf h.lim
  have hf := h.fit
  unfold fits at hf
  cases hr : roomOpt t with
  | none => have := hrr.1 hr; omega
  | some r => rw [hr] at hf; have := hrr.2 r hr; omega

theorem Inv.lim64 {t : MutT} {n : Nat} (h : Inv t n) : noHardLimit t 64 :=
  noHardLimit_mono (by omega) h.lim

/-- One loop iteration with `s` the bytes on offer (`s.length ≤ N`, `N` the bytes still to go). -/
theorem loop_step (e : Env) (he : e.ok) (t : MutT) (s : Bs) (N : Nat) (hi : Inv t N) (hN : N < W)
    (hs : 0 < s.length) (hsN : s.length ≤ N) :
    0 < min s.length (chunkMut e t).1 ∧
    ∃ t2, writeAdvance (chunkMut e t).2 (s.take (min s.length (chunkMut e t).1)) = .ok t2 ∧
      Inv t2 (N - min s.length (chunkMut e t).1) ∧
      roomOpt t2 = (roomOpt t).map (· - min s.length (chunkMut e t).1) ∧
      (ordM t → written t2 = written t ++ s.take (min s.length (chunkMut e t).1) ∧ ordM t2) ∧
      (∀ m, noHardLimit t (m + min s.length (chunkMut e t).1) → noHardLimit t2 m) := by
  have hlen := chunkMut_len e he t hi.wf hi.lim64
  have hrem := hi.rem_ge hN
  have hpos : 0 < min s.length (chunkMut e t).1 := by omega
  refine ⟨hpos, ?_⟩
  generalize hc : min s.length (chunkMut e t).1 = cnt at hpos ⊢
  have htl : (s.take cnt).length = cnt := by rw [List.length_take]; omega
  obtain ⟨t2, w1, w3, w4, w5, w6⟩ := chunk_write e he t (s.take cnt) hi.wf hi.lim64 (by omega)
  rw [htl] at w4 w5
  refine ⟨t2, w1, ⟨w3, ?_, ?_⟩, w4, w6, w5⟩
  · have hf := hi.fit
    unfold fits at hf ⊢
    rw [w4]
    cases hr : roomOpt t with
    | none => trivial
    | some r => rw [hr] at hf; simp only [Option.map_some]; omega
  · apply w5
    exact noHardLimit_mono (by omega) hi.lim

theorem putLoop_succ (e : Env) (fuel : Nat) (t : MutT) (src : Bs) (h : src ≠ []) :
    putLoop e (fuel + 1) t src =
      (writeAdvance (chunkMut e t).2 (src.take (min src.length (chunkMut e t).1))).bind fun t2 =>
        putLoop e fuel t2 (src.drop (min src.length (chunkMut e t).1)) := by
  simp only [putLoop, h, ↓reduceIte]

theorem putLoop_nil (e : Env) (fuel : Nat) (t : MutT) : putLoop e fuel t [] = .ok t := by
  cases fuel <;> simp only [putLoop, ↓reduceIte]

theorem map_sub_sub (o : Option Nat) (c n : Nat) (h : c ≤ n) :
    (o.map (· - c)).map (· - (n - c)) = o.map (· - n) := by
  cases o with
  | none => rfl
  | some r => simp only [Option.map_some, Option.some.injEq]; omega

theorem putLoop_ok (e : Env) (he : e.ok) (fuel : Nat) (t : MutT) (src : Bs) (hf : src.length ≤ fuel)
    (hi : Inv t src.length) (hw : src.length < W) :
    ∃ t', putLoop e fuel t src = .ok t' ∧ wfM t' ∧ roomOpt t' = (roomOpt t).map (· - src.length) ∧
      (ordM t → written t' = written t ++ src ∧ ordM t') ∧
      (∀ m, noHardLimit t (m + src.length) → noHardLimit t' m) := by
  induction fuel generalizing t src with
  | zero =>
    have : src = [] := List.eq_nil_of_length_eq_zero (by omega)
    subst this
    refine ⟨t, putLoop_nil _ _ _, hi.wf, ?_, fun ho => ⟨by simp, ho⟩, fun m hm => hm⟩
    cases roomOpt t <;> simp
  | succ fuel ih =>
    by_cases hsrc : src = []
    · subst hsrc
      refine ⟨t, putLoop_nil _ _ _, hi.wf, ?_, fun ho => ⟨by simp, ho⟩, fun m hm => hm⟩
      cases roomOpt t <;> simp
    · have hpos : 0 < src.length := List.length_pos_iff.mpr hsrc
      obtain ⟨hc, t2, w1, w2, w3, w4, w5⟩ := loop_step e he t src src.length hi hw hpos (Nat.le_refl _)
      rw [putLoop_succ e fuel t src hsrc, w1, Res.bind_ok]
      have hcl : min src.length (chunkMut e t).1 ≤ src.length := Nat.min_le_left _ _
      generalize min src.length (chunkMut e t).1 = cnt at hc hcl w1 w2 w3 w4 w5 ⊢
      have hdl : (src.drop cnt).length = src.length - cnt := List.length_drop
      obtain ⟨t', r1, r2, r3, r4, r5⟩ := ih t2 (src.drop cnt) (by omega) (hdl ▸ w2) (by omega)
      refine ⟨t', r1, r2, ?_, ?_, ?_⟩
      · rw [r3, w3, hdl, map_sub_sub _ _ _ hcl]
      · intro ho
        obtain ⟨x1, x2⟩ := w4 ho
        obtain ⟨y1, y2⟩ := r4 x2
        exact ⟨by rw [y1, x1, List.append_assoc, List.take_append_drop], y2⟩
      · intro m hm
        apply r5; rw [hdl]; apply w5
        exact noHardLimit_mono (by omega) hm

/-! ### `put_slice` -/

theorem putSlice_chain (e : Env) (a b : MutT) (src : Bs) :
    putSlice e (.chain a b) src = putSliceDefault e (.chain a b) src := by
  simp only [putSlice]

theorem putSlice_limit (e : Env) (i : MutT) (n : Nat) (src : Bs) :
    putSlice e (.limit i n) src = putSliceDefault e (.limit i n) src := by
  simp only [putSlice]

theorem putSliceDefault_ok (e : Env) (he : e.ok) (t : MutT) (src : Bs)
    (hi : Inv t src.length) (hw : src.length < W) :
    ∃ t', putSliceDefault e t src = .ok t' ∧ wfM t' ∧ roomOpt t' = (roomOpt t).map (· - src.length) ∧
      (ordM t → written t' = written t ++ src ∧ ordM t') ∧
      (∀ m, noHardLimit t (m + src.length) → noHardLimit t' m) := by
  have := hi.rem_ge hw
  simp only [putSliceDefault, Nat.not_lt.mpr this, ↓reduceIte]
  exact putLoop_ok e he _ t src (by omega) hi hw

theorem putSlice_ok_aux (e : Env) (he : e.ok) (t : MutT) (src : Bs)
    (hi : Inv t src.length) (hw : src.length < W) :
    ∃ t', putSlice e t src = .ok t' ∧ wfM t' ∧ roomOpt t' = (roomOpt t).map (· - src.length) ∧
      (ordM t → written t' = written t ++ src ∧ ordM t') ∧
      (∀ m, noHardLimit t (m + src.length) → noHardLimit t' m) := by
  induction t with
  | grow k pre w spare =>
    have h := hi.wf; have hl := hi.lim
    simp only [wfM, noHardLimit] at h hl
    have hnp : ¬ (isizeMax - growLen pre w < src.length) := by omega
    simp only [putSlice, hnp, ↓reduceIte]
    by_cases hsp : src.length ≤ spare
    · simp only [hsp, ↓reduceIte]
      refine ⟨_, rfl, ?_, rfl, fun _ => ⟨rfl, trivial⟩, ?_⟩
      · simp only [wfM, growLen_append]; omega
      · intro m hm; simp only [noHardLimit, growLen_append] at hm ⊢; omega
    · simp only [hsp, ↓reduceIte]
      refine ⟨_, rfl, ?_, rfl, fun _ => ⟨rfl, trivial⟩, ?_⟩
      · have := he.2 (growLen pre w) spare src.length (by omega)
        simp only [wfM, growLen_append]; omega
      · intro m hm; simp only [noHardLimit, growLen_append] at hm ⊢; omega
  | fixed k w room =>
    have h := hi.wf; have hf := hi.fit
    simp only [wfM] at h
    simp only [fits, roomOpt] at hf
    simp only [putSlice, Nat.not_lt.mpr hf, ↓reduceIte]
    refine ⟨_, rfl, ?_, rfl, fun _ => ⟨rfl, trivial⟩, fun _ _ => trivial⟩
    simp only [wfM, List.length_append]; omega
  | chain a b _ _ =>
    rw [putSlice_chain]; exact putSliceDefault_ok e he _ src hi hw
  | limit i n _ =>
    rw [putSlice_limit]; exact putSliceDefault_ok e he _ src hi hw
  | refMut i ih =>
    obtain ⟨i', w1, w2, w3, w4, w5⟩ := ih ⟨hi.wf, hi.fit, hi.lim⟩
    simp only [putSlice, w1]
    exact ⟨_, rfl, w2, w3, w4, w5⟩
  | box i ih =>
    obtain ⟨i', w1, w2, w3, w4, w5⟩ := ih ⟨hi.wf, hi.fit, hi.lim⟩
    simp only [putSlice, w1]
    exact ⟨_, rfl, w2, w3, w4, w5⟩

theorem putSlice_panic_aux (e : Env) (t : MutT) (src : Bs) (hn : remainingMut t < src.length) :
    putSlice e t src = .panic := by
  induction t with
  | grow k pre w spare =>
    have := W_eq; have := isizeMax_eq
    have : isizeMax - growLen pre w < src.length := by
      cases k <;> simp only [remainingMut] at hn <;> omega
    simp only [putSlice, this, ↓reduceIte]
  | fixed k w room =>
    simp only [remainingMut] at hn
    simp only [putSlice, hn, ↓reduceIte]
  | chain a b _ _ => simp only [putSlice_chain, putSliceDefault, hn, ↓reduceIte]
  | limit i n _ => simp only [putSlice_limit, putSliceDefault, hn, ↓reduceIte]
  | refMut i ih => simp only [putSlice, ih hn]; rfl
  | box i ih => simp only [putSlice, ih hn]; rfl

/-! ### Shape of the result for `Limit` and `Chain` targets -/

theorem writeAdvance_limit (i : MutT) (lim : Nat) (bs : Bs) :
    writeAdvance (.limit i lim) bs =
      if bs.length ≤ lim then (writeAdvance i bs).map (fun i' => .limit i' (lim - bs.length)) else .panic := by
  simp only [writeAdvance]

theorem putLoop_limit_shape (e : Env) (fuel : Nat) (i : MutT) (lim : Nat) (src : Bs) (t' : MutT)
    (h : putLoop e fuel (.limit i lim) src = .ok t') : ∃ i', t' = .limit i' (lim - src.length) := by
  induction fuel generalizing i lim src with
  | zero =>
    by_cases hs : src = []
    · subst hs; rw [putLoop_nil] at h; exact ⟨i, by cases h; rfl⟩
    · simp only [putLoop, hs, ↓reduceIte] at h; cases h
  | succ fuel ih =>
    by_cases hs : src = []
    · subst hs; rw [putLoop_nil] at h; exact ⟨i, by cases h; rfl⟩
    · rw [putLoop_succ e fuel _ src hs, chunkMut_limit] at h
      simp only [writeAdvance_limit] at h
      generalize hc : min src.length (min (chunkMut e i).1 lim) = cnt at h
      have hcl : cnt ≤ src.length := by omega
      have htl : (src.take cnt).length = cnt := by rw [List.length_take]; omega
      rw [htl] at h
      split at h
      · cases hw : writeAdvance (chunkMut e i).2 (src.take cnt) with
        | panic => rw [hw] at h; cases h
        | ok i2 =>
          rw [hw, Res.map_ok, Res.bind_ok] at h
          obtain ⟨i', hi'⟩ := ih _ _ _ h
          refine ⟨i', ?_⟩
          rw [hi', List.length_drop]
          congr 1; omega
      · cases h

/-- One loop iteration on a `Chain`: the bytes go to `a` while it has room, then to `b`. -/
theorem chain_step (e : Env) (he : e.ok) (a b : MutT) (bs : Bs) (h : wfM (.chain a b))
    (hl : noHardLimit (.chain a b) 64) (hb : bs.length ≤ (chunkMut e (.chain a b)).1) :
    (∃ a2, writeAdvance (chunkMut e (.chain a b)).2 bs = .ok (.chain a2 b) ∧
        roomOpt a2 = (roomOpt a).map (· - bs.length) ∧ (∀ r, roomOpt a = some r → bs.length ≤ r) ∧
        (ordM a → written a2 = written a ++ bs ∧ ordM a2)) ∨
    (roomOpt a = some 0 ∧ ∃ b2, writeAdvance (chunkMut e (.chain a b)).2 bs = .ok (.chain a b2) ∧
        (ordM b → written b2 = written b ++ bs ∧ ordM b2)) := by
  have lenA := chunkMut_len e he a h.1 hl.1
  rw [chunkMut_chain] at hb ⊢
  split at hb
  · rename_i hpos
    left
    simp only [hpos, ↓reduceIte]
    obtain ⟨a2, w1, w3, w4, w5, w6⟩ := chunk_write e he a bs h.1 hl.1 hb
    rw [writeAdvance_chain_left b (by rw [remainingMut_chunkMut]; omega)
      (by rw [remainingMut_chunkMut]; omega), w1]
    refine ⟨a2, rfl, w4, ?_, w6⟩
    intro r hr
    have := ((rem_room a 64 h.1 hl.1).2 r hr).1
    omega
  · rename_i hpos
    right
    simp only [hpos, ↓reduceIte]
    have h0 : remainingMut a = 0 := by omega
    obtain ⟨b2, w1, w3, w4, w5, w6⟩ := chunk_write e he b bs h.2 hl.2 hb
    rw [writeAdvance_chain_right _ _ h0, w1]
    exact ⟨roomOpt_of_rem_zero h.1 hl.1 h0, b2, rfl, w6⟩

theorem putLoop_chain (e : Env) (he : e.ok) (fuel : Nat) (a b : MutT) (ra : Nat) (src : Bs)
    (hf : src.length ≤ fuel) (hi : Inv (.chain a b) src.length) (hw : src.length < W)
    (hra : roomOpt a = some ra) (hoa : ordM a) (hob : ordM b) :
    ∃ a' b', putLoop e fuel (.chain a b) src = .ok (.chain a' b') ∧
      written a' = written a ++ src.take ra ∧ written b' = written b ++ src.drop ra := by
  induction fuel generalizing a b ra src with
  | zero =>
    have : src = [] := List.eq_nil_of_length_eq_zero (by omega)
    subst this
    exact ⟨a, b, putLoop_nil _ _ _, by simp, by simp⟩
  | succ fuel ih =>
    by_cases hsrc : src = []
    · subst hsrc
      exact ⟨a, b, putLoop_nil _ _ _, by simp, by simp⟩
    · have hpos : 0 < src.length := List.length_pos_iff.mpr hsrc
      obtain ⟨hc, t2, w1, w2, -, -, -⟩ :=
        loop_step e he (.chain a b) src src.length hi hw hpos (Nat.le_refl _)
      rw [putLoop_succ e fuel _ src hsrc, w1, Res.bind_ok]
      have hcl : min src.length (chunkMut e (.chain a b)).1 ≤ src.length := Nat.min_le_left _ _
      have hcc : min src.length (chunkMut e (.chain a b)).1 ≤ (chunkMut e (.chain a b)).1 :=
        Nat.min_le_right _ _
      generalize min src.length (chunkMut e (.chain a b)).1 = cnt at hc hcl hcc w1 w2 ⊢
      have hdl : (src.drop cnt).length = src.length - cnt := List.length_drop
      have htl : (src.take cnt).length = cnt := by rw [List.length_take]; omega
      rcases chain_step e he a b (src.take cnt) hi.wf hi.lim64 (by omega) with
        ⟨a2, s1, s2, s3, s4⟩ | ⟨s0, b2, s1, s4⟩
      · rw [w1] at s1; cases s1
        rw [htl] at s2 s3
        have hcr := s3 ra hra
        rw [hra] at s2
        obtain ⟨x1, x2⟩ := s4 hoa
        obtain ⟨a', b', r1, r2, r3⟩ := ih a2 b (ra - cnt) (src.drop cnt) (by omega) (hdl ▸ w2)
          (by omega) s2 x2 hob
        refine ⟨a', b', r1, ?_, ?_⟩
        · rw [r2, x1, List.append_assoc, take_take_drop _ _ _ hcr]
        · rw [r3, List.drop_drop]; congr 2; omega
      · rw [w1] at s1; cases s1
        rw [hra] at s0; cases s0
        obtain ⟨x1, x2⟩ := s4 hob
        obtain ⟨a', b', r1, r2, r3⟩ := ih a b2 0 (src.drop cnt) (by omega) (hdl ▸ w2)
          (by omega) hra hoa x2
        refine ⟨a', b', r1, ?_, ?_⟩
        · rw [r2]; simp
        · rw [r3, x1]; simp

/-! ### `put(src: impl Buf)` -/

theorem putBufLoop_done (e : Env) (fuel : Nat) (t : MutT) (src : BufT) (h : remaining src = 0) :
    putBufLoop e fuel t src = .ok (t, src) := by
  cases fuel <;> simp only [putBufLoop, h, ↓reduceIte]

theorem putBufLoop_succ (e : Env) (fuel : Nat) (t : MutT) (src : BufT) (h : remaining src ≠ 0) :
    putBufLoop e (fuel + 1) t src =
      (writeAdvance (chunkMut e t).2 ((chunk src).take (min (chunk src).length (chunkMut e t).1))).bind
        fun t2 => match advance src (min (chunk src).length (chunkMut e t).1) with
          | .ok src' => putBufLoop e fuel t2 src'
          | .panic => .panic := by
  simp only [putBufLoop, h, ↓reduceIte]; rfl

theorem remaining_lt_W (b : BufT) (h : wf b) : remaining b < W := by
  rw [remaining_eq b h]; exact den_length_lt b h

theorem putBufLoop_ok (e : Env) (he : e.ok) (fuel : Nat) (t : MutT) (src : BufT)
    (hf : remaining src ≤ fuel) (hs : wf src) (hi : Inv t (remaining src)) :
    ∃ t' src', putBufLoop e fuel t src = .ok (t', src') ∧ wfM t' ∧ den src' = [] ∧
      (ordM t → written t' = written t ++ den src ∧ ordM t') := by
  induction fuel generalizing t src with
  | zero =>
    have h0 : remaining src = 0 := by omega
    have hd := den_nil_of_remaining hs h0
    exact ⟨t, src, putBufLoop_done _ _ _ _ h0, hi.wf, hd, fun ho => ⟨by simp [hd], ho⟩⟩
  | succ fuel ih =>
    by_cases h0 : remaining src = 0
    · have hd := den_nil_of_remaining hs h0
      exact ⟨t, src, putBufLoop_done _ _ _ _ h0, hi.wf, hd, fun ho => ⟨by simp [hd], ho⟩⟩
    · have hW := remaining_lt_W src hs
      have hcn : chunk src ≠ [] := fun hc => h0 ((chunk_nil_iff src hs).mp hc)
      have hcp : 0 < (chunk src).length := List.length_pos_iff.mpr hcn
      have hcl := chunk_length_le src hs
      obtain ⟨hc, t2, w1, w2, -, w4, -⟩ := loop_step e he t (chunk src) (remaining src) hi hW hcp hcl
      rw [putBufLoop_succ e fuel t src h0, w1, Res.bind_ok]
      have hcc : min (chunk src).length (chunkMut e t).1 ≤ (chunk src).length := Nat.min_le_left _ _
      generalize min (chunk src).length (chunkMut e t).1 = cnt at hc hcc w1 w2 w4 ⊢
      obtain ⟨src', a1, a2, a3⟩ := advance_ok src cnt hs (by omega)
      have hr' : remaining src' = remaining src - cnt := by
        rw [remaining_eq src' a3, a2, List.length_drop, remaining_eq src hs]
      rw [a1]
      obtain ⟨t', s', r1, r2, r3, r4⟩ := ih t2 src' (by omega) a3 (hr' ▸ w2)
      refine ⟨t', s', r1, r2, r3, ?_⟩
      intro ho
      obtain ⟨x1, x2⟩ := w4 ho
      obtain ⟨y1, y2⟩ := r4 x2
      refine ⟨?_, y2⟩
      rw [y1, x1, a2, Codec.chunk_take_eq src hs cnt hcc, List.append_assoc, List.take_append_drop]

theorem putBufGrowLoop_done (e : Env) (fuel : Nat) (t : MutT) (src : BufT) (h : remaining src = 0) :
    putBufGrowLoop e fuel t src = .ok (t, src) := by
  cases fuel <;> simp only [putBufGrowLoop, h, ↓reduceIte]

theorem putBufGrowLoop_succ (e : Env) (fuel : Nat) (t : MutT) (src : BufT) (h : remaining src ≠ 0) :
    putBufGrowLoop e (fuel + 1) t src =
      (putSlice e t (chunk src)).bind fun t' =>
        match advance src (chunk src).length with
        | .ok src' => putBufGrowLoop e fuel t' src'
        | .panic => .panic := by
  simp only [putBufGrowLoop, h, ↓reduceIte]; rfl

theorem putBufGrowLoop_ok (e : Env) (he : e.ok) (fuel : Nat) (t : MutT) (src : BufT)
    (hf : remaining src ≤ fuel) (hs : wf src) (hi : Inv t (remaining src)) :
    ∃ t' src', putBufGrowLoop e fuel t src = .ok (t', src') ∧ wfM t' ∧ den src' = [] ∧
      (ordM t → written t' = written t ++ den src ∧ ordM t') := by
  induction fuel generalizing t src with
  | zero =>
    have h0 : remaining src = 0 := by omega
    have hd := den_nil_of_remaining hs h0
    exact ⟨t, src, putBufGrowLoop_done _ _ _ _ h0, hi.wf, hd, fun ho => ⟨by simp [hd], ho⟩⟩
  | succ fuel ih =>
    by_cases h0 : remaining src = 0
    · have hd := den_nil_of_remaining hs h0
      exact ⟨t, src, putBufGrowLoop_done _ _ _ _ h0, hi.wf, hd, fun ho => ⟨by simp [hd], ho⟩⟩
    · have hW := remaining_lt_W src hs
      have hcn : chunk src ≠ [] := fun hc => h0 ((chunk_nil_iff src hs).mp hc)
      have hcp : 0 < (chunk src).length := List.length_pos_iff.mpr hcn
      have hcl := chunk_length_le src hs
      have hi1 : Inv t (chunk src).length := by
        refine ⟨hi.wf, ?_, noHardLimit_mono (by omega) hi.lim⟩
        have := hi.fit
        unfold fits at this ⊢
        cases hr : roomOpt t with
        | none => trivial
        | some r => rw [hr] at this; simp only at this ⊢; omega
      obtain ⟨t2, w1, w2, w3, w4, w5⟩ := putSlice_ok_aux e he t (chunk src) hi1 (by omega)
      rw [putBufGrowLoop_succ e fuel t src h0, w1, Res.bind_ok]
      obtain ⟨src', a1, a2, a3⟩ := advance_ok src (chunk src).length hs hcl
      have hr' : remaining src' = remaining src - (chunk src).length := by
        rw [remaining_eq src' a3, a2, List.length_drop, remaining_eq src hs]
      rw [a1]
      have hi2 : Inv t2 (remaining src') := by
        rw [hr']
        refine ⟨w2, ?_, ?_⟩
        · have := hi.fit
          unfold fits at this ⊢
          rw [w3]
          cases hr : roomOpt t with
          | none => trivial
          | some r => rw [hr] at this; simp only [Option.map_some] at this ⊢; omega
        · apply w5
          exact noHardLimit_mono (by omega) hi.lim
      obtain ⟨t', s', r1, r2, r3, r4⟩ := ih t2 src' (by omega) a3 hi2
      refine ⟨t', s', r1, r2, r3, ?_⟩
      intro ho
      obtain ⟨x1, x2⟩ := w4 ho
      obtain ⟨y1, y2⟩ := r4 x2
      refine ⟨?_, y2⟩
      rw [y1, x1, a2, List.append_assoc]
      congr 1
      exact prefix_append_drop (chunk_prefix src hs)

/-- `put_slice` keeps the write-order invariant (so `putSlice_ok` composes over sequences of writes). -/
theorem putSlice_ordM (e : Env) (he : e.ok) (t : MutT) (src : Bs) (h : wfM t) (ho : ordM t)
    (hf : fits t src.length) (hl : noHardLimit t (src.length + 64)) (hw : src.length < W)
    (t' : MutT) (hp : putSlice e t src = .ok t') : ordM t' := by
  obtain ⟨t2, h1, _, _, h4, _⟩ := putSlice_ok_aux e he t src ⟨h, hf, hl⟩ hw
  rw [hp] at h1; cases h1
  exact (h4 ho).2

/-- … and the distance to the hard limit shrinks by exactly the bytes written. -/
theorem putSlice_noHardLimit (e : Env) (he : e.ok) (t : MutT) (src : Bs) (h : wfM t)
    (hf : fits t src.length) (hl : noHardLimit t (src.length + 64)) (hw : src.length < W)
    (t' : MutT) (hp : putSlice e t src = .ok t') (m : Nat) (hm : noHardLimit t (m + src.length)) :
    noHardLimit t' m := by
  obtain ⟨t2, h1, _, _, _, h5⟩ := putSlice_ok_aux e he t src ⟨h, hf, hl⟩ hw
  rw [hp] at h1; cases h1
  exact h5 m hm

/-- A fresh target (nothing written through any leaf yet) respects write order. -/
theorem ordM_of_fresh (t : MutT) : written t = [] → ordM t := by
  induction t with
  | grow k pre w spare => intro _; trivial
  | fixed k w room => intro _; trivial
  | chain a b iha ihb =>
    intro hw
    simp only [written, List.append_eq_nil_iff] at hw
    exact ⟨iha hw.1, ihb hw.2, Or.inl hw.2⟩
  | limit i n ih => exact ih
  | refMut i ih => exact ih
  | box i ih => exact ih

/-! ### Why the side conditions `ordM` / `noHardLimit t r` are needed

The statements of C11 as first written (with `wfM` only) fail on these states. -/

/-- `wfM` alone does not make `written` of a chain "in write order": `b` was written before `a`
was full, and the new byte lands *before* the old one in `written`. -/
def badChain : MutT := .chain (.fixed .slice [] 2) (.fixed .slice [9] 3)
example : wfM badChain := by simp [badChain, wfM, W_eq]
example : ¬ ordM badChain := by simp [badChain, ordM, written, remainingMut]
example : fits badChain 1 ∧ noHardLimit badChain (1 + 64) := by simp [badChain, fits, roomOpt, noHardLimit]
example : (putSlice defaultEnv badChain [1]).map written = .ok [1, 9] := by decide
example : written badChain ++ [1] = [9, 1] := by decide
-- the same state below a `limit`, as the `a` of a chain, and through `Writer::write`
example : (putSlice defaultEnv (.limit badChain 5) [1]).map written = .ok [1, 9] := by decide
example : (putSlice defaultEnv (.chain badChain (.fixed .slice [] 0)) [1]).map written = .ok [1, 9] := by decide
example : (writerWrite defaultEnv badChain [1]).map (fun p => written p.2) = .ok [1, 9] := by decide
example : (putBuf defaultEnv badChain (.flat .slice [1])).map (fun p => written p.1) = .ok [1, 9] := by decide

/-- `remaining_mut()` of a `limit` over a growable target is capped by the hard limit of the
target, not only by the limit: room `W - 1`, but `remaining_mut() = isize::MAX`. -/
def bigLimit : MutT := .limit (.grow .vec [] [] 0) (W - 1)
example : wfM bigLimit := by simp [bigLimit, wfM, growLen, isizeMax, W_eq]
example : roomOpt bigLimit = some (W - 1) := by simp [bigLimit, roomOpt]
example : remainingMut bigLimit = isizeMax ∧ isizeMax ≠ W - 1 := by
  simp [bigLimit, remainingMut, growLen, isizeMax, W_eq]

end BytesVerif.BufMut

namespace BytesVerif.PutCodec
open BytesVerif.Buf BytesVerif.Codec BytesVerif.BufMut

/-! ### Byte sequences of the encoders -/

theorem leBytes_length (n v : Nat) : (leBytes n v).length = n := by
  induction n generalizing v with
  | zero => rfl
  | succ n ih => simp only [leBytes, List.length_cons, ih]

theorem beBytes_length (n v : Nat) : (beBytes n v).length = n := by
  simp only [beBytes, List.length_reverse, leBytes_length]

theorem leBytes_lt (n v : Nat) : ∀ x ∈ leBytes n v, x < 256 := by
  induction n generalizing v with
  | zero => intro x hx; cases hx
  | succ n ih =>
    intro x hx
    simp only [leBytes, List.mem_cons] at hx
    rcases hx with rfl | hx
    · omega
    · exact ih _ x hx

theorem leVal_leBytes (n v : Nat) : leVal (leBytes n v) = v % 256 ^ n := by
  induction n generalizing v with
  | zero => simp [leBytes, leVal, Nat.mod_one]
  | succ n ih =>
    simp only [leBytes, leVal, ih]
    rw [Nat.pow_succ, Nat.mul_comm (256 ^ n) 256, Nat.mod_mul]

theorem beVal_append_singleton (l : Bs) (x : Nat) : beVal (l ++ [x]) = beVal l * 256 + x := by
  induction l with
  | nil => simp [beVal]
  | cons b r ih =>
    simp only [List.cons_append, beVal, ih, List.length_append, List.length_cons, List.length_nil,
      Nat.pow_succ]
    rw [Nat.add_mul, Nat.mul_assoc]; omega

theorem beVal_reverse (l : Bs) : beVal l.reverse = leVal l := by
  induction l with
  | nil => rfl
  | cons b r ih => simp only [List.reverse_cons, beVal_append_singleton, ih, leVal]; omega

theorem beVal_beBytes (n v : Nat) : beVal (beBytes n v) = v % 256 ^ n := by
  rw [beBytes, beVal_reverse, leVal_leBytes]

theorem leBytes_mod (n v : Nat) : leBytes n (v % 256 ^ n) = leBytes n v := by
  induction n generalizing v with
  | zero => rfl
  | succ n ih =>
    simp only [leBytes]
    rw [Nat.pow_succ, Nat.mul_comm (256 ^ n) 256, Nat.mod_mul_right_div_self, ih,
      Nat.mod_mul_right_mod]

theorem leBytes_take (m n v : Nat) (h : n ≤ m) : (leBytes m v).take n = leBytes n v := by
  induction n generalizing m v with
  | zero => simp [leBytes]
  | succ n ih =>
    obtain ⟨m', rfl⟩ : ∃ m', m = m' + 1 := ⟨m - 1, by omega⟩
    simp only [leBytes, List.take_succ_cons, ih m' _ (by omega)]

theorem beBytes_drop (m n v : Nat) (h : n ≤ m) : (beBytes m v).drop (m - n) = beBytes n v := by
  simp only [beBytes]
  rw [List.drop_reverse, leBytes_length, show m - (m - n) = n by omega, leBytes_take m n v h]

/-! ### Two's complement -/

theorem pow_pos_int (bits : Nat) : (0 : Int) < ((2 ^ bits : Nat) : Int) := by
  exact_mod_cast Nat.two_pow_pos bits

theorem toUnsigned_cast (bits : Nat) (v : Int) :
    ((toUnsigned bits v : Nat) : Int) = v % ((2 ^ bits : Nat) : Int) := by
  unfold toUnsigned
  exact Int.toNat_of_nonneg (Int.emod_nonneg _ (Int.ne_of_gt (pow_pos_int bits)))

theorem toUnsigned_lt (bits : Nat) (v : Int) : toUnsigned bits v < 2 ^ bits := by
  have h := Int.emod_lt_of_pos v (pow_pos_int bits)
  rw [← toUnsigned_cast] at h
  exact_mod_cast h

theorem toUnsigned_of_range (bits : Nat) (v : Int) (h0 : 0 ≤ v) (h1 : v < ((2 ^ bits : Nat) : Int)) :
    ((toUnsigned bits v : Nat) : Int) = v := by
  rw [toUnsigned_cast, Int.emod_eq_of_lt h0 h1]

theorem toUnsigned_mod (bits bits' : Nat) (v : Int) (h : bits' ≤ bits) :
    toUnsigned bits v % 2 ^ bits' = toUnsigned bits' v := by
  apply Int.ofNat.inj
  show ((toUnsigned bits v % 2 ^ bits' : Nat) : Int) = ((toUnsigned bits' v : Nat) : Int)
  rw [Int.natCast_emod, toUnsigned_cast, toUnsigned_cast]
  apply Int.emod_emod_of_dvd
  exact_mod_cast Nat.pow_dvd_pow 2 h

theorem toSigned_toUnsigned (bits : Nat) (v : Int) (hb : 0 < bits)
    (h0 : -((2 ^ (bits - 1) : Nat) : Int) ≤ v) (h1 : v < ((2 ^ (bits - 1) : Nat) : Int)) :
    toSigned bits (toUnsigned bits v) = v := by
  have hM : (2 ^ bits : Nat) = 2 * 2 ^ (bits - 1) := by
    conv => lhs; rw [show bits = (bits - 1) + 1 by omega, Nat.pow_succ]
    omega
  have hc := toUnsigned_cast bits v
  generalize toUnsigned bits v = u at hc
  generalize hH : (2 ^ (bits - 1) : Nat) = H at *
  unfold toSigned
  rw [if_neg (by omega), hH, hM]
  rw [hM] at hc
  by_cases hv : 0 ≤ v
  · rw [Int.emod_eq_of_lt hv (by omega)] at hc
    rw [if_pos (by omega)]; exact hc
  · have : v % ((2 * H : Nat) : Int) = v + (2 * H : Nat) := by
      rw [← Int.add_emod_right, Int.emod_eq_of_lt (by omega) (by omega)]
    rw [this] at hc
    rw [if_neg (by omega)]; omega


/-! ### The bodies accepted by `putRowOK` -/

inductive PShape (r : PutRow) : Prop
  | byte (s : Bool) (hk : r.spec.kind = .int 1 s) (hb : r.body = .byteDirect)
  | fixed (k : Nat) (s : Bool) (hk : r.spec.kind = .int k s) (h16 : k ≤ 16)
      (hb : r.body = .fixed k r.spec.endian)
  | float (k : Nat) (hk : r.spec.kind = .float k) (h8 : k ≤ 8)
      (hb : r.body = .floatBits (.fixed k r.spec.endian))
  | varBe (hk : r.spec.kind = .varUint ∨ r.spec.kind = .varInt) (he : r.spec.endian = .be)
      (hb : r.body = .varBe)
  | varLe (hk : r.spec.kind = .varUint ∨ r.spec.kind = .varInt) (he : r.spec.endian ≠ .be)
      (hb : ∀ w v n, bodyBytes r.body w v n = bodyBytes .varLe w v n)

theorem putRowOK_shape (r : PutRow) (h : putRowOK r = true) : PShape r := by
  obtain ⟨name, ⟨t, kind, e⟩, body⟩ := r
  cases kind with
  | int k s =>
    by_cases h1 : k = 1
    · subst h1
      cases body <;> simp [putRowOK] at h
      exact .byte s rfl rfl
    · cases body <;> simp [putRowOK] at h
      · obtain ⟨_, h⟩ := h
        split at h <;> simp_all
      · obtain ⟨_, ⟨⟨_, h16⟩, rfl⟩, rfl⟩ := h
        exact .fixed _ s rfl h16 rfl
  | float k =>
    cases body <;> simp [putRowOK] at h
    next inner =>
      cases inner <;> simp at h
      obtain ⟨_, ⟨h48, rfl⟩, rfl⟩ := h
      exact .float _ rfl (by omega) rfl
  | varUint =>
    cases e <;> cases body <;> simp [putRowOK] at h
    · exact .varBe (.inl rfl) rfl rfl
    · exact .varLe (.inl rfl) (by simp) (fun _ _ _ => rfl)
    · next big little =>
        cases big <;> cases little <;> simp at h
        exact .varLe (.inl rfl) (by simp) (fun _ _ _ => rfl)
  | varInt =>
    cases e <;> cases body <;> simp [putRowOK] at h
    · exact .varBe (.inr rfl) rfl rfl
    · exact .varLe (.inr rfl) (by simp) (fun _ _ _ => rfl)
    · next big little =>
        cases big <;> cases little <;> simp at h
        exact .varLe (.inr rfl) (by simp) (fun _ _ _ => rfl)

/-! ### `encode` -/

theorem encode_length' (s : Spec) (v : Int) (nbytes : Nat) :
    (encode s v nbytes).length = s.size nbytes := by
  unfold encode
  cases s.endian <;> simp only [leBytes_length, beBytes_length]

theorem encode_bytes' (s : Spec) (v : Int) (nbytes : Nat) : ∀ x ∈ encode s v nbytes, x < 256 := by
  unfold encode
  cases s.endian <;> simp only [beBytes, List.mem_reverse] <;> exact leBytes_lt _ _

theorem pow256 (n : Nat) : 256 ^ n = 2 ^ (8 * n) := by
  rw [Nat.pow_mul]

theorem leBytes_toUnsigned (n : Nat) (v : Int) (hn : n ≤ 8) :
    leBytes n (toUnsigned 64 v) = leBytes n (toUnsigned (8 * n) v) := by
  rw [← leBytes_mod n (toUnsigned 64 v), pow256, toUnsigned_mod 64 (8 * n) v (by omega)]

theorem bodyBytes_eq_encode (r : PutRow) (hr : putRowOK r = true) (v : Int) (nbytes : Nat)
    (hn : nbytes ≤ 8) : bodyBytes r.body 0 v nbytes = some (encode r.spec v nbytes) := by
  have hs := putRowOK_shape r hr
  obtain ⟨name, ⟨t, kind, e⟩, body⟩ := r
  cases hs with
  | byte s hk hb =>
    simp only at hk hb; subst hk hb
    have h8 := toUnsigned_lt 8 v
    have : toUnsigned 8 v % 256 = toUnsigned 8 v := Nat.mod_eq_of_lt h8
    cases e <;> simp [bodyBytes, encode, Spec.size, beBytes, leBytes, this]
  | fixed k s hk h16 hb =>
    simp only at hk hb; subst hk hb
    cases e <;> simp only [bodyBytes, encode, Spec.size]
  | float k hk h8 hb =>
    simp only at hk hb; subst hk hb
    cases e <;> simp only [bodyBytes, encode, Spec.size]
  | varBe hk he hb =>
    simp only at hk he hb; subst he hb
    have hsz : Spec.size ⟨t, kind, .be⟩ nbytes = nbytes := by
      rcases hk with rfl | rfl <;> rfl
    simp only [bodyBytes, hn, ↓reduceIte, encode, hsz]
    rw [beBytes_drop 8 nbytes _ hn, beBytes, beBytes, leBytes_toUnsigned nbytes v hn]
  | varLe hk he hb =>
    simp only at hk he hb
    have hsz : Spec.size ⟨t, kind, e⟩ nbytes = nbytes := by
      rcases hk with rfl | rfl <;> rfl
    rw [hb]
    simp only [bodyBytes, hn, ↓reduceIte, encode, hsz]
    rw [leBytes_take 8 nbytes _ hn, leBytes_toUnsigned nbytes v hn]

theorem bodyBytes_too_wide (r : PutRow) (hr : putRowOK r = true) (v : Int) (nbytes : Nat)
    (hk : r.spec.kind = .varUint ∨ r.spec.kind = .varInt) (hn : 8 < nbytes) :
    bodyBytes r.body 0 v nbytes = none := by
  have hs := putRowOK_shape r hr
  have hn' : ¬ nbytes ≤ 8 := by omega
  cases hs with
  | byte s hk' hb => rcases hk with h | h <;> rw [hk'] at h <;> cases h
  | fixed k s hk' h16 hb => rcases hk with h | h <;> rw [hk'] at h <;> cases h
  | float k hk' h8 hb => rcases hk with h | h <;> rw [hk'] at h <;> cases h
  | varBe _ he hb => rw [hb]; simp only [bodyBytes, hn', ↓reduceIte]
  | varLe _ he hb => rw [hb]; simp only [bodyBytes, hn', ↓reduceIte]

theorem size_le_16 (r : PutRow) (hr : putRowOK r = true) (nbytes : Nat) (hn : nbytes ≤ 8) :
    r.spec.size nbytes ≤ 16 := by
  have hs := putRowOK_shape r hr
  unfold Spec.size
  cases hs with
  | byte s hk hb => rw [hk]; simp
  | fixed k s hk h16 hb => rw [hk]; exact h16
  | float k hk h8 hb => rw [hk]; simp only; omega
  | varBe hk he hb => rcases hk with h | h <;> rw [h] <;> simp only <;> omega
  | varLe hk he hb => rcases hk with h | h <;> rw [h] <;> simp only <;> omega

theorem unsignedVal_encode (s : Spec) (v : Int) (nbytes : Nat) :
    unsignedVal s.endian (encode s v nbytes) = toUnsigned (8 * s.size nbytes) v := by
  have hlt := toUnsigned_lt (8 * s.size nbytes) v
  rw [← pow256] at hlt
  unfold encode unsignedVal
  cases s.endian <;> simp only [beVal_beBytes, leVal_leBytes, Nat.mod_eq_of_lt hlt]

theorem decode_encode' (s : Spec) (v : Int) (nbytes : Nat) (hv : inRange s v nbytes) :
    decode s (encode s v nbytes) = v := by
  have hu := unsignedVal_encode s v nbytes
  have hl := encode_length' s v nbytes
  obtain ⟨t, kind, e⟩ := s
  simp only at hu
  have unsignedCase : ∀ (hr : 0 ≤ v ∧ v < (2 ^ (8 * Spec.size ⟨t, kind, e⟩ nbytes) : Int)),
      ((toUnsigned (8 * Spec.size ⟨t, kind, e⟩ nbytes) v : Nat) : Int) = v := by
    intro hr
    apply toUnsigned_of_range _ _ hr.1
    rw [Int.natCast_pow]; exact hr.2
  have signedCase : ∀ (hr : if 8 * Spec.size ⟨t, kind, e⟩ nbytes = 0 then v = 0 else
        -(2 ^ (8 * Spec.size ⟨t, kind, e⟩ nbytes - 1) : Int) ≤ v ∧
          v < (2 ^ (8 * Spec.size ⟨t, kind, e⟩ nbytes - 1) : Int)),
      toSigned (8 * Spec.size ⟨t, kind, e⟩ nbytes)
        (toUnsigned (8 * Spec.size ⟨t, kind, e⟩ nbytes) v) = v := by
    intro hr
    split at hr
    · rename_i h0; rw [h0, hr]; rfl
    · apply toSigned_toUnsigned _ _ (by omega)
      · rw [Int.natCast_pow]; exact hr.1
      · rw [Int.natCast_pow]; exact hr.2
  cases kind with
  | int n sg =>
    cases sg
    · simp only [decode, hu, Bool.false_eq_true, ↓reduceIte]
      exact unsignedCase hv
    · simp only [decode, hu, ↓reduceIte]
      exact signedCase hv
  | float n => simp only [decode, hu]; exact unsignedCase hv
  | varUint => simp only [decode, hu]; exact unsignedCase hv
  | varInt =>
    simp only [decode, hu, hl]
    exact signedCase hv

end BytesVerif.PutCodec
