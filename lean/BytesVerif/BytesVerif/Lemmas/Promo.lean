/- Helper lemmas for the promotion protocol model (M5p): the ordering-independent invariant `Basic`,
the invariant `Inv` (for orderings satisfying `Sufficient`), their preservation, `reach_inv`. -/
import BytesVerif.Model.Promo
import BytesVerif.Lemmas.Conc
namespace BytesVerif.Promo
open BytesVerif.Conc (Ord VC Msg tick sumTo sumTo_congr sumTo_split le_sumTo sumTo_two sumTo_update sumTo_update2
  sumTo_zero_fun le_tick tick_self le_join_left le_join_right lastOf lastOf_append getElem?_last)

instance (s : St) (t : Nat) : Decidable (canUseRoot s t) := by unfold canUseRoot; infer_instance

/-! ### projections of the state transformers -/

theorem latest_eq (s : St) : latest s = lastOf s.mo := rfl

@[simp] theorem setTh_th (s : St) (t : Nat) (f : Thread → Thread) (v : Nat) :
    (setTh s t f).th v = if v = t then f (s.th t) else s.th v := rfl

@[simp] theorem touchCtrl_th (s : St) (t : Nat) : (touchCtrl s t).th = s.th := rfl
@[simp] theorem touchCtrl_data (s : St) (t : Nat) : (touchCtrl s t).data = s.data := rfl
@[simp] theorem touchCtrl_mo (s : St) (t : Nat) : (touchCtrl s t).mo = s.mo := rfl
@[simp] theorem touchCtrl_owner (s : St) (t : Nat) : (touchCtrl s t).owner = s.owner := rfl
@[simp] theorem touchCtrl_rootLive (s : St) (t : Nat) : (touchCtrl s t).rootLive = s.rootLive := rfl
@[simp] theorem touchCtrl_promotions (s : St) (t : Nat) : (touchCtrl s t).promotions = s.promotions := rfl

/-- the clock of `t` after an RMW, and the view of the message it writes -/
def rmwVc (s : St) (t : Nat) (od : Ord) : VC :=
  tick t (if od.isAcq then (s.th t).vc.join (latest s).view else (s.th t).vc)

def rmwView (s : St) (t : Nat) (od : Ord) : VC :=
  if od.isRel then (latest s).view.join (rmwVc s t od) else (latest s).view

theorem rmw_th (s : St) (t : Nat) (od : Ord) (f : Nat → Nat) (v : Nat) :
    (rmw s t od f).1.th v = if v = t then { s.th t with vc := rmwVc s t od, seen := s.mo.length } else s.th v := rfl

theorem rmw_mo (s : St) (t : Nat) (od : Ord) (f : Nat → Nat) :
    (rmw s t od f).1.mo = s.mo ++ [⟨f (latest s).val, rmwView s t od⟩] := rfl

theorem rmw_val (s : St) (t : Nat) (od : Ord) (f : Nat → Nat) : (rmw s t od f).2 = (latest s).val := rfl

theorem touchCtrl_eq {s : St} {t : Nat} (hr : s.ctrlRace = false) (hu : s.uaf = false) (hf : s.ctrlFreed = false)
    (hi : ∃ w e, s.ctrlInit = some (w, e) ∧ e ≤ (s.th t).vc w) : touchCtrl s t = s := by
  obtain ⟨w, e, hi, hle⟩ := hi
  cases s
  simp only at hi hr hu hf hle
  subst hi hr hu hf
  simp [touchCtrl, hle]

theorem load_spec {s t o k s' v} (hl : load s t o k = some (s', v)) :
    ∃ m, (s.th t).seen ≤ k ∧ s.mo[k]? = some m ∧ v = m.val ∧
      s' = setTh (touchCtrl s t) t (fun T =>
              { T with vc := if o.isAcq then T.vc.join m.view else T.vc, seen := k }) := by
  unfold load at hl
  simp only at hl
  split at hl
  · cases hl
  · split at hl
    · cases hl
    · rename_i m hm
      cases hl
      exact ⟨m, by have : ((touchCtrl s t).th t).seen = (s.th t).seen := rfl; omega, hm, rfl, rfl⟩

/-! ### the ordering-independent invariant -/

structure Basic (n : Nat) (s : St) : Prop where
  owner_lt : s.owner < n
  borrow_ok : ∀ u, u < n → (s.th u).borrow = true → s.rootLive = true ∧ u ≠ s.owner
  pc_root : ∀ u, u < n → ((s.th u).pc = .sawVec ∨ (s.th u).pc = .sawArc) → canUseRoot s u
  seen_data : ∀ u, u < n → (s.th u).dataSeen = true → s.data ≠ none
  wit : s.data ≠ none → s.rootLive = true →
    ∃ v, v < n ∧ (s.owner = v ∨ (s.th v).borrow = true) ∧ (s.th v).dataSeen = true
  prom0 : s.data = none → s.promotions = 0
  prom1 : s.promotions ≤ 1

theorem basic_init {n} (hn : 0 < n) : Basic n init :=
  { owner_lt := hn
    borrow_ok := fun u _ hb => by simp [init] at hb
    pc_root := fun u _ hp => by simp [init] at hp
    seen_data := fun u _ hd => by simp [init] at hd
    wit := fun hd => by simp [init] at hd
    prom0 := fun _ => rfl
    prom1 := by simp [init] }

/-- a step that leaves `data`, the root and the borrows alone -/
theorem basic_local {n s s'} (h : Basic n s)
    (hdata : s'.data = s.data) (hroot : s'.rootLive = s.rootLive) (howner : s'.owner = s.owner)
    (hprom : s'.promotions = s.promotions)
    (hb : ∀ v, v < n → (s'.th v).borrow = (s.th v).borrow)
    (hds : ∀ v, v < n → ((s.th v).dataSeen = true → (s'.th v).dataSeen = true) ∧
      ((s'.th v).dataSeen = true → s.data ≠ none))
    (hpc : ∀ v, v < n → ((s'.th v).pc = .sawVec ∨ (s'.th v).pc = .sawArc) →
      ((s.th v).pc = .sawVec ∨ (s.th v).pc = .sawArc) ∨ canUseRoot s v) : Basic n s' := by
  have hcan : ∀ v, v < n → canUseRoot s v → canUseRoot s' v := by
    intro v hv hc
    unfold canUseRoot at hc ⊢
    rw [hroot, howner, hb v hv]; exact hc
  refine
    { owner_lt := by rw [howner]; exact h.owner_lt
      borrow_ok := fun u hu hbu => by
        rw [hb u hu] at hbu; rw [hroot, howner]; exact h.borrow_ok u hu hbu
      pc_root := fun u hu hp => by
        rcases hpc u hu hp with hp0 | hc
        · exact hcan u hu (h.pc_root u hu hp0)
        · exact hcan u hu hc
      seen_data := fun u hu hd => by rw [hdata]; exact (hds u hu).2 hd
      wit := fun hd hr => by
        rw [hdata] at hd; rw [hroot] at hr
        obtain ⟨v, hv, hc, hdv⟩ := h.wit hd hr
        exact ⟨v, hv, by rw [howner, hb v hv]; exact hc, (hds v hv).1 hdv⟩
      prom0 := fun hd => by rw [hprom]; rw [hdata] at hd; exact h.prom0 hd
      prom1 := by rw [hprom]; exact h.prom1 }


/-- a step of a single thread `t` that leaves `data`, the root and the borrows alone -/
theorem basic_local1 {n s s'} (t : Nat) (ht : t < n) (h : Basic n s)
    (hdata : s'.data = s.data) (hroot : s'.rootLive = s.rootLive) (howner : s'.owner = s.owner)
    (hprom : s'.promotions = s.promotions)
    (hoth : ∀ v, v ≠ t → s'.th v = s.th v)
    (hbt : (s'.th t).borrow = (s.th t).borrow)
    (hdt : (s'.th t).dataSeen = (s.th t).dataSeen ∨ ((s'.th t).dataSeen = true ∧ s.data ≠ none))
    (hpt : ((s'.th t).pc = .sawVec ∨ (s'.th t).pc = .sawArc) →
      ((s.th t).pc = .sawVec ∨ (s.th t).pc = .sawArc) ∨ canUseRoot s t) : Basic n s' := by
  refine basic_local h hdata hroot howner hprom ?_ ?_ ?_
  · intro v _; by_cases e : v = t
    · subst e; exact hbt
    · rw [hoth v e]
  · intro v hv; by_cases e : v = t
    · subst e
      rcases hdt with hdt | ⟨hdt, hd⟩
      · rw [hdt]; exact ⟨id, h.seen_data v hv⟩
      · exact ⟨fun _ => hdt, fun _ => hd⟩
    · rw [hoth v e]; exact ⟨id, h.seen_data v hv⟩
  · intro v _; by_cases e : v = t
    · subst e; exact hpt
    · rw [hoth v e]; exact Or.inl

/-- with no borrow outstanding and an idle owner nobody is in the middle of a clone through the root -/
theorem Basic.no_saw {n s} (h : Basic n s) (hnb : noBorrows s n) (hp : (s.th s.owner).pc = .idle) :
    ∀ v, v < n → ¬ ((s.th v).pc = .sawVec ∨ (s.th v).pc = .sawArc) := by
  intro v hv hpv
  obtain ⟨_, hc⟩ := h.pc_root v hv hpv
  rcases hc with hc | hc
  · subst hc; rw [hp] at hpv; simp at hpv
  · rw [hnb v hv] at hc; cases hc

/-- the root handle is consumed (or re-labelled) -/
theorem basic_consume {n s s'} (h : Basic n s) (hroot : s'.rootLive = false)
    (hdata : s'.data = s.data) (howner : s'.owner = s.owner) (hprom : s'.promotions = s.promotions)
    (hb : ∀ v, v < n → (s'.th v).borrow = false)
    (hpc : ∀ v, v < n → ¬ ((s'.th v).pc = .sawVec ∨ (s'.th v).pc = .sawArc))
    (hds : ∀ v, v < n → (s'.th v).dataSeen = true → s.data ≠ none) : Basic n s' :=
  { owner_lt := by rw [howner]; exact h.owner_lt
    borrow_ok := fun v hv hbv => by rw [hb v hv] at hbv; cases hbv
    pc_root := fun v hv hpv => absurd hpv (hpc v hv)
    seen_data := fun v hv hd => by rw [hdata]; exact hds v hv hd
    wit := fun _ hr => by rw [hroot] at hr; cases hr
    prom0 := fun hd => by rw [hprom]; rw [hdata] at hd; exact h.prom0 hd
    prom1 := by rw [hprom]; exact h.prom1 }

theorem not_none_of_some {α} {x : Option α} {v : α} (h : x = some v) : x ≠ none := by rw [h]; simp

/-- the result of a load differs from the state only in thread `t`'s clock / coherence index and in flags -/
theorem basic_step {o : POrds} {n s s'} (h : Basic n s) (hst : Step o n s s') : Basic n s' := by
  cases hst with
  | lend t u ht hu hne hr ho hp hb =>
    have hne' : u ≠ t := fun e => hne e.symm
    refine
      { owner_lt := h.owner_lt
        borrow_ok := fun v hv hbv => by
          by_cases e : v = u
          · subst e; exact ⟨hr, by show v ≠ s.owner; rw [ho]; exact hne'⟩
          · by_cases e2 : v = t
            · subst e2; simp [setTh, hne] at hbv; exact h.borrow_ok v hv hbv
            · simp [setTh, e, e2] at hbv; exact h.borrow_ok v hv hbv
        pc_root := fun v hv hpv => by
          have hpv0 : (s.th v).pc = .sawVec ∨ (s.th v).pc = .sawArc := by
            by_cases e : v = u
            · subst e; simpa [setTh, hne'] using hpv
            · by_cases e2 : v = t
              · subst e2; simpa [setTh, hne] using hpv
              · simpa [setTh, e, e2] using hpv
          obtain ⟨a, b⟩ := h.pc_root v hv hpv0
          refine ⟨a, ?_⟩
          rcases b with b | b
          · exact Or.inl b
          · right
            by_cases e : v = u
            · subst e; simp [setTh]
            · by_cases e2 : v = t
              · subst e2; simpa [setTh, hne] using b
              · simpa [setTh, e, e2] using b
        seen_data := fun v hv hd => by
          show s.data ≠ none
          by_cases e : v = u
          · subst e
            simp [setTh, hne'] at hd
            rcases hd with hd | hd
            · exact h.seen_data v hv hd
            · exact h.seen_data t ht hd
          · by_cases e2 : v = t
            · subst e2; simp [setTh, hne] at hd; exact h.seen_data v hv hd
            · simp [setTh, e, e2] at hd; exact h.seen_data v hv hd
        wit := fun hd hr' => by
          obtain ⟨v, hv, hc, hdv⟩ := h.wit hd hr
          refine ⟨v, hv, ?_, ?_⟩
          · rcases hc with hc | hc
            · exact Or.inl hc
            · right
              by_cases e : v = u
              · subst e; simp [setTh]
              · by_cases e2 : v = t
                · subst e2; simpa [setTh, hne] using hc
                · simpa [setTh, e, e2] using hc
          · by_cases e : v = u
            · subst e; simp [setTh, hne', hdv]
            · by_cases e2 : v = t
              · subst e2; simpa [setTh, hne] using hdv
              · simpa [setTh, e, e2] using hdv
        prom0 := h.prom0
        prom1 := h.prom1 }
  | unlend u hu hb hp =>
    obtain ⟨hr, hne⟩ := h.borrow_ok u hu hb
    have hne' : s.owner ≠ u := fun e => hne e.symm
    refine
      { owner_lt := h.owner_lt
        borrow_ok := fun v hv hbv => by
          show s.rootLive = true ∧ v ≠ s.owner
          by_cases e : v = s.owner
          · subst e; simp [setTh, hne'] at hbv; exact h.borrow_ok _ hv hbv
          · by_cases e2 : v = u
            · subst e2; simp [setTh, e] at hbv
            · simp [setTh, e, e2] at hbv; exact h.borrow_ok v hv hbv
        pc_root := fun v hv hpv => by
          have hpv0 : (s.th v).pc = .sawVec ∨ (s.th v).pc = .sawArc := by
            by_cases e : v = s.owner
            · subst e; simpa [setTh, hne'] using hpv
            · by_cases e2 : v = u
              · subst e2; simpa [setTh, e] using hpv
              · simpa [setTh, e, e2] using hpv
          obtain ⟨a, b⟩ := h.pc_root v hv hpv0
          refine ⟨a, ?_⟩
          show s.owner = v ∨ _
          rcases b with b | b
          · exact Or.inl b
          · right
            by_cases e : v = s.owner
            · subst e; simpa [setTh, hne'] using b
            · by_cases e2 : v = u
              · subst e2; rw [hp] at hpv0; simp at hpv0
              · simpa [setTh, e, e2] using b
        seen_data := fun v hv hd => by
          show s.data ≠ none
          by_cases e : v = s.owner
          · subst e
            simp [setTh, hne'] at hd
            rcases hd with hd | hd
            · exact h.seen_data _ hv hd
            · exact h.seen_data u hu hd
          · by_cases e2 : v = u
            · subst e2; simp [setTh, e] at hd; exact h.seen_data v hv hd
            · simp [setTh, e, e2] at hd; exact h.seen_data v hv hd
        wit := fun hd hr' => by
          obtain ⟨v, hv, hc, hdv⟩ := h.wit hd hr
          by_cases e2 : v = u
          · subst e2
            refine ⟨s.owner, h.owner_lt, Or.inl rfl, ?_⟩
            simp [setTh, hdv, hne']
          · refine ⟨v, hv, ?_, ?_⟩
            · show s.owner = v ∨ _
              rcases hc with hc | hc
              · exact Or.inl hc
              · right
                by_cases e : v = s.owner
                · subst e; simpa [setTh, hne'] using hc
                · simpa [setTh, e, e2] using hc
            · by_cases e : v = s.owner
              · subst e; simp [setTh, hdv, hne']
              · simpa [setTh, e, e2] using hdv
        prom0 := h.prom0
        prom1 := h.prom1 }
  | readRoot t ht hc hp =>
    refine basic_local1 t ht h rfl rfl rfl rfl (fun v e => by simp [doRead, e]) ?_ ?_ ?_
    · simp [doRead]
    · left; simp [doRead]
    · simp [doRead]; intro hx; exact Or.inl hx
  | cloneSeesVec t ht hc hp hd =>
    refine basic_local1 t ht h rfl rfl rfl rfl (fun v e => by simp [setTh, e]) ?_ ?_ ?_
    · simp [setTh]
    · left; simp [setTh]
    · intro _; exact Or.inr hc
  | cloneSeesArc t v ht hc hp hd =>
    refine basic_local1 t ht h rfl rfl rfl rfl (fun v e => by simp [setTh, e]) ?_ ?_ ?_
    · simp [setTh]
    · right; exact ⟨by simp [setTh], not_none_of_some hd⟩
    · intro _; exact Or.inr hc
  | casFail t v ht hp hd =>
    refine basic_local1 t ht h rfl rfl rfl rfl (fun v e => by simp [setTh, e]) ?_ ?_ ?_
    · simp [setTh]
    · right; exact ⟨by simp [setTh], not_none_of_some hd⟩
    · intro _; exact Or.inl (Or.inl hp)
  | arcAdd t ht hp =>
    refine basic_local1 t ht h rfl rfl rfl rfl (fun v e => by simp [setTh, rmw_th, e]) ?_ ?_ ?_
    · simp [setTh, rmw_th]
    · left; simp [setTh, rmw_th]
    · simp [setTh]
  | peekCnt t ht hp =>
    refine basic_local1 t ht h rfl rfl rfl rfl (fun v e => by simp [setTh, e]) ?_ ?_ ?_
    · simp [setTh]
    · left; simp [setTh]
    · simp [setTh]
  | casOk t ht hp hd =>
    have hc := h.pc_root t ht (Or.inl hp)
    refine
      { owner_lt := h.owner_lt
        borrow_ok := fun v hv hbv => by
          have : (s.th v).borrow = true := by
            by_cases e : v = t
            · subst e; simpa using hbv
            · simpa [e] using hbv
          exact h.borrow_ok v hv this
        pc_root := fun v hv hpv => by
          by_cases e : v = t
          · subst e; simp at hpv
          · have hpv0 : (s.th v).pc = .sawVec ∨ (s.th v).pc = .sawArc := by simpa [e] using hpv
            have := h.pc_root v hv hpv0
            unfold canUseRoot at this ⊢
            simpa [e] using this
        seen_data := fun v _ _ => by simp
        wit := fun _ _ => by
          refine ⟨t, ht, ?_, by simp⟩
          have := hc.2
          simpa using this
        prom0 := fun hd' => by simp at hd'
        prom1 := by
          have := h.prom0 hd
          show s.promotions + 1 ≤ 1
          omega }
  | sendRoot t u ht hu hne hr ho hp hnb =>
    have hne' : u ≠ t := fun e => hne e.symm
    have hns := h.no_saw hnb (by rw [ho]; exact hp)
    have hbor : ∀ v, v < n → ((setTh (setTh s t fun T => { T with vc := tick t T.vc }) u fun U =>
        { U with vc := U.vc.join (tick t (s.th t).vc), dataSeen := U.dataSeen || (s.th t).dataSeen,
                 seen := max U.seen (s.th t).seen }).th v).borrow = false := by
      intro v hv
      by_cases e : v = u
      · subst e; simp [setTh, hne']; exact hnb v hv
      · by_cases e2 : v = t
        · subst e2; simp [setTh, hne]; exact hnb v hv
        · simp [setTh, e, e2]; exact hnb v hv
    refine
      { owner_lt := hu
        borrow_ok := fun v hv hbv => by
          have := hbor v hv
          rw [this] at hbv; cases hbv
        pc_root := fun v hv hpv => by
          exfalso; apply hns v hv
          by_cases e : v = u
          · subst e; simpa [setTh, hne'] using hpv
          · by_cases e2 : v = t
            · subst e2; simpa [setTh, hne] using hpv
            · simpa [setTh, e, e2] using hpv
        seen_data := fun v hv hd => by
          show s.data ≠ none
          by_cases e : v = u
          · subst e
            simp [setTh, hne'] at hd
            rcases hd with hd | hd
            · exact h.seen_data v hv hd
            · exact h.seen_data t ht hd
          · by_cases e2 : v = t
            · subst e2; simp [setTh, hne] at hd; exact h.seen_data v hv hd
            · simp [setTh, e, e2] at hd; exact h.seen_data v hv hd
        wit := fun hd _ => by
          obtain ⟨v, hv, hc, hdv⟩ := h.wit hd hr
          have hvt : v = t := by
            rcases hc with hc | hc
            · rw [← hc, ho]
            · rw [hnb v hv] at hc; cases hc
          subst hvt
          refine ⟨u, hu, Or.inl rfl, ?_⟩
          simp [setTh, hdv]
        prom0 := h.prom0
        prom1 := h.prom1 }
  | dropRootVec t ht hr ho hp hnb hd =>
    have hns := h.no_saw hnb (by rw [ho]; exact hp)
    refine basic_consume h rfl rfl rfl rfl ?_ ?_ ?_
    · intro v hv; by_cases e : v = t
      · subst e; simp [doWrite]; exact hnb v hv
      · simp [doWrite, e]; exact hnb v hv
    · intro v hv; by_cases e : v = t
      · subst e; simp [doWrite]; simpa using hns v hv
      · simp [doWrite, e]; simpa using hns v hv
    · intro v hv; by_cases e : v = t
      · subst e; simp [doWrite]; exact h.seen_data v hv
      · simp [doWrite, e]; exact h.seen_data v hv
  | takeRootVec t ht hr ho hp hnb hd =>
    have hns := h.no_saw hnb (by rw [ho]; exact hp)
    refine basic_consume h rfl rfl rfl rfl ?_ ?_ ?_
    · intro v hv; by_cases e : v = t
      · subst e; simp [setTh, doWrite]; exact hnb v hv
      · simp [setTh, doWrite, e]; exact hnb v hv
    · intro v hv; by_cases e : v = t
      · subst e; simp [setTh, doWrite]; simpa using hns v hv
      · simp [setTh, doWrite, e]; simpa using hns v hv
    · intro v hv; by_cases e : v = t
      · subst e; simp [setTh, doWrite]; exact h.seen_data v hv
      · simp [setTh, doWrite, e]; exact h.seen_data v hv
  | relabelRoot t ht hr ho hp hnb hs =>
    have hns := h.no_saw hnb (by rw [ho]; exact hp)
    refine basic_consume h rfl rfl rfl rfl ?_ ?_ ?_
    · intro v hv; by_cases e : v = t
      · subst e; simp [setTh]; exact hnb v hv
      · simp [setTh, e]; exact hnb v hv
    · intro v hv; by_cases e : v = t
      · subst e; simp [setTh]; simpa using hns v hv
      · simp [setTh, e]; simpa using hns v hv
    · intro v hv; by_cases e : v = t
      · subst e; simp [setTh]; exact h.seen_data v hv
      · simp [setTh, e]; exact h.seen_data v hv
  | read t ht hh hp =>
    refine basic_local1 t ht h rfl rfl rfl rfl (fun v e => by simp [doRead, e]) ?_ ?_ ?_
    · simp [doRead]
    · left; simp [doRead]
    · simp [doRead]; intro hx; exact Or.inl hx
  | clone t ht hh hp =>
    refine basic_local1 t ht h rfl rfl rfl rfl (fun v e => by simp [setTh, rmw_th, e]) ?_ ?_ ?_
    · simp [setTh, rmw_th]
    · left; simp [setTh, rmw_th]
    · simp [setTh, rmw_th, hp]
  | send t u ht hu hne hh hp =>
    have hne' : u ≠ t := fun e => hne e.symm
    refine basic_local h rfl rfl rfl rfl ?_ ?_ ?_
    · intro v _
      by_cases e : v = u
      · subst e; simp [setTh, hne']
      · by_cases e2 : v = t
        · subst e2; simp [setTh, hne]
        · simp [setTh, e, e2]
    · intro v hv
      by_cases e : v = u
      · subst e; simp [setTh, hne']
        refine ⟨fun hx => Or.inl hx, fun hx => ?_⟩
        rcases hx with hx | hx
        · exact h.seen_data v hv hx
        · exact h.seen_data t ht hx
      · by_cases e2 : v = t
        · subst e2; simp [setTh, hne]; exact h.seen_data v hv
        · simp [setTh, e, e2]; exact h.seen_data v hv
    · intro v hv
      by_cases e : v = u
      · subst e; simp [setTh, hne']; intro hx; exact Or.inl hx
      · by_cases e2 : v = t
        · subst e2; simp [setTh, hne]; intro hx; exact Or.inl hx
        · simp [setTh, e, e2]; intro hx; exact Or.inl hx
  | dropSub t ht hh hp =>
    refine basic_local1 t ht h rfl rfl rfl rfl (fun v e => by simp [setTh, rmw_th, e]) ?_ ?_ ?_
    · simp [setTh, rmw_th]
    · left; simp [setTh, rmw_th]
    · simp only [setTh_th, if_true]; split <;> simp
  | dropLoad t k s1 v ht hp hl =>
    obtain ⟨m, hk, hm, _, rfl⟩ := load_spec hl
    refine basic_local1 t ht h rfl rfl rfl rfl (fun v e => by simp [setTh, e]) ?_ ?_ ?_
    · simp [setTh]
    · left; simp [setTh]
    · simp [setTh]
  | dropFree t ht hp =>
    refine basic_local1 t ht h rfl rfl rfl rfl (fun v e => by simp [setTh, doWrite, e]) ?_ ?_ ?_
    · simp [setTh, doWrite]
    · left; simp [setTh, doWrite]
    · simp [setTh, doWrite]
  | toVecOk t ht hh hp h1 =>
    refine basic_local1 t ht h rfl rfl rfl rfl (fun v e => by simp [setTh, doWrite, rmw_th, e]) ?_ ?_ ?_
    · simp [setTh, doWrite, rmw_th]
    · left; simp [setTh, doWrite, rmw_th]
    · simp [setTh, doWrite, rmw_th, hp]
  | toVecFail t k s1 v ht hh hp hl hv =>
    obtain ⟨m, hk, hm, _, rfl⟩ := load_spec hl
    refine basic_local1 t ht h rfl rfl rfl rfl (fun v e => by simp [setTh, doRead, e]) ?_ ?_ ?_
    · simp [setTh, doRead]
    · left; simp [setTh, doRead]
    · simp [setTh, doRead]
  | toVecFailDrop t ht hp =>
    refine basic_local1 t ht h rfl rfl rfl rfl (fun v e => by simp [setTh, rmw_th, e]) ?_ ?_ ?_
    · simp [setTh, rmw_th]
    · left; simp [setTh, rmw_th]
    · simp only [setTh_th, if_true]; split <;> simp
  | uniqueOk t k s1 v ht hh hp hl hv =>
    obtain ⟨m, hk, hm, _, rfl⟩ := load_spec hl
    refine basic_local1 t ht h rfl rfl rfl rfl (fun v e => by simp [setTh, doWrite, e]) ?_ ?_ ?_
    · simp [setTh, doWrite]
    · left; simp [setTh, doWrite]
    · simp [setTh, doWrite, hp]

/-- `cloneSeesArc` / `casFail` with the value read left implicit (for building concrete executions) -/
theorem Step.cloneSeesArc' {o n} (s : St) (t : Nat) (ht : t < n) (hc : canUseRoot s t) (hp : (s.th t).pc = .idle)
    (h : s.data.isSome = true) :
    Step o n s (setTh s t fun T =>
        { T with pc := .sawArc, dataSeen := true, vc := if o.promLoad.isAcq then T.vc.join (s.data.get h) else T.vc }) :=
  Step.cloneSeesArc s t _ ht hc hp (Option.eq_some_of_isSome h)

theorem Step.casFail' {o n} (s : St) (t : Nat) (ht : t < n) (hp : (s.th t).pc = .sawVec) (h : s.data.isSome = true) :
    Step o n s (setTh s t fun T =>
        { T with pc := .sawArc, dataSeen := true, vc := if o.promCasFail.isAcq then T.vc.join (s.data.get h) else T.vc }) :=
  Step.casFail s t _ ht hp (Option.eq_some_of_isSome h)

theorem reach_zero {o : POrds} {s} (hr : Reach o 0 s) : s = init := by
  induction hr with
  | init => rfl
  | step _ hst _ => cases hst <;> omega

theorem reach_basic {o : POrds} {n s} (hn : 0 < n) (hr : Reach o n s) : Basic n s := by
  induction hr with
  | init => exact basic_init hn
  | step _ hst ih => exact basic_step ih hst


/-! ### the invariant for sufficient orderings -/

def rootCnt (s : St) : Nat := if s.rootLive = true then 1 else 0

/-- total number of `Shared` handles of the first `n` threads -/
def total (s : St) (n : Nat) : Nat := sumTo (fun u => (s.th u).handles) n

/-- a thread that may read the buffer: it owns a handle, or may use the root -/
def Holder (s : St) (v : Nat) : Prop := 0 < (s.th v).handles ∨ canUseRoot s v

/-- the buffer is still managed by the protocol -/
def Live (s : St) : Prop := s.ctrlFreed = false ∧ (s.data = none → s.rootLive = true)

def Dying (p : Pc) : Prop := p = .dropped ∨ p = .loadedFree
def Busy (p : Pc) : Prop := p = .sawArc ∨ p = .dropped ∨ p = .loadedFree ∨ p = .failedToVec

/-- (J, reads) every read of the buffer is contained in the view of the newest counter message or in
the clock of a thread that still holds a handle or may use the root -/
def CovR (n : Nat) (s : St) : Prop :=
  ∀ u, u < n → s.readEpoch u ≤ (latest s).view u ∨
    ∃ v, v < n ∧ Holder s v ∧ s.readEpoch u ≤ (s.th v).vc u

/-- (J, writes) every holder has the last write in its clock -/
def CovW (n : Nat) (s : St) : Prop :=
  ∀ v, v < n → Holder s v → ∀ w e, s.lastWrite = some (w, e) → e ≤ (s.th v).vc w

/-- (K) a holder of a handle can read the value 1 only from the newest message -/
def NoStale (n : Nat) (s : St) : Prop :=
  ∀ t, t < n → 0 < (s.th t).handles → ∀ k m, (s.th t).seen ≤ k → k + 1 < s.mo.length →
    s.mo[k]? = some m → m.val ≠ 1

/-- (K, root) … and so can the owner of the root once every borrow has ended -/
def RootNoStale (n : Nat) (s : St) : Prop :=
  s.rootLive = true → ∀ k m, (∀ v, v < n → canUseRoot s v → (s.th v).seen ≤ k) → k + 1 < s.mo.length →
    s.mo[k]? = some m → m.val ≠ 1

structure Inv (n : Nat) (s : St) : Prop where
  basic : Basic n s
  un : s.data = none → s.mo = [] ∧ s.ctrlInit = none ∧ s.ctrlFreed = false
  pr : s.data ≠ none → s.mo ≠ []
  dataView : ∀ v, s.data = some v → ∃ w e, s.ctrlInit = some (w, e) ∧ e ≤ v w
  seen_le : ∀ u, u < n → (s.th u).seen ≤ s.mo.length - 1
  count : s.data ≠ none → (latest s).val = rootCnt s + total s n
  hs_seen : ∀ u, u < n → (0 < (s.th u).handles ∨ Busy (s.th u).pc) → (s.th u).dataSeen = true
  ctrlOrd : ∀ t, t < n → (s.th t).dataSeen = true → ∀ w e, s.ctrlInit = some (w, e) → e ≤ (s.th t).vc w
  failed_h : ∀ u, u < n → (s.th u).pc = .failedToVec → 0 < (s.th u).handles
  dying : ∀ u, u < n → Dying (s.th u).pc →
    (latest s).val = 0 ∧ s.freed = false ∧ s.ctrlFreed = false ∧
      ∀ v, v < n → v ≠ u → (s.th v).pc = .idle
  ctrl0 : s.ctrlFreed = true → (latest s).val = 0
  freed_cases : s.freed = true → s.rootLive = false ∧ (s.ctrlFreed = true ∨ s.data = none)
  safe : s.race = false ∧ s.ctrlRace = false ∧ s.uaf = false ∧ s.doubleFree = false
  noStale : NoStale n s
  rootNoStale : RootNoStale n s
  covR : Live s → CovR n s
  covW : CovW n s
  covW0 : s.data ≠ none → s.ctrlFreed = false → (latest s).val = 0 →
    ∀ w e, s.lastWrite = some (w, e) → e ≤ (latest s).view w
  loaded : ∀ t, t < n → (s.th t).pc = .loadedFree → ∀ u, (latest s).view u ≤ (s.th t).vc u
  droppedSeen : ∀ t, t < n → (s.th t).pc = .dropped → (s.th t).seen + 1 = s.mo.length

theorem Busy.of_dying {p : Pc} (h : Dying p) : Busy p := by
  rcases h with h | h
  · exact Or.inr (Or.inl h)
  · exact Or.inr (Or.inr (Or.inl h))

theorem Inv.promoted {n s u} (h : Inv n s) (hu : u < n) (hx : 0 < (s.th u).handles ∨ Busy (s.th u).pc) :
    s.data ≠ none :=
  h.basic.seen_data u hu (h.hs_seen u hu hx)

theorem Inv.no_handles {n s} (h : Inv n s) (hd : s.data = none) : ∀ u, u < n → (s.th u).handles = 0 := by
  intro u hu
  cases hh : (s.th u).handles with
  | zero => rfl
  | succ k => exact absurd hd (h.promoted hu (Or.inl (by omega)))

theorem rootCnt_le (s : St) : rootCnt s ≤ 1 := by unfold rootCnt; split <;> omega

theorem rootCnt_of_live {s : St} (h : s.rootLive = true) : rootCnt s = 1 := by simp [rootCnt, h]

theorem rootCnt_of_dead {s : St} (h : s.rootLive = false) : rootCnt s = 0 := by simp [rootCnt, h]

/-- what a thread holding a handle, or able to use the root, knows about the global state -/
structure Alive (n : Nat) (s : St) : Prop where
  val_pos : s.data ≠ none → 1 ≤ (latest s).val
  ctrl : s.ctrlFreed = false
  freed : s.freed = false
  notDying : ∀ u, u < n → ¬ Dying (s.th u).pc

theorem Inv.val_pos {n s t} (h : Inv n s) (ht : t < n) (hh : Holder s t) (hd : s.data ≠ none) :
    1 ≤ (latest s).val := by
  rw [h.count hd]
  rcases hh with hh | hh
  · have := le_sumTo (fun u => (s.th u).handles) ht
    unfold total; omega
  · rw [rootCnt_of_live hh.1]; omega

theorem Inv.alive {n s t} (h : Inv n s) (ht : t < n) (hh : Holder s t) : Alive n s := by
  by_cases hd : s.data = none
  · have hr : s.rootLive = true := by
      rcases hh with hh | hh
      · have := h.no_handles hd t ht; omega
      · exact hh.1
    refine ⟨fun hd' => absurd hd hd', (h.un hd).2.2, ?_, ?_⟩
    · cases hf : s.freed with
      | false => rfl
      | true => have := (h.freed_cases hf).1; rw [hr] at this; cases this
    · intro u hu hdy
      exact h.promoted hu (Or.inr (Busy.of_dying hdy)) hd
  · have hv := h.val_pos ht hh hd
    have hc : s.ctrlFreed = false := by
      cases hc : s.ctrlFreed with
      | false => rfl
      | true => have := h.ctrl0 hc; omega
    refine ⟨fun _ => hv, hc, ?_, ?_⟩
    · cases hf : s.freed with
      | false => rfl
      | true =>
        rcases (h.freed_cases hf).2 with h1 | h1
        · rw [hc] at h1; cases h1
        · exact absurd h1 hd
    · intro u hu hdy
      have := (h.dying u hu hdy).1; omega

theorem Inv.live {n s t} (h : Inv n s) (ht : t < n) (hh : Holder s t) : Live s := by
  refine ⟨(h.alive ht hh).ctrl, fun hd => ?_⟩
  rcases hh with hh | hh
  · have := h.no_handles hd t ht; omega
  · exact hh.1

/-- a thread that has seen the promotion and is protected (holds a handle, may use the root, or is the one
that will free) touches the control block safely -/
theorem Inv.touch_eq {n s t} (h : Inv n s) (ht : t < n) (hd : (s.th t).dataSeen = true)
    (hx : Holder s t ∨ Dying (s.th t).pc) : touchCtrl s t = s := by
  have hdn := h.basic.seen_data t ht hd
  have hc : s.ctrlFreed = false := by
    rcases hx with hx | hx
    · exact (h.alive ht hx).ctrl
    · exact (h.dying t ht hx).2.2.1
  cases hdv : s.data with
  | none => exact absurd hdv hdn
  | some v =>
    obtain ⟨w, e, hi, _⟩ := h.dataView v hdv
    exact touchCtrl_eq h.safe.2.1 h.safe.2.2.1 hc ⟨w, e, hi, h.ctrlOrd t ht hd w e hi⟩

/-! ### generic preservation lemmas for the components -/

theorem CovR.step {n s s'} (h : CovR n s)
    (hview : ∀ u, (latest s).view u ≤ (latest s').view u)
    (hhold : ∀ v, v < n → Holder s v →
      (∀ u, (s.th v).vc u ≤ (latest s').view u) ∨
      ∃ v', v' < n ∧ Holder s' v' ∧ ∀ u, (s.th v).vc u ≤ (s'.th v').vc u)
    (hre : ∀ u, u < n → s'.readEpoch u = s.readEpoch u ∨
      ∃ v', v' < n ∧ Holder s' v' ∧ s'.readEpoch u ≤ (s'.th v').vc u) : CovR n s' := by
  intro u hu
  rcases hre u hu with e | hx
  · rw [e]
    rcases h u hu with l | ⟨v, hv, hh, hle⟩
    · exact Or.inl (Nat.le_trans l (hview u))
    · rcases hhold v hv hh with a | ⟨v', hv', hh', hle'⟩
      · exact Or.inl (Nat.le_trans hle (a u))
      · exact Or.inr ⟨v', hv', hh', Nat.le_trans hle (hle' u)⟩
  · exact Or.inr hx

theorem CovW.step {n s s'} (h : CovW n s) (hlw : s'.lastWrite = s.lastWrite)
    (hhold : ∀ v', v' < n → Holder s' v' →
      ∃ v, v < n ∧ Holder s v ∧ ∀ u, (s.th v).vc u ≤ (s'.th v').vc u) : CovW n s' := by
  intro v' hv' hh' w e hl
  rcases hhold v' hv' hh' with ⟨v, hv, hh, hle⟩
  rw [hlw] at hl
  exact Nat.le_trans (h v hv hh w e hl) (hle w)

theorem lw_same {n : Nat} {s s' : St} (h : s'.lastWrite = s.lastWrite) :
    ∀ w e, s'.lastWrite = some (w, e) → s.lastWrite = some (w, e) ∨
      ((∀ v, v < n → Holder s' v → e ≤ (s'.th v).vc w) ∧ (latest s).val ≠ 0) :=
  fun w e hl => Or.inl (by rw [← h]; exact hl)

/-- a step that changes neither the counter, nor `data`, nor the buffer memory: clocks and coherence indices
grow, handles / the root / borrows are handed over along happens-before edges -/
theorem inv_frame {n s s'} (h : Inv n s) (hb : Basic n s')
    (hdata : s'.data = s.data) (hci : s'.ctrlInit = s.ctrlInit) (hmo : s'.mo = s.mo)
    (hlw : ∀ w e, s'.lastWrite = some (w, e) → s.lastWrite = some (w, e) ∨
      ((∀ v, v < n → Holder s' v → e ≤ (s'.th v).vc w) ∧ (latest s).val ≠ 0))
    (hre : ∀ u, u < n → s'.readEpoch u = s.readEpoch u ∨
      ∃ v', v' < n ∧ Holder s' v' ∧ s'.readEpoch u ≤ (s'.th v').vc u)
    (hfreed : s'.freed = s.freed) (hctrl : s'.ctrlFreed = s.ctrlFreed)
    (hsafe : s'.race = false ∧ s'.ctrlRace = false ∧ s'.uaf = false ∧ s'.doubleFree = false)
    (hroot : s'.rootLive = true → s.rootLive = true)
    (hcount : rootCnt s' + total s' n = rootCnt s + total s n)
    (hvc : ∀ v u, (s.th v).vc u ≤ (s'.th v).vc u)
    (hseen : ∀ v, v < n → (s.th v).seen ≤ (s'.th v).seen ∧ (s'.th v).seen ≤ s.mo.length - 1)
    (hpc : ∀ v, v < n → (s'.th v).pc = (s.th v).pc ∨ (¬ Dying (s'.th v).pc ∧ Holder s v) ∨
      ((s'.th v).pc = .loadedFree ∧ (s.th v).pc = .dropped ∧ ∀ u, (latest s).view u ≤ (s'.th v).vc u))
    (hhs : ∀ v, v < n → (0 < (s'.th v).handles ∨ Busy (s'.th v).pc) → (s'.th v).dataSeen = true)
    (hord : ∀ t, t < n → (s'.th t).dataSeen = true → ∀ w e, s.ctrlInit = some (w, e) → e ≤ (s'.th t).vc w)
    (hfail : ∀ v, v < n → (s'.th v).pc = .failedToVec → 0 < (s'.th v).handles)
    (hdesc : ∀ v, v < n → Holder s v → ∃ v', v' < n ∧ Holder s' v' ∧ ∀ x, (s.th v).vc x ≤ (s'.th v').vc x)
    (hanc : ∀ v', v' < n → Holder s' v' → ∃ v, v < n ∧ Holder s v ∧ ∀ x, (s.th v).vc x ≤ (s'.th v').vc x)
    (hanc_h : ∀ v', v' < n → 0 < (s'.th v').handles →
       (∃ v, v < n ∧ 0 < (s.th v).handles ∧ (s.th v).seen ≤ (s'.th v').seen) ∨
       (s.rootLive = true ∧ ∀ w, w < n → canUseRoot s w → (s.th w).seen ≤ (s'.th v').seen))
    (hdesc_r : s'.rootLive = true → ∀ v, v < n → canUseRoot s v →
       ∃ v', v' < n ∧ canUseRoot s' v' ∧ (s.th v).seen ≤ (s'.th v').seen) : Inv n s' := by
  have hlat : latest s' = latest s := by simp [latest, hmo]
  have hdy : ∀ u, u < n → Dying (s'.th u).pc → Dying (s.th u).pc := by
    intro u hu hd
    rcases hpc u hu with e | ⟨e, _⟩ | ⟨_, e, _⟩
    · rw [e] at hd; exact hd
    · exact absurd hd e
    · exact Or.inl e
  refine
    { basic := hb
      un := fun hd => by rw [hdata] at hd; rw [hmo, hci, hctrl]; exact h.un hd
      pr := fun hd => by rw [hdata] at hd; rw [hmo]; exact h.pr hd
      dataView := fun v hd => by rw [hdata] at hd; rw [hci]; exact h.dataView v hd
      seen_le := fun u hu => by rw [hmo]; exact (hseen u hu).2
      count := fun hd => by
        rw [hdata] at hd; rw [hlat, h.count hd]; omega
      hs_seen := hhs
      ctrlOrd := fun t ht hd w e hc => by rw [hci] at hc; exact hord t ht hd w e hc
      failed_h := hfail
      dying := fun u hu hd => by
        have hd0 := hdy u hu hd
        rw [hlat, hfreed, hctrl]
        obtain ⟨a, b, c, d⟩ := h.dying u hu hd0
        refine ⟨a, b, c, fun v hv hne => ?_⟩
        rcases hpc v hv with e | ⟨_, hh⟩ | ⟨_, e, _⟩
        · rw [e]; exact d v hv hne
        · exact absurd hd0 ((h.alive hv hh).notDying u hu)
        · have := d v hv hne; rw [e] at this; cases this
      ctrl0 := fun hc => by rw [hlat]; rw [hctrl] at hc; exact h.ctrl0 hc
      freed_cases := fun hf => by
        rw [hfreed] at hf
        obtain ⟨a, b⟩ := h.freed_cases hf
        refine ⟨?_, by rw [hctrl, hdata]; exact b⟩
        cases hr : s'.rootLive with
        | false => rfl
        | true => have := hroot hr; rw [a] at this; cases this
      safe := hsafe
      noStale := fun t ht hh k m hk hlen hm => by
        rw [hmo] at hlen hm
        rcases hanc_h t ht hh with ⟨v, hv, hhv, hle⟩ | ⟨hr, hle⟩
        · exact h.noStale v hv hhv k m (Nat.le_trans hle hk) hlen hm
        · exact h.rootNoStale hr k m (fun w hw hc => Nat.le_trans (hle w hw hc) hk) hlen hm
      rootNoStale := fun hr k m hall hlen hm => by
        rw [hmo] at hlen hm
        refine h.rootNoStale (hroot hr) k m (fun v hv hc => ?_) hlen hm
        obtain ⟨v', hv', hc', hle⟩ := hdesc_r hr v hv hc
        exact Nat.le_trans hle (hall v' hv' hc')
      covR := fun hl => by
        have hl0 : Live s := ⟨by rw [← hctrl]; exact hl.1, fun hd => hroot (hl.2 (by rw [hdata]; exact hd))⟩
        exact (h.covR hl0).step (fun u => by rw [hlat]; exact Nat.le_refl _)
          (fun v hv hhv => Or.inr (hdesc v hv hhv))
          hre
      covW := fun v' hv' hh' w e hl => by
        rcases hlw w e hl with hl0 | ⟨hnew, _⟩
        · obtain ⟨v, hv, hhv, hle⟩ := hanc v' hv' hh'
          exact Nat.le_trans (h.covW v hv hhv w e hl0) (hle w)
        · exact hnew v' hv' hh'
      covW0 := fun hd hc h0 w e hl => by
        rw [hlat] at h0 ⊢; rw [hctrl] at hc; rw [hdata] at hd
        rcases hlw w e hl with hl0 | ⟨_, hnz⟩
        · exact h.covW0 hd hc h0 w e hl0
        · exact absurd h0 hnz
      loaded := fun u hu hp v => by
        rw [hlat]
        rcases hpc u hu with e | ⟨e, _⟩ | ⟨_, _, hle⟩
        · rw [e] at hp; exact Nat.le_trans (h.loaded u hu hp v) (hvc u v)
        · exact absurd (Or.inr hp) e
        · exact hle v
      droppedSeen := fun u hu hp => by
        rw [hmo]
        rcases hpc u hu with e | ⟨e, _⟩ | ⟨e, _⟩
        · rw [e] at hp
          have := h.droppedSeen u hu hp
          have := hseen u hu
          omega
        · exact absurd (Or.inl hp) e
        · rw [e] at hp; cases hp }


/-- `inv_frame` for a step of one thread that keeps its handles and its borrow -/
theorem inv_frame1 {n s s'} (t : Nat) (ht : t < n) (h : Inv n s) (hb : Basic n s')
    (hdata : s'.data = s.data) (hci : s'.ctrlInit = s.ctrlInit) (hmo : s'.mo = s.mo)
    (hlw : ∀ w e, s'.lastWrite = some (w, e) → s.lastWrite = some (w, e) ∨
      ((∀ v, v < n → Holder s' v → e ≤ (s'.th v).vc w) ∧ (latest s).val ≠ 0))
    (hre : ∀ u, u < n → s'.readEpoch u = s.readEpoch u ∨
      ∃ v', v' < n ∧ Holder s' v' ∧ s'.readEpoch u ≤ (s'.th v').vc u)
    (hfreed : s'.freed = s.freed) (hctrl : s'.ctrlFreed = s.ctrlFreed)
    (hsafe : s'.race = false ∧ s'.ctrlRace = false ∧ s'.uaf = false ∧ s'.doubleFree = false)
    (hroot : s'.rootLive = s.rootLive) (howner : s'.owner = s.owner)
    (hoth : ∀ v, v ≠ t → s'.th v = s.th v)
    (hh : (s'.th t).handles = (s.th t).handles) (hbor : (s'.th t).borrow = (s.th t).borrow)
    (hvc : ∀ u, (s.th t).vc u ≤ (s'.th t).vc u)
    (hseen : (s.th t).seen ≤ (s'.th t).seen ∧ (s'.th t).seen ≤ s.mo.length - 1)
    (hpc : (s'.th t).pc = (s.th t).pc ∨ (¬ Dying (s'.th t).pc ∧ Holder s t) ∨
      ((s'.th t).pc = .loadedFree ∧ (s.th t).pc = .dropped ∧ ∀ u, (latest s).view u ≤ (s'.th t).vc u))
    (hhs : (0 < (s'.th t).handles ∨ Busy (s'.th t).pc) → (s'.th t).dataSeen = true)
    (hord : (s'.th t).dataSeen = true → ∀ w e, s.ctrlInit = some (w, e) → e ≤ (s'.th t).vc w)
    (hfail : (s'.th t).pc = .failedToVec → 0 < (s'.th t).handles) : Inv n s' := by
  have hhd : ∀ v, (s'.th v).handles = (s.th v).handles := by
    intro v; by_cases e : v = t
    · subst e; exact hh
    · rw [hoth v e]
  have hcan : ∀ v, canUseRoot s' v ↔ canUseRoot s v := by
    intro v
    unfold canUseRoot
    rw [hroot, howner]
    by_cases e : v = t
    · subst e; rw [hbor]
    · rw [hoth v e]
  have hhol : ∀ v, Holder s' v ↔ Holder s v := by
    intro v; unfold Holder; rw [hhd, hcan]
  have hvc' : ∀ v u, (s.th v).vc u ≤ (s'.th v).vc u := by
    intro v u; by_cases e : v = t
    · subst e; exact hvc u
    · rw [hoth v e]; exact Nat.le_refl _
  have hseen' : ∀ v, v < n → (s.th v).seen ≤ (s'.th v).seen := by
    intro v _; by_cases e : v = t
    · subst e; exact hseen.1
    · rw [hoth v e]; exact Nat.le_refl _
  refine inv_frame h hb hdata hci hmo hlw hre hfreed hctrl hsafe (fun hr => by rw [← hroot]; exact hr)
    ?_ hvc' ?_ ?_ ?_ ?_ ?_ ?_ ?_ ?_ ?_
  · have : total s' n = total s n := sumTo_congr (fun u _ => hhd u)
    rw [this]; unfold rootCnt; rw [hroot]
  · intro v hv; by_cases e : v = t
    · subst e; exact hseen
    · rw [hoth v e]; exact ⟨Nat.le_refl _, h.seen_le v hv⟩
  · intro v _; by_cases e : v = t
    · subst e; exact hpc
    · rw [hoth v e]; exact Or.inl rfl
  · intro v hv; by_cases e : v = t
    · subst e; exact hhs
    · rw [hoth v e]; exact h.hs_seen v hv
  · intro v hv; by_cases e : v = t
    · subst e; exact hord
    · rw [hoth v e]; exact h.ctrlOrd v hv
  · intro v hv; by_cases e : v = t
    · subst e; exact hfail
    · rw [hoth v e]; exact h.failed_h v hv
  · intro v hv hhv; exact ⟨v, hv, (hhol v).2 hhv, hvc' v⟩
  · intro v hv hhv; exact ⟨v, hv, (hhol v).1 hhv, hvc' v⟩
  · intro v hv hhv; left; exact ⟨v, hv, by rw [← hhd]; exact hhv, hseen' v hv⟩
  · intro _ v hv hc; exact ⟨v, hv, (hcan v).2 hc, hseen' v hv⟩


/-- a happens-before edge from an idle thread `t` to thread `u` (`lend`, `unlend`, `sendRoot`, `send`):
what is left to show is how handles, the root and the borrows flow -/
theorem inv_edge {n s s' t u} (h : Inv n s) (hb : Basic n s') (ht : t < n) (hu : u < n) (hne : t ≠ u)
    (hdata : s'.data = s.data) (hci : s'.ctrlInit = s.ctrlInit) (hmo : s'.mo = s.mo)
    (hlw : s'.lastWrite = s.lastWrite) (hre : s'.readEpoch = s.readEpoch)
    (hfreed : s'.freed = s.freed) (hctrl : s'.ctrlFreed = s.ctrlFreed)
    (hrace : s'.race = s.race) (hcr : s'.ctrlRace = s.ctrlRace) (huaf : s'.uaf = s.uaf)
    (hdf : s'.doubleFree = s.doubleFree)
    (hroot : s'.rootLive = true → s.rootLive = true)
    (hcount : rootCnt s' + total s' n = rootCnt s + total s n)
    (hoth : ∀ w, w ≠ t → w ≠ u → s'.th w = s.th w)
    (hpcs : ∀ w, (s'.th w).pc = (s.th w).pc) (hpt : (s.th t).pc = .idle)
    (hvt : (s'.th t).vc = tick t (s.th t).vc)
    (hvu : (s'.th u).vc = (s.th u).vc.join (tick t (s.th t).vc))
    (hdt : (s'.th t).dataSeen = (s.th t).dataSeen)
    (hdu : (s'.th u).dataSeen = ((s.th u).dataSeen || (s.th t).dataSeen))
    (hst : (s'.th t).seen = (s.th t).seen)
    (hsu : (s.th u).seen ≤ (s'.th u).seen ∧ (s'.th u).seen ≤ max (s.th u).seen (s.th t).seen)
    (hht : (s'.th t).handles ≤ (s.th t).handles)
    (hhu : (s.th u).handles ≤ (s'.th u).handles ∧
      (0 < (s'.th u).handles → 0 < (s.th u).handles ∨ 0 < (s.th t).handles))
    (hdesc : (∀ v x, (s.th v).vc x ≤ (s'.th v).vc x) → (∀ x, (s.th t).vc x ≤ (s'.th u).vc x) →
      ∀ v, v < n → Holder s v → ∃ v', v' < n ∧ Holder s' v' ∧ ∀ x, (s.th v).vc x ≤ (s'.th v').vc x)
    (hanc : (∀ v x, (s.th v).vc x ≤ (s'.th v).vc x) → (∀ x, (s.th t).vc x ≤ (s'.th u).vc x) →
      ∀ v', v' < n → Holder s' v' → ∃ v, v < n ∧ Holder s v ∧ ∀ x, (s.th v).vc x ≤ (s'.th v').vc x)
    (hanc_h : ∀ v', v' < n → 0 < (s'.th v').handles →
       (∃ v, v < n ∧ 0 < (s.th v).handles ∧ (s.th v).seen ≤ (s'.th v').seen) ∨
       (s.rootLive = true ∧ ∀ w, w < n → canUseRoot s w → (s.th w).seen ≤ (s'.th v').seen))
    (hdesc_r : s'.rootLive = true → ∀ v, v < n → canUseRoot s v →
       ∃ v', v' < n ∧ canUseRoot s' v' ∧ (s.th v).seen ≤ (s'.th v').seen) : Inv n s' := by
  have hne' : u ≠ t := fun e => hne e.symm
  have hvc : ∀ v x, (s.th v).vc x ≤ (s'.th v).vc x := by
    intro v x
    by_cases e1 : v = t
    · subst e1; rw [hvt]; exact le_tick _ _ _
    · by_cases e2 : v = u
      · subst e2; rw [hvu]; exact le_join_left _ _ _
      · rw [hoth v e1 e2]; exact Nat.le_refl _
  have hvtu : ∀ x, (s.th t).vc x ≤ (s'.th u).vc x := by
    intro x; rw [hvu]; exact Nat.le_trans (le_tick t _ x) (le_join_right _ _ _)
  refine inv_frame h hb hdata hci hmo (lw_same hlw) (fun u _ => Or.inl (by rw [hre])) hfreed hctrl
    (by rw [hrace, hcr, huaf, hdf]; exact h.safe) hroot hcount hvc ?_ ?_ ?_ ?_ ?_
    (hdesc hvc hvtu) (hanc hvc hvtu) hanc_h hdesc_r
  · intro v hv
    by_cases e1 : v = t
    · subst e1; rw [hst]; exact ⟨Nat.le_refl _, h.seen_le v hv⟩
    · by_cases e2 : v = u
      · subst e2
        have := h.seen_le v hv; have := h.seen_le t ht
        exact ⟨hsu.1, by omega⟩
      · rw [hoth v e1 e2]; exact ⟨Nat.le_refl _, h.seen_le v hv⟩
  · intro v _; exact Or.inl (hpcs v)
  · intro v hv hx
    rw [hpcs] at hx
    by_cases e1 : v = t
    · subst e1; rw [hdt]
      refine h.hs_seen v hv ?_
      rcases hx with hx | hx
      · exact Or.inl (by omega)
      · exact Or.inr hx
    · by_cases e2 : v = u
      · subst e2; rw [hdu]
        rcases hx with hx | hx
        · rcases hhu.2 hx with hx | hx
          · rw [h.hs_seen v hv (Or.inl hx)]; rfl
          · rw [h.hs_seen t ht (Or.inl hx)]; simp
        · rw [h.hs_seen v hv (Or.inr hx)]; rfl
      · rw [hoth v e1 e2] at hx ⊢; exact h.hs_seen v hv hx
  · intro v hv hd w e hi
    by_cases e1 : v = t
    · subst e1; rw [hdt] at hd; rw [hvt]
      exact Nat.le_trans (h.ctrlOrd v hv hd w e hi) (le_tick _ _ _)
    · by_cases e2 : v = u
      · subst e2; rw [hdu] at hd; rw [hvu]
        simp only [Bool.or_eq_true] at hd
        rcases hd with hd | hd
        · exact Nat.le_trans (h.ctrlOrd v hv hd w e hi) (le_join_left _ _ _)
        · exact Nat.le_trans (h.ctrlOrd t ht hd w e hi) (Nat.le_trans (le_tick _ _ _) (le_join_right _ _ _))
      · rw [hoth v e1 e2] at hd ⊢; exact h.ctrlOrd v hv hd w e hi
  · intro v hv hp
    rw [hpcs] at hp
    by_cases e1 : v = t
    · subst e1; rw [hpt] at hp; cases hp
    · by_cases e2 : v = u
      · subst e2; have := h.failed_h v hv hp; omega
      · rw [hoth v e1 e2]; exact h.failed_h v hv hp

theorem inv_lend {n s t u} (h : Inv n s) (ht : t < n) (hu : u < n) (hne : t ≠ u) (hr : s.rootLive = true)
    (ho : s.owner = t) (hp : (s.th t).pc = .idle)
    (hb : Basic n (setTh (setTh s t fun T => { T with vc := tick t T.vc }) u fun U =>
        { U with borrow := true, vc := U.vc.join (tick t (s.th t).vc), dataSeen := U.dataSeen || (s.th t).dataSeen })) :
    Inv n (setTh (setTh s t fun T => { T with vc := tick t T.vc }) u fun U =>
        { U with borrow := true, vc := U.vc.join (tick t (s.th t).vc), dataSeen := U.dataSeen || (s.th t).dataSeen }) := by
  have hne' : u ≠ t := fun e => hne e.symm
  generalize hs' : (setTh (setTh s t fun T => { T with vc := tick t T.vc }) u fun U =>
        { U with borrow := true, vc := U.vc.join (tick t (s.th t).vc), dataSeen := U.dataSeen || (s.th t).dataSeen }) = s' at hb
  have htt : s'.th t = { s.th t with vc := tick t (s.th t).vc } := by rw [← hs']; simp [setTh, hne]
  have htu : s'.th u = { s.th u with borrow := true, vc := (s.th u).vc.join (tick t (s.th t).vc),
                                      dataSeen := (s.th u).dataSeen || (s.th t).dataSeen } := by
    rw [← hs']; simp [setTh, hne']
  have hto : ∀ w, w ≠ t → w ≠ u → s'.th w = s.th w := by
    intro w h1 h2; rw [← hs']; simp [setTh, h1, h2]
  have hroot : s'.rootLive = s.rootLive := by rw [← hs']; rfl
  have howner : s'.owner = s.owner := by rw [← hs']; rfl
  have hhd : ∀ w, (s'.th w).handles = (s.th w).handles := by
    intro w; by_cases e1 : w = t
    · subst e1; rw [htt]
    · by_cases e2 : w = u
      · subst e2; rw [htu]
      · rw [hto w e1 e2]
  have hsn : ∀ w, (s'.th w).seen = (s.th w).seen := by
    intro w; by_cases e1 : w = t
    · subst e1; rw [htt]
    · by_cases e2 : w = u
      · subst e2; rw [htu]
      · rw [hto w e1 e2]
  have hcan : ∀ w, canUseRoot s w → canUseRoot s' w := by
    intro w hc
    unfold canUseRoot at hc ⊢
    rw [hroot, howner]
    refine ⟨hc.1, ?_⟩
    rcases hc.2 with hc | hc
    · exact Or.inl hc
    · right
      by_cases e1 : w = t
      · subst e1; rw [htt]; exact hc
      · by_cases e2 : w = u
        · subst e2; rw [htu]
        · rw [hto w e1 e2]; exact hc
  have hhol : ∀ w, Holder s w → Holder s' w := by
    intro w hw
    rcases hw with hw | hw
    · exact Or.inl (by rw [hhd]; exact hw)
    · exact Or.inr (hcan w hw)
  refine inv_edge h hb ht hu hne (by rw [← hs']; rfl) (by rw [← hs']; rfl) (by rw [← hs']; rfl) (by rw [← hs']; rfl)
    (by rw [← hs']; rfl) (by rw [← hs']; rfl) (by rw [← hs']; rfl) (by rw [← hs']; rfl) (by rw [← hs']; rfl)
    (by rw [← hs']; rfl) (by rw [← hs']; rfl) (by rw [hroot]; exact id) ?_ hto ?_ hp (by rw [htt]) (by rw [htu])
    (by rw [htt]) (by rw [htu]) (by rw [htt]) ?_ (by rw [hhd]; exact Nat.le_refl _) ?_ ?_ ?_ ?_ ?_
  · have : total s' n = total s n := sumTo_congr (fun w _ => hhd w)
    rw [this]; unfold rootCnt; rw [hroot]
  · intro w; by_cases e1 : w = t
    · subst e1; rw [htt]
    · by_cases e2 : w = u
      · subst e2; rw [htu]
      · rw [hto w e1 e2]
  · rw [hsn]; exact ⟨Nat.le_refl _, Nat.le_max_left _ _⟩
  · rw [hhd]; exact ⟨Nat.le_refl _, fun hx => Or.inl hx⟩
  · intro hvc _ v hv hhv; exact ⟨v, hv, hhol v hhv, hvc v⟩
  · intro hvc hvtu v hv hhv
    rcases hhv with hhv | hhv
    · exact ⟨v, hv, Or.inl (by rw [← hhd]; exact hhv), hvc v⟩
    · by_cases e2 : v = u
      · subst e2; exact ⟨t, ht, Or.inr ⟨hr, Or.inl ho⟩, hvtu⟩
      · refine ⟨v, hv, Or.inr ?_, hvc v⟩
        unfold canUseRoot at hhv ⊢
        rw [hroot, howner] at hhv
        refine ⟨hhv.1, ?_⟩
        rcases hhv.2 with hc | hc
        · exact Or.inl hc
        · right
          by_cases e1 : v = t
          · subst e1; rw [htt] at hc; exact hc
          · rw [hto v e1 e2] at hc; exact hc
  · intro v hv hhv; left; exact ⟨v, hv, by rw [← hhd]; exact hhv, by rw [hsn]; exact Nat.le_refl _⟩
  · intro _ v hv hc; exact ⟨v, hv, hcan v hc, by rw [hsn]; exact Nat.le_refl _⟩

theorem inv_unlend {n s u} (h : Inv n s) (hu : u < n) (hbu : (s.th u).borrow = true) (hp : (s.th u).pc = .idle)
    (hb : Basic n (setTh (setTh s u fun U => { U with borrow := false, vc := tick u U.vc }) s.owner fun T =>
        { T with vc := T.vc.join (tick u (s.th u).vc), dataSeen := T.dataSeen || (s.th u).dataSeen,
                 seen := max T.seen (s.th u).seen })) :
    Inv n (setTh (setTh s u fun U => { U with borrow := false, vc := tick u U.vc }) s.owner fun T =>
        { T with vc := T.vc.join (tick u (s.th u).vc), dataSeen := T.dataSeen || (s.th u).dataSeen,
                 seen := max T.seen (s.th u).seen }) := by
  obtain ⟨hr, hne⟩ := h.basic.borrow_ok u hu hbu
  have hne' : s.owner ≠ u := fun e => hne e.symm
  have hol := h.basic.owner_lt
  generalize hs' : (setTh (setTh s u fun U => { U with borrow := false, vc := tick u U.vc }) s.owner fun T =>
        { T with vc := T.vc.join (tick u (s.th u).vc), dataSeen := T.dataSeen || (s.th u).dataSeen,
                 seen := max T.seen (s.th u).seen }) = s' at hb
  generalize hoo : s.owner = o at *
  have htt : s'.th u = { s.th u with borrow := false, vc := tick u (s.th u).vc } := by
    rw [← hs']; simp [setTh, hne]
  have htu : s'.th o = { s.th o with vc := (s.th o).vc.join (tick u (s.th u).vc),
                                      dataSeen := (s.th o).dataSeen || (s.th u).dataSeen,
                                      seen := max (s.th o).seen (s.th u).seen } := by
    rw [← hs']; simp [setTh, hne']
  have hto : ∀ w, w ≠ u → w ≠ o → s'.th w = s.th w := by
    intro w h1 h2; rw [← hs']; simp [setTh, h1, h2]
  have hroot : s'.rootLive = s.rootLive := by rw [← hs']; rfl
  have howner : s'.owner = o := by rw [← hs']; exact hoo
  have hhd : ∀ w, (s'.th w).handles = (s.th w).handles := by
    intro w; by_cases e1 : w = u
    · subst e1; rw [htt]
    · by_cases e2 : w = o
      · subst e2; rw [htu]
      · rw [hto w e1 e2]
  have hsn : ∀ w, (s.th w).seen ≤ (s'.th w).seen := by
    intro w; by_cases e1 : w = u
    · subst e1; rw [htt]; exact Nat.le_refl _
    · by_cases e2 : w = o
      · subst e2; rw [htu]; exact Nat.le_max_left _ _
      · rw [hto w e1 e2]; exact Nat.le_refl _
  have hcan : ∀ w, w ≠ u → (canUseRoot s' w ↔ canUseRoot s w) := by
    intro w e1
    unfold canUseRoot
    rw [hroot, howner, hoo]
    by_cases e2 : w = o
    · subst e2; rw [htu]
    · rw [hto w e1 e2]
  have hcanu : ¬ canUseRoot s' u := by
    intro hc
    unfold canUseRoot at hc
    rw [howner, htt] at hc
    rcases hc.2 with hc | hc
    · exact hne' hc
    · cases hc
  have hcano : canUseRoot s' o := ⟨by rw [hroot]; exact hr, Or.inl howner⟩
  refine inv_edge h hb hu hol hne (by rw [← hs']; rfl) (by rw [← hs']; rfl) (by rw [← hs']; rfl) (by rw [← hs']; rfl)
    (by rw [← hs']; rfl) (by rw [← hs']; rfl) (by rw [← hs']; rfl) (by rw [← hs']; rfl) (by rw [← hs']; rfl)
    (by rw [← hs']; rfl) (by rw [← hs']; rfl) (by rw [hroot]; exact id) ?_ hto ?_ hp (by rw [htt]) (by rw [htu])
    (by rw [htt]) (by rw [htu]) (by rw [htt]) ?_ (by rw [hhd]; exact Nat.le_refl _) ?_ ?_ ?_ ?_ ?_
  · have : total s' n = total s n := sumTo_congr (fun w _ => hhd w)
    rw [this]; unfold rootCnt; rw [hroot]
  · intro w; by_cases e1 : w = u
    · subst e1; rw [htt]
    · by_cases e2 : w = o
      · subst e2; rw [htu]
      · rw [hto w e1 e2]
  · rw [htu]; exact ⟨Nat.le_max_left _ _, Nat.le_refl _⟩
  · rw [hhd]; exact ⟨Nat.le_refl _, fun hx => Or.inl hx⟩
  · intro hvc hvtu v hv hhv
    by_cases e1 : v = u
    · subst e1
      by_cases hh0 : 0 < (s.th v).handles
      · exact ⟨v, hv, Or.inl (by rw [hhd]; exact hh0), hvc v⟩
      · exact ⟨o, hol, Or.inr hcano, hvtu⟩
    · refine ⟨v, hv, ?_, hvc v⟩
      rcases hhv with hhv | hhv
      · exact Or.inl (by rw [hhd]; exact hhv)
      · exact Or.inr ((hcan v e1).2 hhv)
  · intro hvc _ v hv hhv
    refine ⟨v, hv, ?_, hvc v⟩
    rcases hhv with hhv | hhv
    · exact Or.inl (by rw [← hhd]; exact hhv)
    · have e1 : v ≠ u := fun e => hcanu (e ▸ hhv)
      exact Or.inr ((hcan v e1).1 hhv)
  · intro v hv hhv; left; exact ⟨v, hv, by rw [← hhd]; exact hhv, hsn v⟩
  · intro _ v hv hc
    by_cases e1 : v = u
    · subst e1; exact ⟨o, hol, hcano, by rw [htu]; exact Nat.le_max_right _ _⟩
    · exact ⟨v, hv, (hcan v e1).2 hc, hsn v⟩

theorem inv_sendRoot {n s t u} (h : Inv n s) (ht : t < n) (hu : u < n) (hne : t ≠ u) (hr : s.rootLive = true)
    (ho : s.owner = t) (hp : (s.th t).pc = .idle) (hnb : noBorrows s n)
    (hb : Basic n ({ (setTh (setTh s t fun T => { T with vc := tick t T.vc }) u fun U =>
        { U with vc := U.vc.join (tick t (s.th t).vc), dataSeen := U.dataSeen || (s.th t).dataSeen,
                 seen := max U.seen (s.th t).seen }) with owner := u })) :
    Inv n ({ (setTh (setTh s t fun T => { T with vc := tick t T.vc }) u fun U =>
        { U with vc := U.vc.join (tick t (s.th t).vc), dataSeen := U.dataSeen || (s.th t).dataSeen,
                 seen := max U.seen (s.th t).seen }) with owner := u }) := by
  have hne' : u ≠ t := fun e => hne e.symm
  generalize hs' : ({ (setTh (setTh s t fun T => { T with vc := tick t T.vc }) u fun U =>
        { U with vc := U.vc.join (tick t (s.th t).vc), dataSeen := U.dataSeen || (s.th t).dataSeen,
                 seen := max U.seen (s.th t).seen }) with owner := u } : St) = s' at hb
  have htt : s'.th t = { s.th t with vc := tick t (s.th t).vc } := by rw [← hs']; simp [setTh, hne]
  have htu : s'.th u = { s.th u with vc := (s.th u).vc.join (tick t (s.th t).vc),
                                      dataSeen := (s.th u).dataSeen || (s.th t).dataSeen,
                                      seen := max (s.th u).seen (s.th t).seen } := by
    rw [← hs']; simp [setTh, hne']
  have hto : ∀ w, w ≠ t → w ≠ u → s'.th w = s.th w := by
    intro w h1 h2; rw [← hs']; simp [setTh, h1, h2]
  have hroot : s'.rootLive = s.rootLive := by rw [← hs']; rfl
  have howner : s'.owner = u := by rw [← hs']
  have hhd : ∀ w, (s'.th w).handles = (s.th w).handles := by
    intro w; by_cases e1 : w = t
    · subst e1; rw [htt]
    · by_cases e2 : w = u
      · subst e2; rw [htu]
      · rw [hto w e1 e2]
  have hbr : ∀ w, (s'.th w).borrow = (s.th w).borrow := by
    intro w; by_cases e1 : w = t
    · subst e1; rw [htt]
    · by_cases e2 : w = u
      · subst e2; rw [htu]
      · rw [hto w e1 e2]
  have hsn : ∀ w, (s.th w).seen ≤ (s'.th w).seen := by
    intro w; by_cases e1 : w = t
    · subst e1; rw [htt]; exact Nat.le_refl _
    · by_cases e2 : w = u
      · subst e2; rw [htu]; exact Nat.le_max_left _ _
      · rw [hto w e1 e2]; exact Nat.le_refl _
  have hcan : ∀ w, w < n → canUseRoot s w → w = t := by
    intro w hw hc
    rcases hc.2 with hc | hc
    · rw [← hc, ho]
    · rw [hnb w hw] at hc; cases hc
  have hcan' : ∀ w, w < n → canUseRoot s' w → w = u := by
    intro w hw hc
    rcases hc.2 with hc | hc
    · rw [← hc, howner]
    · rw [hbr, hnb w hw] at hc; cases hc
  have hcanu : canUseRoot s' u := ⟨by rw [hroot]; exact hr, Or.inl howner⟩
  refine inv_edge h hb ht hu hne (by rw [← hs']; rfl) (by rw [← hs']; rfl) (by rw [← hs']; rfl) (by rw [← hs']; rfl)
    (by rw [← hs']; rfl) (by rw [← hs']; rfl) (by rw [← hs']; rfl) (by rw [← hs']; rfl) (by rw [← hs']; rfl)
    (by rw [← hs']; rfl) (by rw [← hs']; rfl) (by rw [hroot]; exact id) ?_ hto ?_ hp (by rw [htt]) (by rw [htu])
    (by rw [htt]) (by rw [htu]) (by rw [htt]) ?_ (by rw [hhd]; exact Nat.le_refl _) ?_ ?_ ?_ ?_ ?_
  · have : total s' n = total s n := sumTo_congr (fun w _ => hhd w)
    rw [this]; unfold rootCnt; rw [hroot]
  · intro w; by_cases e1 : w = t
    · subst e1; rw [htt]
    · by_cases e2 : w = u
      · subst e2; rw [htu]
      · rw [hto w e1 e2]
  · rw [htu]; exact ⟨Nat.le_max_left _ _, Nat.le_refl _⟩
  · rw [hhd]; exact ⟨Nat.le_refl _, fun hx => Or.inl hx⟩
  · intro hvc hvtu v hv hhv
    rcases hhv with hhv | hhv
    · exact ⟨v, hv, Or.inl (by rw [hhd]; exact hhv), hvc v⟩
    · have := hcan v hv hhv; subst this
      exact ⟨u, hu, Or.inr hcanu, hvtu⟩
  · intro hvc hvtu v hv hhv
    rcases hhv with hhv | hhv
    · exact ⟨v, hv, Or.inl (by rw [← hhd]; exact hhv), hvc v⟩
    · have := hcan' v hv hhv; subst this
      exact ⟨t, ht, Or.inr ⟨hr, Or.inl ho⟩, hvtu⟩
  · intro v hv hhv; left; exact ⟨v, hv, by rw [← hhd]; exact hhv, hsn v⟩
  · intro _ v hv hc
    have := hcan v hv hc; subst this
    exact ⟨u, hu, hcanu, by rw [htu]; exact Nat.le_max_right _ _⟩

theorem inv_send {n s t u} (h : Inv n s) (ht : t < n) (hu : u < n) (hne : t ≠ u)
    (hh : 0 < (s.th t).handles) (hp : (s.th t).pc = .idle)
    (hb : Basic n (setTh (setTh s t fun T => { T with handles := T.handles - 1, vc := tick t T.vc }) u
                    fun U => { U with handles := U.handles + 1, vc := U.vc.join (tick t (s.th t).vc),
                                      seen := max U.seen (s.th t).seen, dataSeen := U.dataSeen || (s.th t).dataSeen })) :
    Inv n (setTh (setTh s t fun T => { T with handles := T.handles - 1, vc := tick t T.vc }) u
                    fun U => { U with handles := U.handles + 1, vc := U.vc.join (tick t (s.th t).vc),
                                      seen := max U.seen (s.th t).seen, dataSeen := U.dataSeen || (s.th t).dataSeen }) := by
  have hne' : u ≠ t := fun e => hne e.symm
  generalize hs' : (setTh (setTh s t fun T => { T with handles := T.handles - 1, vc := tick t T.vc }) u
                    fun U => { U with handles := U.handles + 1, vc := U.vc.join (tick t (s.th t).vc),
                                      seen := max U.seen (s.th t).seen, dataSeen := U.dataSeen || (s.th t).dataSeen }) = s' at hb
  have htt : s'.th t = { s.th t with handles := (s.th t).handles - 1, vc := tick t (s.th t).vc } := by
    rw [← hs']; simp [setTh, hne]
  have htu : s'.th u = { s.th u with handles := (s.th u).handles + 1, vc := (s.th u).vc.join (tick t (s.th t).vc),
                                      dataSeen := (s.th u).dataSeen || (s.th t).dataSeen,
                                      seen := max (s.th u).seen (s.th t).seen } := by
    rw [← hs']; simp [setTh, hne']
  have hto : ∀ w, w ≠ t → w ≠ u → s'.th w = s.th w := by
    intro w h1 h2; rw [← hs']; simp [setTh, h1, h2]
  have hroot : s'.rootLive = s.rootLive := by rw [← hs']; rfl
  have howner : s'.owner = s.owner := by rw [← hs']; rfl
  have hbr : ∀ w, (s'.th w).borrow = (s.th w).borrow := by
    intro w; by_cases e1 : w = t
    · subst e1; rw [htt]
    · by_cases e2 : w = u
      · subst e2; rw [htu]
      · rw [hto w e1 e2]
  have hsn : ∀ w, (s.th w).seen ≤ (s'.th w).seen := by
    intro w; by_cases e1 : w = t
    · subst e1; rw [htt]; exact Nat.le_refl _
    · by_cases e2 : w = u
      · subst e2; rw [htu]; exact Nat.le_max_left _ _
      · rw [hto w e1 e2]; exact Nat.le_refl _
  have hcan : ∀ w, canUseRoot s' w ↔ canUseRoot s w := by
    intro w; unfold canUseRoot; rw [hroot, howner, hbr]
  have hhu' : 0 < (s'.th u).handles := by rw [htu]; simp
  have hhge : ∀ w, w ≠ t → (s.th w).handles ≤ (s'.th w).handles := by
    intro w e1; by_cases e2 : w = u
    · subst e2; rw [htu]; simp
    · rw [hto w e1 e2]; exact Nat.le_refl _
  refine inv_edge h hb ht hu hne (by rw [← hs']; rfl) (by rw [← hs']; rfl) (by rw [← hs']; rfl) (by rw [← hs']; rfl)
    (by rw [← hs']; rfl) (by rw [← hs']; rfl) (by rw [← hs']; rfl) (by rw [← hs']; rfl) (by rw [← hs']; rfl)
    (by rw [← hs']; rfl) (by rw [← hs']; rfl) (by rw [hroot]; exact id) ?_ hto ?_ hp (by rw [htt]) (by rw [htu])
    (by rw [htt]) (by rw [htu]) (by rw [htt]) ?_ (by rw [htt]; simp) ?_ ?_ ?_ ?_ ?_
  · have := sumTo_update2 (fun w => (s.th w).handles) (fun w => (s'.th w).handles) ht hu hne
      (fun w _ h1 h2 => by rw [hto w h1 h2])
    have h1 : (s'.th t).handles = (s.th t).handles - 1 := by rw [htt]
    have h2 : (s'.th u).handles = (s.th u).handles + 1 := by rw [htu]
    rw [h1, h2] at this
    have hrc : rootCnt s' = rootCnt s := by unfold rootCnt; rw [hroot]
    rw [hrc]; unfold total; omega
  · intro w; by_cases e1 : w = t
    · subst e1; rw [htt]
    · by_cases e2 : w = u
      · subst e2; rw [htu]
      · rw [hto w e1 e2]
  · rw [htu]; exact ⟨Nat.le_max_left _ _, Nat.le_refl _⟩
  · rw [htu]; exact ⟨by simp, fun _ => Or.inr hh⟩
  · intro hvc hvtu v hv hhv
    by_cases e1 : v = t
    · subst e1; exact ⟨u, hu, Or.inl hhu', hvtu⟩
    · refine ⟨v, hv, ?_, hvc v⟩
      rcases hhv with hhv | hhv
      · exact Or.inl (Nat.lt_of_lt_of_le hhv (hhge v e1))
      · exact Or.inr ((hcan v).2 hhv)
  · intro hvc hvtu v hv hhv
    rcases hhv with hhv | hhv
    · by_cases e1 : v = t
      · subst e1; exact ⟨v, hv, Or.inl hh, hvc v⟩
      · by_cases e2 : v = u
        · subst e2; exact ⟨t, ht, Or.inl hh, hvtu⟩
        · rw [hto v e1 e2] at hhv; exact ⟨v, hv, Or.inl hhv, hvc v⟩
    · exact ⟨v, hv, Or.inr ((hcan v).1 hhv), hvc v⟩
  · intro v hv hhv; left
    by_cases e1 : v = t
    · subst e1; exact ⟨v, hv, hh, hsn v⟩
    · by_cases e2 : v = u
      · subst e2; exact ⟨t, ht, hh, by rw [htu]; exact Nat.le_max_right _ _⟩
      · rw [hto v e1 e2] at hhv; exact ⟨v, hv, hhv, hsn v⟩
  · intro _ v hv hc; exact ⟨v, hv, (hcan v).2 hc, hsn v⟩

theorem inv_relabel {n s t} (h : Inv n s) (ht : t < n) (hr : s.rootLive = true) (ho : s.owner = t)
    (hp : (s.th t).pc = .idle) (hnb : noBorrows s n) (hds : (s.th t).dataSeen = true)
    (hb : Basic n (setTh { s with rootLive := false } t fun T => { T with handles := T.handles + 1 })) :
    Inv n (setTh { s with rootLive := false } t fun T => { T with handles := T.handles + 1 }) := by
  generalize hs' : (setTh { s with rootLive := false } t fun T => { T with handles := T.handles + 1 }) = s' at hb
  have htt : s'.th t = { s.th t with handles := (s.th t).handles + 1 } := by rw [← hs']; simp [setTh]
  have hto : ∀ w, w ≠ t → s'.th w = s.th w := by
    intro w h1; rw [← hs']; simp [setTh, h1]
  have hroot : s'.rootLive = false := by rw [← hs']; rfl
  have hcan : ∀ w, w < n → canUseRoot s w → w = t := by
    intro w hw hc
    rcases hc.2 with hc | hc
    · rw [← hc, ho]
    · rw [hnb w hw] at hc; cases hc
  have hcan' : ∀ w, ¬ canUseRoot s' w := by
    intro w hc; have := hc.1; rw [hroot] at this; cases this
  have hvc : ∀ v x, (s.th v).vc x ≤ (s'.th v).vc x := by
    intro v x; by_cases e : v = t
    · subst e; rw [htt]; exact Nat.le_refl _
    · rw [hto v e]; exact Nat.le_refl _
  have hsn : ∀ v, (s'.th v).seen = (s.th v).seen := by
    intro v; by_cases e : v = t
    · subst e; rw [htt]
    · rw [hto v e]
  have hhge : ∀ w, (s.th w).handles ≤ (s'.th w).handles := by
    intro w; by_cases e : w = t
    · subst e; rw [htt]; simp
    · rw [hto w e]; exact Nat.le_refl _
  have hht : 0 < (s'.th t).handles := by rw [htt]; simp
  refine inv_frame h hb (by rw [← hs']; rfl) (by rw [← hs']; rfl) (by rw [← hs']; rfl) (lw_same (by rw [← hs']; rfl))
    (fun u _ => Or.inl (by rw [← hs']; rfl)) (by rw [← hs']; rfl) (by rw [← hs']; rfl)
    (by rw [← hs']; exact h.safe) (fun hx => by rw [hroot] at hx; cases hx) ?_ hvc ?_ ?_ ?_ ?_ ?_ ?_ ?_ ?_
    (fun hx => by rw [hroot] at hx; cases hx)
  · have := sumTo_update (fun w => (s.th w).handles) (fun w => (s'.th w).handles) ht
      (fun w _ h1 => by rw [hto w h1])
    have h1 : (s'.th t).handles = (s.th t).handles + 1 := by rw [htt]
    rw [h1] at this
    rw [rootCnt_of_live hr, rootCnt_of_dead hroot]; unfold total; omega
  · intro v hv; rw [hsn]; exact ⟨Nat.le_refl _, h.seen_le v hv⟩
  · intro v _; left; by_cases e : v = t
    · subst e; rw [htt]
    · rw [hto v e]
  · intro v hv hx; by_cases e : v = t
    · subst e; rw [htt]; exact hds
    · rw [hto v e] at hx ⊢; exact h.hs_seen v hv hx
  · intro v hv hd; by_cases e : v = t
    · subst e; rw [htt] at hd ⊢; exact h.ctrlOrd v hv hd
    · rw [hto v e] at hd ⊢; exact h.ctrlOrd v hv hd
  · intro v hv hpv; by_cases e : v = t
    · subst e; rw [htt] at hpv; simp only at hpv; rw [hp] at hpv; cases hpv
    · rw [hto v e] at hpv ⊢; exact h.failed_h v hv hpv
  · intro v hv hhv
    rcases hhv with hhv | hhv
    · exact ⟨v, hv, Or.inl (Nat.lt_of_lt_of_le hhv (hhge v)), hvc v⟩
    · have := hcan v hv hhv; subst this
      exact ⟨v, hv, Or.inl hht, hvc v⟩
  · intro v hv hhv
    rcases hhv with hhv | hhv
    · by_cases e : v = t
      · subst e; exact ⟨v, hv, Or.inr ⟨hr, Or.inl ho⟩, hvc v⟩
      · rw [hto v e] at hhv; exact ⟨v, hv, Or.inl hhv, hvc v⟩
    · exact absurd hhv (hcan' v)
  · intro v hv hhv
    by_cases e : v = t
    · subst e; right
      refine ⟨hr, fun w hw hc => ?_⟩
      have := hcan w hw hc; subst this
      rw [hsn]; exact Nat.le_refl _
    · left; rw [hto v e] at hhv; exact ⟨v, hv, hhv, by rw [hsn]; exact Nat.le_refl _⟩

theorem basic_read {n s t} (h : Basic n s) (ht : t < n) : Basic n (doRead s t) := by
  refine basic_local1 t ht h rfl rfl rfl rfl (fun v e => by simp [doRead, e]) ?_ ?_ ?_
  · simp [doRead]
  · left; simp [doRead]
  · simp [doRead]; intro hx; exact Or.inl hx

/-- a read of buffer memory through a handle or through the root -/
theorem inv_read {n s t} (h : Inv n s) (ht : t < n) (hh : Holder s t) : Inv n (doRead s t) := by
  have ha := h.alive ht hh
  have hhol : Holder (doRead s t) t := by
    rcases hh with hh | hh
    · left; simp [doRead]; exact hh
    · right; unfold canUseRoot at hh ⊢; simpa [doRead] using hh
  obtain ⟨hr, hc, hu, hd⟩ := h.safe
  refine inv_frame1 t ht h (basic_read h.basic ht) rfl rfl rfl (lw_same rfl) ?_ rfl rfl ?_ rfl rfl
    (fun v e => by simp [doRead, e]) (by simp [doRead]) (by simp [doRead]) ?_
    (by simp [doRead]; exact h.seen_le t ht) (Or.inl (by simp [doRead])) ?_ ?_ ?_
  · intro u hu
    by_cases e : u = t
    · subst e; right; exact ⟨u, hu, hhol, by simp [doRead]⟩
    · left; simp [doRead, e]
  · refine ⟨?_, hc, ?_, hd⟩
    · show (s.race || _) = false
      rw [hr]
      cases hl : s.lastWrite with
      | none => simp
      | some p =>
        obtain ⟨w, e⟩ := p
        have := h.covW t ht hh w e hl
        simp; intro _; exact this
    · show (s.uaf || s.freed) = false
      rw [hu, ha.freed]; rfl
  · intro u; simp [doRead]; exact le_tick _ _ _
  · intro hx; simp [doRead] at hx ⊢; exact h.hs_seen t ht hx
  · intro hx w e hi; simp [doRead] at hx ⊢
    exact Nat.le_trans (h.ctrlOrd t ht hx w e hi) (le_tick _ _ _)
  · intro hx; simp [doRead] at hx ⊢; exact h.failed_h t ht hx

/-- the effect of a load on the loading thread -/
def ldf (od : Ord) (m : Msg) (k : Nat) : Thread → Thread :=
  fun T => { T with vc := if od.isAcq then T.vc.join m.view else T.vc, seen := k }

theorem load_spec' {n s t od k s' v} (h : Inv n s) (ht : t < n) (hd : (s.th t).dataSeen = true)
    (hx : Holder s t ∨ Dying (s.th t).pc) (hl : load s t od k = some (s', v)) :
    ∃ m, (s.th t).seen ≤ k ∧ s.mo[k]? = some m ∧ v = m.val ∧ s' = setTh s t (ldf od m k) := by
  obtain ⟨m, hk, hm, hv, he⟩ := load_spec hl
  rw [h.touch_eq ht hd hx] at he
  exact ⟨m, hk, hm, hv, he⟩

theorem basic_loaded {n s t} (od : Ord) (m : Msg) (k : Nat) (h : Basic n s) (ht : t < n) :
    Basic n (setTh s t (ldf od m k)) := by
  refine basic_local1 t ht h rfl rfl rfl rfl (fun v e => by simp [setTh, e]) ?_ ?_ ?_
  · simp [setTh, ldf]
  · left; simp [setTh, ldf]
  · simp [setTh, ldf]; intro hx; exact Or.inl hx

theorem inv_loaded {n s t} (od : Ord) (m : Msg) (k : Nat) (h : Inv n s) (ht : t < n)
    (hk : (s.th t).seen ≤ k) (hm : s.mo[k]? = some m) : Inv n (setTh s t (ldf od m k)) := by
  have hklen : k < s.mo.length := (List.getElem?_eq_some_iff.mp hm).1
  refine inv_frame1 t ht h (basic_loaded od m k h.basic ht) rfl rfl rfl (lw_same rfl) (fun _ _ => Or.inl rfl) rfl rfl h.safe rfl rfl
    (fun v e => by simp [setTh, e]) (by simp [setTh, ldf]) (by simp [setTh, ldf]) ?_
    (by simp [setTh, ldf]; omega) (Or.inl (by simp [setTh, ldf])) ?_ ?_ ?_
  · intro u; simp only [setTh_th, if_true, ldf]; split
    · exact le_join_left _ _ _
    · exact Nat.le_refl _
  · intro hx; simp [setTh, ldf] at hx ⊢; exact h.hs_seen t ht hx
  · intro hx w e hi; simp only [setTh_th, if_true, ldf] at hx ⊢
    refine Nat.le_trans (h.ctrlOrd t ht hx w e hi) ?_
    split
    · exact le_join_left _ _ _
    · exact Nat.le_refl _
  · intro hx; simp [setTh, ldf] at hx ⊢; exact h.failed_h t ht hx

/-! ### RMWs on the counter -/

theorem le_rmwVc (s : St) (t : Nat) (od : Ord) (u : Nat) : (s.th t).vc u ≤ rmwVc s t od u := by
  unfold rmwVc
  split
  · exact Nat.le_trans (le_join_left _ _ _) (le_tick _ _ _)
  · exact le_tick _ _ _

theorem view_le_rmwVc (s : St) (t : Nat) (od : Ord) (ha : od.isAcq = true) (u : Nat) :
    (latest s).view u ≤ rmwVc s t od u := by
  unfold rmwVc
  rw [if_pos ha]
  exact Nat.le_trans (le_join_right _ _ _) (le_tick _ _ _)

theorem le_rmwView (s : St) (t : Nat) (od : Ord) (u : Nat) : (latest s).view u ≤ rmwView s t od u := by
  unfold rmwView
  split
  · exact le_join_left _ _ _
  · exact Nat.le_refl _

theorem rmwVc_le_rmwView (s : St) (t : Nat) (od : Ord) (hr : od.isRel = true) (u : Nat) :
    rmwVc s t od u ≤ rmwView s t od u := by
  unfold rmwView
  rw [if_pos hr]
  exact le_join_right _ _ _

/-- the state after an RMW by a thread that touches the control block safely -/
def rmwSt (s : St) (t : Nat) (od : Ord) (f : Nat → Nat) : St :=
  { s with mo := s.mo ++ [⟨f (latest s).val, rmwView s t od⟩],
           th := fun u => if u = t then { s.th t with vc := rmwVc s t od, seen := s.mo.length } else s.th u }

theorem rmw_eq {s : St} {t : Nat} (od : Ord) (f : Nat → Nat) (htc : touchCtrl s t = s) :
    (rmw s t od f).1 = rmwSt s t od f := by
  unfold rmw
  simp only
  rw [htc]
  rfl

theorem Inv.two_le {n s t u} (h : Inv n s) (ht : t < n) (hu : u < n) (hne : u ≠ t) (hd : s.data ≠ none)
    (hh : Holder s t) (hh' : 0 < (s.th u).handles) : 2 ≤ (latest s).val := by
  rw [h.count hd]
  rcases hh with hh | hh
  · have := sumTo_two (fun u => (s.th u).handles) ht hu hne
    unfold total; omega
  · have := le_sumTo (fun u => (s.th u).handles) hu
    rw [rootCnt_of_live hh.1]; unfold total; omega

/-- when the counter is 1 and `t` holds the handle, the root is gone and every other thread is idle and has no handle -/
theorem Inv.sole {n s t} (h : Inv n s) (ht : t < n) (hh : 0 < (s.th t).handles) (h1 : (latest s).val = 1) :
    s.rootLive = false ∧ (s.th t).handles = 1 ∧
      ∀ u, u < n → u ≠ t → (s.th u).handles = 0 ∧ (s.th u).pc = .idle ∧ (s.th u).borrow = false := by
  have hd := h.promoted ht (Or.inl hh)
  have ha := h.alive ht (Or.inl hh)
  have hc := h.count hd
  have hle := le_sumTo (fun u => (s.th u).handles) ht
  have hrl : s.rootLive = false := by
    cases hr : s.rootLive with
    | false => rfl
    | true => rw [rootCnt_of_live hr] at hc; unfold total at hc; omega
  rw [rootCnt_of_dead hrl] at hc
  unfold total at hc
  refine ⟨hrl, by omega, fun u hu hne => ?_⟩
  have h2 := sumTo_two (fun u => (s.th u).handles) ht hu hne
  have hu0 : (s.th u).handles = 0 := by omega
  have hbu : (s.th u).borrow = false := by
    cases hb : (s.th u).borrow with
    | false => rfl
    | true => have := (h.basic.borrow_ok u hu hb).1; rw [hrl] at this; cases this
  refine ⟨hu0, ?_, hbu⟩
  cases hp : (s.th u).pc with
  | idle => rfl
  | sawVec => have := (h.basic.pc_root u hu (Or.inl hp)).1; rw [hrl] at this; cases this
  | sawArc => have := (h.basic.pc_root u hu (Or.inr hp)).1; rw [hrl] at this; cases this
  | dropped => exact absurd (Or.inl hp) (ha.notDying u hu)
  | loadedFree => exact absurd (Or.inr hp) (ha.notDying u hu)
  | failedToVec => have := h.failed_h u hu hp; omega

/-- clone, `fetch_add` through the root, and both forms of the decrement: an RMW by a protected thread, then an
update of its handle count and pc -/
theorem inv_rmwSt {n s t} (od : Ord) (f : Nat → Nat) (hnew : Nat) (pnew : Pc)
    (h : Inv n s) (ht : t < n) (hh : Holder s t) (hds : (s.th t).dataSeen = true)
    (hb : Basic n (setTh (rmwSt s t od f) t fun T => { T with handles := hnew, pc := pnew }))
    (hcount : f (latest s).val + (s.th t).handles = (latest s).val + hnew)
    (hrel : hnew = 0 → od.isRel = true)
    (hpn : pnew = .idle ∨ (pnew = .dropped ∧ (latest s).val = 1 ∧ f (latest s).val = 0)) :
    Inv n (setTh (rmwSt s t od f) t fun T => { T with handles := hnew, pc := pnew }) := by
  have ha := h.alive ht hh
  have hd := h.basic.seen_data t ht hds
  have hlive := h.live ht hh
  generalize hs' : (setTh (rmwSt s t od f) t fun T => { T with handles := hnew, pc := pnew }) = s' at hb
  have hmo : s'.mo = s.mo ++ [⟨f (latest s).val, rmwView s t od⟩] := by rw [← hs']; rfl
  have hlat : latest s' = ⟨f (latest s).val, rmwView s t od⟩ := by
    rw [latest_eq, hmo, lastOf_append]
  have htt : s'.th t = { s.th t with vc := rmwVc s t od, seen := s.mo.length, handles := hnew, pc := pnew } := by
    rw [← hs']; simp [setTh, rmwSt]
  have hto : ∀ u, u ≠ t → s'.th u = s.th u := by
    intro u hu; rw [← hs']; simp [setTh, rmwSt, hu]
  have hdata : s'.data = s.data := by rw [← hs']; rfl
  have hci : s'.ctrlInit = s.ctrlInit := by rw [← hs']; rfl
  have hroot : s'.rootLive = s.rootLive := by rw [← hs']; rfl
  have howner : s'.owner = s.owner := by rw [← hs']; rfl
  have hlw : s'.lastWrite = s.lastWrite := by rw [← hs']; rfl
  have hre : s'.readEpoch = s.readEpoch := by rw [← hs']; rfl
  have hfreed : s'.freed = s.freed := by rw [← hs']; rfl
  have hctrl : s'.ctrlFreed = s.ctrlFreed := by rw [← hs']; rfl
  have hrace : s'.race = s.race := by rw [← hs']; rfl
  have hcr : s'.ctrlRace = s.ctrlRace := by rw [← hs']; rfl
  have huaf : s'.uaf = s.uaf := by rw [← hs']; rfl
  have hdf : s'.doubleFree = s.doubleFree := by rw [← hs']; rfl
  have hvc : ∀ v u, (s.th v).vc u ≤ (s'.th v).vc u := by
    intro v u; by_cases e : v = t
    · subst e; rw [htt]; exact le_rmwVc _ _ _ _
    · rw [hto v e]; exact Nat.le_refl _
  have hcan : ∀ v, canUseRoot s' v ↔ canUseRoot s v := by
    intro v; unfold canUseRoot; rw [hroot, howner]
    by_cases e : v = t
    · subst e; rw [htt]
    · rw [hto v e]
  have hholo : ∀ v, v ≠ t → (Holder s' v ↔ Holder s v) := by
    intro v e; unfold Holder; rw [hcan, hto v e]
  have hne : s.mo ≠ [] := h.pr hd
  have hlen : 0 < s.mo.length := List.length_pos_iff.mpr hne
  have hcnt := h.count hd
  have htot : total s' n + (s.th t).handles = total s n + hnew := by
    have := sumTo_update (fun u => (s.th u).handles) (fun u => (s'.th u).handles) ht
      (fun u _ hne => by rw [hto u hne])
    have htth : (s'.th t).handles = hnew := by rw [htt]
    rw [htth] at this
    unfold total; omega
  have hrc : rootCnt s' = rootCnt s := by unfold rootCnt; rw [hroot]
  have hcnt' : (latest s').val = rootCnt s' + total s' n := by
    rw [hlat, hrc]; show f (latest s).val = _; omega
  -- when the new value is 0 the thread released its last handle and the root is gone
  have hzero : (latest s').val = 0 → hnew = 0 ∧ ¬ canUseRoot s t := by
    intro h0
    rw [hcnt'] at h0
    have := le_sumTo (fun u => (s'.th u).handles) ht
    have htth : (s'.th t).handles = hnew := by rw [htt]
    unfold total at h0
    refine ⟨by omega, fun hc => ?_⟩
    rw [hrc, rootCnt_of_live hc.1] at h0; omega
  refine
    { basic := hb
      un := fun hd' => by rw [hdata] at hd'; exact absurd hd' hd
      pr := fun _ => by rw [hmo]; simp
      dataView := fun v hv => by rw [hdata] at hv; rw [hci]; exact h.dataView v hv
      seen_le := fun u hu => by
        rw [hmo]; simp only [List.length_append, List.length_singleton]
        by_cases e : u = t
        · subst e; rw [htt]; simp
        · rw [hto u e]; have := h.seen_le u hu; omega
      count := fun _ => hcnt'
      hs_seen := fun u hu hx => by
        by_cases e : u = t
        · subst e; rw [htt]; exact hds
        · rw [hto u e] at hx ⊢; exact h.hs_seen u hu hx
      ctrlOrd := fun u hu hdu w e hi => by
        rw [hci] at hi
        refine Nat.le_trans (h.ctrlOrd u hu ?_ w e hi) (hvc u w)
        by_cases e : u = t
        · subst e; exact hds
        · rw [hto u e] at hdu; exact hdu
      failed_h := fun u hu hp => by
        by_cases e : u = t
        · subst e; rw [htt] at hp; simp only at hp
          rcases hpn with hpn | hpn
          · rw [hpn] at hp; cases hp
          · rw [hpn.1] at hp; cases hp
        · rw [hto u e] at hp ⊢; exact h.failed_h u hu hp
      dying := fun u hu hdy => by
        by_cases e : u = t
        · subst e; rw [htt] at hdy; simp only at hdy
          rcases hpn with hpn | ⟨_, h1, h0⟩
          · rw [hpn] at hdy; rcases hdy with hdy | hdy <;> cases hdy
          · have hht : 0 < (s.th u).handles := by omega
            refine ⟨by rw [hlat]; exact h0, by rw [hfreed]; exact ha.freed, by rw [hctrl]; exact ha.ctrl, ?_⟩
            intro v hv hne
            rw [hto v hne]; exact ((h.sole hu hht h1).2.2 v hv hne).2.1
        · rw [hto u e] at hdy; exact absurd hdy (ha.notDying u hu)
      ctrl0 := fun hc => by rw [hctrl, ha.ctrl] at hc; cases hc
      freed_cases := fun hf => by rw [hfreed, ha.freed] at hf; cases hf
      safe := by rw [hrace, hcr, huaf, hdf]; exact h.safe
      noStale := fun u hu hhu k m hk hlen' hm => by
        rw [hmo] at hlen' hm
        simp only [List.length_append, List.length_singleton] at hlen'
        by_cases e : u = t
        · subst e; rw [htt] at hk; simp only at hk; omega
        · rw [hto u e] at hhu hk
          rw [List.getElem?_append_left (by omega)] at hm
          by_cases hk2 : k + 1 < s.mo.length
          · exact h.noStale u hu hhu k m hk hk2 hm
          · have hkk : k = s.mo.length - 1 := by omega
            rw [hkk, getElem?_last hne] at hm
            have := h.two_le ht hu e hd hh hhu
            rw [latest_eq] at this
            cases hm
            omega
      rootNoStale := fun hr k m hall hlen' hm => by
        rw [hmo] at hlen' hm
        rw [hroot] at hr
        simp only [List.length_append, List.length_singleton] at hlen'
        rw [List.getElem?_append_left (by omega)] at hm
        have hall0 : ∀ v, v < n → canUseRoot s v → (s.th v).seen ≤ k := by
          intro v hv hc
          have := hall v hv ((hcan v).2 hc)
          by_cases e : v = t
          · subst e; rw [htt] at this; simp only at this
            have := h.seen_le v hv; omega
          · rw [hto v e] at this; exact this
        by_cases hk2 : k + 1 < s.mo.length
        · exact h.rootNoStale hr k m hall0 hk2 hm
        · have hkk : k = s.mo.length - 1 := by omega
          rw [hkk, getElem?_last hne] at hm
          cases hm
          rw [← latest_eq, hcnt, rootCnt_of_live hr]
          intro h1
          -- no handle anywhere: `t` must be a user of the root, whose coherence index is now too new
          have ht0 : (s.th t).handles = 0 := by
            have := le_sumTo (fun u => (s.th u).handles) ht
            unfold total at h1; omega
          have hct : canUseRoot s t := by
            rcases hh with hh | hh
            · omega
            · exact hh
          have := hall t ht ((hcan t).2 hct)
          rw [htt] at this; simp only at this
          omega
      covR := fun _ => (h.covR hlive).step
        (fun u => by rw [hlat]; exact le_rmwView _ _ _ _)
        (fun v hv hhv => by
          by_cases e : v = t
          · subst e
            by_cases hk : Holder s' v
            · right; exact ⟨v, hv, hk, hvc v⟩
            · left; intro u; rw [hlat]
              have h0 : hnew = 0 := by
                cases hn : hnew with
                | zero => rfl
                | succ j => exact absurd (Or.inl (by rw [htt]; simp only; omega)) hk
              exact Nat.le_trans (le_rmwVc s v od u) (rmwVc_le_rmwView s v od (hrel h0) u)
          · right; exact ⟨v, hv, (hholo v e).2 hhv, hvc v⟩)
        (fun u _ => Or.inl (by rw [hre]))
      covW := h.covW.step hlw (fun v hv hhv => by
        by_cases e : v = t
        · subst e; exact ⟨v, hv, hh, hvc v⟩
        · exact ⟨v, hv, (hholo v e).1 hhv, hvc v⟩)
      covW0 := fun _ _ h0 w e hl => by
        have hr : od.isRel = true := hrel (hzero h0).1
        rw [hlat]; simp only
        rw [hlw] at hl
        exact Nat.le_trans (h.covW t ht hh w e hl)
          (Nat.le_trans (le_rmwVc s t od w) (rmwVc_le_rmwView s t od hr w))
      loaded := fun u hu hp => by
        by_cases e : u = t
        · subst e; rw [htt] at hp; simp only at hp
          rcases hpn with hpn | hpn
          · rw [hpn] at hp; cases hp
          · rw [hpn.1] at hp; cases hp
        · rw [hto u e] at hp; exact absurd (Or.inr hp) (ha.notDying u hu)
      droppedSeen := fun u hu hp => by
        by_cases e : u = t
        · subst e; rw [htt, hmo]; simp
        · rw [hto u e] at hp; exact absurd (Or.inl hp) (ha.notDying u hu) }

theorem setTh_congr {s : St} {t : Nat} {f g : Thread → Thread} (h : f (s.th t) = g (s.th t)) :
    setTh s t f = setTh s t g := by
  unfold setTh; rw [h]

theorem Sufficient.spec {o : POrds} (hs : Sufficient o = true) :
    o.dropSub.isRel = true ∧ o.dropLoad.isAcq = true ∧ o.toVecCasOk.isAcq = true ∧
      o.uniqueLoad.isAcq = true ∧ o.promLoad.isAcq = true ∧ o.promCasOk.isRel = true ∧
      o.promCasFail.isAcq = true := by
  simp only [Sufficient, Bool.and_eq_true] at hs
  obtain ⟨⟨⟨⟨⟨⟨a, b⟩, c⟩, d⟩, e⟩, f⟩, g⟩ := hs
  exact ⟨a, b, c, d, e, f, g⟩

/-- the decrement half of a drop (also after a failed CAS) -/
theorem inv_sub {o : POrds} {n s t} (hs : Sufficient o = true) (h : Inv n s) (ht : t < n)
    (hh : 0 < (s.th t).handles)
    (hb : Basic n (let r := rmw s t o.dropSub (· - 1)
           setTh r.1 t fun T => { T with handles := T.handles - 1, pc := if r.2 = 1 then .dropped else .idle })) :
    Inv n (let r := rmw s t o.dropSub (· - 1)
           setTh r.1 t fun T => { T with handles := T.handles - 1, pc := if r.2 = 1 then .dropped else .idle }) := by
  have hrel := (Sufficient.spec hs).1
  have hds := h.hs_seen t ht (Or.inl hh)
  have htc := h.touch_eq ht hds (Or.inl (Or.inl hh))
  have hd := h.basic.seen_data t ht hds
  have hv := h.val_pos ht (Or.inl hh) hd
  have hb : Basic n (setTh (rmw s t o.dropSub (· - 1)).1 t fun T =>
      { T with handles := T.handles - 1, pc := if (latest s).val = 1 then Pc.dropped else Pc.idle }) := hb
  show Inv n (setTh (rmw s t o.dropSub (· - 1)).1 t fun T =>
      { T with handles := T.handles - 1, pc := if (latest s).val = 1 then Pc.dropped else Pc.idle })
  rw [rmw_eq _ _ htc] at hb ⊢
  have heq : setTh (rmwSt s t o.dropSub (· - 1)) t (fun T => { T with handles := T.handles - 1, pc := if (latest s).val = 1 then Pc.dropped else Pc.idle })
      = setTh (rmwSt s t o.dropSub (· - 1)) t (fun T => { T with handles := (s.th t).handles - 1, pc := if (latest s).val = 1 then Pc.dropped else Pc.idle }) :=
    setTh_congr (by simp [rmwSt])
  rw [heq] at hb ⊢
  exact inv_rmwSt o.dropSub (· - 1) _ _ h ht (Or.inl hh) hds hb (by show (latest s).val - 1 + _ = _; omega)
    (fun _ => hrel)
    (by
      by_cases e : (latest s).val = 1
      · right; simp [e]
      · left; simp [e])

theorem allBefore_of {s t n} (hr : ∀ u, u < n → s.readEpoch u ≤ (s.th t).vc u)
    (hw : ∀ w e, s.lastWrite = some (w, e) → e ≤ (s.th t).vc w) : allBefore s t n = true := by
  unfold allBefore
  simp only [Bool.and_eq_true, List.all_eq_true, List.mem_range, Bool.or_eq_true, decide_eq_true_eq]
  refine ⟨fun u hu => Or.inr (hr u hu), ?_⟩
  cases hl : s.lastWrite with
  | none => rfl
  | some p =>
    obtain ⟨w, e⟩ := p
    simp only [Bool.or_eq_true, decide_eq_true_eq]
    exact Or.inr (hw w e hl)

/-- when the counter is 1 the thread holding the handle is the only holder -/
theorem Inv.sole_holder {n s t} (h : Inv n s) (ht : t < n) (hh : 0 < (s.th t).handles) (h1 : (latest s).val = 1) :
    ∀ v, v < n → Holder s v → v = t := by
  intro v hv hhv
  obtain ⟨hrl, _, hoth⟩ := h.sole ht hh h1
  by_cases e : v = t
  · exact e
  · rcases hhv with hhv | hhv
    · have := (hoth v hv e).1; omega
    · have := hhv.1; rw [hrl] at this; cases this

/-- in-place mutation by the sole holder that has the newest view in its clock -/
theorem inv_write {n s t} (ec : Nat) (h : Inv n s) (ht : t < n) (hh : 0 < (s.th t).handles)
    (h1 : (latest s).val = 1) (hview : ∀ u, (latest s).view u ≤ (s.th t).vc u)
    (hb : Basic n (setTh { (doWrite s t n false) with exclusiveCount := ec } t fun T => { T with exclusive := true })) :
    Inv n (setTh { (doWrite s t n false) with exclusiveCount := ec } t fun T => { T with exclusive := true }) := by
  have ha := h.alive ht (Or.inl hh)
  have hsole := h.sole_holder ht hh h1
  have hlive := h.live ht (Or.inl hh)
  have hab : allBefore s t n = true := by
    apply allBefore_of
    · intro u hu
      rcases h.covR hlive u hu with l | ⟨v, hv, hhv, hle⟩
      · exact Nat.le_trans l (hview u)
      · have := hsole v hv hhv; subst this; exact hle
    · exact h.covW t ht (Or.inl hh)
  obtain ⟨hr, hc, hu, hd⟩ := h.safe
  refine inv_frame1 t ht h hb rfl rfl rfl ?_ (fun _ _ => Or.inl rfl) (by simp [setTh, doWrite]) rfl ?_ rfl rfl
    (fun v e => by simp [setTh, doWrite, e]) (by simp [setTh, doWrite]) (by simp [setTh, doWrite]) ?_
    (by simp [setTh, doWrite]; exact h.seen_le t ht) (Or.inl (by simp [setTh, doWrite])) ?_ ?_ ?_
  · intro w e hl
    right
    have : (setTh { (doWrite s t n false) with exclusiveCount := ec } t fun T => { T with exclusive := true }).lastWrite
        = some (t, tick t (s.th t).vc t) := rfl
    rw [this] at hl; cases hl
    refine ⟨fun v hv hhv => ?_, by omega⟩
    have hv0 : Holder s v := by
      rcases hhv with hhv | hhv
      · left
        by_cases e : v = t
        · subst e; exact hh
        · simpa [setTh, doWrite, e] using hhv
      · exact absurd hhv.1 (by show ¬ (s.rootLive = true); rw [(h.sole ht hh h1).1]; simp)
    have := hsole v hv hv0; subst this
    simp [setTh, doWrite]
  · refine ⟨?_, hc, ?_, ?_⟩
    · show (s.race || !allBefore s t n) = false
      rw [hr, hab]; rfl
    · show (s.uaf || (s.freed && !false)) = false
      rw [hu, ha.freed]; rfl
    · show (s.doubleFree || (s.freed && false)) = false
      rw [hd, ha.freed]; rfl
  · intro u; simp [setTh, doWrite]; exact le_tick _ _ _
  · intro hx; simp [setTh, doWrite] at hx ⊢; exact h.hs_seen t ht hx
  · intro hx w e hi; simp [setTh, doWrite] at hx ⊢
    exact Nat.le_trans (h.ctrlOrd t ht hx w e hi) (le_tick _ _ _)
  · intro hx; simp [setTh, doWrite] at hx ⊢; exact h.failed_h t ht hx

/-- the buffer has left the protocol: the root is gone, no handle is left, every thread is idle -/
theorem inv_dead {n s} (hb : Basic n s) (hroot : s.rootLive = false)
    (hh : ∀ u, u < n → (s.th u).handles = 0) (hpc : ∀ u, u < n → (s.th u).pc = .idle)
    (hsafe : s.race = false ∧ s.ctrlRace = false ∧ s.uaf = false ∧ s.doubleFree = false)
    (hun : s.data = none → s.mo = [] ∧ s.ctrlInit = none ∧ s.ctrlFreed = false)
    (hpr : s.data ≠ none → s.mo ≠ [] ∧ s.ctrlFreed = true ∧ (latest s).val = 0)
    (hdv : ∀ v, s.data = some v → ∃ w e, s.ctrlInit = some (w, e) ∧ e ≤ v w)
    (hseen : ∀ u, u < n → (s.th u).seen ≤ s.mo.length - 1)
    (hord : ∀ t, t < n → (s.th t).dataSeen = true → ∀ w e, s.ctrlInit = some (w, e) → e ≤ (s.th t).vc w) :
    Inv n s := by
  have hnoh : ∀ v, v < n → ¬ Holder s v := by
    intro v hv hhv
    rcases hhv with hhv | hhv
    · rw [hh v hv] at hhv; omega
    · have := hhv.1; rw [hroot] at this; cases this
  have hnb : ∀ u, u < n → ¬ Busy (s.th u).pc := by
    intro u hu hbz; rw [hpc u hu] at hbz; simp [Busy] at hbz
  refine
    { basic := hb
      un := hun
      pr := fun hd => (hpr hd).1
      dataView := hdv
      seen_le := hseen
      count := fun hd => by
        rw [(hpr hd).2.2, rootCnt_of_dead hroot]
        have := sumTo_zero_fun n (fun u => (s.th u).handles) hh
        unfold total; omega
      hs_seen := fun u hu hx => by
        rcases hx with hx | hx
        · rw [hh u hu] at hx; omega
        · exact absurd hx (hnb u hu)
      ctrlOrd := hord
      failed_h := fun u hu hp => by rw [hpc u hu] at hp; cases hp
      dying := fun u hu hd => by rw [hpc u hu] at hd; rcases hd with hd | hd <;> cases hd
      ctrl0 := fun hc => by
        by_cases hd : s.data = none
        · rw [(hun hd).2.2] at hc; cases hc
        · exact (hpr hd).2.2
      freed_cases := fun _ => by
        refine ⟨hroot, ?_⟩
        by_cases hd : s.data = none
        · exact Or.inr hd
        · exact Or.inl (hpr hd).2.1
      safe := hsafe
      noStale := fun t ht hht => by rw [hh t ht] at hht; omega
      rootNoStale := fun hr => by rw [hroot] at hr; cases hr
      covR := fun hl => by
        by_cases hd : s.data = none
        · have := hl.2 hd; rw [hroot] at this; cases this
        · have := hl.1; rw [(hpr hd).2.1] at this; cases this
      covW := fun v hv hhv => absurd hhv (hnoh v hv)
      covW0 := fun hd hc => by rw [(hpr hd).2.1] at hc; cases hc
      loaded := fun u hu hp => by rw [hpc u hu] at hp; cases hp
      droppedSeen := fun u hu hp => by rw [hpc u hu] at hp; cases hp }

theorem inv_dropFree {n s t} (h : Inv n s) (ht : t < n) (hp : (s.th t).pc = .loadedFree)
    (hb : Basic n (setTh { (doWrite s t n true) with ctrlFreed := true } t fun T => { T with pc := .idle })) :
    Inv n (setTh { (doWrite s t n true) with ctrlFreed := true } t fun T => { T with pc := .idle }) := by
  obtain ⟨h0, hfr, hctrl, hidle⟩ := h.dying t ht (Or.inr hp)
  have hd := h.promoted ht (Or.inr (Or.inr (Or.inr (Or.inl hp))))
  have hcnt := h.count hd
  rw [h0] at hcnt
  have hrl : s.rootLive = false := by
    cases hr : s.rootLive with
    | false => rfl
    | true => rw [rootCnt_of_live hr] at hcnt; omega
  have hnh : ∀ u, u < n → (s.th u).handles = 0 := by
    intro u hu
    have := le_sumTo (fun u => (s.th u).handles) hu
    unfold total at hcnt; omega
  have hnoh : ∀ v, v < n → ¬ Holder s v := by
    intro v hv hhv
    rcases hhv with hhv | hhv
    · rw [hnh v hv] at hhv; omega
    · have := hhv.1; rw [hrl] at this; cases this
  have hab : allBefore s t n = true := by
    apply allBefore_of
    · intro u hu
      rcases h.covR ⟨hctrl, fun e => absurd e hd⟩ u hu with l | ⟨v, hv, hhv, _⟩
      · exact Nat.le_trans l (h.loaded t ht hp u)
      · exact absurd hhv (hnoh v hv)
    · intro w e hl
      exact Nat.le_trans (h.covW0 hd hctrl h0 w e hl) (h.loaded t ht hp w)
  obtain ⟨hr, hc, hu, hdf⟩ := h.safe
  apply inv_dead hb
  · exact hrl
  · intro u hu
    by_cases e : u = t
    · subst e; simp [setTh, doWrite]; exact hnh u hu
    · simp [setTh, doWrite, e]; exact hnh u hu
  · intro u hu
    by_cases e : u = t
    · subst e; simp [setTh, doWrite]
    · simp [setTh, doWrite, e]; exact hidle u hu e
  · refine ⟨?_, hc, ?_, ?_⟩
    · show (s.race || !allBefore s t n) = false
      rw [hr, hab]; rfl
    · show (s.uaf || (s.freed && !true)) = false
      rw [hu, hfr]; rfl
    · show (s.doubleFree || (s.freed && true)) = false
      rw [hdf, hfr]; rfl
  · intro e; exact absurd e hd
  · intro _; exact ⟨h.pr hd, rfl, h0⟩
  · exact h.dataView
  · intro u hu
    by_cases e : u = t
    · subst e; simp [setTh, doWrite]; exact h.seen_le u hu
    · simp [setTh, doWrite, e]; exact h.seen_le u hu
  · intro u hu hdu w e hi
    by_cases e1 : u = t
    · subst e1; simp [setTh, doWrite] at hdu ⊢
      exact Nat.le_trans (h.ctrlOrd u hu hdu w e hi) (le_tick _ _ _)
    · simp [setTh, doWrite, e1] at hdu ⊢
      exact h.ctrlOrd u hu hdu w e hi

theorem inv_toVecOk {n s t} (od : Ord) (ec : Nat) (hacq : od.isAcq = true) (h : Inv n s) (ht : t < n)
    (hh : 0 < (s.th t).handles) (hp : (s.th t).pc = .idle) (h1 : (latest s).val = 1)
    (hb : Basic n { (doWrite (setTh (rmwSt s t od (fun _ => 0)) t fun T =>
        { T with handles := T.handles - 1, exclusive := true }) t n false) with ctrlFreed := true, exclusiveCount := ec }) :
    Inv n { (doWrite (setTh (rmwSt s t od (fun _ => 0)) t fun T =>
        { T with handles := T.handles - 1, exclusive := true }) t n false) with ctrlFreed := true, exclusiveCount := ec } := by
  have ha := h.alive ht (Or.inl hh)
  have hlive := h.live ht (Or.inl hh)
  have hd := h.promoted ht (Or.inl hh)
  obtain ⟨hrl, hone, hoth⟩ := h.sole ht hh h1
  have hsole := h.sole_holder ht hh h1
  obtain ⟨hr, hc, hu, hdf⟩ := h.safe
  generalize hs1 : (setTh (rmwSt s t od (fun _ => 0)) t fun T => { T with handles := T.handles - 1, exclusive := true }) = s1 at hb
  have h1t : s1.th t = { s.th t with vc := rmwVc s t od, seen := s.mo.length, handles := (s.th t).handles - 1, exclusive := true } := by
    rw [← hs1]; simp [setTh, rmwSt]
  have h1o : ∀ u, u ≠ t → s1.th u = s.th u := by
    intro u hu; rw [← hs1]; simp [setTh, rmwSt, hu]
  have h1mo : s1.mo = s.mo ++ [⟨0, rmwView s t od⟩] := by rw [← hs1]; rfl
  have h1re : s1.readEpoch = s.readEpoch := by rw [← hs1]; rfl
  have h1lw : s1.lastWrite = s.lastWrite := by rw [← hs1]; rfl
  have h1freed : s1.freed = s.freed := by rw [← hs1]; rfl
  have h1race : s1.race = s.race := by rw [← hs1]; rfl
  have h1cr : s1.ctrlRace = s.ctrlRace := by rw [← hs1]; rfl
  have h1uaf : s1.uaf = s.uaf := by rw [← hs1]; rfl
  have h1df : s1.doubleFree = s.doubleFree := by rw [← hs1]; rfl
  have h1data : s1.data = s.data := by rw [← hs1]; rfl
  have h1ci : s1.ctrlInit = s.ctrlInit := by rw [← hs1]; rfl
  have h1root : s1.rootLive = s.rootLive := by rw [← hs1]; rfl
  have hab : allBefore s1 t n = true := by
    apply allBefore_of
    · intro u hu
      rw [h1re, h1t]
      rcases h.covR hlive u hu with l | ⟨v, hv, hhv, hle⟩
      · exact Nat.le_trans l (view_le_rmwVc s t od hacq u)
      · have := hsole v hv hhv; subst this
        exact Nat.le_trans hle (le_rmwVc s v od u)
    · intro w e hl
      rw [h1lw] at hl; rw [h1t]
      exact Nat.le_trans (h.covW t ht (Or.inl hh) w e hl) (le_rmwVc s t od w)
  have htt : (doWrite s1 t n false).th t = { s1.th t with vc := tick t (s1.th t).vc } := by
    simp [doWrite]
  have hto : ∀ v, v ≠ t → (doWrite s1 t n false).th v = s1.th v := by
    intro v e; simp [doWrite, e]
  apply inv_dead hb
  · show s1.rootLive = false
    rw [h1root]; exact hrl
  · intro u hu
    show ((doWrite s1 t n false).th u).handles = 0
    by_cases e : u = t
    · subst e; rw [htt, h1t]; simp only; omega
    · rw [hto u e, h1o u e]; exact (hoth u hu e).1
  · intro u hu
    show ((doWrite s1 t n false).th u).pc = .idle
    by_cases e : u = t
    · subst e; rw [htt, h1t]; exact hp
    · rw [hto u e, h1o u e]; exact (hoth u hu e).2.1
  · refine ⟨?_, ?_, ?_, ?_⟩
    · show (s1.race || !allBefore s1 t n) = false
      rw [h1race, hr, hab]; rfl
    · show s1.ctrlRace = false
      rw [h1cr]; exact hc
    · show (s1.uaf || (s1.freed && !false)) = false
      rw [h1uaf, hu, h1freed, ha.freed]; rfl
    · show (s1.doubleFree || (s1.freed && false)) = false
      rw [h1df, hdf, h1freed, ha.freed]; rfl
  · intro e
    have e' : s1.data = none := e
    rw [h1data] at e'; exact absurd e' hd
  · intro _
    refine ⟨?_, rfl, ?_⟩
    · show s1.mo ≠ []
      rw [h1mo]; simp
    · show (lastOf s1.mo).val = 0
      rw [h1mo, lastOf_append]
  · intro v hv
    have hv' : s1.data = some v := hv
    show ∃ w e, s1.ctrlInit = some (w, e) ∧ e ≤ v w
    rw [h1data] at hv'; rw [h1ci]; exact h.dataView v hv'
  · intro u hu
    show ((doWrite s1 t n false).th u).seen ≤ s1.mo.length - 1
    rw [h1mo]; simp only [List.length_append, List.length_singleton]
    by_cases e : u = t
    · subst e; rw [htt, h1t]; simp
    · rw [hto u e, h1o u e]; have := h.seen_le u hu; omega
  · intro u hu hdu w e hi
    have hi' : s1.ctrlInit = some (w, e) := hi
    rw [h1ci] at hi'
    show e ≤ ((doWrite s1 t n false).th u).vc w
    have hdu' : ((doWrite s1 t n false).th u).dataSeen = true := hdu
    by_cases e1 : u = t
    · subst e1; rw [htt, h1t] at hdu' ⊢; simp only at hdu' ⊢
      exact Nat.le_trans (h.ctrlOrd u hu hdu' w e hi') (Nat.le_trans (le_rmwVc s u od w) (le_tick _ _ _))
    · rw [hto u e1, h1o u e1] at hdu' ⊢
      exact h.ctrlOrd u hu hdu' w e hi'

/-- the owner of the root reads the KIND_VEC word with no borrow outstanding: there was no promotion, nobody
else can reach the buffer, and every access to it is ordered before the owner -/
theorem Inv.consume {n s t} (h : Inv n s) (ht : t < n) (hr : s.rootLive = true) (ho : s.owner = t)
    (hp : (s.th t).pc = .idle) (hnb : noBorrows s n) (hds : (s.th t).dataSeen = false) :
    s.data = none ∧ allBefore s t n = true ∧ s.freed = false ∧ (∀ u, u < n → (s.th u).handles = 0) ∧
      (∀ u, u < n → (s.th u).pc = .idle) := by
  have hd : s.data = none := by
    cases hdv : s.data with
    | none => rfl
    | some v =>
      obtain ⟨w, hw, hc, hdw⟩ := h.basic.wit (not_none_of_some hdv) hr
      have : w = t := by
        rcases hc with hc | hc
        · rw [← hc, ho]
        · rw [hnb w hw] at hc; cases hc
      subst this; rw [hds] at hdw; cases hdw
  have hct : canUseRoot s t := ⟨hr, Or.inl ho⟩
  have ha := h.alive ht (Or.inr hct)
  have hnh := h.no_handles hd
  have hmo := (h.un hd).1
  refine ⟨hd, ?_, ha.freed, hnh, ?_⟩
  · apply allBefore_of
    · intro u hu
      rcases h.covR (h.live ht (Or.inr hct)) u hu with l | ⟨v, hv, hhv, hle⟩
      · have : (latest s).view u = 0 := by simp [latest, hmo, VC.zero]
        omega
      · have : v = t := by
          rcases hhv with hhv | hhv
          · rw [hnh v hv] at hhv; omega
          · rcases hhv.2 with hc | hc
            · rw [← hc, ho]
            · rw [hnb v hv] at hc; cases hc
        subst this; exact hle
    · exact h.covW t ht (Or.inr hct)
  · intro u hu
    have hns := h.basic.no_saw hnb (by rw [ho]; exact hp) u hu
    cases hpu : (s.th u).pc with
    | idle => rfl
    | sawVec => exact absurd (Or.inl hpu) hns
    | sawArc => exact absurd (Or.inr hpu) hns
    | dropped => exact absurd hd (h.promoted hu (Or.inr (Or.inr (Or.inl hpu))))
    | loadedFree => exact absurd hd (h.promoted hu (Or.inr (Or.inr (Or.inr (Or.inl hpu)))))
    | failedToVec => exact absurd hd (h.promoted hu (Or.inr (Or.inr (Or.inr (Or.inr hpu)))))

/-- the state after the promoting CAS by `t` whose message carries the view `V` -/
def casSt (s : St) (t : Nat) (V : VC) : St :=
  { s with data := some V, ctrlInit := some (t, tick t (s.th t).vc t), mo := [⟨2, VC.zero⟩],
           promotions := s.promotions + 1,
           th := fun u => if u = t then
             { s.th t with vc := tick t (tick t (s.th t).vc), dataSeen := true, seen := 0,
                           handles := (s.th t).handles + 1, pc := .idle } else s.th u }

/-- the promoting CAS -/
theorem inv_casOk {n s t} (V : VC) (h : Inv n s) (ht : t < n) (hp : (s.th t).pc = .sawVec) (hd : s.data = none)
    (hV : tick t (s.th t).vc t ≤ V t) (hb : Basic n (casSt s t V)) : Inv n (casSt s t V) := by
  have hct := h.basic.pc_root t ht (Or.inl hp)
  have ha := h.alive ht (Or.inr hct)
  have hlive := h.live ht (Or.inr hct)
  have hnh := h.no_handles hd
  obtain ⟨hmo0, hci0, hcf0⟩ := h.un hd
  have hnb : ∀ u, u < n → ¬ Busy (s.th u).pc := fun u hu hx => h.promoted hu (Or.inr hx) hd
  have hnds : ∀ u, u < n → (s.th u).dataSeen = true → False := fun u hu hx => h.basic.seen_data u hu hx hd
  generalize hs' : casSt s t V = s' at hb
  have htt : s'.th t = { s.th t with vc := tick t (tick t (s.th t).vc), dataSeen := true, seen := 0,
                                      handles := (s.th t).handles + 1, pc := .idle } := by
    rw [← hs']; simp [casSt]
  have hto : ∀ u, u ≠ t → s'.th u = s.th u := by
    intro u hu; rw [← hs']; simp [casSt, hu]
  have hmo : s'.mo = [⟨2, VC.zero⟩] := by rw [← hs']; rfl
  have hlat : latest s' = ⟨2, VC.zero⟩ := by rw [latest_eq, hmo]; rfl
  have hlat0 : latest s = ⟨0, VC.zero⟩ := by rw [latest_eq, hmo0]; rfl
  have hdata : s'.data = some V := by rw [← hs']; rfl
  have hci : s'.ctrlInit = some (t, tick t (s.th t).vc t) := by rw [← hs']; rfl
  have hroot : s'.rootLive = s.rootLive := by rw [← hs']; rfl
  have howner : s'.owner = s.owner := by rw [← hs']; rfl
  have hlw : s'.lastWrite = s.lastWrite := by rw [← hs']; rfl
  have hre : s'.readEpoch = s.readEpoch := by rw [← hs']; rfl
  have hfreed : s'.freed = s.freed := by rw [← hs']; rfl
  have hctrl : s'.ctrlFreed = s.ctrlFreed := by rw [← hs']; rfl
  have hrace : s'.race = s.race := by rw [← hs']; rfl
  have hcr : s'.ctrlRace = s.ctrlRace := by rw [← hs']; rfl
  have huaf : s'.uaf = s.uaf := by rw [← hs']; rfl
  have hdf : s'.doubleFree = s.doubleFree := by rw [← hs']; rfl
  have hvc : ∀ v u, (s.th v).vc u ≤ (s'.th v).vc u := by
    intro v u; by_cases e : v = t
    · subst e; rw [htt]; exact Nat.le_trans (le_tick _ _ _) (le_tick _ _ _)
    · rw [hto v e]; exact Nat.le_refl _
  have hcan : ∀ v, canUseRoot s' v ↔ canUseRoot s v := by
    intro v; unfold canUseRoot; rw [hroot, howner]
    by_cases e : v = t
    · subst e; rw [htt]
    · rw [hto v e]
  have hholo : ∀ v, v ≠ t → (Holder s' v ↔ Holder s v) := by
    intro v e; unfold Holder; rw [hcan, hto v e]
  have hholt : Holder s' t := Or.inr ((hcan t).2 hct)
  refine
    { basic := hb
      un := fun hd' => by rw [hdata] at hd'; cases hd'
      pr := fun _ => by rw [hmo]; simp
      dataView := fun v hv => by
        rw [hdata] at hv; cases hv
        exact ⟨t, _, hci, hV⟩
      seen_le := fun u hu => by
        rw [hmo]
        by_cases e : u = t
        · subst e; rw [htt]; simp
        · rw [hto u e]; have := h.seen_le u hu; rw [hmo0] at this; simpa using this
      count := fun _ => by
        rw [hlat]
        have hrc : rootCnt s' = 1 := rootCnt_of_live (by rw [hroot]; exact hct.1)
        have htot : total s' n = 1 := by
          unfold total
          rw [sumTo_split _ ht]
          have : sumTo (fun u => if u = t then 0 else (s'.th u).handles) n = 0 :=
            sumTo_zero_fun n _ (fun u hu => by
              by_cases e : u = t
              · simp [e]
              · simp [e, hto u e, hnh u hu])
          rw [this, htt]; simp only; rw [hnh t ht]
        rw [hrc, htot]
      hs_seen := fun u hu hx => by
        by_cases e : u = t
        · subst e; rw [htt]
        · rw [hto u e] at hx ⊢; exact h.hs_seen u hu hx
      ctrlOrd := fun u hu hdu w e hi => by
        rw [hci] at hi; cases hi
        by_cases e1 : u = t
        · subst e1; rw [htt]; exact le_tick _ _ _
        · rw [hto u e1] at hdu; exact absurd hdu (fun hx => hnds u hu hx)
      failed_h := fun u hu hpu => by
        by_cases e : u = t
        · subst e; rw [htt] at hpu; cases hpu
        · rw [hto u e] at hpu ⊢; exact h.failed_h u hu hpu
      dying := fun u hu hdy => by
        by_cases e : u = t
        · subst e; rw [htt] at hdy; rcases hdy with hdy | hdy <;> cases hdy
        · rw [hto u e] at hdy; exact absurd (Busy.of_dying hdy) (hnb u hu)
      ctrl0 := fun hc => by rw [hctrl, hcf0] at hc; cases hc
      freed_cases := fun hf => by rw [hfreed, ha.freed] at hf; cases hf
      safe := by rw [hrace, hcr, huaf, hdf]; exact h.safe
      noStale := fun u _ _ k m _ hlen _ => by rw [hmo] at hlen; simp at hlen
      rootNoStale := fun _ k m _ hlen _ => by rw [hmo] at hlen; simp at hlen
      covR := fun _ => (h.covR hlive).step
        (fun u => by rw [hlat, hlat0]; exact Nat.le_refl _)
        (fun v hv hhv => by
          right
          by_cases e : v = t
          · subst e; exact ⟨v, hv, hholt, hvc v⟩
          · exact ⟨v, hv, (hholo v e).2 hhv, hvc v⟩)
        (fun u _ => Or.inl (by rw [hre]))
      covW := h.covW.step hlw (fun v hv hhv => by
        by_cases e : v = t
        · subst e; exact ⟨v, hv, Or.inr hct, hvc v⟩
        · exact ⟨v, hv, (hholo v e).1 hhv, hvc v⟩)
      covW0 := fun _ _ h0 => by rw [hlat] at h0; cases h0
      loaded := fun u hu hpu => by
        by_cases e : u = t
        · subst e; rw [htt] at hpu; cases hpu
        · rw [hto u e] at hpu; exact absurd (Or.inr (Or.inr (Or.inl hpu))) (hnb u hu)
      droppedSeen := fun u hu hpu => by
        by_cases e : u = t
        · subst e; rw [htt] at hpu; cases hpu
        · rw [hto u e] at hpu; exact absurd (Or.inr (Or.inl hpu)) (hnb u hu) }

theorem inv_step {o : POrds} {n s s'} (hs : Sufficient o = true) (h : Inv n s) (hst : Step o n s s') :
    Inv n s' := by
  obtain ⟨hrel, hdl, htv, hul, hpl, hpc, hpf⟩ := Sufficient.spec hs
  have hb' := basic_step h.basic hst
  cases hst with
  | cloneSeesVec t ht hc hp hd =>
    refine inv_frame1 t ht h hb' rfl rfl rfl (lw_same rfl) (fun _ _ => Or.inl rfl) rfl rfl h.safe rfl rfl
      (fun v e => by simp [setTh, e]) (by simp [setTh]) (by simp [setTh]) (by intro u; simp [setTh])
      (by simp [setTh]; exact h.seen_le t ht) ?_ ?_ ?_ ?_
    · right; left; exact ⟨by simp [setTh, Dying], Or.inr hc⟩
    · intro hx
      rcases hx with hx | hx
      · simp [setTh] at hx ⊢; exact h.hs_seen t ht (Or.inl hx)
      · simp [setTh, Busy] at hx
    · intro hx; simp [setTh] at hx ⊢; exact h.ctrlOrd t ht hx
    · intro hx; simp [setTh] at hx
  | cloneSeesArc t v ht hc hp hd =>
    refine inv_frame1 t ht h hb' rfl rfl rfl (lw_same rfl) (fun _ _ => Or.inl rfl) rfl rfl h.safe rfl rfl
      (fun v e => by simp [setTh, e]) (by simp [setTh]) (by simp [setTh]) ?_
      (by simp [setTh]; exact h.seen_le t ht) ?_ ?_ ?_ ?_
    · intro u; simp [setTh, hpl]; exact le_join_left _ _ _
    · right; left; exact ⟨by simp [setTh, Dying], Or.inr hc⟩
    · intro _; simp [setTh]
    · intro _ w e hi
      obtain ⟨w', e', hi', hle⟩ := h.dataView v hd
      rw [hi] at hi'; cases hi'
      simp [setTh, hpl]
      exact Nat.le_trans hle (le_join_right _ _ _)
    · intro hx; simp [setTh] at hx
  | casFail t v ht hp hd =>
    have hc := h.basic.pc_root t ht (Or.inl hp)
    refine inv_frame1 t ht h hb' rfl rfl rfl (lw_same rfl) (fun _ _ => Or.inl rfl) rfl rfl h.safe rfl rfl
      (fun v e => by simp [setTh, e]) (by simp [setTh]) (by simp [setTh]) ?_
      (by simp [setTh]; exact h.seen_le t ht) ?_ ?_ ?_ ?_
    · intro u; simp [setTh, hpf]; exact le_join_left _ _ _
    · right; left; exact ⟨by simp [setTh, Dying], Or.inr hc⟩
    · intro _; simp [setTh]
    · intro _ w e hi
      obtain ⟨w', e', hi', hle⟩ := h.dataView v hd
      rw [hi] at hi'; cases hi'
      simp [setTh, hpf]
      exact Nat.le_trans hle (le_join_right _ _ _)
    · intro hx; simp [setTh] at hx
  | peekCnt t ht hp =>
    have hc := h.basic.pc_root t ht (Or.inr hp)
    have hds := h.hs_seen t ht (Or.inr (Or.inl hp))
    rw [h.touch_eq ht hds (Or.inl (Or.inr hc))] at hb' ⊢
    refine inv_frame1 t ht h hb' rfl rfl rfl (lw_same rfl) (fun _ _ => Or.inl rfl) rfl rfl h.safe rfl rfl
      (fun v e => by simp [setTh, e]) (by simp [setTh]) (by simp [setTh]) (by intro u; simp [setTh])
      (by simp [setTh]; exact h.seen_le t ht) ?_ ?_ ?_ ?_
    · right; left; exact ⟨by simp [setTh, Dying], Or.inr hc⟩
    · intro _; simp [setTh]; exact hds
    · intro hx; simp [setTh] at hx ⊢; exact h.ctrlOrd t ht hx
    · intro hx; simp [setTh] at hx
  | lend t u ht hu hne hr ho hp hb => exact inv_lend h ht hu hne hr ho hp hb'
  | unlend u hu hb hp => exact inv_unlend h hu hb hp hb'
  | sendRoot t u ht hu hne hr ho hp hnb => exact inv_sendRoot h ht hu hne hr ho hp hnb hb'
  | send t u ht hu hne hh hp => exact inv_send h ht hu hne hh hp hb'
  | relabelRoot t ht hr ho hp hnb hds => exact inv_relabel h ht hr ho hp hnb hds hb'
  | readRoot t ht hc hp => exact inv_read h ht (Or.inr hc)
  | read t ht hh hp => exact inv_read h ht (Or.inl hh)
  | dropLoad t k s1 v ht hp hl =>
    have hds := h.hs_seen t ht (Or.inr (Or.inr (Or.inl hp)))
    obtain ⟨m, hk, hm, _, rfl⟩ := load_spec' h ht hds (Or.inr (Or.inl hp)) hl
    have h1 := inv_loaded o.dropLoad m k h ht hk hm
    have hlen := h.droppedSeen t ht hp
    have hklen : k < s.mo.length := (List.getElem?_eq_some_iff.mp hm).1
    have hkk : k = s.mo.length - 1 := by omega
    have hne : s.mo ≠ [] := by intro e; rw [e] at hklen; simp at hklen
    rw [hkk, getElem?_last hne] at hm
    cases hm
    refine inv_frame1 t ht h1 hb' rfl rfl rfl (lw_same rfl) (fun _ _ => Or.inl rfl) rfl rfl h1.safe rfl rfl
      (fun v e => by simp [setTh, e]) (by simp [setTh]) (by simp [setTh]) (by intro u; simp [setTh])
      (by have := h1.seen_le t ht; simpa [setTh] using this) ?_ ?_ ?_ ?_
    · right; right
      refine ⟨by simp [setTh], by simp [setTh, ldf]; exact hp, ?_⟩
      intro u
      simp [setTh, ldf, hdl]
      exact le_join_right _ _ _
    · intro _; simp [setTh, ldf]; exact hds
    · intro hx w e hi
      have := h1.ctrlOrd t ht (by simpa [setTh] using hx) w e hi
      simpa [setTh] using this
    · intro hx; simp [setTh] at hx
  | toVecFail t k s1 v ht hh hp hl hv =>
    have hds := h.hs_seen t ht (Or.inl hh)
    obtain ⟨m, hk, hm, _, rfl⟩ := load_spec' h ht hds (Or.inl (Or.inl hh)) hl
    have h1 := inv_loaded o.toVecCasFail m k h ht hk hm
    have hh1 : Holder (setTh s t (ldf o.toVecCasFail m k)) t := Or.inl (by simp [setTh, ldf]; exact hh)
    have h2 := inv_read h1 ht hh1
    have hh2 : Holder (doRead (setTh s t (ldf o.toVecCasFail m k)) t) t := Or.inl (by simp [setTh, ldf, doRead]; exact hh)
    refine inv_frame1 t ht h2 hb' rfl rfl rfl (lw_same rfl) (fun _ _ => Or.inl rfl) rfl rfl h2.safe rfl rfl
      (fun v e => by simp [setTh, e]) (by simp [setTh]) (by simp [setTh]) (by intro u; simp [setTh])
      (by have := h2.seen_le t ht; simpa [setTh] using this) ?_ ?_ ?_ ?_
    · right; left; exact ⟨by simp [setTh, Dying], hh2⟩
    · intro _; simp [setTh, ldf, doRead]; exact hds
    · intro hx w e hi
      have := h2.ctrlOrd t ht (by simpa [setTh] using hx) w e hi
      simpa [setTh] using this
    · intro _; simp [setTh, ldf, doRead]; exact hh
  | clone t ht hh hp =>
    have hds := h.hs_seen t ht (Or.inl hh)
    have htc := h.touch_eq ht hds (Or.inl (Or.inl hh))
    rw [rmw_eq _ _ htc] at hb' ⊢
    have heq : setTh (rmwSt s t o.cloneAdd (· + 1)) t (fun T => { T with handles := T.handles + 1 })
        = setTh (rmwSt s t o.cloneAdd (· + 1)) t (fun T => { T with handles := (s.th t).handles + 1, pc := Pc.idle }) :=
      setTh_congr (by simp [rmwSt, hp])
    rw [heq] at hb' ⊢
    exact inv_rmwSt o.cloneAdd (· + 1) _ _ h ht (Or.inl hh) hds hb' (by show (latest s).val + 1 + _ = _; omega)
      (fun h0 => by omega) (Or.inl rfl)
  | arcAdd t ht hp =>
    have hc := h.basic.pc_root t ht (Or.inr hp)
    have hds := h.hs_seen t ht (Or.inr (Or.inl hp))
    have htc := h.touch_eq ht hds (Or.inl (Or.inr hc))
    rw [rmw_eq _ _ htc] at hb' ⊢
    have heq : setTh (rmwSt s t o.cloneAdd (· + 1)) t (fun T => { T with handles := T.handles + 1, pc := Pc.idle })
        = setTh (rmwSt s t o.cloneAdd (· + 1)) t (fun T => { T with handles := (s.th t).handles + 1, pc := Pc.idle }) :=
      setTh_congr (by simp [rmwSt])
    rw [heq] at hb' ⊢
    exact inv_rmwSt o.cloneAdd (· + 1) _ _ h ht (Or.inr hc) hds hb' (by show (latest s).val + 1 + _ = _; omega)
      (fun h0 => by omega) (Or.inl rfl)
  | dropSub t ht hh hp => exact inv_sub hs h ht hh hb'
  | toVecFailDrop t ht hp => exact inv_sub hs h ht (h.failed_h t ht hp) hb'
  | uniqueOk t k s1 v ht hh hp hl hv =>
    have hds := h.hs_seen t ht (Or.inl hh)
    obtain ⟨m, hk, hm, hvm, rfl⟩ := load_spec' h ht hds (Or.inl (Or.inl hh)) hl
    have hne := h.pr (h.basic.seen_data t ht hds)
    have hklen : k < s.mo.length := (List.getElem?_eq_some_iff.mp hm).1
    have hkk : k = s.mo.length - 1 := by
      by_cases hk2 : k + 1 < s.mo.length
      · have := h.noStale t ht hh k m hk hk2 hm; omega
      · omega
    have h1 := inv_loaded o.uniqueLoad m k h ht hk hm
    rw [hkk, getElem?_last hne] at hm
    cases hm
    exact inv_write (t := t) _ h1 ht (by simp [setTh, ldf]; exact hh) (by show (latest s).val = 1; rw [latest_eq]; omega)
      (by
        intro u
        simp [setTh, ldf, hul]
        exact le_join_right _ _ _) hb'
  | dropFree t ht hp =>
    have hds := h.hs_seen t ht (Or.inr (Or.inr (Or.inr (Or.inl hp))))
    rw [h.touch_eq ht hds (Or.inr (Or.inr hp))] at hb' ⊢
    exact inv_dropFree h ht hp hb'
  | toVecOk t ht hh hp h1 =>
    have hds := h.hs_seen t ht (Or.inl hh)
    have htc := h.touch_eq ht hds (Or.inl (Or.inl hh))
    have hb'' : Basic n { (doWrite (setTh (rmw s t o.toVecCasOk (fun _ => 0)).1 t fun T =>
        { T with handles := T.handles - 1, exclusive := true }) t n false) with ctrlFreed := true, exclusiveCount := s.exclusiveCount + 1 } := hb'
    show Inv n { (doWrite (setTh (rmw s t o.toVecCasOk (fun _ => 0)).1 t fun T =>
        { T with handles := T.handles - 1, exclusive := true }) t n false) with ctrlFreed := true, exclusiveCount := s.exclusiveCount + 1 }
    rw [rmw_eq _ _ htc] at hb'' ⊢
    exact inv_toVecOk o.toVecCasOk _ htv h ht hh hp h1 hb''
  | dropRootVec t ht hr ho hp hnb hd =>
    obtain ⟨hdn, hab, hfr, hnh, hidle⟩ := h.consume ht hr ho hp hnb hd
    obtain ⟨hra, hc, hu, hdf⟩ := h.safe
    apply inv_dead hb' rfl
    · intro u hu'
      by_cases e : u = t
      · subst e; simp [doWrite]; exact hnh u hu'
      · simp [doWrite, e]; exact hnh u hu'
    · intro u hu'
      by_cases e : u = t
      · subst e; simp [doWrite]; exact hidle u hu'
      · simp [doWrite, e]; exact hidle u hu'
    · refine ⟨?_, hc, ?_, ?_⟩
      · show (s.race || !allBefore s t n) = false
        rw [hra, hab]; rfl
      · show (s.uaf || (s.freed && !true)) = false
        rw [hu, hfr]; rfl
      · show (s.doubleFree || (s.freed && true)) = false
        rw [hdf, hfr]; rfl
    · intro _; exact h.un hdn
    · intro e; exact absurd hdn e
    · intro v hv
      have : s.data = some v := hv
      rw [hdn] at this; cases this
    · intro u hu'
      by_cases e : u = t
      · subst e; simp [doWrite]; exact h.seen_le u hu'
      · simp [doWrite, e]; exact h.seen_le u hu'
    · intro u _ _ w e hi
      have : s.ctrlInit = some (w, e) := hi
      rw [(h.un hdn).2.1] at this; cases this
  | takeRootVec t ht hr ho hp hnb hd =>
    obtain ⟨hdn, hab, hfr, hnh, hidle⟩ := h.consume ht hr ho hp hnb hd
    obtain ⟨hra, hc, hu, hdf⟩ := h.safe
    apply inv_dead hb' rfl
    · intro u hu'
      by_cases e : u = t
      · subst e; simp [setTh, doWrite]; exact hnh u hu'
      · simp [setTh, doWrite, e]; exact hnh u hu'
    · intro u hu'
      by_cases e : u = t
      · subst e; simp [setTh, doWrite]; exact hidle u hu'
      · simp [setTh, doWrite, e]; exact hidle u hu'
    · refine ⟨?_, hc, ?_, ?_⟩
      · show (s.race || !allBefore s t n) = false
        rw [hra, hab]; rfl
      · show (s.uaf || (s.freed && !false)) = false
        rw [hu, hfr]; rfl
      · show (s.doubleFree || (s.freed && false)) = false
        rw [hdf, hfr]; rfl
    · intro _; exact h.un hdn
    · intro e; exact absurd hdn e
    · intro v hv
      have : s.data = some v := hv
      rw [hdn] at this; cases this
    · intro u hu'
      by_cases e : u = t
      · subst e; simp [setTh, doWrite]; exact h.seen_le u hu'
      · simp [setTh, doWrite, e]; exact h.seen_le u hu'
    · intro u _ _ w e hi
      have : s.ctrlInit = some (w, e) := hi
      rw [(h.un hdn).2.1] at this; cases this
  | casOk t ht hp hd =>
    exact inv_casOk _ h ht hp hd (by simp [hpc, tick]) hb'

theorem inv_init {n} (hn : 0 < n) : Inv n init := by
  have hcu : ∀ v, canUseRoot init v → v = 0 := by
    intro v hc
    rcases hc.2 with hc | hc
    · exact hc.symm
    · simp [init] at hc
  refine
    { basic := basic_init hn
      un := fun _ => ⟨rfl, rfl, rfl⟩
      pr := fun hd => by simp [init] at hd
      dataView := fun v hd => by simp [init] at hd
      seen_le := fun u _ => by simp [init]
      count := fun hd => by simp [init] at hd
      hs_seen := fun u _ hx => by simp [init, Busy] at hx
      ctrlOrd := fun t _ hd => by simp [init] at hd
      failed_h := fun u _ hp => by simp [init] at hp
      dying := fun u _ hd => by rcases hd with hd | hd <;> simp [init] at hd
      ctrl0 := fun hc => by simp [init] at hc
      freed_cases := fun hf => by simp [init] at hf
      safe := ⟨rfl, rfl, rfl, rfl⟩
      noStale := fun t _ hh => by simp [init] at hh
      rootNoStale := fun _ k m _ hk => by simp [init] at hk
      covR := fun _ u _ => Or.inl (Nat.zero_le _)
      covW := fun v _ hhv w e hl => by
        have hv0 : v = 0 := by
          rcases hhv with hhv | hhv
          · simp [init] at hhv
          · exact hcu v hhv
        subst hv0
        have : init.lastWrite = some (0, 1) := rfl
        rw [this] at hl; cases hl
        simp [init, tick, VC.zero]
      covW0 := fun hd => by simp [init] at hd
      loaded := fun t _ hp => by simp [init] at hp
      droppedSeen := fun t _ hp => by simp [init] at hp }

/-- once the control block has been dismantled the root is gone and no handle is left -/
theorem Inv.ctrlFreed_dead {n : Nat} {s : St} (h : Inv n s) (hf : s.ctrlFreed = true) :
    s.rootLive = false ∧ total s n = 0 := by
  have hd : s.data ≠ none := fun e => by rw [(h.un e).2.2] at hf; cases hf
  have hc := h.count hd
  rw [h.ctrl0 hf] at hc
  refine ⟨?_, by omega⟩
  cases hr : s.rootLive with
  | false => rfl
  | true => rw [rootCnt_of_live hr] at hc; omega

theorem reach_inv {o : POrds} {n s} (hs : Sufficient o = true) (hn : 0 < n) (hr : Reach o n s) :
    Inv n s := by
  induction hr with
  | init => exact inv_init hn
  | step _ hst ih => exact inv_step hs ih hst

end BytesVerif.Promo
