/-
Group B (README §5): the sharing operations `slice`, `splitTo`, `split`, `truncate`, `clear`, `advance`.
-/
import BytesVerif.Lemmas.Core.OpsPilot
set_option linter.unusedVariables false
namespace BytesVerif.Core
namespace OpsB

/-! ## spec-side rewriting -/

theorem Spec_stepOk_slice {a : Spec.St} {i : Nat} {x : SH} (h : Spec.get a i = some x) (lo hi : Nat)
    (v : Val) :
    Spec.stepOk (.slice i lo hi) v a = a ++ [some ⟨.bytes, (x.val.drop lo).take (hi - lo)⟩] := by
  simp [Spec.stepOk, h]

theorem Spec_stepOk_splitTo {a : Spec.St} {i : Nat} {x : SH} (h : Spec.get a i = some x) (k : Nat)
    (v : Val) :
    Spec.stepOk (.splitTo i k) v a =
      a.set i (some ⟨x.kind, x.val.drop k⟩) ++ [some ⟨x.kind, x.val.take k⟩] := by
  simp [Spec.stepOk, h, Spec.setAt]

theorem Spec_stepOk_split {a : Spec.St} {i : Nat} {x : SH} (h : Spec.get a i = some x) (v : Val) :
    Spec.stepOk (.split i) v a = a.set i (some ⟨x.kind, []⟩) ++ [some x] := by
  simp [Spec.stepOk, h, Spec.setAt]

theorem Spec_stepOk_truncate {a : Spec.St} {i : Nat} {x : SH} (h : Spec.get a i = some x) (n : Nat)
    (v : Val) :
    Spec.stepOk (.truncate i n) v a = a.set i (some ⟨x.kind, x.val.take n⟩) := by
  simp [Spec.stepOk, h, Spec.setAt]

theorem Spec_stepOk_clear {a : Spec.St} {i : Nat} {x : SH} (h : Spec.get a i = some x) (v : Val) :
    Spec.stepOk (.clear i) v a = a.set i (some ⟨x.kind, []⟩) := by
  simp [Spec.stepOk, h, Spec.setAt]

theorem Spec_stepOk_advance {a : Spec.St} {i : Nat} {x : SH} (h : Spec.get a i = some x) (n : Nat)
    (v : Val) :
    Spec.stepOk (.advance i n) v a = a.set i (some ⟨x.kind, x.val.drop n⟩) := by
  simp [Spec.stepOk, h, Spec.setAt]

/-- `abs` of "replace slot `i`" when no region changed -/
theorem absL_set_some {R : List Region} {hs : List (Option Handle)} {i : Nat} {h1 : Handle}
    {v1 : List Byte} (hv1 : viewOfL R h1 = some v1) :
    absL R (hs.set i (some h1)) = (absL R hs).set i (some ⟨kindOf h1, v1⟩) := by
  simp [absL_set, hv1]

/-! ## sub-ranges that keep the end of the buffer (valid for every `Bytes` representation) -/

/-- a suffix `[o, off+len)` of a `Bytes` view is fine for every representation, including the
un-promoted promotable one (whose view must end at the end of the allocation) -/
theorem handleOKL_bytes_suffix {R : List Region} {C : List CtrlE} {repr : BRepr} {reg : Option Nat}
    {off len o l : Nat} (hok : handleOKL R C (.bytes repr reg off len) = true)
    (hs : BSub off len o l) (hend : o + l = off + len) :
    handleOKL R C (.bytes repr reg o l) = true := by
  cases repr with
  | prom vt oc =>
    cases oc with
    | none =>
      obtain ⟨⟨r, h1, h2, h3, h4⟩, hrd⟩ := handleOKL_promV.mp hok
      exact handleOKL_promV.mpr ⟨⟨r, h1, h2, by omega, h4⟩, rdL_isSome_sub hrd hs⟩
    | some c => exact handleOKL_bytes_sub hok hs (by intro vt h; cases h)
  | «static» => exact handleOKL_bytes_sub hok hs (by intro vt h; cases h)
  | owned c => exact handleOKL_bytes_sub hok hs (by intro vt h; cases h)
  | shared c => exact handleOKL_bytes_sub hok hs (by intro vt h; cases h)
  | sharedV c => exact handleOKL_bytes_sub hok hs (by intro vt h; cases h)

theorem statOK_bytes_sub {R : List Region} {repr : BRepr} {reg : Option Nat} {off len o l : Nat}
    (h : statOK R (.bytes repr reg off len)) (hs : BSub off len o l) :
    statOK R (.bytes repr reg o l) := by
  cases repr with
  | «static» => exact statOK_sub h hs
  | _ => trivial

theorem ctrlOf_bytes_congr (repr : BRepr) (reg reg' : Option Nat) (off len o l : Nat) :
    ctrlOf (.bytes repr reg' o l) = ctrlOf (.bytes repr reg off len) := by
  cases repr with
  | prom vt oc => cases oc <;> rfl
  | _ => rfl

theorem directRegion_bytes_congr (repr : BRepr) (reg : Option Nat) (off len o l : Nat) :
    directRegion (.bytes repr reg o l) = directRegion (.bytes repr reg off len) := by
  cases repr with
  | prom vt oc => cases oc <;> rfl
  | _ => rfl

/-! ## advance -/

/-- `advance_unchecked(n)` on the `BytesMut` in slot `i` (`n ≤ len`), followed by storing the result
back into slot `i`: KIND_ARC and the in-range KIND_VEC case are `Inv_set_sub`, the KIND_VEC case whose
position would exceed `MAX_VEC_POS` is `Inv_promote`. -/
theorem mutAdvance_spec (cfg : Cfg) {s : St} (hI : Inv s) {i : Nat} {arc reg : Option Nat}
    {off len cap orig n : Nat} (hi : s.hs[i]? = some (some (.mut arc reg off len cap orig)))
    (hn : n ≤ len) {v : List Byte} (hv : rdL s.regions reg off len = some v) :
    ∃ (h' : Handle) (C' : List CtrlE) (ev : List Ev),
      mutAdvanceUnchecked cfg (.mut arc reg off len cap orig) n s =
        .ok h' ⟨s.regions, C', s.hs, s.owners, ev⟩ ∧
      (∀ ev', Inv ⟨s.regions, C', s.hs.set i (some h'), s.owners, ev'⟩) ∧
      viewOfL s.regions h' = some (v.drop n) ∧ kindOf h' = .mut := by
  have hok := hI.hok i _ hi
  have hrd0 := handleOKL_rd hok
  simp only [hreg, hoff, hlen] at hrd0
  have hrdn : (rdL s.regions reg (off + n) (len - n)).isSome = true :=
    rdL_isSome_sub hrd0 ⟨by omega, by omega⟩
  have hvn : ∀ a c g, viewOfL s.regions (.mut a reg (off + n) (len - n) c g) = some (v.drop n) :=
    fun a c g => rdL_drop hv n
  by_cases h0 : n = 0
  · -- nothing happens
    subst h0
    refine ⟨.mut arc reg off len cap orig, s.ctrls, s.events, by simp [mutAdvanceUnchecked], ?_, ?_, rfl⟩
    · intro ev'; rw [set_self hi]; exact Inv_events hI ev'
    · simpa [viewOfL, hreg, hoff, hlen] using hv
  cases arc with
  | some c =>
    obtain ⟨hlc, ⟨vlen, vcap, vorig, hlive, hcap⟩, _⟩ := handleOKL_mutA.mp hok
    refine ⟨_, s.ctrls, s.events, mutAdvanceUnchecked_arc cfg (by omega) s, ?_, hvn _ _ _, rfl⟩
    intro ev'
    exact Inv_set_sub hI (h' := .mut (some c) reg (off + n) (len - n) (cap - n) orig) hi rfl rfl
      (handleOKL_mutA.mpr ⟨by omega, ⟨vlen, vcap, vorig, hlive, by omega⟩, hrdn⟩) trivial
      (spanSub_mut ⟨by omega, by omega, by omega, .inr (by omega)⟩) (fun h => h) ev'
  | none =>
    obtain ⟨hlc, hoffb, hregc, _⟩ := handleOKL_mutV.mp hok
    have hnc : n ≤ cap := by omega
    by_cases hpos : off + n ≤ W / 32 - 1
    · refine ⟨.mut none reg (off + n) (len - n) (cap - n) orig, s.ctrls, s.events, ?_, ?_, hvn _ _ _, rfl⟩
      · simp [mutAdvanceUnchecked, h0, dassert_eq cfg (cond := decide (n ≤ cap)) (by simpa using hnc),
          usub_eq cfg hnc, hpos]
      · intro ev'
        refine Inv_set_sub hI (h' := .mut none reg (off + n) (len - n) (cap - n) orig) hi rfl rfl
          (handleOKL_mutV.mpr ⟨by omega, hpos, ?_, hrdn⟩) trivial
          (spanSub_mut ⟨by omega, by omega, by omega, .inr (by omega)⟩) (fun h => h) ev'
        cases reg with
        | none => simp only at hregc ⊢; omega
        | some r => simp only at hregc ⊢; exact ⟨hregc.1, by omega⟩
    · -- promote_to_shared(1)
      let c := s.ctrls.length
      let ct := Ctrl.sharedV reg (off + len) (off + cap) orig
      refine ⟨.mut (some c) reg (off + n) (len - n) (cap - n) orig, s.ctrls ++ [⟨ct, 1, true⟩],
        .allocCtrl c :: s.events, ?_, ?_, hvn _ _ _, rfl⟩
      · simp [mutAdvanceUnchecked, h0, dassert_eq cfg (cond := decide (n ≤ cap)) (by simpa using hnc),
          usub_eq cfg hnc, hpos, c, ct]
      · intro ev'
        have hlive : liveCtrlL (s.ctrls ++ [⟨ct, 1, true⟩]) c = some ct := by simp [c, liveCtrlL_new]
        have hbuf : ctrlBufOK s.regions s.owners ct := by
          cases reg with
          | none => simpa [ct, ctrlBufOK] using hregc
          | some r => exact ⟨hregc.1, hregc.2.symm⟩
        exact Inv_promote hI (h' := .mut (some c) reg (off + n) (len - n) (cap - n) orig) (ct := ct) hi rfl
          (by cases reg <;> rfl) rfl
          (spanSub_mut ⟨by omega, by omega, by omega, .inr (by omega)⟩) (fun h => h)
          (handleOKL_mutA.mpr ⟨by omega, ⟨off + len, off + cap, orig, hlive, by omega⟩, hrdn⟩)
          hbuf (by intro o h; simp [ct] at h) ev'

theorem step_advance (cfg : Cfg) (e : Env) (i n : Nat) (s : St) (hw : WFx s) :
    StepOKx cfg e (.advance i n) s := by
  have hI := hw.inv
  unfold StepOKx
  simp only [step, bind_apply]
  have hpanic : WFx s ∧ abs s = Spec.stepPanic (.advance i n) (abs s) := ⟨hw, rfl⟩
  rcases getHandle_cases s i with ⟨h, hi, hg⟩ | ⟨hn, hg⟩
  · simp only [hg]
    obtain ⟨v, hv, hvl⟩ := hI.view hi
    have hspec : ∀ x, Spec.stepOk (.advance i n) x (abs s) =
        (absL s.regions s.hs).set i (some ⟨kindOf h, v.drop n⟩) := by
      intro x; rw [abs_eq]; exact Spec_stepOk_advance (Spec_get_absL hi hv) n x
    simp only [hspec]
    cases h with
    | bytes repr reg off len =>
      simp only [viewOfL, hreg, hoff, hlen] at hv hvl
      by_cases hnl : n > len
      · simp only [hnl, if_true, panic_apply, sat_panic]; exact hpanic
      · simp only [hnl, if_false, bind_apply, setHandle_apply, pure_apply, sat_ok]
        have b : BSub off len (off + n) (len - n) := ⟨by omega, by omega⟩
        refine finish_ok (Inv_set_sub hI hi (ctrlOf_bytes_congr _ _ _ _ _ _ _)
          (directRegion_bytes_congr _ _ _ _ _ _)
          (handleOKL_bytes_suffix (hI.hok i _ hi) b (by omega)) (statOK_bytes_sub (hI.statOK hi) b)
          (spanSub_bytes b) (fun h => h) _) ?_
        have hv' : viewOfL s.regions (.bytes repr reg (off + n) (len - n)) = some (v.drop n) :=
          rdL_drop hv n
        rw [absL_set_some hv']; rfl
    | «mut» arc reg off len cap orig =>
      simp only [viewOfL, hreg, hoff, hlen] at hv hvl
      by_cases hnl : n > len
      · simp only [hnl, if_true, panic_apply, sat_panic]; exact hpanic
      · simp only [hnl, if_false, bind_apply]
        obtain ⟨h', C', ev, heq, hk, hv', hkind⟩ := mutAdvance_spec cfg hI hi (show n ≤ len by omega) hv
        simp only [heq, setHandle_apply, pure_apply, sat_ok]
        refine finish_ok (hk _) ?_
        rw [absL_set_some hv', hkind]; rfl
    | vec reg len cap =>
      simp only [panic_apply, sat_panic]; exact hpanic
  · simp only [hg, sat_panic]; exact hpanic

/-! ## slice -/

theorem step_slice (cfg : Cfg) (e : Env) (i lo hi : Nat) (s : St) (hw : WFx s) :
    StepOKx cfg e (.slice i lo hi) s := by
  have hI := hw.inv
  unfold StepOKx
  simp only [step, bind_apply]
  have hpanic : WFx s ∧ abs s = Spec.stepPanic (.slice i lo hi) (abs s) := ⟨hw, rfl⟩
  rcases getHandle_cases s i with ⟨h, hi', hg⟩ | ⟨hn, hg⟩
  · simp only [hg]
    obtain ⟨v, hv, hvl⟩ := hI.view hi'
    have hspec : ∀ x, Spec.stepOk (.slice i lo hi) x (abs s) =
        absL s.regions s.hs ++ [some ⟨.bytes, (v.drop lo).take (hi - lo)⟩] := by
      intro x; rw [abs_eq]; exact Spec_stepOk_slice (Spec_get_absL hi' hv) lo hi x
    simp only [hspec]
    cases h with
    | bytes repr reg off len =>
      simp only [viewOfL, hreg, hoff, hlen] at hv hvl
      by_cases h1 : lo > hi
      · simp only [h1, if_true, panic_apply, sat_panic]; exact hpanic
      · simp only [h1, if_false]
        by_cases h2 : hi > len
        · simp only [h2, if_true, panic_apply, sat_panic]; exact hpanic
        · simp only [h2, if_false]
          by_cases h3 : hi = lo
          · subst h3
            simp only [if_true, bind_apply, newHandle_apply, pure_apply, sat_ok]
            refine finish_ok (Inv_push_plain_nospan hI (h' := .bytes .static none 0 0) rfl rfl
              (handleOKL_static.mpr (by simp [rdL_zero])) trivial
              (by intro r o l h; simp [span] at h) _) ?_
            simp [absL_push, viewOfL, hreg, hoff, hlen, rdL_zero, kindOf]
          · simp only [h3, if_false, bind_apply]
            obtain ⟨repr', crepr, C', ev, heq, hk⟩ := bytesClone_spec hI hi'
            simp only [heq, bind_apply, newHandle_apply, pure_apply, sat_ok]
            have b2 : BSub off len (off + lo) (hi - lo) := ⟨by omega, by omega⟩
            refine finish_ok (hk off len (off + lo) (hi - lo) _ (BSub.refl _ _) b2) ?_
            have hv1 : ∀ rp, viewOfL s.regions (.bytes rp reg off len) = some v := fun rp => hv
            have hv2 : ∀ rp, viewOfL s.regions (.bytes rp reg (off + lo) (hi - lo)) =
                some ((v.drop lo).take (hi - lo)) := by
              intro rp
              have := rdL_of_sub hv b2
              rwa [Nat.add_sub_cancel_left] at this
            rw [absL_set_push (hv1 repr') (hv2 crepr)]
            have := set_self (absL_lookup hi' (v := v) (by simpa [viewOfL, hreg, hoff, hlen] using hv))
            simp only [kindOf] at this ⊢
            rw [this]
    | «mut» arc reg off len cap orig =>
      simp only [panic_apply, sat_panic]; exact hpanic
    | vec reg len cap =>
      simp only [panic_apply, sat_panic]; exact hpanic
  · simp only [hg, sat_panic]; exact hpanic

/-! ## splitTo, split -/

theorem step_splitTo (cfg : Cfg) (e : Env) (i k : Nat) (s : St) (hw : WFx s) :
    StepOKx cfg e (.splitTo i k) s := by
  have hI := hw.inv
  unfold StepOKx
  simp only [step, opSplitTo, bind_apply]
  have hpanic : WFx s ∧ abs s = Spec.stepPanic (.splitTo i k) (abs s) := ⟨hw, rfl⟩
  rcases getHandle_cases s i with ⟨h, hi, hg⟩ | ⟨hn, hg⟩
  · simp only [hg]
    obtain ⟨v, hv, hvl⟩ := hI.view hi
    have hspec : ∀ x, Spec.stepOk (.splitTo i k) x (abs s) =
        (absL s.regions s.hs).set i (some ⟨kindOf h, v.drop k⟩) ++ [some ⟨kindOf h, v.take k⟩] := by
      intro x; rw [abs_eq]; exact Spec_stepOk_splitTo (Spec_get_absL hi hv) k x
    simp only [hspec]
    cases h with
    | bytes repr reg off len =>
      simp only [viewOfL, hreg, hoff, hlen] at hv hvl
      simp only [kindOf]
      have hok := hI.hok i _ hi
      by_cases hk1 : k = len
      · -- everything moves to the new handle, `self` becomes the empty handle at the end
        subst hk1
        simp only [if_true, bind_apply, setHandle_apply, pure_apply, newHandle_apply, sat_ok,
          emptyWithPtr]
        refine finish_ok (Inv_set_push_plain hI hi (h1 := .bytes .static reg (off + k) 0)
          (h2 := .bytes repr reg off k) (by intro c; simp [ctrlOf]) (by intro r; simp [directRegion])
          (handleOKL_static.mpr (by simp [rdL_zero])) hok (by cases reg <;> simp [statOK])
          (hI.statOK hi) (spanSub_bytes ⟨by omega, by omega⟩) (spanSub_refl _)
          (by simp [isMutable]) (by simp [isMutable]) (by simp [isMutable]) (by simp [isMutable]) _) ?_
        rw [absL_set_push (v1 := []) (v2 := v) (by simp [viewOfL, hreg, hoff, hlen, rdL_zero])
          (by simpa [viewOfL, hreg, hoff, hlen] using hv)]
        rw [List.take_of_length_le (by omega), List.drop_of_length_le (by omega)]
        rfl
      · simp only [hk1, if_false]
        by_cases hk0 : k = 0
        · -- the head is empty: `new_empty_with_ptr`
          subst hk0
          simp only [if_true, bind_apply, pure_apply, newHandle_apply, sat_ok, emptyWithPtr]
          refine finish_ok (Inv_push_plain_nospan hI rfl rfl
            (handleOKL_static.mpr (by simp [rdL_zero])) (by cases reg <;> simp [statOK])
            (by intro r o l h; cases reg <;> simp [span] at h; omega) _) ?_
          have hself := set_self (absL_lookup hi (v := v) (by simpa [viewOfL, hreg, hoff, hlen] using hv))
          simp only [kindOf] at hself
          simp only [absL_push, viewOfL, hreg, hoff, hlen, rdL_zero, kindOf, Option.map_some,
            List.drop_zero, List.take_zero, hself]
        · simp only [hk0, if_false]
          by_cases hk2 : k > len
          · simp only [hk2, if_true, panic_apply, sat_panic]; exact hpanic
          · simp only [hk2, if_false, bind_apply]
            obtain ⟨repr', crepr, C', ev, heq, hk⟩ := bytesClone_spec hI hi
            have hlt : i < s.hs.length := lookup_lt hi
            have hg' : getHandle i ⟨s.regions, C', s.hs.set i (some (.bytes repr' reg off len)), s.owners, ev⟩
                = .ok (.bytes repr' reg off len) _ :=
              getHandle_eq (by simp [hlt])
            simp only [heq, hg', bind_apply, setHandle_apply, pure_apply, newHandle_apply, sat_ok,
              List.set_set]
            have b1 : BSub off len (off + k) (len - k) := ⟨by omega, by omega⟩
            have b2 : BSub off len off k := ⟨Nat.le_refl _, by omega⟩
            refine finish_ok (hk (off + k) (len - k) off k _ b1 b2) ?_
            have hv2 : ∀ rp, viewOfL s.regions (.bytes rp reg off k) = some (v.take k) := by
              intro rp
              have := rdL_take hv k
              rwa [Nat.min_eq_right (by omega)] at this
            have hv1 : ∀ rp, viewOfL s.regions (.bytes rp reg (off + k) (len - k)) = some (v.drop k) :=
              fun rp => rdL_drop hv k
            rw [absL_set_push (hv1 repr') (hv2 crepr)]
            simp [kindOf]
    | «mut» arc reg off len cap orig =>
      simp only [viewOfL, hreg, hoff, hlen] at hv hvl
      simp only [kindOf]
      by_cases hkc : k > len
      · simp only [hkc, if_true, panic_apply, sat_panic]; exact hpanic
      · simp only [hkc, if_false, bind_apply]
        obtain ⟨c, C', ev, heq, hk⟩ := mutShallowClone_spec hI hi
        have hlc : len ≤ cap := by
          have hok := hI.hok i _ hi
          cases arc with
          | none => exact (handleOKL_mutV.mp hok).1
          | some c' => exact (handleOKL_mutA.mp hok).1
        simp only [heq, mutAdvanceUnchecked_arc cfg (show k ≤ cap by omega), bind_apply, setHandle_apply,
          newHandle_apply, pure_apply, sat_ok]
        have m1 : MSub off len cap (off + k) (len - k) (cap - k) :=
          ⟨by omega, by omega, by omega, by omega⟩
        have m2 : MSub off len cap off k k :=
          ⟨Nat.le_refl _, by omega, Nat.le_refl _, .inr (by omega)⟩
        refine finish_ok (hk (off + k) (len - k) (cap - k) off k k _ m1 m2 (.inr (Nat.le_refl _))) ?_
        have hv2 : viewOfL s.regions (.mut (some c) reg off k k orig) = some (v.take k) := by
          have := rdL_take hv k
          rwa [Nat.min_eq_right (by omega)] at this
        have hv1 : viewOfL s.regions (.mut (some c) reg (off + k) (len - k) (cap - k) orig) = some (v.drop k) :=
          rdL_drop hv k
        rw [absL_set_push hv1 hv2]
        simp [kindOf]
    | vec reg len cap =>
      simp only [panic_apply, sat_panic]; exact hpanic
  · simp only [hg, sat_panic]; exact hpanic

theorem step_split (cfg : Cfg) (e : Env) (i : Nat) (s : St) (hw : WFx s) :
    StepOKx cfg e (.split i) s := by
  have hI := hw.inv
  have hpanic : WFx s ∧ abs s = Spec.stepPanic (.split i) (abs s) := ⟨hw, rfl⟩
  rcases getHandle_cases s i with ⟨h, hi, hg⟩ | ⟨hn, hg⟩
  · obtain ⟨v, hv, hvl⟩ := hI.view hi
    cases h with
    | «mut» arc reg off len cap orig =>
      have hstep : step cfg e (.split i) s = step cfg e (.splitTo i len) s := by
        simp only [step, bind_apply, hg]
      have h2 := step_splitTo cfg e i len s hw
      unfold StepOKx at h2 ⊢
      rw [hstep]
      refine R.sat_mono h2 ?_ (fun s' h => h)
      intro x s' ⟨h3, h4⟩
      refine ⟨h3, ?_⟩
      rw [h4, abs_eq, Spec_stepOk_splitTo (Spec_get_absL hi hv), Spec_stepOk_split (Spec_get_absL hi hv)]
      simp only [hlen] at hvl
      simp only []
      rw [List.take_of_length_le (by omega), List.drop_of_length_le (by omega)]
    | bytes repr reg off len =>
      unfold StepOKx
      simp only [step, bind_apply, hg, panic_apply, sat_panic]; exact hpanic
    | vec reg len cap =>
      unfold StepOKx
      simp only [step, bind_apply, hg, panic_apply, sat_panic]; exact hpanic
  · unfold StepOKx
    simp only [step, bind_apply, hg, sat_panic]; exact hpanic

/-! ## `bytesSplitOffCore` followed by registration of the tail (factored out of `step_splitOff`) -/

/-- `Bytes::split_off(k)` on slot `i`: panics (state untouched) iff `k > len`; otherwise slot `i` becomes
`.bytes repr' reg off k`, the returned tail is `.bytes orepr reg (off + k) (len - k)`, regions are
unchanged, and registering the tail re-establishes the invariant.  (For the variant where the tail is
dropped instead — `truncate` — see `truncate_prom`.) -/
theorem bytesSplitOffCore_spec {s : St} (hI : Inv s) {i : Nat} {repr : BRepr} {reg : Option Nat}
    {off len : Nat} (hi : s.hs[i]? = some (some (.bytes repr reg off len))) (k : Nat) :
    (k > len ∧ bytesSplitOffCore i k s = .panic s) ∨
    (k ≤ len ∧ ∃ (repr' orepr : BRepr) (C' : List CtrlE) (ev : List Ev),
      bytesSplitOffCore i k s = .ok (.bytes orepr reg (off + k) (len - k))
        ⟨s.regions, C', s.hs.set i (some (.bytes repr' reg off k)), s.owners, ev⟩ ∧
      ∀ ev', Inv ⟨s.regions, C',
        s.hs.set i (some (.bytes repr' reg off k)) ++ [some (.bytes orepr reg (off + k) (len - k))],
        s.owners, ev'⟩) := by
  have hok := hI.hok i _ hi
  by_cases hk1 : k = len
  · subst hk1
    refine .inr ⟨Nat.le_refl _, repr, .static, s.ctrls, s.events, ?_, ?_⟩
    · simp [bytesSplitOffCore, getHandle_eq hi, emptyWithPtr, set_self hi]
    · intro ev'
      rw [set_self hi, Nat.sub_self]
      exact Inv_push_plain_nospan hI rfl rfl
        (handleOKL_static.mpr (by simp [rdL_zero])) (by cases reg <;> simp [statOK])
        (by intro r o l h; cases reg <;> simp [span] at h; omega) ev'
  by_cases hk0 : k = 0
  · subst hk0
    refine .inr ⟨Nat.zero_le _, .static, repr, s.ctrls, s.events, ?_, ?_⟩
    · simp [bytesSplitOffCore, getHandle_eq hi, emptyWithPtr]
      intro h; exact (hk1 h).elim
    · intro ev'
      exact Inv_set_push_plain hI hi (h1 := .bytes .static reg off 0)
        (h2 := .bytes repr reg off len) (by intro c; simp [ctrlOf]) (by intro r; simp [directRegion])
        (handleOKL_static.mpr (by simp [rdL_zero])) hok (by cases reg <;> simp [statOK])
        (hI.statOK hi) (spanSub_bytes ⟨Nat.le_refl _, by omega⟩) (spanSub_refl _)
        (by simp [isMutable]) (by simp [isMutable]) (by simp [isMutable]) (by simp [isMutable]) ev'
  by_cases hk2 : k > len
  · exact .inl ⟨hk2, by simp [bytesSplitOffCore, getHandle_eq hi, hk1, hk0, hk2]⟩
  · obtain ⟨repr', crepr, C', ev, heq, hk⟩ := bytesClone_spec hI hi
    have hlt : i < s.hs.length := lookup_lt hi
    have hg' : getHandle i ⟨s.regions, C', s.hs.set i (some (.bytes repr' reg off len)), s.owners, ev⟩
        = .ok (.bytes repr' reg off len) _ :=
      getHandle_eq (by simp [hlt])
    refine .inr ⟨by omega, repr', crepr, C', ev, ?_, ?_⟩
    · simp only [bytesSplitOffCore, bind_apply, getHandle_eq hi, hk1, hk0, hk2, if_false, heq, hg',
        setHandle_apply, pure_apply, List.set_set]
    · intro ev'
      exact hk off k (off + k) (len - k) ev' ⟨Nat.le_refl _, by omega⟩ ⟨by omega, by omega⟩

/-! ## truncate, clear -/

/-- after a kill transition (slot `i` is `none`), put an empty STATIC handle into slot `i` -/
theorem Inv_refill_static {s : St} {R' : List Region} {C' : List CtrlE} {ow : Nat} {ev : List Ev} {i : Nat}
    (hK : Inv ⟨R', C', s.hs.set i none, ow, ev⟩) (hlt : i < s.hs.length) (reg : Option Nat) (off : Nat)
    (ev' : List Ev) :
    Inv ⟨R', C', s.hs.set i (some (.bytes .static reg off 0)), ow, ev'⟩ := by
  have := Inv_fill_plain hK (i := i) (h' := .bytes .static reg off 0) (by simp [hlt]) rfl rfl
    (handleOKL_static.mpr (by simp [rdL_zero])) (by cases reg <;> simp [statOK])
    (by intro r o l h; cases reg <;> simp [span] at h; omega) ev'
  simpa [List.set_set] using this

/-- `drop(self.split_off(n))` on a promotable `Bytes` with `n < len` (`Bytes::truncate`): the tail handle
returned by `bytesSplitOffCore` is never registered, it is dropped at once.  Net effect:
`n = 0`: the buffer is released and slot `i` becomes the empty handle (kill + fill);
`n ≠ 0`, promoted: `incCtrl` then `releaseCtrl` cancel, slot `i` shrinks (`Inv_set_sub`);
`n ≠ 0`, KIND_VEC: the handle is promoted with final count 1 (`Inv_promote`). -/
theorem truncate_prom {s : St} (hI : Inv s) {i : Nat} {vt : Bool} {oc : Option Nat} {reg : Option Nat}
    {off len n : Nat} (hi : s.hs[i]? = some (some (.bytes (.prom vt oc) reg off len))) (hn : n < len)
    {v : List Byte} (hv : rdL s.regions reg off len = some v) :
    ∃ o s1 s', bytesSplitOffCore i n s = .ok o s1 ∧ bytesDrop o s1 = .ok () s' ∧ Inv s' ∧
      absL s'.regions s'.hs = (absL s.regions s.hs).set i (some ⟨.bytes, v.take n⟩) := by
  have hok := hI.hok i _ hi
  have hlt : i < s.hs.length := lookup_lt hi
  have hne : ¬ n = len := by omega
  have hgt : ¬ n > len := by omega
  by_cases h0 : n = 0
  · subst h0
    have habs : ∀ (R' : List Region),
        (∀ (j : Nat) (b : Handle), j ≠ i → s.hs[j]? = some (some b) → viewOfL R' b = viewOfL s.regions b) →
        absL R' (s.hs.set i (some (.bytes .static reg off 0))) =
          (absL s.regions s.hs).set i (some ⟨.bytes, List.take 0 v⟩) := by
      intro R' hview
      rw [absL_set_of_view _ hview]
      simp [viewOfL, hreg, hoff, hlen, rdL_zero, kindOf]
    have hsplit : bytesSplitOffCore i 0 s = .ok (.bytes (.prom vt oc) reg off len)
        { s with hs := s.hs.set i (some (.bytes .static reg off 0)) } := by
      simp [bytesSplitOffCore, getHandle_eq hi, hne, emptyWithPtr]
    suffices key : ∃ s', bytesDrop (.bytes (.prom vt oc) reg off len)
        { s with hs := s.hs.set i (some (.bytes .static reg off 0)) } = .ok () s' ∧ Inv s' ∧
        absL s'.regions s'.hs = (absL s.regions s.hs).set i (some ⟨.bytes, List.take 0 v⟩) by
      obtain ⟨s', h2, h3, h4⟩ := key
      exact ⟨_, _, s', hsplit, h2, h3, h4⟩
    clear hsplit
    cases oc with
    | some c =>
      obtain ⟨e, he, hl, hrc, h1, hb⟩ := hI.ctrl_of_handle hi (c := c) rfl
      rcases releaseCtrl_cases (s := { s with hs := s.hs.set i (some (.bytes .static reg off 0)) })
          he hl h1 hb hI.regs with ⟨hne1, heq⟩ | ⟨h1', ev, heq⟩
      · refine ⟨_, by simpa [bytesDrop] using heq,
          Inv_refill_static (Inv_kill_dec hI hi rfl he hl hne1 s.events) hlt reg off _, ?_⟩
        exact habs _ (fun _ _ _ _ => rfl)
      · obtain ⟨hI', hview⟩ := Inv_kill_last hI hi (c := c) rfl he hl h1' ev
        refine ⟨_, by simpa [bytesDrop] using heq, Inv_refill_static hI' hlt reg off _, ?_⟩
        exact habs _ hview
    | none =>
      obtain ⟨⟨r, hreg', hlive, hsz, hvt⟩, _⟩ := handleOKL_promV.mp hok
      subst hreg'
      obtain ⟨rg, hr, _, _, heq⟩ :=
        freeRegion_of_heapLive (s := { s with hs := s.hs.set i (some (.bytes .static (some r) off 0)) })
          hlive hsz.symm
      obtain ⟨hI', hview⟩ := Inv_kill_direct hI hi (r0 := r) rfl hr (.dealloc r (off + len) :: s.events)
      refine ⟨⟨s.regions.set r rg.kill, s.ctrls, s.hs.set i (some (.bytes .static (some r) off 0)),
        s.owners, .dealloc r (off + len) :: s.events⟩, ?_, Inv_refill_static hI' hlt (some r) off _,
        habs _ hview⟩
      simp only [bytesDrop, bind_apply,
        promDecode_eq (s := { s with hs := s.hs.set i (some (.bytes .static (some r) off 0)) }) hlive hvt, heq]
  · have b1 : BSub off len off n := ⟨Nat.le_refl _, by omega⟩
    have hv1 : ∀ rp, viewOfL s.regions (.bytes rp reg off n) = some (v.take n) := by
      intro rp
      have := rdL_take hv n
      rwa [Nat.min_eq_right (by omega)] at this
    cases oc with
    | some c =>
      obtain ⟨e, he, hl, hrc, h1, hb⟩ := hI.ctrl_of_handle hi (c := c) rfl
      obtain ⟨ct, rc, live⟩ := e
      simp only at hl h1; subst hl
      have hsplit : bytesSplitOffCore i n s = .ok (.bytes (.shared c) reg (off + n) (len - n))
          ⟨s.regions, s.ctrls.set c ⟨ct, rc + 1, true⟩,
            s.hs.set i (some (.bytes (.prom vt (some c)) reg off n)), s.owners, s.events⟩ := by
        simp [bytesSplitOffCore, getHandle_eq hi, hne, h0, hgt, bytesClone, incCtrl_eq he rfl]
        simp [getHandle, hi]
      refine ⟨_, _, ⟨s.regions, s.ctrls, s.hs.set i (some (.bytes (.prom vt (some c)) reg off n)),
        s.owners, s.events⟩, hsplit, ?_, ?_, ?_⟩
      · have hd := releaseCtrl_dec (s := ⟨s.regions, s.ctrls.set c ⟨ct, rc + 1, true⟩,
            s.hs.set i (some (.bytes (.prom vt (some c)) reg off n)), s.owners, s.events⟩)
          (c := c) (e := ⟨ct, rc + 1, true⟩) (lookup_set_eq _ he) rfl (by simp) (by simp; omega)
        simp only [bytesDrop, hd, List.set_set, Nat.add_sub_cancel, set_self he]
      · exact Inv_set_sub hI (h' := .bytes (.prom vt (some c)) reg off n) hi rfl rfl
          (handleOKL_bytes_sub hok b1 (by intro vt h; cases h)) trivial (spanSub_bytes b1) (fun h => h) _
      · exact absL_set_some (hv1 _)
    | none =>
      obtain ⟨⟨r, hreg', hlive, hsz, hvt⟩, hrd⟩ := handleOKL_promV.mp hok
      subst hreg'
      let c := s.ctrls.length
      let ct := Ctrl.sharedB r (off + len)
      have hsplit : bytesSplitOffCore i n s = .ok (.bytes (.shared c) (some r) (off + n) (len - n))
          ⟨s.regions, s.ctrls ++ [⟨ct, 2, true⟩],
            s.hs.set i (some (.bytes (.prom vt (some c)) (some r) off n)), s.owners,
            .allocCtrl c :: s.events⟩ := by
        simp [bytesSplitOffCore, getHandle_eq hi, hne, h0, hgt, bytesClone, promDecode_eq hlive hvt, c, ct]
        simp [getHandle, hlt]
      refine ⟨_, _, ⟨s.regions, s.ctrls ++ [⟨ct, 1, true⟩],
        s.hs.set i (some (.bytes (.prom vt (some c)) (some r) off n)), s.owners,
        .allocCtrl c :: s.events⟩, hsplit, ?_, ?_, ?_⟩
      · have hd := releaseCtrl_dec (s := ⟨s.regions, s.ctrls ++ [⟨ct, 2, true⟩],
            s.hs.set i (some (.bytes (.prom vt (some c)) (some r) off n)), s.owners,
            .allocCtrl c :: s.events⟩)
          (c := c) (e := ⟨ct, 2, true⟩) (lookup_append_new _ _) rfl (by simp) (by simp)
        simp only [bytesDrop, hd, c, list_set_append_length]
      · have hlc : liveCtrlL (s.ctrls ++ [⟨ct, 1, true⟩]) c = some ct := by
          simp [c, liveCtrlL_new]
        exact Inv_promote hI (h' := .bytes (.prom vt (some c)) (some r) off n) (ct := ct) hi rfl rfl
          rfl (spanSub_bytes b1) (fun h => h)
          (handleOKL_promA.mpr ⟨⟨r, off + len, hlc, rfl, b1.2⟩, rdL_isSome_sub hrd b1⟩)
          ⟨hlive, hsz.symm⟩ (by intro o h; simp [ct] at h) _
      · exact absL_set_some (hv1 _)

/-- postcondition of `opTruncate`: slot `i` was live and now holds the first `n` bytes of its view -/
def TruncPost (s : St) (i n : Nat) (s' : St) : Prop :=
  WFx s' ∧ ∃ (h : Handle) (v : List Byte), s.hs[i]? = some (some h) ∧ viewOfL s.regions h = some v ∧
    abs s' = (absL s.regions s.hs).set i (some ⟨kindOf h, v.take n⟩)

/-- `truncate(n)` on any handle; `clear` is `truncate(0)` -/
theorem opTruncate_spec (i n : Nat) (s : St) (hw : WFx s) :
    (opTruncate i n s).sat (fun _ s' => TruncPost s i n s') (fun s' => s' = s) := by
  have hI := hw.inv
  simp only [opTruncate, bind_apply]
  rcases getHandle_cases s i with ⟨h, hi, hg⟩ | ⟨hn, hg⟩
  · simp only [hg]
    obtain ⟨v, hv, hvl⟩ := hI.view hi
    have hok := hI.hok i _ hi
    -- what remains to show once the final state is known
    have fin : ∀ {s' : St}, Inv s' →
        absL s'.regions s'.hs = (absL s.regions s.hs).set i (some ⟨kindOf h, v.take n⟩) →
        TruncPost s i n s' := by
      intro s' hI' ha
      exact ⟨hI'.wfx, h, v, hi, hv, by rw [abs_eq]; exact ha⟩
    -- nothing to do: `n ≥ len`
    have noop : n ≥ hlen h → TruncPost s i n s := by
      intro hge
      apply fin hI
      rw [List.take_of_length_le (by omega), set_self (absL_lookup hi hv)]
    cases h with
    | bytes repr reg off len =>
      simp only [viewOfL, hreg, hoff, hlen] at hv hvl noop
      by_cases hnl : n < len
      · simp only [hnl, if_true]
        have b1 : BSub off len off n := ⟨Nat.le_refl _, by omega⟩
        have hv1 : ∀ rp, viewOfL s.regions (.bytes rp reg off n) = some (v.take n) := by
          intro rp
          have := rdL_take hv n
          rwa [Nat.min_eq_right (by omega)] at this
        have plain : ∀ (hp : ∀ vt, repr ≠ .prom vt none),
            TruncPost s i n { s with hs := s.hs.set i (some (.bytes repr reg off n)) } := by
          intro hp
          exact fin (Inv_set_sub hI hi (ctrlOf_bytes_congr _ _ _ _ _ _ _)
            (directRegion_bytes_congr _ _ _ _ _ _) (handleOKL_bytes_sub hok b1 hp)
            (statOK_bytes_sub (hI.statOK hi) b1) (spanSub_bytes b1) (fun h => h) _)
            (absL_set_some (hv1 _))
        cases repr with
        | prom vt oc =>
          obtain ⟨o, s1, s', h1, h2, hI', ha⟩ := truncate_prom hI hi hnl hv
          simp only [bind_apply, h1, h2, pure_apply, sat_ok]
          exact fin hI' ha
        | «static» =>
          simp only [bind_apply, setHandle_apply, pure_apply, sat_ok]
          exact plain (by intro vt h; cases h)
        | owned c =>
          simp only [bind_apply, setHandle_apply, pure_apply, sat_ok]
          exact plain (by intro vt h; cases h)
        | shared c =>
          simp only [bind_apply, setHandle_apply, pure_apply, sat_ok]
          exact plain (by intro vt h; cases h)
        | sharedV c =>
          simp only [bind_apply, setHandle_apply, pure_apply, sat_ok]
          exact plain (by intro vt h; cases h)
      · simp only [hnl, if_false, pure_apply, sat_ok]
        exact noop (by omega)
    | «mut» arc reg off len cap orig =>
      simp only [viewOfL, hreg, hoff, hlen] at hv hvl noop
      by_cases hnl : n ≤ len
      · simp only [hnl, if_true, bind_apply, setHandle_apply, pure_apply, sat_ok]
        have hv1 : viewOfL s.regions (.mut arc reg off n cap orig) = some (v.take n) := by
          have := rdL_take hv n
          rwa [Nat.min_eq_right hnl] at this
        have hrd : (rdL s.regions reg off n).isSome = true := by
          simp only [viewOfL, hreg, hoff, hlen] at hv1; simp [hv1]
        refine fin (Inv_set_sub hI (h' := .mut arc reg off n cap orig) hi (by cases arc <;> rfl)
          (by cases arc <;> rfl) ?_ trivial
          (spanSub_mut ⟨Nat.le_refl _, Nat.le_refl _, ?_, .inr (by omega)⟩) (fun h => h) _)
          (absL_set_some hv1)
        · cases arc with
          | none =>
            obtain ⟨h1, h2, h3, _⟩ := handleOKL_mutV.mp hok
            exact handleOKL_mutV.mpr ⟨by omega, h2, h3, hrd⟩
          | some c =>
            obtain ⟨h1, h2, _⟩ := handleOKL_mutA.mp hok
            exact handleOKL_mutA.mpr ⟨by omega, h2, hrd⟩
        · cases arc with
          | none => have := (handleOKL_mutV.mp hok).1; omega
          | some c => have := (handleOKL_mutA.mp hok).1; omega
      · simp only [hnl, if_false, pure_apply, sat_ok]
        exact noop (by omega)
    | vec reg len cap =>
      simp only [viewOfL, hreg, hoff, hlen] at hv hvl noop
      by_cases hnl : n ≤ len
      · simp only [hnl, if_true, bind_apply, setHandle_apply, pure_apply, sat_ok]
        have hv1 : viewOfL s.regions (.vec reg n cap) = some (v.take n) := by
          have := rdL_take hv n
          rwa [Nat.min_eq_right hnl] at this
        have hrd : (rdL s.regions reg 0 n).isSome = true := by
          simp only [viewOfL, hreg, hoff, hlen] at hv1; simp [hv1]
        obtain ⟨h1, h2, _⟩ := handleOKL_vec.mp hok
        refine fin (Inv_set_sub hI (h' := .vec reg n cap) hi rfl rfl
          (handleOKL_vec.mpr ⟨by omega, h2, hrd⟩) trivial ?_ (fun h => h) _)
          (absL_set_some hv1)
        intro r o l hs hl
        cases reg with
        | none => simp [span] at hs
        | some r' => exact ⟨o, l, hs, Nat.le_refl _, Nat.le_refl _⟩
      · simp only [hnl, if_false, pure_apply, sat_ok]
        exact noop (by omega)
  · simp only [hg, sat_panic]

theorem step_truncate (cfg : Cfg) (e : Env) (i n : Nat) (s : St) (hw : WFx s) :
    StepOKx cfg e (.truncate i n) s := by
  unfold StepOKx
  simp only [step]
  refine R.sat_mono (opTruncate_spec i n s hw) ?_ ?_
  · intro x s' ⟨h1, h, v, hi, hv, ha⟩
    refine ⟨h1, ?_⟩
    rw [ha, abs_eq, Spec_stepOk_truncate (Spec_get_absL hi hv)]
  · intro s' h; subst h; exact ⟨hw, rfl⟩

theorem step_clear (cfg : Cfg) (e : Env) (i : Nat) (s : St) (hw : WFx s) :
    StepOKx cfg e (.clear i) s := by
  unfold StepOKx
  simp only [step]
  refine R.sat_mono (opTruncate_spec i 0 s hw) ?_ ?_
  · intro x s' ⟨h1, h, v, hi, hv, ha⟩
    refine ⟨h1, ?_⟩
    rw [ha, abs_eq, Spec_stepOk_clear (Spec_get_absL hi hv)]
    rfl
  · intro s' h; subst h; exact ⟨hw, rfl⟩

end OpsB
end BytesVerif.Core
