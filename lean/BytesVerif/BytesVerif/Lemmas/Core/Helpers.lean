/-
Specifications of the helper functions that several operations share, on top of the transitions
of Trans.lean.  Each `…_spec` gives the execution equation of the helper *and* a continuation clause
"whatever the caller does next within these bounds re-establishes `Inv`", because the state right
after the helper is not well-formed (a reference is counted whose handle is not registered yet).

  drop_release / drop_direct / drop_plain   the three ways a handle is dropped (`bytesDrop`, `mutDrop`,
                                            `vecFree`), from the state where its slot is already `none`
  bytesClone_spec                           the vtable `clone` (incl. promotion of a KIND_VEC promotable)
  mutShallowClone_spec, mutAdvanceUnchecked_arc   `shallow_clone` (incl. `promote_to_shared`) + `advance_unchecked`
  push_vec_spec                             `vecNew e bs cap` followed by registering the new Vec / BytesMut
  BSub / MSub                               "sub-range of a Bytes / piece of a BytesMut", with
                                            handleOKL_bytes_sub, spanSub_bytes, spanSub_mut, rdL_of_sub
  absL_set_push, absL_lookup                `abs` of "replace slot i, append one handle"
-/
import BytesVerif.Lemmas.Core.Trans
set_option linter.unusedVariables false
namespace BytesVerif.Core

/-! ## `abs` helpers -/

theorem absL_set_push {R : List Region} {hs : List (Option Handle)} {i : Nat} {h1 h2 : Handle}
    {v1 v2 : List Byte} (hv1 : viewOfL R h1 = some v1) (hv2 : viewOfL R h2 = some v2) :
    absL R (hs.set i (some h1) ++ [some h2]) =
      (absL R hs).set i (some ⟨kindOf h1, v1⟩) ++ [some ⟨kindOf h2, v2⟩] := by
  simp [absL_push, absL_set, hv1, hv2]

theorem absL_lookup {R : List Region} {hs : List (Option Handle)} {i : Nat} {h : Handle}
    {v : List Byte} (hi : hs[i]? = some (some h)) (hv : viewOfL R h = some v) :
    (absL R hs)[i]? = some (some ⟨kindOf h, v⟩) := by
  simp [absL, List.getElem?_map, hi, hv]


/-! ## dropping a handle -/

/-- dropping a handle that names control block `c` (all shared `Bytes` shapes, KIND_ARC `BytesMut`) -/
theorem drop_release {s : St} (hI : Inv s) {i : Nat} {h : Handle} {c : Nat}
    (hi : s.hs[i]? = some (some h)) (hc : ctrlOf h = some c) :
    ∃ s', releaseCtrl c { s with hs := s.hs.set i none } = .ok () s' ∧
      WFx s' ∧ abs s' = (abs s).set i none := by
  obtain ⟨e, he, hl, hrc, h1, hb⟩ := hI.ctrl_of_handle hi hc
  rcases releaseCtrl_cases (s := { s with hs := s.hs.set i none }) he hl h1 hb hI.regs with
    ⟨hne, heq⟩ | ⟨h1', ev, heq⟩
  · refine ⟨_, heq, finish_ok (Inv_kill_dec hI hi hc he hl hne _) ?_⟩
    rw [abs_eq]; exact absL_set_of_view none (fun _ _ _ _ => rfl)
  · obtain ⟨hI', hv⟩ := Inv_kill_last hI hi hc he hl h1' ev
    refine ⟨_, heq, finish_ok hI' ?_⟩
    rw [abs_eq]; exact absL_set_of_view none hv

/-- dropping a handle that owns region `r` directly: `dealloc(r, size)` -/
theorem drop_direct {s : St} (hI : Inv s) {i : Nat} {h : Handle} {r size : Nat}
    (hi : s.hs[i]? = some (some h)) (hd : directRegion h = some r)
    (hs : regionSizeL s.regions r = size) :
    ∃ s', freeRegion r size { s with hs := s.hs.set i none } = .ok () s' ∧
      WFx s' ∧ abs s' = (abs s).set i none := by
  have hlive := handleOKL_direct (hI.hok i h hi) hd
  obtain ⟨rg, hr, _, _, heq⟩ :=
    freeRegion_of_heapLive (s := { s with hs := s.hs.set i none }) hlive hs
  obtain ⟨hI', hv⟩ := Inv_kill_direct hI hi hd hr (.dealloc r size :: s.events)
  refine ⟨_, heq, finish_ok hI' ?_⟩
  rw [abs_eq]; exact absL_set_of_view none hv

/-- dropping a handle that holds nothing -/
theorem drop_plain {s : St} (hI : Inv s) {i : Nat} {h : Handle}
    (hi : s.hs[i]? = some (some h)) (hc : ctrlOf h = none) (hd : directRegion h = none) :
    WFx { s with hs := s.hs.set i none } ∧ abs { s with hs := s.hs.set i none } = (abs s).set i none := by
  refine finish_ok (Inv_kill_plain hI hi hc hd _) ?_
  rw [abs_eq]; exact absL_set_of_view none (fun _ _ _ _ => rfl)


/-! ## sub-ranges of a `Bytes` handle -/

/-- `[o, o+l) ⊆ [off, off+len)` -/
def BSub (off len o l : Nat) : Prop := off ≤ o ∧ o + l ≤ off + len

theorem BSub.refl (off len : Nat) : BSub off len off len := ⟨Nat.le_refl _, Nat.le_refl _⟩

theorem rdL_isSome_sub {R : List Region} {reg : Option Nat} {off len o l : Nat}
    (h : (rdL R reg off len).isSome = true) (hs : BSub off len o l) :
    (rdL R reg o l).isSome = true := by
  obtain ⟨v, hv⟩ := Option.isSome_iff_exists.mp h
  have := rdL_sub hv (o - off) l (by have := hs.1; have := hs.2; omega)
  have e : off + (o - off) = o := by have := hs.1; omega
  rw [e] at this; simp [this]

/-- the view of a sub-range -/
theorem rdL_of_sub {R : List Region} {reg : Option Nat} {off len o l : Nat} {v : List Byte}
    (hv : rdL R reg off len = some v) (hs : BSub off len o l) :
    rdL R reg o l = some ((v.drop (o - off)).take l) := by
  have := rdL_sub hv (o - off) l (by have := hs.1; have := hs.2; omega)
  have e : off + (o - off) = o := by have := hs.1; omega
  rwa [e] at this

/-- every `Bytes` representation except the un-promoted promotable one tolerates shrinking -/
theorem handleOKL_bytes_sub {R : List Region} {C : List CtrlE} {repr : BRepr} {reg : Option Nat}
    {off len o l : Nat} (hok : handleOKL R C (.bytes repr reg off len) = true)
    (hs : BSub off len o l) (hp : ∀ vt, repr ≠ .prom vt none) :
    handleOKL R C (.bytes repr reg o l) = true := by
  have hrd := rdL_isSome_sub (handleOKL_rd hok) hs
  obtain ⟨hs1, hs2⟩ := hs
  cases repr with
  | «static» => exact handleOKL_static.mpr hrd
  | owned c =>
    obtain ⟨⟨ow, h1, h2⟩, _⟩ := handleOKL_owned.mp hok
    refine handleOKL_owned.mpr ⟨⟨ow, h1, ?_⟩, hrd⟩
    rcases h2 with h2 | h2
    · left; omega
    · exact .inr h2
  | prom vt oc =>
    cases oc with
    | none => exact (hp vt rfl).elim
    | some c =>
      obtain ⟨⟨r, cap, h1, h2, h3⟩, _⟩ := handleOKL_promA.mp hok
      exact handleOKL_promA.mpr ⟨⟨r, cap, h1, h2, by omega⟩, hrd⟩
  | shared c =>
    obtain ⟨⟨r, cap, h1, h2, h3⟩, _⟩ := handleOKL_shared.mp hok
    exact handleOKL_shared.mpr ⟨⟨r, cap, h1, h2, by omega⟩, hrd⟩
  | sharedV c =>
    obtain ⟨⟨vlen, vcap, vorig, h1, h3⟩, _⟩ := handleOKL_sharedV.mp hok
    exact handleOKL_sharedV.mpr ⟨⟨vlen, vcap, vorig, h1, by omega⟩, hrd⟩

theorem spanSub_bytes {repr repr' : BRepr} {reg : Option Nat} {off len o l : Nat}
    (hs : BSub off len o l) : spanSub (.bytes repr' reg o l) (.bytes repr reg off len) := by
  intro r o' l' h hl
  cases reg with
  | none => simp [span] at h
  | some r' =>
    simp only [span, Option.some.injEq, Prod.mk.injEq] at h
    obtain ⟨rfl, rfl, rfl⟩ := h
    exact ⟨off, len, rfl, hs.1, hs.2⟩

theorem statOK_sub {R : List Region} {reg : Option Nat} {off len o l : Nat}
    (h : statOK R (.bytes .static reg off len)) (hs : BSub off len o l) :
    statOK R (.bytes .static reg o l) := by
  cases reg with
  | none => trivial
  | some r =>
    intro hl; apply h
    have := hs.1; have := hs.2; omega

theorem list_set_append_length {α} (l : List α) (x y : α) : (l ++ [x]).set l.length y = l ++ [y] := by
  induction l with
  | nil => rfl
  | cons a l ih => simp [ih]


/-! ## `bytesClone` -/

/-- The vtable `clone` of the `Bytes` in slot `i`.  It returns a handle `.bytes crepr reg off len`
with the same view, may promote slot `i` (`repr'`), and leaves a state in which the new reference is
already counted.  The continuation clause says: registering *any* sub-range of the clone while
shrinking slot `i` to *any* sub-range re-establishes the invariant (this is what `clone`, `slice`,
`split_off`, `split_to` do next). -/
theorem bytesClone_spec {s : St} (hI : Inv s) {i : Nat} {repr : BRepr} {reg : Option Nat}
    {off len : Nat} (hi : s.hs[i]? = some (some (.bytes repr reg off len))) :
    ∃ (repr' crepr : BRepr) (C' : List CtrlE) (ev : List Ev),
      bytesClone i s = .ok (.bytes crepr reg off len)
        ⟨s.regions, C', s.hs.set i (some (.bytes repr' reg off len)), s.owners, ev⟩ ∧
      ∀ (o1 l1 o2 l2 : Nat) (ev' : List Ev), BSub off len o1 l1 → BSub off len o2 l2 →
        Inv ⟨s.regions, C', s.hs.set i (some (.bytes repr' reg o1 l1)) ++ [some (.bytes crepr reg o2 l2)],
          s.owners, ev'⟩ := by
  have hok := hI.hok i _ hi
  have hself : s.hs.set i (some (.bytes repr reg off len)) = s.hs := set_self hi
  -- the shared cases: `incCtrl c`
  have share : ∀ (c : Nat) (crepr : BRepr), ctrlOf (.bytes repr reg off len) = some c →
      (∀ o l, ctrlOf (.bytes crepr reg o l) = some c) →
      (∀ vt, repr ≠ .prom vt none) → (∀ vt, crepr ≠ .prom vt none) →
      (∀ o l, handleOKL s.regions s.ctrls (.bytes repr reg o l) = true →
        handleOKL s.regions s.ctrls (.bytes crepr reg o l) = true) →
      ∃ (C' : List CtrlE) (ev : List Ev),
        (incCtrl c s = .ok () ⟨s.regions, C', s.hs, s.owners, ev⟩) ∧
        ∀ (o1 l1 o2 l2 : Nat) (ev' : List Ev), BSub off len o1 l1 → BSub off len o2 l2 →
          Inv ⟨s.regions, C', s.hs.set i (some (.bytes repr reg o1 l1)) ++ [some (.bytes crepr reg o2 l2)],
            s.owners, ev'⟩ := by
    intro c crepr hc hcc hp hp' hcr
    obtain ⟨e, he, hl, _⟩ := hI.ctrl_of_handle hi hc
    refine ⟨_, _, incCtrl_eq he hl, ?_⟩
    intro o1 l1 o2 l2 ev' b1 b2
    have hc1 : ctrlOf (.bytes repr reg o1 l1) = some c := by
      cases repr with
      | prom vt oc => cases oc <;> simp_all [ctrlOf]
      | _ => simp_all [ctrlOf]
    exact Inv_set_push_share hI hi he hc hc1 (hcc o2 l2)
      (handleOKL_bytes_sub hok b1 hp) (hcr _ _ (handleOKL_bytes_sub hok b2 hp))
      (spanSub_bytes b1) (spanSub_bytes b2) (by simp [isMutable]) (by simp [isMutable])
      (by simp [isMutable]) (by simp [isMutable]) ev'
  cases repr with
  | «static» =>
    refine ⟨.static, .static, s.ctrls, s.events, ?_, ?_⟩
    · simp [bytesClone, getHandle_eq hi, hself]
    · intro o1 l1 o2 l2 ev' b1 b2
      have hp : ∀ vt, BRepr.static ≠ .prom vt none := by intro vt h; cases h
      exact Inv_set_push_plain hI hi (by simp [ctrlOf]) (by simp [directRegion])
        (handleOKL_bytes_sub hok b1 hp) (handleOKL_bytes_sub hok b2 hp)
        (statOK_sub (hI.statOK hi) b1) (statOK_sub (hI.statOK hi) b2)
        (spanSub_bytes b1) (spanSub_bytes b2) (by simp [isMutable]) (by simp [isMutable])
        (by simp [isMutable]) (by simp [isMutable]) ev'
  | owned c =>
    obtain ⟨C', ev, heq, hk⟩ := share c (.owned c) rfl (fun _ _ => rfl)
      (by intro vt h; cases h) (by intro vt h; cases h) (fun _ _ h => h)
    exact ⟨.owned c, .owned c, C', ev, by simp [bytesClone, getHandle_eq hi, heq, hself], hk⟩
  | shared c =>
    obtain ⟨C', ev, heq, hk⟩ := share c (.shared c) rfl (fun _ _ => rfl)
      (by intro vt h; cases h) (by intro vt h; cases h) (fun _ _ h => h)
    exact ⟨.shared c, .shared c, C', ev, by simp [bytesClone, getHandle_eq hi, heq, hself], hk⟩
  | sharedV c =>
    obtain ⟨C', ev, heq, hk⟩ := share c (.sharedV c) rfl (fun _ _ => rfl)
      (by intro vt h; cases h) (by intro vt h; cases h) (fun _ _ h => h)
    exact ⟨.sharedV c, .sharedV c, C', ev, by simp [bytesClone, getHandle_eq hi, heq, hself], hk⟩
  | prom vt oc =>
    cases oc with
    | some c =>
      obtain ⟨C', ev, heq, hk⟩ := share c (.shared c) rfl (fun _ _ => rfl)
        (by intro vt h; cases h) (by intro vt h; cases h)
        (fun _ _ h => handleOKL_shared.mpr (handleOKL_promA.mp h))
      exact ⟨.prom vt (some c), .shared c, C', ev, by simp [bytesClone, getHandle_eq hi, heq, hself], hk⟩
    | none =>
      obtain ⟨⟨r, hreg, hlive, hsz, hvt⟩, hrd⟩ := handleOKL_promV.mp hok
      subst hreg
      let c := s.ctrls.length
      let ct := Ctrl.sharedB r (off + len)
      refine ⟨.prom vt (some c), .shared c, s.ctrls ++ [⟨ct, 2, true⟩], .allocCtrl c :: s.events, ?_, ?_⟩
      · simp [bytesClone, getHandle_eq hi, promDecode_eq hlive hvt, c, ct]
      · intro o1 l1 o2 l2 ev' b1 b2
        -- first promote slot `i` (count 1) …
        have hlc : liveCtrlL (s.ctrls ++ [⟨ct, 1, true⟩]) c = some ct := by
          simp [c, liveCtrlL_new]
        have okA : ∀ o l, BSub off len o l →
            handleOKL s.regions (s.ctrls ++ [⟨ct, 1, true⟩]) (.bytes (.prom vt (some c)) (some r) o l) = true := by
          intro o l b
          exact handleOKL_promA.mpr ⟨⟨r, off + len, hlc, rfl, b.2⟩, rdL_isSome_sub hrd b⟩
        have hI1 := Inv_promote hI (h' := .bytes (.prom vt (some c)) (some r) off len) (ct := ct) hi rfl rfl
          rfl (spanSub_bytes (BSub.refl _ _)) (fun h => h) (okA off len (BSub.refl _ _)) ⟨hlive, hsz.symm⟩ (by intro o h; simp [ct] at h) ev'
        -- … then share it
        have hi1 : (s.hs.set i (some (.bytes (.prom vt (some c)) (some r) off len)))[i]? =
            some (some (.bytes (.prom vt (some c)) (some r) off len)) := lookup_set_eq _ hi
        have he1 : (s.ctrls ++ [⟨ct, 1, true⟩])[c]? = some ⟨ct, 1, true⟩ := lookup_append_new _ _
        have := Inv_set_push_share hI1 (h1 := .bytes (.prom vt (some c)) (some r) o1 l1)
          (h2 := .bytes (.shared c) (some r) o2 l2) hi1 he1 rfl rfl rfl
          (okA o1 l1 b1) (handleOKL_shared.mpr (handleOKL_promA.mp (okA o2 l2 b2)))
          (spanSub_bytes b1) (spanSub_bytes b2) (by simp [isMutable]) (by simp [isMutable])
          (by simp [isMutable]) (by simp [isMutable]) ev'
        simpa [List.set_set, list_set_append_length, c] using this


/-! ## fresh `Vec` buffers -/

/-- the region `vecNew e bs cap` allocates -/
def vecRegion (bs : List Byte) (cap : Nat) (odd : Bool) : Region :=
  ⟨cap, bs.map some ++ List.replicate (cap - bs.length) none, true, .heap odd⟩

theorem vecRegion_ok {bs : List Byte} {cap : Nat} (odd : Bool) (h0 : cap ≠ 0) (h1 : cap ≤ isizeMax)
    (hl : bs.length ≤ cap) : regionOKB (vecRegion bs cap odd) = true := by
  simp [regionOKB, vecRegion, h1]; omega

theorem rdL_vecRegion (R : List Region) {bs : List Byte} {cap : Nat} (odd : Bool) (hl : bs.length ≤ cap) :
    rdL (R ++ [vecRegion bs cap odd]) (some R.length) 0 bs.length = some bs := by
  apply rdL_some_of (lookup_append_new _ _) rfl
  · simpa [vecRegion] using hl
  · simp [vecRegion]

theorem handleOKL_fresh_mut (R : List Region) (C : List CtrlE) {bs : List Byte} {cap : Nat} (odd : Bool)
    (orig : Nat) (hl : bs.length ≤ cap) :
    handleOKL (R ++ [vecRegion bs cap odd]) C (.mut none (some R.length) 0 bs.length cap orig) = true := by
  refine handleOKL_mutV.mpr ⟨hl, Nat.zero_le _, ⟨?_, ?_⟩, ?_⟩
  · simp [isHeapLiveL_new, vecRegion]
  · simp [regionSizeL_new, vecRegion]
  · simp [rdL_vecRegion R odd hl]

theorem handleOKL_fresh_vec (R : List Region) (C : List CtrlE) {bs : List Byte} {cap : Nat} (odd : Bool)
    (hl : bs.length ≤ cap) :
    handleOKL (R ++ [vecRegion bs cap odd]) C (.vec (some R.length) bs.length cap) = true := by
  refine handleOKL_vec.mpr ⟨hl, ⟨?_, ?_⟩, ?_⟩
  · simp [isHeapLiveL_new, vecRegion]
  · simp [regionSizeL_new, vecRegion]
  · simp [rdL_vecRegion R odd hl]

theorem vecNew_eq' (e : Env) (bs : List Byte) {cap : Nat} (h0 : cap ≠ 0) (h : cap ≤ isizeMax) (s : St) :
    vecNew e bs cap s = .ok (some s.regions.length)
      ⟨s.regions ++ [vecRegion bs cap (e.odd s.regions.length)], s.ctrls, s.hs, s.owners,
        .alloc s.regions.length cap :: s.events⟩ := vecNew_eq e bs h0 h s

/-- Registering a fresh vector / KIND_VEC BytesMut holding `bs` (`Vec::with_capacity` + copy): the
whole outcome of `vecNew e bs cap` followed by `newHandle (mk r)`.  `mk` is `fun r => .vec r n cap` or
`fun r => mutFromVec r n cap`. -/
theorem push_vec_spec {s : St} (hI : Inv s) (e : Env) (bs : List Byte) (cap : Nat) (hl : bs.length ≤ cap)
    (mk : Option Nat → Handle)
    (hmk : (∀ r, mk r = .vec r bs.length cap) ∨
           (∃ orig, ∀ r, mk r = .mut none r 0 bs.length cap orig)) :
    (vecNew e bs cap s = .panic s) ∨
    ∃ r s1, vecNew e bs cap s = .ok r s1 ∧
      (∀ ev, Inv ⟨s1.regions, s1.ctrls, s1.hs ++ [some (mk r)], s1.owners, ev⟩) ∧
      s1.hs = s.hs ∧
      (∀ (j : Nat) (b : Handle), s.hs[j]? = some (some b) → viewOfL s1.regions b = viewOfL s.regions b) ∧
      viewOfL s1.regions (mk r) = some bs := by
  rcases vecNew_cases e bs cap s with ⟨h0, heq⟩ | ⟨_, heq⟩ | ⟨h0, h1, _⟩
  · -- no allocation
    right
    subst h0
    have hbs : bs = [] := by cases bs <;> simp_all
    subst hbs
    refine ⟨none, s, heq, ?_, rfl, fun _ _ _ => rfl, ?_⟩
    · intro ev
      rcases hmk with hmk | ⟨orig, hmk⟩
      · rw [hmk]
        exact Inv_push_plain_nospan hI rfl rfl (handleOKL_vec.mpr ⟨Nat.le_refl _, rfl, by simp [rdL_zero]⟩)
          trivial (by intro r o l h; simp [span] at h) ev
      · rw [hmk]
        exact Inv_push_plain_nospan hI rfl rfl
          (handleOKL_mutV.mpr ⟨Nat.le_refl _, Nat.zero_le _, rfl, by simp [rdL_zero]⟩)
          trivial (by intro r o l h; simp [span] at h) ev
    · rcases hmk with hmk | ⟨orig, hmk⟩ <;> simp [hmk, viewOfL, hreg, hoff, hlen, rdL_zero]
  · exact .inl heq
  · right
    have heq := vecNew_eq' e bs h0 h1 s
    refine ⟨_, _, heq, ?_, rfl, ?_, ?_⟩
    · intro ev
      have hrg := vecRegion_ok (bs := bs) (e.odd s.regions.length) h0 h1 hl
      rcases hmk with hmk | ⟨orig, hmk⟩
      · rw [hmk]
        exact (Inv_push_fresh hI hrg rfl rfl rfl rfl
          (by intro r o l h; simp [span] at h; omega)
          (handleOKL_fresh_vec _ _ _ hl) ev).1
      · rw [hmk]
        exact (Inv_push_fresh hI hrg rfl rfl rfl rfl
          (by intro r o l h; simp [span] at h; omega)
          (handleOKL_fresh_mut _ _ _ _ hl) ev).1
    · intro j b hj
      obtain ⟨v, hv, _⟩ := hI.view hj
      rw [hv]; exact rdL_append _ hv
    · rcases hmk with hmk | ⟨orig, hmk⟩ <;>
        simp [hmk, viewOfL, hreg, hoff, hlen, rdL_vecRegion _ _ hl]


/-! ## `BytesMut::shallow_clone` and the two halves of a split -/

/-- `.mut _ reg o l c _` is a piece of `.mut _ reg off len cap _`: its capacity range lies in
`[off, off+cap)` and its view in the initialised part `[off, off+len)` -/
def MSub (off len cap o l c : Nat) : Prop :=
  off ≤ o ∧ o + c ≤ off + cap ∧ l ≤ c ∧ (l = 0 ∨ o + l ≤ off + len)

theorem spanSub_mut {arc arc' : Option Nat} {reg : Option Nat} {off len cap orig o l c orig' : Nat}
    (hs : MSub off len cap o l c) :
    spanSub (.mut arc' reg o l c orig') (.mut arc reg off len cap orig) := by
  intro r o' l' h hl
  cases reg with
  | none => simp [span] at h
  | some r' =>
    simp only [span, Option.some.injEq, Prod.mk.injEq] at h
    obtain ⟨rfl, rfl, rfl⟩ := h
    exact ⟨off, cap, rfl, hs.1, hs.2.1⟩

/-- `shallow_clone` of the `BytesMut` in slot `i`: both results are KIND_ARC handles on a control
block `c` whose count already includes the clone; if the handle was KIND_VEC it has been promoted
(`promote_to_shared(2)`) — slot `i` itself is only rewritten by the caller.  Continuation clause:
installing two exclusive pieces re-establishes the invariant (`split_off`, `split_to`, `split`). -/
theorem mutShallowClone_spec {s : St} (hI : Inv s) {i : Nat} {arc reg : Option Nat}
    {off len cap orig : Nat} (hi : s.hs[i]? = some (some (.mut arc reg off len cap orig))) :
    ∃ (c : Nat) (C' : List CtrlE) (ev : List Ev),
      mutShallowClone (.mut arc reg off len cap orig) s =
        .ok (.mut (some c) reg off len cap orig, .mut (some c) reg off len cap orig)
          ⟨s.regions, C', s.hs, s.owners, ev⟩ ∧
      ∀ (o1 l1 c1 o2 l2 c2 : Nat) (ev' : List Ev), MSub off len cap o1 l1 c1 → MSub off len cap o2 l2 c2 →
        (o1 + c1 ≤ o2 ∨ o2 + c2 ≤ o1) →
        Inv ⟨s.regions, C',
          s.hs.set i (some (.mut (some c) reg o1 l1 c1 orig)) ++ [some (.mut (some c) reg o2 l2 c2 orig)],
          s.owners, ev'⟩ := by
  have hok := hI.hok i _ hi
  have hrd0 := handleOKL_rd hok
  simp only [hreg, hoff, hlen] at hrd0
  have hrd : ∀ o l c, MSub off len cap o l c → (rdL s.regions reg o l).isSome = true := by
    intro o l c hm
    rcases hm.2.2.2 with h0 | h1
    · subst h0; simp [rdL_zero]
    · exact rdL_isSome_sub hrd0 ⟨hm.1, h1⟩
  have hdisj : ∀ (a1 a2 : Option Nat) (o1 l1 c1 o2 l2 c2 g1 g2 : Nat), (o1 + c1 ≤ o2 ∨ o2 + c2 ≤ o1) →
      disjointB (.mut a1 reg o1 l1 c1 g1) (.mut a2 reg o2 l2 c2 g2) = true := by
    intro a1 a2 o1 l1 c1 o2 l2 c2 g1 g2 h
    rw [disjointB_iff]
    intro r o l r' o' l' h1 h2
    cases reg with
    | none => simp [span] at h1
    | some r0 =>
      simp only [span, Option.some.injEq, Prod.mk.injEq] at h1 h2
      obtain ⟨rfl, rfl, rfl⟩ := h1; obtain ⟨rfl, rfl, rfl⟩ := h2
      omega
  cases arc with
  | some c =>
    obtain ⟨hlc, ⟨vlen, vcap, vorig, hlive, hcap⟩, _⟩ := handleOKL_mutA.mp hok
    obtain ⟨e, he, hl, _⟩ := hI.ctrl_of_handle hi (c := c) rfl
    refine ⟨c, s.ctrls.set c { e with rc := e.rc + 1 }, s.events,
      by simp [mutShallowClone, incCtrl_eq he hl], ?_⟩
    intro o1 l1 c1 o2 l2 c2 ev' m1 m2 hd
    have okp : ∀ o l cc, MSub off len cap o l cc →
        handleOKL s.regions s.ctrls (.mut (some c) reg o l cc orig) = true := fun o l cc hm =>
      handleOKL_mutA.mpr ⟨hm.2.2.1, ⟨vlen, vcap, vorig, hlive, by have := hm.2.1; omega⟩, hrd o l cc hm⟩
    exact Inv_set_push_share hI hi he rfl rfl rfl (okp _ _ _ m1) (okp _ _ _ m2)
      (spanSub_mut m1) (spanSub_mut m2) (fun _ => rfl) (fun _ => rfl)
      (fun _ => hdisj _ _ _ _ _ _ _ _ _ _ hd) (fun _ => hdisj _ _ _ _ _ _ _ _ _ _ hd.symm) ev'
  | none =>
    obtain ⟨hlc, hoffb, hregc, _⟩ := handleOKL_mutV.mp hok
    let c := s.ctrls.length
    let ct := Ctrl.sharedV reg (off + len) (off + cap) orig
    refine ⟨c, s.ctrls ++ [⟨ct, 2, true⟩], .allocCtrl c :: s.events,
      by simp [mutShallowClone, mutPromote, c, ct], ?_⟩
    intro o1 l1 c1 o2 l2 c2 ev' m1 m2 hd
    have hlive : liveCtrlL (s.ctrls ++ [⟨ct, 1, true⟩]) c = some ct := by simp [c, liveCtrlL_new]
    have okp : ∀ o l cc, MSub off len cap o l cc →
        handleOKL s.regions (s.ctrls ++ [⟨ct, 1, true⟩]) (.mut (some c) reg o l cc orig) = true :=
      fun o l cc hm =>
      handleOKL_mutA.mpr ⟨hm.2.2.1, ⟨off + len, off + cap, orig, hlive, hm.2.1⟩, hrd o l cc hm⟩
    have hbuf : ctrlBufOK s.regions s.owners ct := by
      cases reg with
      | none => simpa [ct, ctrlBufOK] using hregc
      | some r => exact ⟨hregc.1, hregc.2.symm⟩
    have hfull : MSub off len cap off len cap := ⟨Nat.le_refl _, Nat.le_refl _, hlc, .inr (Nat.le_refl _)⟩
    have hI1 := Inv_promote hI (h' := .mut (some c) reg off len cap orig) (ct := ct) hi rfl
      (by cases reg <;> rfl) rfl (spanSub_mut hfull) (fun h => h) (okp _ _ _ hfull) hbuf
      (by intro o h; simp [ct] at h) ev'
    have hi1 : (s.hs.set i (some (.mut (some c) reg off len cap orig)))[i]? =
        some (some (.mut (some c) reg off len cap orig)) := lookup_set_eq _ hi
    have he1 : (s.ctrls ++ [⟨ct, 1, true⟩])[c]? = some ⟨ct, 1, true⟩ := lookup_append_new _ _
    have := Inv_set_push_share hI1 (h1 := .mut (some c) reg o1 l1 c1 orig)
      (h2 := .mut (some c) reg o2 l2 c2 orig) hi1 he1 rfl rfl rfl (okp _ _ _ m1) (okp _ _ _ m2)
      (spanSub_mut m1) (spanSub_mut m2) (fun _ => rfl) (fun _ => rfl)
      (fun _ => hdisj _ _ _ _ _ _ _ _ _ _ hd) (fun _ => hdisj _ _ _ _ _ _ _ _ _ _ hd.symm) ev'
    simpa [List.set_set, list_set_append_length, c] using this

/-- `advance_unchecked(k)` on a KIND_ARC handle, `k ≤ cap` -/
theorem mutAdvanceUnchecked_arc (cfg : Cfg) {c : Nat} {reg : Option Nat} {off len cap orig k : Nat}
    (hk : k ≤ cap) (s : St) :
    mutAdvanceUnchecked cfg (.mut (some c) reg off len cap orig) k s =
      .ok (.mut (some c) reg (off + k) (len - k) (cap - k) orig) s := by
  by_cases h0 : k = 0
  · subst h0; simp [mutAdvanceUnchecked]
  · simp [mutAdvanceUnchecked, h0, dassert_eq cfg (cond := decide (k ≤ cap)) (by simpa using hk),
      usub_eq cfg hk]


end BytesVerif.Core
