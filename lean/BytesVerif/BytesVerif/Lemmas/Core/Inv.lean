/-
Prop-level reading of the representation invariant of M1, and how every observable it mentions
changes under the state updates the model performs.  See README.md in this directory for a guide.

Design: every observable of CoreWF.lean depends on only one or two *components* of the state.  We
introduce list-level versions (suffix `L`) taking exactly these components:

  liveHs hs, refCountL hs c, dirCountL hs r                -- handle table
  ctrlCountL C r, liveCtrlL C c                             -- control blocks
  isHeapLiveL R r, regionSizeL R r, regionOddL R r, kindL R r, rdL R reg off len   -- regions
  handleOKL R C h, ctrlBufOK R owners ct, viewOfL R h, absL R hs

and bridge lemmas (`refCount_eq`, `ownerCount_eq`, `isHeapLive_eq`, `handleOKB_eq`, `viewOf_eq`,
`abs_eq`, …) that rewrite the state-level functions into them.  After symbolic execution
a final state is a record `{ regions := …, ctrls := …, hs := …, owners := …, events := … }`; `simp`
reduces the projections, so "updates that affect nothing" (events, owners, a component the
observable does not read) need no lemma at all.

`rdL R reg off len : Option (List Byte)` is the central region observable: the bytes that `readRange`
returns (`none` = `readRange` would be `ub`).  `initRange = (rdL …).isSome`, `viewOf s h = rdL s.regions
(hreg h) (hoff h) (hlen h)`.

Contents, in order:  generic list facts · list-level observables and bridges · `rdL` (characterisation
`rdL_eq_some_iff`, `readRange_of_rdL`, `initRangeL_eq`, `viewOf_eq`, `abs_eq`) · handle table under
`set`/append (`refCountL_*`, `dirCountL_*`, `hs_set_cases`, `hs_push_cases`) · regions under
append/`set` (`metaL`, `isHeapLiveL_*`, `rdL_congr`, `rdL_append`, `rdL_set_ne`, `rdL_set_data`,
`write_getElem?`) · control blocks (`liveCtrlL_*`, `ctrlCountL_*`) · `handleOKL_<shape>` iff lemmas,
`handleOKL_frame`, `handleOKL_append` · exclusivity (`Excl`, `disjointB_*`, `spanSub`, `Excl_set`,
`Excl_push`, `Excl_split`, …) · the invariant (`Inv` structure, `WFx`, `WF_iff`, `WFx_iff_inv`,
`WFx_init`) · sub-views (`rdL_sub`, `rdL_take`, `rdL_drop`, `rdL_length`) · `absL_*`, `Spec_get_absL` ·
consequences (`Inv.view`, `Inv.ctrl_of_handle`, `Inv.cok'`, `Inv.dir_fresh`, `Inv.ctrl_fresh`,
`Inv.ref_fresh`, `Inv.span_lt`) · `StepOKx`, `StepOKx.toWF`.
-/
import BytesVerif.Lemmas.Core.Monad
import BytesVerif.Model.CoreWF
namespace BytesVerif.Core

/-! ## generic list facts -/

theorem mapM_id_eq_some {α} (l : List (Option α)) (bs : List α) :
    l.mapM id = some bs ↔ l = bs.map some := by
  induction l generalizing bs with
  | nil => cases bs <;> simp
  | cons a l ih =>
    cases a with
    | none => cases bs <;> simp [List.mapM_cons]
    | some v =>
      rw [List.mapM_cons]
      generalize List.mapM id l = o at ih ⊢
      cases bs with
      | nil => cases o <;> simp
      | cons b bs =>
        have := ih bs
        cases o <;> simp at this ⊢
        · intro _; exact this
        · intro _; rw [this]

theorem mapM_id_isSome {α} (l : List (Option α)) :
    (l.mapM id).isSome = l.all (·.isSome) := by
  induction l with
  | nil => simp
  | cons a l ih =>
    cases a with
    | none => simp [List.mapM_cons]
    | some v =>
      rw [List.mapM_cons]
      simp only [List.all_cons, Option.isSome_some, Bool.true_and, ← ih]
      cases List.mapM id l <;> simp

theorem lookup_lt {α} {l : List α} {i : Nat} {x : α} (h : l[i]? = some x) : i < l.length := by
  apply Classical.byContradiction; intro hn
  rw [List.getElem?_eq_none (by omega)] at h; cases h

/-- `l.set i x = l` when slot `i` already holds `x` -/
theorem set_self {α} {l : List α} {i : Nat} {x : α} (h : l[i]? = some x) : l.set i x = l := by
  apply List.ext_getElem?
  intro j
  rw [List.getElem?_set]
  by_cases hij : i = j
  · subst hij; simp only [if_true, lookup_lt h, h]
  · simp [hij]

/-- contribution of one slot of the handle table to a count -/
def optCount {α} (p : α → Bool) : Option α → Nat
  | some a => if p a then 1 else 0
  | none => 0

@[simp] theorem optCount_none {α} (p : α → Bool) : optCount p none = 0 := rfl
@[simp] theorem optCount_some {α} (p : α → Bool) (a : α) :
    optCount p (some a) = if p a then 1 else 0 := rfl

/-- `countP` over a list of options after `filterMap id`, under `set` of a present slot -/
theorem countP_filterMap_set {α} (p : α → Bool) (l : List (Option α)) (i : Nat) (x y : Option α)
    (h : l[i]? = some x) :
    ((l.set i y).filterMap id).countP p + optCount p x =
    (l.filterMap id).countP p + optCount p y := by
  induction l generalizing i with
  | nil => simp at h
  | cons a l ih =>
    cases i with
    | zero =>
      simp at h; subst h
      cases a <;> cases y <;> simp [List.countP_cons] <;> omega
    | succ i =>
      simp at h
      have := ih i h
      cases a <;> simp [List.countP_cons] <;> omega

/-! ## list-level observables -/

def liveHs (hs : List (Option Handle)) : List Handle := hs.filterMap id
def refCountL (hs : List (Option Handle)) (c : Nat) : Nat :=
  (liveHs hs).countP fun h => ctrlOf h == some c
def dirCountL (hs : List (Option Handle)) (r : Nat) : Nat :=
  (liveHs hs).countP fun h => directRegion h == some r
def ctrlCountL (C : List CtrlE) (r : Nat) : Nat :=
  C.countP fun e => e.live && ctrlRegion e.c == some r

def isHeapLiveL (R : List Region) (r : Nat) : Bool := isHeapLive { regions := R } r
def regionSizeL (R : List Region) (r : Nat) : Nat := regionSize { regions := R } r
def regionOddL (R : List Region) (r : Nat) : Bool := regionOddB { regions := R } r
def kindL (R : List Region) (r : Nat) : Option RKind := (R[r]?).map (·.kind)
def liveCtrlL (C : List CtrlE) (c : Nat) : Option Ctrl := liveCtrl { ctrls := C } c
def initRangeL (R : List Region) (reg : Option Nat) (off len : Nat) : Bool :=
  initRange { regions := R } reg off len
def handleOKL (R : List Region) (C : List CtrlE) (h : Handle) : Bool :=
  handleOKB { regions := R, ctrls := C } h

/-- what `readRange reg off len` returns in a state with regions `R` (`none`: it is `ub`) -/
def rdL (R : List Region) (reg : Option Nat) (off len : Nat) : Option (List Byte) :=
  if len = 0 then some [] else
  match reg with
  | none => none
  | some r =>
    match R[r]? with
    | none => none
    | some rg =>
      if rg.live = true ∧ off + len ≤ rg.size then ((rg.data.drop off).take len).mapM id else none

/-- the region / offset / length of the view of a handle -/
def hreg : Handle → Option Nat
  | .bytes _ reg _ _ => reg
  | .mut _ reg _ _ _ _ => reg
  | .vec reg _ _ => reg
def hoff : Handle → Nat
  | .bytes _ _ off _ => off
  | .mut _ _ off _ _ _ => off
  | .vec _ _ _ => 0
def hlen : Handle → Nat
  | .bytes _ _ _ len => len
  | .mut _ _ _ len _ _ => len
  | .vec _ len _ => len

def viewOfL (R : List Region) (h : Handle) : Option (List Byte) := rdL R (hreg h) (hoff h) (hlen h)

def absL (R : List Region) (hs : List (Option Handle)) : Spec.St :=
  hs.map fun oh => oh.bind fun h => (viewOfL R h).map fun v => ⟨kindOf h, v⟩

/-! ### bridges (all by `rfl` except the ones through `readRange`) -/

theorem liveHandles_eq (s : St) : liveHandles s = liveHs s.hs := rfl
theorem refCount_eq (s : St) (c : Nat) : refCount s c = refCountL s.hs c := rfl
theorem ownerCount_eq (s : St) (r : Nat) :
    ownerCount s r = dirCountL s.hs r + ctrlCountL s.ctrls r := rfl
theorem isHeapLive_eq (s : St) (r : Nat) : isHeapLive s r = isHeapLiveL s.regions r := rfl
theorem regionSize_eq (s : St) (r : Nat) : regionSize s r = regionSizeL s.regions r := rfl
theorem regionOddB_eq (s : St) (r : Nat) : regionOddB s r = regionOddL s.regions r := rfl
theorem liveCtrl_eq (s : St) (c : Nat) : liveCtrl s c = liveCtrlL s.ctrls c := rfl
theorem initRange_eq (s : St) (reg : Option Nat) (off len : Nat) :
    initRange s reg off len = initRangeL s.regions reg off len := rfl
theorem handleOKB_eq (s : St) (h : Handle) : handleOKB s h = handleOKL s.regions s.ctrls h := rfl

theorem isHeapLiveL_def (R : List Region) (r : Nat) :
    isHeapLiveL R r = match R[r]? with
      | some rg => rg.live && (match rg.kind with | .heap _ => true | _ => false)
      | none => false := rfl
theorem regionSizeL_def (R : List Region) (r : Nat) :
    regionSizeL R r = match R[r]? with | some rg => rg.size | none => 0 := rfl
theorem regionOddL_def (R : List Region) (r : Nat) :
    regionOddL R r = match R[r]? with
      | some rg => (match rg.kind with | .heap o => o | _ => false)
      | none => false := rfl
theorem liveCtrlL_def (C : List CtrlE) (c : Nat) :
    liveCtrlL C c = match C[c]? with
      | some e => if e.live then some e.c else none
      | none => none := rfl

/-! ### `rdL`: characterisation, `readRange`, `initRange`, `viewOf` -/

theorem rdL_zero (R : List Region) (reg : Option Nat) (off : Nat) : rdL R reg off 0 = some [] := by
  simp [rdL]

theorem rdL_none (R : List Region) (off len : Nat) :
    rdL R none off len = if len = 0 then some [] else none := by
  simp [rdL]

/-- the workhorse: when does a read succeed, and with what -/
theorem rdL_eq_some_iff {R : List Region} {reg : Option Nat} {off len : Nat} {bs : List Byte} :
    rdL R reg off len = some bs ↔
      (len = 0 ∧ bs = []) ∨
      (len ≠ 0 ∧ ∃ r rg, reg = some r ∧ R[r]? = some rg ∧ rg.live = true ∧ off + len ≤ rg.size ∧
        (rg.data.drop off).take len = bs.map some) := by
  unfold rdL
  by_cases hl : len = 0
  · subst hl
    simp only [if_true, Option.some.injEq, true_and, ne_eq, not_true_eq_false, false_and, or_false]
    exact eq_comm
  · simp only [hl, if_false, false_and, false_or, ne_eq, not_false_eq_true, true_and]
    constructor
    · intro h
      cases reg with
      | none => simp at h
      | some r =>
        simp only at h
        cases hr : R[r]? with
        | none => simp [hr] at h
        | some rg =>
          simp only [hr] at h
          split at h
          · next hc => exact ⟨r, rg, rfl, hr, hc.1, hc.2, (mapM_id_eq_some _ _).mp h⟩
          · simp at h
    · rintro ⟨r, rg, rfl, hr, h1, h2, h3⟩
      simp only [hr, h1, h2, and_self, if_true]
      exact (mapM_id_eq_some _ _).mpr h3

theorem rdL_some_of {R : List Region} {r : Nat} {rg : Region} {off len : Nat} {bs : List Byte}
    (hr : R[r]? = some rg) (hl : rg.live = true) (hb : off + len ≤ rg.size)
    (hd : (rg.data.drop off).take len = bs.map some) : rdL R (some r) off len = some bs := by
  by_cases h0 : len = 0
  · subst h0
    cases bs with
    | nil => exact rdL_zero _ _ _
    | cons b bs => simp at hd
  · exact rdL_eq_some_iff.mpr (.inr ⟨h0, r, rg, rfl, hr, hl, hb, hd⟩)

theorem readRange_of_rdL {s : St} {reg : Option Nat} {off len : Nat} {bs : List Byte}
    (h : rdL s.regions reg off len = some bs) : readRange reg off len s = .ok bs s := by
  unfold rdL at h; unfold readRange
  by_cases hl : len = 0
  · simp [hl] at h ⊢; exact h
  · simp only [hl, if_false] at h ⊢
    cases reg with
    | none => simp at h
    | some r =>
      simp only [bind_apply, getRegion]
      cases hr : s.regions[r]? with
      | none => simp [hr] at h
      | some rg =>
        simp only [hr] at h ⊢
        by_cases hc : rg.live = true ∧ off + len ≤ rg.size
        · simp only [hc, and_self, if_true] at h
          have h1 : ¬ (off + len > rg.size) := by omega
          simp [hc.1, h1, h]
        · simp [hc] at h

theorem readRange_ub_of_rdL {s : St} {reg : Option Nat} {off len : Nat}
    (h : rdL s.regions reg off len = none) : ∃ w, readRange reg off len s = .ub w s := by
  unfold rdL at h; unfold readRange
  by_cases hl : len = 0
  · simp [hl] at h
  · simp only [hl, if_false] at h ⊢
    cases reg with
    | none => exact ⟨_, rfl⟩
    | some r =>
      simp only [bind_apply, getRegion]
      cases hr : s.regions[r]? with
      | none => exact ⟨_, rfl⟩
      | some rg =>
        simp only [hr] at h ⊢
        by_cases hlive : rg.live = true
        · by_cases hb : off + len ≤ rg.size
          · have h1 : ¬ (off + len > rg.size) := by omega
            simp only [hlive, hb, and_self, if_true] at h
            simp [hlive, h1, h]
          · have h1 : off + len > rg.size := by omega
            simp [hlive, h1]
        · simp [hlive]

/-- `readRange` never changes the state; it succeeds exactly when `rdL` is `some`. -/
theorem readRange_eq (s : St) (reg : Option Nat) (off len : Nat) :
    (∃ bs, rdL s.regions reg off len = some bs ∧ readRange reg off len s = .ok bs s) ∨
    (rdL s.regions reg off len = none ∧ ∃ w, readRange reg off len s = .ub w s) := by
  cases h : rdL s.regions reg off len with
  | none => exact .inr ⟨rfl, readRange_ub_of_rdL h⟩
  | some bs => exact .inl ⟨bs, rfl, readRange_of_rdL h⟩

theorem initRangeL_eq (R : List Region) (reg : Option Nat) (off len : Nat) :
    initRangeL R reg off len = (rdL R reg off len).isSome := by
  unfold initRangeL initRange rdL
  by_cases hl : len = 0
  · simp [hl]
  · have hl' : (len == 0) = false := by simp [hl]
    simp only [hl, hl', Bool.false_or, if_false]
    cases reg with
    | none => simp
    | some r =>
      simp only
      cases R[r]? with
      | none => simp
      | some rg =>
        simp only
        by_cases hc : rg.live = true ∧ off + len ≤ rg.size
        · simp [hc, mapM_id_isSome]
        · simp only [hc, if_false, Option.isSome_none]
          by_cases hlv : rg.live = true
          · have : decide (off + len ≤ rg.size) = false := by
              simp only [decide_eq_false_iff_not]; exact fun h => hc ⟨hlv, h⟩
            simp [this]
          · simp [hlv]

theorem viewOf_eq (s : St) (h : Handle) : viewOf s h = viewOfL s.regions h := by
  cases h with
  | bytes repr reg off len =>
    simp only [viewOf, viewOfL, hreg, hoff, hlen]
    rcases readRange_eq s reg off len with ⟨bs, h1, h2⟩ | ⟨h1, w, h2⟩ <;> simp [h1, h2]
  | «mut» arc reg off len cap orig =>
    simp only [viewOf, viewOfL, hreg, hoff, hlen]
    rcases readRange_eq s reg off len with ⟨bs, h1, h2⟩ | ⟨h1, w, h2⟩ <;> simp [h1, h2]
  | vec reg len cap =>
    simp only [viewOf, viewOfL, hreg, hoff, hlen]
    rcases readRange_eq s reg 0 len with ⟨bs, h1, h2⟩ | ⟨h1, w, h2⟩ <;> simp [h1, h2]

theorem abs_eq (s : St) : abs s = absL s.regions s.hs := by
  unfold abs absL
  simp only [viewOf_eq]

/-! ## the handle table under `set` / append -/

theorem countP_set' {α} (p : α → Bool) (l : List α) (i : Nat) (x y : α) (h : l[i]? = some x) :
    (l.set i y).countP p + (if p x then 1 else 0) = l.countP p + (if p y then 1 else 0) := by
  induction l generalizing i with
  | nil => simp at h
  | cons a l ih =>
    cases i with
    | zero => simp at h; subst h; simp [List.countP_cons]; omega
    | succ i => simp at h; have := ih i h; simp [List.countP_cons]; omega

theorem liveHs_push (hs : List (Option Handle)) (h : Handle) :
    liveHs (hs ++ [some h]) = liveHs hs ++ [h] := by
  simp [liveHs, List.filterMap_append]

theorem mem_liveHs {hs : List (Option Handle)} {h : Handle} :
    h ∈ liveHs hs ↔ ∃ i : Nat, hs[i]? = some (some h) := by
  simp only [liveHs, List.mem_filterMap, id]
  constructor
  · rintro ⟨a, ha, rfl⟩; exact List.mem_iff_getElem?.mp ha
  · rintro ⟨i, hi⟩; exact ⟨some h, List.mem_iff_getElem?.mpr ⟨i, hi⟩, rfl⟩

theorem refCountL_push (hs : List (Option Handle)) (h : Handle) (c : Nat) :
    refCountL (hs ++ [some h]) c = refCountL hs c + if ctrlOf h = some c then 1 else 0 := by
  simp [refCountL, liveHs_push, List.countP_append, List.countP_cons]

theorem dirCountL_push (hs : List (Option Handle)) (h : Handle) (r : Nat) :
    dirCountL (hs ++ [some h]) r = dirCountL hs r + if directRegion h = some r then 1 else 0 := by
  simp [dirCountL, liveHs_push, List.countP_append, List.countP_cons]

/-- replacing / killing slot `i` (general, additive form; `x`,`y` are the old and new slot contents) -/
theorem refCountL_set {hs : List (Option Handle)} {i : Nat} {x : Option Handle} (y : Option Handle)
    (c : Nat) (hi : hs[i]? = some x) :
    refCountL (hs.set i y) c + optCount (fun h => ctrlOf h == some c) x =
    refCountL hs c + optCount (fun h => ctrlOf h == some c) y :=
  countP_filterMap_set _ hs i x y hi

theorem dirCountL_set {hs : List (Option Handle)} {i : Nat} {x : Option Handle} (y : Option Handle)
    (r : Nat) (hi : hs[i]? = some x) :
    dirCountL (hs.set i y) r + optCount (fun h => directRegion h == some r) x =
    dirCountL hs r + optCount (fun h => directRegion h == some r) y :=
  countP_filterMap_set _ hs i x y hi

theorem refCountL_set_some {hs : List (Option Handle)} {i : Nat} {h : Handle} (h' : Handle) (c : Nat)
    (hi : hs[i]? = some (some h)) :
    refCountL (hs.set i (some h')) c + (if ctrlOf h = some c then 1 else 0) =
    refCountL hs c + (if ctrlOf h' = some c then 1 else 0) := by
  simpa using refCountL_set (some h') c hi

theorem refCountL_kill {hs : List (Option Handle)} {i : Nat} {h : Handle} (c : Nat)
    (hi : hs[i]? = some (some h)) :
    refCountL (hs.set i none) c + (if ctrlOf h = some c then 1 else 0) = refCountL hs c := by
  simpa using refCountL_set none c hi

theorem dirCountL_set_some {hs : List (Option Handle)} {i : Nat} {h : Handle} (h' : Handle) (r : Nat)
    (hi : hs[i]? = some (some h)) :
    dirCountL (hs.set i (some h')) r + (if directRegion h = some r then 1 else 0) =
    dirCountL hs r + (if directRegion h' = some r then 1 else 0) := by
  simpa using dirCountL_set (some h') r hi

theorem dirCountL_kill {hs : List (Option Handle)} {i : Nat} {h : Handle} (r : Nat)
    (hi : hs[i]? = some (some h)) :
    dirCountL (hs.set i none) r + (if directRegion h = some r then 1 else 0) = dirCountL hs r := by
  simpa using dirCountL_set none r hi

theorem refCountL_set_same {hs : List (Option Handle)} {i : Nat} {h h' : Handle}
    (hi : hs[i]? = some (some h)) (hc : ctrlOf h' = ctrlOf h) (c : Nat) :
    refCountL (hs.set i (some h')) c = refCountL hs c := by
  have := refCountL_set_some h' c hi; rw [hc] at this; omega

theorem dirCountL_set_same {hs : List (Option Handle)} {i : Nat} {h h' : Handle}
    (hi : hs[i]? = some (some h)) (hc : directRegion h' = directRegion h) (r : Nat) :
    dirCountL (hs.set i (some h')) r = dirCountL hs r := by
  have := dirCountL_set_some h' r hi; rw [hc] at this; omega

theorem refCountL_pos_of {hs : List (Option Handle)} {i : Nat} {h : Handle} {c : Nat}
    (hi : hs[i]? = some (some h)) (hc : ctrlOf h = some c) : 1 ≤ refCountL hs c := by
  have := refCountL_kill c hi; simp [hc] at this; omega

theorem dirCountL_pos_of {hs : List (Option Handle)} {i : Nat} {h : Handle} {r : Nat}
    (hi : hs[i]? = some (some h)) (hc : directRegion h = some r) : 1 ≤ dirCountL hs r := by
  have := dirCountL_kill r hi; simp [hc] at this; omega

theorem refCountL_eq_zero {hs : List (Option Handle)} {c : Nat} :
    refCountL hs c = 0 ↔ ∀ (i : Nat) (h : Handle), hs[i]? = some (some h) → ctrlOf h ≠ some c := by
  simp only [refCountL, List.countP_eq_zero, mem_liveHs, beq_iff_eq]
  constructor
  · intro h i a hi; exact h a ⟨i, hi⟩
  · rintro h a ⟨i, hi⟩; exact h i a hi

theorem dirCountL_eq_zero {hs : List (Option Handle)} {r : Nat} :
    dirCountL hs r = 0 ↔ ∀ (i : Nat) (h : Handle), hs[i]? = some (some h) → directRegion h ≠ some r := by
  simp only [dirCountL, List.countP_eq_zero, mem_liveHs, beq_iff_eq]
  constructor
  · intro h i a hi; exact h a ⟨i, hi⟩
  · rintro h a ⟨i, hi⟩; exact h i a hi

/-- if the count is 1 and slot `i` contributes, nobody else does -/
theorem refCountL_unique {hs : List (Option Handle)} {i j : Nat} {h h' : Handle} {c : Nat}
    (h1 : refCountL hs c = 1) (hi : hs[i]? = some (some h)) (hc : ctrlOf h = some c)
    (hj : hs[j]? = some (some h')) (hc' : ctrlOf h' = some c) : j = i := by
  apply Classical.byContradiction; intro hne
  have k1 := refCountL_kill c hi
  simp only [hc, if_true] at k1
  have hj' : (hs.set i none)[j]? = some (some h') := by
    rw [List.getElem?_set]; simp [Ne.symm hne, hj]
  have := refCountL_pos_of hj' hc'
  omega

theorem dirCountL_unique {hs : List (Option Handle)} {i j : Nat} {h h' : Handle} {r : Nat}
    (h1 : dirCountL hs r ≤ 1) (hi : hs[i]? = some (some h)) (hc : directRegion h = some r)
    (hj : hs[j]? = some (some h')) (hc' : directRegion h' = some r) : j = i := by
  apply Classical.byContradiction; intro hne
  have k1 := dirCountL_kill r hi
  simp only [hc, if_true] at k1
  have hj' : (hs.set i none)[j]? = some (some h') := by
    rw [List.getElem?_set]; simp [Ne.symm hne, hj]
  have := dirCountL_pos_of hj' hc'
  omega

/-- case split for a lookup in an updated table -/
theorem hs_set_cases {hs : List (Option Handle)} {i j : Nat} {x : Option Handle} {h : Handle}
    (hj : (hs.set i x)[j]? = some (some h)) :
    (j = i ∧ x = some h ∧ i < hs.length) ∨ (j ≠ i ∧ hs[j]? = some (some h)) := by
  rw [List.getElem?_set] at hj
  by_cases hij : i = j
  · subst hij
    by_cases hl : i < hs.length
    · simp [hl] at hj; exact .inl ⟨rfl, hj, hl⟩
    · simp [hl] at hj
  · simp [hij] at hj; exact .inr ⟨Ne.symm hij, hj⟩

theorem hs_push_cases {hs : List (Option Handle)} {j : Nat} {x : Option Handle} {h : Handle}
    (hj : (hs ++ [x])[j]? = some (some h)) :
    (j = hs.length ∧ x = some h) ∨ (j < hs.length ∧ hs[j]? = some (some h)) := by
  rw [List.getElem?_append] at hj
  by_cases hl : j < hs.length
  · simp only [hl, if_true] at hj; exact .inr ⟨hl, hj⟩
  · simp only [hl, if_false] at hj
    have : j - hs.length = 0 := by
      cases hk : j - hs.length with
      | zero => rfl
      | succ k => simp [hk] at hj
    simp [this] at hj
    exact .inl ⟨by omega, hj⟩

theorem hs_lookup_lt {hs : List (Option Handle)} {i : Nat} {x : Option Handle}
    (hi : hs[i]? = some x) : i < hs.length := by
  apply Classical.byContradiction; intro h
  rw [List.getElem?_eq_none (by omega)] at hi; simp at hi

/-! ## regions under append / `set` -/

/-- size, liveness and kind of a region (everything but its contents) -/
def metaL (R : List Region) (r : Nat) : Option (Nat × Bool × RKind) :=
  (R[r]?).map fun rg => (rg.size, rg.live, rg.kind)

theorem metaL_of_lookup {R R' : List Region} {r : Nat} (h : R'[r]? = R[r]?) :
    metaL R' r = metaL R r := by simp [metaL, h]

theorem isHeapLiveL_of_meta {R R' : List Region} {r : Nat} (h : metaL R' r = metaL R r) :
    isHeapLiveL R' r = isHeapLiveL R r := by
  simp only [metaL, isHeapLiveL_def] at *
  cases h1 : R'[r]? <;> cases h2 : R[r]? <;> simp_all

theorem regionSizeL_of_meta {R R' : List Region} {r : Nat} (h : metaL R' r = metaL R r) :
    regionSizeL R' r = regionSizeL R r := by
  simp only [metaL, regionSizeL_def] at *
  cases h1 : R'[r]? <;> cases h2 : R[r]? <;> simp_all

theorem regionOddL_of_meta {R R' : List Region} {r : Nat} (h : metaL R' r = metaL R r) :
    regionOddL R' r = regionOddL R r := by
  simp only [metaL, regionOddL_def] at *
  cases h1 : R'[r]? <;> cases h2 : R[r]? <;> simp_all

theorem kindL_of_meta {R R' : List Region} {r : Nat} (h : metaL R' r = metaL R r) :
    kindL R' r = kindL R r := by
  simp only [metaL, kindL] at *
  cases h1 : R'[r]? <;> cases h2 : R[r]? <;> simp_all

theorem lookup_append_left {α} {R : List α} {r : Nat} (X : List α) (h : r < R.length) :
    (R ++ X)[r]? = R[r]? := by simp [List.getElem?_append, h]

theorem lookup_append_of_some {α} {R : List α} {r : Nat} {x : α} (X : List α) (h : R[r]? = some x) :
    (R ++ X)[r]? = some x := by
  have : r < R.length := by
    apply Classical.byContradiction; intro hn
    rw [List.getElem?_eq_none (by omega)] at h; simp at h
  rw [lookup_append_left X this, h]

theorem lookup_append_new {α} (R : List α) (x : α) : (R ++ [x])[R.length]? = some x := by simp

theorem lookup_set_ne {α} {R : List α} {r r' : Nat} (x : α) (h : r' ≠ r) :
    (R.set r' x)[r]? = R[r]? := by simp [h]

theorem lookup_set_eq {α} {R : List α} {r : Nat} {y : α} (x : α) (h : R[r]? = some y) :
    (R.set r x)[r]? = some x := by
  have : r < R.length := by
    apply Classical.byContradiction; intro hn
    rw [List.getElem?_eq_none (by omega)] at h; simp at h
  simp [this]

theorem isHeapLiveL_lt {R : List Region} {r : Nat} (h : isHeapLiveL R r = true) : r < R.length := by
  apply Classical.byContradiction; intro hn
  rw [isHeapLiveL_def, List.getElem?_eq_none (by omega)] at h; simp at h

theorem isHeapLiveL_iff {R : List Region} {r : Nat} :
    isHeapLiveL R r = true ↔ ∃ rg o, R[r]? = some rg ∧ rg.live = true ∧ rg.kind = .heap o := by
  rw [isHeapLiveL_def]
  cases R[r]? with
  | none => simp
  | some rg =>
    cases hk : rg.kind <;> simp [hk]

theorem isHeapLiveL_append {R : List Region} {r : Nat} (X : List Region) (h : r < R.length) :
    isHeapLiveL (R ++ X) r = isHeapLiveL R r :=
  isHeapLiveL_of_meta (metaL_of_lookup (lookup_append_left X h))
theorem regionSizeL_append {R : List Region} {r : Nat} (X : List Region) (h : r < R.length) :
    regionSizeL (R ++ X) r = regionSizeL R r :=
  regionSizeL_of_meta (metaL_of_lookup (lookup_append_left X h))
theorem regionOddL_append {R : List Region} {r : Nat} (X : List Region) (h : r < R.length) :
    regionOddL (R ++ X) r = regionOddL R r :=
  regionOddL_of_meta (metaL_of_lookup (lookup_append_left X h))
theorem kindL_append {R : List Region} {r : Nat} (X : List Region) (h : r < R.length) :
    kindL (R ++ X) r = kindL R r :=
  kindL_of_meta (metaL_of_lookup (lookup_append_left X h))

theorem isHeapLiveL_new (R : List Region) (x : Region) :
    isHeapLiveL (R ++ [x]) R.length = (x.live && match x.kind with | .heap _ => true | _ => false) := by
  simp [isHeapLiveL_def]
theorem regionSizeL_new (R : List Region) (x : Region) :
    regionSizeL (R ++ [x]) R.length = x.size := by simp [regionSizeL_def]
theorem regionOddL_new (R : List Region) (x : Region) :
    regionOddL (R ++ [x]) R.length = (match x.kind with | .heap o => o | _ => false) := by
  simp [regionOddL_def]
theorem kindL_new (R : List Region) (x : Region) : kindL (R ++ [x]) R.length = some x.kind := by
  simp [kindL]

theorem isHeapLiveL_set_ne {R : List Region} {r r' : Nat} (x : Region) (h : r' ≠ r) :
    isHeapLiveL (R.set r' x) r = isHeapLiveL R r :=
  isHeapLiveL_of_meta (metaL_of_lookup (lookup_set_ne x h))
theorem regionSizeL_set_ne {R : List Region} {r r' : Nat} (x : Region) (h : r' ≠ r) :
    regionSizeL (R.set r' x) r = regionSizeL R r :=
  regionSizeL_of_meta (metaL_of_lookup (lookup_set_ne x h))
theorem regionOddL_set_ne {R : List Region} {r r' : Nat} (x : Region) (h : r' ≠ r) :
    regionOddL (R.set r' x) r = regionOddL R r :=
  regionOddL_of_meta (metaL_of_lookup (lookup_set_ne x h))
theorem kindL_set_ne {R : List Region} {r r' : Nat} (x : Region) (h : r' ≠ r) :
    kindL (R.set r' x) r = kindL R r :=
  kindL_of_meta (metaL_of_lookup (lookup_set_ne x h))

/-- a data-only update of region `r` keeps its meta data -/
theorem metaL_set_data {R : List Region} {r : Nat} {rg : Region} (d : List (Option Byte)) (r' : Nat)
    (hr : R[r]? = some rg) : metaL (R.set r { rg with data := d }) r' = metaL R r' := by
  by_cases h : r = r'
  · subst h; simp [metaL, lookup_set_eq _ hr, hr]
  · simp [metaL, lookup_set_ne _ h]

/-! ### `rdL` under region updates -/

theorem rdL_congr {R R' : List Region} {reg : Option Nat} {off len : Nat}
    (h : ∀ r, reg = some r → len ≠ 0 → R'[r]? = R[r]?) :
    rdL R' reg off len = rdL R reg off len := by
  unfold rdL
  by_cases hl : len = 0
  · simp [hl]
  · cases reg with
    | none => rfl
    | some r => simp only [hl, if_false, h r rfl hl]

/-- reads are preserved by appending regions -/
theorem rdL_append {R : List Region} {reg : Option Nat} {off len : Nat} {v : List Byte}
    (X : List Region) (h : rdL R reg off len = some v) : rdL (R ++ X) reg off len = some v := by
  rw [rdL_eq_some_iff] at h ⊢
  rcases h with h | ⟨h0, r, rg, h1, h2, h3⟩
  · exact .inl h
  · exact .inr ⟨h0, r, rg, h1, lookup_append_of_some X h2, h3⟩

theorem rdL_isSome_append {R : List Region} {reg : Option Nat} {off len : Nat}
    (X : List Region) (h : (rdL R reg off len).isSome = true) :
    (rdL (R ++ X) reg off len).isSome = true := by
  obtain ⟨v, hv⟩ := Option.isSome_iff_exists.mp h
  simp [rdL_append X hv]

theorem rdL_set_ne {R : List Region} {reg : Option Nat} {off len : Nat} {r' : Nat} (x : Region)
    (h : reg ≠ some r') : rdL (R.set r' x) reg off len = rdL R reg off len := by
  apply rdL_congr
  intro r hr _
  apply lookup_set_ne
  rintro rfl; exact h hr

theorem slice_congr {α} {d d' : List α} {off len : Nat}
    (h : ∀ k, off ≤ k → k < off + len → d'[k]? = d[k]?) :
    (d'.drop off).take len = (d.drop off).take len := by
  apply List.ext_getElem?
  intro j
  simp only [List.getElem?_take, List.getElem?_drop]
  split
  · exact h _ (by omega) (by omega)
  · rfl

/-- a data-only update of region `r` that does not touch `[off, off+len)` -/
theorem rdL_set_data {R : List Region} {r : Nat} {rg : Region} {d : List (Option Byte)}
    {reg : Option Nat} {off len : Nat} (hr : R[r]? = some rg)
    (h : reg = some r → ∀ k, off ≤ k → k < off + len → d[k]? = rg.data[k]?) :
    rdL (R.set r { rg with data := d }) reg off len = rdL R reg off len := by
  by_cases hreg : reg = some r
  · subst hreg
    unfold rdL
    by_cases hl : len = 0
    · simp [hl]
    · simp only [hl, if_false, lookup_set_eq _ hr, hr, slice_congr (h rfl)]
  · exact rdL_set_ne _ hreg

/-- `take o d ++ m ++ drop (o + |m|) d` pointwise -/
theorem write_getElem? {α} (d m : List α) (o k : Nat) (hb : o + m.length ≤ d.length) :
    (d.take o ++ m ++ d.drop (o + m.length))[k]? =
      if k < o then d[k]? else if k < o + m.length then m[k - o]? else d[k]? := by
  have h1 : (d.take o).length = o := by simp; omega
  rw [List.append_assoc, List.getElem?_append, h1]
  split
  · simp [*]
  · rw [List.getElem?_append]
    split
    · have : k < o + m.length := by omega
      simp [this]
    · have : ¬ k < o + m.length := by omega
      simp only [this, if_false, List.getElem?_drop]
      congr 1; omega

theorem write_length {α} (d m : List α) (o : Nat) (hb : o + m.length ≤ d.length) :
    (d.take o ++ m ++ d.drop (o + m.length)).length = d.length := by
  simp; omega

/-- reading back what was just written -/
theorem write_slice {α} (d m : List α) (o : Nat) (hb : o + m.length ≤ d.length) :
    ((d.take o ++ m ++ d.drop (o + m.length)).drop o).take m.length = m := by
  apply List.ext_getElem?
  intro j
  simp only [List.getElem?_take, List.getElem?_drop, write_getElem? d m o _ hb]
  split
  · have h1 : ¬ o + j < o := by omega
    have h2 : o + j < o + m.length := by omega
    simp [h1, h2]
  · rw [List.getElem?_eq_none (by omega)]

/-! ## control blocks under append / `set` -/

theorem liveCtrlL_some_iff {C : List CtrlE} {c : Nat} {ct : Ctrl} :
    liveCtrlL C c = some ct ↔ ∃ e, C[c]? = some e ∧ e.live = true ∧ e.c = ct := by
  rw [liveCtrlL_def]
  cases C[c]? with
  | none => simp
  | some e => by_cases h : e.live = true <;> simp [h]

theorem liveCtrlL_of {C : List CtrlE} {c : Nat} {e : CtrlE} (h : C[c]? = some e) (hl : e.live = true) :
    liveCtrlL C c = some e.c := by simp [liveCtrlL_def, h, hl]

theorem liveCtrlL_isSome_iff {C : List CtrlE} {c : Nat} :
    (liveCtrlL C c).isSome = true ↔ ∃ e, C[c]? = some e ∧ e.live = true := by
  rw [liveCtrlL_def]
  cases C[c]? with
  | none => simp
  | some e => by_cases h : e.live = true <;> simp [h]

theorem liveCtrlL_append {C : List CtrlE} {c : Nat} (X : List CtrlE) (h : c < C.length) :
    liveCtrlL (C ++ X) c = liveCtrlL C c := by
  simp [liveCtrlL_def, lookup_append_left X h]

theorem liveCtrlL_append_of_some {C : List CtrlE} {c : Nat} {ct : Ctrl} (X : List CtrlE)
    (h : liveCtrlL C c = some ct) : liveCtrlL (C ++ X) c = some ct := by
  obtain ⟨e, h1, h2, h3⟩ := liveCtrlL_some_iff.mp h
  exact liveCtrlL_some_iff.mpr ⟨e, lookup_append_of_some X h1, h2, h3⟩

theorem liveCtrlL_new (C : List CtrlE) (e : CtrlE) :
    liveCtrlL (C ++ [e]) C.length = if e.live then some e.c else none := by
  simp [liveCtrlL_def]

theorem liveCtrlL_set_ne {C : List CtrlE} {c c' : Nat} (e : CtrlE) (h : c' ≠ c) :
    liveCtrlL (C.set c' e) c = liveCtrlL C c := by
  simp [liveCtrlL_def, lookup_set_ne e h]

theorem liveCtrlL_set_eq {C : List CtrlE} {c : Nat} {e0 : CtrlE} (e : CtrlE) (h : C[c]? = some e0) :
    liveCtrlL (C.set c e) c = if e.live then some e.c else none := by
  simp [liveCtrlL_def, lookup_set_eq e h]

/-- changing only the reference count of a block is invisible to `liveCtrlL` -/
theorem liveCtrlL_set_rc {C : List CtrlE} {c : Nat} {e : CtrlE} (n : Nat) (c' : Nat)
    (h : C[c]? = some e) : liveCtrlL (C.set c { e with rc := n }) c' = liveCtrlL C c' := by
  by_cases hc : c = c'
  · subst hc; rw [liveCtrlL_set_eq _ h, liveCtrlL_def, h]
  · exact liveCtrlL_set_ne _ hc

theorem liveCtrlL_lt {C : List CtrlE} {c : Nat} {ct : Ctrl} (h : liveCtrlL C c = some ct) :
    c < C.length := by
  obtain ⟨e, h1, _⟩ := liveCtrlL_some_iff.mp h
  exact Classical.byContradiction fun hn => by
    rw [List.getElem?_eq_none (by omega)] at h1; simp at h1

theorem ctrlCountL_push (C : List CtrlE) (e : CtrlE) (r : Nat) :
    ctrlCountL (C ++ [e]) r = ctrlCountL C r + if (e.live && ctrlRegion e.c == some r) then 1 else 0 := by
  simp [ctrlCountL, List.countP_append, List.countP_cons]

theorem ctrlCountL_set {C : List CtrlE} {c : Nat} {e : CtrlE} (e' : CtrlE) (r : Nat)
    (h : C[c]? = some e) :
    ctrlCountL (C.set c e') r + (if (e.live && ctrlRegion e.c == some r) then 1 else 0) =
    ctrlCountL C r + (if (e'.live && ctrlRegion e'.c == some r) then 1 else 0) :=
  countP_set' _ C c e e' h

theorem ctrlCountL_set_same {C : List CtrlE} {c : Nat} {e : CtrlE} (e' : CtrlE) (r : Nat)
    (h : C[c]? = some e) (hl : e'.live = e.live) (hr : ctrlRegion e'.c = ctrlRegion e.c) :
    ctrlCountL (C.set c e') r = ctrlCountL C r := by
  have := ctrlCountL_set e' r h; rw [hl, hr] at this; omega

theorem ctrlCountL_eq_zero {C : List CtrlE} {r : Nat} :
    ctrlCountL C r = 0 ↔ ∀ (c : Nat) (e : CtrlE), C[c]? = some e → e.live = true → ctrlRegion e.c ≠ some r := by
  simp only [ctrlCountL, List.countP_eq_zero, List.mem_iff_getElem?, Bool.and_eq_true, beq_iff_eq,
    not_and]
  constructor
  · intro h c e hc; exact h e ⟨c, hc⟩
  · rintro h e ⟨c, hc⟩; exact h c e hc

theorem ctrlCountL_pos_of {C : List CtrlE} {c : Nat} {e : CtrlE} {r : Nat} (h : C[c]? = some e)
    (hl : e.live = true) (hr : ctrlRegion e.c = some r) : 1 ≤ ctrlCountL C r := by
  have := ctrlCountL_set { e with live := false } r h
  simp [hl, hr] at this; omega

/-- if at most one live block names region `r` and `c` does, nobody else does -/
theorem ctrlCountL_unique {C : List CtrlE} {c c' : Nat} {e e' : CtrlE} {r : Nat}
    (h1 : ctrlCountL C r ≤ 1) (hc : C[c]? = some e) (hl : e.live = true)
    (hr : ctrlRegion e.c = some r) (hc' : C[c']? = some e') (hl' : e'.live = true)
    (hr' : ctrlRegion e'.c = some r) : c' = c := by
  apply Classical.byContradiction; intro hne
  have k := ctrlCountL_set { e with live := false } r hc
  simp [hl, hr] at k
  have : (C.set c { e with live := false })[c']? = some e' := by
    rw [lookup_set_ne _ (Ne.symm hne)]; exact hc'
  have := ctrlCountL_pos_of this hl' hr'
  omega

/-! ## what `handleOKB` says, shape by shape -/

theorem handleOKL_static {R C reg off len} :
    handleOKL R C (.bytes .static reg off len) = true ↔ (rdL R reg off len).isSome = true := by
  simp only [handleOKL, handleOKB, initRange_eq, initRangeL_eq]

theorem handleOKL_owned {R C c reg off len} :
    handleOKL R C (.bytes (.owned c) reg off len) = true ↔
      (∃ o, liveCtrlL C c = some (.owned o) ∧
        (len = 0 ∨ ∃ r, reg = some r ∧ kindL R r = some (.ownerMem o))) ∧
      (rdL R reg off len).isSome = true := by
  simp only [handleOKL, handleOKB, initRange_eq, initRangeL_eq, liveCtrl_eq, Bool.and_eq_true]
  apply and_congr_left'
  cases hc : liveCtrlL C c with
  | none => simp
  | some ct =>
    cases ct <;> simp
    cases reg with
    | none => simp
    | some r =>
      simp [kindL]
      cases R[r]? <;> simp

theorem handleOKL_promV {R C vt reg off len} :
    handleOKL R C (.bytes (.prom vt none) reg off len) = true ↔
      (∃ r, reg = some r ∧ isHeapLiveL R r = true ∧ off + len = regionSizeL R r ∧ vt = regionOddL R r) ∧
      (rdL R reg off len).isSome = true := by
  simp only [handleOKL, handleOKB, initRange_eq, initRangeL_eq, isHeapLive_eq, regionSize_eq,
    regionOddB_eq, Bool.and_eq_true]
  apply and_congr_left'
  cases reg <;> simp [and_assoc]

theorem handleOKL_promA {R C vt c reg off len} :
    handleOKL R C (.bytes (.prom vt (some c)) reg off len) = true ↔
      (∃ r cap, liveCtrlL C c = some (.sharedB r cap) ∧ reg = some r ∧ off + len ≤ cap) ∧
      (rdL R reg off len).isSome = true := by
  simp only [handleOKL, handleOKB, initRange_eq, initRangeL_eq, liveCtrl_eq, Bool.and_eq_true]
  apply and_congr_left'
  cases hc : liveCtrlL C c with
  | none => simp
  | some ct =>
    cases ct <;> cases reg <;> simp
    constructor
    · rintro ⟨rfl, h⟩; exact ⟨_, _, ⟨rfl, rfl⟩, rfl, h⟩
    · rintro ⟨_, _, ⟨rfl, rfl⟩, rfl, h⟩; exact ⟨rfl, h⟩

theorem handleOKL_shared {R C c reg off len} :
    handleOKL R C (.bytes (.shared c) reg off len) = true ↔
      (∃ r cap, liveCtrlL C c = some (.sharedB r cap) ∧ reg = some r ∧ off + len ≤ cap) ∧
      (rdL R reg off len).isSome = true := by
  simp only [handleOKL, handleOKB, initRange_eq, initRangeL_eq, liveCtrl_eq, Bool.and_eq_true]
  apply and_congr_left'
  cases hc : liveCtrlL C c with
  | none => simp
  | some ct =>
    cases ct <;> cases reg <;> simp
    constructor
    · rintro ⟨rfl, h⟩; exact ⟨_, _, ⟨rfl, rfl⟩, rfl, h⟩
    · rintro ⟨_, _, ⟨rfl, rfl⟩, rfl, h⟩; exact ⟨rfl, h⟩

theorem handleOKL_sharedV {R C c reg off len} :
    handleOKL R C (.bytes (.sharedV c) reg off len) = true ↔
      (∃ vlen vcap vorig, liveCtrlL C c = some (.sharedV reg vlen vcap vorig) ∧ off + len ≤ vcap) ∧
      (rdL R reg off len).isSome = true := by
  simp only [handleOKL, handleOKB, initRange_eq, initRangeL_eq, liveCtrl_eq, Bool.and_eq_true]
  apply and_congr_left'
  cases hc : liveCtrlL C c with
  | none => simp
  | some ct =>
    cases ct <;> simp
    constructor
    · rintro ⟨rfl, h⟩; exact ⟨_, _, ⟨rfl, rfl, rfl⟩, h⟩
    · rintro ⟨_, _, ⟨rfl, rfl, rfl⟩, h⟩; exact ⟨rfl, h⟩

theorem handleOKL_mutV {R C reg off len cap orig} :
    handleOKL R C (.mut none reg off len cap orig) = true ↔
      len ≤ cap ∧ off ≤ W / 32 - 1 ∧
      (match reg with
       | none => off + cap = 0
       | some r => isHeapLiveL R r = true ∧ off + cap = regionSizeL R r) ∧
      (rdL R reg off len).isSome = true := by
  simp only [handleOKL, handleOKB, initRange_eq, initRangeL_eq, isHeapLive_eq, regionSize_eq,
    Bool.and_eq_true, decide_eq_true_eq, and_assoc]
  cases reg <;> simp

theorem handleOKL_mutA {R C c reg off len cap orig} :
    handleOKL R C (.mut (some c) reg off len cap orig) = true ↔
      len ≤ cap ∧
      (∃ vlen vcap vorig, liveCtrlL C c = some (.sharedV reg vlen vcap vorig) ∧ off + cap ≤ vcap) ∧
      (rdL R reg off len).isSome = true := by
  simp only [handleOKL, handleOKB, initRange_eq, initRangeL_eq, liveCtrl_eq, Bool.and_eq_true,
    decide_eq_true_eq, and_assoc]
  apply and_congr_right'
  apply and_congr_left'
  cases hc : liveCtrlL C c with
  | none => simp
  | some ct =>
    cases ct <;> simp
    constructor
    · rintro ⟨rfl, h⟩; exact ⟨_, _, ⟨rfl, rfl, rfl⟩, h⟩
    · rintro ⟨_, _, ⟨rfl, rfl, rfl⟩, h⟩; exact ⟨rfl, h⟩

theorem handleOKL_vec {R C reg len cap} :
    handleOKL R C (.vec reg len cap) = true ↔
      len ≤ cap ∧
      (match reg with
       | none => cap = 0
       | some r => isHeapLiveL R r = true ∧ cap = regionSizeL R r) ∧
      (rdL R reg 0 len).isSome = true := by
  simp only [handleOKL, handleOKB, initRange_eq, initRangeL_eq, isHeapLive_eq, regionSize_eq,
    Bool.and_eq_true, decide_eq_true_eq, and_assoc]
  cases reg <;> simp


/-! ## frame lemma for `handleOKL` -/

/-- does `handleOKL` look at the size / liveness / kind of the handle's region?  (Shapes that go
through a control block only read the block; static handles only read their bytes.) -/
def usesMeta : Handle → Bool
  | .bytes (.owned _) _ _ len => len != 0
  | .bytes (.prom _ none) .. => true
  | .mut none .. => true
  | .vec .. => true
  | _ => false

/-- `handleOKL R C h` reads: the meta data of `h`'s region, whether `h`'s view is readable, and the
live control block `h` names. -/
theorem handleOKL_frame {R R' : List Region} {C C' : List CtrlE} {h : Handle}
    (hm : ∀ r, hreg h = some r → usesMeta h = true → metaL R' r = metaL R r)
    (hi : (rdL R' (hreg h) (hoff h) (hlen h)).isSome = (rdL R (hreg h) (hoff h) (hlen h)).isSome)
    (hc : ∀ c, ctrlOf h = some c → liveCtrlL C' c = liveCtrlL C c) :
    handleOKL R' C' h = handleOKL R C h := by
  apply Bool.eq_iff_iff.mpr
  cases h with
  | bytes repr reg off len =>
    simp only [hreg, hoff, hlen] at hm hi
    cases repr with
    | «static» => simp only [handleOKL_static, hi]
    | owned c =>
      have := hc c rfl
      simp only [handleOKL_owned, hi, this]
      by_cases hl : len = 0
      · simp [hl]
      · cases reg with
        | none => simp
        | some r => simp [kindL_of_meta (hm r rfl (by simp [usesMeta, hl]))]
    | prom vt oc =>
      cases oc with
      | none =>
        simp only [handleOKL_promV, hi]
        cases reg with
        | none => simp
        | some r =>
          simp [isHeapLiveL_of_meta (hm r rfl rfl), regionSizeL_of_meta (hm r rfl rfl),
            regionOddL_of_meta (hm r rfl rfl)]
      | some c => simp only [handleOKL_promA, hi, hc c rfl]
    | shared c => simp only [handleOKL_shared, hi, hc c rfl]
    | sharedV c => simp only [handleOKL_sharedV, hi, hc c rfl]
  | «mut» arc reg off len cap orig =>
    simp only [hreg, hoff, hlen] at hm hi
    cases arc with
    | none =>
      simp only [handleOKL_mutV, hi]
      cases reg with
      | none => simp
      | some r => simp [isHeapLiveL_of_meta (hm r rfl rfl), regionSizeL_of_meta (hm r rfl rfl)]
    | some c => simp only [handleOKL_mutA, hi, hc c rfl]
  | vec reg len cap =>
    simp only [hreg, hoff, hlen] at hm hi
    simp only [handleOKL_vec, hi]
    cases reg with
    | none => simp
    | some r => simp [isHeapLiveL_of_meta (hm r rfl rfl), regionSizeL_of_meta (hm r rfl rfl)]

theorem handleOKL_rd {R : List Region} {C : List CtrlE} {h : Handle} (hok : handleOKL R C h = true) :
    (rdL R (hreg h) (hoff h) (hlen h)).isSome = true := by
  cases h with
  | bytes repr reg off len =>
    cases repr with
    | «static» => exact handleOKL_static.mp hok
    | owned c => exact (handleOKL_owned.mp hok).2
    | prom vt oc =>
      cases oc with
      | none => exact (handleOKL_promV.mp hok).2
      | some c => exact (handleOKL_promA.mp hok).2
    | shared c => exact (handleOKL_shared.mp hok).2
    | sharedV c => exact (handleOKL_sharedV.mp hok).2
  | «mut» arc reg off len cap orig =>
    cases arc with
    | none => exact (handleOKL_mutV.mp hok).2.2.2
    | some c => exact (handleOKL_mutA.mp hok).2.2
  | vec reg len cap => exact (handleOKL_vec.mp hok).2.2

theorem handleOKL_ctrl_live {R : List Region} {C : List CtrlE} {h : Handle} {c : Nat}
    (hok : handleOKL R C h = true) (hc : ctrlOf h = some c) : (liveCtrlL C c).isSome = true := by
  cases h with
  | bytes repr reg off len =>
    cases repr with
    | «static» => simp [ctrlOf] at hc
    | owned c' =>
      simp [ctrlOf] at hc; subst hc
      obtain ⟨⟨o, h1, _⟩, _⟩ := handleOKL_owned.mp hok; simp [h1]
    | prom vt oc =>
      cases oc with
      | none => simp [ctrlOf] at hc
      | some c' =>
        simp [ctrlOf] at hc; subst hc
        obtain ⟨⟨_, _, h1, _⟩, _⟩ := handleOKL_promA.mp hok; simp [h1]
    | shared c' =>
      simp [ctrlOf] at hc; subst hc
      obtain ⟨⟨_, _, h1, _⟩, _⟩ := handleOKL_shared.mp hok; simp [h1]
    | sharedV c' =>
      simp [ctrlOf] at hc; subst hc
      obtain ⟨⟨_, _, _, h1, _⟩, _⟩ := handleOKL_sharedV.mp hok; simp [h1]
  | «mut» arc reg off len cap orig =>
    cases arc with
    | none => simp [ctrlOf] at hc
    | some c' =>
      simp [ctrlOf] at hc; subst hc
      obtain ⟨_, ⟨_, _, _, h1, _⟩, _⟩ := handleOKL_mutA.mp hok; simp [h1]
  | vec reg len cap => simp [ctrlOf] at hc

/-- a handle that owns its region directly: the region is a live heap region -/
theorem handleOKL_direct {R : List Region} {C : List CtrlE} {h : Handle} {r : Nat}
    (hok : handleOKL R C h = true) (hd : directRegion h = some r) : isHeapLiveL R r = true := by
  cases h with
  | bytes repr reg off len =>
    cases repr with
    | prom vt oc =>
      cases oc with
      | none =>
        simp [directRegion] at hd; subst hd
        obtain ⟨⟨r', h1, h2, _⟩, _⟩ := handleOKL_promV.mp hok
        cases h1; exact h2
      | some c => simp [directRegion] at hd
    | _ => simp [directRegion] at hd
  | «mut» arc reg off len cap orig =>
    cases arc with
    | none =>
      simp [directRegion] at hd; subst hd
      exact (handleOKL_mutV.mp hok).2.2.1.1
    | some c => simp [directRegion] at hd
  | vec reg len cap =>
    simp [directRegion] at hd; subst hd
    exact (handleOKL_vec.mp hok).2.1.1

theorem rdL_isSome_lt {R : List Region} {r off len : Nat} (h : (rdL R (some r) off len).isSome = true)
    (hl : len ≠ 0) : r < R.length := by
  obtain ⟨v, hv⟩ := Option.isSome_iff_exists.mp h
  rcases rdL_eq_some_iff.mp hv with ⟨h0, _⟩ | ⟨_, r', rg, h1, h2, _⟩
  · exact (hl h0).elim
  · cases h1
    exact Classical.byContradiction fun hn => by
      rw [List.getElem?_eq_none (by omega)] at h2; simp at h2

theorem handleOKL_meta_lt {R : List Region} {C : List CtrlE} {h : Handle} {r : Nat}
    (hok : handleOKL R C h = true) (hr : hreg h = some r) (hu : usesMeta h = true) :
    r < R.length := by
  cases h with
  | bytes repr reg off len =>
    simp only [hreg] at hr; subst hr
    cases repr with
    | owned c =>
      simp [usesMeta] at hu
      exact rdL_isSome_lt (handleOKL_owned.mp hok).2 hu
    | prom vt oc =>
      cases oc with
      | none => exact isHeapLiveL_lt (handleOKL_direct hok rfl)
      | some c => simp [usesMeta] at hu
    | _ => simp [usesMeta] at hu
  | «mut» arc reg off len cap orig =>
    simp only [hreg] at hr; subst hr
    cases arc with
    | none => exact isHeapLiveL_lt (handleOKL_direct hok rfl)
    | some c => simp [usesMeta] at hu
  | vec reg len cap =>
    simp only [hreg] at hr; subst hr
    exact isHeapLiveL_lt (handleOKL_direct hok rfl)

/-- a handle that is OK stays OK when regions and control blocks are only appended -/
theorem handleOKL_append {R : List Region} {C : List CtrlE} {h : Handle} (X : List Region)
    (Y : List CtrlE) (hok : handleOKL R C h = true) : handleOKL (R ++ X) (C ++ Y) h = true := by
  rw [← hok]
  apply handleOKL_frame
  · intro r hr hu
    exact metaL_of_lookup (lookup_append_left X (handleOKL_meta_lt hok hr hu))
  · rw [handleOKL_rd hok, rdL_isSome_append X (handleOKL_rd hok)]
  · intro c hc
    obtain ⟨ct, hct⟩ := Option.isSome_iff_exists.mp (handleOKL_ctrl_live hok hc)
    exact liveCtrlL_append Y (liveCtrlL_lt hct)


/-! ## exclusivity -/

/-- W4 as a statement about two distinct slots -/
def Excl (hs : List (Option Handle)) : Prop :=
  ∀ (i j : Nat) (a b : Handle), hs[i]? = some (some a) → hs[j]? = some (some b) → i ≠ j →
    isMutable a = true → disjointB a b = true

theorem exclusiveB_iff (s : St) : exclusiveB s = true ↔ Excl s.hs := by
  unfold exclusiveB Excl
  simp only [List.all_eq_true, List.mem_zipIdx_iff_getElem?, Prod.forall]
  constructor
  · intro h i j a b hi hj hij hm
    have h1 := h (some a) i hi
    simp only [hm, Bool.not_true, Bool.false_or, List.all_eq_true, List.mem_zipIdx_iff_getElem?,
      Prod.forall] at h1
    have h2 := h1 (some b) j hj
    simpa [hij] using h2
  · intro h oa i hi
    cases oa with
    | none => rfl
    | some a =>
      simp only [Bool.or_eq_true, Bool.not_eq_true', List.all_eq_true,
        List.mem_zipIdx_iff_getElem?, Prod.forall]
      by_cases hm : isMutable a = true
      · right
        intro ob j hj
        cases ob with
        | none => rfl
        | some b =>
          by_cases hij : i = j
          · simp [hij]
          · simp [h i j a b hi hj hij hm]
      · left; simpa using hm

theorem disjointB_symm (a b : Handle) : disjointB a b = disjointB b a := by
  unfold disjointB
  cases span a with
  | none => cases span b <;> rfl
  | some x =>
    cases span b with
    | none => rfl
    | some y =>
      obtain ⟨r, o, l⟩ := x; obtain ⟨r', o', l'⟩ := y
      apply Bool.eq_iff_iff.mpr
      simp only [Bool.or_eq_true, bne_iff_ne, ne_eq, beq_iff_eq, decide_eq_true_eq]
      constructor <;> (intro h; rcases h with (((h | h) | h) | h) | h <;> simp_all [eq_comm])

theorem disjointB_iff {a b : Handle} :
    disjointB a b = true ↔ ∀ r o l r' o' l', span a = some (r, o, l) → span b = some (r', o', l') →
      r ≠ r' ∨ l = 0 ∨ l' = 0 ∨ o + l ≤ o' ∨ o' + l' ≤ o := by
  unfold disjointB
  cases span a with
  | none => simp
  | some x =>
    cases span b with
    | none => simp
    | some y =>
      obtain ⟨r, o, l⟩ := x; obtain ⟨r', o', l'⟩ := y
      simp only [Bool.or_eq_true, bne_iff_ne, ne_eq, beq_iff_eq, decide_eq_true_eq,
        Option.some.injEq, Prod.mk.injEq]
      constructor
      · rintro h _ _ _ _ _ _ ⟨rfl, rfl, rfl⟩ ⟨rfl, rfl, rfl⟩; omega
      · intro h; have := h r o l r' o' l' ⟨rfl, rfl, rfl⟩ ⟨rfl, rfl, rfl⟩; omega

theorem disjointB_of_span_none_left {a b : Handle} (h : span a = none) : disjointB a b = true := by
  simp [disjointB, h]
theorem disjointB_of_span_none_right {a b : Handle} (h : span b = none) : disjointB a b = true := by
  rw [disjointB_symm]; exact disjointB_of_span_none_left h

/-- the span of `a'` (if non-empty) lies inside the span of `a` -/
def spanSub (a' a : Handle) : Prop :=
  ∀ r o l, span a' = some (r, o, l) → l ≠ 0 →
    ∃ o0 l0, span a = some (r, o0, l0) ∧ o0 ≤ o ∧ o + l ≤ o0 + l0

theorem spanSub_refl (a : Handle) : spanSub a a := by
  intro r o l h _; exact ⟨o, l, h, Nat.le_refl _, Nat.le_refl _⟩

theorem disjointB_sub_left {a a' b : Handle} (hs : spanSub a' a) (h : disjointB a b = true) :
    disjointB a' b = true := by
  rw [disjointB_iff] at h ⊢
  intro r o l r' o' l' h1 h2
  by_cases hl : l = 0
  · exact .inr (.inl hl)
  · obtain ⟨o0, l0, h3, h4, h5⟩ := hs r o l h1 hl
    have := h r o0 l0 r' o' l' h3 h2
    omega

theorem disjointB_sub_right {a b b' : Handle} (hs : spanSub b' b) (h : disjointB a b = true) :
    disjointB a b' = true := by
  rw [disjointB_symm] at h ⊢; exact disjointB_sub_left hs h

theorem Excl_kill {hs : List (Option Handle)} (i : Nat) (he : Excl hs) : Excl (hs.set i none) := by
  intro j k a b hj hk hjk hm
  rcases hs_set_cases hj with ⟨_, h, _⟩ | ⟨_, hj'⟩
  · cases h
  rcases hs_set_cases hk with ⟨_, h, _⟩ | ⟨_, hk'⟩
  · cases h
  exact he j k a b hj' hk' hjk hm

/-- replace slot `i`: the new handle must be exclusive against all the other slots -/
theorem Excl_set {hs : List (Option Handle)} {i : Nat} {h' : Handle} (he : Excl hs)
    (hn : ∀ j b, j ≠ i → hs[j]? = some (some b) →
      (isMutable b = true → disjointB b h' = true) ∧ (isMutable h' = true → disjointB h' b = true)) :
    Excl (hs.set i (some h')) := by
  intro j k a b hj hk hjk hm
  rcases hs_set_cases hj with ⟨rfl, h, _⟩ | ⟨hji, hj'⟩
  · cases h
    rcases hs_set_cases hk with ⟨rfl, _, _⟩ | ⟨hki, hk'⟩
    · exact (hjk rfl).elim
    · exact (hn k b hki hk').2 hm
  · rcases hs_set_cases hk with ⟨rfl, h, _⟩ | ⟨hki, hk'⟩
    · cases h; exact (hn j a hji hj').1 hm
    · exact he j k a b hj' hk' hjk hm

/-- replace slot `i` by a handle whose span lies inside the old one (and which is mutable only if
the old one was) -/
theorem Excl_set_sub {hs : List (Option Handle)} {i : Nat} {h h' : Handle} (he : Excl hs)
    (hi : hs[i]? = some (some h)) (hsub : spanSub h' h)
    (hm : isMutable h' = true → isMutable h = true) : Excl (hs.set i (some h')) := by
  apply Excl_set he
  intro j b hji hj
  exact ⟨fun hb => disjointB_sub_right hsub (he j i b h hj hi hji hb),
    fun hh => disjointB_sub_left hsub (he i j h b hi hj (Ne.symm hji) (hm hh))⟩

/-- append a handle: it must be exclusive against all existing slots -/
theorem Excl_push {hs : List (Option Handle)} {h' : Handle} (he : Excl hs)
    (hn : ∀ (j : Nat) (b : Handle), hs[j]? = some (some b) →
      (isMutable b = true → disjointB b h' = true) ∧ (isMutable h' = true → disjointB h' b = true)) :
    Excl (hs ++ [some h']) := by
  intro j k a b hj hk hjk hm
  rcases hs_push_cases hj with ⟨rfl, h⟩ | ⟨hjl, hj'⟩
  · cases h
    rcases hs_push_cases hk with ⟨rfl, _⟩ | ⟨_, hk'⟩
    · exact (hjk rfl).elim
    · exact (hn k b hk').2 hm
  · rcases hs_push_cases hk with ⟨rfl, h⟩ | ⟨_, hk'⟩
    · cases h; exact (hn j a hj').1 hm
    · exact he j k a b hj' hk' hjk hm

/-- append a handle whose span lies inside the span of slot `i`, which is immutable (sharing) -/
theorem Excl_push_sub_imm {hs : List (Option Handle)} {i : Nat} {h h' : Handle} (he : Excl hs)
    (hi : hs[i]? = some (some h)) (hsub : spanSub h' h) (hm' : isMutable h' = false)
    (hm : isMutable h = false) : Excl (hs ++ [some h']) := by
  apply Excl_push he
  intro j b hj
  refine ⟨fun hb => ?_, fun hh => by simp [hm'] at hh⟩
  by_cases hji : j = i
  · subst hji; rw [hi] at hj; cases hj; simp [hm] at hb
  · exact disjointB_sub_right hsub (he j i b h hj hi hji hb)

/-- split slot `i` in two: `h1` replaces it, `h2` is appended; both lie inside the old span and
are exclusive against each other -/
theorem Excl_split {hs : List (Option Handle)} {i : Nat} {h h1 h2 : Handle} (he : Excl hs)
    (hi : hs[i]? = some (some h)) (s1 : spanSub h1 h) (s2 : spanSub h2 h)
    (m1 : isMutable h1 = true → isMutable h = true) (m2 : isMutable h2 = true → isMutable h = true)
    (d12 : isMutable h1 = true → disjointB h1 h2 = true)
    (d21 : isMutable h2 = true → disjointB h2 h1 = true) :
    Excl (hs.set i (some h1) ++ [some h2]) := by
  apply Excl_push (Excl_set_sub he hi s1 m1)
  intro j b hj
  rcases hs_set_cases hj with ⟨rfl, h, _⟩ | ⟨hji, hj'⟩
  · cases h; exact ⟨d12, d21⟩
  · exact ⟨fun hb => disjointB_sub_right s2 (he j i b h hj' hi hji hb),
      fun hh => disjointB_sub_left s2 (he i j h b hi hj' (Ne.symm hji) (m2 hh))⟩


/-! ## the invariant at Prop level -/

/-- the buffer a live control block names -/
def ctrlBufOK (R : List Region) (owners : Nat) : Ctrl → Prop
  | .sharedB r cap => isHeapLiveL R r = true ∧ regionSizeL R r = cap
  | .sharedV (some r) _ vcap _ => isHeapLiveL R r = true ∧ regionSizeL R r = vcap
  | .sharedV none _ vcap _ => vcap = 0
  | .owned o => o < owners

theorem ctrlOKB_iff (s : St) (c : Nat) (e : CtrlE) :
    ctrlOKB s c e = true ↔
      (e.live = true → e.rc = refCountL s.hs c ∧ 1 ≤ e.rc ∧ ctrlBufOK s.regions s.owners e.c) := by
  unfold ctrlOKB
  simp only [Bool.or_eq_true, Bool.not_eq_true', Bool.and_eq_true, beq_iff_eq, decide_eq_true_eq,
    refCount_eq, isHeapLive_eq, regionSize_eq, ge_iff_le, and_assoc]
  cases hl : e.live with
  | false => simp
  | true =>
    simp only [Bool.true_eq_false, false_or, forall_const]
    apply and_congr_right'; apply and_congr_right'
    cases hc : e.c with
    | sharedB r cap => simp [ctrlBufOK]
    | sharedV reg vlen vcap orig => cases reg <;> simp [ctrlBufOK]
    | owned o => simp [ctrlBufOK]

/-- W1–W4 of CoreWF.lean plus the two strengthenings, in Prop form.  This is what proofs use. -/
structure Inv (s : St) : Prop where
  /-- W1 -/
  regs : ∀ (r : Nat) (rg : Region), s.regions[r]? = some rg → regionOKB rg = true
  /-- W2 + W5 (use the `handleOKL_<shape>` iff lemmas to read / establish it) -/
  hok : ∀ (i : Nat) (h : Handle), s.hs[i]? = some (some h) → handleOKL s.regions s.ctrls h = true
  /-- W3, control blocks -/
  cok : ∀ (c : Nat) (e : CtrlE), s.ctrls[c]? = some e → e.live = true →
    e.rc = refCountL s.hs c ∧ 1 ≤ e.rc ∧ ctrlBufOK s.regions s.owners e.c
  /-- W3, owners of regions -/
  own : ∀ r, r < s.regions.length →
    dirCountL s.hs r + ctrlCountL s.ctrls r = if isHeapLiveL s.regions r = true then 1 else 0
  /-- W4 -/
  excl : Excl s.hs
  /-- X1: a non-empty STATIC handle points into static memory -/
  stat : ∀ (i r off len : Nat), s.hs[i]? = some (some (.bytes .static (some r) off len)) → len ≠ 0 →
    kindL s.regions r = some .static
  /-- X2: live `owned o` control blocks have pairwise distinct owners -/
  odist : ∀ (c c' o : Nat), liveCtrlL s.ctrls c = some (.owned o) → liveCtrlL s.ctrls c' = some (.owned o) →
    c = c'

/-- X1 -/
def StaticOK (s : St) : Prop :=
  ∀ (i r off len : Nat), s.hs[i]? = some (some (.bytes .static (some r) off len)) → len ≠ 0 →
    kindL s.regions r = some .static

/-- X2 -/
def OwnedDistinct (s : St) : Prop :=
  ∀ (c c' o : Nat), liveCtrlL s.ctrls c = some (.owned o) → liveCtrlL s.ctrls c' = some (.owned o) →
    c = c'

/-- The strengthened (inductive) invariant. -/
def WFx (s : St) : Prop := WF s ∧ StaticOK s ∧ OwnedDistinct s

theorem WFx.wf {s : St} (h : WFx s) : WF s := h.1

theorem WF_iff (s : St) : WF s ↔
    (∀ (r : Nat) (rg : Region), s.regions[r]? = some rg → regionOKB rg = true) ∧
    (∀ (i : Nat) (h : Handle), s.hs[i]? = some (some h) → handleOKL s.regions s.ctrls h = true) ∧
    (∀ (c : Nat) (e : CtrlE), s.ctrls[c]? = some e → e.live = true →
      e.rc = refCountL s.hs c ∧ 1 ≤ e.rc ∧ ctrlBufOK s.regions s.owners e.c) ∧
    (∀ r, r < s.regions.length →
      dirCountL s.hs r + ctrlCountL s.ctrls r = if isHeapLiveL s.regions r = true then 1 else 0) ∧
    Excl s.hs := by
  unfold WF wfB
  simp only [Bool.and_eq_true, and_assoc]
  have e1 : (s.regions.all regionOKB = true) ↔
      ∀ (r : Nat) (rg : Region), s.regions[r]? = some rg → regionOKB rg = true := by
    simp only [List.all_eq_true, List.mem_iff_getElem?]
    constructor
    · intro h r rg hr; exact h rg ⟨r, hr⟩
    · rintro h rg ⟨r, hr⟩; exact h r rg hr
  have e2 : ((liveHandles s).all (handleOKB s) = true) ↔
      ∀ (i : Nat) (h : Handle), s.hs[i]? = some (some h) → handleOKL s.regions s.ctrls h = true := by
    simp only [List.all_eq_true, liveHandles_eq, mem_liveHs, handleOKB_eq]
    constructor
    · intro h i a hi; exact h a ⟨i, hi⟩
    · rintro h a ⟨i, hi⟩; exact h i a hi
  have e3 : ((s.ctrls.zipIdx).all (fun x => ctrlOKB s x.2 x.1) = true) ↔
      ∀ (c : Nat) (e : CtrlE), s.ctrls[c]? = some e → e.live = true →
        e.rc = refCountL s.hs c ∧ 1 ≤ e.rc ∧ ctrlBufOK s.regions s.owners e.c := by
    simp only [List.all_eq_true, List.mem_zipIdx_iff_getElem?, Prod.forall, ctrlOKB_iff]
    constructor
    · intro h c e; exact h e c
    · intro h e c; exact h c e
  have e5 : ((List.range s.regions.length).all (fun r =>
        if isHeapLive s r = true then ownerCount s r == 1 else ownerCount s r == 0) = true) ↔
      ∀ r, r < s.regions.length →
        dirCountL s.hs r + ctrlCountL s.ctrls r = if isHeapLiveL s.regions r = true then 1 else 0 := by
    have : (∀ r, r < s.regions.length →
        ownerCount s r = if isHeapLive s r = true then 1 else 0) ↔
      ∀ r, r < s.regions.length →
        dirCountL s.hs r + ctrlCountL s.ctrls r = if isHeapLiveL s.regions r = true then 1 else 0 :=
      Iff.rfl
    rw [← this]
    simp only [List.all_eq_true, List.mem_range]
    apply forall_congr'; intro r; apply imp_congr_right; intro _
    split <;> simp
  have e6 := exclusiveB_iff s
  rw [e1, e2, e6]
  constructor
  · rintro ⟨h1, h2, h3, _, h5, h6⟩
    exact ⟨h1, h2, e3.mp h3, e5.mp h5, h6⟩
  · rintro ⟨h1, h2, h3, h5, h6⟩
    refine ⟨h1, h2, e3.mpr h3, ?_, e5.mpr h5, h6⟩
    simp only [List.all_eq_true, liveHandles_eq, mem_liveHs, liveCtrl_eq]
    rintro a ⟨i, hi⟩
    cases hc : ctrlOf a with
    | none => rfl
    | some c => exact handleOKL_ctrl_live (h2 i a hi) hc

theorem WFx_iff_inv (s : St) : WFx s ↔ Inv s := by
  unfold WFx
  rw [WF_iff]
  constructor
  · rintro ⟨⟨h1, h2, h3, h4, h5⟩, h6, h7⟩; exact ⟨h1, h2, h3, h4, h5, h6, h7⟩
  · rintro ⟨h1, h2, h3, h4, h5, h6, h7⟩; exact ⟨⟨h1, h2, h3, h4, h5⟩, h6, h7⟩

theorem WFx.inv {s : St} (h : WFx s) : Inv s := (WFx_iff_inv s).mp h
theorem Inv.wfx {s : St} (h : Inv s) : WFx s := (WFx_iff_inv s).mpr h

theorem WFx_init : WFx {} := by
  apply Inv.wfx
  constructor <;> simp [Excl, liveCtrlL_def]


/-! ## sub-views -/

theorem rdL_sub {R : List Region} {reg : Option Nat} {off len : Nat} {v : List Byte}
    (h : rdL R reg off len = some v) (a n : Nat) (han : a + n ≤ len) :
    rdL R reg (off + a) n = some ((v.drop a).take n) := by
  by_cases hn : n = 0
  · subst hn; simp [rdL_zero]
  rcases rdL_eq_some_iff.mp h with ⟨h0, _⟩ | ⟨h0, r, rg, rfl, hr, hl, hb, hd⟩
  · omega
  · refine rdL_eq_some_iff.mpr (.inr ⟨hn, r, rg, rfl, hr, hl, by omega, ?_⟩)
    rw [List.map_take, List.map_drop, ← hd, List.drop_take, List.drop_drop, List.take_take]
    congr 1; omega

theorem rdL_length_le {R : List Region} {reg : Option Nat} {off len : Nat} {v : List Byte}
    (h : rdL R reg off len = some v) : v.length ≤ len := by
  rcases rdL_eq_some_iff.mp h with ⟨_, rfl⟩ | ⟨_, r, rg, _, _, _, _, hd⟩
  · simp
  · have := congrArg List.length hd
    simp at this; omega

/-- with W1 (`data.length = size`) a successful read returns exactly `len` bytes -/
theorem rdL_length {R : List Region} {reg : Option Nat} {off len : Nat} {v : List Byte}
    (hR : ∀ (r : Nat) (rg : Region), R[r]? = some rg → regionOKB rg = true)
    (h : rdL R reg off len = some v) : v.length = len := by
  rcases rdL_eq_some_iff.mp h with ⟨h0, rfl⟩ | ⟨_, r, rg, _, hr, _, hb, hd⟩
  · simp [h0]
  · have := congrArg List.length hd
    have hk := hR r rg hr
    simp only [regionOKB, Bool.and_eq_true, beq_iff_eq] at hk
    simp at this; omega

/-- the first `min len n` bytes (`split_off`, `truncate`) -/
theorem rdL_take {R : List Region} {reg : Option Nat} {off len : Nat} {v : List Byte}
    (h : rdL R reg off len = some v) (n : Nat) : rdL R reg off (min len n) = some (v.take n) := by
  have := rdL_sub h 0 (min len n) (by omega)
  simp only [Nat.add_zero, List.drop_zero] at this
  rw [this]
  have hl := rdL_length_le h
  congr 1
  by_cases hn : n ≤ len
  · rw [Nat.min_eq_right hn]
  · rw [Nat.min_eq_left (by omega), List.take_of_length_le hl, List.take_of_length_le (by omega)]

/-- everything after the first `n` bytes (`split_to`, `advance`) -/
theorem rdL_drop {R : List Region} {reg : Option Nat} {off len : Nat} {v : List Byte}
    (h : rdL R reg off len = some v) (n : Nat) : rdL R reg (off + n) (len - n) = some (v.drop n) := by
  by_cases hn : n ≤ len
  · have := rdL_sub h n (len - n) (by omega)
    rw [this]
    congr 1
    apply List.take_of_length_le
    have := rdL_length_le h
    simp; omega
  · have h0 : len - n = 0 := by omega
    have hl := rdL_length_le h
    rw [h0, rdL_zero, List.drop_of_length_le (by omega)]

/-! ## the abstraction function -/

theorem absL_push (R : List Region) (hs : List (Option Handle)) (h : Handle) :
    absL R (hs ++ [some h]) = absL R hs ++ [(viewOfL R h).map fun v => ⟨kindOf h, v⟩] := by
  simp [absL]

theorem absL_set (R : List Region) (hs : List (Option Handle)) (i : Nat) (oh : Option Handle) :
    absL R (hs.set i oh) =
      (absL R hs).set i (oh.bind fun h => (viewOfL R h).map fun v => ⟨kindOf h, v⟩) := by
  simp [absL, List.map_set]

theorem absL_length (R : List Region) (hs : List (Option Handle)) : (absL R hs).length = hs.length := by
  simp [absL]

/-- `abs` only reads the views of the live handles -/
theorem absL_congr {R R' : List Region} {hs : List (Option Handle)}
    (h : ∀ (i : Nat) (a : Handle), hs[i]? = some (some a) → viewOfL R' a = viewOfL R a) :
    absL R' hs = absL R hs := by
  apply List.ext_getElem?
  intro i
  simp only [absL, List.getElem?_map]
  cases hi : hs[i]? with
  | none => rfl
  | some oh =>
    cases oh with
    | none => rfl
    | some a => simp [h i a hi]

theorem Spec_get_absL {R : List Region} {hs : List (Option Handle)} {i : Nat} {h : Handle}
    {v : List Byte} (hi : hs[i]? = some (some h)) (hv : viewOfL R h = some v) :
    Spec.get (absL R hs) i = some ⟨kindOf h, v⟩ := by
  simp [Spec.get, absL, List.getElem?_map, hi, hv]

theorem Spec_get_absL_none {R : List Region} {hs : List (Option Handle)} {i : Nat}
    (hi : ∀ h, hs[i]? ≠ some (some h)) : Spec.get (absL R hs) i = none := by
  simp only [Spec.get, absL, List.getElem?_map]
  cases h : hs[i]? with
  | none => rfl
  | some oh =>
    cases oh with
    | none => rfl
    | some a => exact (hi a h).elim

/-! ## consequences of the invariant -/

namespace Inv
variable {s : St}

theorem view (hI : Inv s) {i : Nat} {h : Handle} (hi : s.hs[i]? = some (some h)) :
    ∃ v, viewOfL s.regions h = some v ∧ v.length = hlen h := by
  obtain ⟨v, hv⟩ := Option.isSome_iff_exists.mp (handleOKL_rd (hI.hok i h hi))
  exact ⟨v, hv, rdL_length hI.regs hv⟩

/-- the control block named by a live handle: live, with the right count -/
theorem ctrl_of_handle (hI : Inv s) {i : Nat} {h : Handle} {c : Nat}
    (hi : s.hs[i]? = some (some h)) (hc : ctrlOf h = some c) :
    ∃ e, s.ctrls[c]? = some e ∧ e.live = true ∧ e.rc = refCountL s.hs c ∧ 1 ≤ e.rc ∧
      ctrlBufOK s.regions s.owners e.c := by
  obtain ⟨e, he, hl⟩ := liveCtrlL_isSome_iff.mp (handleOKL_ctrl_live (hI.hok i h hi) hc)
  exact ⟨e, he, hl, hI.cok c e he hl⟩

theorem cok' (hI : Inv s) {c : Nat} {ct : Ctrl} (hc : liveCtrlL s.ctrls c = some ct) :
    ∃ e, s.ctrls[c]? = some e ∧ e.live = true ∧ e.c = ct ∧ e.rc = refCountL s.hs c ∧ 1 ≤ e.rc ∧
      ctrlBufOK s.regions s.owners ct := by
  obtain ⟨e, he, hl, rfl⟩ := liveCtrlL_some_iff.mp hc
  exact ⟨e, he, hl, rfl, hI.cok c e he hl⟩

/-- nobody owns a region index that is not allocated yet -/
theorem dir_fresh (hI : Inv s) {r : Nat} (hr : s.regions.length ≤ r) : dirCountL s.hs r = 0 := by
  rw [dirCountL_eq_zero]
  intro i h hi hd
  have := isHeapLiveL_lt (handleOKL_direct (hI.hok i h hi) hd)
  omega

theorem ctrl_fresh (hI : Inv s) {r : Nat} (hr : s.regions.length ≤ r) : ctrlCountL s.ctrls r = 0 := by
  rw [ctrlCountL_eq_zero]
  intro c e he hl hreg
  have hb := (hI.cok c e he hl).2.2
  cases hc : e.c with
  | sharedB r' cap =>
    rw [hc] at hb hreg; simp [ctrlRegion] at hreg; subst hreg
    have := isHeapLiveL_lt hb.1; omega
  | sharedV reg vlen vcap orig =>
    rw [hc] at hb hreg; simp [ctrlRegion] at hreg; subst hreg
    have := isHeapLiveL_lt hb.1; omega
  | owned o => rw [hc] at hreg; simp [ctrlRegion] at hreg

/-- no live handle names a control-block index that is not allocated yet -/
theorem ref_fresh (hI : Inv s) {c : Nat} (hc : s.ctrls.length ≤ c) : refCountL s.hs c = 0 := by
  rw [refCountL_eq_zero]
  intro i h hi hcc
  obtain ⟨e, he, _⟩ := hI.ctrl_of_handle hi hcc
  rw [List.getElem?_eq_none hc] at he; cases he

/-- a non-empty span lies in an allocated region -/
theorem span_lt (hI : Inv s) {i : Nat} {h : Handle} {r o l : Nat} (hi : s.hs[i]? = some (some h))
    (hs : span h = some (r, o, l)) (hl : l ≠ 0) : r < s.regions.length := by
  have hok := hI.hok i h hi
  cases h with
  | bytes repr reg off len =>
    cases reg with
    | none => simp [span] at hs
    | some r' =>
      simp [span] at hs; obtain ⟨rfl, rfl, rfl⟩ := hs
      exact rdL_isSome_lt (handleOKL_rd hok) hl
  | «mut» arc reg off len cap orig =>
    cases reg with
    | none => simp [span] at hs
    | some r' =>
      simp [span] at hs; obtain ⟨rfl, rfl, rfl⟩ := hs
      cases arc with
      | none => exact isHeapLiveL_lt (handleOKL_direct hok rfl)
      | some c =>
        obtain ⟨_, ⟨vlen, vcap, vorig, h1, h2⟩, _⟩ := handleOKL_mutA.mp hok
        obtain ⟨e, _, _, _, _, _, hb⟩ := hI.cok' h1
        simp only [ctrlBufOK] at hb
        exact isHeapLiveL_lt hb.1
  | vec reg len cap =>
    cases reg with
    | none => simp [span] at hs
    | some r' =>
      simp [span] at hs; obtain ⟨rfl, rfl, rfl⟩ := hs
      exact isHeapLiveL_lt (handleOKL_direct hok rfl)

end Inv

/-! ## the goal, with `WFx` -/

/-- `StepOK` of Sound.lean with the strengthened invariant in the postconditions. -/
def StepOKx (cfg : Cfg) (e : Env) (op : Op) (s : St) : Prop :=
  (step cfg e op s).sat (fun v s' => WFx s' ∧ abs s' = Spec.stepOk op v (abs s))
    (fun s' => WFx s' ∧ abs s' = Spec.stepPanic op (abs s))

/-- …which implies the statement `StepOK` of Sound.lean (same `match`, `WF` instead of `WFx`). -/
theorem StepOKx.toWF {cfg : Cfg} {e : Env} {op : Op} {s : St} (h : StepOKx cfg e op s) :
    match step cfg e op s with
    | .ok v s' => WF s' ∧ abs s' = Spec.stepOk op v (abs s)
    | .panic s' => WF s' ∧ abs s' = Spec.stepPanic op (abs s)
    | .ub _ _ => False := by
  unfold StepOKx at h
  cases hs : step cfg e op s with
  | ok v s' => rw [hs] at h; exact ⟨h.1.wf, h.2⟩
  | panic s' => rw [hs] at h; exact ⟨h.1.wf, h.2⟩
  | ub w s' => rw [hs] at h; exact h

/-- an operation that panics without changing the state (rejected op) is fine, except `unsplit`
whose panic spec is not the identity -/
theorem stepPanic_id {op : Op} (h : ∀ i j, op ≠ .unsplit i j) (a : Spec.St) :
    Spec.stepPanic op a = a := by
  cases op <;> first | rfl | exact (h _ _ rfl).elim


/-! ### `abs` of the final state -/

theorem absL_set_of_view {R R' : List Region} {hs : List (Option Handle)} {i : Nat}
    (oh : Option Handle)
    (hv : ∀ (j : Nat) (b : Handle), j ≠ i → hs[j]? = some (some b) → viewOfL R' b = viewOfL R b) :
    absL R' (hs.set i oh) =
      (absL R hs).set i (oh.bind fun h => (viewOfL R' h).map fun v => ⟨kindOf h, v⟩) := by
  apply List.ext_getElem?
  intro j
  simp only [absL, List.map_set, List.getElem?_set, List.length_map, List.getElem?_map]
  by_cases hij : i = j
  · simp [hij]
  · simp only [hij, if_false]
    cases hj : hs[j]? with
    | none => rfl
    | some ob =>
      cases ob with
      | none => rfl
      | some b => simp [hv j b (Ne.symm hij) hj]

theorem absL_push_of_view {R R' : List Region} {hs : List (Option Handle)} (h' : Handle)
    (hv : ∀ (j : Nat) (b : Handle), hs[j]? = some (some b) → viewOfL R' b = viewOfL R b) :
    absL R' (hs ++ [some h']) =
      absL R hs ++ [(viewOfL R' h').map fun v => ⟨kindOf h', v⟩] := by
  rw [absL_push, absL_congr hv]

/-- wrap-up for operations that return normally: `StepOKx`'s `ok` postcondition from `Inv` -/
theorem finish_ok {s' : St} {a : Spec.St} (hI : Inv s') (ha : absL s'.regions s'.hs = a) :
    WFx s' ∧ abs s' = a := ⟨hI.wfx, by rw [abs_eq]; exact ha⟩

theorem Spec_stepOk_drop (i : Nat) (v : Val) (a : Spec.St) :
    Spec.stepOk (.drop i) v a = a.set i none := rfl


end BytesVerif.Core
