/-
Monad layer for the M1 proofs.

The model monad is `M α := St → R α` with outcomes `ok a s' | panic s' | ub why s'`.  Everything is a
plain function, so a program is *executed symbolically* by `simp`:

* `bind_apply`, `pure_apply`, `panic_apply`, `ub_apply`, `get_apply`, `modify_apply`, `emit_apply`,
  `map_apply`, `ite_apply'`, `dite_apply'`  (all `@[simp]`): push the state argument through the
  combinators that do-notation produces.  After `simp only [step, bind_apply]` a program applied to
  a state is a cascade of `match m s with | .ok a s' => … | .panic s' => .panic s' | .ub w s' => .ub w s'`.
  Feed `simp` an *equation* for the head call (`getHandle_eq`, `incCtrl_eq`, … in Prim.lean, or an
  `obtain ⟨…, heq, …⟩ := foo_spec …` for composite helpers) and the cascade collapses by iota.

* `R.sat r Q Qp` : the outcome `r` is not `ub`; if `ok a s'` then `Q a s'`; if `panic s'` then `Qp s'`.
  `wp m Q Qp s := (m s).sat Q Qp`.  `Triple P m Q Qp := ∀ s, P s → wp m Q Qp s`.
  Rules: `sat_ok/sat_panic/sat_ub` (simp), `wp_bind` (iff, the sequencing rule), `wp_pure`, `wp_panic`,
  `wp_ub`, `wp_ite`, `wp_mono`/`R.sat_mono` (consequence), `Triple.bind`, `Triple.pure`, `Triple.conseq`,
  `Triple.of_wp`, `wp_of_eq_ok`/`wp_of_eq_panic` (from an execution equation).

  `StepOK cfg e op s` unfolds to `(step cfg e op s).sat …` (see `StepOKx_iff_sat` in Inv.lean).

Naming: `foo_eq …hyps : foo args s = .ok v s'` are execution equations; `foo_spec` are existential /
`sat` statements for helpers with several branches.
-/
import BytesVerif.Model.Core
namespace BytesVerif.Core

variable {α β : Type}

/-! ### applying combinators to a state -/

@[simp] theorem bind_apply (m : M α) (f : α → M β) (s : St) :
    (m >>= f) s = match m s with
      | .ok a s' => f a s'
      | .panic s' => .panic s'
      | .ub w s' => .ub w s' := rfl

@[simp] theorem Mbind_apply (m : M α) (f : α → M β) (s : St) :
    M.bind m f s = match m s with
      | .ok a s' => f a s'
      | .panic s' => .panic s'
      | .ub w s' => .ub w s' := rfl

@[simp] theorem pure_apply (a : α) (s : St) : (pure a : M α) s = .ok a s := rfl
@[simp] theorem Mpure_apply (a : α) (s : St) : (M.pure a : M α) s = .ok a s := rfl
@[simp] theorem panic_apply (s : St) : (panic : M α) s = .panic s := rfl
@[simp] theorem ub_apply (w : String) (s : St) : (ub w : M α) s = .ub w s := rfl
@[simp] theorem get_apply (s : St) : get s = .ok s s := rfl
@[simp] theorem modify_apply (f : St → St) (s : St) : modify f s = .ok () (f s) := rfl
@[simp] theorem emit_apply (e : Ev) (s : St) :
    emit e s = .ok () { s with events := e :: s.events } := rfl

@[simp] theorem map_apply (f : α → β) (m : M α) (s : St) :
    (f <$> m) s = match m s with
      | .ok a s' => .ok (f a) s'
      | .panic s' => .panic s'
      | .ub w s' => .ub w s' := rfl

/-- `(if c then m₁ else m₂) s` -/
@[simp] theorem ite_apply' (c : Prop) [Decidable c] (m₁ m₂ : M α) (s : St) :
    (if c then m₁ else m₂) s = if c then m₁ s else m₂ s := by
  split <;> rfl

@[simp] theorem dite_apply' (c : Prop) [Decidable c] (m₁ : c → M α) (m₂ : ¬c → M α) (s : St) :
    (dite c m₁ m₂) s = if h : c then m₁ h s else m₂ h s := by
  split <;> rfl

/-! ### outcomes -/

/-- The outcome is not `ub`; normal return satisfies `Q`, a panic leaves a state satisfying `Qp`. -/
def R.sat (r : R α) (Q : α → St → Prop) (Qp : St → Prop) : Prop :=
  match r with
  | .ok a s' => Q a s'
  | .panic s' => Qp s'
  | .ub _ _ => False

@[simp] theorem sat_ok (a : α) (s : St) (Q : α → St → Prop) (Qp : St → Prop) :
    (R.ok a s).sat Q Qp = Q a s := rfl
@[simp] theorem sat_panic (s : St) (Q : α → St → Prop) (Qp : St → Prop) :
    (R.panic s : R α).sat Q Qp = Qp s := rfl
@[simp] theorem sat_ub (w : String) (s : St) (Q : α → St → Prop) (Qp : St → Prop) :
    (R.ub w s : R α).sat Q Qp = False := rfl

theorem R.sat_mono {r : R α} {Q Q' : α → St → Prop} {Qp Qp' : St → Prop}
    (h : r.sat Q Qp) (hQ : ∀ a s, Q a s → Q' a s) (hp : ∀ s, Qp s → Qp' s) : r.sat Q' Qp' := by
  cases r with
  | ok a s => exact hQ _ _ h
  | panic s => exact hp _ h
  | ub w s => exact h

/-- Everything a `sat` statement says, as an elimination: the outcome is `ok` or `panic`. -/
theorem R.sat_cases {r : R α} {Q : α → St → Prop} {Qp : St → Prop} (h : r.sat Q Qp) :
    (∃ a s', r = .ok a s' ∧ Q a s') ∨ (∃ s', r = .panic s' ∧ Qp s') := by
  cases r with
  | ok a s => exact .inl ⟨a, s, rfl, h⟩
  | panic s => exact .inr ⟨s, rfl, h⟩
  | ub w s => exact h.elim

/-- weakest precondition of `m` for normal post `Q` and panic post `Qp` -/
def wp (m : M α) (Q : α → St → Prop) (Qp : St → Prop) (s : St) : Prop := (m s).sat Q Qp

theorem wp_def (m : M α) (Q : α → St → Prop) (Qp : St → Prop) (s : St) :
    wp m Q Qp s = (m s).sat Q Qp := rfl

/-- sequencing -/
theorem wp_bind (m : M α) (f : α → M β) (Q : β → St → Prop) (Qp : St → Prop) (s : St) :
    wp (m >>= f) Q Qp s ↔ wp m (fun a s' => wp (f a) Q Qp s') Qp s := by
  simp only [wp, bind_apply]
  cases m s <;> simp [R.sat]

theorem sat_bind (m : M α) (f : α → M β) (Q : β → St → Prop) (Qp : St → Prop) (s : St) :
    ((m >>= f) s).sat Q Qp ↔ (m s).sat (fun a s' => (f a s').sat Q Qp) Qp :=
  wp_bind m f Q Qp s

@[simp] theorem wp_pure (a : α) (Q : α → St → Prop) (Qp : St → Prop) (s : St) :
    wp (pure a) Q Qp s = Q a s := rfl
@[simp] theorem wp_panic (Q : α → St → Prop) (Qp : St → Prop) (s : St) :
    wp (panic : M α) Q Qp s = Qp s := rfl
@[simp] theorem wp_ub (w : String) (Q : α → St → Prop) (Qp : St → Prop) (s : St) :
    wp (ub w : M α) Q Qp s = False := rfl
@[simp] theorem wp_get (Q : St → St → Prop) (Qp : St → Prop) (s : St) :
    wp get Q Qp s = Q s s := rfl
@[simp] theorem wp_modify (f : St → St) (Q : Unit → St → Prop) (Qp : St → Prop) (s : St) :
    wp (modify f) Q Qp s = Q () (f s) := rfl
@[simp] theorem wp_emit (e : Ev) (Q : Unit → St → Prop) (Qp : St → Prop) (s : St) :
    wp (emit e) Q Qp s = Q () { s with events := e :: s.events } := rfl

theorem wp_ite (c : Prop) [Decidable c] (m₁ m₂ : M α) (Q : α → St → Prop) (Qp : St → Prop) (s : St) :
    wp (if c then m₁ else m₂) Q Qp s ↔ (c → wp m₁ Q Qp s) ∧ (¬c → wp m₂ Q Qp s) := by
  by_cases h : c <;> simp [h]

theorem wp_mono {m : M α} {Q Q' : α → St → Prop} {Qp Qp' : St → Prop} {s : St}
    (h : wp m Q Qp s) (hQ : ∀ a s, Q a s → Q' a s) (hp : ∀ s, Qp s → Qp' s) : wp m Q' Qp' s :=
  R.sat_mono h hQ hp

theorem wp_of_eq_ok {m : M α} {s s' : St} {a : α} {Q : α → St → Prop} {Qp : St → Prop}
    (h : m s = .ok a s') (hq : Q a s') : wp m Q Qp s := by
  simp [wp, h, hq]

theorem wp_of_eq_panic {m : M α} {s s' : St} {Q : α → St → Prop} {Qp : St → Prop}
    (h : m s = .panic s') (hq : Qp s') : wp m Q Qp s := by
  simp [wp, h, hq]

/-- Hoare triple with a separate postcondition for panics; `ub` is excluded. -/
def Triple (P : St → Prop) (m : M α) (Q : α → St → Prop) (Qp : St → Prop) : Prop :=
  ∀ s, P s → wp m Q Qp s

theorem Triple.of_wp {P : St → Prop} {m : M α} {Q : α → St → Prop} {Qp : St → Prop}
    (h : ∀ s, P s → wp m Q Qp s) : Triple P m Q Qp := h

theorem Triple.apply {P : St → Prop} {m : M α} {Q : α → St → Prop} {Qp : St → Prop}
    (h : Triple P m Q Qp) {s : St} (hs : P s) : (m s).sat Q Qp := h s hs

theorem Triple.pure {P : St → Prop} {a : α} {Q : α → St → Prop} {Qp : St → Prop}
    (h : ∀ s, P s → Q a s) : Triple P (pure a : M α) Q Qp := fun s hs => h s hs

theorem Triple.bind {P : St → Prop} {m : M α} {f : α → M β} {Q : α → St → Prop}
    {Q' : β → St → Prop} {Qp : St → Prop}
    (hm : Triple P m Q Qp) (hf : ∀ a, Triple (Q a) (f a) Q' Qp) : Triple P (m >>= f) Q' Qp := by
  intro s hs
  rw [wp_bind]
  exact wp_mono (hm s hs) (fun a s' h => hf a s' h) (fun _ h => h)

theorem Triple.conseq {P P' : St → Prop} {m : M α} {Q Q' : α → St → Prop} {Qp Qp' : St → Prop}
    (h : Triple P m Q Qp) (hP : ∀ s, P' s → P s) (hQ : ∀ a s, Q a s → Q' a s)
    (hp : ∀ s, Qp s → Qp' s) : Triple P' m Q' Qp' :=
  fun s hs => wp_mono (h s (hP s hs)) hQ hp

theorem Triple.ite {P : St → Prop} {c : Prop} [Decidable c] {m₁ m₂ : M α} {Q : α → St → Prop}
    {Qp : St → Prop} (h₁ : Triple (fun s => P s ∧ c) m₁ Q Qp)
    (h₂ : Triple (fun s => P s ∧ ¬c) m₂ Q Qp) : Triple P (if c then m₁ else m₂) Q Qp := by
  intro s hs
  rw [wp_ite]
  exact ⟨fun hc => h₁ s ⟨hs, hc⟩, fun hc => h₂ s ⟨hs, hc⟩⟩

/-! ### arithmetic helpers never fire inside their bounds -/

theorem uadd_eq (c : Cfg) {a b : Nat} (h : a + b < W) (s : St) : uadd c a b s = .ok (a + b) s := by
  simp [uadd, h]

theorem usub_eq (c : Cfg) {a b : Nat} (h : b ≤ a) (s : St) : usub c a b s = .ok (a - b) s := by
  simp [usub, h]

theorem dassert_eq (c : Cfg) {cond : Bool} (h : cond = true) (s : St) : dassert c cond s = .ok () s := by
  simp [dassert, h]

/-- `dassert` either passes or panics without touching the state. -/
theorem dassert_cases (c : Cfg) (cond : Bool) (s : St) :
    dassert c cond s = .ok () s ∨ dassert c cond s = .panic s := by
  unfold dassert; split <;> simp

end BytesVerif.Core
