/-
Helper lemmas for Props/C03.lean: the ledger invariant over the event history.

`EvL s` is a *local* formulation of `evOKB s` (it does not need `WFx`): it is preserved by every
primitive of the model, also in the intermediate states of an operation.  `EvPres m` says that the
computation `m` preserves `EvL` (whatever its outcome); it is closed under `>>=`, `if`, `match`, and
holds for every primitive, hence (by structural decomposition, tactic `evp`) for `step`.
-/
import BytesVerif.Lemmas.Core.Sound
set_option linter.unusedVariables false
set_option linter.unusedSimpArgs false
namespace BytesVerif.Core

/-! ## definitions -/

def isDeallocOf' (r : Nat) : Ev → Bool
  | .dealloc r' _ => r' == r
  | _ => false

def isAllocOf' (r : Nat) : Ev → Bool
  | .alloc r' _ => r' == r
  | _ => false

/-- number of live `owned o` control blocks -/
def liveOwned (C : List CtrlE) (o : Nat) : Nat := C.countP fun e => e.live && e.c == .owned o

/-- what the history says about region `r` -/
def regLedger (evs : List Ev) (r : Nat) (rg : Region) : Prop :=
  match rg.kind with
  | .heap _ =>
    evs.filter (isAllocOf' r) = [.alloc r rg.size] ∧
    evs.filter (isDeallocOf' r) = (if rg.live then [] else [.dealloc r rg.size])
  | _ => evs.filter (isAllocOf' r) = [] ∧ evs.filter (isDeallocOf' r) = []

/-- the local ledger invariant -/
structure EvL (s : St) : Prop where
  reg : ∀ (r : Nat) (rg : Region), s.regions[r]? = some rg → regLedger s.events r rg
  bndA : ∀ r sz, Ev.alloc r sz ∈ s.events → r < s.regions.length
  bndD : ∀ r sz, Ev.dealloc r sz ∈ s.events → r < s.regions.length
  bndR : ∀ o, Ev.ownerAsRef o ∈ s.events → o < s.owners
  bndO : ∀ o, Ev.ownerDrop o ∈ s.events → o < s.owners
  asref : ∀ o, o < s.owners → s.events.count (.ownerAsRef o) = 1
  odrop : ∀ o, s.events.count (.ownerDrop o) + liveOwned s.ctrls o = if o < s.owners then 1 else 0

/-! ## list lemmas -/

theorem filter_alloc_nil {evs : List Ev} {r : Nat} (h : ∀ sz, Ev.alloc r sz ∉ evs) :
    evs.filter (isAllocOf' r) = [] := by
  rw [List.filter_eq_nil_iff]
  intro ev hev
  cases ev <;> simp [isAllocOf']
  rename_i r' sz
  intro hr; subst hr; exact h sz hev

theorem filter_dealloc_nil {evs : List Ev} {r : Nat} (h : ∀ sz, Ev.dealloc r sz ∉ evs) :
    evs.filter (isDeallocOf' r) = [] := by
  rw [List.filter_eq_nil_iff]
  intro ev hev
  cases ev <;> simp [isDeallocOf']
  rename_i r' sz
  intro hr; subst hr; exact h sz hev

theorem liveOwned_push (C : List CtrlE) (e : CtrlE) (o : Nat) :
    liveOwned (C ++ [e]) o = liveOwned C o + (if (e.live && e.c == .owned o) = true then 1 else 0) := by
  simp [liveOwned, List.countP_append, List.countP_cons]

theorem liveOwned_set {C : List CtrlE} {c : Nat} {e : CtrlE} (e' : CtrlE) (o : Nat)
    (h : C[c]? = some e) :
    liveOwned (C.set c e') o + (if (e.live && e.c == .owned o) = true then 1 else 0) =
      liveOwned C o + (if (e'.live && e'.c == .owned o) = true then 1 else 0) :=
  countP_set' _ C c e e' h

/-- replacing a block by one with the same liveness and the same owner (if any) -/
theorem liveOwned_set_same {C : List CtrlE} {c : Nat} {e : CtrlE} (e' : CtrlE) (o : Nat)
    (h : C[c]? = some e) (hl : e'.live = e.live) (hc : (e'.c == .owned o) = (e.c == .owned o)) :
    liveOwned (C.set c e') o = liveOwned C o := by
  have := liveOwned_set e' o h
  rw [hl, hc] at this
  omega

/-! ## state-level preservation lemmas -/

namespace EvL
variable {s : St}

/-- the handle table is irrelevant -/
theorem hs (h : EvL s) (hs' : List (Option Handle)) : EvL { s with hs := hs' } :=
  ⟨h.reg, h.bndA, h.bndD, h.bndR, h.bndO, h.asref, h.odrop⟩

theorem of_eq {s' : St} (h : EvL s) (hr : s'.regions = s.regions) (hc : s'.ctrls = s.ctrls)
    (ho : s'.owners = s.owners) (he : s'.events = s.events) : EvL s' := by
  obtain ⟨R, C, H, O, E⟩ := s'
  simp only at hr hc ho he; subst hr hc ho he
  exact ⟨h.reg, h.bndA, h.bndD, h.bndR, h.bndO, h.asref, h.odrop⟩

/-- events about control blocks are neutral -/
theorem emit_allocCtrl (h : EvL s) (k : Nat) : EvL { s with events := .allocCtrl k :: s.events } := by
  refine ⟨?_, ?_, ?_, ?_, ?_, ?_, ?_⟩
  · intro r rg hr
    have := h.reg r rg hr
    simpa [regLedger, List.filter_cons, isAllocOf', isDeallocOf'] using this
  · intro r sz hm; simp at hm; exact h.bndA r sz hm
  · intro r sz hm; simp at hm; exact h.bndD r sz hm
  · intro o hm; simp at hm; exact h.bndR o hm
  · intro o hm; simp at hm; exact h.bndO o hm
  · intro o ho; simpa [List.count_cons] using h.asref o ho
  · intro o; simpa [List.count_cons] using h.odrop o

theorem emit_deallocCtrl (h : EvL s) (k : Nat) : EvL { s with events := .deallocCtrl k :: s.events } := by
  refine ⟨?_, ?_, ?_, ?_, ?_, ?_, ?_⟩
  · intro r rg hr
    have := h.reg r rg hr
    simpa [regLedger, List.filter_cons, isAllocOf', isDeallocOf'] using this
  · intro r sz hm; simp at hm; exact h.bndA r sz hm
  · intro r sz hm; simp at hm; exact h.bndD r sz hm
  · intro o hm; simp at hm; exact h.bndR o hm
  · intro o hm; simp at hm; exact h.bndO o hm
  · intro o ho; simpa [List.count_cons] using h.asref o ho
  · intro o; simpa [List.count_cons] using h.odrop o

/-- control blocks may change as long as the number of live `owned o` blocks does not -/
theorem ctrls_congr (h : EvL s) (C' : List CtrlE) (hC : ∀ o, liveOwned C' o = liveOwned s.ctrls o) :
    EvL { s with ctrls := C' } :=
  ⟨h.reg, h.bndA, h.bndD, h.bndR, h.bndO, h.asref, fun o => by rw [hC o]; exact h.odrop o⟩

/-- regions may change as long as kind, size and (for heap regions) liveness do not -/
theorem regions_congr (h : EvL s) (R' : List Region) (hlen : R'.length = s.regions.length)
    (hR : ∀ (r : Nat) (rg' : Region), R'[r]? = some rg' → ∃ rg, s.regions[r]? = some rg ∧
      rg'.kind = rg.kind ∧ rg'.size = rg.size ∧ ((∃ b, rg.kind = .heap b) → rg'.live = rg.live)) :
    EvL { s with regions := R' } := by
  refine ⟨?_, ?_, ?_, h.bndR, h.bndO, h.asref, h.odrop⟩
  · intro r rg' hr'
    obtain ⟨rg, hr, hk, hsz, hl⟩ := hR r rg' hr'
    have := h.reg r rg hr
    unfold regLedger at this ⊢
    rw [hk, hsz]
    cases hkk : rg.kind with
    | heap b => rw [hkk] at this; simp only at this ⊢; rw [hl ⟨b, hkk⟩]; exact this
    | static => rw [hkk] at this; exact this
    | ownerMem o => rw [hkk] at this; exact this
  · intro r sz hm; show r < R'.length; rw [hlen]; exact h.bndA r sz hm
  · intro r sz hm; show r < R'.length; rw [hlen]; exact h.bndD r sz hm

/-- `allocRegion` -/
theorem alloc (h : EvL s) (size : Nat) (data : List (Option Byte)) (b : Bool) :
    EvL { s with regions := s.regions ++ [⟨size, data, true, .heap b⟩],
                 events := .alloc s.regions.length size :: s.events } := by
  refine ⟨?_, ?_, ?_, ?_, ?_, ?_, ?_⟩
  · intro r rg hr
    by_cases hlt : r < s.regions.length
    · have hr' : s.regions[r]? = some rg := by
        simpa [List.getElem?_append_left hlt] using hr
      have := h.reg r rg hr'
      have hne : (s.regions.length == r) = false := by simp; omega
      simpa [regLedger, List.filter_cons, isAllocOf', isDeallocOf', hne] using this
    · have hlen : r < (s.regions ++ [(⟨size, data, true, .heap b⟩ : Region)]).length := lookup_lt hr
      have hreq : r = s.regions.length := by simp at hlen; omega
      subst hreq
      simp at hr; subst hr
      have h1 : s.events.filter (isAllocOf' s.regions.length) = [] :=
        filter_alloc_nil fun sz hm => by have := h.bndA _ sz hm; omega
      have h2 : s.events.filter (isDeallocOf' s.regions.length) = [] :=
        filter_dealloc_nil fun sz hm => by have := h.bndD _ sz hm; omega
      simp [regLedger, List.filter_cons, isAllocOf', isDeallocOf', h1, h2]
  · intro r sz hm
    simp at hm
    rcases hm with ⟨rfl, _⟩ | hm
    · simp
    · have := h.bndA r sz hm; simp; omega
  · intro r sz hm
    simp at hm
    have := h.bndD r sz hm; simp; omega
  · intro o hm; simp at hm; exact h.bndR o hm
  · intro o hm; simp at hm; exact h.bndO o hm
  · intro o ho; simpa [List.count_cons] using h.asref o ho
  · intro o; simpa [List.count_cons] using h.odrop o

/-- appending a region that is not heap memory -/
theorem pushNonHeap (h : EvL s) (rg : Region) (hk : ∀ b, rg.kind ≠ .heap b) :
    EvL { s with regions := s.regions ++ [rg] } := by
  refine ⟨?_, ?_, ?_, h.bndR, h.bndO, h.asref, h.odrop⟩
  · intro r rg' hr
    by_cases hlt : r < s.regions.length
    · have hr' : s.regions[r]? = some rg' := by
        simpa [List.getElem?_append_left hlt] using hr
      exact h.reg r rg' hr'
    · have hlen : r < (s.regions ++ [rg]).length := lookup_lt hr
      have hreq : r = s.regions.length := by simp at hlen; omega
      subst hreq
      simp at hr; subst hr
      have h1 : s.events.filter (isAllocOf' s.regions.length) = [] :=
        filter_alloc_nil fun sz hm => by have := h.bndA _ sz hm; omega
      have h2 : s.events.filter (isDeallocOf' s.regions.length) = [] :=
        filter_dealloc_nil fun sz hm => by have := h.bndD _ sz hm; omega
      unfold regLedger
      cases hkk : rg.kind with
      | heap b => exact (hk b hkk).elim
      | static => exact ⟨h1, h2⟩
      | ownerMem o => exact ⟨h1, h2⟩
  · intro r sz hm; have := h.bndA r sz hm; simp; omega
  · intro r sz hm; have := h.bndD r sz hm; simp; omega

/-- `freeRegion` -/
theorem free (h : EvL s) {r : Nat} {rg : Region} {b : Bool} (hr : s.regions[r]? = some rg)
    (hl : rg.live = true) (hk : rg.kind = .heap b) :
    EvL { s with regions := s.regions.set r { rg with live := false },
                 events := .dealloc r rg.size :: s.events } := by
  have hrlt := lookup_lt hr
  refine ⟨?_, ?_, ?_, ?_, ?_, ?_, ?_⟩
  · intro r' rg' hr'
    by_cases hrr : r' = r
    · subst hrr
      have : rg' = { rg with live := false } := by
        have := lookup_set_eq { rg with live := false } hr
        simp only at hr'; rw [this] at hr'; exact (Option.some.inj hr').symm
      subst this
      have h0 := h.reg r' rg hr
      simp only [regLedger, hk, hl, if_true] at h0
      simp [regLedger, hk, List.filter_cons, isAllocOf', isDeallocOf', h0.1, h0.2]
    · have hr'' : s.regions[r']? = some rg' := by
        simp only at hr'; rwa [lookup_set_ne _ (Ne.symm hrr)] at hr'
      have := h.reg r' rg' hr''
      have hne : (r == r') = false := by simp; omega
      simpa [regLedger, List.filter_cons, isAllocOf', isDeallocOf', hne] using this
  · intro r' sz hm; simp at hm; have := h.bndA r' sz hm; simpa using this
  · intro r' sz hm
    simp at hm
    rcases hm with ⟨rfl, _⟩ | hm
    · simpa using hrlt
    · have := h.bndD r' sz hm; simpa using this
  · intro o hm; simp at hm; exact h.bndR o hm
  · intro o hm; simp at hm; exact h.bndO o hm
  · intro o ho; simpa [List.count_cons] using h.asref o ho
  · intro o; simpa [List.count_cons] using h.odrop o

/-- the data of a region is irrelevant -/
theorem setData (h : EvL s) {r : Nat} {rg : Region} (hr : s.regions[r]? = some rg)
    (d : List (Option Byte)) : EvL { s with regions := s.regions.set r { rg with data := d } } := by
  apply h.regions_congr _ (by simp)
  intro r' rg' hr'
  by_cases hrr : r' = r
  · subst hrr
    rw [lookup_set_eq _ hr] at hr'; cases hr'
    exact ⟨rg, hr, rfl, rfl, fun _ => rfl⟩
  · rw [lookup_set_ne _ (Ne.symm hrr)] at hr'
    exact ⟨rg', hr', rfl, rfl, fun _ => rfl⟩

/-- dropping an owner kills its memory: no heap region is concerned -/
theorem killOwnerMem (h : EvL s) (o : Nat) :
    EvL { s with regions := s.regions.map fun rg =>
      if rg.kind = .ownerMem o then { rg with live := false } else rg } := by
  apply h.regions_congr _ (by simp)
  intro r rg' hr'
  simp only [List.getElem?_map, Option.map_eq_some_iff] at hr'
  obtain ⟨rg, hr, rfl⟩ := hr'
  refine ⟨rg, hr, ?_, ?_, ?_⟩
  · split <;> rfl
  · split <;> rfl
  · rintro ⟨b, hb⟩; simp [hb]

/-- a new control block that is not an `owned` one -/
theorem newCtrl (h : EvL s) (ct : Ctrl) (rc : Nat) (hct : ∀ o, ct ≠ .owned o) :
    EvL { s with ctrls := s.ctrls ++ [⟨ct, rc, true⟩],
                 events := .allocCtrl s.ctrls.length :: s.events } := by
  have h1 := h.emit_allocCtrl s.ctrls.length
  have := h1.ctrls_congr (s.ctrls ++ [⟨ct, rc, true⟩]) (by
    intro o
    rw [liveOwned_push]
    have : (ct == Ctrl.owned o) = false := by simpa using hct o
    simp [this])
  exact this

/-- replacing a live block by a live block with the same owner (if any) -/
theorem setCtrl (h : EvL s) {c : Nat} {e : CtrlE} (e' : CtrlE) (hc : s.ctrls[c]? = some e)
    (hl : e'.live = e.live) (hk : ∀ o, e'.c = .owned o ↔ e.c = .owned o) :
    EvL { s with ctrls := s.ctrls.set c e' } := by
  apply h.ctrls_congr
  intro o
  apply liveOwned_set_same e' o hc hl
  have := hk o
  by_cases h1 : e.c = .owned o
  · rw [beq_iff_eq.mpr h1, beq_iff_eq.mpr (this.mpr h1)]
  · have h2 : ¬ e'.c = .owned o := fun hh => h1 (this.mp hh)
    rw [beq_eq_false_iff_ne.mpr h1, beq_eq_false_iff_ne.mpr h2]

/-- freeing a block that is not an `owned` one -/
theorem freeCtrl (h : EvL s) {c : Nat} {e : CtrlE} (e' : CtrlE) (hc : s.ctrls[c]? = some e)
    (hk : ∀ o, e.c ≠ .owned o) (hl' : e'.live = false) :
    EvL { s with ctrls := s.ctrls.set c e', events := .deallocCtrl c :: s.events } := by
  have h1 := h.emit_deallocCtrl c
  have := h1.ctrls_congr (s.ctrls.set c e') (by
    intro o
    have := liveOwned_set e' o hc
    have h2 : (e.c == Ctrl.owned o) = false := by simpa using hk o
    simp only [hl', h2, Bool.false_and, Bool.and_false, Bool.false_eq_true, if_false] at this
    simpa using this)
  exact this

/-- dropping the owner: `emit ownerDrop o`, the memory dies, the block is freed -/
theorem dropOwner (h : EvL s) {c : Nat} {e : CtrlE} {o : Nat} (e' : CtrlE) (hc : s.ctrls[c]? = some e)
    (hl : e.live = true) (hk : e.c = .owned o) (hl' : e'.live = false) :
    EvL { s with regions := s.regions.map fun rg =>
                   if rg.kind = .ownerMem o then { rg with live := false } else rg,
                 ctrls := s.ctrls.set c e',
                 events := .deallocCtrl c :: .ownerDrop o :: s.events } := by
  -- `o` is a known owner
  have hpos : 1 ≤ liveOwned s.ctrls o := by
    have : 0 < liveOwned s.ctrls o := by
      unfold liveOwned
      rw [List.countP_pos_iff]
      exact ⟨e, List.mem_of_getElem? hc, by simp [hl, hk]⟩
    omega
  have holt : o < s.owners := by
    have := h.odrop o
    split at this
    · assumption
    · omega
  have hstep : EvL { s with ctrls := s.ctrls.set c e', events := .ownerDrop o :: s.events } := by
    refine ⟨?_, ?_, ?_, ?_, ?_, ?_, ?_⟩
    · intro r rg hr
      have := h.reg r rg hr
      simpa [regLedger, List.filter_cons, isAllocOf', isDeallocOf'] using this
    · intro r sz hm; simp at hm; exact h.bndA r sz hm
    · intro r sz hm; simp at hm; exact h.bndD r sz hm
    · intro o' hm; simp at hm; exact h.bndR o' hm
    · intro o' hm
      simp at hm
      rcases hm with rfl | hm
      · exact holt
      · exact h.bndO o' hm
    · intro o' ho; simpa [List.count_cons] using h.asref o' ho
    · intro o'
      have h0 := h.odrop o'
      have hset := liveOwned_set e' o' hc
      simp only [hl', hl, hk, Bool.false_and, Bool.true_and, Bool.false_eq_true, if_false] at hset
      by_cases hoo : o' = o
      · subst hoo
        simp only [List.count_cons, beq_self_eq_true, if_true] at hset ⊢
        show List.count (Ev.ownerDrop o') s.events + 1 + liveOwned (s.ctrls.set c e') o' = _
        omega
      · have hne : (Ctrl.owned o == Ctrl.owned o') = false := by simp; omega
        have hne' : (Ev.ownerDrop o == Ev.ownerDrop o') = false := by simp; omega
        simp only [hne, Bool.false_eq_true, if_false] at hset
        simp only [List.count_cons, hne', Bool.false_eq_true, if_false]
        show List.count (Ev.ownerDrop o') s.events + 0 + liveOwned (s.ctrls.set c e') o' = _
        omega
  have h2 := hstep.killOwnerMem o
  exact h2.emit_deallocCtrl c

/-- `from_owner`: a new owner, its control block, `as_ref` -/
theorem newOwner (h : EvL s) (rc : Nat) :
    EvL { s with owners := s.owners + 1,
                 ctrls := s.ctrls ++ [⟨.owned s.owners, rc, true⟩],
                 events := .ownerAsRef s.owners :: .allocCtrl s.ctrls.length :: s.events } := by
  refine ⟨?_, ?_, ?_, ?_, ?_, ?_, ?_⟩
  · intro r rg hr
    have := h.reg r rg hr
    simpa [regLedger, List.filter_cons, isAllocOf', isDeallocOf'] using this
  · intro r sz hm; simp at hm; exact h.bndA r sz hm
  · intro r sz hm; simp at hm; exact h.bndD r sz hm
  · intro o hm
    simp at hm
    rcases hm with rfl | hm
    · simp
    · have := h.bndR o hm; simp; omega
  · intro o hm
    simp at hm
    have := h.bndO o hm; simp; omega
  · intro o ho
    simp only at ho
    by_cases hoo : o = s.owners
    · subst hoo
      have : List.count (Ev.ownerAsRef s.owners) s.events = 0 := by
        rw [List.count_eq_zero]
        intro hm; have := h.bndR _ hm; omega
      simp [List.count_cons, this]
    · have hne : (Ev.ownerAsRef s.owners == Ev.ownerAsRef o) = false := by simp; omega
      have := h.asref o (by omega)
      simp [List.count_cons, hne, this]
  · intro o
    have h0 := h.odrop o
    simp only [liveOwned_push, List.count_cons]
    by_cases hoo : o = s.owners
    · subst hoo
      simp at h0 ⊢
      omega
    · have hne : (Ctrl.owned s.owners == Ctrl.owned o) = false := by simp; omega
      simp [hne]
      split at h0
      · rw [if_pos (by omega)]; exact h0
      · rw [if_neg (by omega)]; exact h0

end EvL

/-! ## the monadic layer -/

/-- whatever the outcome, the final state satisfies the ledger invariant -/
def Post {α : Type} (r : R α) : Prop :=
  match r with
  | .ok _ s' => EvL s'
  | .panic s' => EvL s'
  | .ub _ _ => True

@[simp] theorem Post_ok {α : Type} (a : α) (s : St) : Post (R.ok a s) = EvL s := rfl
@[simp] theorem Post_panic {α : Type} (s : St) : Post (R.panic s : R α) = EvL s := rfl
@[simp] theorem Post_ub {α : Type} (w : String) (s : St) : Post (R.ub w s : R α) = True := rfl

/-- `m` preserves the ledger invariant -/
def EvPres {α : Type} (m : M α) : Prop := ∀ s, EvL s → Post (m s)

/-- `m` preserves the ledger invariant when started in a state where control block `c` is the
live block `ce` -/
def EvPresC {α : Type} (c : Nat) (ce : CtrlE) (m : M α) : Prop :=
  ∀ s, s.ctrls[c]? = some ce → ce.live = true → EvL s → Post (m s)

section rules
variable {α β : Type}

theorem EvPres_pure (a : α) : EvPres (pure a : M α) := fun _ h => h
theorem EvPres_panic : EvPres (panic : M α) := fun _ h => h
theorem EvPres_ub (w : String) : EvPres (ub w : M α) := fun _ _ => trivial
theorem EvPres_get : EvPres get := fun _ h => h

theorem EvPres_bind {m : M α} {f : α → M β} (hm : EvPres m) (hf : ∀ a, EvPres (f a)) :
    EvPres (m >>= f) := by
  intro s hs
  have := hm s hs
  simp only [bind_apply]
  cases hms : m s with
  | ok a s' => rw [hms] at this; exact hf a s' this
  | panic s' => rw [hms] at this; exact this
  | ub w s' => trivial

theorem EvPresC_of {c : Nat} {ce : CtrlE} {m : M α} (h : EvPres m) : EvPresC c ce m :=
  fun s _ _ hs => h s hs

/-- after `getCtrl c` we know what block `c` is -/
theorem EvPres_getCtrl_bind {c : Nat} {f : CtrlE → M β} (hf : ∀ ce, EvPresC c ce (f ce)) :
    EvPres (getCtrl c >>= f) := by
  intro s hs
  simp only [bind_apply, getCtrl]
  cases hc : s.ctrls[c]? with
  | none => trivial
  | some e =>
    simp only
    cases hl : e.live with
    | false => simp
    | true => simp only [if_true]; exact hf e s hc hl hs

/-- a computation that does not touch the control blocks keeps the knowledge about block `c` -/
theorem EvPresC_bind_keep {c : Nat} {ce : CtrlE} {m : M α} {f : α → M β} (hm : EvPres m)
    (hk : ∀ s a s', m s = .ok a s' → s'.ctrls = s.ctrls) (hf : ∀ a, EvPresC c ce (f a)) :
    EvPresC c ce (m >>= f) := by
  intro s hc hl hs
  have := hm s hs
  simp only [bind_apply]
  cases hms : m s with
  | ok a s' => rw [hms] at this; exact hf a s' (by rw [hk s a s' hms]; exact hc) hl this
  | panic s' => rw [hms] at this; exact this
  | ub w s' => trivial

/-- `setCtrl` to a block of the same sort -/
theorem EvPresC_setCtrl_bind {c : Nat} {ce e' : CtrlE} {f : Unit → M β} (hl : e'.live = ce.live)
    (hk : ∀ o, e'.c = .owned o ↔ ce.c = .owned o) (hf : EvPresC c e' (f ())) :
    EvPresC c ce (setCtrl c e' >>= f) := by
  intro s hc hlive hs
  simp only [bind_apply, setCtrl_apply]
  exact hf _ (lookup_set_eq _ hc) (by rw [hl, hlive]) (hs.setCtrl e' hc hl hk)

theorem EvPresC_setCtrl {c : Nat} {ce e' : CtrlE} (hl : e'.live = ce.live)
    (hk : ∀ o, e'.c = .owned o ↔ ce.c = .owned o) : EvPresC c ce (setCtrl c e') := by
  intro s hc hlive hs
  simp only [setCtrl_apply, Post_ok]
  exact hs.setCtrl e' hc hl hk

/-- `m` does not touch the control blocks -/
def KeepsC (m : M α) : Prop := ∀ s a s', m s = .ok a s' → s'.ctrls = s.ctrls

theorem KeepsC_pure (a : α) : KeepsC (pure a : M α) := by
  intro s a' s' h; cases h; rfl
theorem KeepsC_panic : KeepsC (panic : M α) := by
  intro s a' s' h; cases h
theorem KeepsC_ub (w : String) : KeepsC (ub w : M α) := by
  intro s a' s' h; cases h
theorem KeepsC_bind {m : M α} {f : α → M β} (hm : KeepsC m) (hf : ∀ a, KeepsC (f a)) :
    KeepsC (m >>= f) := by
  intro s b s' h
  simp only [bind_apply] at h
  cases hms : m s with
  | ok a s1 => rw [hms] at h; simp only at h; rw [hf a s1 b s' h, hm s a s1 hms]
  | panic s1 => rw [hms] at h; cases h
  | ub w s1 => rw [hms] at h; cases h

end rules

/-! ### primitives -/

theorem EvPres_modify_hs (f : List (Option Handle) → List (Option Handle)) :
    EvPres (modify fun s => { s with hs := f s.hs }) := fun s h => h.hs _

theorem EvPres_getRegion (r : Nat) : EvPres (getRegion r) := by
  intro s hs; unfold getRegion; split <;> simp [hs]

theorem EvPres_getCtrl (c : Nat) : EvPres (getCtrl c) := by
  intro s hs; unfold getCtrl; split
  · split <;> simp [hs]
  · simp

theorem EvPres_getHandle (i : Nat) : EvPres (getHandle i) := by
  intro s hs; unfold getHandle; split <;> simp [hs]

theorem EvPres_newHandle (h : Handle) : EvPres (newHandle h) := fun s hs => hs.hs _
theorem EvPres_setHandle (i : Nat) (h : Handle) : EvPres (setHandle i h) := fun s hs => hs.hs _
theorem EvPres_killHandle (i : Nat) : EvPres (killHandle i) := fun s hs => hs.hs _

theorem EvPres_allocRegion (e : Env) (size : Nat) (data : List (Option Byte)) :
    EvPres (allocRegion e size data) := fun s hs => hs.alloc size data _

theorem EvPres_freeRegion (r size : Nat) : EvPres (freeRegion r size) := by
  intro s hs
  simp only [freeRegion, bind_apply, getRegion]
  cases hr : s.regions[r]? with
  | none => trivial
  | some rg =>
    simp only
    cases hl : rg.live with
    | false => simp
    | true =>
      simp only [Bool.not_true, Bool.false_eq_true, if_false, ite_apply']
      split
      · simp
      · rename_i hsz
        simp only [ne_eq, Decidable.not_not] at hsz
        subst hsz
        cases hk : rg.kind with
        | heap b =>
          simp only [bind_apply, setRegion_apply, emit_apply, Post_ok]
          have := hs.free hr hl hk
          rw [hk] at this
          exact this
        | static => simp
        | ownerMem o => simp

theorem EvPres_readRange (reg : Option Nat) (off len : Nat) : EvPres (readRange reg off len) := by
  intro s hs
  unfold readRange
  split
  · exact hs
  · cases reg with
    | none => trivial
    | some r =>
      simp only [bind_apply, getRegion]
      cases hr : s.regions[r]? with
      | none => trivial
      | some rg =>
        simp only [ite_apply']
        split
        · trivial
        · split
          · trivial
          · generalize List.mapM id (List.take len (List.drop off rg.data)) = x
            cases x <;> simp [hs]

theorem EvPres_writeRange (reg : Option Nat) (off : Nat) (bs : List Byte) :
    EvPres (writeRange reg off bs) := by
  intro s hs
  unfold writeRange
  split
  · exact hs
  · cases reg with
    | none => trivial
    | some r =>
      simp only [bind_apply, getRegion]
      cases hr : s.regions[r]? with
      | none => trivial
      | some rg =>
        simp only [ite_apply']
        split
        · trivial
        · split
          · trivial
          · cases hk : rg.kind with
            | heap b =>
              simp only [setRegion_apply, Post_ok]
              have := hs.setData hr (List.take off rg.data ++ List.map some bs ++ List.drop (off + bs.length) rg.data)
              rw [hk] at this
              exact this
            | static => trivial
            | ownerMem o => trivial

theorem EvPres_newCtrl (ct : Ctrl) (rc : Nat) (hct : ∀ o, ct ≠ .owned o) : EvPres (newCtrl ct rc) :=
  fun s hs => hs.newCtrl ct rc hct

theorem EvPres_incCtrl (c : Nat) : EvPres (incCtrl c) := by
  unfold incCtrl
  apply EvPres_getCtrl_bind
  intro ce s hc hl hs
  simp only [setCtrl_apply, Post_ok]
  exact hs.setCtrl _ hc rfl (fun o => Iff.rfl)

theorem EvPres_uadd (c : Cfg) (a b : Nat) : EvPres (uadd c a b) := by
  intro s hs; unfold uadd; split
  · exact hs
  · split <;> exact hs

theorem EvPres_usub (c : Cfg) (a b : Nat) : EvPres (usub c a b) := by
  intro s hs; unfold usub; split
  · exact hs
  · split <;> exact hs

theorem EvPres_dassert (c : Cfg) (b : Bool) : EvPres (dassert c b) := by
  intro s hs; unfold dassert; split <;> exact hs

theorem dassert_ctrls (c : Cfg) (b : Bool) (s : St) (a : Unit) (s' : St)
    (h : dassert c b s = .ok a s') : s'.ctrls = s.ctrls := by
  rcases dassert_cases c b s with h' | h' <;> rw [h'] at h <;> cases h; rfl

/-! ### computations that keep the control blocks -/

theorem KeepsC_getRegion (r : Nat) : KeepsC (getRegion r) := by
  intro s a s' h; unfold getRegion at h; split at h <;> cases h; rfl
theorem KeepsC_setRegion (r : Nat) (rg : Region) : KeepsC (setRegion r rg) := by
  intro s a s' h; cases h; rfl
theorem KeepsC_emit (ev : Ev) : KeepsC (emit ev) := by
  intro s a s' h; cases h; rfl
theorem KeepsC_allocRegion (e : Env) (size : Nat) (data : List (Option Byte)) :
    KeepsC (allocRegion e size data) := by
  intro s a s' h; cases h; rfl
theorem KeepsC_dassert (c : Cfg) (b : Bool) : KeepsC (dassert c b) := dassert_ctrls c b

syntax "keepsc_prim" : tactic
macro_rules | `(tactic| keepsc_prim) => `(tactic| with_reducible exact KeepsC_pure _)
macro_rules | `(tactic| keepsc_prim) => `(tactic| with_reducible exact KeepsC_panic)
macro_rules | `(tactic| keepsc_prim) => `(tactic| with_reducible exact KeepsC_ub _)
macro_rules | `(tactic| keepsc_prim) => `(tactic| with_reducible exact KeepsC_getRegion _)
macro_rules | `(tactic| keepsc_prim) => `(tactic| with_reducible exact KeepsC_setRegion _ _)
macro_rules | `(tactic| keepsc_prim) => `(tactic| with_reducible exact KeepsC_emit _)
macro_rules | `(tactic| keepsc_prim) => `(tactic| with_reducible exact KeepsC_allocRegion _ _ _)
macro_rules | `(tactic| keepsc_prim) => `(tactic| with_reducible exact KeepsC_dassert _ _)

/-- structural decomposition of a `KeepsC` goal -/
macro "keepsc" : tactic => `(tactic|
  (repeat' (first
    | keepsc_prim
    | (with_reducible refine KeepsC_bind ?_ (fun _ => ?_)) <;> try dsimp only
    | split
    | dsimp only)) <;> done)

theorem KeepsC_freeRegion (r size : Nat) : KeepsC (freeRegion r size) := by
  unfold freeRegion; keepsc
macro_rules | `(tactic| keepsc_prim) => `(tactic| with_reducible exact KeepsC_freeRegion _ _)

theorem KeepsC_vecFree (reg : Option Nat) (cap : Nat) : KeepsC (vecFree reg cap) := by
  unfold vecFree; keepsc
macro_rules | `(tactic| keepsc_prim) => `(tactic| with_reducible exact KeepsC_vecFree _ _)

theorem KeepsC_vecReserve (e : Env) (reg : Option Nat) (len cap additional : Nat) :
    KeepsC (vecReserve e reg len cap additional) := by
  unfold vecReserve; keepsc
macro_rules | `(tactic| keepsc_prim) => `(tactic| with_reducible exact KeepsC_vecReserve _ _ _ _ _)

/-! ### the decomposition tactic -/

syntax "evp_prim" : tactic
macro_rules | `(tactic| evp_prim) => `(tactic| with_reducible exact EvPres_pure _)
macro_rules | `(tactic| evp_prim) => `(tactic| with_reducible exact EvPres_panic)
macro_rules | `(tactic| evp_prim) => `(tactic| with_reducible exact EvPres_ub _)
macro_rules | `(tactic| evp_prim) => `(tactic| with_reducible exact EvPres_get)
macro_rules | `(tactic| evp_prim) => `(tactic| with_reducible exact EvPres_getRegion _)
macro_rules | `(tactic| evp_prim) => `(tactic| with_reducible exact EvPres_getCtrl _)
macro_rules | `(tactic| evp_prim) => `(tactic| with_reducible exact EvPres_getHandle _)
macro_rules | `(tactic| evp_prim) => `(tactic| with_reducible exact EvPres_newHandle _)
macro_rules | `(tactic| evp_prim) => `(tactic| with_reducible exact EvPres_setHandle _ _)
macro_rules | `(tactic| evp_prim) => `(tactic| with_reducible exact EvPres_killHandle _)
macro_rules | `(tactic| evp_prim) => `(tactic| with_reducible exact EvPres_allocRegion _ _ _)
macro_rules | `(tactic| evp_prim) => `(tactic| with_reducible exact EvPres_freeRegion _ _)
macro_rules | `(tactic| evp_prim) => `(tactic| with_reducible exact EvPres_readRange _ _ _)
macro_rules | `(tactic| evp_prim) => `(tactic| with_reducible exact EvPres_writeRange _ _ _)
macro_rules | `(tactic| evp_prim) => `(tactic| ((with_reducible refine EvPres_newCtrl _ _ ?_); (intro o h; cases h)))
macro_rules | `(tactic| evp_prim) => `(tactic| with_reducible exact EvPres_incCtrl _)
macro_rules | `(tactic| evp_prim) => `(tactic| with_reducible exact EvPres_uadd _ _ _)
macro_rules | `(tactic| evp_prim) => `(tactic| with_reducible exact EvPres_usub _ _ _)
macro_rules | `(tactic| evp_prim) => `(tactic| with_reducible exact EvPres_dassert _ _)

/-- one step of the structural decomposition of an `EvPres` / `EvPresC` goal -/
macro "evp_step" : tactic => `(tactic| first
  | evp_prim
  | (with_reducible refine EvPres_getCtrl_bind (fun _ => ?_)) <;> try dsimp only
  | (with_reducible refine EvPres_bind ?_ (fun _ => ?_)) <;> try dsimp only
  | ((with_reducible refine EvPresC_setCtrl_bind rfl ?k ?_); (case k => intro o; simp_all)) <;> try dsimp only
  | ((with_reducible refine EvPresC_setCtrl rfl ?k); (case k => intro o; simp_all))
  | ((with_reducible refine EvPresC_bind_keep ?_ ?k (fun _ => ?_)); (case k => (show KeepsC _); keepsc)) <;> try dsimp only
  | dsimp only
  | split
  | with_reducible apply EvPresC_of)

macro "evp" : tactic => `(tactic| repeat' evp_step)

theorem EvPres_vecFree (reg : Option Nat) (cap : Nat) : EvPres (vecFree reg cap) := by
  unfold vecFree; evp
macro_rules | `(tactic| evp_prim) => `(tactic| with_reducible exact EvPres_vecFree _ _)

theorem EvPresC_freeCtrl {c : Nat} {ce : CtrlE} (hk : ∀ o, ce.c ≠ .owned o) :
    EvPresC c ce (freeCtrl c) := by
  intro s hc hl hs
  rw [freeCtrl_eq hc hl]
  exact hs.freeCtrl _ hc hk rfl

theorem EvPres_releaseCtrl (c : Nat) : EvPres (releaseCtrl c) := by
  unfold releaseCtrl
  refine EvPres_getCtrl_bind (fun ce => ?_)
  obtain ⟨ct, rc, live⟩ := ce
  dsimp only
  split
  · exact EvPresC_of (EvPres_ub _)
  · split
    · exact EvPresC_setCtrl rfl (fun o => Iff.rfl)
    · refine EvPresC_setCtrl_bind rfl (fun o => Iff.rfl) ?_
      cases ct with
      | sharedB reg cap =>
        dsimp only
        exact EvPresC_bind_keep (EvPres_freeRegion _ _) (KeepsC_freeRegion _ _)
          (fun _ => EvPresC_freeCtrl (by intro o h; cases h))
      | sharedV reg vlen vcap orig =>
        dsimp only
        exact EvPresC_bind_keep (EvPres_vecFree _ _) (KeepsC_vecFree _ _)
          (fun _ => EvPresC_freeCtrl (by intro o h; cases h))
      | owned o =>
        dsimp only
        intro s hc hl hs
        simp only at hl
        simp only [bind_apply, emit_apply, modify_apply]
        simp only [freeCtrl, bind_apply, getCtrl, hc, hl, if_true, setCtrl_apply, emit_apply, Post_ok]
        exact hs.dropOwner _ hc hl rfl rfl
macro_rules | `(tactic| evp_prim) => `(tactic| with_reducible exact EvPres_releaseCtrl _)

theorem EvPres_takeSharedB (c : Nat) : EvPres (takeSharedB c) := by
  unfold takeSharedB
  refine EvPres_getCtrl_bind (fun ce => ?_)
  obtain ⟨ct, rc, live⟩ := ce
  cases ct with
  | sharedB reg cap =>
    dsimp only
    refine EvPresC_setCtrl_bind rfl (fun o => Iff.rfl) ?_
    intro s hc hl hs
    simp only [bind_apply]
    rw [freeCtrl_eq hc hl]
    simp only [pure_apply, Post_ok]
    exact hs.freeCtrl _ hc (by intro o h; cases h) rfl
  | sharedV reg vlen vcap orig => exact EvPresC_of (EvPres_ub _)
  | owned o => exact EvPresC_of (EvPres_ub _)
macro_rules | `(tactic| evp_prim) => `(tactic| with_reducible exact EvPres_takeSharedB _)

/-! ### composite functions -/

theorem EvPres_vecNew (e : Env) (bs : List Byte) (cap : Nat) : EvPres (vecNew e bs cap) := by
  unfold vecNew; evp
macro_rules | `(tactic| evp_prim) => `(tactic| with_reducible exact EvPres_vecNew _ _ _)

theorem EvPres_vecReserve (e : Env) (reg : Option Nat) (len cap additional : Nat) : EvPres (vecReserve e reg len cap additional) := by
  unfold vecReserve; evp
macro_rules | `(tactic| evp_prim) => `(tactic| with_reducible exact EvPres_vecReserve _ _ _ _ _)

theorem EvPres_copyWithin (r : Option Nat) (src dst len : Nat) : EvPres (copyWithin r src dst len) := by
  unfold copyWithin; evp
macro_rules | `(tactic| evp_prim) => `(tactic| with_reducible exact EvPres_copyWithin _ _ _ _)

theorem EvPres_ctrlIsUnique (c : Nat) : EvPres (ctrlIsUnique c) := by
  unfold ctrlIsUnique; evp
macro_rules | `(tactic| evp_prim) => `(tactic| with_reducible exact EvPres_ctrlIsUnique _)

theorem EvPres_regionOdd (r : Option Nat) : EvPres (regionOdd r) := by
  unfold regionOdd; evp
macro_rules | `(tactic| evp_prim) => `(tactic| with_reducible exact EvPres_regionOdd _)

theorem EvPres_promDecode (vt : Bool) (reg : Option Nat) : EvPres (promDecode vt reg) := by
  unfold promDecode; evp
macro_rules | `(tactic| evp_prim) => `(tactic| with_reducible exact EvPres_promDecode _ _)

theorem EvPres_bytesFromVec (reg : Option Nat) (len cap : Nat) : EvPres (bytesFromVec reg len cap) := by
  unfold bytesFromVec; evp
macro_rules | `(tactic| evp_prim) => `(tactic| with_reducible exact EvPres_bytesFromVec _ _ _)

theorem EvPres_bytesClone (i : Nat) : EvPres (bytesClone i) := by
  unfold bytesClone; evp
macro_rules | `(tactic| evp_prim) => `(tactic| with_reducible exact EvPres_bytesClone _)

theorem EvPres_bytesDrop (h : Handle) : EvPres (bytesDrop h) := by
  unfold bytesDrop; evp
macro_rules | `(tactic| evp_prim) => `(tactic| with_reducible exact EvPres_bytesDrop _)

theorem EvPres_bytesIsUnique (h : Handle) : EvPres (bytesIsUnique h) := by
  unfold bytesIsUnique; evp
macro_rules | `(tactic| evp_prim) => `(tactic| with_reducible exact EvPres_bytesIsUnique _)

theorem EvPres_mutAdvanceUnchecked (cfg : Cfg) (h : Handle) (count : Nat) : EvPres (mutAdvanceUnchecked cfg h count) := by
  unfold mutAdvanceUnchecked; evp
macro_rules | `(tactic| evp_prim) => `(tactic| with_reducible exact EvPres_mutAdvanceUnchecked _ _ _)

theorem EvPres_toVecCopy (e : Env) (reg : Option Nat) (off len : Nat) : EvPres (toVecCopy e reg off len) := by
  unfold toVecCopy; evp
macro_rules | `(tactic| evp_prim) => `(tactic| with_reducible exact EvPres_toVecCopy _ _ _ _)

theorem EvPres_bytesIntoVec (e : Env) (h : Handle) : EvPres (bytesIntoVec e h) := by
  unfold bytesIntoVec; evp
macro_rules | `(tactic| evp_prim) => `(tactic| with_reducible exact EvPres_bytesIntoVec _ _)

theorem EvPres_bytesIntoMut (cfg : Cfg) (e : Env) (h : Handle) : EvPres (bytesIntoMut cfg e h) := by
  unfold bytesIntoMut; evp
macro_rules | `(tactic| evp_prim) => `(tactic| with_reducible exact EvPres_bytesIntoMut _ _ _)

theorem EvPres_mutPromote (h : Handle) (rc : Nat) : EvPres (mutPromote h rc) := by
  unfold mutPromote; evp
macro_rules | `(tactic| evp_prim) => `(tactic| with_reducible exact EvPres_mutPromote _ _)

theorem EvPres_mutShallowClone (h : Handle) : EvPres (mutShallowClone h) := by
  unfold mutShallowClone; evp
macro_rules | `(tactic| evp_prim) => `(tactic| with_reducible exact EvPres_mutShallowClone _)

theorem EvPres_mutDrop (h : Handle) : EvPres (mutDrop h) := by
  unfold mutDrop; evp
macro_rules | `(tactic| evp_prim) => `(tactic| with_reducible exact EvPres_mutDrop _)

theorem EvPres_mutReserveInner (cfg : Cfg) (e : Env) (h : Handle) (additional : Nat) (allocate : Bool) : EvPres (mutReserveInner cfg e h additional allocate) := by
  unfold mutReserveInner; evp
macro_rules | `(tactic| evp_prim) => `(tactic| with_reducible exact EvPres_mutReserveInner _ _ _ _ _)

theorem EvPres_mutReserve (cfg : Cfg) (e : Env) (h : Handle) (additional : Nat) : EvPres (mutReserve cfg e h additional) := by
  unfold mutReserve; evp
macro_rules | `(tactic| evp_prim) => `(tactic| with_reducible exact EvPres_mutReserve _ _ _ _)

theorem EvPres_mutExtend (cfg : Cfg) (e : Env) (h : Handle) (bs : List Byte) : EvPres (mutExtend cfg e h bs) := by
  unfold mutExtend; evp
macro_rules | `(tactic| evp_prim) => `(tactic| with_reducible exact EvPres_mutExtend _ _ _ _)

theorem EvPres_bytesSplitOffCore (i k : Nat) : EvPres (bytesSplitOffCore i k) := by
  unfold bytesSplitOffCore; evp
macro_rules | `(tactic| evp_prim) => `(tactic| with_reducible exact EvPres_bytesSplitOffCore _ _)

theorem EvPres_opSplitOff (cfg : Cfg) (i k : Nat) : EvPres (opSplitOff cfg i k) := by
  unfold opSplitOff; evp
macro_rules | `(tactic| evp_prim) => `(tactic| with_reducible exact EvPres_opSplitOff _ _ _)

theorem EvPres_opSplitTo (cfg : Cfg) (i k : Nat) : EvPres (opSplitTo cfg i k) := by
  unfold opSplitTo; evp
macro_rules | `(tactic| evp_prim) => `(tactic| with_reducible exact EvPres_opSplitTo _ _ _)

theorem EvPres_opDrop (i : Nat) : EvPres (opDrop i) := by
  unfold opDrop; evp
macro_rules | `(tactic| evp_prim) => `(tactic| with_reducible exact EvPres_opDrop _)

theorem EvPres_opTruncate (i n : Nat) : EvPres (opTruncate i n) := by
  unfold opTruncate; evp
macro_rules | `(tactic| evp_prim) => `(tactic| with_reducible exact EvPres_opTruncate _ _)

/-! ### `step` -/

theorem EvPres_pushOwnerMem (n : Nat) (d : List (Option Byte)) (o : Nat) :
    EvPres (modify fun s => { s with regions := s.regions ++ [⟨n, d, true, .ownerMem o⟩] }) :=
  fun s hs => hs.pushNonHeap _ (by intro b h; cases h)
macro_rules | `(tactic| evp_prim) => `(tactic| with_reducible exact EvPres_pushOwnerMem _ _ _)

/-- a computation whose panic is intercepted (`unsplit`) -/
theorem EvPres_tryBind {α β : Type} {m : M α} {f : α → M β} {g : M β} (hm : EvPres m)
    (hf : ∀ a, EvPres (f a)) (hg : EvPres g) :
    EvPres (fun s => match m s with
      | .ok a s' => f a s'
      | .panic s' => g s'
      | .ub w s' => .ub w s') := by
  intro s hs
  have := hm s hs
  dsimp only
  cases hms : m s with
  | ok a s' => rw [hms] at this; exact hf a s' this
  | panic s' => rw [hms] at this; exact hg s' this
  | ub w s' => trivial

theorem EvPres.of_ok {α : Type} {m : M α} (hm : EvPres m) {s s' : St} {a : α} (hs : EvL s)
    (heq : m s = .ok a s') : EvL s' := by
  have := hm s hs; rw [heq] at this; exact this

theorem EvPres.of_panic {α : Type} {m : M α} (hm : EvPres m) {s s' : St} (hs : EvL s)
    (heq : m s = .panic s') : EvL s' := by
  have := hm s hs; rw [heq] at this; exact this

/-- what `from_owner` does once the owner, its control block and the `as_ref` call are recorded -/
theorem EvPres_fromOwner_rest (c o : Nat) (bs : List Byte) (asRefPanics : Bool) :
    EvPres (if asRefPanics then do
        releaseCtrl c
        panic
      else do
        let s ← get
        let r := s.regions.length
        if bs = [] then do
          let i ← newHandle (.bytes (.owned c) none 0 0)
          pure (Val.handle i)
        else do
          modify fun s => { s with regions := s.regions ++ [⟨bs.length, bs.map some, true, .ownerMem o⟩] }
          let i ← newHandle (.bytes (.owned c) (some r) 0 bs.length)
          pure (Val.handle i) : M Val) := by
  evp

theorem EvPres_step (cfg : Cfg) (e : Env) (op : Op) : EvPres (step cfg e op) := by
  cases op
  case fromStatic bs =>
    intro s hs
    simp only [step, bind_apply, newHandle_apply, pure_apply, Post_ok]
    by_cases hbs : bs = []
    · simp only [hbs, if_true]; exact hs.hs _
    · simp only [hbs, if_false]
      exact (hs.pushNonHeap _ (by intro b h; cases h)).hs _
  case fromOwner bs p =>
    intro s hs
    exact EvPres_fromOwner_rest s.ctrls.length s.owners bs p _ (hs.newOwner 1)
  case unsplit i j =>
    unfold step; evp
    intro s hs
    dsimp only
    split
    · next h' s' heq =>
      have hm := (EvPres_mutExtend _ _ _ _).of_ok hs heq
      refine (?_ : EvPres _) s' hm
      evp
    · next s' heq =>
      have hm := (EvPres_mutExtend _ _ _ _).of_panic hs heq
      refine (?_ : EvPres _) s' hm
      evp
    · trivial
  all_goals (unfold step; evp)

/-! ## the ledger invariant as stated in Props/C03.lean, in Prop form -/

/-- is some `owned o` control block alive? -/
def ownerLive' (s : St) (o : Nat) : Bool := s.ctrls.any fun e => e.live && e.c == .owned o

/-- `evOKB` of Props/C03.lean, clause by clause -/
structure EvOKP (s : St) : Prop where
  reg : ∀ (r : Nat) (rg : Region), s.regions[r]? = some rg → regLedger s.events r rg
  bndA : ∀ r sz, Ev.alloc r sz ∈ s.events → r < s.regions.length
  bndD : ∀ r sz, Ev.dealloc r sz ∈ s.events → r < s.regions.length
  bndR : ∀ o, Ev.ownerAsRef o ∈ s.events → o < s.owners
  bndO : ∀ o, Ev.ownerDrop o ∈ s.events → o < s.owners
  asref : ∀ o, o < s.owners → s.events.count (.ownerAsRef o) = 1
  odrop : ∀ o, o < s.owners → s.events.count (.ownerDrop o) = if ownerLive' s o = true then 0 else 1

theorem ownerLive'_iff (s : St) (o : Nat) : ownerLive' s o = true ↔ 0 < liveOwned s.ctrls o := by
  unfold ownerLive' liveOwned
  rw [List.any_eq_true, List.countP_pos_iff]

theorem ownerLive'_of_liveCtrl {s : St} {c o : Nat} (h : liveCtrl s c = some (.owned o)) :
    ownerLive' s o = true := by
  rw [liveCtrl_eq] at h
  obtain ⟨e, he, hl, hc⟩ := liveCtrlL_some_iff.mp h
  unfold ownerLive'
  rw [List.any_eq_true]
  exact ⟨e, List.mem_of_getElem? he, by simp [hl, hc]⟩

theorem EvL.toP {s : St} (h : EvL s) : EvOKP s := by
  refine ⟨h.reg, h.bndA, h.bndD, h.bndR, h.bndO, h.asref, ?_⟩
  intro o ho
  have h0 := h.odrop o
  rw [if_pos ho] at h0
  by_cases hl : ownerLive' s o = true
  · rw [if_pos hl]
    have := (ownerLive'_iff s o).mp hl
    omega
  · rw [if_neg hl]
    have : ¬ 0 < liveOwned s.ctrls o := fun hh => hl ((ownerLive'_iff s o).mpr hh)
    omega

theorem countP_le_one_of_unique {α : Type} (p : α → Bool) (l : List α)
    (h : ∀ (i j : Nat) (x y : α), l[i]? = some x → p x = true → l[j]? = some y → p y = true → i = j) :
    l.countP p ≤ 1 := by
  induction l with
  | nil => simp
  | cons a l ih =>
    have ih' : l.countP p ≤ 1 := by
      apply ih
      intro i j x y hi hx hj hy
      have := h (i + 1) (j + 1) x y (by simpa using hi) hx (by simpa using hj) hy
      omega
    by_cases ha : p a = true
    · have : l.countP p = 0 := by
        rw [List.countP_eq_zero]
        intro y hy hpy
        obtain ⟨j, hj⟩ := List.mem_iff_getElem?.mp hy
        have := h 0 (j + 1) a y (by simp) ha (by simpa using hj) hpy
        omega
      simp [List.countP_cons, ha, this]
    · simp [List.countP_cons, ha]; exact ih'

theorem EvOKP.toL {s : St} (hw : WFx s) (h : EvOKP s) : EvL s := by
  have hI := hw.inv
  refine ⟨h.reg, h.bndA, h.bndD, h.bndR, h.bndO, h.asref, ?_⟩
  intro o
  have hle : liveOwned s.ctrls o ≤ 1 := by
    apply countP_le_one_of_unique
    intro c c' e e' hc he hc' he'
    simp only [Bool.and_eq_true, beq_iff_eq] at he he'
    apply hI.odist c c' o
    · rw [← he.2]; exact liveCtrlL_of hc he.1
    · rw [← he'.2]; exact liveCtrlL_of hc' he'.1
  by_cases ho : o < s.owners
  · rw [if_pos ho]
    have h0 := h.odrop o ho
    by_cases hl : ownerLive' s o = true
    · rw [if_pos hl] at h0
      have := (ownerLive'_iff s o).mp hl
      omega
    · rw [if_neg hl] at h0
      have : ¬ 0 < liveOwned s.ctrls o := fun hh => hl ((ownerLive'_iff s o).mpr hh)
      omega
  · rw [if_neg ho]
    have h1 : s.events.count (.ownerDrop o) = 0 := by
      rw [List.count_eq_zero]; intro hm; exact ho (h.bndO o hm)
    have h2 : liveOwned s.ctrls o = 0 := by
      unfold liveOwned
      rw [List.countP_eq_zero]
      intro e he hp
      simp only [Bool.and_eq_true, beq_iff_eq] at hp
      obtain ⟨c, hc⟩ := List.mem_iff_getElem?.mp he
      have := (hI.cok c e hc hp.1).2.2
      rw [hp.2] at this
      exact ho this
    omega

/-- the ledger invariant is preserved by every operation, whatever the outcome -/
theorem EvOKP_step (cfg : Cfg) (e : Env) (op : Op) (s : St) (hw : WFx s) (h : EvOKP s) :
    Post (step cfg e op s) := EvPres_step cfg e op s (h.toL hw)

/-! ## consequences of `WFx` -/

theorem no_live_ctrl {s : St} (hw : WFx s) (hno : liveHandles s = []) (c : Nat) : liveCtrl s c = none := by
  have hI := hw.inv
  cases hc : liveCtrl s c with
  | none => rfl
  | some ct =>
    exfalso
    rw [liveCtrl_eq] at hc
    obtain ⟨e, _, _, _, hrc, hpos, _⟩ := hI.cok' hc
    have : refCountL s.hs c = 0 := by
      unfold refCountL; rw [← liveHandles_eq, hno]; rfl
    omega

theorem no_live_heap {s : St} (hw : WFx s) (hno : liveHandles s = []) (r : Nat) : isHeapLive s r = false := by
  have hI := hw.inv
  cases hl : isHeapLive s r with
  | false => rfl
  | true =>
    exfalso
    rw [isHeapLive_eq] at hl
    have hlt := isHeapLiveL_lt hl
    have hown := hI.own r hlt
    rw [if_pos hl] at hown
    have h1 : dirCountL s.hs r = 0 := by
      unfold dirCountL; rw [← liveHandles_eq, hno]; rfl
    have h2 : ctrlCountL s.ctrls r = 0 := by
      rw [ctrlCountL_eq_zero]
      intro c e hc hlive _
      have := no_live_ctrl hw hno c
      rw [liveCtrl_eq, liveCtrlL_of hc hlive] at this
      cases this
    omega

/-- a non-empty view lies in a live region -/
theorem view_region_live {s : St} (hw : WFx s) {i : Nat} {x : Handle} (hx : s.hs[i]? = some (some x))
    {v : List Byte} (hv : viewOf s x = some v) (hne : v ≠ []) :
    ∃ r off len rg, span x = some (r, off, len) ∧ s.regions[r]? = some rg ∧ rg.live = true := by
  rw [viewOf_eq] at hv
  unfold viewOfL at hv
  rcases rdL_eq_some_iff.mp hv with ⟨_, h⟩ | ⟨_, r, rg, hreg, hr, hl, _, _⟩
  · exact (hne h).elim
  · cases x with
    | bytes repr reg off len =>
      have hreg' : reg = some r := hreg
      subst hreg'
      exact ⟨r, off, len, rg, rfl, hr, hl⟩
    | «mut» arc reg off len cap orig =>
      have hreg' : reg = some r := hreg
      subst hreg'
      exact ⟨r, off, cap, rg, rfl, hr, hl⟩
    | vec reg len cap =>
      have hreg' : reg = some r := hreg
      subst hreg'
      exact ⟨r, 0, cap, rg, rfl, hr, hl⟩

end BytesVerif.Core
