/-
Execution equations and specifications for the primitives of M1.

Two kinds of statements:

* `foo_eq (hyps) : foo args s = .ok v s'` — execution equations.  Rewrite with them (`simp [foo_eq h…]`
  or `rw`) while symbolically executing an operation.  The hypotheses are lookups (`s.hs[i]? = …`,
  `s.ctrls[c]? = …`, `s.regions[r]? = …`) that you get from `Inv` (see `Inv.ctrl_of_handle`,
  `Inv.hok` + the `handleOKL_<shape>` lemmas, `isHeapLiveL_iff`).
  The pure state updates `setHandle`, `killHandle`, `newHandle`, `setRegion`, `allocRegion`, `setCtrl`,
  `newCtrl`, `emit`, `modify` are `@[simp]` `_apply` lemmas (they hold by `rfl`).

* `foo_cases` — exhaustive case splits (`getHandle_cases`, `vecNew_cases`, `releaseCtrl_cases`, …)
  giving in each case the execution equation together with the facts that characterise the case.

Nothing here mentions `Inv`: intermediate states of an operation are not well-formed, so the
primitives are specified on raw states with explicit lookup hypotheses.
-/
import BytesVerif.Lemmas.Core.Inv
namespace BytesVerif.Core

/-- the region after `dealloc` -/
def Region.kill (rg : Region) : Region := { rg with live := false }
/-- the region after writing `bs` at `off` -/
def Region.write (rg : Region) (off : Nat) (bs : List Byte) : Region :=
  { rg with data := rg.data.take off ++ bs.map some ++ rg.data.drop (off + bs.length) }

@[simp] theorem Region.kill_size (rg : Region) : rg.kill.size = rg.size := rfl
@[simp] theorem Region.kill_data (rg : Region) : rg.kill.data = rg.data := rfl
@[simp] theorem Region.kill_live (rg : Region) : rg.kill.live = false := rfl
@[simp] theorem Region.kill_kind (rg : Region) : rg.kill.kind = rg.kind := rfl
@[simp] theorem Region.write_size (rg : Region) (off : Nat) (bs : List Byte) :
    (rg.write off bs).size = rg.size := rfl
@[simp] theorem Region.write_live (rg : Region) (off : Nat) (bs : List Byte) :
    (rg.write off bs).live = rg.live := rfl
@[simp] theorem Region.write_kind (rg : Region) (off : Nat) (bs : List Byte) :
    (rg.write off bs).kind = rg.kind := rfl
theorem Region.write_data (rg : Region) (off : Nat) (bs : List Byte) :
    (rg.write off bs).data = rg.data.take off ++ bs.map some ++ rg.data.drop (off + bs.length) := rfl
theorem Region.write_eq (rg : Region) (off : Nat) (bs : List Byte) :
    rg.write off bs =
      { rg with data := rg.data.take off ++ bs.map some ++ rg.data.drop (off + bs.length) } := rfl
theorem Region.kill_eq (rg : Region) : rg.kill = { rg with live := false } := rfl

/-! ### handles -/

theorem getHandle_eq {s : St} {i : Nat} {h : Handle} (hi : s.hs[i]? = some (some h)) :
    getHandle i s = .ok h s := by
  simp [getHandle, hi]

theorem getHandle_panic {s : St} {i : Nat} (hi : ∀ h, s.hs[i]? ≠ some (some h)) :
    getHandle i s = .panic s := by
  unfold getHandle
  cases h : s.hs[i]? with
  | none => rfl
  | some oh =>
    cases oh with
    | none => rfl
    | some a => exact (hi a h).elim

/-- `getHandle` either finds a live handle or rejects the operation without touching the state -/
theorem getHandle_cases (s : St) (i : Nat) :
    (∃ h, s.hs[i]? = some (some h) ∧ getHandle i s = .ok h s) ∨
    ((∀ h, s.hs[i]? ≠ some (some h)) ∧ getHandle i s = .panic s) := by
  cases h : s.hs[i]? with
  | none => exact .inr ⟨by simp, getHandle_panic (by simp [h])⟩
  | some oh =>
    cases oh with
    | none => exact .inr ⟨by simp, getHandle_panic (by simp [h])⟩
    | some a => exact .inl ⟨a, rfl, getHandle_eq h⟩

@[simp] theorem setHandle_apply (i : Nat) (h : Handle) (s : St) :
    setHandle i h s = .ok () { s with hs := s.hs.set i (some h) } := rfl
@[simp] theorem killHandle_apply (i : Nat) (s : St) :
    killHandle i s = .ok () { s with hs := s.hs.set i none } := rfl
@[simp] theorem newHandle_apply (h : Handle) (s : St) :
    newHandle h s = .ok s.hs.length { s with hs := s.hs ++ [some h] } := rfl

/-! ### regions -/

theorem getRegion_eq {s : St} {r : Nat} {rg : Region} (hr : s.regions[r]? = some rg) :
    getRegion r s = .ok rg s := by
  simp [getRegion, hr]

@[simp] theorem setRegion_apply (r : Nat) (rg : Region) (s : St) :
    setRegion r rg s = .ok () { s with regions := s.regions.set r rg } := rfl

@[simp] theorem allocRegion_apply (e : Env) (size : Nat) (data : List (Option Byte)) (s : St) :
    allocRegion e size data s = .ok s.regions.length
      { s with regions := s.regions ++ [⟨size, data, true, .heap (e.odd s.regions.length)⟩],
               events := .alloc s.regions.length size :: s.events } := rfl

/-- `dealloc` of a live heap region with the right size -/
theorem freeRegion_eq {s : St} {r size : Nat} {rg : Region} {o : Bool}
    (hr : s.regions[r]? = some rg) (hl : rg.live = true) (hs : rg.size = size)
    (hk : rg.kind = .heap o) :
    freeRegion r size s = .ok ()
      { s with regions := s.regions.set r rg.kill,
               events := .dealloc r size :: s.events } := by
  simp [freeRegion, getRegion_eq hr, hl, hs, hk, Region.kill]

/-- the same from the observables of the invariant -/
theorem freeRegion_of_heapLive {s : St} {r size : Nat} (hl : isHeapLiveL s.regions r = true)
    (hs : regionSizeL s.regions r = size) :
    ∃ rg, s.regions[r]? = some rg ∧ rg.live = true ∧ rg.size = size ∧
      freeRegion r size s = .ok ()
        { s with regions := s.regions.set r rg.kill,
                 events := .dealloc r size :: s.events } := by
  obtain ⟨rg, o, hr, hlive, hk⟩ := isHeapLiveL_iff.mp hl
  have hsz : rg.size = size := by simpa [regionSizeL_def, hr] using hs
  exact ⟨rg, hr, hlive, hsz, freeRegion_eq hr hlive hsz hk⟩

/-- `readRange` is `readRange_of_rdL` / `readRange_eq` in Inv.lean.  Under the invariant the view of a
live handle is readable: -/
theorem readRange_view {s : St} (hI : Inv s) {i : Nat} {h : Handle} (hi : s.hs[i]? = some (some h)) :
    ∃ v, viewOfL s.regions h = some v ∧ v.length = hlen h ∧
      readRange (hreg h) (hoff h) (hlen h) s = .ok v s := by
  obtain ⟨v, hv, hl⟩ := hI.view hi
  exact ⟨v, hv, hl, readRange_of_rdL hv⟩

@[simp] theorem writeRange_nil (reg : Option Nat) (off : Nat) (s : St) :
    writeRange reg off [] s = .ok () s := by
  simp [writeRange]

theorem writeRange_eq {s : St} {r off : Nat} {bs : List Byte} {rg : Region} {o : Bool}
    (hne : bs ≠ []) (hr : s.regions[r]? = some rg) (hl : rg.live = true)
    (hb : off + bs.length ≤ rg.size) (hk : rg.kind = .heap o) :
    writeRange (some r) off bs s = .ok ()
      { s with regions := s.regions.set r (rg.write off bs) } := by
  have : ¬ (off + bs.length > rg.size) := by omega
  simp [writeRange, hne, getRegion_eq hr, hl, this, hk, Region.write]

/-- `copyWithin` reads `[src, src+len)` and writes it at `dst` -/
theorem copyWithin_zero (reg : Option Nat) (src dst : Nat) (s : St) :
    copyWithin reg src dst 0 s = .ok () s := by
  simp [copyWithin]

theorem copyWithin_eq {s : St} {r src dst len : Nat} {bs : List Byte} {rg : Region} {o : Bool}
    (hlen : len ≠ 0) (hrd : rdL s.regions (some r) src len = some bs) (hbl : bs.length = len)
    (hr : s.regions[r]? = some rg) (hl : rg.live = true) (hb : dst + len ≤ rg.size)
    (hk : rg.kind = .heap o) :
    copyWithin (some r) src dst len s = .ok ()
      { s with regions := s.regions.set r (rg.write dst bs) } := by
  have hne : bs ≠ [] := by intro h; subst h; simp at hbl; omega
  simp only [copyWithin, hlen, if_false, bind_apply, readRange_of_rdL hrd]
  exact writeRange_eq hne hr hl (by omega) hk

/-! ### control blocks -/

theorem getCtrl_eq {s : St} {c : Nat} {e : CtrlE} (hc : s.ctrls[c]? = some e) (hl : e.live = true) :
    getCtrl c s = .ok e s := by
  simp [getCtrl, hc, hl]

@[simp] theorem setCtrl_apply (c : Nat) (e : CtrlE) (s : St) :
    setCtrl c e s = .ok () { s with ctrls := s.ctrls.set c e } := rfl

@[simp] theorem newCtrl_apply (ct : Ctrl) (rc : Nat) (s : St) :
    newCtrl ct rc s = .ok s.ctrls.length
      { s with ctrls := s.ctrls ++ [⟨ct, rc, true⟩], events := .allocCtrl s.ctrls.length :: s.events } :=
  rfl

theorem freeCtrl_eq {s : St} {c : Nat} {e : CtrlE} (hc : s.ctrls[c]? = some e) (hl : e.live = true) :
    freeCtrl c s = .ok ()
      { s with ctrls := s.ctrls.set c { e with live := false },
               events := .deallocCtrl c :: s.events } := by
  simp [freeCtrl, getCtrl_eq hc hl]

theorem incCtrl_eq {s : St} {c : Nat} {e : CtrlE} (hc : s.ctrls[c]? = some e) (hl : e.live = true) :
    incCtrl c s = .ok () { s with ctrls := s.ctrls.set c { e with rc := e.rc + 1 } } := by
  simp [incCtrl, getCtrl_eq hc hl]

theorem ctrlIsUnique_eq {s : St} {c : Nat} {e : CtrlE} (hc : s.ctrls[c]? = some e)
    (hl : e.live = true) : ctrlIsUnique c s = .ok (e.rc == 1) s := by
  simp [ctrlIsUnique, getCtrl_eq hc hl]

/-! ### Vec -/

theorem vecNew_zero (e : Env) (bs : List Byte) (s : St) : vecNew e bs 0 s = .ok none s := by
  simp [vecNew]

theorem vecNew_panic (e : Env) (bs : List Byte) {cap : Nat} (h : cap > isizeMax) (s : St) :
    vecNew e bs cap s = .panic s := by
  have : cap ≠ 0 := by simp [isizeMax_eq] at h; omega
  simp [vecNew, this, h]

theorem vecNew_eq (e : Env) (bs : List Byte) {cap : Nat} (h0 : cap ≠ 0) (h : cap ≤ isizeMax) (s : St) :
    vecNew e bs cap s = .ok (some s.regions.length)
      { s with regions := s.regions ++
                 [⟨cap, bs.map some ++ List.replicate (cap - bs.length) none, true,
                   .heap (e.odd s.regions.length)⟩],
               events := .alloc s.regions.length cap :: s.events } := by
  have : ¬ cap > isizeMax := by omega
  simp [vecNew, h0, this]

theorem vecNew_cases (e : Env) (bs : List Byte) (cap : Nat) (s : St) :
    (cap = 0 ∧ vecNew e bs cap s = .ok none s) ∨
    (cap > isizeMax ∧ vecNew e bs cap s = .panic s) ∨
    (cap ≠ 0 ∧ cap ≤ isizeMax ∧ vecNew e bs cap s = .ok (some s.regions.length)
      { s with regions := s.regions ++
                 [⟨cap, bs.map some ++ List.replicate (cap - bs.length) none, true,
                   .heap (e.odd s.regions.length)⟩],
               events := .alloc s.regions.length cap :: s.events }) := by
  by_cases h0 : cap = 0
  · subst h0; exact .inl ⟨rfl, vecNew_zero e bs s⟩
  · by_cases h : cap > isizeMax
    · exact .inr (.inl ⟨h, vecNew_panic e bs h s⟩)
    · exact .inr (.inr ⟨h0, by omega, vecNew_eq e bs h0 (by omega) s⟩)

theorem vecFree_none (s : St) : vecFree none 0 s = .ok () s := by simp [vecFree]

theorem vecFree_some {s : St} {r cap : Nat} (hl : isHeapLiveL s.regions r = true)
    (hs : regionSizeL s.regions r = cap) (h0 : cap ≠ 0) :
    ∃ rg, s.regions[r]? = some rg ∧ rg.live = true ∧ rg.size = cap ∧
      vecFree (some r) cap s = .ok ()
        { s with regions := s.regions.set r rg.kill,
                 events := .dealloc r cap :: s.events } := by
  obtain ⟨rg, h1, h2, h3, h4⟩ := freeRegion_of_heapLive hl hs
  exact ⟨rg, h1, h2, h3, by simp [vecFree, h0, h4]⟩

/-- W1: a heap region has positive size (so `from_raw_parts` never sees capacity 0 on an allocation) -/
theorem heap_size_pos {R : List Region} (hR : ∀ (r : Nat) (rg : Region), R[r]? = some rg → regionOKB rg = true)
    {r : Nat} (hl : isHeapLiveL R r = true) : regionSizeL R r ≠ 0 := by
  obtain ⟨rg, o, hr, _, hk⟩ := isHeapLiveL_iff.mp hl
  have := hR r rg hr
  simp [regionOKB, hk] at this
  simp [regionSizeL_def, hr]; omega

theorem region_size_le {R : List Region} (hR : ∀ (r : Nat) (rg : Region), R[r]? = some rg → regionOKB rg = true)
    {r : Nat} {rg : Region} (hr : R[r]? = some rg) : rg.size ≤ isizeMax ∧ rg.data.length = rg.size := by
  have := hR r rg hr
  simp [regionOKB] at this
  exact ⟨this.1.2, this.1.1⟩

/-! ### reference counting -/

/-- `release` of a block that stays alive -/
theorem releaseCtrl_dec {s : St} {c : Nat} {e : CtrlE} (hc : s.ctrls[c]? = some e)
    (hl : e.live = true) (h0 : e.rc ≠ 0) (h1 : e.rc ≠ 1) :
    releaseCtrl c s = .ok () { s with ctrls := s.ctrls.set c { e with rc := e.rc - 1 } } := by
  simp [releaseCtrl, getCtrl_eq hc hl, h0, h1]

/-- the regions after the buffer of a control block has been freed -/
def freeBuf (R : List Region) : Ctrl → List Region
  | .sharedB r _ => (match R[r]? with | some rg => R.set r rg.kill | none => R)
  | .sharedV (some r) _ _ _ => (match R[r]? with | some rg => R.set r rg.kill | none => R)
  | .sharedV none _ _ _ => R
  | .owned o => R.map fun rg => if rg.kind = .ownerMem o then rg.kill else rg

/-- `release` of the last reference: the buffer and the block are freed.  The hypotheses are what
`Inv.cok` provides (`ctrlBufOK`) plus W1. -/
theorem releaseCtrl_last {s : St} {c : Nat} {e : CtrlE} (hc : s.ctrls[c]? = some e)
    (hl : e.live = true) (h1 : e.rc = 1) (hb : ctrlBufOK s.regions s.owners e.c)
    (hR : ∀ (r : Nat) (rg : Region), s.regions[r]? = some rg → regionOKB rg = true) :
    ∃ ev, releaseCtrl c s = .ok ()
      { s with regions := freeBuf s.regions e.c,
               ctrls := s.ctrls.set c ⟨e.c, 0, false⟩,
               events := ev } := by
  obtain ⟨ct, rc, live⟩ := e
  simp only at hl h1 hb; subst hl h1
  have hc' : (s.ctrls.set c ⟨ct, 0, true⟩)[c]? = some ⟨ct, 0, true⟩ := lookup_set_eq _ hc
  simp only [releaseCtrl, bind_apply, getCtrl_eq hc rfl, Nat.one_ne_zero, if_false, ne_eq,
    not_true_eq_false, setCtrl_apply]
  cases ct with
  | sharedB r cap =>
    simp only [ctrlBufOK] at hb
    obtain ⟨rg, hr, hlive, hsz, hfree⟩ :=
      freeRegion_of_heapLive (s := { s with ctrls := s.ctrls.set c ⟨.sharedB r cap, 0, true⟩ }) hb.1 hb.2
    simp only at hr
    simp only [bind_apply, hfree]
    rw [freeCtrl_eq (c := c) (e := ⟨.sharedB r cap, 0, true⟩) hc' rfl]
    have hfb : freeBuf s.regions (.sharedB r cap) = s.regions.set r rg.kill := by simp [freeBuf, hr]
    simp only [hfb, List.set_set]
    exact ⟨_, rfl⟩
  | sharedV reg vlen vcap orig =>
    cases reg with
    | none =>
      simp only [ctrlBufOK] at hb
      subst hb
      simp only [bind_apply, vecFree_none]
      rw [freeCtrl_eq (c := c) (e := ⟨.sharedV none vlen 0 orig, 0, true⟩) hc' rfl]
      simp only [freeBuf, List.set_set]
      exact ⟨_, rfl⟩
    | some r =>
      simp only [ctrlBufOK] at hb
      have h0 : vcap ≠ 0 := by rw [← hb.2]; exact heap_size_pos hR hb.1
      obtain ⟨rg, hr, hlive, hsz, hfree⟩ :=
        vecFree_some (s := { s with ctrls := s.ctrls.set c ⟨.sharedV (some r) vlen vcap orig, 0, true⟩ })
          hb.1 hb.2 h0
      simp only at hr
      simp only [bind_apply, hfree]
      rw [freeCtrl_eq (c := c) (e := ⟨.sharedV (some r) vlen vcap orig, 0, true⟩) hc' rfl]
      have hfb : freeBuf s.regions (.sharedV (some r) vlen vcap orig) = s.regions.set r rg.kill := by
        simp [freeBuf, hr]
      simp only [hfb, List.set_set]
      exact ⟨_, rfl⟩
  | owned o =>
    simp only [bind_apply, emit_apply, modify_apply]
    rw [freeCtrl_eq (c := c) (e := ⟨.owned o, 0, true⟩) hc' rfl]
    simp only [freeBuf, List.set_set]
    exact ⟨_, rfl⟩

/-- both branches of `releaseCtrl` at once -/
theorem releaseCtrl_cases {s : St} {c : Nat} {e : CtrlE} (hc : s.ctrls[c]? = some e)
    (hl : e.live = true) (h0 : 1 ≤ e.rc) (hb : ctrlBufOK s.regions s.owners e.c)
    (hR : ∀ (r : Nat) (rg : Region), s.regions[r]? = some rg → regionOKB rg = true) :
    (e.rc ≠ 1 ∧
      releaseCtrl c s = .ok () { s with ctrls := s.ctrls.set c { e with rc := e.rc - 1 } }) ∨
    (e.rc = 1 ∧ ∃ ev, releaseCtrl c s = .ok ()
      { s with regions := freeBuf s.regions e.c,
               ctrls := s.ctrls.set c ⟨e.c, 0, false⟩,
               events := ev }) := by
  by_cases h1 : e.rc = 1
  · exact .inr ⟨h1, releaseCtrl_last hc hl h1 hb hR⟩
  · exact .inl ⟨h1, releaseCtrl_dec hc hl (by omega) h1⟩

/-! ### promotable tag decoding -/

theorem regionOdd_eq {s : St} {r : Nat} (hl : isHeapLiveL s.regions r = true) :
    regionOdd (some r) s = .ok (regionOddL s.regions r) s := by
  obtain ⟨rg, o, hr, _, hk⟩ := isHeapLiveL_iff.mp hl
  simp [regionOdd, getRegion_eq hr, hk, regionOddL_def, hr]

theorem promDecode_eq {s : St} {r : Nat} {vt : Bool} (hl : isHeapLiveL s.regions r = true)
    (hv : vt = regionOddL s.regions r) : promDecode vt (some r) s = .ok () s := by
  simp [promDecode, regionOdd_eq hl, hv]


/-! ### `Vec::reserve` -/

theorem vecReserve_noop (e : Env) {reg : Option Nat} {len cap additional : Nat}
    (h : additional ≤ cap - len) (s : St) :
    vecReserve e reg len cap additional s = .ok (reg, cap) s := by
  simp [vecReserve, h]

/-- first panic condition: the needed capacity overflows `isize::MAX` -/
theorem vecReserve_panic (e : Env) {reg : Option Nat} {len cap additional : Nat}
    (h : ¬ additional ≤ cap - len) (h2 : len + additional > isizeMax) (s : St) :
    vecReserve e reg len cap additional s = .panic s := by
  simp [vecReserve, h, h2]

/-- second panic condition: the amortised (doubled) capacity overflows `isize::MAX` -/
theorem vecReserve_panic_grow (e : Env) {reg : Option Nat} {len cap additional : Nat}
    (h : ¬ additional ≤ cap - len) (h3 : vecGrowCap cap (len + additional) > isizeMax) (s : St) :
    vecReserve e reg len cap additional s = .panic s := by
  by_cases h2 : len + additional > isizeMax
  · exact vecReserve_panic e h h2 s
  · simp [vecReserve, h, h2, h3]

/-- the needed capacity never exceeds the grown one, so the second check subsumes the first -/
theorem le_vecGrowCap (cap needed : Nat) : needed ≤ vecGrowCap cap needed := by
  simp only [vecGrowCap]; omega

theorem vecGrowCap_pos (cap needed : Nat) : vecGrowCap cap needed ≠ 0 := by
  simp only [vecGrowCap]; omega

/-- growing an unallocated vector -/
theorem vecReserve_grow_none (e : Env) {len additional : Nat}
    (h : ¬ additional ≤ 0 - len) (h3 : vecGrowCap 0 (len + additional) ≤ isizeMax) (s : St) :
    vecReserve e none len 0 additional s =
      .ok (some s.regions.length, vecGrowCap 0 (len + additional))
        ⟨s.regions ++ [⟨vecGrowCap 0 (len + additional),
            List.replicate (vecGrowCap 0 (len + additional)) none, true, .heap (e.odd s.regions.length)⟩],
          s.ctrls, s.hs, s.owners,
          .alloc s.regions.length (vecGrowCap 0 (len + additional)) :: s.events⟩ := by
  have h' : ¬ additional = 0 := by omega
  have h2 : ¬ len + additional > isizeMax := by
    have := le_vecGrowCap 0 (len + additional); omega
  have h3' : ¬ vecGrowCap 0 (len + additional) > isizeMax := by omega
  simp [vecReserve, h', h2, h3', vecFree_none]

/-- growing an allocated vector: a fresh region with the old contents `[0, len)`, the old region is
freed.  The new capacity `vecGrowCap cap (len + additional)` is at most `isizeMax` (otherwise
`vecReserve_panic_grow`). -/
theorem vecReserve_grow_some (e : Env) {r len cap additional : Nat} {rg : Region} {o : Bool} {s : St}
    (h : ¬ additional ≤ cap - len) (h3 : vecGrowCap cap (len + additional) ≤ isizeMax)
    (hr : s.regions[r]? = some rg) (hl : rg.live = true) (hs : rg.size = cap) (hk : rg.kind = .heap o)
    (h0 : cap ≠ 0) :
    vecReserve e (some r) len cap additional s =
      .ok (some s.regions.length, vecGrowCap cap (len + additional))
        ⟨(s.regions ++ [(⟨vecGrowCap cap (len + additional),
            rg.data.take len ++
              List.replicate (vecGrowCap cap (len + additional) - (rg.data.take len).length) none,
            true, .heap (e.odd s.regions.length)⟩ : Region)]).set r rg.kill,
          s.ctrls, s.hs, s.owners,
          .dealloc r cap :: .alloc s.regions.length (vecGrowCap cap (len + additional)) :: s.events⟩ := by
  have h2 : ¬ len + additional > isizeMax := by
    have := le_vecGrowCap cap (len + additional); omega
  have h3' : ¬ vecGrowCap cap (len + additional) > isizeMax := by omega
  simp only [vecReserve, ge_iff_le, h, if_false, h2, h3', bind_apply, getRegion_eq hr, hl, Bool.not_true,
    Bool.false_eq_true, pure_apply, allocRegion_apply, vecFree, h0]
  rw [freeRegion_eq (rg := rg) (o := o) (r := r) (size := cap)
    (by exact lookup_append_of_some _ hr) hl hs hk]


/-- the region allocated by a non-panicking growing `vecReserve` satisfies `regionOKB`
(`old` is the preserved prefix, `rg.data.take len` resp. `[]`) -/
theorem vecReserve_region_ok {cap needed : Nat} (old : List (Option Byte)) (o : Bool)
    (h3 : vecGrowCap cap needed ≤ isizeMax) (hold : old.length ≤ vecGrowCap cap needed) :
    regionOKB ⟨vecGrowCap cap needed,
      old ++ List.replicate (vecGrowCap cap needed - old.length) none, true, .heap o⟩ = true := by
  have := vecGrowCap_pos cap needed
  simp [regionOKB, h3]
  omega


/-! ### reading after a write -/

/-- a range disjoint from the written one reads as before -/
theorem rdL_write_other {R : List Region} {r : Nat} {rg : Region} {off : Nat} {bs : List Byte}
    {reg : Option Nat} {o l : Nat} (hr : R[r]? = some rg) (hb : off + bs.length ≤ rg.data.length)
    (hd : reg = some r → o + l ≤ off ∨ off + bs.length ≤ o) :
    rdL (R.set r (rg.write off bs)) reg o l = rdL R reg o l := by
  rw [Region.write_eq]
  apply rdL_set_data hr
  intro hreg k hk1 hk2
  have hw := write_getElem? rg.data (bs.map some) off k (by simpa using hb)
  simp only [List.length_map] at hw
  rw [hw]
  have := hd hreg
  split
  · rfl
  · split
    · exfalso; omega
    · rfl

/-- the written range reads back what was written -/
theorem rdL_write_same {R : List Region} {r : Nat} {rg : Region} {off : Nat} {bs : List Byte}
    (hr : R[r]? = some rg) (hl : rg.live = true) (hb : off + bs.length ≤ rg.size)
    (hdl : rg.data.length = rg.size) :
    rdL (R.set r (rg.write off bs)) (some r) off bs.length = some bs := by
  apply rdL_some_of (lookup_set_eq _ hr) (by simpa using hl) (by simpa using hb)
  have := write_slice rg.data (bs.map some) off (by simp; omega)
  simpa [Region.write_data] using this

/-- two adjacent reads make one -/
theorem rdL_concat {R : List Region} {reg : Option Nat} {o l1 l2 : Nat} {v1 v2 : List Byte}
    (h1 : rdL R reg o l1 = some v1) (h2 : rdL R reg (o + l1) l2 = some v2) (hv1 : v1.length = l1) :
    rdL R reg o (l1 + l2) = some (v1 ++ v2) := by
  by_cases hl1 : l1 = 0
  · subst hl1
    have : v1 = [] := by cases v1 <;> simp_all
    subst this; simpa using h2
  by_cases hl2 : l2 = 0
  · subst hl2
    have : v2 = [] := by
      rcases rdL_eq_some_iff.mp h2 with ⟨_, h⟩ | ⟨h, _⟩
      · exact h
      · exact (h rfl).elim
    subst this; simpa using h1
  rcases rdL_eq_some_iff.mp h1 with ⟨h, _⟩ | ⟨_, r, rg, rfl, hr, hl, hb1, hd1⟩
  · exact (hl1 h).elim
  rcases rdL_eq_some_iff.mp h2 with ⟨h, _⟩ | ⟨_, r', rg', hreg, hr', _, hb2, hd2⟩
  · exact (hl2 h).elim
  cases hreg; rw [hr] at hr'; cases hr'
  refine rdL_eq_some_iff.mpr (.inr ⟨by omega, r, rg, rfl, hr, hl, by omega, ?_⟩)
  rw [List.map_append, ← hd1, ← hd2]
  apply List.ext_getElem?
  intro j
  simp only [List.getElem?_take, List.getElem?_drop, List.getElem?_append, List.length_take,
    List.length_drop]
  have hlen : l1 ≤ rg.data.length - o := by
    have := congrArg List.length hd1; simp at this; omega
  rw [Nat.min_eq_left hlen]
  by_cases hj : j < l1
  · have : j < l1 + l2 := by omega
    simp [hj, this]
  · simp only [hj, if_false]
    by_cases hj2 : j - l1 < l2
    · have : j < l1 + l2 := by omega
      simp only [hj2, this, if_true]; congr 1; omega
    · have : ¬ j < l1 + l2 := by omega
      simp [hj2, this]


end BytesVerif.Core
