/-
Why `WF` (CoreWF.lean) had to be strengthened to `WFx` (Inv.lean): two concrete states that satisfy
`WF` and from which one `Op.drop` leads to a state violating `WF`.  Both states are unreachable
(they violate X1 resp. X2 of `WFx`), so they are no findings about the crate — but they show that
`step_sound` cannot be proved with the hypothesis `WF s` alone: the statement to prove is
`WFx s → StepOKx cfg e op s` together with `WFx_init`.

The first two are checked by kernel evaluation (`decide`).

A third, former item (`reserve_breaks_WF`, a MODEL ISSUE on a reachable state) is gone: the model
was fixed, see the comment at the end of this file.
-/
import BytesVerif.Lemmas.Core.Helpers
set_option linter.unusedVariables false
namespace BytesVerif.Core.Cex

def cfg : Cfg := ⟨true, true⟩
def env : Env := ⟨fun _ => false⟩

/-- does the step return normally to a state satisfying `wfB`? -/
def okWF (op : Op) (s : St) : Bool :=
  match step cfg env op s with
  | .ok _ s' => wfB s'
  | _ => false

/-- X1 violated: a non-empty STATIC handle (slot 1) aliases the heap buffer owned by the promotable
handle in slot 0. -/
def aliasStatic : St :=
  { regions := [⟨1, [some 7], true, .heap false⟩]
    hs := [some (.bytes (.prom false none) (some 0) 0 1), some (.bytes .static (some 0) 0 1)] }

example : wfB aliasStatic = true := by decide
/-- dropping slot 0 frees the buffer; slot 1 now reads freed memory -/
example : okWF (.drop 0) aliasStatic = false := by decide

/-- X2 violated: two live `Owned` control blocks for the same owner id 0. -/
def twoOwners : St :=
  { regions := [⟨1, [some 7], true, .ownerMem 0⟩]
    ctrls := [⟨.owned 0, 1, true⟩, ⟨.owned 0, 1, true⟩]
    hs := [some (.bytes (.owned 0) (some 0) 0 1), some (.bytes (.owned 1) (some 0) 0 1)]
    owners := 1 }

example : wfB twoOwners = true := by decide
/-- dropping slot 0 drops owner 0 and with it the memory slot 1 still points to -/
example : okWF (.drop 0) twoOwners = false := by decide

/-! ### `vecReserve` and the grown capacity (FIXED)

An earlier version of the model's `vecReserve` did not check the amortised capacity
`vecGrowCap cap (len + additional)` against `isizeMax`; from the reachable state after
`BytesMut::with_capacity(cap)` with `isizeMax / 2 < cap < isizeMax`, `reserve(cap + 1)` returned
normally with a region larger than `isizeMax`, violating `WF` (theorem `reserve_breaks_WF`, now
deleted because it is — intentionally — no longer provable).  The model was fixed: Core.lean's
`vecReserve` now panics when the grown capacity exceeds `isizeMax` (as `Layout::array` fails in
`finish_grow`: "capacity overflow"); see `vecReserve_panic_grow` / `vecReserve_region_ok` in Prim.lean. -/

end BytesVerif.Core.Cex
