/-
Helper lemmas for Props/C08.lean: exact execution equations (including the event list) of
`bytesIsUnique`, the unique branches of `bytesIntoMut`, and the non-allocating branches of
`mutReserveInner`.
-/
import BytesVerif.Lemmas.Core.Sound
set_option linter.unusedVariables false
set_option linter.unusedSimpArgs false
namespace BytesVerif.Core
namespace PropC08

/-! ## `is_unique` -/

/-- what `is_unique` must answer, by representation -/
def uniqueB (s : St) : BRepr → Bool
  | .static | .owned _ => false
  | .prom _ none => true
  | .prom _ (some c) | .shared c | .sharedV c => refCount s c == 1

theorem bytesIsUnique_eq {s : St} (hI : Inv s) {i : Nat} {repr : BRepr} {reg : Option Nat} {off len : Nat}
    (hi : s.hs[i]? = some (some (.bytes repr reg off len))) :
    bytesIsUnique (.bytes repr reg off len) s = .ok (uniqueB s repr) s := by
  have share : ∀ c, ctrlOf (.bytes repr reg off len) = some c →
      ctrlIsUnique c s = .ok (refCount s c == 1) s := by
    intro c hc
    obtain ⟨e0, he, hl, hrc, _⟩ := hI.ctrl_of_handle hi hc
    rw [ctrlIsUnique_eq he hl, hrc, refCount_eq]
  cases repr with
  | «static» => rfl
  | owned c => rfl
  | shared c => exact share c rfl
  | sharedV c => exact share c rfl
  | prom vt oc =>
    cases oc with
    | none => rfl
    | some c => exact share c rfl

/-! ## `into_mut`, unique branches -/

/-- events that are not byte-buffer allocations -/
def NoAlloc (evs : List Ev) : Prop := ∀ ev ∈ evs, ∀ r n, ev ≠ Ev.alloc r n

theorem NoAlloc_nil : NoAlloc [] := by intro ev h; cases h

theorem sharedToMut_unique {s : St} (hI : Inv s) (cfg : Cfg) (e : Env) {i : Nat} {repr : BRepr}
    {reg : Option Nat} {off len c r cap : Nat} (hi : s.hs[i]? = some (some (.bytes repr reg off len)))
    (hc : ctrlOf (.bytes repr reg off len) = some c)
    (hlive : liveCtrlL s.ctrls c = some (.sharedB r cap)) (hreg' : reg = some r) (hb : off + len ≤ cap)
    (hu : refCount s c = 1) :
    ∃ m s1 evs, OpsC.sharedToMut cfg e c reg off len s = .ok m s1 ∧
      (∃ arc cap' orig, m = .mut arc reg off len cap' orig) ∧ s1.hs = s.hs ∧
      s1.events = evs ++ s.events ∧ NoAlloc evs := by
  subst hreg'
  obtain ⟨e0, he, hl, hct, hrc, _, hbuf⟩ := hI.cok' hlive
  have h1 : e0.rc = 1 := by rw [hrc, ← refCount_eq]; exact hu
  simp only [OpsC.sharedToMut, bind_apply, ctrlIsUnique_eq he hl]
  rcases OpsC.mutAdvance_from_zero cfg (reg := some r) (len := len + off) (cap := cap)
      (orig := originalCapacityToRepr cap) (k := off) (by omega)
      { s with ctrls := s.ctrls.set c ⟨.sharedB r cap, 0, false⟩,
               events := .deallocCtrl c :: s.events } with ⟨hp, hadv⟩ | ⟨hp, hadv⟩
  · refine ⟨.mut none (some r) off (len + off - off) (cap - off) (originalCapacityToRepr cap),
      { s with ctrls := s.ctrls.set c ⟨.sharedB r cap, 0, false⟩,
               events := .deallocCtrl c :: s.events }, [.deallocCtrl c],
      by simp [h1, OpsC.takeSharedB_eq he hl hct, mutFromVec, hadv],
      ⟨none, _, _, by rw [Nat.add_sub_cancel]⟩, rfl, rfl, ?_⟩
    intro ev hev r' n'; simp at hev; subst hev; simp
  · refine ⟨.mut (some s.ctrls.length) (some r) off (len + off - off) (cap - off)
        (originalCapacityToRepr cap),
      { s with ctrls := s.ctrls.set c ⟨.sharedB r cap, 0, false⟩ ++
                 [⟨.sharedV (some r) (len + off) cap (originalCapacityToRepr cap), 1, true⟩],
               events := .allocCtrl s.ctrls.length :: .deallocCtrl c :: s.events },
      [.allocCtrl s.ctrls.length, .deallocCtrl c],
      by simp [h1, OpsC.takeSharedB_eq he hl hct, mutFromVec, hadv],
      ⟨some _, _, _, by rw [Nat.add_sub_cancel]⟩, rfl, rfl, ?_⟩
    intro ev hev r' n'; simp at hev; rcases hev with rfl | rfl <;> simp

/-- a unique `Bytes` becomes a `BytesMut` on the same memory; only control blocks are (de)allocated -/
theorem bytesIntoMut_unique {s : St} (hI : Inv s) (cfg : Cfg) (e : Env) {i : Nat} {repr : BRepr}
    {reg : Option Nat} {off len : Nat} (hi : s.hs[i]? = some (some (.bytes repr reg off len)))
    (hu : uniqueB s repr = true) :
    ∃ m s1 evs, bytesIntoMut cfg e (.bytes repr reg off len) s = .ok m s1 ∧
      (∃ arc cap' orig, m = .mut arc reg off len cap' orig) ∧ s1.hs = s.hs ∧
      s1.events = evs ++ s.events ∧ NoAlloc evs := by
  have hok := hI.hok i _ hi
  cases repr with
  | «static» => simp [uniqueB] at hu
  | owned c => simp [uniqueB] at hu
  | prom vt oc =>
    cases oc with
    | none =>
      obtain ⟨⟨r, hreg', hlive, hsz, hvt⟩, _⟩ := handleOKL_promV.mp hok
      subst hreg'
      rcases OpsC.mutAdvance_from_zero cfg (reg := some r) (len := off + len) (cap := off + len)
          (orig := originalCapacityToRepr (off + len)) (k := off) (by omega) s with
        ⟨hp, hadv⟩ | ⟨hp, hadv⟩
      · exact ⟨.mut none (some r) off (off + len - off) (off + len - off)
            (originalCapacityToRepr (off + len)), s, [],
          by simp [bytesIntoMut, promDecode_eq hlive hvt, mutFromVec, hadv],
          ⟨none, _, _, by rw [Nat.add_sub_cancel_left]⟩, rfl, rfl, NoAlloc_nil⟩
      · refine ⟨.mut (some s.ctrls.length) (some r) off (off + len - off) (off + len - off)
            (originalCapacityToRepr (off + len)),
          { s with ctrls := s.ctrls ++
                     [⟨.sharedV (some r) (off + len) (off + len) (originalCapacityToRepr (off + len)), 1, true⟩],
                   events := .allocCtrl s.ctrls.length :: s.events },
          [.allocCtrl s.ctrls.length],
          by simp [bytesIntoMut, promDecode_eq hlive hvt, mutFromVec, hadv],
          ⟨some _, _, _, by rw [Nat.add_sub_cancel_left]⟩, rfl, rfl, ?_⟩
        intro ev hev r' n'; simp at hev; subst hev; simp
    | some c =>
      obtain ⟨⟨r, cap, h1, h2, h3⟩, _⟩ := handleOKL_promA.mp hok
      rw [OpsC.bytesIntoMut_promA]
      exact sharedToMut_unique hI cfg e hi rfl h1 h2 h3 (by simpa [uniqueB] using hu)
  | shared c =>
    obtain ⟨⟨r, cap, h1, h2, h3⟩, _⟩ := handleOKL_shared.mp hok
    rw [OpsC.bytesIntoMut_shared]
    exact sharedToMut_unique hI cfg e hi rfl h1 h2 h3 (by simpa [uniqueB] using hu)
  | sharedV c =>
    obtain ⟨⟨vlen, vcap, vorig, h1, h3⟩, hrd⟩ := handleOKL_sharedV.mp hok
    obtain ⟨e0, he, hl, hct, hrc, _⟩ := hI.cok' h1
    obtain ⟨ct, rc, lv⟩ := e0
    simp only at hl hct hrc; subst hl hct
    have hrc1 : rc = 1 := by rw [hrc, ← refCount_eq]; simpa [uniqueB] using hu
    subst hrc1
    exact ⟨.mut (some c) reg off len (vcap - off) vorig, s, [],
      by simp [bytesIntoMut, ctrlIsUnique_eq he rfl, getCtrl_eq he rfl],
      ⟨_, _, _, rfl⟩, rfl, rfl, NoAlloc_nil⟩

/-! ## capacity bound -/

theorem mut_cap_le {s : St} (hI : Inv s) {i : Nat} {arc reg : Option Nat} {off len cap orig : Nat}
    (hi : s.hs[i]? = some (some (.mut arc reg off len cap orig))) : len ≤ cap ∧ cap ≤ isizeMax := by
  have hok := hI.hok i _ hi
  have hsz : ∀ r, isHeapLiveL s.regions r = true → regionSizeL s.regions r ≤ isizeMax := by
    intro r hl
    obtain ⟨rg, k, hr, _, _⟩ := isHeapLiveL_iff.mp hl
    have := (region_size_le hI.regs hr).1
    simpa [regionSizeL_def, hr] using this
  cases arc with
  | none =>
    obtain ⟨h1, _, h, _⟩ := handleOKL_mutV.mp hok
    refine ⟨h1, ?_⟩
    cases reg with
    | none => simp only at h; omega
    | some r => simp only at h; have := hsz r h.1; omega
  | some c =>
    obtain ⟨h0, ⟨vlen, vcap, vorig, h1, h2⟩, _⟩ := handleOKL_mutA.mp hok
    refine ⟨h0, ?_⟩
    obtain ⟨_, _, _, _, _, _, hb⟩ := hI.cok' h1
    cases reg with
    | none => simp only [ctrlBufOK] at hb; omega
    | some r => simp only [ctrlBufOK] at hb; have := hsz r hb.1; omega

/-! ## `reserve_inner`, non-allocating branches -/

/-- `ptr::copy(ptr, base, len)` inside the handle's own live heap region: only the region changes -/
theorem copyFront_exec {s : St} (hI : Inv s) {reg : Option Nat} {off len : Nat}
    (hrd : (rdL s.regions reg off len).isSome = true)
    (hheap : ∀ r, reg = some r → isHeapLiveL s.regions r = true ∧ len ≤ regionSizeL s.regions r) :
    ∃ R1, copyWithin reg off 0 len s = .ok () ⟨R1, s.ctrls, s.hs, s.owners, s.events⟩ := by
  by_cases hl0 : len = 0
  · subst hl0; exact ⟨s.regions, copyWithin_zero _ _ _ _⟩
  · obtain ⟨v, hv⟩ := Option.isSome_iff_exists.mp hrd
    have hvl := rdL_length hI.regs hv
    cases reg with
    | none => simp [rdL_none, hl0] at hv
    | some r =>
      obtain ⟨hlive, hsz⟩ := hheap r rfl
      obtain ⟨rg, k, hr, hlv, hkind⟩ := isHeapLiveL_iff.mp hlive
      have hsz' : len ≤ rg.size := by simpa [regionSizeL_def, hr] using hsz
      exact ⟨_, copyWithin_eq hl0 hv hvl hr hlv (by omega : 0 + len ≤ rg.size) hkind⟩

/-- `reserve_inner(n, allocate = false)`: either gives up without any effect, or succeeds in place
(same region, same control blocks, no event) -/
theorem mri_false {s : St} (hI : Inv s) (cfg : Cfg) (e : Env) {i : Nat} {arc reg : Option Nat}
    {off len cap orig : Nat} (hi : s.hs[i]? = some (some (.mut arc reg off len cap orig))) (n : Nat) :
    mutReserveInner cfg e (.mut arc reg off len cap orig) n false s =
        .ok (.mut arc reg off len cap orig, false) s ∨
    ∃ R1 off' cap', mutReserveInner cfg e (.mut arc reg off len cap orig) n false s =
        .ok (.mut arc reg off' len cap' orig, true) ⟨R1, s.ctrls, s.hs, s.owners, s.events⟩ ∧
        n ≤ cap' - len := by
  have hok := hI.hok i _ hi
  obtain ⟨hlc, hcapmax⟩ := mut_cap_le hI hi
  cases arc with
  | none =>
    obtain ⟨_, hoffb, hregc, hrd⟩ := handleOKL_mutV.mp hok
    by_cases hfront : cap - len + off ≥ n ∧ off ≥ len
    · right
      have hW : cap + off < W := by
        have : off ≤ W / 32 - 1 := hoffb
        rw [W_eq] at this ⊢; rw [isizeMax_eq] at hcapmax; omega
      obtain ⟨R1, hcw⟩ := copyFront_exec hI (reg := reg) (off := off) (len := len) hrd (by
        intro r hr; subst hr; simp only at hregc; exact ⟨hregc.1, by omega⟩)
      refine ⟨R1, 0, cap + off, ?_, by omega⟩
      simp only [mutReserveInner, bind_apply, ite_apply', if_pos hfront, hcw, uadd_eq cfg hW,
        pure_apply]
    · left
      simp only [mutReserveInner, bind_apply, ite_apply', if_neg hfront, Bool.not_false, if_true,
        pure_apply]
  | some c =>
    obtain ⟨_, ⟨vlen, vcap, vorig, hlivec, hcap⟩, hrd⟩ := handleOKL_mutA.mp hok
    obtain ⟨ce, he, hl, hct, hrc, hrc1, hbuf⟩ := hI.cok' hlivec
    obtain ⟨ct, rc, live⟩ := ce
    simp only at hl hct hrc hrc1
    subst hl hct
    have hget : getCtrl c s = .ok ⟨.sharedV reg vlen vcap vorig, rc, true⟩ s := getCtrl_eq he rfl
    by_cases hW : len + n ≥ W
    · left
      simp only [mutReserveInner, bind_apply, ite_apply', if_pos hW, Bool.false_eq_true, if_false,
        pure_apply]
    by_cases hu : rc = 1
    · subst hu
      by_cases hin : vcap ≥ min (len + n + off) (W - 1)
      · right
        refine ⟨s.regions, off, len + n, ?_, by omega⟩
        simp only [mutReserveInner, bind_apply, ite_apply', if_neg hW, hget, if_true, if_pos hin,
          pure_apply]
      · by_cases hfr : vcap ≥ len + n ∧ off ≥ len
        · right
          obtain ⟨R1, hcw⟩ := copyFront_exec hI (reg := reg) (off := off) (len := len) hrd (by
            intro r hr; subst hr; simp only [ctrlBufOK] at hbuf; exact ⟨hbuf.1, by omega⟩)
          refine ⟨R1, 0, vcap, ?_, by omega⟩
          simp only [mutReserveInner, bind_apply, ite_apply', if_neg hW, hget, if_true, if_neg hin,
            if_pos hfr, hcw, pure_apply]
        · left
          simp only [mutReserveInner, bind_apply, ite_apply', if_neg hW, hget, if_true, if_neg hin,
            if_neg hfr, Bool.not_false, pure_apply]
    · left
      simp only [mutReserveInner, bind_apply, ite_apply', if_neg hW, hget, if_neg hu, Bool.not_false,
        if_true, pure_apply]

/-- an empty `BytesMut` that is alone on its allocation gets any capacity up to the allocation size
in place, whatever `allocate` says; nothing at all changes in the state -/
theorem mri_whole {s : St} (hI : Inv s) (cfg : Cfg) (e : Env) {i : Nat} {arc : Option Nat}
    {r off cap orig : Nat} (hi : s.hs[i]? = some (some (.mut arc (some r) off 0 cap orig)))
    (hsole : ∀ c, arc = some c → refCount s c = 1) {n : Nat} (hn : n ≤ regionSize s r)
    (allocate : Bool) :
    ∃ h', mutReserveInner cfg e (.mut arc (some r) off 0 cap orig) n allocate s = .ok (h', true) s := by
  have hok := hI.hok i _ hi
  obtain ⟨hlc, hcapmax⟩ := mut_cap_le hI hi
  rw [regionSize_eq] at hn
  cases arc with
  | none =>
    obtain ⟨_, hoffb, hregc, hrd⟩ := handleOKL_mutV.mp hok
    simp only at hregc
    have hfront : cap - 0 + off ≥ n ∧ off ≥ 0 := ⟨by omega, Nat.zero_le _⟩
    have hW : cap + off < W := by
      have : off ≤ W / 32 - 1 := hoffb
      rw [W_eq] at this ⊢; rw [isizeMax_eq] at hcapmax; omega
    exact ⟨.mut none (some r) 0 0 (cap + off) orig, by
      simp only [mutReserveInner, bind_apply, ite_apply', if_pos hfront, copyWithin_zero,
        uadd_eq cfg hW, pure_apply]⟩
  | some c =>
    obtain ⟨_, ⟨vlen, vcap, vorig, hlivec, hcap⟩, hrd⟩ := handleOKL_mutA.mp hok
    obtain ⟨ce, he, hl, hct, hrc, hrc1, hbuf⟩ := hI.cok' hlivec
    obtain ⟨ct, rc, live⟩ := ce
    simp only at hl hct hrc hrc1
    subst hl hct
    have hu : rc = 1 := by rw [hrc, ← refCount_eq]; exact hsole c rfl
    subst hu
    have hget : getCtrl c s = .ok ⟨.sharedV (some r) vlen vcap vorig, 1, true⟩ s := getCtrl_eq he rfl
    simp only [ctrlBufOK] at hbuf
    have hvmax : vcap ≤ isizeMax := by
      obtain ⟨rg, k, hr, _, _⟩ := isHeapLiveL_iff.mp hbuf.1
      have h1 := (region_size_le hI.regs hr).1
      have h2 : rg.size = vcap := by simpa [regionSizeL_def, hr] using hbuf.2
      omega
    have hW : ¬ 0 + n ≥ W := by rw [W_eq]; rw [isizeMax_eq] at hvmax; omega
    by_cases hin : vcap ≥ min (0 + n + off) (W - 1)
    · exact ⟨.mut (some c) (some r) off 0 (0 + n) orig, by
        simp only [mutReserveInner, bind_apply, ite_apply', if_neg hW, hget, if_true,
          if_pos hin, pure_apply]⟩
    · have hfr : vcap ≥ 0 + n ∧ off ≥ 0 := ⟨by omega, Nat.zero_le _⟩
      exact ⟨.mut (some c) (some r) 0 0 vcap orig, by
        simp only [mutReserveInner, bind_apply, ite_apply', if_neg hW, hget, if_true,
          if_neg hin, if_pos hfr, copyWithin_zero, pure_apply]⟩

end PropC08
end BytesVerif.Core
