/-
Pilot operations proved completely on top of Monad / Inv / Prim / Trans / Helpers:
`Op.drop`, `Op.clone`, `Op.splitOff`.  They are meant as templates: see README.md for the recipe.
-/
import BytesVerif.Lemmas.Core.Helpers
set_option linter.unusedVariables false
namespace BytesVerif.Core

/-! ## drop -/

theorem step_drop (cfg : Cfg) (e : Env) (i : Nat) (s : St) (hw : WFx s) :
    StepOKx cfg e (.drop i) s := by
  have hI := hw.inv
  unfold StepOKx
  simp only [step, opDrop, bind_apply, Spec_stepOk_drop]
  rcases getHandle_cases s i with ⟨h, hi, hg⟩ | ⟨hn, hg⟩
  · simp only [hg, killHandle_apply]
    have hok := hI.hok i h hi
    cases h with
    | bytes repr reg off len =>
      simp only [bind_apply, pure_apply]
      cases repr with
      | «static» =>
        simp only [bytesDrop, pure_apply, sat_ok]
        exact drop_plain hI hi rfl rfl
      | owned c =>
        obtain ⟨s', heq, hr⟩ := drop_release hI hi (c := c) rfl
        simp only [bytesDrop, heq, sat_ok]; exact hr
      | shared c =>
        obtain ⟨s', heq, hr⟩ := drop_release hI hi (c := c) rfl
        simp only [bytesDrop, heq, sat_ok]; exact hr
      | sharedV c =>
        obtain ⟨s', heq, hr⟩ := drop_release hI hi (c := c) rfl
        simp only [bytesDrop, heq, sat_ok]; exact hr
      | prom vt oc =>
        cases oc with
        | some c =>
          obtain ⟨s', heq, hr⟩ := drop_release hI hi (c := c) rfl
          simp only [bytesDrop, heq, sat_ok]; exact hr
        | none =>
          obtain ⟨⟨r, hreg, hlive, hsz, hvt⟩, _⟩ := handleOKL_promV.mp hok
          subst hreg
          obtain ⟨s', heq, hr⟩ := drop_direct hI hi (r := r) rfl hsz.symm
          simp only [bytesDrop, bind_apply,
            promDecode_eq (s := { s with hs := s.hs.set i none }) hlive hvt, heq, sat_ok]
          exact hr
    | «mut» arc reg off len cap orig =>
      simp only [bind_apply, pure_apply]
      cases arc with
      | some c =>
        obtain ⟨s', heq, hr⟩ := drop_release hI hi (c := c) rfl
        simp only [mutDrop, heq, sat_ok]; exact hr
      | none =>
        obtain ⟨_, _, hreg, _⟩ := handleOKL_mutV.mp hok
        cases reg with
        | none =>
          simp only at hreg
          simp only [mutDrop, hreg, vecFree_none, sat_ok]
          exact drop_plain hI hi rfl rfl
        | some r =>
          simp only at hreg
          have h0 : off + cap ≠ 0 := by rw [hreg.2]; exact heap_size_pos hI.regs hreg.1
          obtain ⟨s', heq, hr⟩ := drop_direct hI hi (r := r) rfl hreg.2.symm
          simp only [mutDrop, vecFree, h0, if_false, heq, sat_ok]; exact hr
    | vec reg len cap =>
      simp only [bind_apply, pure_apply]
      obtain ⟨_, hreg, _⟩ := handleOKL_vec.mp hok
      cases reg with
      | none =>
        simp only at hreg
        simp only [hreg, vecFree_none, sat_ok]
        exact drop_plain hI hi rfl rfl
      | some r =>
        simp only at hreg
        have h0 : cap ≠ 0 := by rw [hreg.2]; exact heap_size_pos hI.regs hreg.1
        obtain ⟨s', heq, hr⟩ := drop_direct hI hi (r := r) rfl hreg.2.symm
        simp only [vecFree, h0, if_false, heq, sat_ok]; exact hr
  · simp only [hg, sat_panic]
    exact ⟨hw, rfl⟩

/-! ## clone -/

theorem Spec_stepOk_clone {a : Spec.St} {i : Nat} {x : SH} (h : Spec.get a i = some x) (v : Val) :
    Spec.stepOk (.clone i) v a = a ++ [some x] := by
  simp [Spec.stepOk, h]

/-- `abs` after "replace slot `i`, append one handle" when no region changed -/

theorem step_clone (cfg : Cfg) (e : Env) (i : Nat) (s : St) (hw : WFx s) :
    StepOKx cfg e (.clone i) s := by
  have hI := hw.inv
  unfold StepOKx
  simp only [step, bind_apply]
  rcases getHandle_cases s i with ⟨h, hi, hg⟩ | ⟨hn, hg⟩
  · simp only [hg]
    obtain ⟨v, hv, hvl, hrd⟩ := readRange_view hI hi
    have hspec : ∀ x, Spec.stepOk (.clone i) x (abs s) = absL s.regions s.hs ++ [some ⟨kindOf h, v⟩] := by
      intro x; rw [abs_eq]; exact Spec_stepOk_clone (Spec_get_absL hi hv) x
    simp only [hspec]
    cases h with
    | bytes repr reg off len =>
      obtain ⟨repr', crepr, C', ev, heq, hk⟩ := bytesClone_spec hI hi
      simp only [bind_apply, heq, newHandle_apply, pure_apply, sat_ok]
      refine finish_ok (hk off len off len _ (BSub.refl _ _) (BSub.refl _ _)) ?_
      have hv' : ∀ rp, viewOfL s.regions (.bytes rp reg off len) = some v := fun rp => hv
      rw [absL_set_push (hv' repr') (hv' crepr)]
      have := set_self (absL_lookup hi hv)
      simp only [kindOf] at this ⊢
      rw [this]
    | «mut» arc reg off len cap orig =>
      simp only [hreg, hoff, hlen] at hrd hvl
      simp only [bind_apply, hrd, newHandle_apply, pure_apply]
      rcases push_vec_spec hI e v len (by omega) (fun r => mutFromVec r len len)
          (.inr ⟨originalCapacityToRepr len, fun r => by simp [mutFromVec, hvl]⟩) with hp | ⟨r, s1, heq, hk, hhs, hview, hnew⟩
      · simp only [hp, sat_panic]; exact ⟨hw, by rw [abs_eq]; rfl⟩
      · simp only [heq, sat_ok]
        refine finish_ok (hk _) ?_
        simp only [hhs]
        rw [absL_push_of_view _ hview, hnew]
        simp [kindOf, mutFromVec]
    | vec reg len cap =>
      simp only [hreg, hoff, hlen] at hrd hvl
      simp only [bind_apply, hrd, newHandle_apply, pure_apply]
      rcases push_vec_spec hI e v len (by omega) (fun r => .vec r len len)
          (.inl (fun r => by simp [hvl])) with hp | ⟨r, s1, heq, hk, hhs, hview, hnew⟩
      · simp only [hp, sat_panic]; exact ⟨hw, by rw [abs_eq]; rfl⟩
      · simp only [heq, sat_ok]
        refine finish_ok (hk _) ?_
        simp only [hhs]
        rw [absL_push_of_view _ hview, hnew]
        simp [kindOf]
  · simp only [hg, sat_panic]
    exact ⟨hw, rfl⟩


/-! ## splitOff -/

theorem Spec_stepOk_splitOff {a : Spec.St} {i : Nat} {x : SH} (h : Spec.get a i = some x) (k : Nat)
    (v : Val) :
    Spec.stepOk (.splitOff i k) v a =
      a.set i (some ⟨x.kind, x.val.take k⟩) ++ [some ⟨x.kind, x.val.drop k⟩] := by
  simp [Spec.stepOk, h, Spec.setAt]

theorem step_splitOff (cfg : Cfg) (e : Env) (i k : Nat) (s : St) (hw : WFx s) :
    StepOKx cfg e (.splitOff i k) s := by
  have hI := hw.inv
  unfold StepOKx
  simp only [step, opSplitOff, bind_apply]
  have hpanic : WFx s ∧ abs s = Spec.stepPanic (.splitOff i k) (abs s) := ⟨hw, rfl⟩
  rcases getHandle_cases s i with ⟨h, hi, hg⟩ | ⟨hn, hg⟩
  · simp only [hg]
    obtain ⟨v, hv, hvl⟩ := hI.view hi
    have hspec : ∀ x, Spec.stepOk (.splitOff i k) x (abs s) =
        (absL s.regions s.hs).set i (some ⟨kindOf h, v.take k⟩) ++ [some ⟨kindOf h, v.drop k⟩] := by
      intro x; rw [abs_eq]; exact Spec_stepOk_splitOff (Spec_get_absL hi hv) k x
    simp only [hspec]
    cases h with
    | bytes repr reg off len =>
      simp only [viewOfL, hreg, hoff, hlen] at hv hvl
      simp only [bind_apply, bytesSplitOffCore, hg, kindOf]
      by_cases hk1 : k = len
      · -- the tail is empty: `new_empty_with_ptr`
        subst hk1
        simp only [if_true, pure_apply, newHandle_apply, sat_ok, emptyWithPtr]
        refine finish_ok (Inv_push_plain_nospan hI rfl rfl
          (handleOKL_static.mpr (by simp [rdL_zero])) (by cases reg <;> simp [statOK])
          (by intro r o l h; cases reg <;> simp [span] at h; omega) _) ?_
        have hself := set_self (absL_lookup hi (v := v) (by simpa [viewOfL, hreg, hoff, hlen] using hv))
        simp only [kindOf] at hself
        simp only [absL_push, viewOfL, hreg, hoff, hlen, rdL_zero, kindOf, Option.map_some]
        rw [List.take_of_length_le (by omega), List.drop_of_length_le (by omega), hself]
      · simp only [hk1, if_false]
        by_cases hk0 : k = 0
        · -- everything moves to the new handle, `self` becomes empty
          subst hk0
          simp only [if_true, bind_apply, setHandle_apply, pure_apply, newHandle_apply, sat_ok,
            emptyWithPtr]
          have hok := hI.hok i _ hi
          refine finish_ok (Inv_set_push_plain hI hi (h1 := .bytes .static reg off 0)
            (h2 := .bytes repr reg off len) (by intro c; simp [ctrlOf]) (by intro r; simp [directRegion])
            (handleOKL_static.mpr (by simp [rdL_zero])) hok (by cases reg <;> simp [statOK])
            (hI.statOK hi) (spanSub_bytes ⟨Nat.le_refl _, by omega⟩) (spanSub_refl _)
            (by simp [isMutable]) (by simp [isMutable]) (by simp [isMutable]) (by simp [isMutable]) _) ?_
          rw [absL_set_push (v1 := []) (v2 := v) (by simp [viewOfL, hreg, hoff, hlen, rdL_zero])
            (by simpa [viewOfL, hreg, hoff, hlen] using hv)]
          simp [kindOf]
        · simp only [hk0, if_false]
          by_cases hk2 : k > len
          · simp only [hk2, if_true, panic_apply, sat_panic]; exact hpanic
          · simp only [hk2, if_false, bind_apply]
            obtain ⟨repr', crepr, C', ev, heq, hk⟩ := bytesClone_spec hI hi
            have hlt : i < s.hs.length := lookup_lt hi
            have hg' : getHandle i ⟨s.regions, C', s.hs.set i (some (.bytes repr' reg off len)), s.owners, ev⟩
                = .ok (.bytes repr' reg off len) _ :=
              getHandle_eq (by simp [hlt])
            simp only [heq, hg', bind_apply, setHandle_apply, pure_apply, newHandle_apply, sat_ok,
              List.set_set]
            have b1 : BSub off len off k := ⟨Nat.le_refl _, by omega⟩
            have b2 : BSub off len (off + k) (len - k) := ⟨by omega, by omega⟩
            refine finish_ok (hk off k (off + k) (len - k) _ b1 b2) ?_
            have hv1 : ∀ rp, viewOfL s.regions (.bytes rp reg off k) = some (v.take k) := by
              intro rp
              have := rdL_take hv k
              rwa [Nat.min_eq_right (by omega)] at this
            have hv2 : ∀ rp, viewOfL s.regions (.bytes rp reg (off + k) (len - k)) = some (v.drop k) :=
              fun rp => rdL_drop hv k
            rw [absL_set_push (hv1 repr') (hv2 crepr)]
            simp [kindOf]
    | «mut» arc reg off len cap orig =>
      simp only [viewOfL, hreg, hoff, hlen] at hv hvl
      simp only [kindOf]
      by_cases hkc : k > cap
      · simp only [hkc, if_true, panic_apply, sat_panic]; exact hpanic
      · simp only [hkc, if_false, bind_apply]
        obtain ⟨c, C', ev, heq, hk⟩ := mutShallowClone_spec hI hi
        have hlc : len ≤ cap := by
          have hok := hI.hok i _ hi
          cases arc with
          | none => exact (handleOKL_mutV.mp hok).1
          | some c' => exact (handleOKL_mutA.mp hok).1
        simp only [heq, mutAdvanceUnchecked_arc cfg (show k ≤ cap by omega), bind_apply, setHandle_apply,
          newHandle_apply, pure_apply, sat_ok]
        have m1 : MSub off len cap off (min len k) k :=
          ⟨Nat.le_refl _, by omega, Nat.min_le_right _ _, .inr (by have := Nat.min_le_left len k; omega)⟩
        have m2 : MSub off len cap (off + k) (len - k) (cap - k) :=
          ⟨by omega, by omega, by omega, by omega⟩
        refine finish_ok (hk off (min len k) k (off + k) (len - k) (cap - k) _ m1 m2 (.inl (Nat.le_refl _))) ?_
        have hv1 : viewOfL s.regions (.mut (some c) reg off (min len k) k orig) = some (v.take k) :=
          rdL_take hv k
        have hv2 : viewOfL s.regions (.mut (some c) reg (off + k) (len - k) (cap - k) orig) = some (v.drop k) :=
          rdL_drop hv k
        rw [absL_set_push hv1 hv2]
        simp [kindOf]
    | vec reg len cap =>
      simp only [panic_apply, sat_panic]; exact hpanic
  · simp only [hg, sat_panic]; exact hpanic


end BytesVerif.Core
