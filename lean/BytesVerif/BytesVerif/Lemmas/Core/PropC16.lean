/-
Helper lemmas for Props/C16.lean: the build profile (`Cfg`) and the address parity (`Env.odd`) cannot
be observed.
-/
import BytesVerif.Lemmas.Core.Sound
namespace BytesVerif.Core.P16
open BytesVerif.Core

/-! # Part 1: `cfg` is irrelevant -/

/-- congruence for `>>=` at one state: the continuations need to agree only on what `m` returns -/
theorem bind_congr_at {α β : Type} {m : M α} {k k' : α → M β} {s : St}
    (h : ∀ a s', m s = .ok a s' → k a s' = k' a s') : (m >>= k) s = (m >>= k') s := by
  simp only [bind_apply]
  cases hm : m s with
  | ok a s' => exact h a s' hm
  | panic s' => rfl
  | ub w s' => rfl

theorem getHandle_ok {i : Nat} {s s' : St} {h : Handle} (hg : getHandle i s = .ok h s') :
    s' = s ∧ s.hs[i]? = some (some h) := by
  unfold getHandle at hg
  split at hg
  · next h' heq => cases hg; exact ⟨rfl, heq⟩
  · cases hg

theorem getCtrl_ok {c : Nat} {s s' : St} {e : CtrlE} (hg : getCtrl c s = .ok e s') :
    s' = s ∧ s.ctrls[c]? = some e ∧ e.live = true := by
  unfold getCtrl at hg
  split at hg
  · next e' heq =>
    split at hg
    · next hl => cases hg; exact ⟨rfl, heq, hl⟩
    · cases hg
  · cases hg

theorem mutAdvanceUnchecked_cfg (c₁ c₂ : Cfg) {arc reg : Option Nat} {off len cap orig count : Nat}
    (h : count ≤ cap) :
    mutAdvanceUnchecked c₁ (.mut arc reg off len cap orig) count =
      mutAdvanceUnchecked c₂ (.mut arc reg off len cap orig) count := by
  have hd : ∀ c : Cfg, dassert c (decide (count ≤ cap)) = pure () := by
    intro c; simp [dassert, h]
  have hu : ∀ c : Cfg, usub c cap count = pure (cap - count) := by
    intro c; simp [usub, h]
  simp only [mutAdvanceUnchecked, hd, hu]

theorem mutShallowClone_shape {arc reg : Option Nat} {off len cap orig : Nat} {s s' : St}
    {a b : Handle} (h : mutShallowClone (.mut arc reg off len cap orig) s = .ok (a, b) s') :
    ∃ arc', a = .mut arc' reg off len cap orig ∧ b = .mut arc' reg off len cap orig := by
  cases arc with
  | none =>
    simp only [mutShallowClone, mutPromote, bind_apply, newCtrl_apply, pure_apply] at h
    cases h; exact ⟨_, rfl, rfl⟩
  | some c =>
    simp only [mutShallowClone, bind_apply, pure_apply] at h
    cases hi : incCtrl c s with
    | ok u s1 => rw [hi] at h; cases h; exact ⟨_, rfl, rfl⟩
    | panic s1 => rw [hi] at h; cases h
    | ub w s1 => rw [hi] at h; cases h

theorem opSplitOff_cfg (c₁ c₂ : Cfg) (i k : Nat) (s : St) :
    opSplitOff c₁ i k s = opSplitOff c₂ i k s := by
  unfold opSplitOff
  apply bind_congr_at; intro h s' _
  cases h with
  | bytes repr reg off len => rfl
  | vec reg len cap => rfl
  | «mut» arc reg off len cap orig =>
    by_cases hk : k > cap
    · simp only [hk, if_true]
    · simp only [hk, if_false]
      apply bind_congr_at; rintro ⟨a, b⟩ s'' hm
      obtain ⟨arc', rfl, rfl⟩ := mutShallowClone_shape hm
      simp only [mutAdvanceUnchecked_cfg c₁ c₂ (Nat.le_of_not_gt hk)]

theorem opSplitTo_cfg (c₁ c₂ : Cfg) (i k : Nat) (s : St) (hI : Inv s) :
    opSplitTo c₁ i k s = opSplitTo c₂ i k s := by
  unfold opSplitTo
  apply bind_congr_at; intro h s' hg
  obtain ⟨rfl, hi⟩ := getHandle_ok hg
  cases h with
  | bytes repr reg off len => rfl
  | vec reg len cap => rfl
  | «mut» arc reg off len cap orig =>
    have hlc : len ≤ cap := by
      have hok := hI.hok i _ hi
      cases arc with
      | none => exact (handleOKL_mutV.mp hok).1
      | some c => exact (handleOKL_mutA.mp hok).1
    by_cases hk : k > len
    · simp only [hk, if_true]
    · simp only [hk, if_false]
      apply bind_congr_at; rintro ⟨a, b⟩ s'' hm
      obtain ⟨arc', rfl, rfl⟩ := mutShallowClone_shape hm
      simp only [mutAdvanceUnchecked_cfg c₁ c₂ (Nat.le_trans (Nat.le_of_not_gt hk) hlc)]

theorem ctrlIsUnique_ok {c : Nat} {s s' : St} {u : Bool} (h : ctrlIsUnique c s = .ok u s') :
    s' = s := by
  simp only [ctrlIsUnique, bind_apply, pure_apply] at h
  cases hg : getCtrl c s with
  | ok e s1 => rw [hg] at h; cases h; exact (getCtrl_ok hg).1
  | panic s1 => rw [hg] at h; cases h
  | ub w s1 => rw [hg] at h; cases h

theorem takeSharedB_ok {c : Nat} {s s' : St} {r cap : Nat} (h : takeSharedB c s = .ok (r, cap) s') :
    liveCtrlL s.ctrls c = some (.sharedB r cap) := by
  simp only [takeSharedB, bind_apply] at h
  cases hg : getCtrl c s with
  | ok e s1 =>
    rw [hg] at h
    obtain ⟨rfl, hc, hl⟩ := getCtrl_ok hg
    obtain ⟨ct, rc, live⟩ := e
    cases ct with
    | sharedB r' cap' =>
      simp only [bind_apply, setCtrl_apply, pure_apply] at h
      split at h
      · next heq => cases h; rw [liveCtrlL_of hc hl]
      · cases h
      · cases h
    | sharedV a b c d => simp at h
    | owned o => simp at h
  | panic s1 => rw [hg] at h; cases h
  | ub w s1 => rw [hg] at h; cases h

theorem bytesIntoMut_cfg (c₁ c₂ : Cfg) (e : Env) (h : Handle) (s : St)
    (hok : handleOKL s.regions s.ctrls h = true) :
    bytesIntoMut c₁ e h s = bytesIntoMut c₂ e h s := by
  cases h with
  | vec reg len cap => rfl
  | «mut» arc reg off len cap orig => rfl
  | bytes repr reg off len =>
    have key : ∀ c : Nat,
        (∃ r cap, liveCtrlL s.ctrls c = some (.sharedB r cap) ∧ reg = some r ∧ off + len ≤ cap) →
        (do let u ← ctrlIsUnique c
            if u then do
              let (r, cap) ← takeSharedB c
              mutAdvanceUnchecked c₁ (mutFromVec (some r) (len + off) cap) off
            else do
              let v ← toVecCopy e reg off len
              releaseCtrl c
              match v with
              | .vec r l cp => pure (mutFromVec r l cp)
              | _ => panic : M Handle) s =
        (do let u ← ctrlIsUnique c
            if u then do
              let (r, cap) ← takeSharedB c
              mutAdvanceUnchecked c₂ (mutFromVec (some r) (len + off) cap) off
            else do
              let v ← toVecCopy e reg off len
              releaseCtrl c
              match v with
              | .vec r l cp => pure (mutFromVec r l cp)
              | _ => panic : M Handle) s := by
      rintro c ⟨r, cap, hc, _, hle⟩
      apply bind_congr_at; intro u s' hu
      obtain rfl := ctrlIsUnique_ok hu
      cases u with
      | false => rfl
      | true =>
        simp only [if_true]
        apply bind_congr_at; rintro ⟨r', cap'⟩ s'' ht
        have := takeSharedB_ok ht
        rw [hc] at this; cases this
        simp only [mutFromVec]
        rw [mutAdvanceUnchecked_cfg c₁ c₂ (by omega)]
    cases repr with
    | static => rfl
    | owned c => rfl
    | sharedV c => rfl
    | shared c =>
      simp only [bytesIntoMut]
      exact key c (handleOKL_shared.mp hok).1
    | prom vt oc =>
      cases oc with
      | none =>
        simp only [bytesIntoMut, mutFromVec]
        rw [mutAdvanceUnchecked_cfg c₁ c₂ (by omega)]
      | some c =>
        simp only [bytesIntoMut]
        exact key c (handleOKL_promA.mp hok).1

theorem mutReserveInner_cfg (c₁ c₂ : Cfg) (e : Env) (h : Handle) (add : Nat) (al : Bool) (s : St)
    (hI : ∀ (r : Nat) (rg : Region), s.regions[r]? = some rg → regionOKB rg = true) (hok : handleOKL s.regions s.ctrls h = true) :
    mutReserveInner c₁ e h add al s = mutReserveInner c₂ e h add al s := by
  cases h with
  | vec reg len cap => rfl
  | bytes repr reg off len => rfl
  | «mut» arc reg off len cap orig =>
    cases arc with
    | none =>
      obtain ⟨_, _, hreg, _⟩ := handleOKL_mutV.mp hok
      have hlt : cap + off < W := by
        cases reg with
        | none => simp only at hreg; rw [W_eq]; omega
        | some r =>
          simp only at hreg
          obtain ⟨rg, o, hr, _, _⟩ := isHeapLiveL_iff.mp hreg.1
          have h1 := (region_size_le hI hr).1
          have h2 : regionSizeL s.regions r = rg.size := by simp [regionSizeL_def, hr]
          rw [W_eq]; rw [isizeMax_eq] at h1; omega
      have hu : ∀ c : Cfg, uadd c cap off = pure (cap + off) := by
        intro c; simp [uadd, hlt]
      simp only [mutReserveInner, hu]
    | some c =>
      obtain ⟨hlc, ⟨vlen, vcap, vorig, hc, hle⟩, _⟩ := handleOKL_mutA.mp hok
      simp only [mutReserveInner]
      by_cases hW : len + add ≥ W
      · simp only [hW, if_true]
      · simp only [hW, if_false]
        apply bind_congr_at; intro ce s' hg
        obtain ⟨rfl, hce, hl⟩ := getCtrl_ok hg
        obtain ⟨ct, rc, live⟩ := ce
        have : ct = .sharedV reg vlen vcap vorig := by
          have := liveCtrlL_of hce hl
          rw [hc] at this; cases this; rfl
        subst this
        have hd : ∀ cf : Cfg, dassert cf (decide (off + len ≤ vcap)) = pure () := by
          intro cf; simp [dassert]; intro _; omega
        simp only [hd]

theorem mutReserve_cfg (c₁ c₂ : Cfg) (e : Env) (h : Handle) (add : Nat) (s : St)
    (hI : ∀ (r : Nat) (rg : Region), s.regions[r]? = some rg → regionOKB rg = true) (hok : handleOKL s.regions s.ctrls h = true) :
    mutReserve c₁ e h add s = mutReserve c₂ e h add s := by
  cases h with
  | vec reg len cap => rfl
  | bytes repr reg off len => rfl
  | «mut» arc reg off len cap orig =>
    simp only [mutReserve]
    by_cases ha : add ≤ cap - len
    · simp only [ha, if_true]
    · simp only [ha, if_false, bind_apply, mutReserveInner_cfg c₁ c₂ e _ add true s hI hok]

theorem bind_congr_both {α β : Type} {m m' : M α} {k k' : α → M β} {s : St}
    (hm : m s = m' s) (h : ∀ a s', m s = .ok a s' → k a s' = k' a s') :
    (m >>= k) s = (m' >>= k') s := by
  simp only [bind_apply, ← hm]
  cases hm' : m s with
  | ok a s' => exact h a s' hm'
  | panic s' => rfl
  | ub w s' => rfl

theorem mutExtend_cfg (c₁ c₂ : Cfg) (e : Env) (h : Handle) (bs : List Byte) (s : St)
    (hI : ∀ (r : Nat) (rg : Region), s.regions[r]? = some rg → regionOKB rg = true) (hok : handleOKL s.regions s.ctrls h = true) :
    mutExtend c₁ e h bs s = mutExtend c₂ e h bs s := by
  unfold mutExtend
  apply bind_congr_both (mutReserve_cfg c₁ c₂ e h bs.length s hI hok)
  intro h' s' _
  cases h' with
  | vec reg len cap => rfl
  | bytes repr reg off len => rfl
  | «mut» arc reg off len cap orig =>
    simp only
    by_cases hlt : cap - len < bs.length
    · simp only [hlt, if_true]
    · have hd : ∀ cf : Cfg, dassert cf (decide (cap - len ≥ bs.length)) = pure () := by
        intro cf; simp [dassert]; intro _; omega
      simp only [hlt, if_false, hd]

/-- the build profile cannot be observed from a well-formed state -/
theorem step_cfg (c₁ c₂ : Cfg) (e : Env) (op : Op) (s : St) (hI : Inv s) :
    step c₁ e op s = step c₂ e op s := by
  cases op with
  | fromStatic bs => rfl
  | newVec bs cap => rfl
  | fromVec v => rfl
  | copyFromSlice bs => rfl
  | fromOwner bs p => rfl
  | mutWithCapacity cap => rfl
  | mutFromSlice bs => rfl
  | mutZeroed n => rfl
  | clone i => rfl
  | slice i lo hi => rfl
  | truncate i n => rfl
  | clear i => rfl
  | isUnique i => rfl
  | intoVec i => rfl
  | freeze i => rfl
  | setByte i k b => rfl
  | fillSpare i b => rfl
  | drop i => rfl
  | splitOff i k => exact opSplitOff_cfg c₁ c₂ i k s
  | splitTo i k => exact opSplitTo_cfg c₁ c₂ i k s hI
  | split i =>
    simp only [step]
    apply bind_congr_at; intro h s' hg
    obtain ⟨rfl, hi⟩ := getHandle_ok hg
    cases h with
    | vec reg len cap => rfl
    | bytes repr reg off len => rfl
    | «mut» arc reg off len cap orig => exact opSplitTo_cfg c₁ c₂ i len s' hI
  | advance i n =>
    simp only [step]
    apply bind_congr_at; intro h s' hg
    obtain ⟨rfl, hi⟩ := getHandle_ok hg
    cases h with
    | vec reg len cap => rfl
    | bytes repr reg off len => rfl
    | «mut» arc reg off len cap orig =>
      have hlc : len ≤ cap := by
        have hok := hI.hok i _ hi
        cases arc with
        | none => exact (handleOKL_mutV.mp hok).1
        | some c => exact (handleOKL_mutA.mp hok).1
      by_cases hn : n > len
      · simp only [hn, if_true]
      · simp only [hn, if_false]
        rw [mutAdvanceUnchecked_cfg c₁ c₂ (by omega)]
  | tryIntoMut i =>
    simp only [step]
    apply bind_congr_at; intro h s' hg
    obtain ⟨rfl, hi⟩ := getHandle_ok hg
    apply bind_congr_at; intro u s'' hu
    have : s'' = s' := by
      cases h with
      | vec reg len cap => simp [bytesIsUnique] at hu
      | «mut» arc reg off len cap orig => simp [bytesIsUnique] at hu
      | bytes repr reg off len =>
        cases repr with
        | static => simp [bytesIsUnique] at hu; exact hu.2.symm
        | owned c => simp [bytesIsUnique] at hu; exact hu.2.symm
        | shared c => exact ctrlIsUnique_ok hu
        | sharedV c => exact ctrlIsUnique_ok hu
        | prom vt oc =>
          cases oc with
          | none => simp [bytesIsUnique] at hu; exact hu.2.symm
          | some c => exact ctrlIsUnique_ok hu
    subst this
    cases u with
    | false => rfl
    | true =>
      simp only [if_true, bind_apply, bytesIntoMut_cfg c₁ c₂ e h s'' (hI.hok i h hi)]
  | intoMut i =>
    simp only [step]
    apply bind_congr_at; intro h s' hg
    obtain ⟨rfl, hi⟩ := getHandle_ok hg
    cases h with
    | vec reg len cap => rfl
    | «mut» arc reg off len cap orig => rfl
    | bytes repr reg off len =>
      simp only [bind_apply, bytesIntoMut_cfg c₁ c₂ e _ s' (hI.hok i _ hi)]
  | reserve i n =>
    simp only [step]
    apply bind_congr_at; intro h s' hg
    obtain ⟨rfl, hi⟩ := getHandle_ok hg
    simp only [bind_apply, mutReserve_cfg c₁ c₂ e h n s' hI.regs (hI.hok i h hi)]
  | tryReclaim i n =>
    simp only [step]
    apply bind_congr_at; intro h s' hg
    obtain ⟨rfl, hi⟩ := getHandle_ok hg
    cases h with
    | vec reg len cap => rfl
    | bytes repr reg off len => rfl
    | «mut» arc reg off len cap orig =>
      by_cases hn : n ≤ cap - len
      · simp only [hn, if_true]
      · simp only [hn, if_false, bind_apply,
          mutReserveInner_cfg c₁ c₂ e _ n false s' hI.regs (hI.hok i _ hi)]
  | extend i bs =>
    simp only [step]
    apply bind_congr_at; intro h s' hg
    obtain ⟨rfl, hi⟩ := getHandle_ok hg
    simp only [bind_apply, mutExtend_cfg c₁ c₂ e h bs s' hI.regs (hI.hok i h hi)]
  | resize i n b =>
    simp only [step]
    apply bind_congr_at; intro h s' hg
    obtain ⟨rfl, hi⟩ := getHandle_ok hg
    cases h with
    | vec reg len cap => rfl
    | bytes repr reg off len => rfl
    | «mut» arc reg off len cap orig =>
      by_cases hn : n ≤ len
      · simp only [hn, if_true]
      · simp only [hn, if_false, bind_apply,
          mutReserve_cfg c₁ c₂ e _ (n - len) s' hI.regs (hI.hok i _ hi)]
  | unsplit i j =>
    simp only [step]
    by_cases hij : i = j
    · simp only [hij, if_true]
    · simp only [hij, if_false]
      apply bind_congr_at; intro h s' hg
      obtain ⟨rfl, hi⟩ := getHandle_ok hg
      apply bind_congr_at; intro o s'' hg'
      obtain ⟨rfl, hj⟩ := getHandle_ok hg'
      cases h with
      | vec reg len cap => rfl
      | bytes repr reg off len => rfl
      | «mut» arc reg off len cap orig =>
        cases o with
        | vec reg len cap => rfl
        | bytes repr reg off len => rfl
        | «mut» oarc oreg ooff olen ocap oorig =>
          simp only
          split
          · rfl
          · split
            · rfl
            · split
              · rfl
              · apply bind_congr_at; intro bs s1 hr
                have hs1 : s1 = s'' := by
                  have := readRange_eq s'' oreg ooff olen
                  rw [hr] at this
                  rcases this with ⟨b, _, h⟩ | ⟨_, w, h⟩ <;> cases h
                  rfl
                subst hs1
                simp only [bind_apply, killHandle_apply]
                rw [mutExtend_cfg c₁ c₂ e _ bs
                  { regions := s1.regions, ctrls := s1.ctrls, hs := s1.hs.set j none,
                    owners := s1.owners, events := s1.events } hI.regs (hI.hok i _ hi)]

/-! # Part 2: address parity is irrelevant -/

/-- forget address parity: all heap regions even, all promotable handles on the EVEN vtable
(copies of the definitions of Props/C16.lean, which imports this file) -/
def eraseRegion (rg : Region) : Region :=
  match rg.kind with
  | .heap _ => { rg with kind := .heap false }
  | _ => rg

def eraseHandle : Handle → Handle
  | .bytes (.prom _ c) reg off len => .bytes (.prom false c) reg off len
  | h => h

def erase (s : St) : St :=
  { s with regions := s.regions.map eraseRegion, hs := s.hs.map (Option.map eraseHandle) }

def evenEnv : Env := ⟨fun _ => false⟩

/-- how a returned value is related in the two runs -/
class Er (α : Type) where
  er : α → α
export Er (er)

/-- identity, as a plain (non-reducible) definition: keeps `er x` from being unfolded by `simp`'s
indexing and by reducible unification -/
def erId {α : Type} (a : α) : α := a
instance : Er Handle := ⟨eraseHandle⟩
instance : Er Nat := ⟨erId⟩
instance : Er Bool := ⟨erId⟩
instance : Er Unit := ⟨erId⟩
instance : Er Val := ⟨erId⟩
instance : Er CtrlE := ⟨erId⟩
instance : Er (Option Nat) := ⟨erId⟩
instance : Er (List Nat) := ⟨erId⟩
instance : Er (List (Option Nat)) := ⟨erId⟩
def erHH (p : Handle × Handle) : Handle × Handle := (eraseHandle p.1, eraseHandle p.2)
def erHB (p : Handle × Bool) : Handle × Bool := (eraseHandle p.1, p.2)
instance : Er (Handle × Handle) := ⟨erHH⟩
instance : Er (Handle × Bool) := ⟨erHB⟩
instance : Er (Option Nat × Nat) := ⟨erId⟩
instance : Er (Nat × Nat) := ⟨erId⟩
instance : Er Region := ⟨eraseRegion⟩
instance : Er St := ⟨erase⟩

@[simp] theorem er_nat (n : Nat) : er n = n := rfl
@[simp] theorem er_bool (b : Bool) : er b = b := rfl
@[simp] theorem er_unit (u : Unit) : er u = u := rfl
@[simp] theorem er_val (v : Val) : er v = v := rfl
@[simp] theorem er_ctrlE (e : CtrlE) : er e = e := rfl
@[simp] theorem er_optNat (o : Option Nat) : er o = o := rfl
@[simp] theorem er_listNat (l : List Nat) : er l = l := rfl
@[simp] theorem er_listOptNat (l : List (Option Nat)) : er l = l := rfl
@[simp] theorem er_pairHH (a b : Handle) : er (a, b) = (er a, er b) := rfl
@[simp] theorem er_pairHB (a : Handle) (b : Bool) : er (a, b) = (er a, b) := rfl
@[simp] theorem er_pairON (p : Option Nat × Nat) : er p = p := rfl
@[simp] theorem er_pairNN (p : Nat × Nat) : er p = p := rfl
@[simp] theorem er_region (rg : Region) : er rg = eraseRegion rg := rfl
@[simp] theorem er_st (s : St) : er s = erase s := rfl

/-- types on which `er` is the identity -/
class ErId (α : Type) [Er α] : Prop where
  er_id : ∀ a : α, er a = a
instance : ErId Nat := ⟨fun _ => rfl⟩
instance : ErId Bool := ⟨fun _ => rfl⟩
instance : ErId Unit := ⟨fun _ => rfl⟩
instance : ErId Val := ⟨fun _ => rfl⟩
instance : ErId CtrlE := ⟨fun _ => rfl⟩
instance : ErId (Option Nat) := ⟨fun _ => rfl⟩
instance : ErId (List Nat) := ⟨fun _ => rfl⟩
instance : ErId (List (Option Nat)) := ⟨fun _ => rfl⟩
instance : ErId (Option Nat × Nat) := ⟨fun _ => rfl⟩
instance : ErId (Nat × Nat) := ⟨fun _ => rfl⟩

@[simp] theorem er_handle_mut (arc reg off len cap orig) :
    er (Handle.mut arc reg off len cap orig) = Handle.mut arc reg off len cap orig := rfl
@[simp] theorem er_handle_vec (reg len cap) : er (Handle.vec reg len cap) = Handle.vec reg len cap := rfl

def eraseRepr : BRepr → BRepr
  | .prom _ c => .prom false c
  | r => r
@[simp] theorem eraseRepr_static : eraseRepr .static = .static := rfl
@[simp] theorem eraseRepr_owned (c) : eraseRepr (.owned c) = .owned c := rfl
@[simp] theorem eraseRepr_shared (c) : eraseRepr (.shared c) = .shared c := rfl
@[simp] theorem eraseRepr_sharedV (c) : eraseRepr (.sharedV c) = .sharedV c := rfl
@[simp] theorem eraseRepr_prom (vt c) : eraseRepr (.prom vt c) = .prom false c := rfl
theorem er_handle_bytes (repr reg off len) :
    er (Handle.bytes repr reg off len) = Handle.bytes (eraseRepr repr) reg off len := by
  cases repr <;> rfl

def eraseR {α : Type} [Er α] : R α → R α
  | .ok a s => .ok (er a) (erase s)
  | .panic s => .panic (erase s)
  | .ub w s => .ub w (erase s)

@[simp] theorem eraseR_ok {α : Type} [Er α] (a : α) (s : St) : eraseR (.ok a s) = .ok (er a) (erase s) := rfl
@[simp] theorem eraseR_panic {α : Type} [Er α] (s : St) : eraseR (.panic s : R α) = .panic (erase s) := rfl
@[simp] theorem eraseR_ub {α : Type} [Er α] (w : String) (s : St) :
    eraseR (.ub w s : R α) = .ub w (erase s) := rfl

@[simp] theorem erase_regions (s : St) : (erase s).regions = s.regions.map eraseRegion := rfl
@[simp] theorem erase_ctrls (s : St) : (erase s).ctrls = s.ctrls := rfl
@[simp] theorem erase_hs (s : St) : (erase s).hs = s.hs.map (Option.map eraseHandle) := rfl
@[simp] theorem erase_owners (s : St) : (erase s).owners = s.owners := rfl
@[simp] theorem erase_events (s : St) : (erase s).events = s.events := rfl

@[simp] theorem eraseRegion_size (rg : Region) : (eraseRegion rg).size = rg.size := by
  unfold eraseRegion; split <;> rfl
@[simp] theorem eraseRegion_data (rg : Region) : (eraseRegion rg).data = rg.data := by
  unfold eraseRegion; split <;> rfl
@[simp] theorem eraseRegion_live (rg : Region) : (eraseRegion rg).live = rg.live := by
  unfold eraseRegion; split <;> rfl
theorem eraseRegion_heap (sz : Nat) (d : List (Option Byte)) (l b : Bool) :
    eraseRegion ⟨sz, d, l, .heap b⟩ = ⟨sz, d, l, .heap false⟩ := rfl
theorem eraseRegion_static (sz : Nat) (d : List (Option Byte)) (l : Bool) :
    eraseRegion ⟨sz, d, l, .static⟩ = ⟨sz, d, l, .static⟩ := rfl
theorem eraseRegion_ownerMem (sz : Nat) (d : List (Option Byte)) (l : Bool) (o : Nat) :
    eraseRegion ⟨sz, d, l, .ownerMem o⟩ = ⟨sz, d, l, .ownerMem o⟩ := rfl

/-- the two runs are in simulation at state `s` -/
def SimAt {α : Type} [Er α] (m m' : M α) (s : St) : Prop := eraseR (m s) = m' (erase s)
/-- … at every state -/
def Sim {α : Type} [Er α] (m m' : M α) : Prop := ∀ s, SimAt m m' s

theorem Sim.at {α : Type} [Er α] {m m' : M α} (h : Sim m m') (s : St) : SimAt m m' s := h s

theorem simAt_bind {α β : Type} [Er α] [Er β] {m m' : M α} {k k' : α → M β} {s : St}
    (hm : SimAt m m' s) (hk : ∀ a s', m s = .ok a s' → SimAt (k a) (k' (er a)) s') :
    SimAt (m >>= k) (m' >>= k') s := by
  unfold SimAt at *
  simp only [bind_apply, ← hm]
  cases hms : m s with
  | ok a s' => simpa using hk a s' hms
  | panic s' => rfl
  | ub w s' => rfl

theorem sim_bind {α β : Type} [Er α] [Er β] {m m' : M α} {k k' : α → M β}
    (hm : Sim m m') (hk : ∀ a, Sim (k a) (k' (er a))) : Sim (m >>= k) (m' >>= k') :=
  fun s => simAt_bind (hm s) (fun a s' _ => hk a s')

theorem sim_pure {α : Type} [Er α] (a : α) : Sim (pure a) (pure (er a)) := fun _ => rfl
theorem sim_panic {α : Type} [Er α] : Sim (panic : M α) panic := fun _ => rfl
theorem sim_ub {α : Type} [Er α] (w : String) : Sim (ub w : M α) (ub w) := fun _ => rfl
theorem sim_ite {α : Type} [Er α] {c : Prop} [Decidable c] {m₁ m₂ m₁' m₂' : M α}
    (h₁ : c → Sim m₁ m₁') (h₂ : ¬c → Sim m₂ m₂') :
    Sim (if c then m₁ else m₂) (if c then m₁' else m₂') := by
  split
  · next h => exact h₁ h
  · next h => exact h₂ h
/-- variants with explicit instance arguments (no type-class search on metavariables) -/
theorem sim_ite' {α : Type} (i : Er α) (c : Prop) (d : Decidable c) {m₁ m₂ m₁' m₂' : M α}
    (h₁ : c → Sim m₁ m₁') (h₂ : ¬c → Sim m₂ m₂') :
    Sim (if c then m₁ else m₂) (if c then m₁' else m₂') := sim_ite h₁ h₂
theorem sim_bind' {α β : Type} [Er α] (j : Er β) {m m' : M α} {k k' : α → M β}
    (hm : Sim m m') (hk : ∀ a, Sim (k a) (k' (er a))) : Sim (m >>= k) (m' >>= k') := sim_bind hm hk
theorem sim_bind_id {α β : Type} [Er α] [ErId α] (j : Er β) {m m' : M α} {k k' : α → M β}
    (hm : Sim m m') (hk : ∀ a, Sim (k a) (k' a)) : Sim (m >>= k) (m' >>= k') :=
  sim_bind hm fun a => by rw [ErId.er_id a]; exact hk a
theorem sim_pure_id {α : Type} [Er α] [ErId α] (a : α) : Sim (pure a) (pure a) := by
  have := sim_pure a; rwa [ErId.er_id a] at this
theorem sim_bind_pair {α₁ α₂ β : Type} [Er (α₁ × α₂)] [ErId (α₁ × α₂)] (j : Er β)
    {m m' : M (α₁ × α₂)} {k k' : α₁ × α₂ → M β}
    (hm : Sim m m') (hk : ∀ a b, Sim (k (a, b)) (k' (a, b))) : Sim (m >>= k) (m' >>= k') :=
  sim_bind_id j hm fun p => hk p.1 p.2
theorem sim_bind_pairHH {β : Type} (j : Er β) {m m' : M (Handle × Handle)}
    {k k' : Handle × Handle → M β}
    (hm : Sim m m') (hk : ∀ a b, Sim (k (a, b)) (k' (er a, er b))) : Sim (m >>= k) (m' >>= k') :=
  sim_bind hm fun p => hk p.1 p.2
theorem sim_bind_pairHB {β : Type} (j : Er β) {m m' : M (Handle × Bool)}
    {k k' : Handle × Bool → M β}
    (hm : Sim m m') (hk : ∀ a b, Sim (k (a, b)) (k' (er a, b))) : Sim (m >>= k) (m' >>= k') :=
  sim_bind hm fun p => hk p.1 p.2
theorem sim_modify {f f' : St → St} (h : ∀ s, erase (f s) = f' (erase s)) :
    Sim (modify f) (modify f') := by
  intro s; simp [SimAt, modify, h]

/-! ### primitives -/

theorem get_sim : Sim get get := fun _ => rfl
theorem emit_sim (ev : Ev) : Sim (emit ev) (emit ev) := sim_modify fun _ => rfl

theorem setRegion_sim (r : Nat) (rg : Region) : Sim (setRegion r rg) (setRegion r (eraseRegion rg)) :=
  sim_modify fun s => by simp [erase, List.map_set]

theorem allocRegion_sim (e : Env) (size : Nat) (data : List (Option Byte)) :
    Sim (allocRegion e size data) (allocRegion evenEnv size data) := by
  intro s
  simp [SimAt, allocRegion, erase, eraseRegion_heap, evenEnv]

theorem setCtrl_sim (c : Nat) (e : CtrlE) : Sim (setCtrl c e) (setCtrl c e) := sim_modify fun _ => rfl
theorem getCtrl_sim (c : Nat) : Sim (getCtrl c) (getCtrl c) := by
  intro s
  simp only [SimAt, getCtrl, erase_ctrls]
  split
  · split <;> rfl
  · rfl
theorem newCtrl_sim (ct : Ctrl) (rc : Nat) : Sim (newCtrl ct rc) (newCtrl ct rc) := fun _ => rfl
theorem newHandle_sim (h : Handle) : Sim (newHandle h) (newHandle (er h)) := by
  intro s; simp [SimAt, newHandle, erase]; rfl
theorem setHandle_sim (i : Nat) (h : Handle) : Sim (setHandle i h) (setHandle i (er h)) :=
  sim_modify fun s => by simp [erase, List.map_set]; rfl
theorem killHandle_sim (i : Nat) : Sim (killHandle i) (killHandle i) :=
  sim_modify fun s => by simp [erase, List.map_set]
theorem getHandle_sim (i : Nat) : Sim (getHandle i) (getHandle i) := by
  intro s
  simp only [SimAt, getHandle, erase_hs, List.getElem?_map]
  cases s.hs[i]? with
  | none => rfl
  | some oh => cases oh <;> rfl

theorem getRegion_sim (r : Nat) : Sim (getRegion r) (getRegion r) := by
  intro s
  simp only [SimAt, getRegion, erase_regions, List.getElem?_map]
  cases s.regions[r]? <;> rfl

theorem freeRegion_sim (r size : Nat) : Sim (freeRegion r size) (freeRegion r size) := by
  unfold freeRegion
  refine sim_bind (getRegion_sim r) fun reg => ?_
  obtain ⟨sz, d, l, k⟩ := reg
  simp only [er_region]
  cases k with
  | heap b =>
    simp only [eraseRegion_heap]
    refine sim_ite (fun _ => sim_ub _) fun _ => sim_ite (fun _ => sim_ub _) fun _ => ?_
    exact sim_bind (setRegion_sim _ _) fun _ => emit_sim _
  | static =>
    simp only [eraseRegion_static]
    exact sim_ite (fun _ => sim_ub _) fun _ => sim_ite (fun _ => sim_ub _) fun _ => sim_ub _
  | ownerMem o =>
    simp only [eraseRegion_ownerMem]
    exact sim_ite (fun _ => sim_ub _) fun _ => sim_ite (fun _ => sim_ub _) fun _ => sim_ub _

theorem readRange_sim (reg : Option Nat) (off len : Nat) :
    Sim (readRange reg off len) (readRange reg off len) := by
  unfold readRange
  refine sim_ite (fun _ => sim_pure _) fun _ => ?_
  cases reg with
  | none => exact sim_ub _
  | some r =>
    refine sim_bind (getRegion_sim r) fun rg => ?_
    simp only [er_region, eraseRegion_live, eraseRegion_size, eraseRegion_data]
    refine sim_ite (fun _ => sim_ub _) fun _ => sim_ite (fun _ => sim_ub _) fun _ => ?_
    split
    · exact sim_pure _
    · exact sim_ub _

theorem writeRange_sim (reg : Option Nat) (off : Nat) (bs : List Byte) :
    Sim (writeRange reg off bs) (writeRange reg off bs) := by
  unfold writeRange
  refine sim_ite (fun _ => sim_pure _) fun _ => ?_
  cases reg with
  | none => exact sim_ub _
  | some r =>
    refine sim_bind (getRegion_sim r) fun rg => ?_
    obtain ⟨sz, d, l, k⟩ := rg
    simp only [er_region]
    cases k with
    | heap b =>
      simp only [eraseRegion_heap]
      refine sim_ite (fun _ => sim_ub _) fun _ => sim_ite (fun _ => sim_ub _) fun _ => ?_
      exact setRegion_sim _ _
    | static =>
      simp only [eraseRegion_static]
      exact sim_ite (fun _ => sim_ub _) fun _ => sim_ite (fun _ => sim_ub _) fun _ => sim_ub _
    | ownerMem o =>
      simp only [eraseRegion_ownerMem]
      exact sim_ite (fun _ => sim_ub _) fun _ => sim_ite (fun _ => sim_ub _) fun _ => sim_ub _

theorem copyWithin_sim (reg : Option Nat) (src dst len : Nat) :
    Sim (copyWithin reg src dst len) (copyWithin reg src dst len) := by
  unfold copyWithin
  refine sim_ite (fun _ => sim_pure _) fun _ => ?_
  exact sim_bind (readRange_sim _ _ _) fun bs => writeRange_sim _ _ _

/-! ### automation -/

theorem sim_pure' {α : Type} [Er α] (a a' : α) (h : a' = er a) : Sim (pure a) (pure a') := by
  subst h; exact sim_pure a
theorem newHandle_sim' (h h' : Handle) (e : h' = er h) : Sim (newHandle h) (newHandle h') := by
  subst e; exact newHandle_sim h
theorem setHandle_sim' (i : Nat) (h h' : Handle) (e : h' = er h) :
    Sim (setHandle i h) (setHandle i h') := by
  subst e; exact setHandle_sim i h

/-- side goals `a' = er a`: never unfold arithmetic -/
syntax "sim_rfl" : tactic
macro_rules | `(tactic| sim_rfl) => `(tactic| first
  | with_reducible rfl
  | (simp only [mutFromVec, emptyWithPtr, er_nat, er_bool, er_unit, er_val, er_ctrlE, er_optNat,
      er_listNat, er_listOptNat, er_pairHH, er_pairHB, er_pairON, er_pairNN, er_handle_mut,
      er_handle_vec, er_handle_bytes, eraseRepr_static, eraseRepr_owned, eraseRepr_shared,
      eraseRepr_sharedV, eraseRepr_prom]; done))

/-- close a goal `Sim (prim …) (prim …)` with a registered lemma (syntactic match: fails fast) -/
syntax "sim_leaf" : tactic
macro_rules | `(tactic| sim_leaf) => `(tactic| with_reducible first
  | exact sim_panic | exact sim_ub _ | assumption | exact get_sim
  | exact emit_sim _ | exact allocRegion_sim _ _ _ | exact setCtrl_sim _ _
  | exact getCtrl_sim _ | exact newCtrl_sim _ _
  | exact killHandle_sim _ | exact getHandle_sim _ | exact getRegion_sim _ | exact freeRegion_sim _ _
  | exact readRange_sim _ _ _ | exact writeRange_sim _ _ _ | exact copyWithin_sim _ _ _ _)
macro_rules | `(tactic| sim_leaf) => `(tactic| ((with_reducible refine setHandle_sim' _ _ _ ?_); sim_rfl))
macro_rules | `(tactic| sim_leaf) => `(tactic| ((with_reducible refine newHandle_sim' _ _ ?_); sim_rfl))
macro_rules | `(tactic| sim_leaf) => `(tactic| ((with_reducible refine sim_pure' _ _ ?_); sim_rfl))
macro_rules | `(tactic| sim_leaf) => `(tactic| with_reducible exact sim_pure_id _)

syntax "sim_norm" : tactic
macro_rules | `(tactic| sim_norm) => `(tactic|
  (try dsimp only) <;>
  (try simp only [mutFromVec, emptyWithPtr, er_st, erase_owners, erase_regions, List.length_map,
    er_region, eraseRegion_live, eraseRegion_size, eraseRegion_data, er_nat, er_bool,
    er_unit, er_val, er_ctrlE, er_optNat, er_listNat, er_listOptNat, er_pairHH, er_pairHB, er_pairON,
    er_pairNN, er_handle_mut, er_handle_vec, er_handle_bytes, eraseRepr_static, eraseRepr_owned,
    eraseRepr_shared, eraseRepr_sharedV, eraseRepr_prom]))

/-- structural descent through `if` and `>>=`; leaves what it cannot do -/
syntax "sim" : tactic
macro_rules | `(tactic| sim) => `(tactic| first
  | ((with_reducible refine sim_ite' _ _ _ (fun _ => ?_) (fun _ => ?_)) <;> sim)
  | ((with_reducible refine sim_bind_pair _ ?_ (fun _ _ => ?_)) <;> sim_norm <;> sim)
  | ((with_reducible refine sim_bind_pairHH _ ?_ (fun _ _ => ?_)) <;> sim_norm <;> sim)
  | ((with_reducible refine sim_bind_pairHB _ ?_ (fun _ _ => ?_)) <;> sim_norm <;> sim)
  | ((with_reducible refine sim_bind_id _ ?_ (fun _ => ?_)) <;> sim_norm <;> sim)
  | ((with_reducible refine sim_bind' _ ?_ (fun _ => ?_)) <;> sim_norm <;> sim)
  | sim_leaf
  | skip)

theorem freeCtrl_sim (c : Nat) : Sim (freeCtrl c) (freeCtrl c) := by
  unfold freeCtrl; sim

macro_rules | `(tactic| sim_leaf) => `(tactic| with_reducible exact freeCtrl_sim _)

theorem vecNew_sim (e : Env) (bs : List Byte) (cap : Nat) : Sim (vecNew e bs cap) (vecNew evenEnv bs cap) := by
  unfold vecNew; sim

theorem vecFree_sim (reg : Option Nat) (cap : Nat) : Sim (vecFree reg cap) (vecFree reg cap) := by
  unfold vecFree; cases reg <;> sim

macro_rules | `(tactic| sim_leaf) => `(tactic| with_reducible first
  | exact vecNew_sim _ _ _ | exact vecFree_sim _ _)

theorem vecReserve_sim (e : Env) (reg : Option Nat) (len cap add : Nat) :
    Sim (vecReserve e reg len cap add) (vecReserve evenEnv reg len cap add) := by
  unfold vecReserve
  cases reg <;> sim

macro_rules | `(tactic| sim_leaf) => `(tactic| with_reducible exact vecReserve_sim _ _ _ _ _)

theorem ownerKill_erase (o : Nat) (rg : Region) :
    eraseRegion (if rg.kind = .ownerMem o then { rg with live := false } else rg) =
      if (eraseRegion rg).kind = .ownerMem o then { eraseRegion rg with live := false }
      else eraseRegion rg := by
  obtain ⟨sz, d, l, k⟩ := rg
  cases k with
  | heap b => simp [eraseRegion_heap]
  | static => simp [eraseRegion_static]
  | ownerMem o' =>
    simp only [eraseRegion_ownerMem]
    by_cases ho : o' = o
    · subst ho; simp [eraseRegion_ownerMem]
    · simp [eraseRegion_ownerMem, ho]

theorem releaseCtrl_sim (c : Nat) : Sim (releaseCtrl c) (releaseCtrl c) := by
  unfold releaseCtrl
  refine sim_bind_id _ (getCtrl_sim c) fun e => ?_
  obtain ⟨ct, rc, live⟩ := e
  sim_norm
  cases ct with
  | sharedB reg cap => sim
  | sharedV reg vlen vcap orig => sim
  | owned o =>
    sim
    refine sim_modify fun s => ?_
    simp only [erase, List.map_map]
    congr 1
    apply List.map_congr_left
    intro rg _
    exact ownerKill_erase o rg

theorem incCtrl_sim (c : Nat) : Sim (incCtrl c) (incCtrl c) := by
  unfold incCtrl; sim

theorem ctrlIsUnique_sim (c : Nat) : Sim (ctrlIsUnique c) (ctrlIsUnique c) := by
  unfold ctrlIsUnique; sim

macro_rules | `(tactic| sim_leaf) => `(tactic| with_reducible first
  | exact releaseCtrl_sim _ | exact incCtrl_sim _ | exact ctrlIsUnique_sim _)

theorem takeSharedB_sim (c : Nat) : Sim (takeSharedB c) (takeSharedB c) := by
  unfold takeSharedB
  refine sim_bind_id _ (getCtrl_sim c) fun e => ?_
  obtain ⟨ct, rc, live⟩ := e
  sim_norm
  cases ct <;> sim

theorem toVecCopy_sim (e : Env) (reg : Option Nat) (off len : Nat) :
    Sim (toVecCopy e reg off len) (toVecCopy evenEnv reg off len) := by
  unfold toVecCopy; sim

theorem mutPromote_sim (h h' : Handle) (rc : Nat) (e : h' = er h) :
    Sim (mutPromote h rc) (mutPromote h' rc) := by
  subst e; unfold mutPromote
  rcases h with ⟨repr, reg, off, len⟩ | ⟨_ | c, reg, off, len, cap, orig⟩ | ⟨reg, len, cap⟩ <;>
    sim_norm <;> sim

macro_rules | `(tactic| sim_leaf) => `(tactic| with_reducible first
  | exact takeSharedB_sim _ | exact toVecCopy_sim _ _ _ _)
macro_rules | `(tactic| sim_leaf) => `(tactic| ((with_reducible refine mutPromote_sim _ _ _ ?_); sim_rfl))

theorem regionOdd_erase (reg : Option Nat) (s : St) :
    (∃ o, regionOdd reg s = .ok o s ∧ regionOdd reg (erase s) = .ok false (erase s)) ∨
    (∃ w, regionOdd reg s = .ub w s ∧ regionOdd reg (erase s) = .ub w (erase s)) := by
  cases reg with
  | none => exact .inl ⟨false, rfl, rfl⟩
  | some r =>
    simp only [regionOdd, bind_apply, getRegion, erase_regions, List.getElem?_map]
    cases s.regions[r]? with
    | none => exact .inr ⟨_, rfl, rfl⟩
    | some rg =>
      obtain ⟨sz, d, l, k⟩ := rg
      cases k with
      | heap b => exact .inl ⟨b, rfl, rfl⟩
      | static => exact .inl ⟨false, rfl, rfl⟩
      | ownerMem o => exact .inl ⟨false, rfl, rfl⟩

theorem bytesFromVec_sim (reg : Option Nat) (len cap : Nat) :
    Sim (bytesFromVec reg len cap) (bytesFromVec reg len cap) := by
  unfold bytesFromVec
  refine sim_ite (fun _ => sim_ite (fun _ => sim_pure _) fun _ => ?_) fun _ => ?_
  · intro s
    rcases regionOdd_erase reg s with ⟨o, h1, h2⟩ | ⟨w, h1, h2⟩ <;>
      simp [SimAt, bind_apply, h1, h2, er_handle_bytes]
  · cases reg <;> sim




theorem dassert_sim (cfg : Cfg) (b : Bool) : Sim (dassert cfg b) (dassert cfg b) := by
  unfold dassert; sim
theorem usub_sim (cfg : Cfg) (a b : Nat) : Sim (usub cfg a b) (usub cfg a b) := by
  unfold usub; sim
theorem uadd_sim (cfg : Cfg) (a b : Nat) : Sim (uadd cfg a b) (uadd cfg a b) := by
  unfold uadd; sim
macro_rules | `(tactic| sim_leaf) => `(tactic| with_reducible first
  | exact dassert_sim _ _ | exact usub_sim _ _ _ | exact uadd_sim _ _ _)

theorem bytesIsUnique_sim (h h' : Handle) (e : h' = er h) :
    Sim (bytesIsUnique h) (bytesIsUnique h') := by
  subst e; unfold bytesIsUnique
  rcases h with ⟨repr, reg, off, len⟩ | ⟨arc, reg, off, len, cap, orig⟩ | ⟨reg, len, cap⟩
  · rcases repr with _ | c | ⟨vt, _ | c⟩ | c | c <;> sim_norm <;> sim
  · sim_norm; sim
  · sim_norm; sim

theorem mutAdvanceUnchecked_sim (cfg : Cfg) (h h' : Handle) (count : Nat) (e : h' = er h) :
    Sim (mutAdvanceUnchecked cfg h count) (mutAdvanceUnchecked cfg h' count) := by
  subst e
  have hd : ∀ b, Sim (dassert cfg b) (dassert cfg b) := by
    intro b; unfold dassert; sim
  have hu : ∀ a b, Sim (usub cfg a b) (usub cfg a b) := by
    intro a b; unfold usub; sim
  unfold mutAdvanceUnchecked
  rcases h with ⟨repr, reg, off, len⟩ | ⟨_ | c, reg, off, len, cap, orig⟩ | ⟨reg, len, cap⟩ <;>
    sim_norm <;> sim

theorem mutShallowClone_sim (h h' : Handle) (e : h' = er h) :
    Sim (mutShallowClone h) (mutShallowClone h') := by
  subst e; unfold mutShallowClone
  rcases h with ⟨repr, reg, off, len⟩ | ⟨_ | c, reg, off, len, cap, orig⟩ | ⟨reg, len, cap⟩ <;>
    sim_norm <;> sim

theorem mutDrop_sim (h h' : Handle) (e : h' = er h) : Sim (mutDrop h) (mutDrop h') := by
  subst e; unfold mutDrop
  rcases h with ⟨repr, reg, off, len⟩ | ⟨_ | c, reg, off, len, cap, orig⟩ | ⟨reg, len, cap⟩ <;>
    sim_norm <;> sim

macro_rules | `(tactic| sim_leaf) => `(tactic| with_reducible exact bytesFromVec_sim _ _ _)
macro_rules | `(tactic| sim_leaf) => `(tactic| ((with_reducible refine bytesIsUnique_sim _ _ ?_); sim_rfl))
macro_rules | `(tactic| sim_leaf) => `(tactic| ((with_reducible refine mutAdvanceUnchecked_sim _ _ _ _ ?_); sim_rfl))
macro_rules | `(tactic| sim_leaf) => `(tactic| ((with_reducible refine mutShallowClone_sim _ _ ?_); sim_rfl))
macro_rules | `(tactic| sim_leaf) => `(tactic| ((with_reducible refine mutDrop_sim _ _ ?_); sim_rfl))


theorem mutReserveInner_sim (cfg : Cfg) (e : Env) (h h' : Handle) (add : Nat) (al : Bool)
    (eq : h' = er h) :
    Sim (mutReserveInner cfg e h add al) (mutReserveInner cfg evenEnv h' add al) := by
  subst eq; unfold mutReserveInner
  rcases h with ⟨repr, reg, off, len⟩ | ⟨_ | c, reg, off, len, cap, orig⟩ | ⟨reg, len, cap⟩ <;>
    sim_norm
  · sim
  · sim
  · sim
    rename_i ce; obtain ⟨ct, rc, live⟩ := ce
    cases ct <;> sim_norm <;> sim
  · sim

macro_rules | `(tactic| sim_leaf) => `(tactic| ((with_reducible refine mutReserveInner_sim _ _ _ _ _ _ ?_); sim_rfl))

theorem mutReserve_sim (cfg : Cfg) (e : Env) (h h' : Handle) (add : Nat) (eq : h' = er h) :
    Sim (mutReserve cfg e h add) (mutReserve cfg evenEnv h' add) := by
  subst eq; unfold mutReserve
  rcases h with ⟨repr, reg, off, len⟩ | ⟨arc, reg, off, len, cap, orig⟩ | ⟨reg, len, cap⟩ <;>
    sim_norm <;> sim

macro_rules | `(tactic| sim_leaf) => `(tactic| ((with_reducible refine mutReserve_sim _ _ _ _ _ ?_); sim_rfl))

theorem mutExtend_sim (cfg : Cfg) (e : Env) (h h' : Handle) (bs : List Byte) (eq : h' = er h) :
    Sim (mutExtend cfg e h bs) (mutExtend cfg evenEnv h' bs) := by
  subst eq; unfold mutExtend
  sim
  rename_i h1
  rcases h1 with ⟨repr, reg, off, len⟩ | ⟨arc, reg, off, len, cap, orig⟩ | ⟨reg, len, cap⟩ <;>
    sim_norm <;> sim

macro_rules | `(tactic| sim_leaf) => `(tactic| ((with_reducible refine mutExtend_sim _ _ _ _ _ ?_); sim_rfl))

/-! ### the places where the vtable flag is checked against the address parity -/

/-- a KIND_VEC promotable handle carries the parity of its region -/
def ParOK (R : List Region) (h : Handle) : Prop :=
  ∀ vt reg off len, h = .bytes (.prom vt none) reg off len →
    ∃ r rg, reg = some r ∧ R[r]? = some rg ∧ rg.kind = .heap vt

theorem ParOK.get {R : List Region} {vt : Bool} {r off len : Nat}
    (h : ParOK R (.bytes (.prom vt none) (some r) off len)) :
    ∃ rg, R[r]? = some rg ∧ rg.kind = .heap vt := by
  obtain ⟨r', rg, hr, h1, h2⟩ := h vt (some r) off len rfl
  cases hr; exact ⟨rg, h1, h2⟩

theorem promDecode_simAt {vt : Bool} {r : Nat} {s : St}
    (hk : ∃ rg, s.regions[r]? = some rg ∧ rg.kind = .heap vt) :
    SimAt (promDecode vt (some r)) (promDecode false (some r)) s := by
  obtain ⟨rg, hr, hk⟩ := hk
  obtain ⟨sz, d, l, k⟩ := rg
  simp only at hk; subst hk
  simp [SimAt, promDecode, regionOdd, getRegion, hr, eraseRegion_heap]

theorem bytesDrop_simAt (h : Handle) (s : St) (hp : ParOK s.regions h) :
    SimAt (bytesDrop h) (bytesDrop (er h)) s := by
  unfold bytesDrop
  rcases h with ⟨repr, reg, off, len⟩ | ⟨arc, reg, off, len, cap, orig⟩ | ⟨reg, len, cap⟩
  · rcases repr with _ | c | ⟨vt, _ | c⟩ | c | c <;> sim_norm
    case prom.none =>
      cases reg with
      | none => exact Sim.at (sim_ub _) s
      | some r =>
        refine simAt_bind (promDecode_simAt hp.get) fun _ s1 _ => ?_
        exact Sim.at (by sim) s1
    all_goals exact Sim.at (by sim) s
  · sim_norm; exact Sim.at (by sim) s
  · sim_norm; exact Sim.at (by sim) s

theorem bytesClone_simAt (i : Nat) (s : St)
    (hp : ∀ h, s.hs[i]? = some (some h) → ParOK s.regions h) :
    SimAt (bytesClone i) (bytesClone i) s := by
  unfold bytesClone
  refine simAt_bind (getHandle_sim i s) fun h s' hg => ?_
  obtain ⟨rfl, hi⟩ := getHandle_ok hg
  have hp := hp h hi
  rcases h with ⟨repr, reg, off, len⟩ | ⟨arc, reg, off, len, cap, orig⟩ | ⟨reg, len, cap⟩
  · rcases repr with _ | c | ⟨vt, _ | c⟩ | c | c <;> sim_norm
    case prom.none =>
      cases reg with
      | none => exact Sim.at (sim_ub _) s'
      | some r =>
        refine simAt_bind (promDecode_simAt hp.get) fun _ s1 _ => ?_
        exact Sim.at (by sim) s1
    all_goals exact Sim.at (by sim) s'
  · sim_norm; exact Sim.at (by sim) s'
  · sim_norm; exact Sim.at (by sim) s'

theorem bytesIntoVec_simAt (e : Env) (h : Handle) (s : St) (hp : ParOK s.regions h) :
    SimAt (bytesIntoVec e h) (bytesIntoVec evenEnv (er h)) s := by
  unfold bytesIntoVec
  rcases h with ⟨repr, reg, off, len⟩ | ⟨arc, reg, off, len, cap, orig⟩ | ⟨reg, len, cap⟩
  · rcases repr with _ | c | ⟨vt, _ | c⟩ | c | c <;> sim_norm
    case prom.none =>
      cases reg with
      | none =>
        obtain ⟨r', rg, hr, _⟩ := hp vt none off len rfl
        cases hr
      | some r =>
        refine simAt_bind (promDecode_simAt hp.get) fun _ s1 _ => ?_
        exact Sim.at (by sim) s1
    case sharedV =>
      refine Sim.at ?_ s
      sim
      rename_i ce; obtain ⟨ct, rc, live⟩ := ce
      cases ct <;> sim_norm <;> sim
    all_goals exact Sim.at (by sim) s
  · sim_norm; exact Sim.at (by sim) s
  · sim_norm; exact Sim.at (by sim) s

theorem bytesIntoMut_simAt (cfg : Cfg) (e : Env) (h : Handle) (s : St) (hp : ParOK s.regions h) :
    SimAt (bytesIntoMut cfg e h) (bytesIntoMut cfg evenEnv (er h)) s := by
  have hv : ∀ v : Handle, Sim
      (match v with
        | .vec r l c => pure (mutFromVec r l c)
        | _ => panic : M Handle)
      (match er v with
        | .vec r l c => pure (mutFromVec r l c)
        | _ => panic : M Handle) := by
    intro v
    rcases v with ⟨repr, reg, off, len⟩ | ⟨arc, reg, off, len, cap, orig⟩ | ⟨reg, len, cap⟩ <;>
      sim_norm <;> sim
  unfold bytesIntoMut
  rcases h with ⟨repr, reg, off, len⟩ | ⟨arc, reg, off, len, cap, orig⟩ | ⟨reg, len, cap⟩
  · rcases repr with _ | c | ⟨vt, _ | c⟩ | c | c <;> sim_norm
    case prom.none =>
      cases reg with
      | none =>
        obtain ⟨r', rg, hr, _⟩ := hp vt none off len rfl
        cases hr
      | some r =>
        refine simAt_bind (promDecode_simAt hp.get) fun _ s1 _ => ?_
        exact Sim.at (by sim) s1
    case sharedV =>
      refine Sim.at ?_ s
      sim
      · rename_i ce; obtain ⟨ct, rc, live⟩ := ce
        cases ct <;> sim_norm <;> sim
      · exact hv _
    all_goals (refine Sim.at ?_ s; sim; try exact hv _)
  · sim_norm; exact Sim.at (by sim) s
  · sim_norm; exact Sim.at (by sim) s

def NotPromV : Handle → Prop
  | .bytes (.prom _ none) _ _ _ => False
  | _ => True

theorem ParOK_of_notPromV {R : List Region} {h : Handle} (hn : NotPromV h) : ParOK R h := by
  intro vt reg off len he; subst he; exact hn.elim

theorem bind_ok {α β : Type} {m : M α} {k : α → M β} {s s' : St} {b : β}
    (h : (m >>= k) s = .ok b s') : ∃ a s1, m s = .ok a s1 ∧ k a s1 = .ok b s' := by
  simp only [bind_apply] at h
  cases hm : m s with
  | ok a s1 => rw [hm] at h; exact ⟨a, s1, rfl, h⟩
  | panic s1 => rw [hm] at h; cases h
  | ub w s1 => rw [hm] at h; cases h

/-- the clone handed out by the vtable's `clone` is never a KIND_VEC promotable handle -/
theorem bytesClone_out {i : Nat} {s s' : St} {c : Handle} (h : bytesClone i s = .ok c s') :
    NotPromV c := by
  unfold bytesClone at h
  obtain ⟨h0, s1, hg, h⟩ := bind_ok h
  have inc : ∀ {c0 : Nat} {x : Handle} {t t' : St} {y : Handle},
      (do incCtrl c0; pure x : M Handle) t = .ok y t' → y = x := by
    intro c0 x t t' y hh
    obtain ⟨_, t1, _, hh⟩ := bind_ok hh
    cases hh; rfl
  rcases h0 with ⟨repr, reg, off, len⟩ | ⟨arc, reg, off, len, cap, orig⟩ | ⟨reg, len, cap⟩
  · rcases repr with _ | c0 | ⟨vt, _ | c0⟩ | c0 | c0 <;> simp only at h
    · cases h; trivial
    · cases inc h; trivial
    · cases reg with
      | none => cases h
      | some r =>
        simp only at h
        obtain ⟨_, t1, _, h⟩ := bind_ok h
        obtain ⟨_, t2, _, h⟩ := bind_ok h
        obtain ⟨_, t3, _, h⟩ := bind_ok h
        cases h; trivial
    · cases inc h; trivial
    · cases inc h; trivial
    · cases inc h; trivial
  · cases h
  · cases h

theorem bytesSplitOffCore_simAt (i k : Nat) (s : St)
    (hp : ∀ h, s.hs[i]? = some (some h) → ParOK s.regions h) :
    SimAt (bytesSplitOffCore i k) (bytesSplitOffCore i k) s := by
  unfold bytesSplitOffCore
  refine simAt_bind (getHandle_sim i s) fun h s' hg => ?_
  obtain ⟨rfl, hi⟩ := getHandle_ok hg
  rcases h with ⟨repr, reg, off, len⟩ | ⟨arc, reg, off, len, cap, orig⟩ | ⟨reg, len, cap⟩ <;>
    sim_norm
  · by_cases h1 : k = len
    · simp only [h1, if_true]; exact Sim.at (by sim) s'
    simp only [h1, if_false]
    by_cases h2 : k = 0
    · simp only [h2, if_true]; exact Sim.at (by sim) s'
    simp only [h2, if_false]
    by_cases h3 : k > len
    · simp only [h3, if_true]; exact Sim.at (by sim) s'
    simp only [h3, if_false]
    refine simAt_bind (bytesClone_simAt i s' hp) fun c s1 _ => ?_
    refine Sim.at ?_ s1
    sim
    rename_i h'
    rcases h' with ⟨repr', reg', off', len'⟩ | ⟨arc', reg', off', len', cap', orig'⟩ | ⟨reg', len', cap'⟩ <;>
    rcases c with ⟨crepr, creg, coff, clen⟩ | ⟨carc, creg, coff, clen, ccap, corig⟩ | ⟨creg, clen, ccap⟩ <;>
      sim_norm <;> sim
  · exact Sim.at (by sim) s'
  · exact Sim.at (by sim) s'

/-- the tail handed out by `split_off` satisfies the parity condition in the state it is returned in -/
theorem bytesSplitOffCore_out {i k : Nat} {s s' : St} {o : Handle}
    (h : bytesSplitOffCore i k s = .ok o s')
    (hp : ∀ h, s.hs[i]? = some (some h) → ParOK s.regions h) : ParOK s'.regions o := by
  unfold bytesSplitOffCore at h
  obtain ⟨h0, s1, hg, h⟩ := bind_ok h
  obtain ⟨rfl, hi⟩ := getHandle_ok hg
  rcases h0 with ⟨repr, reg, off, len⟩ | ⟨arc, reg, off, len, cap, orig⟩ | ⟨reg, len, cap⟩ <;>
    simp only at h
  · by_cases h1 : k = len
    · simp only [h1, if_true, pure_apply] at h
      cases h; exact ParOK_of_notPromV trivial
    simp only [h1, if_false] at h
    by_cases h2 : k = 0
    · simp only [h2, if_true, bind_apply, setHandle_apply, pure_apply] at h
      cases h; exact hp _ hi
    simp only [h2, if_false] at h
    by_cases h3 : k > len
    · simp only [h3, if_true] at h; cases h
    simp only [h3, if_false] at h
    obtain ⟨c, t1, hc, h⟩ := bind_ok h
    have hn := bytesClone_out hc
    obtain ⟨h', t2, _, h⟩ := bind_ok h
    rcases h' with ⟨repr', reg', off', len'⟩ | ⟨arc', reg', off', len', cap', orig'⟩ | ⟨reg', len', cap'⟩ <;>
    rcases c with ⟨crepr, creg, coff, clen⟩ | ⟨carc, creg, coff, clen, ccap, corig⟩ | ⟨creg, clen, ccap⟩ <;>
      simp only at h <;> try (cases h; done)
    obtain ⟨_, t3, _, h⟩ := bind_ok h
    cases h
    apply ParOK_of_notPromV
    rcases crepr with _ | c0 | ⟨vt, _ | c0⟩ | c0 | c0 <;> first | trivial | exact hn.elim
  · cases h
  · cases h

/-! ### operations -/

/-- every KIND_VEC promotable handle of the state carries the parity of its region -/
def HPar (s : St) : Prop := ∀ (i : Nat) (h : Handle), s.hs[i]? = some (some h) → ParOK s.regions h

theorem simAt_getHandle {β : Type} [Er β] {i : Nat} {s : St} {k k' : Handle → M β}
    (hk : ∀ h, s.hs[i]? = some (some h) → SimAt (k h) (k' (er h)) s) :
    SimAt (getHandle i >>= k) (getHandle i >>= k') s := by
  refine simAt_bind (getHandle_sim i s) fun h s' hg => ?_
  obtain ⟨rfl, hi⟩ := getHandle_ok hg
  exact hk h hi

theorem bytesIsUnique_ok {h : Handle} {s s' : St} {u : Bool} (hu : bytesIsUnique h s = .ok u s') :
    s' = s := by
  cases h with
  | vec reg len cap => simp [bytesIsUnique] at hu
  | «mut» arc reg off len cap orig => simp [bytesIsUnique] at hu
  | bytes repr reg off len =>
    cases repr with
    | static => simp [bytesIsUnique] at hu; exact hu.2.symm
    | owned c => simp [bytesIsUnique] at hu; exact hu.2.symm
    | shared c => exact ctrlIsUnique_ok hu
    | sharedV c => exact ctrlIsUnique_ok hu
    | prom vt oc =>
      cases oc with
      | none => simp [bytesIsUnique] at hu; exact hu.2.symm
      | some c => exact ctrlIsUnique_ok hu

theorem opSplitOff_simAt (cfg : Cfg) (i k : Nat) (s : St) (hp : HPar s) :
    SimAt (opSplitOff cfg i k) (opSplitOff cfg i k) s := by
  unfold opSplitOff
  refine simAt_getHandle fun h hi => ?_
  rcases h with ⟨repr, reg, off, len⟩ | ⟨arc, reg, off, len, cap, orig⟩ | ⟨reg, len, cap⟩ <;>
    sim_norm
  · refine simAt_bind (bytesSplitOffCore_simAt i k s (hp i)) fun o s1 _ => ?_
    exact Sim.at (by sim) s1
  · refine Sim.at ?_ s
    sim
    rename_i a b o'
    rcases a with ⟨repr', reg', off', len'⟩ | ⟨arc', reg', off', len', cap', orig'⟩ | ⟨reg', len', cap'⟩ <;>
      sim_norm <;> sim
  · exact Sim.at (by sim) s

theorem opSplitTo_simAt (cfg : Cfg) (i k : Nat) (s : St) (hp : HPar s) :
    SimAt (opSplitTo cfg i k) (opSplitTo cfg i k) s := by
  unfold opSplitTo
  refine simAt_getHandle fun h hi => ?_
  rcases h with ⟨repr, reg, off, len⟩ | ⟨arc, reg, off, len, cap, orig⟩ | ⟨reg, len, cap⟩ <;>
    sim_norm
  · by_cases h1 : k = len
    · simp only [h1, if_true]; exact Sim.at (by sim) s
    simp only [h1, if_false]
    by_cases h2 : k = 0
    · simp only [h2, if_true]; exact Sim.at (by sim) s
    simp only [h2, if_false]
    by_cases h3 : k > len
    · simp only [h3, if_true]; exact Sim.at (by sim) s
    simp only [h3, if_false]
    refine simAt_bind (bytesClone_simAt i s (hp i)) fun c s1 _ => ?_
    refine Sim.at ?_ s1
    sim
    rename_i h'
    rcases h' with ⟨repr', reg', off', len'⟩ | ⟨arc', reg', off', len', cap', orig'⟩ | ⟨reg', len', cap'⟩ <;>
    rcases c with ⟨crepr, creg, coff, clen⟩ | ⟨carc, creg, coff, clen, ccap, corig⟩ | ⟨creg, clen, ccap⟩ <;>
      sim_norm <;> sim
  · refine Sim.at ?_ s
    sim
    rename_i a b a' u
    rcases b with ⟨repr', reg', off', len'⟩ | ⟨arc', reg', off', len', cap', orig'⟩ | ⟨reg', len', cap'⟩ <;>
      sim_norm <;> sim
  · exact Sim.at (by sim) s

theorem opDrop_simAt (i : Nat) (s : St) (hp : HPar s) : SimAt (opDrop i) (opDrop i) s := by
  unfold opDrop
  refine simAt_getHandle fun h hi => ?_
  refine simAt_bind (killHandle_sim i s) fun _ s1 hk => ?_
  simp only [killHandle_apply] at hk
  cases hk
  rcases h with ⟨repr, reg, off, len⟩ | ⟨arc, reg, off, len, cap, orig⟩ | ⟨reg, len, cap⟩
  · simp only [er_handle_bytes]
    refine simAt_bind ?_ fun _ s2 _ => Sim.at (sim_pure_id _) s2
    rw [← er_handle_bytes]
    exact bytesDrop_simAt _ _ (hp i _ hi)
  · sim_norm; exact Sim.at (by sim) _
  · sim_norm; exact Sim.at (by sim) _

theorem opTruncate_simAt (i n : Nat) (s : St) (hp : HPar s) :
    SimAt (opTruncate i n) (opTruncate i n) s := by
  unfold opTruncate
  refine simAt_getHandle fun h hi => ?_
  rcases h with ⟨repr, reg, off, len⟩ | ⟨arc, reg, off, len, cap, orig⟩ | ⟨reg, len, cap⟩ <;>
    sim_norm
  · by_cases h1 : n < len
    · simp only [h1, if_true]
      rcases repr with _ | c | ⟨vt, oc⟩ | c | c <;> sim_norm
      case prom =>
        refine simAt_bind (bytesSplitOffCore_simAt i n s (hp i)) fun o s1 ho => ?_
        refine simAt_bind (bytesDrop_simAt o s1 (bytesSplitOffCore_out ho (hp i))) fun _ s2 _ => ?_
        exact Sim.at (sim_pure_id _) s2
      all_goals exact Sim.at (by sim) s
    · simp only [h1, if_false]; exact Sim.at (by sim) s
  · exact Sim.at (by sim) s
  · exact Sim.at (by sim) s

theorem erase_push_region (s : St) (rg : Region) (h : eraseRegion rg = rg) :
    erase { s with regions := s.regions ++ [rg] } =
      { erase s with regions := (erase s).regions ++ [rg] } := by
  simp [erase, h]

theorem step_simAt (cfg : Cfg) (e : Env) (op : Op) (s : St) (hp : HPar s) :
    SimAt (step cfg e op) (step cfg evenEnv op) s := by
  cases op with
  | fromStatic bs =>
    simp only [step]
    by_cases hb : bs = []
    · simp only [hb, if_true]
      exact Sim.at (by sim) s
    · simp only [hb, if_false, SimAt, erase_regions, List.length_map]
      have hsim : Sim
          (do let i ← newHandle (.bytes .static (some s.regions.length) 0 bs.length)
              pure (Val.handle i) : M Val)
          (do let i ← newHandle (.bytes .static (some s.regions.length) 0 bs.length)
              pure (Val.handle i) : M Val) := by sim
      have := hsim { s with regions := s.regions ++ [⟨bs.length, bs.map some, true, .static⟩] }
      simpa [SimAt, erase, eraseRegion_static] using this
  | newVec bs cap => simp only [step]; exact Sim.at (by sim) s
  | fromVec v =>
    simp only [step]
    refine Sim.at ?_ s
    sim
    rename_i h
    rcases h with ⟨repr, reg, off, len⟩ | ⟨arc, reg, off, len, cap, orig⟩ | ⟨reg, len, cap⟩ <;>
      sim_norm <;> sim
  | copyFromSlice bs => simp only [step]; exact Sim.at (by sim) s
  | fromOwner bs p =>
    simp only [step]
    refine Sim.at ?_ s
    sim
    · exact sim_modify fun _ => rfl
    · refine sim_modify fun s1 => ?_
      exact erase_push_region s1 _ (eraseRegion_ownerMem _ _ _ _)
  | mutWithCapacity cap => simp only [step]; exact Sim.at (by sim) s
  | mutFromSlice bs => simp only [step]; exact Sim.at (by sim) s
  | mutZeroed n => simp only [step]; exact Sim.at (by sim) s
  | clone i =>
    simp only [step]
    refine simAt_getHandle fun h hi => ?_
    rcases h with ⟨repr, reg, off, len⟩ | ⟨arc, reg, off, len, cap, orig⟩ | ⟨reg, len, cap⟩ <;>
      sim_norm
    · refine simAt_bind (bytesClone_simAt i s (hp i)) fun c s1 _ => ?_
      exact Sim.at (by sim) s1
    · exact Sim.at (by sim) s
    · exact Sim.at (by sim) s
  | slice i lo hi =>
    simp only [step]
    refine simAt_getHandle fun h hi' => ?_
    rcases h with ⟨repr, reg, off, len⟩ | ⟨arc, reg, off, len, cap, orig⟩ | ⟨reg, len, cap⟩ <;>
      sim_norm
    · by_cases h1 : lo > hi
      · simp only [h1, if_true]; exact Sim.at (by sim) s
      simp only [h1, if_false]
      by_cases h2 : hi > len
      · simp only [h2, if_true]; exact Sim.at (by sim) s
      simp only [h2, if_false]
      by_cases h3 : hi = lo
      · simp only [h3, if_true]; exact Sim.at (by sim) s
      simp only [h3, if_false]
      refine simAt_bind (bytesClone_simAt i s (hp i)) fun c s1 _ => ?_
      refine Sim.at ?_ s1
      rcases c with ⟨crepr, creg, coff, clen⟩ | ⟨carc, creg, coff, clen, ccap, corig⟩ | ⟨creg, clen, ccap⟩ <;>
        sim_norm <;> sim
    · exact Sim.at (by sim) s
    · exact Sim.at (by sim) s
  | splitOff i k => exact opSplitOff_simAt cfg i k s hp
  | splitTo i k => exact opSplitTo_simAt cfg i k s hp
  | split i =>
    simp only [step]
    refine simAt_getHandle fun h hi => ?_
    rcases h with ⟨repr, reg, off, len⟩ | ⟨arc, reg, off, len, cap, orig⟩ | ⟨reg, len, cap⟩ <;>
      sim_norm
    · exact Sim.at (by sim) s
    · exact opSplitTo_simAt cfg i len s hp
    · exact Sim.at (by sim) s
  | truncate i n => exact opTruncate_simAt i n s hp
  | clear i => exact opTruncate_simAt i 0 s hp
  | advance i n =>
    simp only [step]
    refine Sim.at ?_ s
    sim
    rename_i h
    rcases h with ⟨repr, reg, off, len⟩ | ⟨arc, reg, off, len, cap, orig⟩ | ⟨reg, len, cap⟩ <;>
      sim_norm <;> sim
  | isUnique i => simp only [step]; exact Sim.at (by sim) s
  | tryIntoMut i =>
    simp only [step]
    refine simAt_getHandle fun h hi => ?_
    refine simAt_bind (bytesIsUnique_sim h _ rfl s) fun u s1 hu => ?_
    obtain rfl := bytesIsUnique_ok hu
    cases u with
    | false =>
      simp only [er_bool, Bool.false_eq_true, ↓reduceIte]
      exact Sim.at (by sim) s1
    | true =>
      simp only [er_bool, ↓reduceIte]
      refine simAt_bind (bytesIntoMut_simAt cfg e h s1 (hp i h hi)) fun m s2 _ => ?_
      exact Sim.at (by sim) s2
  | intoMut i =>
    simp only [step]
    refine simAt_getHandle fun h hi => ?_
    rcases h with ⟨repr, reg, off, len⟩ | ⟨arc, reg, off, len, cap, orig⟩ | ⟨reg, len, cap⟩
    · simp only [er_handle_bytes]
      rw [← er_handle_bytes]
      refine simAt_bind (bytesIntoMut_simAt cfg e _ s (hp i _ hi)) fun m s2 _ => ?_
      exact Sim.at (by sim) s2
    · sim_norm; exact Sim.at (by sim) s
    · sim_norm; exact Sim.at (by sim) s
  | intoVec i =>
    simp only [step]
    refine simAt_getHandle fun h hi => ?_
    rcases h with ⟨repr, reg, off, len⟩ | ⟨_ | c, reg, off, len, cap, orig⟩ | ⟨reg, len, cap⟩
    · simp only [er_handle_bytes]
      rw [← er_handle_bytes]
      refine simAt_bind (bytesIntoVec_simAt e _ s (hp i _ hi)) fun m s2 _ => ?_
      exact Sim.at (by sim) s2
    · sim_norm; exact Sim.at (by sim) s
    · sim_norm
      refine Sim.at ?_ s
      sim
      rename_i ce hrc; obtain ⟨ct, rc, live⟩ := ce
      cases ct <;> sim_norm <;> sim
    · sim_norm; exact Sim.at (by sim) s
  | freeze i =>
    simp only [step]
    refine Sim.at ?_ s
    sim
    rename_i h
    rcases h with ⟨repr, reg, off, len⟩ | ⟨_ | c, reg, off, len, cap, orig⟩ | ⟨reg, len, cap⟩ <;>
      sim_norm <;> sim
    rename_i b
    rcases b with ⟨repr, reg, off, len⟩ | ⟨arc, reg, off, len, cap, orig⟩ | ⟨reg, len, cap⟩ <;>
      sim_norm <;> sim
  | reserve i n => simp only [step]; exact Sim.at (by sim) s
  | tryReclaim i n =>
    simp only [step]
    refine Sim.at ?_ s
    sim
    rename_i h
    rcases h with ⟨repr, reg, off, len⟩ | ⟨arc, reg, off, len, cap, orig⟩ | ⟨reg, len, cap⟩ <;>
      sim_norm <;> sim
  | extend i bs => simp only [step]; exact Sim.at (by sim) s
  | resize i n b =>
    simp only [step]
    refine Sim.at ?_ s
    sim
    rename_i h
    rcases h with ⟨repr, reg, off, len⟩ | ⟨arc, reg, off, len, cap, orig⟩ | ⟨reg, len, cap⟩ <;>
      sim_norm <;> sim
    rename_i h'
    rcases h' with ⟨repr, reg, off, len⟩ | ⟨arc, reg, off, len, cap, orig⟩ | ⟨reg, len, cap⟩ <;>
      sim_norm <;> sim
  | unsplit i j =>
    simp only [step]
    refine Sim.at ?_ s
    sim
    rename_i h o
    rcases h with ⟨repr, reg, off, len⟩ | ⟨arc, reg, off, len, cap, orig⟩ | ⟨reg, len, cap⟩ <;>
    rcases o with ⟨orepr, oreg, ooff, olen⟩ | ⟨oarc, oreg, ooff, olen, ocap, oorig⟩ | ⟨oreg, olen, ocap⟩ <;>
      sim_norm <;> sim
    rename_i bs u
    intro s1
    have hx := mutExtend_sim cfg e (.mut arc reg off len cap orig) _ bs rfl s1
    simp only [er_handle_mut, SimAt] at hx
    simp only [SimAt]
    rw [← hx]
    cases mutExtend cfg e (.mut arc reg off len cap orig) bs s1 with
    | ok h' s' =>
      simp only [eraseR_ok]
      exact Sim.at (m := (do setHandle i h'; mutDrop (.mut oarc oreg ooff olen ocap oorig); pure Val.unit))
        (by sim) s'
    | panic s' =>
      simp only [eraseR_panic]
      exact Sim.at (m := (do mutDrop (.mut oarc oreg ooff olen ocap oorig); (panic : M Val)))
        (by sim) s'
    | ub w s' => rfl
  | setByte i k b =>
    simp only [step]
    refine Sim.at ?_ s
    sim
    rename_i h
    rcases h with ⟨repr, reg, off, len⟩ | ⟨arc, reg, off, len, cap, orig⟩ | ⟨reg, len, cap⟩ <;>
      sim_norm <;> sim
  | fillSpare i b =>
    simp only [step]
    refine Sim.at ?_ s
    sim
    rename_i h
    rcases h with ⟨repr, reg, off, len⟩ | ⟨arc, reg, off, len, cap, orig⟩ | ⟨reg, len, cap⟩ <;>
      sim_norm <;> sim
  | drop i => exact opDrop_simAt i s hp

/-! ### the invariant gives the parity condition; `erase` preserves the invariant and `abs` -/

theorem HPar_of_inv {s : St} (hI : Inv s) : HPar s := by
  intro i h hi vt reg off len he
  subst he
  obtain ⟨⟨r, rfl, hl, _, hv⟩, _⟩ := handleOKL_promV.mp (hI.hok i _ hi)
  obtain ⟨rg, o, hr, _, hk⟩ := isHeapLiveL_iff.mp hl
  refine ⟨r, rg, rfl, hr, ?_⟩
  rw [hv, hk]; simp [regionOddL_def, hr, hk]

theorem parity_simAt (cfg : Cfg) (e : Env) (op : Op) (s : St) (h : WFx s) :
    eraseR (step cfg e op s) = step cfg evenEnv op (erase s) :=
  step_simAt cfg e op s (HPar_of_inv h.inv)

@[simp] theorem eraseRegion_kind_heap (rg : Region) :
    (match (eraseRegion rg).kind with | .heap _ => true | _ => false) =
      (match rg.kind with | .heap _ => true | _ => false) := by
  obtain ⟨sz, d, l, k⟩ := rg; cases k <;> rfl

theorem isHeapLiveL_erase (R : List Region) (r : Nat) :
    isHeapLiveL (R.map eraseRegion) r = isHeapLiveL R r := by
  simp only [isHeapLiveL_def, List.getElem?_map]
  cases R[r]? with
  | none => rfl
  | some rg => obtain ⟨sz, d, l, k⟩ := rg; cases k <;> rfl

theorem regionSizeL_erase (R : List Region) (r : Nat) :
    regionSizeL (R.map eraseRegion) r = regionSizeL R r := by
  simp only [regionSizeL_def, List.getElem?_map]
  cases R[r]? with
  | none => rfl
  | some rg => simp

theorem regionOddL_erase (R : List Region) (r : Nat) :
    regionOddL (R.map eraseRegion) r = false := by
  simp only [regionOddL_def, List.getElem?_map]
  cases R[r]? with
  | none => rfl
  | some rg => obtain ⟨sz, d, l, k⟩ := rg; cases k <;> rfl

theorem rdL_erase (R : List Region) (reg : Option Nat) (off len : Nat) :
    rdL (R.map eraseRegion) reg off len = rdL R reg off len := by
  unfold rdL
  split
  · rfl
  · cases reg with
    | none => rfl
    | some r =>
      simp only [List.getElem?_map]
      cases R[r]? with
      | none => rfl
      | some rg => simp

theorem kindL_erase_ownerMem (R : List Region) (r o : Nat) :
    kindL (R.map eraseRegion) r = some (.ownerMem o) ↔ kindL R r = some (.ownerMem o) := by
  simp only [kindL, List.getElem?_map]
  cases R[r]? with
  | none => simp
  | some rg => obtain ⟨sz, d, l, k⟩ := rg; cases k <;> simp [eraseRegion]

theorem kindL_erase_static (R : List Region) (r : Nat) :
    kindL (R.map eraseRegion) r = some .static ↔ kindL R r = some .static := by
  simp only [kindL, List.getElem?_map]
  cases R[r]? with
  | none => simp
  | some rg => obtain ⟨sz, d, l, k⟩ := rg; cases k <;> simp [eraseRegion]

theorem handleOKL_erase {R : List Region} {C : List CtrlE} {h : Handle}
    (hok : handleOKL R C h = true) : handleOKL (R.map eraseRegion) C (eraseHandle h) = true := by
  rcases h with ⟨repr, reg, off, len⟩ | ⟨_ | c, reg, off, len, cap, orig⟩ | ⟨reg, len, cap⟩
  · rcases repr with _ | c | ⟨vt, _ | c⟩ | c | c
    · exact handleOKL_static.mpr (by rw [rdL_erase]; exact handleOKL_static.mp hok)
    · obtain ⟨⟨o, hc, hk⟩, hr⟩ := handleOKL_owned.mp hok
      refine handleOKL_owned.mpr ⟨⟨o, hc, ?_⟩, by rw [rdL_erase]; exact hr⟩
      rcases hk with hk | ⟨r, rfl, hk⟩
      · exact .inl hk
      · exact .inr ⟨r, rfl, (kindL_erase_ownerMem R r o).mpr hk⟩
    · obtain ⟨⟨r, rfl, hl, hs, _⟩, hr⟩ := handleOKL_promV.mp hok
      exact handleOKL_promV.mpr ⟨⟨r, rfl, by rw [isHeapLiveL_erase]; exact hl,
        by rw [regionSizeL_erase]; exact hs, (regionOddL_erase R r).symm⟩, by rw [rdL_erase]; exact hr⟩
    · obtain ⟨h1, hr⟩ := handleOKL_promA.mp hok
      exact handleOKL_promA.mpr ⟨h1, by rw [rdL_erase]; exact hr⟩
    · obtain ⟨h1, hr⟩ := handleOKL_shared.mp hok
      exact handleOKL_shared.mpr ⟨h1, by rw [rdL_erase]; exact hr⟩
    · obtain ⟨h1, hr⟩ := handleOKL_sharedV.mp hok
      exact handleOKL_sharedV.mpr ⟨h1, by rw [rdL_erase]; exact hr⟩
  · obtain ⟨h1, h2, h3, hr⟩ := handleOKL_mutV.mp hok
    refine handleOKL_mutV.mpr ⟨h1, h2, ?_, by rw [rdL_erase]; exact hr⟩
    cases reg with
    | none => exact h3
    | some r => simp only [isHeapLiveL_erase, regionSizeL_erase]; exact h3
  · obtain ⟨h1, h2, hr⟩ := handleOKL_mutA.mp hok
    exact handleOKL_mutA.mpr ⟨h1, h2, by rw [rdL_erase]; exact hr⟩
  · obtain ⟨h1, h3, hr⟩ := handleOKL_vec.mp hok
    refine handleOKL_vec.mpr ⟨h1, ?_, by rw [rdL_erase]; exact hr⟩
    cases reg with
    | none => exact h3
    | some r => simp only [isHeapLiveL_erase, regionSizeL_erase]; exact h3

theorem ctrlOf_erase (h : Handle) : ctrlOf (eraseHandle h) = ctrlOf h := by
  rcases h with ⟨repr, reg, off, len⟩ | ⟨_ | c, reg, off, len, cap, orig⟩ | ⟨reg, len, cap⟩ <;> try rfl
  rcases repr with _ | c | ⟨vt, _ | c⟩ | c | c <;> rfl
theorem directRegion_erase (h : Handle) : directRegion (eraseHandle h) = directRegion h := by
  rcases h with ⟨repr, reg, off, len⟩ | ⟨_ | c, reg, off, len, cap, orig⟩ | ⟨reg, len, cap⟩ <;> try rfl
  rcases repr with _ | c | ⟨vt, _ | c⟩ | c | c <;> rfl
theorem span_erase (h : Handle) : span (eraseHandle h) = span h := by
  rcases h with ⟨repr, reg, off, len⟩ | ⟨_ | c, reg, off, len, cap, orig⟩ | ⟨reg, len, cap⟩ <;> try rfl
  rcases repr with _ | c | ⟨vt, _ | c⟩ | c | c <;> cases reg <;> rfl
theorem isMutable_erase (h : Handle) : isMutable (eraseHandle h) = isMutable h := by
  rcases h with ⟨repr, reg, off, len⟩ | ⟨_ | c, reg, off, len, cap, orig⟩ | ⟨reg, len, cap⟩ <;> try rfl
  rcases repr with _ | c | ⟨vt, _ | c⟩ | c | c <;> rfl
theorem kindOf_erase (h : Handle) : kindOf (eraseHandle h) = kindOf h := by
  rcases h with ⟨repr, reg, off, len⟩ | ⟨_ | c, reg, off, len, cap, orig⟩ | ⟨reg, len, cap⟩ <;> try rfl
  rcases repr with _ | c | ⟨vt, _ | c⟩ | c | c <;> rfl
theorem viewOfL_erase (R : List Region) (h : Handle) :
    viewOfL (R.map eraseRegion) (eraseHandle h) = viewOfL R h := by
  have : hreg (eraseHandle h) = hreg h ∧ hoff (eraseHandle h) = hoff h ∧
      hlen (eraseHandle h) = hlen h := by
    rcases h with ⟨repr, reg, off, len⟩ | ⟨_ | c, reg, off, len, cap, orig⟩ | ⟨reg, len, cap⟩ <;>
      try exact ⟨rfl, rfl, rfl⟩
    rcases repr with _ | c | ⟨vt, _ | c⟩ | c | c <;> exact ⟨rfl, rfl, rfl⟩
  simp only [viewOfL, this.1, this.2.1, this.2.2, rdL_erase]

theorem disjointB_erase (a b : Handle) :
    disjointB (eraseHandle a) (eraseHandle b) = disjointB a b := by
  simp only [disjointB, span_erase]

theorem liveHs_erase (hs : List (Option Handle)) :
    liveHs (hs.map (Option.map eraseHandle)) = (liveHs hs).map eraseHandle := by
  unfold liveHs
  induction hs with
  | nil => rfl
  | cons x xs ih => cases x <;> simp [ih]

theorem refCountL_erase (hs : List (Option Handle)) (c : Nat) :
    refCountL (hs.map (Option.map eraseHandle)) c = refCountL hs c := by
  simp only [refCountL, liveHs_erase, List.countP_map]
  congr 1; funext h; simp [ctrlOf_erase]

theorem dirCountL_erase (hs : List (Option Handle)) (r : Nat) :
    dirCountL (hs.map (Option.map eraseHandle)) r = dirCountL hs r := by
  simp only [dirCountL, liveHs_erase, List.countP_map]
  congr 1; funext h; simp [directRegion_erase]

theorem lookup_erase_hs {hs : List (Option Handle)} {i : Nat} {h' : Handle}
    (h : (hs.map (Option.map eraseHandle))[i]? = some (some h')) :
    ∃ h, hs[i]? = some (some h) ∧ h' = eraseHandle h := by
  simp only [List.getElem?_map] at h
  cases hi : hs[i]? with
  | none => simp [hi] at h
  | some oh =>
    cases oh with
    | none => simp [hi] at h
    | some a => simp [hi] at h; exact ⟨a, rfl, h.symm⟩

theorem ctrlBufOK_erase {R : List Region} {ow : Nat} {ct : Ctrl} (h : ctrlBufOK R ow ct) :
    ctrlBufOK (R.map eraseRegion) ow ct := by
  rcases ct with ⟨r, cap⟩ | ⟨_ | r, vlen, vcap, orig⟩ | o <;>
    simp only [ctrlBufOK, isHeapLiveL_erase, regionSizeL_erase] at h ⊢ <;> exact h

theorem regionOKB_erase {rg : Region} (h : regionOKB rg = true) : regionOKB (eraseRegion rg) = true := by
  obtain ⟨sz, d, l, k⟩ := rg; cases k <;> exact h

theorem Inv_erase {s : St} (hI : Inv s) : Inv (erase s) := by
  refine ⟨?_, ?_, ?_, ?_, ?_, ?_, ?_⟩
  · intro r rg hr
    simp only [erase_regions, List.getElem?_map] at hr
    cases h0 : s.regions[r]? with
    | none => simp [h0] at hr
    | some rg0 =>
      simp [h0] at hr; subst hr
      exact regionOKB_erase (hI.regs r rg0 h0)
  · intro i h' hi
    obtain ⟨h, hi0, rfl⟩ := lookup_erase_hs hi
    exact handleOKL_erase (hI.hok i h hi0)
  · intro c e he hl
    obtain ⟨h1, h2, h3⟩ := hI.cok c e he hl
    refine ⟨?_, h2, ctrlBufOK_erase h3⟩
    simp only [erase_hs, refCountL_erase]; exact h1
  · intro r hr
    simp only [erase_regions, List.length_map] at hr
    simp only [erase_hs, erase_ctrls, erase_regions, dirCountL_erase, isHeapLiveL_erase]
    exact hI.own r hr
  · intro i j a' b' hi hj hij hm
    obtain ⟨a, hi0, rfl⟩ := lookup_erase_hs hi
    obtain ⟨b, hj0, rfl⟩ := lookup_erase_hs hj
    rw [disjointB_erase]
    rw [isMutable_erase] at hm
    exact hI.excl i j a b hi0 hj0 hij hm
  · intro i r off len hi hl
    obtain ⟨h, hi0, he⟩ := lookup_erase_hs hi
    have : h = .bytes .static (some r) off len := by
      rcases h with ⟨repr, reg, off', len'⟩ | ⟨_ | c, reg, off', len', cap, orig⟩ | ⟨reg, len', cap⟩ <;>
        try (cases he; done)
      rcases repr with _ | c | ⟨vt, _ | c⟩ | c | c <;> cases he <;> rfl
    subst this
    exact (kindL_erase_static _ _).mpr (hI.stat i r off len hi0 hl)
  · exact hI.odist

theorem absL_erase (R : List Region) (hs : List (Option Handle)) :
    absL (R.map eraseRegion) (hs.map (Option.map eraseHandle)) = absL R hs := by
  simp only [absL, List.map_map]
  apply List.map_congr_left
  intro oh _
  cases oh with
  | none => rfl
  | some h => simp [viewOfL_erase, kindOf_erase]

theorem abs_erase' (s : St) : abs (erase s) = abs s := by
  rw [abs_eq, abs_eq]; exact absL_erase _ _

end BytesVerif.Core.P16

