/-
Invariant-preserving *abstract transitions*.

Intermediate states of an operation are not well-formed (a reference count is bumped before the
new handle exists, a region is freed before its control block, …), so `Inv` cannot be threaded
through the primitives one by one.  Instead: execute the operation symbolically to its *final* state
(Prim.lean), show by `simp`/`rfl` that this final state is the result of one or two of the
transitions below applied to the initial state, and conclude with the transition lemmas.

Every lemma concludes `Inv ⟨R', C', hs', owners, ev⟩` for an arbitrary event list `ev` (events are
irrelevant to the invariant), so `exact Inv_xxx … _` unifies against whatever record the symbolic
execution produced; companion lemmas (`…_view`) say that the views of the untouched handles are
unchanged, which is what `absL_congr` needs.

  T1  Inv_kill_plain      forget a handle holding no resource
  T2  Inv_kill_dec        drop a handle, its control block stays alive
  T3  Inv_kill_last       drop the last handle of a control block: block + buffer freed (`freeBuf`)
  T4  Inv_kill_direct     drop a handle that owns its region directly (KIND_VEC / Vec / promotable)
      (T1–T4 via `Inv_kill_gen`, the `Killed R R' K` relation and `survivor`)
  T5  Inv_push_plain(_nospan) / Inv_fill_plain    new handle holding no resource (push / into an empty slot)
  T6  Inv_set_push_share  slot i ↦ h1, append h2, all on the same control block, rc + 1  (clone/split)
      Inv_set_push_plain  slot i ↦ h1, append h2, together holding exactly the resources of the old handle
  T7  Inv_push_fresh / Inv_fill_fresh   new region + new handle owning it (push / into an empty slot)
  T8  Inv_promote         a handle owning its region directly hands it to a fresh control block (rc 1)
  T9  Inv_set_sub         replace a handle by one with the same resources and a sub-span
  T10 Inv_write_set       write inside the span of a mutable handle (exclusivity ⇒ nobody else sees it)
      Inv_owners_mono, Inv_events

Supporting notions: `Anchor R C b r` (how handle `b` is tied to region `r`; `Inv.anchor`,
`Inv.anchor_span`), `Inv.alone_direct` / `Inv.alone_ctrl` (sole ownership ⇒ no other anchor),
`statOK` (X1 for one handle), `freeBuf_append` (release commutes with a later allocation).
-/
import BytesVerif.Lemmas.Core.Prim
set_option linter.unusedVariables false
namespace BytesVerif.Core

theorem ctrlOf_some_direct_none {h : Handle} {c : Nat} (hc : ctrlOf h = some c) : directRegion h = none := by
  cases h with
  | bytes repr reg off len =>
    cases repr with
    | prom vt oc => cases oc <;> simp_all [ctrlOf, directRegion]
    | _ => simp_all [ctrlOf, directRegion]
  | «mut» arc reg off len cap orig => cases arc <;> simp_all [ctrlOf, directRegion]
  | vec reg len cap => simp [ctrlOf] at hc

theorem handleOKL_of_lookup {R R' : List Region} {C C' : List CtrlE} {b : Handle}
    (hr : ∀ r, hreg b = some r → (usesMeta b = true ∨ hlen b ≠ 0) → R'[r]? = R[r]?)
    (hc : ∀ c, ctrlOf b = some c → liveCtrlL C' c = liveCtrlL C c) :
    handleOKL R' C' b = handleOKL R C b := by
  apply handleOKL_frame
  · intro r h1 h2; exact metaL_of_lookup (hr r h1 (.inl h2))
  · rw [rdL_congr]; intro r h1 h2; exact hr r h1 (.inr h2)
  · exact hc

theorem viewOfL_of_lookup {R R' : List Region} {b : Handle}
    (hr : ∀ r, hreg b = some r → hlen b ≠ 0 → R'[r]? = R[r]?) : viewOfL R' b = viewOfL R b :=
  rdL_congr hr

/-- How a handle that really uses region `r` is tied to it. -/
inductive Anchor (R : List Region) (C : List CtrlE) (b : Handle) (r : Nat) : Prop
  | stat (rg : Region) (hr : R[r]? = some rg) (hk : rg.kind = .static)
  | own (c o : Nat) (rg : Region) (hc : ctrlOf b = some c) (hl : liveCtrlL C c = some (.owned o))
      (hr : R[r]? = some rg) (hk : rg.kind = .ownerMem o)
  | direct (hd : directRegion b = some r) (hl : isHeapLiveL R r = true)
  | ctrl (c : Nat) (ct : Ctrl) (hc : ctrlOf b = some c) (hl : liveCtrlL C c = some ct)
      (hr : ctrlRegion ct = some r) (hh : isHeapLiveL R r = true)

theorem Inv.anchor {s : St} (hI : Inv s) {j : Nat} {b : Handle} {r : Nat}
    (hj : s.hs[j]? = some (some b)) (hr : hreg b = some r)
    (hu : usesMeta b = true ∨ hlen b ≠ 0) : Anchor s.regions s.ctrls b r := by
  have hok := hI.hok j b hj
  cases b with
  | bytes repr reg off len =>
    simp only [hreg] at hr; subst hr
    simp only [hlen] at hu
    cases repr with
    | «static» =>
      have hl : len ≠ 0 := by rcases hu with hu | hu; · simp [usesMeta] at hu
                              · exact hu
      have := hI.stat j r off len hj hl
      simp only [kindL] at this
      cases hrr : s.regions[r]? with
      | none => simp [hrr] at this
      | some rg => simp [hrr] at this; exact .stat rg hrr this
    | owned c =>
      have hl : len ≠ 0 := by rcases hu with hu | hu; · simpa [usesMeta] using hu
                              · exact hu
      obtain ⟨⟨o, h1, h2⟩, _⟩ := handleOKL_owned.mp hok
      rcases h2 with h2 | ⟨r', h3, h4⟩
      · exact (hl h2).elim
      · cases h3
        simp only [kindL] at h4
        cases hrr : s.regions[r]? with
        | none => simp [hrr] at h4
        | some rg => simp [hrr] at h4; exact .own c o rg rfl h1 hrr h4
    | prom vt oc =>
      cases oc with
      | none => exact .direct rfl (handleOKL_direct hok rfl)
      | some c =>
        obtain ⟨⟨r', cap, h1, h2, _⟩, _⟩ := handleOKL_promA.mp hok
        cases h2
        obtain ⟨_, _, _, _, _, _, hb⟩ := hI.cok' h1
        exact .ctrl c _ rfl h1 rfl hb.1
    | shared c =>
      obtain ⟨⟨r', cap, h1, h2, _⟩, _⟩ := handleOKL_shared.mp hok
      cases h2
      obtain ⟨_, _, _, _, _, _, hb⟩ := hI.cok' h1
      exact .ctrl c _ rfl h1 rfl hb.1
    | sharedV c =>
      obtain ⟨⟨vlen, vcap, vorig, h1, _⟩, _⟩ := handleOKL_sharedV.mp hok
      obtain ⟨_, _, _, _, _, _, hb⟩ := hI.cok' h1
      exact .ctrl c _ rfl h1 rfl hb.1
  | «mut» arc reg off len cap orig =>
    simp only [hreg] at hr; subst hr
    cases arc with
    | none => exact .direct rfl (handleOKL_direct hok rfl)
    | some c =>
      obtain ⟨_, ⟨vlen, vcap, vorig, h1, _⟩, _⟩ := handleOKL_mutA.mp hok
      obtain ⟨_, _, _, _, _, _, hb⟩ := hI.cok' h1
      exact .ctrl c _ rfl h1 rfl hb.1
  | vec reg len cap =>
    simp only [hreg] at hr; subst hr
    exact .direct rfl (handleOKL_direct hok rfl)

/-- T1: forget a handle that holds no resource (STATIC bytes, empty Vec / KIND_VEC BytesMut) -/
theorem Inv_kill_plain {s : St} (hI : Inv s) {i : Nat} {h : Handle} (hi : s.hs[i]? = some (some h))
    (hc : ctrlOf h = none) (hd : directRegion h = none) (ev : List Ev) :
    Inv ⟨s.regions, s.ctrls, s.hs.set i none, s.owners, ev⟩ := by
  constructor
  · exact hI.regs
  · intro j b hj
    rcases hs_set_cases hj with ⟨_, h1, _⟩ | ⟨_, hj'⟩
    · cases h1
    · exact hI.hok j b hj'
  · intro c e he hl
    have := refCountL_kill c hi
    simp only [hc] at this
    have h2 := hI.cok c e he hl
    simp only [reduceCtorEq, if_false, Nat.add_zero] at this
    simp only [this]; exact h2
  · intro r hr
    have := dirCountL_kill r hi
    simp only [hd, reduceCtorEq, if_false, Nat.add_zero] at this
    simp only [this]; exact hI.own r hr
  · exact Excl_kill i hI.excl
  · intro j r off len hj hl
    rcases hs_set_cases hj with ⟨_, h1, _⟩ | ⟨_, hj'⟩
    · cases h1
    · exact hI.stat j r off len hj' hl
  · exact hI.odist

/-- T2: drop a handle whose control block stays alive (`rc ≥ 2`) -/
theorem Inv_kill_dec {s : St} (hI : Inv s) {i : Nat} {h : Handle} (hi : s.hs[i]? = some (some h))
    {c : Nat} {e : CtrlE} (hc : ctrlOf h = some c) (he : s.ctrls[c]? = some e) (hl : e.live = true)
    (h1 : e.rc ≠ 1) (ev : List Ev) :
    Inv ⟨s.regions, s.ctrls.set c { e with rc := e.rc - 1 }, s.hs.set i none, s.owners, ev⟩ := by
  have hd : directRegion h = none := ctrlOf_some_direct_none hc
  have hlc : ∀ c', liveCtrlL (s.ctrls.set c { e with rc := e.rc - 1 }) c' = liveCtrlL s.ctrls c' :=
    fun c' => liveCtrlL_set_rc _ c' he
  constructor
  · exact hI.regs
  · intro j b hj
    rcases hs_set_cases hj with ⟨_, h1, _⟩ | ⟨_, hj'⟩
    · cases h1
    · rw [handleOKL_of_lookup (fun _ _ _ => rfl) (fun c' _ => hlc c')]; exact hI.hok j b hj'
  · intro c' e' he' hl'
    have hk := refCountL_kill c' hi
    simp only [hc, Option.some.injEq] at hk
    by_cases hcc : c = c'
    · subst hcc
      rw [lookup_set_eq _ he] at he'; cases he'
      obtain ⟨h2, h3, h4⟩ := hI.cok c e he hl
      simp only [if_true] at hk
      exact ⟨by simp only; omega, by simp only; omega, h4⟩
    · rw [lookup_set_ne _ hcc] at he'
      simp only [hcc, if_false, Nat.add_zero] at hk
      simp only [hk]; exact hI.cok c' e' he' hl'
  · intro r hr
    have := dirCountL_kill r hi
    simp only [hd, reduceCtorEq, if_false, Nat.add_zero] at this
    rw [ctrlCountL_set_same (e' := { e with rc := e.rc - 1 }) r he rfl rfl]
    simp only [this]; exact hI.own r hr
  · exact Excl_kill i hI.excl
  · intro j r off len hj hl
    rcases hs_set_cases hj with ⟨_, h1, _⟩ | ⟨_, hj'⟩
    · cases h1
    · exact hI.stat j r off len hj' hl
  · intro c1 c2 o h1 h2; rw [hlc] at h1 h2; exact hI.odist c1 c2 o h1 h2

/-! ### deallocation of a set of regions -/

/-- `R'` is `R` with the regions in `K` deallocated (`live := false`), everything else untouched -/
def Killed (R R' : List Region) (K : Nat → Bool) : Prop :=
  ∀ r : Nat, R'[r]? = (R[r]?).map fun rg => if K r then rg.kill else rg

namespace Killed
variable {R R' : List Region} {K : Nat → Bool}

theorem miss (hk : Killed R R' K) {r : Nat} (hr : K r = false) : R'[r]? = R[r]? := by
  rw [hk r]; cases R[r]? <;> simp [hr]

theorem hit (hk : Killed R R' K) {r : Nat} {rg : Region} (hr : K r = true) (h : R[r]? = some rg) :
    R'[r]? = some rg.kill := by
  rw [hk r, h]; simp [hr]

theorem len (hk : Killed R R' K) : R'.length = R.length := by
  have h1 : ∀ r, R'.length ≤ r ↔ R.length ≤ r := by
    intro r
    rw [← List.getElem?_eq_none_iff, ← List.getElem?_eq_none_iff, hk r]
    cases R[r]? <;> simp
  have a := (h1 R'.length).mp (Nat.le_refl _)
  have b := (h1 R.length).mpr (Nat.le_refl _)
  omega

theorem lookup (hk : Killed R R' K) {r : Nat} {rg' : Region} (h : R'[r]? = some rg') :
    ∃ rg, R[r]? = some rg ∧ rg' = if K r then rg.kill else rg := by
  rw [hk r] at h
  cases hR : R[r]? with
  | none => simp [hR] at h
  | some rg => simp [hR] at h; exact ⟨rg, rfl, h.symm⟩

theorem regs (hk : Killed R R' K)
    (hR : ∀ (r : Nat) (rg : Region), R[r]? = some rg → regionOKB rg = true) :
    ∀ (r : Nat) (rg : Region), R'[r]? = some rg → regionOKB rg = true := by
  intro r rg' h
  obtain ⟨rg, h1, h2⟩ := hk.lookup h
  have := hR r rg h1
  subst h2
  split
  · exact this
  · exact this

theorem kindL_eq (hk : Killed R R' K) (r : Nat) : kindL R' r = kindL R r := by
  simp only [kindL, hk r]
  cases R[r]? with
  | none => rfl
  | some rg => simp only [Option.map_some]; split <;> rfl

theorem regionSizeL_eq (hk : Killed R R' K) (r : Nat) : regionSizeL R' r = regionSizeL R r := by
  simp only [regionSizeL_def, hk r]
  cases R[r]? with
  | none => rfl
  | some rg => simp only [Option.map_some]; split <;> rfl

theorem isHeapLiveL_eq (hk : Killed R R' K) (r : Nat) :
    isHeapLiveL R' r = (isHeapLiveL R r && !K r) := by
  simp only [isHeapLiveL_def, hk r]
  cases R[r]? with
  | none => rfl
  | some rg =>
    simp only [Option.map_some]
    cases K r <;> simp

theorem isHeapLiveL_miss (hk : Killed R R' K) {r : Nat} (hr : K r = false) :
    isHeapLiveL R' r = isHeapLiveL R r := by
  simp [hk.isHeapLiveL_eq, hr]

theorem of_set {r : Nat} {rg : Region} (hr : R[r]? = some rg) :
    Killed R (R.set r rg.kill) (fun r' => r' == r) := by
  intro r'
  by_cases h : r' = r
  · subst h; simp [lookup_set_eq _ hr, hr]
  · have : (r' == r) = false := by simp [h]
    simp only [this]; rw [lookup_set_ne _ (Ne.symm h)]; cases R[r']? <;> rfl

theorem of_id (R : List Region) : Killed R R (fun _ => false) := by
  intro r; cases R[r]? <;> rfl

end Killed

/-- the regions freed together with control block `ct` -/
def bufHit (R : List Region) : Ctrl → Nat → Bool
  | .sharedB r0 _, r => r == r0
  | .sharedV (some r0) _ _ _, r => r == r0
  | .sharedV none _ _ _, _ => false
  | .owned o, r => kindL R r == some (.ownerMem o)

theorem freeBuf_owned_aux (x : Option Region) (o : Nat) :
    Option.map (fun rg => if rg.kind = RKind.ownerMem o then rg.kill else rg) x =
    Option.map (fun rg => if (Option.map (fun y => y.kind) x == some (RKind.ownerMem o)) = true
      then rg.kill else rg) x := by
  cases x with
  | none => rfl
  | some rg => by_cases h : rg.kind = .ownerMem o <;> simp [h]

theorem Killed.of_freeBuf (R : List Region) (ct : Ctrl) : Killed R (freeBuf R ct) (bufHit R ct) := by
  cases ct with
  | sharedB r0 cap =>
    simp only [freeBuf]
    cases hr : R[r0]? with
    | none =>
      intro r
      by_cases h : r = r0
      · subst h; simp [hr]
      · have : bufHit R (.sharedB r0 cap) r = false := by simp [bufHit, h]
        rw [this]; cases R[r]? <;> rfl
    | some rg => exact Killed.of_set hr
  | sharedV reg vlen vcap orig =>
    cases reg with
    | none => exact Killed.of_id R
    | some r0 =>
      simp only [freeBuf]
      cases hr : R[r0]? with
      | none =>
        intro r
        by_cases h : r = r0
        · subst h; simp [hr]
        · have : bufHit R (.sharedV (some r0) vlen vcap orig) r = false := by simp [bufHit, h]
          rw [this]; cases R[r]? <;> rfl
      | some rg => exact Killed.of_set hr
  | owned o =>
    intro r
    simp only [freeBuf, bufHit, kindL, List.getElem?_map]
    exact freeBuf_owned_aux _ _

/-- a handle not anchored in a deallocated region is unaffected -/
theorem survivor {s : St} (hI : Inv s) {R' : List Region} {C' : List CtrlE} {K : Nat → Bool}
    (hk : Killed s.regions R' K) {j : Nat} {b : Handle} (hj : s.hs[j]? = some (some b))
    (hA : ∀ r, Anchor s.regions s.ctrls b r → K r = false)
    (hC : ∀ c, ctrlOf b = some c → liveCtrlL C' c = liveCtrlL s.ctrls c) :
    handleOKL R' C' b = true ∧ viewOfL R' b = viewOfL s.regions b := by
  constructor
  · rw [handleOKL_of_lookup (R := s.regions) (C := s.ctrls) _ hC]
    · exact hI.hok j b hj
    · intro r h1 h2; exact hk.miss (hA r (hI.anchor hj h1 h2))
  · apply viewOfL_of_lookup
    intro r h1 h2; exact hk.miss (hA r (hI.anchor hj h1 (.inr h2)))

theorem ctrlBufOK_killed {R R' : List Region} {K : Nat → Bool} (hk : Killed R R' K) {ow : Nat}
    {ct : Ctrl} (h : ctrlBufOK R ow ct) (hn : ∀ r, ctrlRegion ct = some r → K r = false) :
    ctrlBufOK R' ow ct := by
  cases ct with
  | sharedB r cap =>
    simp only [ctrlBufOK] at h ⊢
    rw [hk.isHeapLiveL_miss (hn r rfl), hk.regionSizeL_eq]; exact h
  | sharedV reg vlen vcap orig =>
    cases reg with
    | none => exact h
    | some r =>
      simp only [ctrlBufOK] at h ⊢
      rw [hk.isHeapLiveL_miss (hn r rfl), hk.regionSizeL_eq]; exact h
  | owned o => exact h


theorem direct_some_ctrlOf_none {h : Handle} {r : Nat} (hd : directRegion h = some r) : ctrlOf h = none := by
  cases hc : ctrlOf h with
  | none => rfl
  | some c => rw [ctrlOf_some_direct_none hc] at hd; cases hd

/-- generic "kill slot `i` and deallocate the regions in `K`" -/
theorem Inv_kill_gen {s : St} (hI : Inv s) {i : Nat} {h : Handle} (hi : s.hs[i]? = some (some h))
    {R' : List Region} {C' : List CtrlE} {K : Nat → Bool} (hk : Killed s.regions R' K)
    (hsurv : ∀ (j : Nat) (b : Handle), j ≠ i → s.hs[j]? = some (some b) →
      (∀ r, Anchor s.regions s.ctrls b r → K r = false) ∧
      (∀ c, ctrlOf b = some c → liveCtrlL C' c = liveCtrlL s.ctrls c))
    (hcok : ∀ (c : Nat) (e' : CtrlE), C'[c]? = some e' → e'.live = true →
      e'.rc = refCountL (s.hs.set i none) c ∧ 1 ≤ e'.rc ∧ ctrlBufOK R' s.owners e'.c)
    (hown : ∀ r, r < s.regions.length →
      dirCountL (s.hs.set i none) r + ctrlCountL C' r = if isHeapLiveL R' r = true then 1 else 0)
    (hod : ∀ (c : Nat) (ct : Ctrl), liveCtrlL C' c = some ct → liveCtrlL s.ctrls c = some ct)
    (ev : List Ev) :
    Inv ⟨R', C', s.hs.set i none, s.owners, ev⟩ ∧
    ∀ (j : Nat) (b : Handle), j ≠ i → s.hs[j]? = some (some b) → viewOfL R' b = viewOfL s.regions b := by
  refine ⟨?_, fun j b hji hj => (survivor hI hk hj (hsurv j b hji hj).1 (hsurv j b hji hj).2).2⟩
  constructor
  · exact hk.regs hI.regs
  · intro j b hj
    rcases hs_set_cases hj with ⟨_, h1, _⟩ | ⟨hji, hj'⟩
    · cases h1
    · exact (survivor hI hk hj' (hsurv j b hji hj').1 (hsurv j b hji hj').2).1
  · exact hcok
  · intro r hr; exact hown r (by simpa [hk.len] using hr)
  · exact Excl_kill i hI.excl
  · intro j r off len hj hl
    rcases hs_set_cases hj with ⟨_, h1, _⟩ | ⟨_, hj'⟩
    · cases h1
    · show kindL R' r = _
      rw [hk.kindL_eq]; exact hI.stat j r off len hj' hl
  · intro c1 c2 o h1 h2; exact hI.odist c1 c2 o (hod _ _ h1) (hod _ _ h2)

/-- an anchor in a live heap region is `direct` or `ctrl` -/
theorem Anchor.heap_cases {R : List Region} {C : List CtrlE} {b : Handle} {r : Nat}
    (ha : Anchor R C b r) (hl : isHeapLiveL R r = true) :
    directRegion b = some r ∨
    ∃ c e, ctrlOf b = some c ∧ C[c]? = some e ∧ e.live = true ∧ ctrlRegion e.c = some r := by
  obtain ⟨rg, o, hr, _, hk⟩ := isHeapLiveL_iff.mp hl
  cases ha with
  | stat rg' hr' hk' => rw [hr] at hr'; cases hr'; rw [hk] at hk'; cases hk'
  | own c o' rg' hc hl' hr' hk' => rw [hr] at hr'; cases hr'; rw [hk] at hk'; cases hk'
  | direct hd _ => exact .inl hd
  | ctrl c ct hc hl' hr' _ =>
    obtain ⟨e, h1, h2, h3⟩ := liveCtrlL_some_iff.mp hl'
    subst h3; exact .inr ⟨c, e, hc, h1, h2, hr'⟩

/-- T4: drop a handle that owns its region directly -/
theorem Inv_kill_direct {s : St} (hI : Inv s) {i : Nat} {h : Handle} (hi : s.hs[i]? = some (some h))
    {r0 : Nat} {rg : Region} (hd : directRegion h = some r0) (hr : s.regions[r0]? = some rg)
    (ev : List Ev) :
    Inv ⟨s.regions.set r0 rg.kill, s.ctrls, s.hs.set i none, s.owners, ev⟩ ∧
    ∀ (j : Nat) (b : Handle), j ≠ i → s.hs[j]? = some (some b) →
      viewOfL (s.regions.set r0 rg.kill) b = viewOfL s.regions b := by
  have hlive : isHeapLiveL s.regions r0 = true := handleOKL_direct (hI.hok i h hi) hd
  have hlt := isHeapLiveL_lt hlive
  have hown := hI.own r0 hlt
  simp only [hlive, if_true] at hown
  have hdir : 1 ≤ dirCountL s.hs r0 := dirCountL_pos_of hi hd
  have hctrl0 : ctrlCountL s.ctrls r0 = 0 := by omega
  have hc : ctrlOf h = none := direct_some_ctrlOf_none hd
  have hnoctrl : ∀ (c : Nat) (e : CtrlE), s.ctrls[c]? = some e → e.live = true → ctrlRegion e.c ≠ some r0 :=
    ctrlCountL_eq_zero.mp hctrl0
  apply Inv_kill_gen hI hi (Killed.of_set hr)
  · intro j b hji hj
    refine ⟨fun r ha => ?_, fun _ _ => rfl⟩
    simp only [beq_eq_false_iff_ne, ne_eq]
    rintro rfl
    rcases ha.heap_cases hlive with h1 | ⟨c, e, _, h2, h3, h4⟩
    · exact hji (dirCountL_unique (by omega) hi hd hj h1)
    · exact hnoctrl c e h2 h3 h4
  · intro c e' he' hl'
    have hk := refCountL_kill c hi
    simp only [hc, reduceCtorEq, if_false, Nat.add_zero] at hk
    obtain ⟨h1, h2, h3⟩ := hI.cok c e' he' hl'
    refine ⟨by rw [hk]; exact h1, h2, ctrlBufOK_killed (Killed.of_set hr) h3 ?_⟩
    intro r hrr
    simp only [beq_eq_false_iff_ne, ne_eq]
    rintro rfl; exact hnoctrl c e' he' hl' hrr
  · intro r hrlt
    have hk := dirCountL_kill r hi
    have ho := hI.own r hrlt
    rw [(Killed.of_set hr).isHeapLiveL_eq]
    by_cases hrr : r = r0
    · subst hrr
      simp only [hd, if_true] at hk
      simp only [hlive, if_true] at ho
      simp; omega
    · have : directRegion h ≠ some r := by rw [hd]; simpa using Ne.symm hrr
      simp only [this, if_false, Nat.add_zero] at hk
      have h2 : (r == r0) = false := by simp [hrr]
      simp only [h2, Bool.not_false, Bool.and_true, hk]; exact ho
  · intro c ct h; exact h


theorem bufHit_heap {R : List Region} {ct : Ctrl} {r : Nat} (hl : isHeapLiveL R r = true) :
    bufHit R ct r = (ctrlRegion ct == some r) := by
  obtain ⟨rg, o, hr, _, hk⟩ := isHeapLiveL_iff.mp hl
  cases ct with
  | sharedB r0 cap => simp [bufHit, ctrlRegion, Bool.beq_comm]
  | sharedV reg vlen vcap orig => cases reg <;> simp [bufHit, ctrlRegion, Bool.beq_comm]
  | owned o' => simp [bufHit, ctrlRegion, kindL, hr, hk]

/-- T3: drop the last handle of a control block: the block and its buffer are freed -/
theorem Inv_kill_last {s : St} (hI : Inv s) {i : Nat} {h : Handle} (hi : s.hs[i]? = some (some h))
    {c : Nat} {e : CtrlE} (hc : ctrlOf h = some c) (he : s.ctrls[c]? = some e) (hl : e.live = true)
    (h1 : e.rc = 1) (ev : List Ev) :
    Inv ⟨freeBuf s.regions e.c, s.ctrls.set c ⟨e.c, 0, false⟩, s.hs.set i none, s.owners, ev⟩ ∧
    ∀ (j : Nat) (b : Handle), j ≠ i → s.hs[j]? = some (some b) →
      viewOfL (freeBuf s.regions e.c) b = viewOfL s.regions b := by
  have hd : directRegion h = none := ctrlOf_some_direct_none hc
  obtain ⟨hrc, _, hbuf⟩ := hI.cok c e he hl
  have hrc1 : refCountL s.hs c = 1 := by omega
  have hk := Killed.of_freeBuf s.regions e.c
  have hlc : ∀ c', c' ≠ c → liveCtrlL (s.ctrls.set c ⟨e.c, 0, false⟩) c' = liveCtrlL s.ctrls c' :=
    fun c' h => liveCtrlL_set_ne _ (Ne.symm h)
  have hlcc : liveCtrlL (s.ctrls.set c ⟨e.c, 0, false⟩) c = none := by
    rw [liveCtrlL_set_eq _ he]; rfl
  have hother : ∀ (j : Nat) (b : Handle), j ≠ i → s.hs[j]? = some (some b) → ctrlOf b ≠ some c :=
    fun j b hji hj hcb => hji (refCountL_unique hrc1 hi hc hj hcb)
  -- a live heap region hit by the release is the buffer of `c`; it has no other owner
  have hheap : ∀ r, isHeapLiveL s.regions r = true → bufHit s.regions e.c r = true →
      ctrlRegion e.c = some r ∧ dirCountL s.hs r = 0 ∧
      ∀ (c' : Nat) (e' : CtrlE), s.ctrls[c']? = some e' → e'.live = true → ctrlRegion e'.c = some r →
        c' = c := by
    intro r hlv hb
    rw [bufHit_heap hlv] at hb
    have hreg : ctrlRegion e.c = some r := by simpa using hb
    have ho := hI.own r (isHeapLiveL_lt hlv)
    simp only [hlv, if_true] at ho
    have := ctrlCountL_pos_of he hl hreg
    exact ⟨hreg, by omega, fun c' e' h1 h2 h3 => ctrlCountL_unique (by omega) he hl hreg h1 h2 h3⟩
  apply Inv_kill_gen hI hi hk
  · intro j b hji hj
    refine ⟨fun r ha => ?_, fun c' hc' => hlc c' (fun h => hother j b hji hj (h ▸ hc'))⟩
    cases hb : bufHit s.regions e.c r with
    | false => rfl
    | true =>
      exfalso
      cases ha with
      | stat rg hr hkk =>
        cases hct : e.c with
        | sharedB r0 cap =>
          rw [hct] at hb hbuf; simp only [bufHit, beq_iff_eq] at hb; subst hb
          obtain ⟨rg', o, hr', _, hk'⟩ := isHeapLiveL_iff.mp hbuf.1
          rw [hr] at hr'; cases hr'; rw [hkk] at hk'; cases hk'
        | sharedV reg vlen vcap orig =>
          cases reg with
          | none => rw [hct] at hb; simp [bufHit] at hb
          | some r0 =>
            rw [hct] at hb hbuf; simp only [bufHit, beq_iff_eq] at hb; subst hb
            obtain ⟨rg', o, hr', _, hk'⟩ := isHeapLiveL_iff.mp hbuf.1
            rw [hr] at hr'; cases hr'; rw [hkk] at hk'; cases hk'
        | owned o => rw [hct] at hb; simp [bufHit, kindL, hr, hkk] at hb
      | own c2 o2 rg hc2 hl2 hr hkk =>
        cases hct : e.c with
        | sharedB r0 cap =>
          rw [hct] at hb hbuf; simp only [bufHit, beq_iff_eq] at hb; subst hb
          obtain ⟨rg', o, hr', _, hk'⟩ := isHeapLiveL_iff.mp hbuf.1
          rw [hr] at hr'; cases hr'; rw [hkk] at hk'; cases hk'
        | sharedV reg vlen vcap orig =>
          cases reg with
          | none => rw [hct] at hb; simp [bufHit] at hb
          | some r0 =>
            rw [hct] at hb hbuf; simp only [bufHit, beq_iff_eq] at hb; subst hb
            obtain ⟨rg', o, hr', _, hk'⟩ := isHeapLiveL_iff.mp hbuf.1
            rw [hr] at hr'; cases hr'; rw [hkk] at hk'; cases hk'
        | owned o =>
          rw [hct] at hb; simp [bufHit, kindL, hr, hkk] at hb; subst hb
          have : liveCtrlL s.ctrls c = some (.owned o2) := by rw [liveCtrlL_of he hl, hct]
          exact hother j b hji hj (hI.odist c2 c o2 hl2 this ▸ hc2)
      | direct hdb hlv =>
        obtain ⟨_, h0, _⟩ := hheap r hlv hb
        exact dirCountL_eq_zero.mp h0 j b hj hdb
      | ctrl c2 ct2 hc2 hl2 hr2 hlv =>
        obtain ⟨_, _, hu⟩ := hheap r hlv hb
        obtain ⟨e2, h3, h4, h5⟩ := liveCtrlL_some_iff.mp hl2
        subst h5
        exact hother j b hji hj (hu c2 e2 h3 h4 hr2 ▸ hc2)
  · intro c' e' he' hl'
    by_cases hcc : c' = c
    · subst hcc; rw [lookup_set_eq _ he] at he'; cases he'; cases hl'
    · rw [lookup_set_ne _ (Ne.symm hcc)] at he'
      have hkk := refCountL_kill c' hi
      have : ctrlOf h ≠ some c' := by rw [hc]; simpa using Ne.symm hcc
      simp only [this, if_false, Nat.add_zero] at hkk
      obtain ⟨h2, h3, h4⟩ := hI.cok c' e' he' hl'
      refine ⟨by rw [hkk]; exact h2, h3, ctrlBufOK_killed hk h4 ?_⟩
      intro r hrr
      cases hb : bufHit s.regions e.c r with
      | false => rfl
      | true =>
        exfalso
        have hlv : isHeapLiveL s.regions r = true := by
          cases hct : e'.c with
          | sharedB r0 cap => rw [hct] at h4 hrr; simp [ctrlRegion] at hrr; subst hrr; exact h4.1
          | sharedV reg vlen vcap orig =>
            rw [hct] at h4 hrr; simp [ctrlRegion] at hrr; subst hrr; exact h4.1
          | owned o => rw [hct] at hrr; simp [ctrlRegion] at hrr
        exact hcc ((hheap r hlv hb).2.2 c' e' he' hl' hrr)
  · intro r hrlt
    have hkk := dirCountL_kill r hi
    simp only [hd, reduceCtorEq, if_false, Nat.add_zero] at hkk
    have ho := hI.own r hrlt
    have hcs := ctrlCountL_set ⟨e.c, 0, false⟩ r he
    simp only [hl, Bool.true_and, Bool.false_and, Bool.false_eq_true, if_false, Nat.add_zero] at hcs
    rw [hk.isHeapLiveL_eq, hkk]
    by_cases hlv : isHeapLiveL s.regions r = true
    · simp only [hlv, if_true, Bool.true_and] at ho ⊢
      rw [bufHit_heap hlv]
      by_cases hreg : ctrlRegion e.c = some r
      · simp [hreg] at hcs ⊢; omega
      · have : (ctrlRegion e.c == some r) = false := by simpa using hreg
        simp [this] at hcs ⊢; omega
    · have hlv' : isHeapLiveL s.regions r = false := by simpa using hlv
      simp only [hlv', Bool.false_and, Bool.false_eq_true, if_false] at ho ⊢
      have : ctrlRegion e.c ≠ some r := by
        intro hreg
        have := ctrlCountL_pos_of he hl hreg
        omega
      have : (ctrlRegion e.c == some r) = false := by simpa using this
      simp [this] at hcs; omega
  · intro c' ct hct
    by_cases hcc : c' = c
    · subst hcc; rw [hlcc] at hct; cases hct
    · rw [hlc c' hcc] at hct; exact hct


/-- X1 for one handle -/
def statOK (R : List Region) : Handle → Prop
  | .bytes .static (some r) _ len => len ≠ 0 → kindL R r = some .static
  | _ => True

theorem Inv.statOK {s : St} (hI : Inv s) {i : Nat} {h : Handle} (hi : s.hs[i]? = some (some h)) :
    statOK s.regions h := by
  cases h with
  | bytes repr reg off len =>
    cases repr with
    | «static» =>
      cases reg with
      | none => trivial
      | some r => exact fun hl => hI.stat i r off len hi hl
    | _ => trivial
  | _ => trivial

theorem statOK_of_ctrl {R : List Region} {h : Handle} {c : Nat} (hc : ctrlOf h = some c) : statOK R h := by
  cases h with
  | bytes repr reg off len =>
    cases repr with
    | «static» => simp [ctrlOf] at hc
    | _ => trivial
  | _ => trivial

/-- reading X1 back from `statOK` for a list of handles -/
theorem stat_of_statOK {R : List Region} {hs : List (Option Handle)}
    (h : ∀ (j : Nat) (b : Handle), hs[j]? = some (some b) → statOK R b) :
    ∀ (i r off len : Nat), hs[i]? = some (some (.bytes .static (some r) off len)) → len ≠ 0 →
      kindL R r = some .static :=
  fun i r off len hi hl => h i _ hi hl


/-- T5/T9: replace slot `i` by `h1` and append `h2`, where `{h1, h2}` hold together exactly the
resources of the old handle `h` (no reference count changes).  Covers: clone / split of STATIC
handles, the `k = 0` and `k = len` cases of `split_off`/`split_to` (one of the two is an empty STATIC
handle), and with `h1 = h` (`set_self`) a plain push. -/
theorem Inv_set_push_plain {s : St} (hI : Inv s) {i : Nat} {h h1 h2 : Handle}
    (hi : s.hs[i]? = some (some h))
    (hc : ∀ c, (if ctrlOf h1 = some c then 1 else 0) + (if ctrlOf h2 = some c then 1 else 0) =
      (if ctrlOf h = some c then 1 else 0))
    (hd : ∀ r, (if directRegion h1 = some r then 1 else 0) + (if directRegion h2 = some r then 1 else 0) =
      (if directRegion h = some r then 1 else 0))
    (ok1 : handleOKL s.regions s.ctrls h1 = true) (ok2 : handleOKL s.regions s.ctrls h2 = true)
    (st1 : statOK s.regions h1) (st2 : statOK s.regions h2)
    (s1 : spanSub h1 h) (s2 : spanSub h2 h)
    (m1 : isMutable h1 = true → isMutable h = true) (m2 : isMutable h2 = true → isMutable h = true)
    (d12 : isMutable h1 = true → disjointB h1 h2 = true)
    (d21 : isMutable h2 = true → disjointB h2 h1 = true) (ev : List Ev) :
    Inv ⟨s.regions, s.ctrls, s.hs.set i (some h1) ++ [some h2], s.owners, ev⟩ := by
  have hall : ∀ (j : Nat) (b : Handle), (s.hs.set i (some h1) ++ [some h2])[j]? = some (some b) →
      b = h2 ∨ b = h1 ∨ ∃ j' : Nat, s.hs[j']? = some (some b) := by
    intro j b hj
    rcases hs_push_cases hj with ⟨_, h3⟩ | ⟨_, hj'⟩
    · cases h3; exact .inl rfl
    · rcases hs_set_cases hj' with ⟨_, h3, _⟩ | ⟨_, hj''⟩
      · cases h3; exact .inr (.inl rfl)
      · exact .inr (.inr ⟨j, hj''⟩)
  constructor
  · exact hI.regs
  · intro j b hj
    rcases hall j b hj with rfl | rfl | ⟨j', hj'⟩
    · exact ok2
    · exact ok1
    · exact hI.hok j' b hj'
  · intro c e he hl
    have := refCountL_set_some h1 c hi
    have h3 := hc c
    obtain ⟨h4, h5, h6⟩ := hI.cok c e he hl
    refine ⟨?_, h5, h6⟩
    simp only [refCountL_push]; omega
  · intro r hr
    have := dirCountL_set_some h1 r hi
    have h3 := hd r
    have h4 := hI.own r hr
    simp only [dirCountL_push]; omega
  · exact Excl_split hI.excl hi s1 s2 m1 m2 d12 d21
  · apply stat_of_statOK
    intro j b hj
    rcases hall j b hj with rfl | rfl | ⟨j', hj'⟩
    · exact st2
    · exact st1
    · exact hI.statOK hj'
  · exact hI.odist

/-- T6: replace slot `i` by `h1` and append `h2`; all three name control block `c`, whose count
goes up by one.  Covers `clone`/`slice`/`split_off`/`split_to` of shared Bytes and of KIND_ARC
BytesMut (take `h1 = h` and `set_self` for a plain clone). -/
theorem Inv_set_push_share {s : St} (hI : Inv s) {i : Nat} {h h1 h2 : Handle} {c : Nat} {e : CtrlE}
    (hi : s.hs[i]? = some (some h)) (he : s.ctrls[c]? = some e)
    (hc : ctrlOf h = some c) (hc1 : ctrlOf h1 = some c) (hc2 : ctrlOf h2 = some c)
    (ok1 : handleOKL s.regions s.ctrls h1 = true) (ok2 : handleOKL s.regions s.ctrls h2 = true)
    (s1 : spanSub h1 h) (s2 : spanSub h2 h)
    (m1 : isMutable h1 = true → isMutable h = true) (m2 : isMutable h2 = true → isMutable h = true)
    (d12 : isMutable h1 = true → disjointB h1 h2 = true)
    (d21 : isMutable h2 = true → disjointB h2 h1 = true) (ev : List Ev) :
    Inv ⟨s.regions, s.ctrls.set c { e with rc := e.rc + 1 }, s.hs.set i (some h1) ++ [some h2],
      s.owners, ev⟩ := by
  have hlc : ∀ c', liveCtrlL (s.ctrls.set c { e with rc := e.rc + 1 }) c' = liveCtrlL s.ctrls c' :=
    fun c' => liveCtrlL_set_rc _ c' he
  have hokc : ∀ b, handleOKL s.regions (s.ctrls.set c { e with rc := e.rc + 1 }) b =
      handleOKL s.regions s.ctrls b :=
    fun b => handleOKL_of_lookup (fun _ _ _ => rfl) (fun c' _ => hlc c')
  have hall : ∀ (j : Nat) (b : Handle), (s.hs.set i (some h1) ++ [some h2])[j]? = some (some b) →
      b = h2 ∨ b = h1 ∨ ∃ j' : Nat, s.hs[j']? = some (some b) := by
    intro j b hj
    rcases hs_push_cases hj with ⟨_, h3⟩ | ⟨_, hj'⟩
    · cases h3; exact .inl rfl
    · rcases hs_set_cases hj' with ⟨_, h3, _⟩ | ⟨_, hj''⟩
      · cases h3; exact .inr (.inl rfl)
      · exact .inr (.inr ⟨j, hj''⟩)
  have hd := ctrlOf_some_direct_none hc
  have hd1 := ctrlOf_some_direct_none hc1
  have hd2 := ctrlOf_some_direct_none hc2
  constructor
  · exact hI.regs
  · intro j b hj
    rw [hokc]
    rcases hall j b hj with rfl | rfl | ⟨j', hj'⟩
    · exact ok2
    · exact ok1
    · exact hI.hok j' b hj'
  · intro c' e' he' hl'
    have := refCountL_set_some h1 c' hi
    simp only [hc, hc1, Option.some.injEq] at this
    simp only [refCountL_push, hc2, Option.some.injEq]
    by_cases hcc : c = c'
    · subst hcc
      rw [lookup_set_eq _ he] at he'; cases he'
      obtain ⟨h4, h5, h6⟩ := hI.cok c e he hl'
      simp only [if_true] at this ⊢
      exact ⟨by show e.rc + 1 = _; omega, by show 1 ≤ e.rc + 1; omega, h6⟩
    · rw [lookup_set_ne _ hcc] at he'
      obtain ⟨h4, h5, h6⟩ := hI.cok c' e' he' hl'
      simp only [hcc, if_false] at this ⊢
      exact ⟨by omega, h5, h6⟩
  · intro r hr
    have := dirCountL_set_some h1 r hi
    have h4 := hI.own r hr
    rw [ctrlCountL_set_same (e' := { e with rc := e.rc + 1 }) r he rfl rfl]
    simp only [hd, hd1, reduceCtorEq, if_false, Nat.add_zero] at this
    simp only [dirCountL_push, hd2, reduceCtorEq, if_false, Nat.add_zero, this]; exact h4
  · exact Excl_split hI.excl hi s1 s2 m1 m2 d12 d21
  · apply stat_of_statOK
    intro j b hj
    rcases hall j b hj with rfl | rfl | ⟨j', hj'⟩
    · exact statOK_of_ctrl hc2
    · exact statOK_of_ctrl hc1
    · exact hI.statOK hj'
  · intro c1 c2 o h1 h2; rw [hlc] at h1 h2; exact hI.odist c1 c2 o h1 h2


theorem ctrlCountL_append_nil (C : List CtrlE) (r : Nat) : ctrlCountL (C ++ []) r = ctrlCountL C r := by
  simp

/-- T8: the handle in slot `i` owns its buffer directly (`directRegion h = ctrlRegion ct`) and hands
it to a fresh control block `ct` with count 1 (`promote_to_shared`, `shallow_clone_vec`,
`Bytes::from(Vec)` with spare capacity, `freeze`); `h'` is the replacement handle naming the new
block `s.ctrls.length`; its span lies inside the old one. -/
theorem Inv_promote {s : St} (hI : Inv s) {i : Nat} {h h' : Handle} {ct : Ctrl}
    (hi : s.hs[i]? = some (some h))
    (hc : ctrlOf h = none) (hd : directRegion h = ctrlRegion ct)
    (hc' : ctrlOf h' = some s.ctrls.length)
    (hsub : spanSub h' h) (hm : isMutable h' = true → isMutable h = true)
    (ok : handleOKL s.regions (s.ctrls ++ [⟨ct, 1, true⟩]) h' = true)
    (hb : ctrlBufOK s.regions s.owners ct) (hno : ∀ o, ct ≠ .owned o) (ev : List Ev) :
    Inv ⟨s.regions, s.ctrls ++ [⟨ct, 1, true⟩], s.hs.set i (some h'), s.owners, ev⟩ := by
  have hd' := ctrlOf_some_direct_none hc'
  constructor
  · exact hI.regs
  · intro j b hj
    rcases hs_set_cases hj with ⟨_, h3, _⟩ | ⟨_, hj'⟩
    · cases h3; exact ok
    · have := handleOKL_append (R := s.regions) [] [⟨ct, 1, true⟩] (hI.hok j b hj')
      simpa using this
  · intro c e he hl
    have hk := refCountL_set_some h' c hi
    simp only [hc, reduceCtorEq, if_false, Nat.add_zero, hc', Option.some.injEq] at hk
    by_cases hcl : c < s.ctrls.length
    · rw [lookup_append_left _ hcl] at he
      have : s.ctrls.length ≠ c := by omega
      simp only [this, if_false, Nat.add_zero] at hk
      rw [hk]; exact hI.cok c e he hl
    · have hcc : c = s.ctrls.length := by
        have := lookup_lt he; simp at this; omega
      subst hcc
      rw [lookup_append_new] at he; cases he
      simp only [if_true] at hk
      rw [hk, hI.ref_fresh (Nat.le_refl _)]
      exact ⟨rfl, Nat.le_refl _, hb⟩
  · intro r hr
    have hk := dirCountL_set_some h' r hi
    simp only [hd', reduceCtorEq, if_false, Nat.add_zero] at hk
    have ho := hI.own r hr
    simp only [ctrlCountL_push, Bool.true_and, beq_iff_eq, ← hd]
    omega
  · exact Excl_set_sub hI.excl hi hsub hm
  · apply stat_of_statOK
    intro j b hj
    rcases hs_set_cases hj with ⟨_, h3, _⟩ | ⟨_, hj'⟩
    · cases h3; exact statOK_of_ctrl hc'
    · exact hI.statOK hj'
  · intro c1 c2 o h1 h2
    have key : ∀ c, liveCtrlL (s.ctrls ++ [⟨ct, 1, true⟩]) c = some (.owned o) →
        liveCtrlL s.ctrls c = some (.owned o) := by
      intro c hcc
      by_cases hcl : c < s.ctrls.length
      · rwa [liveCtrlL_append _ hcl] at hcc
      · have := liveCtrlL_lt hcc; simp at this
        have hcc' : c = s.ctrls.length := by omega
        subst hcc'
        rw [liveCtrlL_new] at hcc; simp at hcc; exact (hno o hcc).elim
    exact hI.odist c1 c2 o (key c1 h1) (key c2 h2)

/-- T7: allocate a region and append a handle that owns it directly (`Vec`, KIND_VEC BytesMut, or a
promotable Bytes whose view is the whole region). -/
theorem Inv_push_fresh {s : St} (hI : Inv s) {rg : Region} {o : Bool} {h' : Handle}
    (hrg : regionOKB rg = true) (hlive : rg.live = true) (hkind : rg.kind = .heap o)
    (hc : ctrlOf h' = none) (hd : directRegion h' = some s.regions.length)
    (hsp : ∀ r o l, span h' = some (r, o, l) → r = s.regions.length)
    (ok : handleOKL (s.regions ++ [rg]) s.ctrls h' = true) (ev : List Ev) :
    Inv ⟨s.regions ++ [rg], s.ctrls, s.hs ++ [some h'], s.owners, ev⟩ ∧
    ∀ (j : Nat) (b : Handle), s.hs[j]? = some (some b) →
      viewOfL (s.regions ++ [rg]) b = viewOfL s.regions b := by
  have hview : ∀ (j : Nat) (b : Handle), s.hs[j]? = some (some b) →
      viewOfL (s.regions ++ [rg]) b = viewOfL s.regions b := by
    intro j b hj
    obtain ⟨v, hv, _⟩ := hI.view hj
    rw [hv]; exact rdL_append _ hv
  refine ⟨?_, hview⟩
  constructor
  · intro r rg' hr
    by_cases hrl : r < s.regions.length
    · rw [lookup_append_left _ hrl] at hr; exact hI.regs r rg' hr
    · have := lookup_lt hr; simp at this
      have : r = s.regions.length := by omega
      subst this; rw [lookup_append_new] at hr; cases hr; exact hrg
  · intro j b hj
    rcases hs_push_cases hj with ⟨_, h3⟩ | ⟨_, hj'⟩
    · cases h3; exact ok
    · have := handleOKL_append (C := s.ctrls) [rg] [] (hI.hok j b hj')
      simpa using this
  · intro c e he hl
    obtain ⟨h1, h2, h3⟩ := hI.cok c e he hl
    refine ⟨by simp only [refCountL_push, hc, reduceCtorEq, if_false, Nat.add_zero]; exact h1, h2, ?_⟩
    cases hct : e.c with
    | sharedB r cap =>
      rw [hct] at h3; simp only [ctrlBufOK] at h3 ⊢
      have := isHeapLiveL_lt h3.1
      rw [isHeapLiveL_append _ this, regionSizeL_append _ this]; exact h3
    | sharedV reg vlen vcap orig =>
      cases reg with
      | none => rw [hct] at h3; exact h3
      | some r =>
        rw [hct] at h3; simp only [ctrlBufOK] at h3 ⊢
        have := isHeapLiveL_lt h3.1
        rw [isHeapLiveL_append _ this, regionSizeL_append _ this]; exact h3
    | owned o => rw [hct] at h3; exact h3
  · intro r hr
    simp only [List.length_append, List.length_singleton] at hr
    simp only [dirCountL_push, hd, Option.some.injEq]
    by_cases hrl : r < s.regions.length
    · have : s.regions.length ≠ r := by omega
      simp only [this, if_false, Nat.add_zero, isHeapLiveL_append _ hrl]
      exact hI.own r hrl
    · have : r = s.regions.length := by omega
      subst this
      simp only [if_true, hI.dir_fresh (Nat.le_refl _), hI.ctrl_fresh (Nat.le_refl _),
        isHeapLiveL_new, hlive, hkind, Bool.and_self]
  · apply Excl_push hI.excl
    intro j b hj
    have key : disjointB b h' = true := by
      rw [disjointB_iff]
      intro r o l r' o' l' h1 h2
      by_cases hl0 : l = 0
      · exact .inr (.inl hl0)
      · have := hI.span_lt hj h1 hl0
        have := hsp r' o' l' h2
        left; omega
    exact ⟨fun _ => key, fun _ => by rw [disjointB_symm]; exact key⟩
  · apply stat_of_statOK
    intro j b hj
    rcases hs_push_cases hj with ⟨_, h3⟩ | ⟨_, hj'⟩
    · cases h3
      cases h' with
      | bytes repr reg off len =>
        cases repr with
        | «static» => simp [directRegion] at hd
        | _ => trivial
      | _ => trivial
    · have := hI.statOK hj'
      cases b with
      | bytes repr reg off len =>
        cases repr with
        | «static» =>
          cases reg with
          | none => trivial
          | some r =>
            intro hl
            have h5 := this hl
            have : r < s.regions.length := by
              simp only [kindL] at h5
              cases hr : s.regions[r]? with
              | none => simp [hr] at h5
              | some x => exact lookup_lt hr
            show kindL (s.regions ++ [rg]) r = _
            rw [kindL_append _ this]; exact h5
        | _ => trivial
      | _ => trivial
  · exact hI.odist


/-- T5: append a handle that holds no resource (empty STATIC `Bytes`, empty `Vec`, empty KIND_VEC
`BytesMut`, a STATIC handle into static memory); it must be exclusive against the existing slots,
which is automatic when its span is empty (`Inv_push_plain_nospan`). -/
theorem Inv_push_plain {s : St} (hI : Inv s) {h' : Handle}
    (hc : ctrlOf h' = none) (hd : directRegion h' = none)
    (ok : handleOKL s.regions s.ctrls h' = true) (st : statOK s.regions h')
    (hex : ∀ (j : Nat) (b : Handle), s.hs[j]? = some (some b) →
      (isMutable b = true → disjointB b h' = true) ∧ (isMutable h' = true → disjointB h' b = true))
    (ev : List Ev) :
    Inv ⟨s.regions, s.ctrls, s.hs ++ [some h'], s.owners, ev⟩ := by
  constructor
  · exact hI.regs
  · intro j b hj
    rcases hs_push_cases hj with ⟨_, h3⟩ | ⟨_, hj'⟩
    · cases h3; exact ok
    · exact hI.hok j b hj'
  · intro c e he hl
    simp only [refCountL_push, hc, reduceCtorEq, if_false, Nat.add_zero]
    exact hI.cok c e he hl
  · intro r hr
    simp only [dirCountL_push, hd, reduceCtorEq, if_false, Nat.add_zero]
    exact hI.own r hr
  · exact Excl_push hI.excl hex
  · apply stat_of_statOK
    intro j b hj
    rcases hs_push_cases hj with ⟨_, h3⟩ | ⟨_, hj'⟩
    · cases h3; exact st
    · exact hI.statOK hj'
  · exact hI.odist

theorem Inv_push_plain_nospan {s : St} (hI : Inv s) {h' : Handle}
    (hc : ctrlOf h' = none) (hd : directRegion h' = none)
    (ok : handleOKL s.regions s.ctrls h' = true) (st : statOK s.regions h')
    (hsp : ∀ r o l, span h' = some (r, o, l) → l = 0) (ev : List Ev) :
    Inv ⟨s.regions, s.ctrls, s.hs ++ [some h'], s.owners, ev⟩ := by
  apply Inv_push_plain hI hc hd ok st
  intro j b hj
  have key : disjointB b h' = true := by
    rw [disjointB_iff]
    intro r o l r' o' l' _ h2
    exact .inr (.inr (.inl (hsp r' o' l' h2)))
  exact ⟨fun _ => key, fun _ => by rw [disjointB_symm]; exact key⟩


/-! ### writing through a mutable handle -/

/-- the view of a handle lies inside its span -/
theorem view_in_span {R : List Region} {C : List CtrlE} {b : Handle} {r : Nat}
    (hok : handleOKL R C b = true) (hr : hreg b = some r) :
    ∃ ob lb, span b = some (r, ob, lb) ∧ ob ≤ hoff b ∧ hoff b + hlen b ≤ ob + lb := by
  cases b with
  | bytes repr reg off len =>
    simp only [hreg] at hr; subst hr
    exact ⟨off, len, rfl, Nat.le_refl _, Nat.le_refl _⟩
  | «mut» arc reg off len cap orig =>
    simp only [hreg] at hr; subst hr
    have : len ≤ cap := by
      cases arc with
      | none => exact (handleOKL_mutV.mp hok).1
      | some c => exact (handleOKL_mutA.mp hok).1
    exact ⟨off, cap, rfl, Nat.le_refl _, by simp only [hoff, hlen]; omega⟩
  | vec reg len cap =>
    simp only [hreg] at hr; subst hr
    have : len ≤ cap := (handleOKL_vec.mp hok).1
    exact ⟨0, cap, rfl, Nat.le_refl _, by simp only [hoff, hlen]; omega⟩

/-- the span of a mutable handle lies inside its (allocated) region -/
theorem Inv.span_le_size {s : St} (hI : Inv s) {i : Nat} {h : Handle} {r o c : Nat}
    (hi : s.hs[i]? = some (some h)) (hm : isMutable h = true) (hs : span h = some (r, o, c)) :
    ∃ rg k, s.regions[r]? = some rg ∧ rg.live = true ∧ rg.kind = .heap k ∧ o + c ≤ rg.size := by
  have hok := hI.hok i h hi
  cases h with
  | bytes repr reg off len => simp [isMutable] at hm
  | «mut» arc reg off len cap orig =>
    cases reg with
    | none => simp [span] at hs
    | some r' =>
      simp only [span, Option.some.injEq, Prod.mk.injEq] at hs
      obtain ⟨rfl, rfl, rfl⟩ := hs
      cases arc with
      | none =>
        obtain ⟨_, _, ⟨h1, h2⟩, _⟩ := handleOKL_mutV.mp hok
        obtain ⟨rg, k, hr, hl, hk⟩ := isHeapLiveL_iff.mp h1
        refine ⟨rg, k, hr, hl, hk, ?_⟩
        simp [regionSizeL_def, hr] at h2; omega
      | some c =>
        obtain ⟨_, ⟨vlen, vcap, vorig, h1, h2⟩, _⟩ := handleOKL_mutA.mp hok
        obtain ⟨_, _, _, _, _, _, hb⟩ := hI.cok' h1
        simp only [ctrlBufOK] at hb
        obtain ⟨rg, k, hr, hl, hk⟩ := isHeapLiveL_iff.mp hb.1
        refine ⟨rg, k, hr, hl, hk, ?_⟩
        have := hb.2; simp [regionSizeL_def, hr] at this; omega
  | vec reg len cap =>
    cases reg with
    | none => simp [span] at hs
    | some r' =>
      simp only [span, Option.some.injEq, Prod.mk.injEq] at hs
      obtain ⟨rfl, rfl, rfl⟩ := hs
      obtain ⟨_, ⟨h1, h2⟩, _⟩ := handleOKL_vec.mp hok
      obtain ⟨rg, k, hr, hl, hk⟩ := isHeapLiveL_iff.mp h1
      refine ⟨rg, k, hr, hl, hk, ?_⟩
      simp [regionSizeL_def, hr] at h2; omega

/-- T10: write `bs` at `[off, off+|bs|)` of region `r` through the mutable handle in slot `i` (the
range lies inside its span), and replace the handle by `h'` (same resources, sub-span, mutable —
e.g. a longer `len`).  Exclusivity guarantees that no other handle sees the write.  `ok` (the new
handle is fine in the new memory) is the caller's obligation: use `rdL_set_data` for the old part of
the view and `write_slice` for the written part. -/
theorem Inv_write_set {s : St} (hI : Inv s) {i : Nat} {h h' : Handle} {r o0 c0 off : Nat}
    {rg : Region} {bs : List Byte}
    (hi : s.hs[i]? = some (some h)) (hm : isMutable h = true) (hsp : span h = some (r, o0, c0))
    (hr : s.regions[r]? = some rg) (hin : o0 ≤ off ∧ off + bs.length ≤ o0 + c0)
    (hc : ctrlOf h' = ctrlOf h) (hd : directRegion h' = directRegion h)
    (hsub : spanSub h' h) (hm' : isMutable h' = true)
    (ok : handleOKL (s.regions.set r (rg.write off bs)) s.ctrls h' = true) (ev : List Ev) :
    Inv ⟨s.regions.set r (rg.write off bs), s.ctrls, s.hs.set i (some h'), s.owners, ev⟩ ∧
    ∀ (j : Nat) (b : Handle), j ≠ i → s.hs[j]? = some (some b) →
      viewOfL (s.regions.set r (rg.write off bs)) b = viewOfL s.regions b := by
  obtain ⟨rg', kk, hr', hlive, hkind, hsz⟩ := hI.span_le_size hi hm hsp
  rw [hr] at hr'; cases hr'
  have hdl := (region_size_le hI.regs hr).2
  have hb : off + (bs.map some).length ≤ rg.data.length := by simp; omega
  have hmeta : ∀ r', metaL (s.regions.set r (rg.write off bs)) r' = metaL s.regions r' :=
    fun r' => metaL_set_data _ r' hr
  have hview : ∀ (j : Nat) (b : Handle), j ≠ i → s.hs[j]? = some (some b) →
      rdL (s.regions.set r (rg.write off bs)) (hreg b) (hoff b) (hlen b) =
        rdL s.regions (hreg b) (hoff b) (hlen b) := by
    intro j b hji hj
    rw [Region.write_eq]
    apply rdL_set_data hr
    intro hrb k hk1 hk2
    obtain ⟨ob, lb, hsb, h1, h2⟩ := view_in_span (hI.hok j b hj) hrb
    have hdis := disjointB_iff.mp (hI.excl i j h b hi hj (Ne.symm hji) hm) r o0 c0 r ob lb hsp hsb
    have hw := write_getElem? rg.data (bs.map some) off k hb
    simp only [List.length_map] at hw
    rw [hw]
    split
    · rfl
    · split
      · exfalso; omega
      · rfl
  refine ⟨?_, hview⟩
  constructor
  · intro r' rg' hr'
    by_cases hrr : r = r'
    · subst hrr; rw [lookup_set_eq _ hr] at hr'; cases hr'
      have := hI.regs r rg hr
      simp only [regionOKB, Bool.and_eq_true, beq_iff_eq, decide_eq_true_eq] at this ⊢
      refine ⟨⟨?_, this.1.2⟩, this.2⟩
      rw [Region.write_data, Region.write_size, ← List.length_map (f := some) (as := bs),
        write_length _ _ _ hb]
      exact this.1.1
    · rw [lookup_set_ne _ hrr] at hr'; exact hI.regs r' rg' hr'
  · intro j b hj
    rcases hs_set_cases hj with ⟨_, h3, _⟩ | ⟨hji, hj'⟩
    · cases h3; exact ok
    · rw [handleOKL_frame (R := s.regions) (C := s.ctrls) (fun r' _ _ => hmeta r')
        (by rw [hview j b hji hj']) (fun _ _ => rfl)]
      exact hI.hok j b hj'
  · intro c e he hl
    obtain ⟨h1, h2, h3⟩ := hI.cok c e he hl
    refine ⟨by rw [refCountL_set_same hi hc]; exact h1, h2, ?_⟩
    cases hct : e.c with
    | sharedB r' cap =>
      rw [hct] at h3; simp only [ctrlBufOK] at h3 ⊢
      rw [isHeapLiveL_of_meta (hmeta r'), regionSizeL_of_meta (hmeta r')]; exact h3
    | sharedV reg vlen vcap orig =>
      cases reg with
      | none => rw [hct] at h3; exact h3
      | some r' =>
        rw [hct] at h3; simp only [ctrlBufOK] at h3 ⊢
        rw [isHeapLiveL_of_meta (hmeta r'), regionSizeL_of_meta (hmeta r')]; exact h3
    | owned o => rw [hct] at h3; exact h3
  · intro r' hr'
    simp only [List.length_set] at hr'
    rw [dirCountL_set_same hi hd, isHeapLiveL_of_meta (hmeta r')]; exact hI.own r' hr'
  · exact Excl_set_sub hI.excl hi hsub (fun _ => hm)
  · apply stat_of_statOK
    intro j b hj
    rcases hs_set_cases hj with ⟨_, h3, _⟩ | ⟨_, hj'⟩
    · cases h3
      cases h' with
      | bytes => simp [isMutable] at hm'
      | _ => trivial
    · have := hI.statOK hj'
      cases b with
      | bytes repr reg off' len' =>
        cases repr with
        | «static» =>
          cases reg with
          | none => trivial
          | some r' =>
            intro hl'; show kindL _ r' = _
            rw [kindL_of_meta (hmeta r')]; exact this hl'
        | _ => trivial
      | _ => trivial
  · exact hI.odist


/-- T9: replace slot `i` by a handle with the same resources whose span lies inside the old one
and which is mutable only if the old one was (`truncate`, `clear`, `advance`, `resize` shrinking,
`freeze` of a KIND_ARC BytesMut, `Bytes::from(Vec)` with `len == cap`, …). -/
theorem Inv_set_sub {s : St} (hI : Inv s) {i : Nat} {h h' : Handle} (hi : s.hs[i]? = some (some h))
    (hc : ctrlOf h' = ctrlOf h) (hd : directRegion h' = directRegion h)
    (ok : handleOKL s.regions s.ctrls h' = true) (st : statOK s.regions h')
    (hsub : spanSub h' h) (hm : isMutable h' = true → isMutable h = true) (ev : List Ev) :
    Inv ⟨s.regions, s.ctrls, s.hs.set i (some h'), s.owners, ev⟩ := by
  constructor
  · exact hI.regs
  · intro j b hj
    rcases hs_set_cases hj with ⟨_, h3, _⟩ | ⟨_, hj'⟩
    · cases h3; exact ok
    · exact hI.hok j b hj'
  · intro c e he hl
    rw [refCountL_set_same hi hc]; exact hI.cok c e he hl
  · intro r hr
    rw [dirCountL_set_same hi hd]; exact hI.own r hr
  · exact Excl_set_sub hI.excl hi hsub hm
  · apply stat_of_statOK
    intro j b hj
    rcases hs_set_cases hj with ⟨_, h3, _⟩ | ⟨_, hj'⟩
    · cases h3; exact st
    · exact hI.statOK hj'
  · exact hI.odist

/-- `owners` only bounds the owner ids in use: it may grow -/
theorem Inv_owners_mono {s : St} (hI : Inv s) {ow : Nat} (h : s.owners ≤ ow) (ev : List Ev) :
    Inv ⟨s.regions, s.ctrls, s.hs, ow, ev⟩ := by
  refine ⟨hI.regs, hI.hok, ?_, hI.own, hI.excl, hI.stat, hI.odist⟩
  intro c e he hl
  obtain ⟨h1, h2, h3⟩ := hI.cok c e he hl
  refine ⟨h1, h2, ?_⟩
  cases hct : e.c with
  | sharedB r cap => rw [hct] at h3; exact h3
  | sharedV reg vlen vcap orig => rw [hct] at h3; cases reg <;> exact h3
  | owned o => rw [hct] at h3; simp only [ctrlBufOK] at h3 ⊢; omega

/-- events are irrelevant -/
theorem Inv_events {s : St} (hI : Inv s) (ev : List Ev) :
    Inv ⟨s.regions, s.ctrls, s.hs, s.owners, ev⟩ :=
  ⟨hI.regs, hI.hok, hI.cok, hI.own, hI.excl, hI.stat, hI.odist⟩

/-! ### filling an empty slot

`into_vec`, `into_mut`, `reserve` … consume the handle in slot `i` and put a new one there.  Model
this as a kill transition (T1–T4, slot becomes `none`) followed by a fill. -/

theorem Excl_fill {hs : List (Option Handle)} {i : Nat} {h' : Handle} (he : Excl hs)
    (hn : ∀ (j : Nat) (b : Handle), j ≠ i → hs[j]? = some (some b) →
      (isMutable b = true → disjointB b h' = true) ∧ (isMutable h' = true → disjointB h' b = true)) :
    Excl (hs.set i (some h')) := Excl_set he hn

/-- fill an empty slot with a handle holding no resource -/
theorem Inv_fill_plain {s : St} (hI : Inv s) {i : Nat} {h' : Handle} (hi : s.hs[i]? = some none)
    (hc : ctrlOf h' = none) (hd : directRegion h' = none)
    (ok : handleOKL s.regions s.ctrls h' = true) (st : statOK s.regions h')
    (hsp : ∀ r o l, span h' = some (r, o, l) → l = 0) (ev : List Ev) :
    Inv ⟨s.regions, s.ctrls, s.hs.set i (some h'), s.owners, ev⟩ := by
  constructor
  · exact hI.regs
  · intro j b hj
    rcases hs_set_cases hj with ⟨_, h3, _⟩ | ⟨_, hj'⟩
    · cases h3; exact ok
    · exact hI.hok j b hj'
  · intro c e he hl
    have := refCountL_set (some h') c hi
    simp only [optCount_none, optCount_some, beq_iff_eq, hc, reduceCtorEq, if_false, Nat.add_zero] at this
    rw [this]; exact hI.cok c e he hl
  · intro r hr
    have := dirCountL_set (some h') r hi
    simp only [optCount_none, optCount_some, beq_iff_eq, hd, reduceCtorEq, if_false, Nat.add_zero] at this
    rw [this]; exact hI.own r hr
  · apply Excl_set hI.excl
    intro j b _ hj
    have key : disjointB b h' = true := by
      rw [disjointB_iff]
      intro r o l r' o' l' _ h2
      exact .inr (.inr (.inl (hsp r' o' l' h2)))
    exact ⟨fun _ => key, fun _ => by rw [disjointB_symm]; exact key⟩
  · apply stat_of_statOK
    intro j b hj
    rcases hs_set_cases hj with ⟨_, h3, _⟩ | ⟨_, hj'⟩
    · cases h3; exact st
    · exact hI.statOK hj'
  · exact hI.odist

/-- allocate a region and fill an empty slot with a handle that owns it directly -/
theorem Inv_fill_fresh {s : St} (hI : Inv s) {i : Nat} {rg : Region} {o : Bool} {h' : Handle}
    (hi : s.hs[i]? = some none)
    (hrg : regionOKB rg = true) (hlive : rg.live = true) (hkind : rg.kind = .heap o)
    (hc : ctrlOf h' = none) (hd : directRegion h' = some s.regions.length)
    (hsp : ∀ r o l, span h' = some (r, o, l) → r = s.regions.length)
    (ok : handleOKL (s.regions ++ [rg]) s.ctrls h' = true) (ev : List Ev) :
    Inv ⟨s.regions ++ [rg], s.ctrls, s.hs.set i (some h'), s.owners, ev⟩ ∧
    ∀ (j : Nat) (b : Handle), s.hs[j]? = some (some b) →
      viewOfL (s.regions ++ [rg]) b = viewOfL s.regions b := by
  -- same proof as `Inv_push_fresh`, with `set` instead of append
  have hview : ∀ (j : Nat) (b : Handle), s.hs[j]? = some (some b) →
      viewOfL (s.regions ++ [rg]) b = viewOfL s.regions b := by
    intro j b hj
    obtain ⟨v, hv, _⟩ := hI.view hj
    rw [hv]; exact rdL_append _ hv
  refine ⟨?_, hview⟩
  have hpush := (Inv_push_fresh hI hrg hlive hkind hc hd hsp ok ev).1
  constructor
  · exact hpush.regs
  · intro j b hj
    rcases hs_set_cases hj with ⟨_, h3, _⟩ | ⟨_, hj'⟩
    · cases h3; exact ok
    · exact hpush.hok j b (lookup_append_of_some _ hj')
  · intro c e he hl
    have h1 := refCountL_set (some h') c hi
    simp only [optCount_none, optCount_some, beq_iff_eq, hc, reduceCtorEq, if_false, Nat.add_zero] at h1
    have h2 := hpush.cok c e he hl
    simp only [refCountL_push, hc, reduceCtorEq, if_false, Nat.add_zero] at h2
    rw [h1]; exact h2
  · intro r hr
    have h1 := dirCountL_set (some h') r hi
    simp only [optCount_none, optCount_some, beq_iff_eq, Nat.add_zero] at h1
    have h2 := hpush.own r hr
    simp only [dirCountL_push] at h2
    rw [h1]; exact h2
  · apply Excl_set hI.excl
    intro j b _ hj
    have key : disjointB b h' = true := by
      rw [disjointB_iff]
      intro r o l r' o' l' h1 h2
      by_cases hl0 : l = 0
      · exact .inr (.inl hl0)
      · have := hI.span_lt hj h1 hl0
        have := hsp r' o' l' h2
        left; omega
    exact ⟨fun _ => key, fun _ => by rw [disjointB_symm]; exact key⟩
  · apply stat_of_statOK
    intro j b hj
    rcases hs_set_cases hj with ⟨_, h3, _⟩ | ⟨_, hj'⟩
    · cases h3
      cases h' with
      | bytes repr reg off len =>
        cases repr with
        | «static» => simp [directRegion] at hd
        | _ => trivial
      | _ => trivial
    · exact (Inv.statOK hpush (lookup_append_of_some _ hj'))
  · exact hI.odist

/-! ### sole ownership

A handle that is the only owner of region `r` (directly, or through a control block with count 1)
may do what it likes with the whole region: nobody else has a non-empty view or span in it.  Use
these for `into_vec` / `into_mut` / `reserve`'s in-place paths, where the written range is *not*
inside the span of the handle and exclusivity does not apply. -/

/-- every handle with a non-empty span in region `r` is anchored there -/
theorem Inv.anchor_span {s : St} (hI : Inv s) {j : Nat} {b : Handle} {r o l : Nat}
    (hj : s.hs[j]? = some (some b)) (hs : span b = some (r, o, l)) (hl : l ≠ 0) :
    Anchor s.regions s.ctrls b r := by
  have hok := hI.hok j b hj
  cases b with
  | bytes repr reg off len =>
    cases reg with
    | none => simp [span] at hs
    | some r' =>
      simp only [span, Option.some.injEq, Prod.mk.injEq] at hs
      obtain ⟨rfl, rfl, rfl⟩ := hs
      exact hI.anchor hj rfl (.inr hl)
  | «mut» arc reg off len cap orig =>
    cases reg with
    | none => simp [span] at hs
    | some r' =>
      simp only [span, Option.some.injEq, Prod.mk.injEq] at hs
      obtain ⟨rfl, rfl, rfl⟩ := hs
      cases arc with
      | none => exact hI.anchor hj rfl (.inl rfl)
      | some c =>
        obtain ⟨_, ⟨vlen, vcap, vorig, h1, _⟩, _⟩ := handleOKL_mutA.mp hok
        obtain ⟨_, _, _, _, _, _, hb⟩ := hI.cok' h1
        exact .ctrl c _ rfl h1 rfl hb.1
  | vec reg len cap =>
    cases reg with
    | none => simp [span] at hs
    | some r' =>
      simp only [span, Option.some.injEq, Prod.mk.injEq] at hs
      obtain ⟨rfl, rfl, rfl⟩ := hs
      exact hI.anchor hj rfl (.inl rfl)

/-- slot `i` owns `r` directly: no other slot is anchored in `r` -/
theorem Inv.alone_direct {s : St} (hI : Inv s) {i j : Nat} {h b : Handle} {r : Nat}
    (hi : s.hs[i]? = some (some h)) (hd : directRegion h = some r)
    (hji : j ≠ i) (hj : s.hs[j]? = some (some b)) : ¬ Anchor s.regions s.ctrls b r := by
  intro ha
  have hlive : isHeapLiveL s.regions r = true := handleOKL_direct (hI.hok i h hi) hd
  have hown := hI.own r (isHeapLiveL_lt hlive)
  simp only [hlive, if_true] at hown
  have hdir : 1 ≤ dirCountL s.hs r := dirCountL_pos_of hi hd
  rcases ha.heap_cases hlive with h1 | ⟨c, e, _, h2, h3, h4⟩
  · exact hji (dirCountL_unique (by omega) hi hd hj h1)
  · have := ctrlCountL_pos_of h2 h3 h4; omega

/-- slot `i` holds the only reference to control block `c` whose buffer is `r`: no other slot is
anchored in `r` -/
theorem Inv.alone_ctrl {s : St} (hI : Inv s) {i j : Nat} {h b : Handle} {c r : Nat} {e : CtrlE}
    (hi : s.hs[i]? = some (some h)) (hc : ctrlOf h = some c) (he : s.ctrls[c]? = some e)
    (hl : e.live = true) (h1 : e.rc = 1) (hr : ctrlRegion e.c = some r)
    (hji : j ≠ i) (hj : s.hs[j]? = some (some b)) : ¬ Anchor s.regions s.ctrls b r := by
  intro ha
  obtain ⟨hrc, _, hbuf⟩ := hI.cok c e he hl
  have hlive : isHeapLiveL s.regions r = true := by
    cases hct : e.c with
    | sharedB r0 cap => rw [hct] at hbuf hr; simp [ctrlRegion] at hr; subst hr; exact hbuf.1
    | sharedV reg vlen vcap orig => rw [hct] at hbuf hr; simp [ctrlRegion] at hr; subst hr; exact hbuf.1
    | owned o => rw [hct] at hr; simp [ctrlRegion] at hr
  have hown := hI.own r (isHeapLiveL_lt hlive)
  simp only [hlive, if_true] at hown
  have hcc := ctrlCountL_pos_of he hl hr
  rcases ha.heap_cases hlive with h2 | ⟨c2, e2, hc2, h3, h4, h5⟩
  · have := dirCountL_pos_of hj h2; omega
  · have : c2 = c := ctrlCountL_unique (by omega) he hl hr h3 h4 h5
    subst this
    exact hji (refCountL_unique (by omega) hi hc hj hc2)

/-! ### `freeBuf` commutes with allocation -/

theorem freeBuf_append {R : List Region} {ct : Ctrl} {rg : Region} {o : Bool}
    (hk : rg.kind = .heap o) (hlt : ∀ r, ctrlRegion ct = some r → r < R.length) :
    freeBuf (R ++ [rg]) ct = freeBuf R ct ++ [rg] := by
  cases ct with
  | sharedB r0 cap =>
    have := hlt r0 rfl
    simp only [freeBuf, lookup_append_left _ this]
    cases hr : R[r0]? with
    | none => rfl
    | some x => simp [this]
  | sharedV reg vlen vcap orig =>
    cases reg with
    | none => rfl
    | some r0 =>
      have := hlt r0 rfl
      simp only [freeBuf, lookup_append_left _ this]
      cases hr : R[r0]? with
      | none => rfl
      | some x => simp [this]
  | owned ow => simp [freeBuf, hk]


end BytesVerif.Core
